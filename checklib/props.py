# Per-property configuration of ./check (builds, concurrency, evidence texts).
ALL3 = [["verif"], ["verif", "noadx"], ["verif", "amd64_adx"]]

PROPS = {
    "C01": dict(builds=[["verif"]], builds_thorough=ALL3),
    "C02": dict(),
    "C03": dict(level_without_proofs="fault_enumeration"),
    "C04": dict(),
    "C05": dict(builds=[["verif"], ["verif", "noadx"]], builds_thorough=ALL3),
    "C06": dict(),
    "C07": dict(),
    "C08": dict(),
    "C09": dict(),
    "C10": dict(),
    "C11": dict(),
    "C12": dict(),
    "C13": dict(),
    "C14": dict(),
    "C15": dict(),
    "C16": dict(),
    "C17": dict(race=True, conc=16, conc_thorough=64),
    "C18": dict(),
    "C19": dict(),
    "C20": dict(),
}
