#!/usr/bin/env python3
"""Regenerates /verif/MANIFEST.json from checklib/props.py (single source of per-property texts)."""
import json, os, sys
sys.path.insert(0, os.path.dirname(os.path.abspath(__file__)))
from props import PROPS
VERIF = os.path.dirname(os.path.dirname(os.path.abspath(__file__)))

checks = []
for pid in sorted(PROPS):
    c = PROPS[pid]
    checks.append({
        "property_id": pid,
        "quick_cmd": f"./check {pid} --tier quick",
        "thorough_cmd": f"./check {pid} --tier thorough",
        "evidence_file": f"/verif/evidence/{pid}.json",
        "replay_cmd_template": f"./check {pid} --replay {{path}}",
        "engine": "lean4-proof+correspondence",
        "level_claimed": {
            "category": c.get("category", "translation_validation"),
            "text": c.get("text", "Executable Lean 4 model of the Go code, compared with the real library in-process on structure-aware generated inputs (correspondence); theorems for this property are being added."),
            "design_ref": c.get("design_ref", "DESIGN.md §5-" + pid),
        },
        "level_note": c.get("note", "Trusted: Lean kernel, translators T1/T2/T4, correspondence harness; math/big, encoding/hex, sha3, blake512 and the Go runtime are modelled, not verified."),
        "technique": c.get("technique", "Lean 4 executable model + differential correspondence against the Go library"),
    })

manifest = {
    "version": 1,
    "setup_cmd": "./check setup",
    "hooks": {
        "guard": "verif",
        "enable": "go build -tags verif (the harness module in /verif/harness replaces the library module by /repo)",
        "baseline_off_cmd": "cd /repo && go test -vet=off -count=1 -timeout 25m ./...",
        "source_commits": ["7b96fa9"],
        "add_only": True,
    },
    "engines": [
        {"name": "lean4-proof+correspondence", "path": "/verif/lean", "serves_properties": sorted(PROPS),
         "kind_free_text": "Lean 4 project I3: Spec/Exec/Model/Gen(regenerated from /repo)/Props; compiled driver compared with the Go harness (/verif/harness) by /verif/check"},
    ],
    "checks": checks,
    "notes": "All checks: ./check <id> [--tier quick|thorough]; VERIF_SEED seeds the single PRNG. See DESIGN.md.",
    "not_applicable": [],
}
json.dump(manifest, open(os.path.join(VERIF, "MANIFEST.json"), "w"), indent=1)
print("MANIFEST.json written:", len(checks), "checks")
