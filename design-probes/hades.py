import pickle
exec(open('grain.py').read().split("t0=time.time()")[0])
def params(t):
    RP=NP[t-2]
    rnd=grain(254,t,8,RP)
    rc=[]
    while len(rc)<(8+RP)*t:
        v=rnd(254)
        if v<q: rc.append(v)
    xy=[rnd(254)%q for _ in range(2*t)]
    Mref=[[pow(xy[i]+xy[t+j],-1,q) for j in range(t)] for i in range(t)]
    return RP,rc,Mref
def hades(state):
    t=len(state); RP,rc,Mr=params(t)
    s=list(state)
    for r in range(8+RP):
        s=[(s[i]+rc[r*t+i])%q for i in range(t)]
        if r<4 or r>=4+RP: s=[pow(x,5,q) for x in s]
        else: s[0]=pow(s[0],5,q)
        s=[sum(Mr[i][j]*s[j] for j in range(t))%q for i in range(t)]
    return s
print(hades([0,1,2])[0])
print(hades([0,1,2])[0]==7853200120776062878684798364095072458815029376092732009249414926327459813530)
