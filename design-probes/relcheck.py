import pickle, time
exec(open('hades.py').read().split("print(hades")[0])
def matmul(A,B): 
    n=len(A); m=len(B[0]); k=len(B)
    return [[sum(A[i][l]*B[l][j] for l in range(k))%q for j in range(m)] for i in range(n)]
def matvec(A,v): return [sum(A[i][j]*v[j] for j in range(len(v)))%q for i in range(len(A))]
def matinv(A):
    n=len(A); M_=[row[:]+[1 if i==j else 0 for j in range(n)] for i,row in enumerate(A)]
    for c in range(n):
        p=next(r for r in range(c,n) if M_[r][c]%q)
        M_[c],M_[p]=M_[p],M_[c]
        inv=pow(M_[c][c],-1,q); M_[c]=[x*inv%q for x in M_[c]]
        for r in range(n):
            if r!=c and M_[r][c]:
                f=M_[r][c]; M_[r]=[(x-f*y)%q for x,y in zip(M_[r],M_[c])]
    return [row[n:] for row in M_]
def check(t):
    k=t-2; RP,rc,Mr=params(t)
    Co,So,Mo,Po=C[k],S[k],M[k],P[k]
    Mm=[[Mo[j][i] for j in range(t)] for i in range(t)]   # effective matrices
    Pm=[[Po[j][i] for j in range(t)] for i in range(t)]
    ok = Mm==Mr
    K=lambda r: rc[r*t:(r+1)*t]
    # first: C[0:t]=K0 ; M*C[(i+1)t..]=K(i+1) for i=0..2
    ok &= Co[:t]==K(0)
    for i in range(3): ok &= matvec(Mr,Co[(i+1)*t:(i+2)*t])==K(i+1)
    # last full rounds: optimized after partial: sbox; ark(C,5t+RP+i t); mix  for i=0..2 ; then sbox; mix
    for i in range(3): ok &= matvec(Mr,Co[5*t+RP+i*t:5*t+RP+(i+1)*t])==K(4+RP+1+i)
    # partial rounds: backward witnesses
    Minv=matinv(Mr)
    I=[[1 if i==j else 0 for j in range(t)] for i in range(t)]
    A=I; b=[(-x)%q for x in K(4+RP)]
    for j in range(RP-1,-1,-1):
        base=(2*t-1)*j
        Sp=[[So[base+c] for c in range(t)]]+[[So[base+t+r-1]]+[1 if c==r else 0 for c in range(1,t)] for r in range(1,t)]
        ASp=matmul(A,Sp)
        Aj=matmul(Minv,ASp)
        ok &= matmul(Mr,Aj)==ASp
        ok &= Aj[0][0]==1 and all(Aj[0][c]==0 for c in range(1,t)) and all(Aj[r][0]==0 for r in range(1,t))
        cj=Co[5*t+j]
        rhs=[(cj*ASp[r][0]+b[r])%q for r in range(t)]
        tmp=matvec(Minv,rhs)
        ok &= matvec(Mr,tmp)==rhs
        bj=[(tmp[r]-K(4+j)[r])%q for r in range(t)]
        ok &= (bj[0]+K(4+j)[0])%q==0
        A,b=Aj,bj
    # start: Mr = A0 Pm ; Mr*C4 = -b0
    ok &= matmul(A,Pm)==Mr
    ok &= matvec(Mr,Co[4*t:5*t])==[(-x)%q for x in b]
    return ok
t0=time.time()
for t in range(2,18):
    print(t, check(t), round(time.time()-t0,1), flush=True)
