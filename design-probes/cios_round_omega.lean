def W : Nat := 18446744073709551616
def q0 : Nat := 4891460686036598785
def q1 : Nat := 2896914383306846353
def q2 : Nat := 13281191951274694749
def q3 : Nat := 3486998266802970665
def qInv : Nat := 14042775128853446655
def Q : Nat := q0 + q1*W + q2*W^2 + q3*W^3

-- closed forms (assumed proven separately as in P5)
def madd0 (a b c : Nat) : Nat := (a*b + c) / W
def madd1 (a b c : Nat) : Nat × Nat := ((a*b + c) / W, (a*b + c) % W)
def madd2 (a b c d : Nat) : Nat × Nat := ((a*b + c + d) / W, (a*b + c + d) % W)
-- madd3: hi = (a*b + c + d)/W + e  (mod W)
def madd3 (a b c d e : Nat) : Nat × Nat := (((a*b + c + d) / W + e) % W, (a*b + c + d) % W)

def round (v y0 y1 y2 y3 t0 t1 t2 t3 : Nat) : Nat × Nat × Nat × Nat :=
  let (c1, c0) := madd1 v y0 t0
  let m := (c0 * qInv) % W
  let c2 := madd0 m q0 c0
  let (c1, c0) := madd2 v y1 c1 t1
  let (c2, t0) := madd2 m q1 c2 c0
  let (c1, c0) := madd2 v y2 c1 t2
  let (c2, t1) := madd2 m q2 c2 c0
  let (c1, c0) := madd2 v y3 c1 t3
  let (t3, t2) := madd3 m q3 c0 c2 c1
  (t0, t1, t2, t3)

theorem qinv_prop : (q0 * qInv + 1) % W = 0 := by decide

theorem round_spec (v y0 y1 y2 y3 t0 t1 t2 t3 : Nat)
    (hv : v < W) (hy0 : y0 < W) (hy1 : y1 < W) (hy2 : y2 < W) (hy3 : y3 < W)
    (ht0 : t0 < W) (ht1 : t1 < W) (ht2 : t2 < W) (ht3 : t3 < W)
    (hY : y0 + y1*W + y2*W^2 + y3*W^3 < Q)
    (hT : t0 + t1*W + t2*W^2 + t3*W^3 < 2*Q) :
    let r := round v y0 y1 y2 y3 t0 t1 t2 t3
    ∃ m, m < W ∧ (r.1 + r.2.1*W + r.2.2.1*W^2 + r.2.2.2*W^3) * W
      = (t0 + t1*W + t2*W^2 + t3*W^3) + (v*y0 + v*y1*W + v*y2*W^2 + v*y3*W^3) + m*Q
     := by
  intro r
  refine ⟨(((v*y0 + t0) % W) * qInv) % W, ?_, ?_⟩
  · exact Nat.mod_lt _ (by decide)
  · have hp0 : v*y0 ≤ (W-1)*y0 := Nat.mul_le_mul_right _ (by omega)
    have hp1 : v*y1 ≤ (W-1)*y1 := Nat.mul_le_mul_right _ (by omega)
    have hp2 : v*y2 ≤ (W-1)*y2 := Nat.mul_le_mul_right _ (by omega)
    have hp3 : v*y3 ≤ (W-1)*y3 := Nat.mul_le_mul_right _ (by omega)
    simp only [r, round, madd0, madd1, madd2, madd3, Q] 
    generalize v*y0 = p0 at *
    generalize v*y1 = p1 at *
    generalize v*y2 = p2 at *
    generalize v*y3 = p3 at *
    simp only [W, q0, q1, q2, q3, qInv, Q] at *
    omega
