import sympy as sp, time
x1,y1,x2,y2,x3,y3,a,d = sp.symbols('x1 y1 x2 y2 x3 y3 a d')
def addfrac(P, Q):
    (xn1,xd1,yn1,yd1) = P; (xn2,xd2,yn2,yd2) = Q
    # x = xn/xd, y = yn/yd
    # x3 = (x1 y2 + y1 x2)/(1 + d x1 x2 y1 y2)
    X1n, X1d, Y1n, Y1d = xn1, xd1, yn1, yd1
    X2n, X2d, Y2n, Y2d = xn2, xd2, yn2, yd2
    # common denominators
    num_x = X1n*Y2n*X2d*Y1d + Y1n*X2n*X1d*Y2d
    den_c = X1d*Y1d*X2d*Y2d
    prod = d*X1n*X2n*Y1n*Y2n
    xn = num_x; xd = den_c + prod
    num_y = Y1n*Y2n*X1d*X2d - a*X1n*X2n*Y1d*Y2d
    yn = num_y; yd = den_c - prod
    return (sp.expand(xn), sp.expand(xd), sp.expand(yn), sp.expand(yd))
P1=(x1,sp.Integer(1),y1,sp.Integer(1)); P2=(x2,sp.Integer(1),y2,sp.Integer(1)); P3=(x3,sp.Integer(1),y3,sp.Integer(1))
t=time.time()
L = addfrac(addfrac(P1,P2),P3)
R = addfrac(P1,addfrac(P2,P3))
gx = sp.expand(L[0]*R[1] - R[0]*L[1])
gy = sp.expand(L[2]*R[3] - R[2]*L[3])
print("terms gx", len(gx.as_ordered_terms()), "gy", len(gy.as_ordered_terms()), time.time()-t, flush=True)
print("deg", sp.Poly(gx, x1,y1,x2,y2,x3,y3).total_degree())
e = [a*v**2 + w**2 - 1 - d*v**2*w**2 for (v,w) in ((x1,y1),(x2,y2),(x3,y3))]
for name,g in (("gx",gx),("gy",gy)):
    t=time.time()
    Qs, r = sp.reduced(g, e, x1,y1,x2,y2,x3,y3, domain=sp.ZZ[a,d])
    print(name, "rem", r, "quot terms", [len(sp.expand(c).as_ordered_terms()) for c in Qs], time.time()-t, flush=True)
def lean(e):
    s = sp.sstr(sp.expand(e))
    return s.replace('**','^')
Qs, r = sp.reduced(gx, e, x1,y1,x2,y2,x3,y3, domain=sp.ZZ[a,d])
with open('Assoc.lean','w') as f:
    f.write("import Mathlib.Tactic.LinearCombination\nimport Mathlib.Tactic.Ring\n")
    f.write("variable {F : Type} [Field F]\n")
    f.write("theorem gx_cert (a d x1 y1 x2 y2 x3 y3 : F)\n")
    for i,(v,w) in enumerate((('x1','y1'),('x2','y2'),('x3','y3'))):
        f.write(f"  (h{i+1} : a*{v}^2 + {w}^2 = 1 + d*{v}^2*{w}^2)\n")
    f.write(f"  : ({lean(L[0])}) * ({lean(R[1])}) = ({lean(R[0])}) * ({lean(L[1])}) := by\n")
    f.write(f"  linear_combination ({lean(Qs[0])}) * h1 + ({lean(Qs[1])}) * h2 + ({lean(Qs[2])}) * h3\n")
