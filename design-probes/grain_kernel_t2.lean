def q : Nat := 21888242871839275222246405745257275088548364400416034343698204186575808495617

@[inline] def tap (s : Nat) : Nat :=
  ((s >>> 62) ^^^ (s >>> 51) ^^^ (s >>> 38) ^^^ (s >>> 23) ^^^ (s >>> 13) ^^^ s) &&& 1

@[inline] def clk (s : Nat) : Nat := (s >>> 1) ||| ((tap s) <<< 79)

def warm : Nat → Nat → Nat
  | 0, s => s
  | n+1, s => match clk s with
    | 0 => warm n 0
    | k+1 => warm n (k+1)

/-- one iteration = one pair of clocks; strict in every accumulator -/
def gen : Nat → Nat → Nat → Nat → Nat → List Nat → List Nat
  | 0, _, _, _, _, out => out
  | fuel+1, s, acc, nb, need, out =>
    match need with
    | 0 => out
    | need'+1 =>
      let b1 := tap s
      match clk s with
      | 0 => out
      | s1p+1 =>
        let s1 := s1p+1
        let b2 := tap s1
        match clk s1 with
        | 0 => out
        | s2p+1 =>
          let s2 := s2p+1
          match b1 with
          | 0 => gen fuel s2 acc nb (need'+1) out
          | _+1 =>
            match acc*2 + b2, nb+1 with
            | acc', 254 => if acc' < q then gen fuel s2 0 0 need' (acc' :: out) else gen fuel s2 0 0 (need'+1) out
            | acc', nb' => gen fuel s2 acc' nb' (need'+1) out

def initState (t rf rp : Nat) : Nat :=
  -- bit_sequence[i] for i in 0..79, index 0 first; store bit i at position i
  let bitsMSB (v w : Nat) : List Nat := (List.range w).map (fun i => (v >>> (w-1-i)) &&& 1)
  let l := bitsMSB 1 2 ++ bitsMSB 0 4 ++ bitsMSB 254 12 ++ bitsMSB t 12 ++ bitsMSB rf 10 ++ bitsMSB rp 10 ++ List.replicate 30 1
  (l.zipIdx.foldl (fun a (b,i) => a ||| (b <<< i)) 0)

def rc (t rf rp : Nat) : List Nat :=
  (gen 10000000 (warm 160 (initState t rf rp)) 0 0 ((rf+rp)*t) []).reverse

#eval (rc 2 8 56).take 2 |>.map (fun n => n.toDigits 16 |> String.mk)
set_option maxRecDepth 10000000 in
theorem first : (rc 2 8 56).head? = some 0x9c46e9ec68e9bd4fe1faaba294cba38a71aa177534cdd1b6c7dc0dbd0abd7a7 := by decide +kernel
