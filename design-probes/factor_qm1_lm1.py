import sympy, time, sys
q=21888242871839275222246405745257275088548364400416034343698204186575808495617
l=21888242871839275222246405745257275088614511777268538073601725287587578984328//8
print("q prime", sympy.isprime(q), "l prime", sympy.isprime(l), l)
for name,n in (("q",q),("l",l)):
    t=time.time()
    f=sympy.factorint(n-1, limit=10**7)
    print(name,"-1 partial:",f, time.time()-t, flush=True)
