def q : Nat := 21888242871839275222246405745257275088548364400416034343698204186575808495617
def loopMul : Nat → Nat → Nat
  | 0, acc => acc
  | n+1, acc => match (acc*acc+7)%q with
     | 0 => loopMul n 0
     | k+1 => loopMul n (k+1)
set_option maxRecDepth 100000 in
theorem t20k : (loopMul 200000 3 == 0) = false := by decide +kernel
