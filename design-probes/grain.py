import pickle, time
C,S,M,P=pickle.load(open("tables.pkl","rb"))
q=21888242871839275222246405745257275088548364400416034343698204186575808495617
NP=[56, 57, 56, 60, 60, 63, 64, 63, 60, 66, 60, 65, 70, 60, 64, 68]
def grain(n,t,RF,RP):
    def bits(v,w): return [(v>>(w-1-i))&1 for i in range(w)]
    st = bits(1,2)+bits(0,4)+bits(n,12)+bits(t,12)+bits(RF,10)+bits(RP,10)+[1]*30
    assert len(st)==80
    def clock():
        nb = st[62]^st[51]^st[38]^st[23]^st[13]^st[0]
        st.pop(0); st.append(nb); return nb
    for _ in range(160): clock()
    def nextbit():
        while True:
            b=clock()
            if b==1:
                return clock()
            clock()
    def rnd(nbits):
        v=0
        for _ in range(nbits): v=(v<<1)|nextbit()
        return v
    return rnd
t0=time.time()
allok=True
for k in range(16):
    t=k+2; RP=NP[k]
    rnd=grain(254,t,8,RP)
    rc=[]
    while len(rc)<(8+RP)*t:
        v=rnd(254)
        if v<q: rc.append(v)
    xs_ys=[rnd(254)%q for _ in range(2*t)]
    xs,ys=xs_ys[:t],xs_ys[t:]
    okc = rc[:t]==C[k][:t]
    okm = all(M[k][i][j]*(xs[i]+ys[j])%q==1 for i in range(t) for j in range(t))
    okmT = all(M[k][j][i]*(xs[i]+ys[j])%q==1 for i in range(t) for j in range(t))
    # last 3 full rounds constants
    print(t, "rc0 ok",okc,"mds ok",okm,"mdsT",okmT, flush=True)
    allok &= okc and (okm or okmT)
print("all",allok,time.time()-t0)
