import sympy as sp
x1,y1,x2,y2,a,d,Z1,Z2,X1,Y1,X2,Y2 = sp.symbols('x1 y1 x2 y2 a d Z1 Z2 X1 Y1 X2 Y2')
e = [a*v**2 + w**2 - 1 - d*v**2*w**2 for (v,w) in ((x1,y1),(x2,y2))]
xn = x1*y2+y1*x2; xd = 1 + d*x1*x2*y1*y2
yn = y1*y2-a*x1*x2; yd = 1 - d*x1*x2*y1*y2
g = sp.expand(a*xn**2*yd**2 + yn**2*xd**2 - xd**2*yd**2 - d*xn**2*yn**2)
Qs,r = sp.reduced(g, e, x1,y1,x2,y2, domain=sp.ZZ[a,d])
print("closure rem", r, [len(sp.expand(c).as_ordered_terms()) for c in Qs])
# projective add-2008-bbjlp vs affine: X3/Z3 = xn/xd with x_i = X_i/Z_i
A=Z1*Z2; B=A**2; C=X1*X2; D=Y1*Y2; E=d*C*D; F=B-E; G=B+E
X3=A*F*((X1+Y1)*(X2+Y2)-C-D); Y3=A*G*(D-a*C); Z3=F*G
sub={x1:X1/Z1,y1:Y1/Z1,x2:X2/Z2,y2:Y2/Z2}
print("X ok", sp.simplify(X3/Z3 - (xn/xd).subs(sub))==0, "Y ok", sp.simplify(Y3/Z3 - (yn/yd).subs(sub))==0)
