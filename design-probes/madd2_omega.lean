def W : Nat := 18446744073709551616
def add64 (a b c : Nat) : Nat × Nat := ((a+b+c) % W, (a+b+c) / W)
def mul64 (a b : Nat) : Nat × Nat := ((a*b) / W, (a*b) % W)

def madd2 (a b c d : Nat) : Nat × Nat :=
  let (hi, lo) := mul64 a b
  let (c, carry) := add64 c d 0
  let (hi, _) := add64 hi 0 carry
  let (lo, carry) := add64 lo c 0
  let (hi, _) := add64 hi 0 carry
  (hi, lo)

theorem mul_bound (a b : Nat) (ha : a < W) (hb : b < W) : a * b ≤ (W-1)*(W-1) :=
  Nat.mul_le_mul (by omega) (by omega)

theorem madd2_eq (a b c d : Nat) (ha : a < W) (hb : b < W) (hc : c < W) (hd : d < W) :
    madd2 a b c d = ((a*b + c + d) / W, (a*b + c + d) % W) := by
  have h := mul_bound a b ha hb
  simp only [madd2, mul64, add64]
  generalize a * b = p at *
  simp only [W] at *
  refine Prod.ext ?_ ?_ <;> simp only <;> omega
