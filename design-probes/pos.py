import re, sys
src = open('/repo/poseidon/constants.go').read()
# crude parser for cs struct
body = src[src.index('var cs = constantsStr{'):]
def parse_block(name, depth):
    # find "name: [][]string{" and parse nested braces of quoted strings
    i = body.index('\t'+name+':')
    i = body.index('{', i)
    # parse nested
    def parse(i):
        assert body[i]=='{'
        i+=1; out=[]
        while True:
            while body[i] in ' \t\n,': i+=1
            if body[i]=='}': return out, i+1
            if body[i]=='{':
                sub,i = parse(i); out.append(sub)
            elif body[i]=='"':
                j=body.index('"',i+1); out.append(int(body[i+1:j],16)); i=j+1
            else:
                # skip type annotations like []string
                j=i
                while body[j] not in '{"}': j+=1
                i=j
    res,_=parse(i); return res
C=parse_block('C',2); S=parse_block('S',2); M=parse_block('M',3); P=parse_block('P',3)
q=21888242871839275222246405745257275088548364400416034343698204186575808495617
print(len(C),len(S),len(M),len(P))
NP=[56, 57, 56, 60, 60, 63, 64, 63, 60, 66, 60, 65, 70, 60, 64, 68]
for k in range(16):
    t=k+2
    print(t, len(C[k]), t*8+NP[k] , len(S[k]), NP[k]*(2*t-1), len(M[k]), len(P[k]))
# Cauchy check
for k in range(16):
    t=k+2
    ok=all(M[k][i][j]*(i+t+j)%q==1 for i in range(t) for j in range(t))
    print("cauchy t",t,ok)
import pickle; pickle.dump((C,S,M,P),open('tables.pkl','wb'))
