package main

// Per-property generators: each returns the op lines (the inputs) of one run.
// Everything random derives from the single PRNG passed in.

import (
	"encoding/hex"
	"fmt"
	"math/big"
	"strconv"
	"strings"

	"github.com/iden3/go-iden3-crypto/v2/babyjub"
)

type gen struct {
	r       *rng
	ops     []string
	thor    bool
	scale   int
	grouped bool
}

func (g *gen) add(f string, a ...interface{}) { g.ops = append(g.ops, fmt.Sprintf(f, a...)) }
func (g *gen) n(quick, thorough int) int {
	if g.thor {
		return thorough
	}
	return quick
}

func hx(b []byte) string { return "x" + hex.EncodeToString(b) }
func ints(l []*big.Int) string {
	s := make([]string, len(l))
	for i, v := range l {
		s[i] = v.String()
	}
	return "[" + strings.Join(s, ",") + "]"
}
func pt(p *babyjub.Point) string { return p.X.String() + " " + p.Y.String() }

func limbsOf(v *big.Int, n int) string {
	s := make([]string, n)
	W := pow2(64)
	t := new(big.Int).Set(v)
	for i := 0; i < n; i++ {
		s[i] = mod(t, W).String()
		t.Rsh(t, 64)
	}
	return "[" + strings.Join(s, ",") + "]"
}

var binAlias = []string{"n", "zx", "zy"}
var unAlias = []string{"n", "zx"}

// ---------------- C05 / C09 : field arithmetic ----------------
func (g *gen) fieldArith(pk string, m *big.Int) {
	r := g.r
	limbs := (m.BitLen() + 63) / 64
	R := pow2(64 * limbs)
	N := g.n(300, 6000)
	for i := 0; i < N; i++ {
		x, y := r.fpair(m)
		for _, op := range []string{"add", "sub", "mul", "div"} {
			g.add("%s.%s@%s %s %s", pk, op, binAlias[r.intn(3)], x, y)
		}
		// both operands the same object, and destination = both operands: every binary operation
		for _, op := range []string{"add", "sub", "mul", "div"} {
			g.add("%s.%s@xy %s %s", pk, op, x, x)
			g.add("%s.%s@zxy %s %s", pk, op, y, y)
		}
		for _, op := range []string{"neg", "double", "square", "inverse"} {
			g.add("%s.%s@%s %s", pk, op, unAlias[r.intn(2)], x)
		}
		g.add("%s.halve %s", pk, x)
		g.add("%s.mulby3 %s", pk, x)
		g.add("%s.mulby5 %s", pk, y)
		g.add("%s.mulby13 %s", pk, x)
		g.add("%s.mulby3@generic %s", pk, y)
		g.add("%s.mulby5@generic %s", pk, x)
		g.add("%s.mulby13@generic %s", pk, y)
		g.add("%s.butterfly %s %s", pk, x, y)
		// raw Montgomery limbs of the same operands, every back-end route.  API routes carry the active
		// back-end (assembly with/without ADX dispatch, ADX-only build, portable) so that the Lean side
		// evaluates the translation of exactly that code.
		xm, ym := mod(mul(x, R), m), mod(mul(y, R), m)
		xl, yl := limbsOf(xm, limbs), limbsOf(ym, limbs)
		be := ":" + backendRoute(pk)
		bin := []string{"api" + be, "zx" + be, "zy" + be, "generic", "generic-zx", "generic-zy"}
		un := []string{"api" + be, "zx" + be, "generic", "generic-zx"}
		two := []string{"api" + be, "generic"}
		for _, route := range bin {
			g.add("%sraw.mul@%s %s %s", pk, route, xl, yl)
		}
		g.add("%sraw.add@%s %s %s", pk, bin[r.intn(6)], xl, yl)
		g.add("%sraw.sub@%s %s %s", pk, bin[r.intn(6)], xl, yl)
		g.add("%sraw.add@generic %s %s", pk, xl, yl)
		g.add("%sraw.sub@generic %s %s", pk, xl, yl)
		g.add("%sraw.add@api%s %s %s", pk, be, xl, yl)
		g.add("%sraw.sub@api%s %s %s", pk, be, xl, yl)
		g.add("%sraw.square@%s %s", pk, un[r.intn(4)], xl)
		g.add("%sraw.double@%s %s", pk, un[r.intn(4)], xl)
		g.add("%sraw.neg@%s %s", pk, un[r.intn(4)], yl)
		g.add("%sraw.frommont@%s %s", pk, two[r.intn(2)], xl)
		g.add("%sraw.halve %s", pk, xl)
		g.add("%sraw.butterfly@%s %s %s", pk, two[r.intn(2)], xl, yl)
		g.add("%sraw.butterflyab@api%s %s", pk, be, xl)
		g.add("%sraw.butterflyab@generic %s", pk, yl)
		g.add("%sraw.mulby3@%s %s", pk, two[r.intn(2)], xl)
		g.add("%sraw.mulby5@%s %s", pk, two[r.intn(2)], yl)
		g.add("%sraw.mulby13@%s %s", pk, two[r.intn(2)], xl)
		// reduce on values in [0, 2m) that fit the limbs
		z := add(xm, []*big.Int{small(0), m, sub(m, xm)}[r.intn(3)])
		if z.Cmp(R) < 0 {
			g.add("%sraw.reduce@%s %s", pk, two[r.intn(2)], limbsOf(z, limbs))
		}
		if i%2 == 0 {
			g.add("%sraw.inverse@%s %s", pk, []string{"api", "zx"}[r.intn(2)], xl)
		} else {
			g.add("%sraw.inverse@%s %s", pk, []string{"api", "zx"}[r.intn(2)], yl)
		}
	}
	// exponentiation
	exps := []*big.Int{small(0), small(1), small(2), small(3), small(5), small(7), sub(m, small(1)), sub(m, small(2)), m, add(m, small(1)),
		new(big.Int).Rsh(sub(m, small(1)), 1), pow2(64), sub(pow2(64), small(1)), pow2(256), pow2(511), sub(pow2(512), small(1))}
	// exponents with Fermat structure (x^(m-1) = 1 for x != 0, but 0^e = 0 for every e > 0): multiples of m-1 and their
	// neighbours, where a reduction of the exponent modulo m-1 goes wrong exactly for the base 0
	m1 := sub(m, small(1))
	for _, k := range []int64{2, 3, 4, 1 << 10} {
		km := new(big.Int).Mul(m1, small(k))
		exps = append(exps, km, add(km, small(1)), sub(km, small(1)))
	}
	exps = append(exps, new(big.Int).Mul(m1, pow2(200)), new(big.Int).Mul(m, small(2)), new(big.Int).Mul(m1, m1))
	for i := 0; i < g.n(60, 600); i++ {
		x := r.felem(m)
		var e *big.Int
		if r.intn(3) == 0 {
			e = r.pick(exps)
		} else {
			e = r.bigBits(r.intn(520))
		}
		g.add("%s.exp@%s %s %s", pk, unAlias[r.intn(2)], x, e)
	}
	for _, x := range []*big.Int{small(0), small(1), sub(m, small(1))} {
		for _, e := range exps {
			g.add("%s.exp %s %s", pk, x, e)
		}
	}
	// batch inversion with zeros in every position class
	for i := 0; i < g.n(40, 400); i++ {
		n := r.intn(9)
		l := make([]*big.Int, n)
		for j := range l {
			if r.intn(4) == 0 {
				l[j] = small(0)
			} else {
				l[j] = r.felem(m)
			}
		}
		g.add("%s.batchinv %s", pk, ints(l))
	}
	g.add("%s.batchinv []", pk)
	g.add("%s.batchinv [0]", pk)
	g.add("%s.batchinv [0,0,0]", pk)
	g.add("%s.one", pk)
	g.add("%s.modulus", pk)
	// construction from any 64-bit integer
	u64 := []*big.Int{small(0), small(1), sub(GP, small(1)), GP, add(GP, small(1)), sub(pow2(64), small(1)), pow2(63), pow2(32), sub(pow2(32), small(1)), sub(GP, pow2(32))}
	for _, v := range u64 {
		g.add("%s.setuint64 %s", pk, v)
	}
	for i := 0; i < g.n(100, 2000); i++ {
		v := r.bigBits(64)
		if r.intn(3) == 0 {
			v = add(GP, small(int64(r.intn(1<<20))))
		}
		g.add("%s.setuint64 %s", pk, mod(v, pow2(64)))
	}
}

// ---------------- C11 : conversions ----------------
func (g *gen) conversions(pk string, m *big.Int) {
	r := g.r
	for i := 0; i < g.n(500, 8000); i++ {
		v := r.anyInt()
		g.add("%s.setbigint %s", pk, v)
		g.add("%s.setstring %s", pk, v)
		if i%4 == 0 {
			g.add("%s.setinterface bigintptr %s", pk, v)
			g.add("%s.setinterface bigint %s", pk, v)
			g.add("%s.setinterface string %s", pk, v)
		}
		b := r.bytes(r.intn(201))
		if r.intn(3) == 0 {
			b = new(big.Int).Abs(v).Bytes()
			if r.bool() {
				b = append(make([]byte, r.intn(5)), b...)
			}
		}
		g.add("%s.setbytes %s", pk, hx(b))
		if i%4 == 1 {
			g.add("%s.setinterface bytes %s", pk, hx(b))
		}
		x, y := r.fpair(m)
		g.add("%s.tobigint %s", pk, x)
		g.add("%s.bytes %s", pk, x)
		g.add("%s.string %s", pk, x)
		g.add("%s.cmp %s %s", pk, x, y)
		g.add("%s.equal %s %s", pk, x, y)
		g.add("%s.lex %s", pk, x)
		g.add("%s.iszero %s", pk, x)
		g.add("%s.montbigint %s", pk, x)
		g.add("%s.isuint64 %s", pk, x)
		g.add("%s.bitlen %s", pk, x)
		g.add("%s.bit %s %d", pk, x, r.intn(300))
		if i%4 == 2 {
			g.add("%s.setinterface element %s", pk, x)
			g.add("%s.setinterface elementptr %s", pk, x)
			g.add("%s.setinterface uint64 %s", pk, mod(v, pow2(64)))
			g.add("%s.setinterface int %d", pk, int64(r.next()))
			g.add("%s.setinterface float64 0", pk)
			g.add("%s.setinterface int32 0", pk)
		}
	}
	half := new(big.Int).Rsh(m, 1)
	for _, x := range []*big.Int{small(0), small(1), sub(half, small(1)), half, add(half, small(1)), add(half, small(2)), sub(m, small(1)), sub(m, small(2)),
		sub(pow2(64), small(1)), pow2(64), sub(m, pow2(64)), sub(m, sub(pow2(64), small(1))), sub(m, add(pow2(64), small(1)))} {
		if x.Sign() < 0 || x.Cmp(m) >= 0 {
			continue
		}
		g.add("%s.lex %s", pk, x)
		g.add("%s.string %s", pk, x)
		g.add("%s.bytes %s", pk, x)
		g.add("%s.tobigint %s", pk, x)
		for _, y := range []*big.Int{small(0), half, sub(m, small(1)), x} {
			g.add("%s.cmp %s %s", pk, x, y)
			g.add("%s.equal %s %s", pk, x, y)
		}
	}
}

// ---------------- C18 : Legendre / sqrt ----------------
func (g *gen) sqrtLegendre(pk string, m *big.Int) {
	r := g.r
	// 2-adicity and a generator of the 2-Sylow subgroup
	s := sub(m, small(1))
	e := 0
	for s.Bit(0) == 0 {
		s.Rsh(s, 1)
		e++
	}
	var z *big.Int
	for c := int64(2); ; c++ {
		if big.Jacobi(small(c), m) == -1 {
			z = exp(small(c), s, m)
			break
		}
	}
	for _, x := range []*big.Int{small(0), small(1), sub(m, small(1)), small(2), small(4)} {
		g.add("%s.legendre %s", pk, x)
		g.add("%s.sqrt %s", pk, x)
		g.add("%s.sqrt@zx %s", pk, x)
	}
	// elements of order 2^k for every k, their squares, times odd-order parts
	w := new(big.Int).Set(z) // order 2^e
	for k := e; k >= 0; k-- {
		for j := 0; j < g.n(2, 12); j++ {
			odd := exp(r.below(m), pow2(e), m) // element of odd order
			if j == 0 {
				odd = small(1)
			}
			x := mod(mul(w, odd), m)
			g.add("%s.legendre %s", pk, x)
			g.add("%s.sqrt@%s %s", pk, unAlias[r.intn(2)], x)
			x2 := mod(mul(x, x), m)
			g.add("%s.sqrt@%s %s", pk, unAlias[r.intn(2)], x2)
			g.add("%s.legendre %s", pk, x2)
		}
		w = mod(mul(w, w), m)
	}
	// small integers and their squares; powers c^(±2^j) of small bases: x^s = (c^s)^(±2^j) walks through the
	// 2-Sylow subgroup relative to every small non-residue base, which drives Tonelli–Shanks to its deepest
	// correction chains (e.g. x = 25 when the generator constant is 5^s)
	for n := int64(1); n <= 64; n++ {
		g.add("%s.sqrt %d", pk, n)
		g.add("%s.sqrt@zx %s", pk, mod(mul(small(n), small(n)), m))
		g.add("%s.legendre %d", pk, n)
	}
	for _, c := range []int64{2, 3, 5, 6, 7, 10, 11} {
		cur := small(c)
		for j := 0; j <= e+1; j++ {
			g.add("%s.sqrt@%s %s", pk, unAlias[r.intn(2)], cur)
			g.add("%s.sqrt %s", pk, inv(cur, m))
			cur = mod(mul(cur, cur), m)
		}
	}
	for i := 0; i < g.n(150, 3000); i++ {
		x := r.felem(m)
		g.add("%s.legendre %s", pk, x)
		g.add("%s.sqrt@%s %s", pk, unAlias[r.intn(2)], x)
		g.add("%s.sqrt %s", pk, mod(mul(x, x), m))
	}
}

// ---------------- C01 / C07 : poseidon ----------------
func (g *gen) poseidonVec(n int) []*big.Int {
	r := g.r
	l := make([]*big.Int, n)
	mode := r.intn(6)
	for i := range l {
		switch mode {
		case 0:
			l[i] = sub(Q, small(1))
		case 1:
			l[i] = small(0)
		case 2:
			l[i] = small(int64(i + 1))
		default:
			l[i] = r.felem(Q)
		}
	}
	return l
}

func (g *gen) poseidon() {
	r := g.r
	g.add("poseidon.consts")
	for t := 2; t <= 17; t++ {
		g.add("poseidon.tablesum %d", t)
	}
	g.add("poseidon.tablesum 18")
	for rep := 0; rep < g.n(6, 120); rep++ {
		for n := 1; n <= 16; n++ {
			inp := g.poseidonVec(n)
			st := small(0)
			if r.intn(3) == 0 {
				st = r.felem(Q)
			}
			nOuts := 1 + r.intn(n+1)
			if rep == 0 {
				nOuts = n + 1
			}
			g.add("poseidon.hashex %s %s %d", ints(inp), st, nOuts)
			if st.Sign() == 0 {
				g.add("poseidon.hashex@hashex %s 0 %d", ints(inp), nOuts)
				g.add("poseidon.hashex@hash %s 0 1", ints(inp))
			}
			g.add("poseidon.hashex@withstate %s %s 1", ints(inp), st)
			// an error path followed by success paths: a rejected call (initial state / element / output count out of
			// range) must leave nothing behind that a later accepted call can see
			if n%5 == rep%5 {
				switch r.intn(3) {
				case 0:
					g.add("poseidon.hashex@withstate %s %s 1", ints(inp), Q)
				case 1:
					bad := append([]*big.Int(nil), inp...)
					bad[r.intn(n)] = add(Q, small(int64(r.intn(3))))
					g.add("poseidon.hashex %s 0 1", ints(bad))
				default:
					g.add("poseidon.hashex %s 0 %d", ints(inp), n+2)
				}
				g.add("poseidon.hashex@hash %s 0 1", ints(inp))
			}
		}
	}
}

func (g *gen) poseidonDomain() {
	r := g.r
	bad := []*big.Int{small(-1), Q, add(Q, small(1)), pow2(256), neg(pow2(300)), neg(Q), bi("1" + strings.Repeat("0", 130)), mul(Q, small(2)), sub(pow2(254), small(1))}
	for n := 0; n <= 20; n++ {
		for rep := 0; rep < g.n(6, 60); rep++ {
			inp := make([]*big.Int, n)
			for i := range inp {
				inp[i] = r.felem(Q)
			}
			st := small(0)
			switch r.intn(4) {
			case 0:
				st = r.pick(bad)
			case 1:
				st = r.felem(Q)
			}
			if n > 0 && r.intn(2) == 0 {
				inp[r.intn(n)] = r.pick(bad)
			}
			if n > 0 && r.intn(5) == 0 {
				inp[n-1] = r.pick(bad)
			}
			nOuts := r.intn(n+6) - 2
			g.add("poseidon.hashex %s %s %d", ints(inp), st, nOuts)
			if st.Sign() == 0 && rep%2 == 0 {
				g.add("poseidon.hashex@hashex %s 0 %d", ints(inp), nOuts)
			}
			if rep%3 == 0 {
				g.add("poseidon.hashex@withstate %s %s 1", ints(inp), st)
			}
			// mimc7 entry points
			var key string = "nil"
			if r.intn(3) == 0 {
				key = r.anyInt().String()
			}
			g.add("mimc7.hash %s %s", ints(inp), key)
			if rep%3 == 0 {
				g.add("mimc7.hashgeneric %s %s %d", r.felem(Q), ints(inp), 1+r.intn(5))
			}
			g.add("u.arrinfield %s", ints(inp))
			g.add("u.elemarr %s", ints(inp))
		}
	}
	g.add("u.elemarr []")
	g.add("u.elemarr %s", ints([]*big.Int{neg(small(1)), Q, add(Q, small(1)), pow2(300), small(0)}))
	for _, v := range bad {
		g.add("u.infield %s", v)
	}
	for _, v := range []*big.Int{small(0), small(1), sub(Q, small(1))} {
		g.add("u.infield %s", v)
		g.add("poseidon.hashex [%s] %s 1", v, v)
		g.add("poseidon.hashex [%s] %s 2", v, v)
	}
	// error propagation through signing
	key := r.bytes(32)
	for _, v := range bad {
		g.add("ed.sign poseidon %s %s", hx(key), v)
		g.add("ed.sign mimc7 %s %s", hx(key), v)
	}
	for i := 0; i < g.n(5, 40); i++ {
		b := r.bytes(r.intn(100))
		g.add("mimc7.hashbytes %s", hx(b))
	}
	g.add("mimc7.hashbytes %s", hx(make([]byte, 62)))
	ffb := make([]byte, 93)
	for i := range ffb {
		ffb[i] = 0xff
	}
	g.add("mimc7.hashbytes %s", hx(ffb))
}

// ---------------- C08 : mimc7 ----------------
func (g *gen) mimc7() {
	r := g.r
	g.add("mimc7.consts")
	rounds := []int{1, 2, 3, 90, 91, 92, 153, 154, 155, 222, 512}
	for _, n := range rounds {
		x, k := r.fpair(Q)
		g.add("mimc7.mimc7hashgeneric %s %s %d", x, k, n)
		g.add("mimc7.hashgeneric %s %s %d", r.felem(Q), ints([]*big.Int{r.felem(Q), r.felem(Q)}), n)
	}
	for i := 0; i < g.n(30, 500); i++ {
		x, k := r.fpair(Q)
		g.add("mimc7.mimc7hash %s %s", x, k)
		n := 1 + r.intn(512)
		if !g.thor {
			n = 1 + r.intn(200)
		}
		g.add("mimc7.mimc7hashgeneric %s %s %d", x, k, n)
		if i%5 == 0 {
			g.add("mimc7.mimc7hash %s %s", r.anyInt(), r.anyInt())
		}
	}
	for i := 0; i < g.n(40, 400); i++ {
		n := r.intn(7)
		l := make([]*big.Int, n)
		for j := range l {
			l[j] = r.felem(Q)
		}
		key := "nil"
		if r.bool() {
			key = r.felem(Q).String()
		}
		g.add("mimc7.hash %s %s", ints(l), key)
		g.add("mimc7.hashgeneric %s %s %d", r.felem(Q), ints(l), []int{1, 2, 7, 91}[r.intn(4)])
	}
	lens := []int{0, 1, 2, 30, 31, 32, 33, 61, 62, 63, 64, 92, 93, 94, 123, 124, 125, 155, 310}
	for _, n := range lens {
		g.add("mimc7.hashbytes %s", hx(r.bytes(n)))
		b := make([]byte, n)
		for i := range b {
			b[i] = 0xff
		}
		g.add("mimc7.hashbytes %s", hx(b))
	}
	for i := 0; i < g.n(20, 300); i++ {
		g.add("mimc7.hashbytes %s", hx(r.bytes(r.intn(200))))
	}
}

// ---------------- C10 : goldenposeidon ----------------
func (g *gen) golden() {
	r := g.r
	g.add("golden.tablesum")
	bnd := []*big.Int{small(0), small(1), sub(pow2(32), small(1)), pow2(32), add(pow2(32), small(1)), pow2(63), sub(GP, pow2(32)), sub(GP, small(1)), GP, add(GP, small(1)), sub(pow2(64), small(1))}
	word := func() *big.Int {
		switch r.intn(3) {
		case 0:
			return r.pick(bnd)
		case 1:
			return add(GP, small(int64(r.next()%(1<<31))))
		}
		return r.bigBits(64)
	}
	for _, b := range bnd {
		l8 := make([]*big.Int, 8)
		l4 := make([]*big.Int, 4)
		for i := range l8 {
			l8[i] = b
		}
		for i := range l4 {
			l4[i] = b
		}
		g.add("golden.hash %s %s", ints(l8), ints(l4))
	}
	for i := 0; i < g.n(150, 5000); i++ {
		l8 := make([]*big.Int, 8)
		l4 := make([]*big.Int, 4)
		for i := range l8 {
			l8[i] = mod(word(), pow2(64))
		}
		for i := range l4 {
			l4[i] = mod(word(), pow2(64))
		}
		g.add("golden.hash %s %s", ints(l8), ints(l4))
	}
}

// ---------------- C04 / C13 / C19 : curve ----------------
func (g *gen) scalars() []*big.Int {
	l8 := mul(L, small(8))
	return []*big.Int{small(0), small(1), small(2), small(3), small(7), small(8), sub(L, small(1)), L, add(L, small(1)), mul(L, small(2)), mul(L, small(4)),
		l8, add(l8, small(1)), sub(l8, small(1)), pow2(256), sub(pow2(256), small(1)), pow2(511), sub(pow2(512), small(1)), Q, sub(Q, small(1))}
}

func (g *gen) curve() {
	r := g.r
	g.add("bj.consts")
	// exhaustive small-order table
	for _, p := range smallPts {
		for _, q := range smallPts {
			g.add("bj.add %s %s", pt(p), pt(q))
		}
		for k := 0; k <= 9; k++ {
			g.add("bj.mul %d %s", k, pt(p))
		}
		g.add("bj.mul %s %s", L, pt(p))
	}
	for i := 0; i < g.n(150, 3000); i++ {
		p, q := r.curvePoint(), r.curvePoint()
		switch r.intn(6) {
		case 0:
			q = p
		case 1:
			q = &babyjub.Point{X: mod(neg(p.X), Q), Y: p.Y}
		case 2:
			q = smallPts[r.intn(8)]
		}
		g.add("bj.add@%s %s %s", []string{"n", "zx", "zy"}[r.intn(3)], pt(p), pt(q))
		if p == q {
			g.add("bj.add@xy %s %s", pt(p), pt(q))
		}
	}
	sc := g.scalars()
	for i := 0; i < g.n(60, 1500); i++ {
		p := r.curvePoint()
		var s *big.Int
		switch r.intn(4) {
		case 0:
			s = r.pick(sc)
		case 1:
			s = r.bigBits(r.intn(513))
		case 2:
			s = small(int64(r.intn(40)))
		default:
			s = r.below(mul(L, small(8)))
		}
		g.add("bj.mul %s %s", s, pt(p))
	}
	for _, s := range sc {
		g.add("bj.mul %s %s", s, pt(toPoint(refB8)))
		g.add("bj.mul %s %s", s, pt(fullG))
		g.add("bj.mulconst %s", s)
	}
	g.add("bj.addconst")
}

func (g *gen) membership() {
	r := g.r
	g.add("bj.consts")
	for _, p := range smallPts {
		g.add("bj.incurve %s", pt(p))
		g.add("bj.insubgroup %s", pt(p))
		s := pmulB8(r.below(L))
		sp := padd(s, p)
		g.add("bj.insubgroup %s", pt(sp))
		g.add("bj.incurve %s", pt(sp))
	}
	g.add("bj.incurve 0 0")
	g.add("bj.insubgroup 0 0")
	g.add("bj.insubgroup %s", pt(toPoint(refB8)))
	g.add("bj.insubgroup %s", pt(fullG))
	for i := 0; i < g.n(200, 4000); i++ {
		p := r.anyPoint()
		g.add("bj.incurve %s", pt(p))
		g.add("bj.insubgroup %s", pt(p))
	}
	for i := 0; i < g.n(10, 100); i++ {
		// non-canonical coordinates: congruent representatives
		p := r.curvePoint()
		g.add("bj.incurve %s %s", add(p.X, Q), sub(p.Y, Q))
	}
}

func (g *gen) receiver() {
	r := g.r
	sc := g.scalars()
	for i := 0; i < g.n(60, 800); i++ {
		p := r.curvePoint()
		s := r.pick(sc)
		if r.bool() {
			s = r.below(mul(L, small(8)))
		}
		g.add("bj.mulrecv@%s %s %s", []string{"fresh", "self", "dirty"}[r.intn(3)], s, pt(p))
		g.add("bj.set@%s %s", []string{"fresh", "self"}[r.intn(2)], pt(p))
		c := p.Compress()
		g.add("bj.decompress@%s %s", []string{"fresh", "dirty"}[r.intn(2)], hx(c[:]))
		sig := append(append([]byte{}, c[:]...), r.bytes(32)...)
		g.add("ed.sigdecompress@%s %s", []string{"recv", "dirty", "comp"}[r.intn(3)], hx(sig))
	}
	g.add("bj.mulrecv@fresh 5 %s", pt(toPoint(refB8)))
	g.add("bj.mulrecv@self 5 %s", pt(toPoint(refB8)))
	// every boundary scalar and the special points with every receiver pattern
	special := []*babyjub.Point{toPoint(refB8), smallPts[0], smallPts[1], smallPts[4], fullG}
	for _, s := range sc {
		for _, p := range special {
			g.add("bj.mulrecv@%s %s %s", []string{"fresh", "self", "dirty"}[r.intn(3)], s, pt(p))
		}
	}
	for _, p := range special {
		for _, pat := range []string{"fresh", "self", "dirty"} {
			g.add("bj.mulrecv@%s 0 %s", pat, pt(p))
			g.add("bj.mulrecv@%s 1 %s", pat, pt(p))
		}
	}
}

// ---------------- C06 : compression ----------------
func (g *gen) compression() {
	r := g.r
	ys := []*big.Int{small(0), small(1), small(2), sub(Q, small(1)), Q, add(Q, small(1)), sub(pow2(255), small(1)), sub(Q, small(2)), new(big.Int).Rsh(Q, 1)}
	for _, y := range ys {
		for _, sign := range []bool{false, true} {
			c := babyjub.PackSignY(sign, y)
			g.add("bj.decompress %s", hx(c[:]))
			g.add("bj.decompress@samey %s", hx(c[:]))
			g.add("bj.pfsy %v %s", sign, y)
			g.add("bj.packsigny %v %s", sign, y)
			g.add("bj.unpacksigny %s", hx(c[:]))
		}
	}
	for _, p := range smallPts {
		g.add("bj.compress %s", pt(p))
		c := p.Compress()
		g.add("bj.decompress %s", hx(c[:]))
		c[31] ^= 0x80
		g.add("bj.decompress %s", hx(c[:]))
	}
	for i := 0; i < g.n(200, 5000); i++ {
		p := r.curvePoint()
		g.add("bj.compress %s", pt(p))
		c := p.Compress()
		g.add("bj.decompress@%s %s", []string{"fresh", "dirty", "samey"}[r.intn(3)], hx(c[:]))
		c[31] ^= 0x80
		g.add("bj.decompress@%s %s", []string{"fresh", "samey"}[r.intn(2)], hx(c[:]))
		b := r.bytes(32)
		if r.bool() {
			b[31] &= 0x3f
		}
		g.add("bj.decompress@%s %s", []string{"fresh", "dirty", "samey"}[r.intn(3)], hx(b))
		g.add("bj.unpacksigny %s", hx(b))
		y := r.felem(Q)
		g.add("bj.pfsy %v %s", r.bool(), y)
		g.add("bj.packsigny %v %s", r.bool(), r.anyInt())
		g.add("bj.coordsign %s", r.felem(Q))
	}
	half := new(big.Int).Rsh(Q, 1)
	for _, c := range []*big.Int{small(0), half, add(half, small(1)), sub(half, small(1)), sub(Q, small(1))} {
		g.add("bj.coordsign %s", c)
	}
}

// ---------------- C12 / C02 / C03 / C14 : EdDSA ----------------
func (g *gen) keyWithBits(want0, want31 byte, mask0, mask31 byte) []byte {
	for {
		k := g.r.bytes(32)
		d := babyjub.Blake512(k)
		if d[0]&mask0 == want0 && d[31]&mask31 == want31 {
			return k
		}
	}
}

func (g *gen) keys(n int) [][]byte {
	var ks [][]byte
	// digest byte 0 low three bits and byte 31 top two bits in every combination
	for lo := 0; lo < 8; lo++ {
		for hi := 0; hi < 4; hi++ {
			if !g.thor && (lo+hi)%3 != 0 {
				continue
			}
			ks = append(ks, g.keyWithBits(byte(lo), byte(hi<<6), 0x07, 0xC0))
		}
	}
	ks = append(ks, make([]byte, 32))
	ff := make([]byte, 32)
	for i := range ff {
		ff[i] = 0xff
	}
	ks = append(ks, ff)
	for len(ks) < n {
		ks = append(ks, g.r.bytes(32))
	}
	return ks
}

func (g *gen) keyDerivation() {
	for _, k := range g.keys(g.n(40, 600)) {
		g.add("ed.sk2big %s", hx(k))
		g.add("ed.public %s", hx(k))
		var pk babyjub.PrivateKey
		copy(pk[:], k)
		p := pk.Public().Point()
		g.add("bj.insubgroup %s", pt(p))
	}
}

func (g *gen) msgs() []*big.Int {
	return []*big.Int{small(0), small(1), sub(Q, small(1)), pow2(253), small(1234567)}
}

func signWith(h string, k []byte, msg *big.Int) *babyjub.Signature {
	var pk babyjub.PrivateKey
	copy(pk[:], k)
	var sig *babyjub.Signature
	var err error
	if h == "poseidon" {
		sig, err = pk.SignPoseidon(msg)
	} else {
		sig, err = pk.SignMimc7(msg)
	}
	if err != nil || sig == nil || sig.R8 == nil || sig.S == nil {
		// the library under test failed to sign: still produce a well-formed input tuple
		return &babyjub.Signature{R8: pmulB8(small(5)), S: small(5)}
	}
	return sig
}

func pubOf(k []byte) *babyjub.Point {
	var pk babyjub.PrivateKey
	copy(pk[:], k)
	return pk.Public().Point()
}

func (g *gen) signing() {
	r := g.r
	ks := g.keys(g.n(12, 120))
	ms := g.msgs()
	for i, k := range ks {
		for _, h := range []string{"poseidon", "mimc7"} {
			var msg *big.Int
			if i < len(ms)*2 {
				msg = ms[i%len(ms)]
			} else {
				msg = r.felem(Q)
			}
			g.add("ed.sign %s %s %s", h, hx(k), msg)
			sig := signWith(h, k, msg)
			a := pubOf(k)
			g.add("ed.verify %s %s %s %s %s", h, pt(a), msg, pt(sig.R8), sig.S)
			c := sig.Compress()
			g.add("ed.sigdecompress@comp %s", hx(c[:]))
			ac := a.Compress()
			g.add("ed.verifycomp %s %s %s %s", h, hx(ac[:]), msg, hx(c[:]))
		}
	}
}

func flipBit(b []byte, i int) []byte {
	c := append([]byte{}, b...)
	c[i/8] ^= 1 << uint(i%8)
	return c
}

func (g *gen) verification() {
	r := g.r
	ks := g.keys(g.n(3, 4)) // thorough: every single-bit fault of 4 keys x 2 hashes x 3 seeds (12 keys took 87 min)
	if !g.thor {
		ks = ks[:3]
	}
	for ki, k := range ks {
		for _, h := range []string{"poseidon", "mimc7"} {
			other := "mimc7"
			if h == "mimc7" {
				other = "poseidon"
			}
			msg := r.felem(Q)
			if ki == 0 {
				msg = small(0)
			}
			sig := signWith(h, k, msg)
			a := pubOf(k)
			ac := a.Compress()
			sc := sig.Compress()
			g.add("ed.verify %s %s %s %s %s", h, pt(a), msg, pt(sig.R8), sig.S)
			g.add("ed.verify %s %s %s %s %s", other, pt(a), msg, pt(sig.R8), sig.S)
			// every single-bit corruption of signature, public key, message
			step := 1
			if !g.thor {
				step = 5
			}
			off := r.intn(step)
			for i := off; i < 512; i += step {
				g.add("ed.verifycomp %s %s %s %s", h, hx(ac[:]), msg, hx(flipBit(sc[:], i)))
			}
			for i := off; i < 256; i += step {
				g.add("ed.verifycomp %s %s %s %s", h, hx(flipBit(ac[:], i)), msg, hx(sc[:]))
			}
			mb := make([]byte, 32)
			copy(mb, reverse(msg.Bytes()))
			for i := off; i < 254; i += step {
				m2 := new(big.Int).SetBytes(reverse(flipBit(mb, i)))
				g.add("ed.verify %s %s %s %s %s", h, pt(a), m2, pt(sig.R8), sig.S)
			}
			// algebraic variants
			negR := &babyjub.Point{X: mod(neg(sig.R8.X), Q), Y: sig.R8.Y}
			g.add("ed.verify %s %s %s %s %s", h, pt(a), msg, pt(negR), sig.S)
			g.add("ed.verify %s %s %s %s %s", h, pt(a), msg, pt(sig.R8), mod(neg(sig.S), L))
			g.add("ed.verify %s %s %s %s %s", h, pt(a), msg, pt(negR), mod(neg(sig.S), L))
			for _, t := range smallPts[1:] {
				g.add("ed.verify %s %s %s %s %s", h, pt(a), msg, pt(padd(sig.R8, t)), sig.S)
				g.add("ed.verify %s %s %s %s %s", h, pt(padd(a, t)), msg, pt(sig.R8), sig.S)
			}
			k2 := r.bytes(32)
			g.add("ed.verify %s %s %s %s %s", h, pt(pubOf(k2)), msg, pt(sig.R8), sig.S)
			g.add("ed.verify %s %s %s %s %s", h, pt(a), add(msg, small(1)), pt(sig.R8), sig.S)
			g.add("ed.verify %s %s %s %s %s", h, pt(a), msg, pt(sig.R8), mod(add(sig.S, small(1)), L))
			g.add("ed.verify %s %s %s 0 1 0", h, pt(a), msg)
			g.add("ed.verify %s 0 1 %s %s %s", h, msg, pt(sig.R8), sig.S)
			g.add("ed.verify %s 0 1 %s 0 1 0", h, msg)
			// random tuples from the stated domain (curve points, S < l): equation decides
			for i := 0; i < g.n(3, 30); i++ {
				g.add("ed.verify %s %s %s %s %s", h, pt(r.curvePoint()), r.felem(Q), pt(r.curvePoint()), r.below(L))
			}
			// constructed solutions of the equation that are not honest signatures:
			// choose S, A arbitrary, R8 := S*B8 - 8*hm*A needs hm(R8) — not constructible; instead S=0,R8=O,A of order 8:
			for _, t := range smallPts {
				g.add("ed.verify %s %s %s 0 1 0", h, pt(t), msg)
			}
		}
	}
}

func reverse(b []byte) []byte {
	c := make([]byte, len(b))
	for i := range b {
		c[len(b)-1-i] = b[i]
	}
	return c
}

func (g *gen) malleability() {
	r := g.r
	ks := g.keys(g.n(4, 40))
	if !g.thor {
		ks = ks[:4]
	}
	for _, k := range ks {
		for _, h := range []string{"poseidon", "mimc7"} {
			msg := r.felem(Q)
			sig := signWith(h, k, msg)
			a := pubOf(k)
			ac := a.Compress()
			g.add("ed.verify %s %s %s %s %s", h, pt(a), msg, pt(sig.R8), sig.S)
			for j := int64(1); ; j++ {
				s2 := add(sig.S, mul(L, small(j)))
				if s2.BitLen() > 256 {
					break
				}
				g.add("ed.verify %s %s %s %s %s", h, pt(a), msg, pt(sig.R8), s2)
				s2c := (&babyjub.Signature{R8: sig.R8, S: s2}).Compress()
				g.add("ed.verifycomp %s %s %s %s", h, hx(ac[:]), msg, hx(s2c[:]))
			}
			for _, s2 := range []*big.Int{sub(sig.S, L), neg(sig.S), sub(sig.S, pow2(256)), sub(sig.S, pow2(64)), sub(sig.S, mul(L, small(8))), small(-1),
				add(sig.S, mul(L, pow2(10))), add(sig.S, mul(L, pow2(300))), L, sub(L, small(1)), sub(pow2(256), small(1)), add(sig.S, pow2(256))} {
				g.add("ed.verify %s %s %s %s %s", h, pt(a), msg, pt(sig.R8), s2)
			}
		}
	}
}

// ---------------- C15 : codecs ----------------
func (g *gen) textVariants(raw []byte) [][]byte {
	r := g.r
	h := []byte(hex.EncodeToString(raw))
	up := []byte(strings.ToUpper(string(h)))
	vs := [][]byte{h, append([]byte("0x"), h...), up, append([]byte("0X"), h...), append([]byte("0x0x"), h...)}
	if len(h) > 0 {
		vs = append(vs, h[:len(h)-1], h[1:], append(append([]byte{}, h...), '0'), append(append([]byte{}, h...), '0', '0'),
			append([]byte("0x"), h[:len(h)-1]...), append(append([]byte("0x"), h...), 'g'))
		for _, bad := range []byte{'g', ' ', 'G', 0x00, 0xff, '/', ':', '@', '`'} {
			c := append([]byte{}, h...)
			c[r.intn(len(c))] = bad
			vs = append(vs, c)
			c2 := append([]byte{}, h...)
			c2[len(c2)-1] = bad
			vs = append(vs, c2)
			c3 := append([]byte{}, h[:len(h)-1]...)
			c3[len(c3)-1] = bad
			vs = append(vs, c3)
		}
	}
	return vs
}

func (g *gen) codecs() {
	r := g.r
	// helper encodings
	for n := 0; n <= 200; n++ {
		if !g.thor && n > 70 && n%13 != 0 {
			continue
		}
		b := r.bytes(n)
		g.add("u.hexencode %s", hx(b))
		g.add("u.swap %s", hx(b))
		g.add("u.fromle %s", hx(b))
		t := []byte(hex.EncodeToString(b))
		g.add("u.hexdecode %s", hx(t))
		g.add("u.hexdecode %s", hx(append([]byte("0x"), t...)))
		if n > 0 {
			g.add("u.hexdecode %s", hx(t[:len(t)-1]))
			c := append([]byte{}, t...)
			c[r.intn(len(c))] = "gG :\x00\xff"[r.intn(6)]
			g.add("u.hexdecode %s", hx(c))
		}
		for _, size := range []int{n, n + 1, 32, 64} {
			g.add("u.hexdecodeinto %d %s", size, hx(t))
			g.add("u.hexdecodeinto %d %s", size, hx(append([]byte("0x"), t...)))
		}
	}
	for _, raw := range [][]byte{r.bytes(32), r.bytes(64), r.bytes(31), r.bytes(33), r.bytes(63), r.bytes(65), {}} {
		for _, v := range g.textVariants(raw) {
			g.add("u.hexdecode %s", hx(v))
			g.add("u.hexdecodeinto 32 %s", hx(v))
			g.add("u.hexdecodeinto 64 %s", hx(v))
			g.add("ed.comp.unmarshal 32 %s", hx(v))
			g.add("ed.comp.unmarshal 64 %s", hx(v))
			g.add("ed.pk.unmarshal %s", hx(v))
			g.add("ed.decompresssig %s", hx(v))
		}
	}
	for i := 0; i < g.n(60, 1500); i++ {
		v := r.anyInt()
		if r.bool() {
			v = r.bigBits(r.intn(257))
		}
		g.add("u.lebytes %s", v)
		// signatures and keys
		p := r.curvePoint()
		s := r.bigBits(256)
		if r.bool() {
			s = r.below(L)
		}
		g.add("ed.sigcompress %s %s", pt(p), s)
		g.add("ed.sig.value %s %s", pt(p), s)
		g.add("ed.pk.value %s", pt(p))
		g.add("ed.pk.marshal %s", pt(p))
		sc := (&babyjub.Signature{R8: p, S: s}).Compress()
		pc := p.Compress()
		g.add("ed.sigdecompress@%s %s", []string{"recv", "comp", "dirty"}[r.intn(3)], hx(sc[:]))
		g.add("ed.comp.marshal %s", hx(sc[:]))
		g.add("ed.comp.marshal %s", hx(pc[:]))
		g.add("ed.decompresssig %s", hx([]byte(hex.EncodeToString(sc[:]))))
		g.add("ed.pk.unmarshal %s", hx([]byte(hex.EncodeToString(pc[:]))))
		g.add("ed.pk.scan bytes %s", hx(pc[:]))
		g.add("ed.sig.scan bytes %s", hx(sc[:]))
		g.add("ed.comp.scan 32 bytes %s", hx(pc[:]))
		g.add("ed.comp.scan 64 bytes %s", hx(sc[:]))
		if i%6 == 0 {
			for _, v := range g.textVariants(pc[:]) {
				g.add("ed.pk.unmarshal %s", hx(v))
				g.add("ed.comp.unmarshal 32 %s", hx(v))
			}
			for _, v := range g.textVariants(sc[:]) {
				g.add("ed.decompresssig %s", hx(v))
				g.add("ed.comp.unmarshal 64 %s", hx(v))
			}
		}
		// invalid points inside valid-length payloads
		bad := r.bytes(32)
		g.add("ed.pk.scan bytes %s", hx(bad))
		g.add("ed.sig.scan bytes %s", hx(append(bad, r.bytes(32)...)))
		g.add("ed.pk.unmarshal %s", hx([]byte(hex.EncodeToString(bad))))
	}
	// scan: every type and every length
	for n := 0; n <= 200; n++ {
		if !g.thor && n > 70 && n%11 != 0 {
			continue
		}
		b := r.bytes(n)
		for _, op := range []string{"ed.pk.scan", "ed.sig.scan", "ed.comp.scan 32", "ed.comp.scan 64"} {
			g.add("%s bytes %s", op, hx(b))
			if n%10 == 0 {
				g.add("%s string %s", op, hx(b))
			}
		}
	}
	p := r.curvePoint()
	pc := p.Compress()
	sc := (&babyjub.Signature{R8: p, S: r.below(L)}).Compress()
	for _, op := range []string{"ed.pk.scan", "ed.sig.scan", "ed.comp.scan 32", "ed.comp.scan 64"} {
		g.add("%s nil -", op)
		g.add("%s int64 %d", op, int64(r.next()))
		g.add("%s float64 -", op)
		g.add("%s bool true", op)
		g.add("%s time -", op)
		g.add("%s string %s", op, hx([]byte(hex.EncodeToString(pc[:]))))
		g.add("%s string %s", op, hx(pc[:]))
		g.add("%s string %s", op, hx(sc[:]))
		g.add("%s array32 %s", op, hx(pc[:]))
		g.add("%s array64 %s", op, hx(sc[:]))
	}
}

// ---------------- C20 : hash wrappers ----------------
func (g *gen) hashes() {
	r := g.r
	lens := []int{0, 1, 2, 55, 56, 63, 64, 65, 110, 111, 112, 113, 127, 128, 129, 134, 135, 136, 137, 138, 239, 240, 255, 256, 257, 271, 272, 273, 383, 384, 385, 407, 408, 409, 1000}
	if g.thor {
		lens = nil
		for n := 0; n <= 1000; n++ {
			lens = append(lens, n)
		}
	}
	for _, n := range lens {
		b := r.bytes(n)
		g.add("blake.hash %s", hx(b))
		g.add("keccak.hash %s", hx(b))
		// splits into up to 4 slices at boundary and random positions
		cuts := []int{0, n, n / 2, 135, 136, 137, 1, n - 1, 272}
		for rep := 0; rep < g.n(3, 6); rep++ {
			k := 1 + r.intn(3)
			pos := []int{}
			for j := 0; j < k; j++ {
				c := cuts[r.intn(len(cuts))]
				if r.bool() {
					c = r.intn(n + 1)
				}
				if c < 0 {
					c = 0
				}
				if c > n {
					c = n
				}
				pos = append(pos, c)
			}
			// sort
			for i := range pos {
				for j := i + 1; j < len(pos); j++ {
					if pos[j] < pos[i] {
						pos[i], pos[j] = pos[j], pos[i]
					}
				}
			}
			parts := []string{}
			prev := 0
			for _, c := range pos {
				parts = append(parts, hx(b[prev:c]))
				prev = c
			}
			parts = append(parts, hx(b[prev:]))
			g.add("keccak.hash %s", strings.Join(parts, " "))
		}
	}
	g.add("keccak.hash")
	g.add("keccak.hash x")
	g.add("keccak.hash x x x")
	g.add("keccak.hash@nil0 x x6162")
	g.add("keccak.hash x616263")
	g.add("keccak.hash x61 x x6263")
	g.add("blake.hash x")
	g.add("blake.hash x00")
	g.add("blake.hash %s", hx(make([]byte, 144)))
	for _, by := range []byte{0x00, 0xff, 0x80} {
		for _, n := range []int{111, 112, 128, 135, 136} {
			b := make([]byte, n)
			for i := range b {
				b[i] = by
			}
			g.add("blake.hash %s", hx(b))
			g.add("keccak.hash %s", hx(b))
		}
	}
}

// ---------------- C16 / C17 : mixed histories ----------------
func (g *gen) mixed(n int) {
	// pool of ops from every generator, then a shuffled history with snapshots of the package constants
	sg := &gen{r: g.r, thor: false}
	sg.fieldArith("ff", Q)
	sg.fieldArith("ffg", GP)
	sg.conversions("ff", Q)
	sg.conversions("ffg", GP)
	sg.sqrtLegendre("ff", Q)
	sg.sqrtLegendre("ffg", GP)
	sg.poseidon()
	sg.poseidonDomain()
	sg.mimc7()
	sg.golden()
	sg.curve()
	sg.membership()
	sg.receiver()
	sg.compression()
	sg.keyDerivation()
	sg.signing()
	sg.malleability()
	sg.codecs()
	sg.hashes()
	// huge operands
	specialStart := len(sg.ops)
	huge := []*big.Int{pow2(1100), neg(pow2(1100)), sub(pow2(1100), small(1)), mul(Q, pow2(900))}
	for _, h := range huge {
		sg.add("ff.setbigint %s", h)
		sg.add("ffg.setbigint %s", h)
		sg.add("poseidon.hashex [%s] 0 1", h)
		sg.add("poseidon.hashex [1] %s 1", h)
		sg.add("mimc7.hash [%s] nil", h)
		sg.add("mimc7.hash [1] %s", h)
		sg.add("mimc7.mimc7hash %s %s", h, h)
		sg.add("bj.incurve %s %s", h, h)
		sg.add("bj.mul %s %s", pow2(600), pt(toPoint(refB8)))
		sg.add("bj.compress %s %s", h, h)
		sg.add("u.lebytes %s", h)
		sg.add("u.infield %s", h)
		sg.add("bj.pfsy true %s", h)
		sg.add("bj.coordsign %s", h)
	}
	// negative and out-of-range integers where a field value is expected: nothing passed in may be normalised in place
	for _, v := range []*big.Int{small(-1), neg(sub(Q, small(1))), neg(refB8.Y), neg(Q), neg(pow2(256)), Q, add(Q, small(5))} {
		sg.add("bj.pfsy true %s", v)
		sg.add("bj.pfsy false %s", v)
		sg.add("bj.incurve %s %s", v, v)
		sg.add("bj.coordsign %s", v)
		sg.add("u.infield %s", v)
		sg.add("poseidon.hashex [%s] 0 1", v)
		sg.add("poseidon.hashex [1] %s 1", v)
		sg.add("mimc7.hash [%s] nil", v)
		sg.add("mimc7.hash [1] %s", v)
		sg.add("mimc7.mimc7hash %s %s", v, v)
		sg.add("ff.setbigint %s", v)
		sg.add("ffg.setbigint %s", v)
	}
	pool := sg.ops
	if g.grouped {
		// COLD START: the first use of every function (and of every Poseidon width / MiMC7 round count) in the
		// process happens simultaneously on all goroutines — lazily built or lazily normalised package state is
		// exercised while it is being built.  The harness itself calls nothing of the library before the ops.
		key := func(op string) string {
			f := strings.Fields(op)
			k := strings.SplitN(f[0], "@", 2)[0]
			if len(f) > 1 && strings.HasPrefix(f[1], "[") {
				k += "#" + strconv.Itoa(strings.Count(f[1], ",")+1)
			}
			if (strings.HasSuffix(k, "generic") || strings.Contains(k, "hashgeneric")) && len(f) > 1 {
				k += "#" + f[len(f)-1]
			}
			return k
		}
		byKey := map[string][]string{}
		var keys []string
		for _, op := range pool {
			k := key(op)
			if _, ok := byKey[k]; !ok {
				keys = append(keys, k)
			}
			byKey[k] = append(byKey[k], op)
		}
		for _, k := range keys {
			l := byKey[k]
			n := 32 // two barrier rounds at -conc 16
			if g.thor {
				n = 128
			}
			for i := 0; i < n; i++ {
				g.add(l[i%len(l)])
			}
		}
	}
	// ops that hand package-level constants to the library and then write through the result
	var constOps []string
	for _, s := range g.scalars() {
		constOps = append(constOps, fmt.Sprintf("bj.mulconst %s", s))
	}
	for i := 0; i < 12; i++ {
		constOps = append(constOps, fmt.Sprintf("bj.mulconst %d", i))
	}
	constOps = append(constOps, "bj.addconst")
	snap := []string{"bj.consts", "poseidon.consts", "mimc7.consts", "golden.tablesum", "ff.one", "ffg.one", "ff.modulus", "ffg.modulus"}
	for t := 2; t <= 17; t++ {
		snap = append(snap, fmt.Sprintf("poseidon.tablesum %d", t))
	}
	for _, s := range snap {
		g.add(s)
	}
	// every op with a huge, negative or out-of-range operand is executed once (the random history below samples
	// them only occasionally)
	for _, op := range pool[specialStart:] {
		g.add(op)
	}
	var recent []string
	for i := 0; i < n; i++ {
		var op string
		if len(recent) > 0 && g.r.intn(5) == 0 {
			op = recent[g.r.intn(len(recent))] // repeat an earlier call
		} else {
			op = pool[g.r.intn(len(pool))]
		}
		g.add(op)
		recent = append(recent, op)
		if len(recent) > 64 {
			recent = recent[1:]
		}
		if i%97 == 96 {
			g.add(snap[g.r.intn(len(snap))])
		}
	}
	for _, s := range constOps {
		g.add(s)
		g.add("bj.consts")
	}
	for _, s := range snap {
		g.add(s)
	}
	if g.grouped {
		// ops of the same kind side by side: with op i on goroutine i mod conc, calls of the same function
		// with different arguments run simultaneously
		byKind := map[string][]string{}
		var kinds []string
		for _, op := range pool {
			k := strings.SplitN(strings.SplitN(op, " ", 2)[0], "@", 2)[0]
			if _, ok := byKind[k]; !ok {
				kinds = append(kinds, k)
			}
			byKind[k] = append(byKind[k], op)
		}
		for _, k := range kinds {
			l := byKind[k]
			for i := 0; i < 96; i++ {
				g.add(l[g.r.intn(len(l))])
			}
		}
	}
}

// vary appends, for a sample of the ops generated so far, runs  A, A[arg i := B's arg i] (every i), A  with B
// another op of the same kind: consecutive calls that differ in exactly one argument (and a repetition), which is
// what a memo keyed by part of the input, or a result cached from the previous call, gets wrong.
func (g *gen) vary(samples int) {
	byKind := map[string][]string{}
	var kinds []string
	for _, op := range g.ops {
		f := strings.Fields(op)
		if len(f) < 3 || strings.Contains(f[0], "@xy") || strings.Contains(f[0], "@zxy") ||
			strings.Contains(f[0], ".scan") || strings.Contains(f[0], "setinterface") {
			continue // too few arguments; a pattern that REQUIRES two arguments to be equal; or an op whose
			// argument types depend on another argument (dynamic-type tag + payload)
		}
		k := f[0] + "/" + strconv.Itoa(len(f))
		if _, ok := byKind[k]; !ok {
			kinds = append(kinds, k)
		}
		byKind[k] = append(byKind[k], op)
	}
	if len(kinds) == 0 {
		return
	}
	for n := 0; n < samples; n++ {
		l := byKind[kinds[g.r.intn(len(kinds))]]
		if len(l) < 2 {
			continue
		}
		a := strings.Fields(l[g.r.intn(len(l))])
		b := strings.Fields(l[g.r.intn(len(l))])
		g.add(strings.Join(a, " "))
		for i := 1; i < len(a); i++ {
			if a[i] == b[i] {
				continue
			}
			v := append([]string{}, a...)
			v[i] = b[i]
			g.add(strings.Join(v, " "))
			g.add(strings.Join(a, " "))
		}
	}
}

func generate(prop string, thor bool, seed uint64) []string {
	g := &gen{r: &rng{s: seed*0x9e3779b97f4a7c15 + uint64(len(prop))*7919 + hashStr(prop)}, thor: thor}
	switch prop {
	case "C01":
		g.poseidon()
	case "C02":
		g.signing()
	case "C03":
		g.verification()
	case "C04":
		g.curve()
	case "C05":
		g.fieldArith("ff", Q)
	case "C06":
		g.compression()
	case "C07":
		g.poseidonDomain()
	case "C08":
		g.mimc7()
	case "C09":
		g.fieldArith("ffg", GP)
	case "C10":
		g.golden()
	case "C11":
		g.conversions("ff", Q)
		g.conversions("ffg", GP)
	case "C12":
		g.keyDerivation()
	case "C13":
		g.membership()
	case "C14":
		g.malleability()
	case "C15":
		g.codecs()
	case "C16":
		g.mixed(g.n(6000, 60000))
	case "C17":
		g.grouped = true
		g.mixed(g.n(3000, 30000))
	case "C18":
		g.sqrtLegendre("ff", Q)
		g.sqrtLegendre("ffg", GP)
	case "C19":
		g.receiver()
	case "C20":
		g.hashes()
	default:
		panic("unknown property " + prop)
	}
	if prop != "C17" && prop != "C05" && prop != "C09" && prop != "C11" {
		g.vary(g.n(40, 400))
	}
	return g.ops
}

func hashStr(s string) uint64 {
	var h uint64 = 1469598103934665603
	for i := 0; i < len(s); i++ {
		h ^= uint64(s[i])
		h *= 1099511628211
	}
	return h
}

// active back-end of the element package behind the public API
func backendRoute(pk string) string {
	if pk != "ff" {
		return "portable"
	}
	if backendKind == "adxonly" {
		return "adxonly"
	}
	if ffSupportAdx() {
		return "adx1"
	}
	return "adx0"
}
