// Go side of the correspondence check: generates operations for one property from a single seeded
// PRNG, executes each against the real library in-process, and prints "op<TAB>result" lines.
//
//	harness -prop C05 -tier quick -seed 1            generate + execute
//	harness -replay file                              execute the op lines of a file
//	harness -prop C17 -conc 16 ...                    execute the ops on 16 goroutines (build with -race)
package main

import (
	"bufio"
	"flag"
	"fmt"
	"os"
	"runtime"
	"strings"
	"sync"
)

func main() {
	prop := flag.String("prop", "", "property id")
	tier := flag.String("tier", "quick", "quick|thorough")
	seed := flag.Uint64("seed", 1, "PRNG seed")
	replay := flag.String("replay", "", "file of op lines to execute instead of generating")
	conc := flag.Int("conc", 0, "run ops on this many goroutines (C17)")
	procs := flag.Int("procs", 0, "GOMAXPROCS")
	genOnly := flag.Bool("genonly", false, "print op lines only")
	search := flag.Int("search", 0, "failing-input search: compare the library with a fast in-harness mirror on this many inputs and print the ops that differ (only after a tie has broken)")
	flag.Parse()
	if *procs > 0 {
		runtime.GOMAXPROCS(*procs)
	}
	initCurve()
	initConstGuard()
	if *search > 0 {
		for _, op := range searchOps(*prop, *seed, *search, 8) {
			fmt.Println(op)
		}
		return
	}
	var ops []string
	if *replay != "" {
		f, err := os.Open(*replay)
		if err != nil {
			fmt.Fprintln(os.Stderr, err)
			os.Exit(2)
		}
		sc := bufio.NewScanner(f)
		sc.Buffer(make([]byte, 1<<20), 1<<26)
		for sc.Scan() {
			l := strings.TrimSpace(sc.Text())
			if l == "" || strings.HasPrefix(l, "#") {
				continue
			}
			if i := strings.IndexByte(l, '\t'); i >= 0 {
				l = l[:i]
			}
			ops = append(ops, l)
		}
		f.Close()
	} else {
		ops = generate(*prop, *tier == "thorough", *seed)
	}
	w := bufio.NewWriterSize(os.Stdout, 1<<20)
	defer w.Flush()
	if *genOnly {
		for _, op := range ops {
			fmt.Fprintln(w, op)
		}
		return
	}
	if *conc <= 1 {
		for _, op := range ops {
			fmt.Fprintf(w, "%s\t%s\n", op, execOp(op))
		}
		return
	}
	concurrentMode = true
	// concurrent execution: goroutine i takes ops i, i+conc, ...; shared read-only inputs arise because
	// the history repeats ops; results are printed in op order
	res := make([]string, len(ops))
	// rounds of `conc` consecutive ops started together behind a barrier, so that neighbouring ops of the
	// generated history (in particular the kind-grouped section) really run simultaneously
	for base := 0; base < len(ops); base += *conc {
		resetSharedArgs()
		var wg sync.WaitGroup
		start := make(chan struct{})
		for gi := 0; gi < *conc && base+gi < len(ops); gi++ {
			wg.Add(1)
			go func(i int) {
				defer wg.Done()
				<-start
				if i%3 == 0 {
					runtime.Gosched()
				}
				res[i] = execOp(ops[i])
			}(base + gi)
		}
		close(start)
		wg.Wait()
	}
	concurrentMode = false
	if g := constGuard(); g != "" && len(res) > 0 {
		res[len(res)-1] += g
	}
	for i, op := range ops {
		fmt.Fprintf(w, "%s\t%s\n", op, res[i])
	}
}
