module verifharness

go 1.20

require github.com/iden3/go-iden3-crypto/v2 v2.0.0

require (
	github.com/dchest/blake512 v1.0.0 // indirect
	golang.org/x/crypto v0.32.0 // indirect
	golang.org/x/sys v0.29.0 // indirect
)

replace github.com/iden3/go-iden3-crypto/v2 => /repo
