package main

// Field-element ops for package ffg.  ffgops.go is derived from this file by `go generate`-style
// textual substitution (see gen_ffg.sh); keep ff-specific code in fieldglue.go.

import (
	"fmt"
	"math/big"
	"strconv"
	"strings"

	"github.com/iden3/go-iden3-crypto/v2/ffg"
)

func ffgRes(z *ffg.Element) string {
	if !ffgCanon(z) {
		return ffgVal(z) + "!noncanonical"
	}
	return ffgVal(z)
}

func ffgLimbs(tok string) ffg.Element {
	if !strings.HasPrefix(tok, "[") || !strings.HasSuffix(tok, "]") {
		panic("harness: bad limbs " + tok)
	}
	parts := strings.Split(tok[1:len(tok)-1], ",")
	var e ffg.Element
	if len(parts) != len(e) {
		panic("harness: bad limb count " + tok)
	}
	for i, p := range parts {
		v, err := strconv.ParseUint(p, 10, 64)
		if err != nil {
			panic("harness: bad limb " + p)
		}
		e[i] = v
	}
	return e
}

func ffgShowLimbs(e *ffg.Element) string {
	s := make([]string, len(e))
	for i, v := range e {
		s[i] = strconv.FormatUint(v, 10)
	}
	return "[" + strings.Join(s, ",") + "]"
}

// binary z.Op(x,y) under an aliasing pattern; returns result and whether operands stayed intact
func ffgBin(pat string, x, y *ffg.Element, f func(z, x, y *ffg.Element) *ffg.Element) string {
	x0, y0 := *x, *y
	var z *ffg.Element
	switch pat {
	case "", "n":
		z = ffg.NewElement()
		for i := range z {
			z[i] = 0xdeadbeef00000001 + uint64(i) // every limb of the destination is stale garbage
		} // dirty destination
		ret := f(z, x, y)
		if ret != z {
			return "!returned-other-object"
		}
		if *x != x0 || *y != y0 {
			return ffgRes(z) + "!operand-modified"
		}
	case "zx":
		z = x
		f(z, x, y)
		if *y != y0 {
			return ffgRes(z) + "!operand-modified"
		}
	case "zy":
		z = y
		f(z, x, y)
		if *x != x0 {
			return ffgRes(z) + "!operand-modified"
		}
	case "xy": // same object for both operands (values must be equal)
		z = ffg.NewElement()
		f(z, x, x)
		if *x != x0 {
			return ffgRes(z) + "!operand-modified"
		}
	case "zxy":
		z = x
		f(z, x, x)
	default:
		panic("harness: bad alias " + pat)
	}
	return ffgRes(z)
}

func ffgUn(pat string, x *ffg.Element, f func(z, x *ffg.Element) *ffg.Element) string {
	x0 := *x
	var z *ffg.Element
	switch pat {
	case "", "n":
		z = ffg.NewElement()
		for i := range z {
			z[i] = 0xdeadbeef00000001 + uint64(i) // every limb of the destination is stale garbage
		}
		ret := f(z, x)
		if ret != z {
			return "!returned-other-object"
		}
		if *x != x0 {
			return ffgRes(z) + "!operand-modified"
		}
	case "zx":
		z = x
		f(z, x)
	default:
		panic("harness: bad alias " + pat)
	}
	return ffgRes(z)
}

func ffgOp(op, pat string, args []string, a *argTrack) string {
	el := func(i int) *ffg.Element { return ffgOf(a.Int(args[i])) }
	switch op {
	case "add":
		need(args, 2)
		return ffgBin(pat, el(0), el(1), func(z, x, y *ffg.Element) *ffg.Element { return z.Add(x, y) })
	case "sub":
		need(args, 2)
		return ffgBin(pat, el(0), el(1), func(z, x, y *ffg.Element) *ffg.Element { return z.Sub(x, y) })
	case "mul":
		need(args, 2)
		return ffgBin(pat, el(0), el(1), func(z, x, y *ffg.Element) *ffg.Element { return z.Mul(x, y) })
	case "div":
		need(args, 2)
		return ffgBin(pat, el(0), el(1), func(z, x, y *ffg.Element) *ffg.Element { return z.Div(x, y) })
	case "neg":
		need(args, 1)
		return ffgUn(pat, el(0), func(z, x *ffg.Element) *ffg.Element { return z.Neg(x) })
	case "double":
		need(args, 1)
		return ffgUn(pat, el(0), func(z, x *ffg.Element) *ffg.Element { return z.Double(x) })
	case "square":
		need(args, 1)
		return ffgUn(pat, el(0), func(z, x *ffg.Element) *ffg.Element { return z.Square(x) })
	case "inverse":
		need(args, 1)
		return ffgUn(pat, el(0), func(z, x *ffg.Element) *ffg.Element { return z.Inverse(x) })
	case "halve":
		need(args, 1)
		z := el(0)
		z.Halve()
		return ffgRes(z)
	case "mulby3":
		need(args, 1)
		z := el(0)
		if pat == "generic" {
			ffgMulByConstant(z, 3)
		} else {
			ffg.MulBy3(z)
		}
		return ffgRes(z)
	case "mulby5":
		need(args, 1)
		z := el(0)
		if pat == "generic" {
			ffgMulByConstant(z, 5)
		} else {
			ffg.MulBy5(z)
		}
		return ffgRes(z)
	case "mulby13":
		need(args, 1)
		z := el(0)
		if pat == "generic" {
			ffgMulByConstant(z, 13)
		} else {
			ffg.MulBy13(z)
		}
		return ffgRes(z)
	case "butterfly":
		need(args, 2)
		x, y := el(0), el(1)
		ffg.Butterfly(x, y)
		return ffgRes(x) + " " + ffgRes(y)
	case "exp":
		need(args, 2)
		x := el(0)
		e := a.Int(args[1])
		x0 := *x
		var z *ffg.Element
		if pat == "zx" {
			z = x
			z.Exp(*z, e)
		} else {
			z = ffg.NewElement()
			for i := range z {
				z[i] = 0xdeadbeef00000001 + uint64(i) // every limb of the destination is stale garbage
			}
			z.Exp(*x, e)
			if *x != x0 {
				return ffgRes(z) + "!operand-modified"
			}
		}
		return ffgRes(z)
	case "batchinv":
		need(args, 1)
		l := a.IntList(args[0])
		in := make([]ffg.Element, len(l))
		for i, v := range l {
			in[i] = *ffgOf(v)
		}
		in0 := append([]ffg.Element(nil), in...)
		out := ffg.BatchInvert(in)
		for i := range in {
			if in[i] != in0[i] {
				return "!operand-modified"
			}
		}
		s := make([]string, len(out))
		for i := range out {
			s[i] = ffgRes(&out[i])
		}
		return "[" + strings.Join(s, ",") + "]"
	case "legendre":
		need(args, 1)
		x := el(0)
		x0 := *x
		r := x.Legendre()
		if *x != x0 {
			return strconv.Itoa(r) + "!operand-modified"
		}
		return strconv.Itoa(r)
	case "sqrt":
		need(args, 1)
		x := el(0)
		x0 := *x
		var z *ffg.Element
		if pat == "zx" {
			z = x
		} else {
			z = ffg.NewElement().SetUint64(123456789)
		}
		z0 := *z
		ret := z.Sqrt(x)
		if ret == nil {
			if *z != z0 {
				return "nil!destination-changed"
			}
			return "nil"
		}
		if ret != z {
			return ffgRes(ret) + "!returned-other-object"
		}
		if pat != "zx" && *x != x0 {
			return ffgRes(z) + "!operand-modified"
		}
		// independent check: the stored value squares to x
		var sq ffg.Element
		sq.Mul(z, z)
		if sq != x0 {
			return ffgRes(z) + "!not-a-root"
		}
		return ffgRes(z)
	case "setbigint":
		need(args, 1)
		z := ffg.NewElement()
		for i := range z {
			z[i] = 0xdeadbeef00000001 + uint64(i) // every limb of the destination is stale garbage
		}
		z.SetBigInt(a.Int(args[0]))
		return ffgRes(z)
	case "setstring":
		need(args, 1)
		z := ffg.NewElement()
		for i := range z {
			z[i] = 0xdeadbeef00000001 + uint64(i) // every limb of the destination is stale garbage
		}
		z.SetString(args[0])
		return ffgRes(z)
	case "setbytes":
		need(args, 1)
		z := ffg.NewElement()
		for i := range z {
			z[i] = 0xdeadbeef00000001 + uint64(i) // every limb of the destination is stale garbage
		}
		z.SetBytes(a.Bytes(args[0]))
		return ffgRes(z)
	case "setuint64":
		need(args, 1)
		v, err := strconv.ParseUint(args[0], 10, 64)
		if err != nil {
			panic("harness: bad uint64")
		}
		z := ffg.NewElement()
		for i := range z {
			z[i] = 0xdeadbeef00000001 + uint64(i) // every limb of the destination is stale garbage
		}
		z.SetUint64(v)
		z2 := ffgFromU64(v)
		if *z != *z2 {
			return ffgRes(z) + "!NewElementFromUint64-differs"
		}
		return ffgRes(z)
	case "setinterface":
		need(args, 2)
		z := ffg.NewElement()
		for i := range z {
			z[i] = 0xdeadbeef00000001 + uint64(i) // every limb of the destination is stale garbage
		}
		var arg interface{}
		switch args[0] {
		case "element":
			arg = *ffgOf(a.Int(args[1]))
		case "elementptr":
			arg = ffgOf(a.Int(args[1]))
		case "uint64":
			v, err := strconv.ParseUint(args[1], 10, 64)
			if err != nil {
				panic("harness: bad uint64")
			}
			arg = v
		case "int":
			v, err := strconv.ParseInt(args[1], 10, 64)
			if err != nil {
				panic("harness: bad int")
			}
			if int64(int(v)) == v {
				arg = int(v)
			} else {
				arg = new(big.Int).SetInt64(v) // GOARCH=386: an int cannot hold it; the same integer as *big.Int keeps the op stream aligned
			}
		case "string":
			arg = args[1]
		case "bigintptr":
			arg = a.Int(args[1])
		case "bigint":
			arg = *a.Int(args[1])
		case "bytes":
			arg = a.Bytes(args[1])
		case "float64":
			arg = 1.5
		case "int32":
			arg = int32(7)
		default:
			panic("harness: bad kind")
		}
		r, err := z.SetInterface(arg)
		if err != nil {
			if r != nil {
				return classify(err) + "!nonnil-result"
			}
			return classify(err)
		}
		return ffgRes(r)
	case "tobigint":
		need(args, 1)
		x := el(0)
		x0 := *x
		dst := big.NewInt(-5)
		r := x.ToBigIntRegular(dst)
		if r != dst {
			return r.String() + "!returned-other-object"
		}
		if *x != x0 {
			return r.String() + "!operand-modified"
		}
		reg := x.ToRegular()
		if (&reg).ToBigInt(new(big.Int)).Cmp(r) != 0 {
			return r.String() + "!ToRegular-differs"
		}
		return r.String()
	case "montbigint":
		need(args, 1)
		return el(0).ToBigInt(new(big.Int)).String()
	case "bytes":
		need(args, 1)
		x := el(0)
		b := x.Bytes()
		m := x.Marshal()
		if string(b[:]) != string(m) {
			return showBytes(b[:]) + "!Marshal-differs"
		}
		// a result must stay what it is when the operation is used again (on another element)
		other := ffg.NewElement().SetUint64(0x0123456789abcdef)
		_ = other.Marshal()
		_ = other.Bytes()
		if string(b[:]) != string(m) {
			return showBytes(b[:]) + "!result-overwritten-by-next-call"
		}
		a.Keep(func() string { return showBytes(m) })
		return showBytes(b[:])
	case "string":
		need(args, 1)
		s := el(0).String()
		v, ok := new(big.Int).SetString(s, 10)
		if !ok {
			return "!unparsable:" + s
		}
		if v.String() != s {
			return "!noncanonical-decimal:" + s
		}
		return s
	case "cmp":
		need(args, 2)
		return strconv.Itoa(el(0).Cmp(el(1)))
	case "equal":
		need(args, 2)
		return showBool(el(0).Equal(el(1)))
	case "lex":
		need(args, 1)
		return showBool(el(0).LexicographicallyLargest())
	case "iszero":
		need(args, 1)
		return showBool(el(0).IsZero())
	case "isuint64":
		need(args, 1)
		return showBool(el(0).IsUint64())
	case "bitlen":
		need(args, 1)
		return strconv.Itoa(el(0).BitLen())
	case "bit":
		need(args, 2)
		i, err := strconv.ParseUint(args[1], 10, 64)
		if err != nil {
			panic("harness: bad bit index")
		}
		return strconv.FormatUint(el(0).Bit(i), 10)
	case "one":
		o := ffg.One()
		z := ffg.NewElement().SetOne()
		if o != *z {
			return "!One-differs"
		}
		return ffgRes(z)
	case "modulus":
		return ffg.Modulus().String()
	}
	panic("harness: unknown ffg op " + op)
}

// raw limb-level ops: operands are Montgomery limbs as given (canonical unless the generator says otherwise)
func ffgRawOp(op, pat string, args []string, a *argTrack) string {
	lim := func(i int) ffg.Element { return ffgLimbs(args[i]) }
	// "api:<backend>" / "zx:<backend>": the back-end name is information for the Lean side only
	if i := strings.IndexByte(pat, ':'); i >= 0 {
		pat = pat[:i]
	}
	if pat == "api" {
		pat = ""
	}
	switch op {
	case "mul":
		need(args, 2)
		x, y := lim(0), lim(1)
		var z ffg.Element
		switch pat {
		case "generic":
			ffgMulGeneric(&z, &x, &y)
		case "generic-zx":
			ffgMulGeneric(&x, &x, &y)
			z = x
		case "generic-zy":
			ffgMulGeneric(&y, &x, &y)
			z = y
		case "zx":
			x.Mul(&x, &y)
			z = x
		case "zy":
			y.Mul(&x, &y)
			z = y
		default:
			z.Mul(&x, &y)
		}
		return ffgShowLimbs(&z)
	case "square":
		need(args, 1)
		x := lim(0)
		var z ffg.Element
		switch pat {
		case "generic":
			ffgMulGeneric(&z, &x, &x)
		case "generic-zx":
			ffgMulGeneric(&x, &x, &x)
			z = x
		case "zx":
			x.Square(&x)
			z = x
		default:
			z.Square(&x)
		}
		return ffgShowLimbs(&z)
	case "frommont":
		need(args, 1)
		x := lim(0)
		if pat == "generic" {
			ffgFromMontGeneric(&x)
		} else {
			x.FromMont()
		}
		return ffgShowLimbs(&x)
	case "add":
		need(args, 2)
		x, y := lim(0), lim(1)
		var z ffg.Element
		switch pat {
		case "generic":
			ffgAddGeneric(&z, &x, &y)
		case "generic-zx":
			ffgAddGeneric(&x, &x, &y)
			z = x
		case "generic-zy":
			ffgAddGeneric(&y, &x, &y)
			z = y
		case "zx":
			x.Add(&x, &y)
			z = x
		case "zy":
			y.Add(&x, &y)
			z = y
		default:
			z.Add(&x, &y)
		}
		return ffgShowLimbs(&z)
	case "sub":
		need(args, 2)
		x, y := lim(0), lim(1)
		var z ffg.Element
		switch pat {
		case "generic":
			ffgSubGeneric(&z, &x, &y)
		case "generic-zx":
			ffgSubGeneric(&x, &x, &y)
			z = x
		case "generic-zy":
			ffgSubGeneric(&y, &x, &y)
			z = y
		case "zx":
			x.Sub(&x, &y)
			z = x
		case "zy":
			y.Sub(&x, &y)
			z = y
		default:
			z.Sub(&x, &y)
		}
		return ffgShowLimbs(&z)
	case "double":
		need(args, 1)
		x := lim(0)
		var z ffg.Element
		switch pat {
		case "generic":
			ffgDoubleGeneric(&z, &x)
		case "generic-zx":
			ffgDoubleGeneric(&x, &x)
			z = x
		case "zx":
			x.Double(&x)
			z = x
		default:
			z.Double(&x)
		}
		return ffgShowLimbs(&z)
	case "neg":
		need(args, 1)
		x := lim(0)
		var z ffg.Element
		switch pat {
		case "generic":
			ffgNegGeneric(&z, &x)
		case "generic-zx":
			ffgNegGeneric(&x, &x)
			z = x
		case "zx":
			x.Neg(&x)
			z = x
		default:
			z.Neg(&x)
		}
		return ffgShowLimbs(&z)
	case "reduce":
		need(args, 1)
		x := lim(0)
		if pat == "generic" {
			ffgReduceGeneric(&x)
		} else {
			ffgReduce(&x)
		}
		return ffgShowLimbs(&x)
	case "halve":
		need(args, 1)
		x := lim(0)
		x.Halve()
		return ffgShowLimbs(&x)
	case "butterfly":
		need(args, 2)
		x, y := lim(0), lim(1)
		if pat == "generic" {
			ffgButterflyGeneric(&x, &y)
		} else {
			ffg.Butterfly(&x, &y)
		}
		return ffgShowLimbs(&x) + " " + ffgShowLimbs(&y)
	case "butterflyab":
		// Butterfly(a, a): both arguments the same element — every back-end must leave the same value
		need(args, 1)
		x := lim(0)
		if pat == "generic" {
			ffgButterflyGeneric(&x, &x)
		} else {
			ffg.Butterfly(&x, &x)
		}
		return ffgShowLimbs(&x)
	case "mulby3", "mulby5", "mulby13":
		need(args, 1)
		x := lim(0)
		c := map[string]uint8{"mulby3": 3, "mulby5": 5, "mulby13": 13}[op]
		if pat == "generic" {
			ffgMulByConstant(&x, c)
		} else {
			switch c {
			case 3:
				ffg.MulBy3(&x)
			case 5:
				ffg.MulBy5(&x)
			case 13:
				ffg.MulBy13(&x)
			}
		}
		return ffgShowLimbs(&x)
	case "inverse":
		need(args, 1)
		x := lim(0)
		var z ffg.Element
		if pat == "zx" {
			x.Inverse(&x)
			z = x
		} else {
			z.Inverse(&x)
		}
		return ffgShowLimbs(&z)
	case "backend":
		return fmt.Sprintf("adx=%v", ffgSupportAdx())
	}
	panic("harness: unknown ffgraw op " + op)
}
