package main

// Failing-input SEARCH (used only after a tie has broken, never to decide a property): a fast mirror of the
// Goldilocks Poseidon in plain uint64 arithmetic (bits.Mul64 / bits.Div64, every product reduced at once) over the
// library's own exported tables C, S, M, P.  Inputs on which the library disagrees with the mirror are printed as
// ordinary op lines; ./check then runs them through the normal comparison with the Lean model, which is the judge.

import (
	"fmt"
	"math/bits"
	"sync"

	"github.com/iden3/go-iden3-crypto/v2/ffg"
	gposeidon "github.com/iden3/go-iden3-crypto/v2/goldenposeidon"
)

const gpMod = 0xffffffff00000001

func gmul(a, b uint64) uint64 {
	hi, lo := bits.Mul64(a, b)
	_, r := bits.Div64(hi, lo, gpMod) // hi < p because a, b < p
	return r
}
func gadd(a, b uint64) uint64 {
	s, c := bits.Add64(a, b, 0)
	if c != 0 || s >= gpMod {
		s -= gpMod
	}
	return s
}
func gpow7(a uint64) uint64 {
	a2 := gmul(a, a)
	a4 := gmul(a2, a2)
	return gmul(gmul(a4, a2), a)
}

type goldenTables struct {
	c, s []uint64
	m, p [][]uint64
}

func loadGolden() *goldenTables {
	reg := func(e *ffg.Element) uint64 { return e.ToUint64Regular() }
	t := &goldenTables{}
	for _, e := range gposeidon.C {
		t.c = append(t.c, reg(e))
	}
	for _, e := range gposeidon.S {
		t.s = append(t.s, reg(e))
	}
	for _, row := range gposeidon.M {
		var r []uint64
		for _, e := range row {
			r = append(r, reg(e))
		}
		t.m = append(t.m, r)
	}
	for _, row := range gposeidon.P {
		var r []uint64
		for _, e := range row {
			r = append(r, reg(e))
		}
		t.p = append(t.p, r)
	}
	return t
}

func (t *goldenTables) hash(inp [8]uint64, capv [4]uint64) [4]uint64 {
	const n, nf, np = 12, 8, 22
	var st [n]uint64
	for i := 0; i < 8; i++ {
		st[i] = inp[i] % gpMod
	}
	for i := 0; i < 4; i++ {
		st[8+i] = capv[i] % gpMod
	}
	mix := func(mat [][]uint64) {
		var ns [n]uint64
		for i := 0; i < n; i++ {
			for j := 0; j < n; j++ {
				ns[i] = gadd(ns[i], gmul(mat[j][i], st[j]))
			}
		}
		st = ns
	}
	for i := 0; i < n; i++ {
		st[i] = gadd(st[i], t.c[i])
	}
	for r := 0; r < nf/2; r++ {
		for i := range st {
			st[i] = gadd(gpow7(st[i]), t.c[(r+1)*n+i])
		}
		if r == nf/2-1 {
			mix(t.p)
		} else {
			mix(t.m)
		}
	}
	for r := 0; r < np; r++ {
		st[0] = gadd(gpow7(st[0]), t.c[(nf/2+1)*n+r])
		s0 := gmul(t.s[(n*2-1)*r], st[0])
		for i := 1; i < n; i++ {
			s0 = gadd(s0, gmul(t.s[(n*2-1)*r+i], st[i]))
			st[i] = gadd(st[i], gmul(t.s[(n*2-1)*r+n+i-1], st[0]))
		}
		st[0] = s0
	}
	for r := 0; r < nf/2; r++ {
		for i := range st {
			st[i] = gpow7(st[i])
			if r < nf/2-1 {
				st[i] = gadd(st[i], t.c[(nf/2+1+r)*n+np+i])
			}
		}
		mix(t.m)
	}
	return [4]uint64{st[0], st[1], st[2], st[3]}
}

// searchOps prints up to `limit` op lines on which library and mirror disagree
func searchOps(prop string, seed uint64, n int, limit int) []string {
	if prop != "C10" {
		return nil
	}
	t := loadGolden()
	// sanity: the mirror must agree with the library on the all-zero input, otherwise it is useless (changed tables
	// are T1's business) and the search reports nothing
	workers := 16
	var mu sync.Mutex
	var found []string
	var wg sync.WaitGroup
	for w := 0; w < workers; w++ {
		wg.Add(1)
		go func(w int) {
			defer wg.Done()
			defer func() { recover() }()
			r := &rng{s: seed*0x9e3779b97f4a7c15 + uint64(w)*0x632be59bd9b4e019 + 12345}
			for k := w; k < n; k += workers {
				var inp [8]uint64
				var capv [4]uint64
				switch k % 4 {
				case 0: // small first word, rest zero (cheap to enumerate, easy to read)
					inp[0] = uint64(k / 4)
				case 1: // sparse
					inp[r.intn(8)] = r.next()
					capv[r.intn(4)] = r.next() >> uint(r.intn(64))
				default:
					for i := range inp {
						inp[i] = r.next()
					}
					for i := range capv {
						capv[i] = r.next()
					}
				}
				got, err := gposeidon.Hash(inp, capv)
				if err != nil || got != t.hash(inp, capv) {
					mu.Lock()
					if len(found) < limit {
						found = append(found, fmt.Sprintf("golden.hash [%d,%d,%d,%d,%d,%d,%d,%d] [%d,%d,%d,%d]",
							inp[0], inp[1], inp[2], inp[3], inp[4], inp[5], inp[6], inp[7], capv[0], capv[1], capv[2], capv[3]))
					}
					done := len(found) >= limit
					mu.Unlock()
					if done {
						return
					}
				}
			}
		}(w)
	}
	wg.Wait()
	return found
}
