package main

// Package-specific glue for the two element packages (the parts that differ between ff and ffg).

import (
	"github.com/iden3/go-iden3-crypto/v2/ff"
	"github.com/iden3/go-iden3-crypto/v2/ffg"
)

func ffFromU64(v uint64) *ff.Element   { e := ff.NewElementFromUint64(v); return &e }
func ffgFromU64(v uint64) *ffg.Element { return ffg.NewElementFromUint64(v) }

func ffMulGeneric(z, x, y *ff.Element)       { ff.VerifMulGeneric(z, x, y) }
func ffFromMontGeneric(z *ff.Element)        { ff.VerifFromMontGeneric(z) }
func ffAddGeneric(z, x, y *ff.Element)       { ff.VerifAddGeneric(z, x, y) }
func ffDoubleGeneric(z, x *ff.Element)       { ff.VerifDoubleGeneric(z, x) }
func ffSubGeneric(z, x, y *ff.Element)       { ff.VerifSubGeneric(z, x, y) }
func ffNegGeneric(z, x *ff.Element)          { ff.VerifNegGeneric(z, x) }
func ffReduceGeneric(z *ff.Element)          { ff.VerifReduceGeneric(z) }
func ffReduce(z *ff.Element)                 { ff.VerifReduce(z) }
func ffButterflyGeneric(a, b *ff.Element)    { ff.VerifButterflyGeneric(a, b) }
func ffMulByConstant(z *ff.Element, c uint8) { ff.VerifMulByConstant(z, c) }
func ffSupportAdx() bool                     { return ff.VerifSupportAdx() }

// ffg has a single (portable) implementation: "generic" and API routes coincide.
func ffgMulGeneric(z, x, y *ffg.Element)       { z.Mul(x, y) }
func ffgFromMontGeneric(z *ffg.Element)        { z.FromMont() }
func ffgAddGeneric(z, x, y *ffg.Element)       { z.Add(x, y) }
func ffgDoubleGeneric(z, x *ffg.Element)       { z.Double(x) }
func ffgSubGeneric(z, x, y *ffg.Element)       { z.Sub(x, y) }
func ffgNegGeneric(z, x *ffg.Element)          { z.Neg(x) }
func ffgReduceGeneric(z *ffg.Element)          { ffg.VerifReduce(z) }
func ffgReduce(z *ffg.Element)                 { ffg.VerifReduce(z) }
func ffgButterflyGeneric(a, b *ffg.Element)    { ffg.Butterfly(a, b) }
func ffgMulByConstant(z *ffg.Element, c uint8) { ffg.VerifMulByConstant(z, c) }
func ffgSupportAdx() bool                      { return false }
