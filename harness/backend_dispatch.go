//go:build !amd64_adx

package main

const backendKind = "dispatch"
