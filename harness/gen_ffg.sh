#!/bin/sh
# derive ffgops.go from ffops.go (same gnark-crypto template, different package)
sed -e 's/\bff\./ffg./g' -e 's/\bff\([A-Z]\)/ffg\1/g' -e 's#iden3/go-iden3-crypto/v2/ff"#iden3/go-iden3-crypto/v2/ffg"#' \
    -e 's/Field-element ops for package ff\./Field-element ops for package ffg (DERIVED from ffops.go by gen_ffg.sh; do not edit)./' \
    -e 's/unknown ff op/unknown ffg op/' -e 's/unknown ffraw op/unknown ffgraw op/' ffops.go > ffgops.go
