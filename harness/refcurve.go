package main

// Independent reference arithmetic on BabyJubJub (affine law with math/big), used ONLY to construct
// inputs (curve points of every class).  Generators must not depend on the library under test for
// termination or for the class an input belongs to.

import "math/big"

var (
	refA = big.NewInt(168700)
	refD = big.NewInt(168696)
)

type rpt struct{ X, Y *big.Int }

func refAdd(p, q rpt) rpt {
	x1y2 := mul(p.X, q.Y)
	y1x2 := mul(p.Y, q.X)
	y1y2 := mul(p.Y, q.Y)
	x1x2 := mul(p.X, q.X)
	t := mod(mul(refD, mul(x1x2, y1y2)), Q)
	xn := mod(add(x1y2, y1x2), Q)
	yn := mod(sub(y1y2, mul(refA, x1x2)), Q)
	xd := inv(mod(add(bOne, t), Q), Q)
	yd := inv(mod(sub(bOne, t), Q), Q)
	return rpt{mod(mul(xn, xd), Q), mod(mul(yn, yd), Q)}
}

func refMul(k *big.Int, p rpt) rpt {
	r := rpt{big.NewInt(0), big.NewInt(1)}
	e := p
	for i := 0; i < k.BitLen(); i++ {
		if k.Bit(i) == 1 {
			r = refAdd(r, e)
		}
		e = refAdd(e, e)
	}
	return r
}

// point with the given y, if (1-y^2)/(a-d y^2) is a square
func refFromY(y *big.Int, sign bool) (rpt, bool) {
	y2 := mod(mul(y, y), Q)
	num := mod(sub(bOne, y2), Q)
	den := mod(sub(refA, mul(refD, y2)), Q)
	if den.Sign() == 0 {
		return rpt{}, false
	}
	x2 := mod(mul(num, inv(den, Q)), Q)
	x := new(big.Int).ModSqrt(x2, Q)
	if x == nil {
		return rpt{}, false
	}
	if (x.Cmp(new(big.Int).Rsh(Q, 1)) > 0) != sign {
		x = mod(neg(x), Q)
	}
	return rpt{x, y}, true
}
