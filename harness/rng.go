package main

import (
	"math/big"
	"strings"

	"github.com/iden3/go-iden3-crypto/v2/babyjub"
)

// single PRNG (splitmix64); every random choice of a run derives from it
type rng struct{ s uint64 }

func (r *rng) next() uint64 {
	r.s += 0x9e3779b97f4a7c15
	z := r.s
	z = (z ^ (z >> 30)) * 0xbf58476d1ce4e5b9
	z = (z ^ (z >> 27)) * 0x94d049bb133111eb
	return z ^ (z >> 31)
}
func (r *rng) intn(n int) int { return int(r.next() % uint64(n)) }
func (r *rng) bool() bool     { return r.next()&1 == 1 }
func (r *rng) bytes(n int) []byte {
	b := make([]byte, n)
	for i := range b {
		b[i] = byte(r.next())
	}
	return b
}
func (r *rng) bigBits(bits int) *big.Int {
	if bits == 0 {
		return new(big.Int)
	}
	b := r.bytes((bits + 7) / 8)
	v := new(big.Int).SetBytes(b)
	return v.Rsh(v, uint(len(b)*8-bits))
}
func (r *rng) below(m *big.Int) *big.Int {
	v := r.bigBits(m.BitLen() + 64)
	return v.Mod(v, m)
}
func (r *rng) pick(l []*big.Int) *big.Int { return l[r.intn(len(l))] }

var (
	Q    = bi("21888242871839275222246405745257275088548364400416034343698204186575808495617")
	L    *big.Int // subgroup order
	GP   = new(big.Int).SetUint64(18446744069414584321)
	bOne = big.NewInt(1)
)

func bi(s string) *big.Int {
	v, ok := new(big.Int).SetString(s, 10)
	if !ok {
		panic("bad literal")
	}
	return v
}
func pow2(k int) *big.Int           { return new(big.Int).Lsh(bOne, uint(k)) }
func add(a, b *big.Int) *big.Int    { return new(big.Int).Add(a, b) }
func sub(a, b *big.Int) *big.Int    { return new(big.Int).Sub(a, b) }
func mul(a, b *big.Int) *big.Int    { return new(big.Int).Mul(a, b) }
func mod(a, m *big.Int) *big.Int    { return new(big.Int).Mod(a, m) }
func neg(a *big.Int) *big.Int       { return new(big.Int).Neg(a) }
func small(n int64) *big.Int        { return big.NewInt(n) }
func inv(a, m *big.Int) *big.Int    { return new(big.Int).ModInverse(a, m) }
func exp(a, e, m *big.Int) *big.Int { return new(big.Int).Exp(a, e, m) }

// boundary elements of a prime field with modulus m (limbs of 64 bits)
func fieldBoundary(m *big.Int) []*big.Int {
	limbs := (m.BitLen() + 63) / 64
	R := pow2(64 * limbs)
	half := new(big.Int).Rsh(m, 1)
	l := []*big.Int{small(0), small(1), small(2), small(3), small(5), small(13), sub(m, small(1)), sub(m, small(2)), sub(m, small(3)),
		half, add(half, small(1)), sub(half, small(1)), mod(R, m), mod(mul(R, R), m), mod(neg(R), m),
		inv(mod(R, m), m)}
	for k := 1; k < m.BitLen(); k += 7 {
		l = append(l, pow2(k), sub(pow2(k), small(1)), add(pow2(k), small(1)))
	}
	for k := 62; k < m.BitLen(); k += 64 {
		for d := 0; d <= 3 && k+d < m.BitLen(); d++ {
			l = append(l, pow2(k+d), sub(pow2(k+d), small(1)))
		}
	}
	// values whose Montgomery form has special limbs: v = x * R^-1 for x in {limb patterns}
	rinv := inv(mod(R, m), m)
	W := pow2(64)
	pat := []*big.Int{small(0), small(1), sub(W, small(1)), sub(W, small(2)), pow2(63), pow2(32), sub(pow2(32), small(1))}
	for i := 0; i < 40; i++ {
		x := new(big.Int)
		for j := 0; j < limbs; j++ {
			x.Lsh(x, 64)
			x.Add(x, pat[(i*7+j*3+i/len(pat))%len(pat)])
		}
		if x.Cmp(m) < 0 {
			l = append(l, mod(mul(x, rinv), m), x)
		}
	}
	// limbs of the modulus +-1
	mw := new(big.Int).Set(m)
	for j := 0; j < limbs; j++ {
		lw := mod(mw, W)
		for _, d := range []int64{-1, 0, 1} {
			v := add(lw, small(d))
			if v.Sign() >= 0 && v.Cmp(m) < 0 {
				l = append(l, v, mod(mul(v, rinv), m))
				sh := new(big.Int).Lsh(v, uint(64*j))
				if sh.Cmp(m) < 0 {
					l = append(l, sh, mod(mul(sh, rinv), m))
				}
			}
		}
		mw.Rsh(mw, 64)
	}
	// every boundary value also as a RAW (Montgomery) representation: v' = v * R^-1 has limbs equal to v
	n0 := len(l)
	for i := 0; i < n0; i++ {
		if l[i].Sign() >= 0 && l[i].Cmp(m) < 0 {
			l = append(l, mod(mul(l[i], rinv), m))
		}
	}
	// doubling / halving boundaries: 2x has the top limb of the modulus
	top := new(big.Int).Rsh(m, uint(64*(limbs-1)))
	for _, d := range []int64{-1, 0, 1} {
		t := new(big.Int).Lsh(add(top, small(d)), uint(64*(limbs-1)))
		for _, e := range []int64{-2, -1, 0, 1, 2} {
			h := add(new(big.Int).Rsh(t, 1), small(e))
			if h.Sign() >= 0 && h.Cmp(m) < 0 {
				l = append(l, h, mod(mul(h, rinv), m))
			}
		}
	}
	seen := map[string]bool{}
	out := l[:0]
	for _, v := range l {
		if v.Sign() >= 0 && v.Cmp(m) < 0 && !seen[v.String()] {
			seen[v.String()] = true
			out = append(out, v)
		}
	}
	return out
}

var boundaryCache = map[string][]*big.Int{}

func boundary(m *big.Int) []*big.Int {
	k := m.String()
	if b, ok := boundaryCache[k]; ok {
		return b
	}
	b := fieldBoundary(m)
	boundaryCache[k] = b
	return b
}

// one canonical field element from the mixture of §4.7
func (r *rng) felem(m *big.Int) *big.Int {
	switch r.intn(10) {
	case 0, 1, 2:
		return r.pick(boundary(m))
	case 3:
		// Montgomery form near a boundary: v = (b + delta) * R^-1
		limbs := (m.BitLen() + 63) / 64
		rinv := inv(mod(pow2(64*limbs), m), m)
		b := add(r.pick(boundary(m)), small(int64(r.intn(5)-2)))
		return mod(mul(mod(b, m), rinv), m)
	case 4:
		if r.bool() {
			return small(int64(r.intn(1000)))
		}
		return sub(m, small(int64(1+r.intn(1000))))
	case 5:
		// sparse-limb structure for shift/subtract algorithms (binary GCD, halving): the RAW representation is
		// t or m - t with t = p * 2^j, every limb of p in {0, 1, random word}
		limbs := (m.BitLen() + 63) / 64
		rinv := inv(mod(pow2(64*limbs), m), m)
		p := new(big.Int)
		for j := 0; j < limbs; j++ {
			p.Lsh(p, 64)
			switch r.intn(3) {
			case 1:
				p.Add(p, bOne)
			case 2:
				p.Add(p, new(big.Int).SetUint64(r.next()>>uint(r.intn(64))))
			}
		}
		t := mod(new(big.Int).Lsh(p, uint(r.intn(64))), pow2(64*limbs))
		if r.bool() {
			t = sub(m, t)
		}
		if t.Sign() < 0 || t.Cmp(m) >= 0 {
			t = mod(t, m)
		}
		return mod(mul(t, rinv), m)
	default:
		return r.below(m)
	}
}

// a pair of related elements
func (r *rng) fpair(m *big.Int) (*big.Int, *big.Int) {
	x := r.felem(m)
	switch r.intn(8) {
	case 0:
		return x, mod(add(sub(m, x), small(int64(r.intn(3)-1))), m) // x, m-x+delta
	case 1:
		return x, mod(add(x, small(int64(r.intn(3)-1))), m) // x, x+delta
	case 2:
		return x, new(big.Int).Set(x)
	case 3: // product hits a chosen boundary value
		if x.Sign() != 0 {
			t := r.pick(boundary(m))
			return x, mod(mul(t, inv(x, m)), m)
		}
	case 4: // sum hits a chosen boundary value
		t := r.pick(boundary(m))
		return x, mod(sub(t, x), m)
	}
	return x, r.felem(m)
}

// arbitrary integers for conversions and range checks
func (r *rng) anyInt() *big.Int {
	base := []*big.Int{small(0), small(1), small(-1), Q, add(Q, small(1)), sub(Q, small(1)), neg(Q), mul(Q, small(2)), GP, add(GP, small(1)), sub(GP, small(1)),
		pow2(64), sub(pow2(64), small(1)), pow2(128), pow2(192), pow2(256), sub(pow2(256), small(1)), add(pow2(256), small(1)), pow2(1100), neg(pow2(1100)),
		neg(pow2(300)), pow2(255), sub(pow2(255), small(1)), mul(Q, pow2(70)), add(mul(Q, pow2(70)), small(1)), bi("1" + strings.Repeat("0", 130))}
	switch r.intn(8) {
	case 0, 1, 2:
		v := r.pick(base)
		if r.intn(4) == 0 {
			return add(v, small(int64(r.intn(5)-2)))
		}
		return v
	case 3:
		v := r.bigBits(r.intn(1100))
		if r.bool() {
			return neg(v)
		}
		return v
	case 4:
		return r.felem(Q)
	case 5:
		return add(mul(Q, small(int64(r.intn(9)-4))), r.felem(Q))
	case 6:
		return add(mul(GP, small(int64(r.intn(9)-4))), r.felem(GP))
	default:
		v := r.bigBits(1 + r.intn(300))
		if r.intn(3) == 0 {
			return neg(v)
		}
		return v
	}
}

// ---- curve points ----
var (
	fullG    *babyjub.Point   // a point of order 8l
	smallPts []*babyjub.Point // the 8 points of order dividing 8
)

var (
	refB8 rpt
	refG  rpt
)

func toPoint(p rpt) *babyjub.Point {
	return &babyjub.Point{X: new(big.Int).Set(p.X), Y: new(big.Int).Set(p.Y)}
}

func initCurve() {
	// constants written out here: the generators must not take the curve parameters from the library under test
	L = bi("2736030358979909402780800718157159386076813972158567259200215660948447373041")
	refB8 = rpt{bi("5299619240641551281634865583518297030282874472190772894086521144482721001553"),
		bi("16950150798460657717958625567821834550301663161624707787222815936182638968203")}
	r := &rng{s: 12345}
	for tries := 0; ; tries++ {
		if tries > 10000 {
			panic("harness: cannot find a point of full order")
		}
		p, ok := refFromY(r.below(Q), r.bool())
		if !ok {
			continue
		}
		t := refMul(mul(L, small(4)), p)
		if t.X.Sign() == 0 && t.Y.Cmp(bOne) == 0 {
			continue
		}
		refG = p
		break
	}
	fullG = toPoint(refG)
	t8 := refMul(L, refG)
	for i := 0; i < 8; i++ {
		smallPts = append(smallPts, toPoint(refMul(small(int64(i)), t8)))
	}
}

func fromPoint(p *babyjub.Point) rpt { return rpt{mod(p.X, Q), mod(p.Y, Q)} }

func padd(p, q *babyjub.Point) *babyjub.Point {
	return toPoint(refAdd(fromPoint(p), fromPoint(q)))
}

func pmulB8(k *big.Int) *babyjub.Point { return toPoint(refMul(k, refB8)) }
func pmulG(k *big.Int) *babyjub.Point  { return toPoint(refMul(k, refG)) }

// a point on the curve from the class mixture
func (r *rng) curvePoint() *babyjub.Point {
	switch r.intn(8) {
	case 0:
		return smallPts[r.intn(8)]
	case 1:
		return pmulB8(r.below(L))
	case 2:
		return pmulB8(small(int64(r.intn(20))))
	case 3:
		return padd(pmulB8(r.below(L)), smallPts[r.intn(8)])
	case 4:
		return pmulB8(sub(L, small(int64(r.intn(3)))))
	default:
		return pmulG(r.below(mul(L, small(8))))
	}
}

// any coordinate pair: on-curve, near-miss, off-curve, non-canonical
func (r *rng) anyPoint() *babyjub.Point {
	switch r.intn(8) {
	case 0, 1, 2, 3:
		return r.curvePoint()
	case 4:
		p := r.curvePoint()
		return &babyjub.Point{X: new(big.Int).Set(p.X), Y: mod(add(p.Y, small(int64(2*r.intn(2)-1))), Q)}
	case 5:
		return &babyjub.Point{X: small(0), Y: small(0)}
	case 6:
		return &babyjub.Point{X: r.felem(Q), Y: r.felem(Q)}
	default:
		p := r.curvePoint()
		return &babyjub.Point{X: mod(add(p.X, small(int64(2*r.intn(2)-1))), Q), Y: new(big.Int).Set(p.Y)}
	}
}
