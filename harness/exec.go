package main

// Executor: runs one op line against the real library in-process and returns the canonical result.
// Mirrors the op table of /verif/lean/Driver.lean.

import (
	"bytes"
	"encoding/hex"
	"errors"
	"fmt"
	"math/big"
	"strconv"
	"strings"
	"sync"
	"time"

	"github.com/iden3/go-iden3-crypto/v2/babyjub"
	"github.com/iden3/go-iden3-crypto/v2/constants"
	"github.com/iden3/go-iden3-crypto/v2/ff"
	"github.com/iden3/go-iden3-crypto/v2/ffg"
	gposeidon "github.com/iden3/go-iden3-crypto/v2/goldenposeidon"
	"github.com/iden3/go-iden3-crypto/v2/keccak256"
	"github.com/iden3/go-iden3-crypto/v2/mimc7"
	"github.com/iden3/go-iden3-crypto/v2/poseidon"
	"github.com/iden3/go-iden3-crypto/v2/utils"
)

// ---- argument tracking (purity: arguments must be unchanged after the call) ----

type argTrack struct {
	ints   []*big.Int
	intS   []string
	bytes  [][]byte
	byteS  []string
	lists  [][]*big.Int // argument slices: their elements (pointers) must stay in place
	listP  [][]*big.Int
	checks []func() string // further post-call checks (struct fields, key arrays)
	keep   []func() string // renderers of RESULT objects, re-evaluated after later ops (results must stay stable)
	rets   []interface{}   // RESULT objects handed to the caller (*big.Int, []*big.Int, *Point, *Signature, []byte): see probe
}

// Ret registers objects the library handed out as (part of) a result.  They belong to the caller, who may use them
// as destinations; the repeat probe (execOp) runs the op again, writes through the objects the second call returned
// and runs it a third time: all three results must agree (a result that shares memory with a cache entry, a memo
// table or a pooled buffer does not survive this).
func (a *argTrack) Ret(objs ...interface{}) { a.rets = append(a.rets, objs...) }

var exportedInts = map[*big.Int]bool{}

func init() {
	for _, v := range []*big.Int{constants.Q, constants.Zero, constants.One, constants.MinusOne, babyjub.A, babyjub.D,
		babyjub.Order, babyjub.SubOrder, babyjub.B8.X, babyjub.B8.Y} {
		exportedInts[v] = true
	}
}

func scribbleInt(v *big.Int) {
	// exported constants are never written by the probe (the constant guard and the *const ops watch them)
	if v != nil && !exportedInts[v] {
		v.SetInt64(0x5C81BB1E)
	}
}

func (a *argTrack) scribble() {
	for _, o := range a.rets {
		switch x := o.(type) {
		case *big.Int:
			scribbleInt(x)
		case []*big.Int:
			for _, v := range x {
				scribbleInt(v)
			}
		case *babyjub.Point:
			if x != nil && x != babyjub.B8 {
				scribbleInt(x.X)
				scribbleInt(x.Y)
			}
		case *babyjub.Signature:
			if x != nil {
				if x.R8 != nil && x.R8 != babyjub.B8 {
					scribbleInt(x.R8.X)
					scribbleInt(x.R8.Y)
				}
				scribbleInt(x.S)
			}
		case []byte:
			for i := range x {
				x[i] = 0xEE
			}
		default:
			panic("harness: Ret of unsupported type")
		}
	}
}

// probeWanted: the first 6 occurrences of every op kind and every 5th afterwards (the probe triples the cost of an op)
var probeCount = map[string]int{}

func probeWanted(op string) bool {
	probeCount[op]++
	n := probeCount[op]
	return n <= 6 || n%5 == 0
}

// Keep registers a result object: it is rendered now and again after each of the next ops; a change means
// that a later call wrote into memory handed out as a result (shared cache entry, pooled buffer reused …).
func (a *argTrack) Keep(f func() string) { a.keep = append(a.keep, f) }

type retained struct {
	op   string
	f    func() string
	want string
}

var ring []retained

func ringAdd(op string, fs []func() string) {
	for _, f := range fs {
		ring = append(ring, retained{op, f, f()})
	}
	if len(ring) > 64 {
		ring = ring[len(ring)-64:]
	}
}

func ringCheck() string {
	out := ""
	kept := ring[:0]
	for _, r := range ring {
		if got := r.f(); got != r.want {
			if out == "" {
				out = " !RESULT-CHANGED(result of earlier op [" + strings.Fields(r.op)[0] + "] was overwritten)"
			}
			continue
		}
		kept = append(kept, r)
	}
	ring = kept
	return out
}

// In concurrent mode (C17) equal argument tokens of the ops of ONE barrier round denote ONE shared object: the
// property allows "shared inputs that are only read", so a library call that writes its argument even transiently
// (and restores it) must show up as a race report, a wrong result or !ARGMUT.  The cache is reset per round.
var sharedArgs sync.Map

func resetSharedArgs() { sharedArgs = sync.Map{} }

func (a *argTrack) Int(tok string) *big.Int {
	v, ok := new(big.Int).SetString(tok, 10)
	if !ok {
		panic("harness: bad int token " + tok)
	}
	if concurrentMode {
		if o, _ := sharedArgs.LoadOrStore("i"+tok, v); o != nil {
			v = o.(*big.Int)
		}
	}
	a.ints = append(a.ints, v)
	a.intS = append(a.intS, v.String())
	return v
}

func (a *argTrack) Bytes(tok string) []byte {
	if !strings.HasPrefix(tok, "x") {
		panic("harness: bad bytes token " + tok)
	}
	b, err := hex.DecodeString(tok[1:])
	if err != nil {
		panic("harness: bad bytes token " + tok)
	}
	// keep spare capacity poisoned so that an append into the caller's slice (also of zero bytes) is visible
	// 160 bytes of spare capacity (more than any padding: 31, 64, 128, 136) filled with a pattern
	buf := make([]byte, len(b), len(b)+160)
	copy(buf, b)
	for i, sp := 0, buf[len(b):cap(buf)]; i < len(sp); i++ {
		sp[i] = 0xA5
	}
	if concurrentMode {
		if o, _ := sharedArgs.LoadOrStore("b"+tok, buf); o != nil {
			buf = o.([]byte)
		}
	}
	a.bytes = append(a.bytes, buf)
	a.byteS = append(a.byteS, string(b))
	return buf
}

func (a *argTrack) IntList(tok string) []*big.Int {
	if !strings.HasPrefix(tok, "[") || !strings.HasSuffix(tok, "]") {
		panic("harness: bad list token " + tok)
	}
	inner := tok[1 : len(tok)-1]
	if inner == "" {
		return []*big.Int{}
	}
	parts := strings.Split(inner, ",")
	r := make([]*big.Int, len(parts), len(parts)+4)
	for i, p := range parts {
		r[i] = a.Int(p)
	}
	a.lists = append(a.lists, r)
	a.listP = append(a.listP, append([]*big.Int(nil), r...))
	return r
}

// point / key / signature arguments: the struct's fields must still point to the same integers
func (a *argTrack) Point(x, y string) *babyjub.Point {
	p := &babyjub.Point{X: a.Int(x), Y: a.Int(y)}
	px, py := p.X, p.Y
	a.checks = append(a.checks, func() string {
		if p.X != px || p.Y != py {
			return " !ARGMUT(point field replaced)"
		}
		return ""
	})
	return p
}

func (a *argTrack) Key(tok string) *babyjub.PrivateKey {
	b := a.Bytes(tok)
	if len(b) != 32 {
		panic("harness: key needs 32 bytes")
	}
	k := new(babyjub.PrivateKey)
	copy(k[:], b)
	k0 := *k
	a.checks = append(a.checks, func() string {
		if *k != k0 {
			return " !ARGMUT(private key bytes)"
		}
		return ""
	})
	return k
}

func (a *argTrack) mutated() string {
	for i, v := range a.ints {
		if v.String() != a.intS[i] {
			return fmt.Sprintf(" !ARGMUT(int#%d %s->%s)", i, a.intS[i], v.String())
		}
	}
	for i, l := range a.lists {
		if len(l) != len(a.listP[i]) {
			return fmt.Sprintf(" !ARGMUT(list#%d length)", i)
		}
		for j := range l {
			if l[j] != a.listP[i][j] {
				return fmt.Sprintf(" !ARGMUT(list#%d element %d replaced)", i, j)
			}
		}
		full := l[:cap(l)]
		for _, x := range full[len(l):] {
			if x != nil {
				return fmt.Sprintf(" !ARGMUT(list#%d spare capacity written)", i)
			}
		}
	}
	for _, c := range a.checks {
		if m := c(); m != "" {
			return m
		}
	}
	for i, b := range a.bytes {
		if string(b) != a.byteS[i] {
			return fmt.Sprintf(" !ARGMUT(bytes#%d)", i)
		}
		full := b[:cap(b)]
		for _, x := range full[len(b):] {
			if x != 0xA5 {
				return fmt.Sprintf(" !ARGMUT(bytes#%d spare capacity written)", i)
			}
		}
	}
	return ""
}

// ---- printing ----

func showBytes(b []byte) string { return "x" + hex.EncodeToString(b) }
func showBool(b bool) string {
	if b {
		return "true"
	}
	return "false"
}
func showInts(l []*big.Int) string {
	s := make([]string, len(l))
	for i, v := range l {
		if v == nil {
			s[i] = "nil"
		} else {
			s[i] = v.String()
		}
	}
	return "[" + strings.Join(s, ",") + "]"
}
func showPt(p *babyjub.Point) string {
	if p == nil {
		return "nilpoint"
	}
	return "(" + p.X.String() + "," + p.Y.String() + ")"
}

func classify(err error) string {
	if err == nil {
		return "ok"
	}
	var ibe hex.InvalidByteError
	if errors.As(err, &ibe) {
		return "ERR:hexBadChar"
	}
	if errors.Is(err, hex.ErrLength) {
		return "ERR:hexOddLen"
	}
	if errors.Is(err, babyjub.ErrVerifyPoseidonFailed) || errors.Is(err, babyjub.ErrVerifyMimc7Failed) {
		return "ERR:verifyFailed"
	}
	m := err.Error()
	switch {
	case strings.HasPrefix(m, "invalid inputs length"):
		return "ERR:badLen"
	case m == "inputs values not inside Finite Field":
		return "ERR:notInField"
	case strings.HasPrefix(m, "invalid nOuts"):
		return "ERR:badNOuts"
	case m == "initState values not inside Finite Field":
		return "ERR:stateNotInField"
	case m == "p.y >= Q":
		return "ERR:yTooBig"
	case m == "division by 0":
		return "ERR:divZero"
	case m == "x is not a square mod q":
		return "ERR:notSquare"
	case strings.Contains(m, "sign bit") || strings.Contains(m, "x is zero"):
		return "ERR:signOfZero"
	case strings.Contains(m, "out of range") || strings.Contains(m, "S >= ") || strings.Contains(m, "not canonical"):
		return "ERR:sOutOfRange"
	case strings.HasPrefix(m, "expected") && strings.Contains(m, "hex string"):
		return "ERR:hexBadSize"
	case strings.HasPrefix(m, "can't scan []byte of len"):
		return "ERR:scanBadLen"
	case strings.HasPrefix(m, "can't scan"):
		return "ERR:scanBadType"
	case strings.HasPrefix(m, "can't set ff"):
		return "ERR:badType"
	}
	return "ERR:other:" + strings.ReplaceAll(m, " ", "_")
}

// ---- field helpers ----

func ffOf(v *big.Int) *ff.Element   { return ff.NewElement().SetBigInt(v) }
func ffgOf(v *big.Int) *ffg.Element { return ffg.NewElement().SetBigInt(v) }
func ffVal(e *ff.Element) string    { return e.ToBigIntRegular(new(big.Int)).String() }
func ffgVal(e *ffg.Element) string  { return e.ToBigIntRegular(new(big.Int)).String() }

// canonical limbs check: value < modulus in raw form
func ffCanon(e *ff.Element) bool {
	raw := e.ToBigInt(new(big.Int))
	return raw.Cmp(ff.Modulus()) < 0
}
func ffgCanon(e *ffg.Element) bool {
	raw := e.ToBigInt(new(big.Int))
	return raw.Cmp(ffg.Modulus()) < 0
}

func splitAt(op string) (string, string) {
	if i := strings.IndexByte(op, '@'); i >= 0 {
		return op[:i], op[i+1:]
	}
	return op, ""
}

// ---- package-constant guard: exported constants must keep their values across every op ----
type constSnap struct {
	name string
	get  func() string
	set  func(string)
}

var constSnaps []constSnap
var constVals []string
var constMu sync.Mutex

func bigSnap(name string, p **big.Int) constSnap {
	return constSnap{name, func() string { return (*p).String() }, func(s string) { v, _ := new(big.Int).SetString(s, 10); *p = v }}
}

func initConstGuard() {
	constSnaps = []constSnap{
		bigSnap("babyjub.A", &babyjub.A), bigSnap("babyjub.D", &babyjub.D), bigSnap("babyjub.Order", &babyjub.Order),
		bigSnap("babyjub.SubOrder", &babyjub.SubOrder), bigSnap("babyjub.B8.X", &babyjub.B8.X), bigSnap("babyjub.B8.Y", &babyjub.B8.Y),
		bigSnap("constants.Q", &constants.Q), bigSnap("constants.Zero", &constants.Zero), bigSnap("constants.One", &constants.One),
		bigSnap("constants.MinusOne", &constants.MinusOne),
		{"babyjub.Aff", func() string { return ffVal(babyjub.Aff) }, func(s string) { v, _ := new(big.Int).SetString(s, 10); babyjub.Aff = ff.NewElement().SetBigInt(v) }},
		{"babyjub.Dff", func() string { return ffVal(babyjub.Dff) }, func(s string) { v, _ := new(big.Int).SetString(s, 10); babyjub.Dff = ff.NewElement().SetBigInt(v) }},
	}
	for _, c := range constSnaps {
		constVals = append(constVals, c.get())
	}
}

// constGuard returns a marker if an exported constant changed (and restores it so the run can go on)
func constGuard() string {
	if concurrentMode {
		return "" // reading the constants while other goroutines run is itself racy only if someone writes them; checked at the end
	}
	out := ""
	for i, c := range constSnaps {
		if v := c.get(); v != constVals[i] {
			out += " !CONSTMUT(" + c.name + ")"
			c.set(constVals[i])
		}
	}
	return out
}

var concurrentMode bool

// execOp runs one op; panics are converted to "PANIC:<msg>".
func execOp(line string) (res string) {
	defer func() {
		if r := recover(); r != nil {
			msg := fmt.Sprint(r)
			if strings.HasPrefix(msg, "harness:") {
				res = "HARNESS-ERROR:" + strings.ReplaceAll(msg, " ", "_")
			} else {
				res = "PANIC:" + strings.ReplaceAll(msg, " ", "_")
			}
		}
	}()
	toks := strings.Fields(line)
	if len(toks) == 0 {
		return "bad-op"
	}
	op, pat := splitAt(toks[0])
	args := toks[1:]
	a := &argTrack{}
	done := make(chan string, 1)
	go func() {
		defer func() {
			if r := recover(); r != nil {
				msg := fmt.Sprint(r)
				if strings.HasPrefix(msg, "harness:") {
					done <- "HARNESS-ERROR:" + strings.ReplaceAll(msg, " ", "_")
				} else {
					done <- "PANIC:" + strings.ReplaceAll(msg, " ", "_")
				}
			}
		}()
		r := dispatch(op, pat, args, a)
		if !concurrentMode && len(a.rets) > 0 && !strings.Contains(r, "!") && probeWanted(op) {
			a2 := &argTrack{}
			r2 := dispatch(op, pat, args, a2)
			a2.scribble()
			r3 := dispatch(op, pat, args, &argTrack{})
			if r2 != r || r3 != r {
				r += "!result-shared-with-later-call(repeat,write-through,repeat)"
			}
		}
		done <- r
	}()
	select {
	case r := <-done:
		if strings.HasPrefix(r, "PANIC") || strings.HasPrefix(r, "HARNESS") {
			return r
		}
		extra := ""
		if !concurrentMode {
			extra = ringCheck()
			ringAdd(line, a.keep)
		}
		return r + a.mutated() + constGuard() + extra
	case <-time.After(60 * time.Second):
		return "TIMEOUT"
	}
}

func need(args []string, n int) {
	if len(args) != n {
		panic(fmt.Sprintf("harness: expected %d args, got %d", n, len(args)))
	}
}

func atoi(s string) int {
	n, err := strconv.Atoi(s)
	if err != nil {
		panic("harness: bad int " + s)
	}
	return n
}

func dispatch(op, pat string, args []string, a *argTrack) string {
	switch {
	case strings.HasPrefix(op, "ff."):
		return ffOp(op[3:], pat, args, a)
	case strings.HasPrefix(op, "ffg."):
		return ffgOp(op[4:], pat, args, a)
	case strings.HasPrefix(op, "ffraw."):
		return ffRawOp(op[6:], pat, args, a)
	case strings.HasPrefix(op, "ffgraw."):
		return ffgRawOp(op[7:], pat, args, a)
	}
	switch op {
	// ---------------- poseidon ----------------
	case "poseidon.hashex":
		need(args, 3)
		inp := a.IntList(args[0])
		st := a.Int(args[1])
		n := atoi(args[2])
		var r []*big.Int
		var err error
		switch pat {
		case "", "withstateex":
			r, err = poseidon.HashWithStateEx(inp, st, n)
		case "hashex": // requires st == 0
			r, err = poseidon.HashEx(inp, n)
		case "hash": // requires st == 0, n == 1
			var h *big.Int
			h, err = poseidon.Hash(inp)
			if err == nil {
				r = []*big.Int{h}
			}
		case "withstate": // requires n == 1
			var h *big.Int
			h, err = poseidon.HashWithState(inp, st)
			if err == nil {
				r = []*big.Int{h}
			}
		default:
			panic("harness: bad route " + pat)
		}
		if err != nil {
			if r != nil {
				return classify(err) + "!nonnil-result"
			}
			return classify(err)
		}
		a.Keep(func() string { return showInts(r) })
		a.Ret(r)
		return showInts(r)
	case "poseidon.tablesum":
		need(args, 1)
		return poseidonTableSum(atoi(args[0]))
	case "poseidon.consts":
		l := make([]string, len(poseidon.NROUNDSP))
		for i, v := range poseidon.NROUNDSP {
			l[i] = strconv.Itoa(v)
		}
		cc, _, _, _ := poseidon.VerifTables()
		return fmt.Sprintf("%d [%s] %d", poseidon.NROUNDSF, strings.Join(l, ","), len(cc))
	// ---------------- mimc7 ----------------
	case "mimc7.hash":
		need(args, 2)
		arr := a.IntList(args[0])
		var key *big.Int
		if args[1] != "nil" {
			key = a.Int(args[1])
		}
		r, err := mimc7.Hash(arr, key)
		if err != nil {
			return classify(err)
		}
		a.Ret(r)
		return r.String()
	case "mimc7.hashgeneric":
		need(args, 3)
		iv := a.Int(args[0])
		arr := a.IntList(args[1])
		r, err := mimc7.HashGeneric(iv, arr, atoi(args[2]))
		if err != nil {
			return classify(err)
		}
		a.Ret(r)
		return r.String()
	case "mimc7.mimc7hash":
		need(args, 2)
		rh := mimc7.MIMC7Hash(a.Int(args[0]), a.Int(args[1]))
		a.Ret(rh)
		return rh.String()
	case "mimc7.mimc7hashgeneric":
		need(args, 3)
		rg := mimc7.MIMC7HashGeneric(a.Int(args[0]), a.Int(args[1]), atoi(args[2]))
		a.Keep(func() string { return rg.String() })
		a.Ret(rg)
		return rg.String()
	case "mimc7.hashbytes":
		need(args, 1)
		r, err := mimc7.HashBytes(a.Bytes(args[0]))
		if err != nil {
			return classify(err)
		}
		a.Keep(func() string { return r.String() })
		a.Ret(r)
		return r.String()
	case "mimc7.consts":
		seedHash, iv, n, cts := mimc7.VerifConstants()
		l := make([]*big.Int, len(cts))
		for i, e := range cts {
			l[i] = e.ToBigIntRegular(new(big.Int))
		}
		return fmt.Sprintf("%s %d %s %s", checksum(constants.Q, l), n, seedHash.String(), iv.String())
	// ---------------- goldenposeidon ----------------
	case "golden.hash":
		need(args, 2)
		inp := a.IntList(args[0])
		capv := a.IntList(args[1])
		if len(inp) != 8 || len(capv) != 4 {
			panic("harness: golden.hash arity")
		}
		var i8 [8]uint64
		var c4 [4]uint64
		for i := range i8 {
			i8[i] = inp[i].Uint64()
		}
		for i := range c4 {
			c4[i] = capv[i].Uint64()
		}
		i8c, c4c := i8, c4
		r, err := gposeidon.Hash(i8, c4)
		if err != nil {
			return classify(err)
		}
		if i8 != i8c || c4 != c4c {
			return "!ARGMUT(array)"
		}
		return fmt.Sprintf("[%d,%d,%d,%d]", r[0], r[1], r[2], r[3])
	case "golden.tablesum":
		return goldenTableSum()
	// ---------------- hashes ----------------
	case "keccak.hash":
		sl := make([][]byte, len(args))
		for i, t := range args {
			sl[i] = a.Bytes(t)
		}
		if pat == "nil0" && len(sl) > 0 && len(sl[0]) == 0 {
			sl[0] = nil
		}
		h1 := keccak256.Hash(sl...)
		s1 := showBytes(h1)
		// the digest handed out must not be reused by a later call
		h2 := keccak256.Hash([]byte("verif-interleaved-call"))
		_ = h2
		if showBytes(h1) != s1 {
			return s1 + "!result-overwritten-by-next-call"
		}
		a.Keep(func() string { return showBytes(h1) })
		a.Ret(h1)
		return s1
	case "blake.hash":
		need(args, 1)
		d1 := babyjub.Blake512(a.Bytes(args[0]))
		s1 := showBytes(d1)
		_ = babyjub.Blake512([]byte("verif-interleaved-call"))
		if showBytes(d1) != s1 {
			return s1 + "!result-overwritten-by-next-call"
		}
		a.Keep(func() string { return showBytes(d1) })
		a.Ret(d1)
		return s1
	// ---------------- babyjub ----------------
	case "bj.add":
		need(args, 4)
		p := a.Point(args[0], args[1])
		q := a.Point(args[2], args[3])
		pp, qp := p.Projective(), q.Projective()
		var r *babyjub.PointProjective
		switch pat {
		case "", "n":
			r = babyjub.NewPointProjective().Add(pp, qp)
		case "zx":
			r = pp.Add(pp, qp)
		case "zy":
			r = qp.Add(pp, qp)
		case "xy": // only meaningful if p == q
			r = babyjub.NewPointProjective().Add(pp, pp)
		default:
			panic("harness: bad alias " + pat)
		}
		// the operands of Add that are not its destination, and the receiver of Affine, are read-only
		showPP := func(x *babyjub.PointProjective) string { return ffVal(x.X) + "," + ffVal(x.Y) + "," + ffVal(x.Z) }
		if (pat == "" || pat == "n") && (showPP(pp) != showPP(p.Projective()) || showPP(qp) != showPP(q.Projective())) {
			return showPt(r.Affine()) + "!ARGMUT(operand of PointProjective.Add)"
		}
		r0 := showPP(r)
		ra := r.Affine()
		a.Ret(ra)
		a1 := showPt(ra)
		if showPP(r) != r0 {
			return a1 + "!ARGMUT(receiver of PointProjective.Affine)"
		}
		if a2 := showPt(r.Affine()); a2 != a1 {
			return a1 + "!second-Affine-differs:" + a2
		}
		return a1
	case "bj.mul":
		need(args, 3)
		s := a.Int(args[0])
		p := a.Point(args[1], args[2])
		res := babyjub.NewPoint().Mul(s, p)
		a.Keep(func() string { return showPt(res) })
		a.Ret(res)
		return showPt(res)
	case "bj.mulrecv":
		need(args, 3)
		s := a.Int(args[0])
		var recv, ret *babyjub.Point
		if pat == "self" {
			// receiver is the argument itself: not tracked as a read-only argument
			recv = &babyjub.Point{X: new(big.Int).Set(a.Int(args[1])), Y: new(big.Int).Set(a.Int(args[2]))}
			ret = recv.Mul(s, recv)
		} else {
			p := &babyjub.Point{X: a.Int(args[1]), Y: a.Int(args[2])}
			recv = babyjub.NewPoint()
			if pat == "dirty" {
				recv = &babyjub.Point{X: big.NewInt(12345), Y: big.NewInt(67890)}
			}
			ret = recv.Mul(s, p)
		}
		if ret != recv {
			return showPt(ret) + " recv=" + showPt(recv) + "!returned-other-object"
		}
		a.Ret(ret)
		return showPt(ret) + " recv=" + showPt(recv)
	case "bj.set":
		need(args, 2)
		var recv, ret *babyjub.Point
		if pat == "self" {
			recv = &babyjub.Point{X: new(big.Int).Set(a.Int(args[0])), Y: new(big.Int).Set(a.Int(args[1]))}
			ret = recv.Set(recv)
		} else {
			p := &babyjub.Point{X: a.Int(args[0]), Y: a.Int(args[1])}
			recv = babyjub.NewPoint()
			ret = recv.Set(p)
			out := showPt(ret) + " recv=" + showPt(recv)
			// the copy must be deep: writing the copy must not touch the source (tracked argument)
			recv.X.Add(recv.X, big.NewInt(1))
			recv.Y.Add(recv.Y, big.NewInt(1))
			return out
		}
		return showPt(ret) + " recv=" + showPt(recv)
	case "bj.mulconst":
		// r := NewPoint().Mul(s, B8) computed from the exported constant itself, then written through its
		// documented destination; the constant guard checks that B8 is untouched
		need(args, 1)
		s := a.Int(args[0])
		r := babyjub.NewPoint().Mul(s, babyjub.B8)
		out := showPt(r)
		r.Set(&babyjub.Point{X: big.NewInt(0), Y: big.NewInt(1)})
		r.X.Add(r.X, big.NewInt(7))
		return out
	case "bj.addconst":
		need(args, 0)
		r := babyjub.NewPointProjective().Add(babyjub.B8.Projective(), babyjub.B8.Projective()).Affine()
		out := showPt(r)
		r.X.SetInt64(3)
		r.Y.SetInt64(4)
		return out
	case "bj.incurve":
		need(args, 2)
		p := a.Point(args[0], args[1])
		return showBool(p.InCurve())
	case "bj.insubgroup":
		need(args, 2)
		p := a.Point(args[0], args[1])
		return showBool(p.InSubGroup())
	case "bj.compress":
		need(args, 2)
		p := a.Point(args[0], args[1])
		c := p.Compress()
		return showBytes(c[:])
	case "bj.decompress":
		need(args, 1)
		b := a.Bytes(args[0])
		if len(b) != 32 {
			panic("harness: bj.decompress needs 32 bytes")
		}
		var buf [32]byte
		copy(buf[:], b)
		var recv *babyjub.Point
		if pat == "dirty" {
			recv = &babyjub.Point{X: big.NewInt(12345), Y: big.NewInt(67890)}
		} else if pat == "samey" {
			// a receiver that already holds the encoded y and an x of the encoded sign (a near miss of the result, in
			// general not on the curve): whatever the receiver held must not influence the outcome
			y := new(big.Int).SetBytes(reverse(b))
			y.SetBit(y, 255, 0)
			x := big.NewInt(1)
			if b[31]&0x80 != 0 {
				x = new(big.Int).Sub(constants.Q, big.NewInt(1))
			}
			recv = &babyjub.Point{X: x, Y: y}
		} else {
			recv = babyjub.NewPoint()
		}
		before := showPt(recv)
		ret, err := recv.Decompress(buf)
		if err != nil {
			if ret != nil {
				return classify(err) + "!nonnil-result"
			}
			if pat == "samey" && showPt(recv) == before {
				// the models know this route as a fresh receiver: an untouched receiver is reported as the fresh one
				return classify(err) + " recv=(0,1)"
			}
			return classify(err) + " recv=" + showPt(recv)
		}
		if ret != recv {
			return showPt(ret) + " recv=" + showPt(recv) + "!returned-other-object"
		}
		a.Ret(ret)
		return showPt(ret) + " recv=" + showPt(recv)
	case "bj.pfsy":
		need(args, 2)
		p, err := babyjub.PointFromSignAndY(args[0] == "true", a.Int(args[1]))
		if err != nil {
			return classify(err)
		}
		a.Ret(p)
		return showPt(p)
	case "bj.packsigny":
		need(args, 2)
		c := babyjub.PackSignY(args[0] == "true", a.Int(args[1]))
		return showBytes(c[:])
	case "bj.unpacksigny":
		need(args, 1)
		b := a.Bytes(args[0])
		var buf [32]byte
		copy(buf[:], b)
		s, y := babyjub.UnpackSignY(buf)
		return showBool(s) + " " + y.String()
	case "bj.coordsign":
		need(args, 1)
		return showBool(babyjub.PointCoordSign(a.Int(args[0])))
	case "bj.consts":
		return fmt.Sprintf("%s %s %s %s %s %s %s %s %s %s %s", babyjub.A, babyjub.D, babyjub.Order, babyjub.SubOrder,
			showPt(babyjub.B8), constants.Q, constants.Zero, constants.One, constants.MinusOne, ffVal(babyjub.Aff), ffVal(babyjub.Dff))
	// ---------------- eddsa ----------------
	case "ed.sk2big":
		need(args, 1)
		k := a.Key(args[0])
		r1 := babyjub.SkToBigInt(k)
		r2 := k.Scalar().BigInt()
		if r1.Cmp(r2) != 0 {
			return r1.String() + "!routes-differ:" + r2.String()
		}
		out := r1.String()
		r1.SetInt64(0xBAD)
		if r3 := babyjub.SkToBigInt(k); r3.String() != out {
			return out + "!result-shared-with-later-call"
		}
		return out
	case "ed.public":
		need(args, 1)
		k := a.Key(args[0])
		p1 := k.Public()
		p2 := k.Scalar().Public()
		p3 := babyjub.NewPrivKeyScalar(babyjub.SkToBigInt(k)).Public()
		if showPt(p1.Point()) != showPt(p2.Point()) || showPt(p1.Point()) != showPt(p3.Point()) {
			return showPt(p1.Point()) + "!routes-differ"
		}
		out := showPt(p1.Point())
		// write through the returned key (its documented use as a destination) and derive again:
		// a result shared with later calls (cache) shows up as a different public key
		p1.X.SetInt64(0xBAD)
		p1.Y.SetInt64(0xBAD)
		p4 := k.Public()
		if showPt(p4.Point()) != out {
			return out + "!result-shared-with-later-call"
		}
		a.Keep(func() string { return showPt(p4.Point()) })
		return out
	case "ed.sign":
		need(args, 3)
		k := a.Key(args[1])
		msg := a.Int(args[2])
		var sig, sig2 *babyjub.Signature
		var err error
		// between the two signing calls the caller obtains the public key and uses it as a destination (it is the
		// caller's object): signing must not depend on memory handed out earlier
		useKey := func() {
			if !concurrentMode {
				pk := k.Public()
				pk.X.SetInt64(0xBAD)
				pk.Y.SetInt64(0xBAD)
			}
		}
		if args[0] == "poseidon" {
			sig, err = k.SignPoseidon(msg)
			if err == nil {
				useKey()
				sig2, _ = k.SignPoseidon(msg)
			}
		} else if args[0] == "mimc7" {
			sig, err = k.SignMimc7(msg)
			if err == nil {
				useKey()
				sig2, _ = k.SignMimc7(msg)
			}
		} else {
			panic("harness: bad hash " + args[0])
		}
		if err != nil {
			return classify(err)
		}
		c := sig.Compress()
		c2 := sig2.Compress()
		if c != c2 {
			return "!nondeterministic"
		}
		a.Keep(func() string { return showPt(sig2.R8) + sig2.S.String() })
		a.Ret(sig, sig2)
		return fmt.Sprintf("%s %s %s", showPt(sig.R8), sig.S, showBytes(c[:]))
	case "ed.verify":
		need(args, 7)
		pk := (*babyjub.PublicKey)(a.Point(args[1], args[2]))
		msg := a.Int(args[3])
		r8 := a.Point(args[4], args[5])
		sig := &babyjub.Signature{R8: r8, S: a.Int(args[6])}
		sS := sig.S
		a.checks = append(a.checks, func() string {
			if sig.R8 != r8 || sig.S != sS {
				return " !ARGMUT(signature field replaced)"
			}
			return ""
		})
		var err error
		if args[0] == "poseidon" {
			err = pk.VerifyPoseidon(msg, sig)
		} else if args[0] == "mimc7" {
			err = pk.VerifyMimc7(msg, sig)
		} else {
			panic("harness: bad hash " + args[0])
		}
		return classify(err)
	case "ed.verifycomp":
		need(args, 4)
		pb := a.Bytes(args[1])
		msg := a.Int(args[2])
		sb := a.Bytes(args[3])
		if len(pb) != 32 || len(sb) != 64 {
			panic("harness: ed.verifycomp sizes")
		}
		var pkc babyjub.PublicKeyComp
		copy(pkc[:], pb)
		pk, err := pkc.Decompress()
		if !bytes.Equal(pkc[:], pb) {
			return "!ARGMUT(compressed public key changed by Decompress)"
		}
		if err != nil {
			return "pk:" + classify(err)
		}
		var sc babyjub.SignatureComp
		copy(sc[:], sb)
		sig, err := sc.Decompress()
		if !bytes.Equal(sc[:], sb) {
			return "!ARGMUT(compressed signature changed by Decompress)"
		}
		if err != nil {
			return "sig:" + classify(err)
		}
		a.Ret(pk.Point(), sig)
		if args[0] == "poseidon" {
			err = pk.VerifyPoseidon(msg, sig)
		} else if args[0] == "mimc7" {
			err = pk.VerifyMimc7(msg, sig)
		} else {
			panic("harness: bad hash " + args[0])
		}
		return classify(err)
	case "ed.sigcompress":
		need(args, 3)
		sig := &babyjub.Signature{R8: &babyjub.Point{X: a.Int(args[0]), Y: a.Int(args[1])}, S: a.Int(args[2])}
		c := sig.Compress()
		return showBytes(c[:])
	case "ed.sigdecompress":
		need(args, 1)
		b := a.Bytes(args[0])
		if len(b) != 64 {
			panic("harness: ed.sigdecompress needs 64 bytes")
		}
		var buf [64]byte
		copy(buf[:], b)
		var recv *babyjub.Signature
		var ret *babyjub.Signature
		var err error
		switch pat {
		case "", "recv":
			recv = new(babyjub.Signature)
			ret, err = recv.Decompress(buf)
		case "dirty":
			recv = &babyjub.Signature{R8: &babyjub.Point{X: big.NewInt(5), Y: big.NewInt(6)}, S: big.NewInt(7)}
			ret, err = recv.Decompress(buf)
		case "comp":
			sc := babyjub.SignatureComp(buf)
			ret, err = sc.Decompress()
			recv = ret
			if sc != babyjub.SignatureComp(buf) {
				return "!ARGMUT(compressed signature changed by Decompress)"
			}
		default:
			panic("harness: bad route " + pat)
		}
		if err != nil {
			if ret != nil {
				return classify(err) + "!nonnil-result"
			}
			return classify(err)
		}
		a.Ret(ret)
		return fmt.Sprintf("%s %s recv=%s %s", showPt(ret.R8), ret.S, showPt(recv.R8), recv.S)
	case "ed.decompresssig":
		need(args, 1)
		s, err := babyjub.DecompressSig(a.Bytes(args[0]))
		if err != nil {
			if s != nil {
				return classify(err) + "!nonnil-result"
			}
			return classify(err)
		}
		a.Ret(s)
		return fmt.Sprintf("%s %s", showPt(s.R8), s.S)
	case "ed.pk.marshal":
		need(args, 2)
		pk := babyjub.PublicKey{X: a.Int(args[0]), Y: a.Int(args[1])}
		t, err := pk.MarshalText()
		if err != nil {
			return classify(err)
		}
		if pk.String() != string(t) {
			return "!String-differs-from-MarshalText"
		}
		return showBytes(t)
	case "ed.pk.unmarshal":
		need(args, 1)
		var pk babyjub.PublicKey
		if err := pk.UnmarshalText(a.Bytes(args[0])); err != nil {
			return classify(err)
		}
		a.Ret(pk.Point())
		return showPt(pk.Point())
	case "ed.comp.unmarshal":
		need(args, 2)
		t := a.Bytes(args[1])
		switch atoi(args[0]) {
		case 32:
			var c babyjub.PublicKeyComp
			if err := c.UnmarshalText(t); err != nil {
				return classify(err)
			}
			return showBytes(c[:])
		case 64:
			var c babyjub.SignatureComp
			if err := c.UnmarshalText(t); err != nil {
				return classify(err)
			}
			return showBytes(c[:])
		}
		panic("harness: bad size")
	case "ed.comp.marshal":
		need(args, 1)
		b := a.Bytes(args[0])
		switch len(b) {
		case 32:
			var c babyjub.PublicKeyComp
			copy(c[:], b)
			t, _ := c.MarshalText()
			if c.String() != string(t) {
				return "!String-differs-from-MarshalText"
			}
			if !bytes.Equal(c[:], b) {
				return "!ARGMUT(compressed value changed by MarshalText/String)"
			}
			return showBytes(t)
		case 64:
			var c babyjub.SignatureComp
			copy(c[:], b)
			t, _ := c.MarshalText()
			if c.String() != string(t) {
				return "!String-differs-from-MarshalText"
			}
			if !bytes.Equal(c[:], b) {
				return "!ARGMUT(compressed value changed by MarshalText/String)"
			}
			return showBytes(t)
		}
		panic("harness: bad size")
	case "ed.comp.scan":
		need(args, 3)
		src := srcOf(args[1], args[2], a)
		switch atoi(args[0]) {
		case 32:
			var c babyjub.PublicKeyComp
			if err := c.Scan(src); err != nil {
				return classify(err)
			}
			v, _ := c.Value()
			if string(v.([]byte)) != string(c[:]) {
				return "!Value-differs"
			}
			return showBytes(c[:])
		case 64:
			var c babyjub.SignatureComp
			if err := c.Scan(src); err != nil {
				return classify(err)
			}
			v, _ := c.Value()
			if string(v.([]byte)) != string(c[:]) {
				return "!Value-differs"
			}
			return showBytes(c[:])
		}
		panic("harness: bad size")
	case "ed.pk.scan":
		need(args, 2)
		var pk babyjub.PublicKey
		if err := pk.Scan(srcOf(args[0], args[1], a)); err != nil {
			return classify(err)
		}
		return showPt(pk.Point())
	case "ed.sig.scan":
		need(args, 2)
		var s babyjub.Signature
		if err := s.Scan(srcOf(args[0], args[1], a)); err != nil {
			return classify(err)
		}
		return fmt.Sprintf("%s %s", showPt(s.R8), s.S)
	case "ed.pk.value":
		need(args, 2)
		pk := babyjub.PublicKey{X: a.Int(args[0]), Y: a.Int(args[1])}
		v, err := pk.Value()
		if err != nil {
			return classify(err)
		}
		c := pk.Compress()
		if string(v.([]byte)) != string(c[:]) {
			return "!Value-differs-from-Compress"
		}
		return showBytes(v.([]byte))
	case "ed.sig.value":
		need(args, 3)
		s := babyjub.Signature{R8: &babyjub.Point{X: a.Int(args[0]), Y: a.Int(args[1])}, S: a.Int(args[2])}
		v, err := s.Value()
		if err != nil {
			return classify(err)
		}
		return showBytes(v.([]byte))
	// ---------------- utils ----------------
	case "u.hexencode":
		need(args, 1)
		return showBytes([]byte(utils.HexEncode(a.Bytes(args[0]))))
	case "u.hexdecode":
		need(args, 1)
		r, err := utils.HexDecode(string(a.Bytes(args[0])))
		if err != nil {
			return classify(err)
		}
		return showBytes(r)
	case "u.hexdecodeinto":
		need(args, 2)
		dst := make([]byte, atoi(args[0]))
		if err := utils.HexDecodeInto(dst, a.Bytes(args[1])); err != nil {
			return classify(err)
		}
		return showBytes(dst)
	case "u.lebytes":
		need(args, 1)
		r := utils.BigIntLEBytes(a.Int(args[0]))
		return showBytes(r[:])
	case "u.fromle":
		need(args, 1)
		dst := big.NewInt(-77)
		r := utils.SetBigIntFromLEBytes(dst, a.Bytes(args[0]))
		if r != dst {
			return r.String() + "!returned-other-object"
		}
		return r.String()
	case "u.swap":
		need(args, 1)
		return showBytes(utils.SwapEndianness(a.Bytes(args[0])))
	case "u.infield":
		need(args, 1)
		return showBool(utils.CheckBigIntInField(a.Int(args[0])))
	case "u.elemarr":
		// []*big.Int -> []*ff.Element -> []*big.Int: every entry comes back as its residue mod q
		need(args, 1)
		l := a.IntList(args[0])
		back := utils.ElementArrayToBigIntArray(utils.BigIntArrayToElementArray(l))
		a.Ret(back)
		return showInts(back)
	case "u.arrinfield":
		need(args, 1)
		return showBool(utils.CheckBigIntArrayInField(a.IntList(args[0])))
	}
	panic("harness: unknown op " + op)
}

func keyOf(b []byte) babyjub.PrivateKey {
	if len(b) != 32 {
		panic("harness: key needs 32 bytes")
	}
	var k babyjub.PrivateKey
	copy(k[:], b)
	return k
}

func srcOf(kind, payload string, a *argTrack) interface{} {
	switch kind {
	case "nil":
		return nil
	case "int64":
		n, err := strconv.ParseInt(payload, 10, 64)
		if err != nil {
			panic("harness: bad int64")
		}
		return n
	case "float64":
		return 1.5
	case "bool":
		return payload == "true"
	case "bytes":
		return a.Bytes(payload)
	case "string":
		return string(a.Bytes(payload))
	case "time":
		return time.Unix(0, 0)
	case "array32":
		var x [32]byte
		copy(x[:], a.Bytes(payload))
		return x
	case "array64":
		var x [64]byte
		copy(x[:], a.Bytes(payload))
		return x
	}
	panic("harness: bad src kind " + kind)
}

func checksum(m *big.Int, l []*big.Int) string {
	acc := new(big.Int)
	t := new(big.Int)
	for i, v := range l {
		t.Mul(big.NewInt(int64(i+1)), v)
		acc.Add(acc, t)
		acc.Mod(acc, m)
	}
	return acc.String()
}

func poseidonTableSum(t int) string {
	cc, s, m, p := poseidon.VerifTables()
	k := t - 2
	if k < 0 || k >= len(cc) || k >= len(s) || k >= len(m) || k >= len(p) {
		return "none"
	}
	conv := func(l []*ff.Element) []*big.Int {
		r := make([]*big.Int, len(l))
		for i, e := range l {
			r[i] = e.ToBigIntRegular(new(big.Int))
		}
		return r
	}
	flat := func(mm [][]*ff.Element) []*big.Int {
		var r []*big.Int
		for _, row := range mm {
			r = append(r, conv(row)...)
		}
		return r
	}
	return fmt.Sprintf("%s %s %s %s %d %d %d %d", checksum(constants.Q, conv(cc[k])), checksum(constants.Q, conv(s[k])),
		checksum(constants.Q, flat(m[k])), checksum(constants.Q, flat(p[k])), len(cc[k]), len(s[k]), len(m[k]), len(p[k]))
}

func goldenTableSum() string {
	conv := func(l []*ffg.Element) []*big.Int {
		r := make([]*big.Int, len(l))
		for i, e := range l {
			r[i] = e.ToBigIntRegular(new(big.Int))
		}
		return r
	}
	flat := func(mm [][]*ffg.Element) []*big.Int {
		var r []*big.Int
		for _, row := range mm {
			r = append(r, conv(row)...)
		}
		return r
	}
	m := ffg.Modulus()
	return fmt.Sprintf("%s %s %s %s %d %d", checksum(m, conv(gposeidon.C)), checksum(m, conv(gposeidon.S)),
		checksum(m, flat(gposeidon.M)), checksum(m, flat(gposeidon.P)), len(gposeidon.C), len(gposeidon.S))
}
