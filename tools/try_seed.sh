#!/bin/sh
# usage: try_seed.sh <patch.diff> <prop> [<prop> ...]
# Applies a seeded change to a SCRATCH WORKTREE of /repo (never to /repo itself), runs the quick checks against it
# (VERIF_REPO), removes the worktree and regenerates Gen for /repo.  Evidence of runs on a seeded tree is not kept.
set -u
patch="$1"; shift
wt=$(mktemp -d /tmp/seedtry.XXXXXX); rmdir "$wt"
git -C /repo worktree add -q --detach "$wt" HEAD || exit 2
git -C "$wt" apply "$patch" || { echo "try_seed: patch does not apply"; git -C /repo worktree remove --force "$wt"; exit 2; }
save=$(mktemp -d /tmp/evsave.XXXXXX); cp /verif/evidence/*.json "$save"/ 2>/dev/null
for p in "$@"; do
  (cd /verif && VERIF_REPO="$wt" VERIF_SEED=${VERIF_SEED:-1} ./check "$p" --tier "${TIER:-quick}" | grep -v "^KNOWN" | tail -3)
done
git -C /repo worktree remove --force "$wt"; git -C /repo worktree prune
cp "$save"/*.json /verif/evidence/ 2>/dev/null; rm -rf "$save"
(cd /verif && for t in gen_tables gen_limbs gen_asm gen_pins gen_effects gen_go gen_blake gen_keccak; do [ -x .build/$t ] && .build/$t /repo lean/I3/Gen >/dev/null 2>&1; done; rm -rf .build/harness_src; true)
