#!/bin/sh
# usage: try_seed.sh <patch.diff> <prop> [<prop> ...]  — apply a seeded change to /repo, run the quick checks, undo it.
set -u
patch="$1"; shift
cd /repo || exit 2
if [ -n "$(git status --porcelain)" ]; then echo "try_seed: /repo not clean"; exit 2; fi
git apply "$patch" || { echo "try_seed: patch does not apply"; exit 2; }
save=$(mktemp -d /tmp/evsave.XXXXXX); cp /verif/evidence/*.json "$save"/ 2>/dev/null
for p in "$@"; do
  (cd /verif && VERIF_SEED=${VERIF_SEED:-1} ./check "$p" --tier "${TIER:-quick}" | grep -v "^KNOWN" | tail -3)
done
git -C /repo checkout -- . && git -C /repo clean -fdq
cp "$save"/*.json /verif/evidence/ 2>/dev/null; rm -rf "$save"   # evidence of runs on a seeded tree is not kept
# regenerate Gen for the clean tree so later builds are not confused
(cd /verif && for t in gen_tables gen_limbs gen_asm gen_pins gen_effects gen_go; do [ -x .build/$t ] && .build/$t /repo lean/I3/Gen >/dev/null 2>&1; done; true)
