// T4 — write-site extractor (go/packages + go/types).
// For every function of /repo (non-test files, default build) it lists each in-place write
//   - stores through a pointer / into a slice or map element / into a field of a pointed-to struct,
//   - calls of mutating methods (math/big setters, repo methods that write their receiver),
//   - calls that pass an object to a parameter the callee writes (copy, hex.Decode, repo functions …),
//   - append into a possibly shared backing array, assignments to package-level variables,
//
// together with the ORIGIN CLASS of the written object:
//
//	fresh (allocated in this function: new/make/composite literal/value copy/known constructor),
//	pool (taken from a sync.Pool), recv, param i, global g (package-level), unknown.
//
// The analysis is intraprocedural and flow-insensitive, with interprocedural summaries
// (which parameters / receiver a repo function writes, where its results come from) computed to a
// fixed point.  It is deliberately syntactic; it fails loudly on load errors.
package main

import (
	"fmt"
	"go/ast"
	"go/token"
	"go/types"
	"os"
	"path/filepath"
	"sort"
	"strconv"
	"strings"

	"golang.org/x/tools/go/packages"
)

func die(f string, a ...interface{}) {
	fmt.Fprintf(os.Stderr, "gen_effects: "+f+"\n", a...)
	os.Exit(2)
}

type origin string // "fresh" "pool" "recv" "param:<i>" "global:<pkg.name>" "unknown"

type oset map[origin]bool

func (s oset) add(o ...origin) {
	for _, x := range o {
		s[x] = true
	}
}
func (s oset) union(t oset) {
	for k := range t {
		s[k] = true
	}
}
func (s oset) list() []string {
	var r []string
	for k := range s {
		r = append(r, string(k))
	}
	sort.Strings(r)
	return r
}
func single(o origin) oset { return oset{o: true} }

type summary struct {
	writesRecv    bool
	writesParam   map[int]bool
	returns       []oset       // per result index (pointer-like results only; others empty)
	capturesParam map[int]bool // a pointer reachable from parameter i is stored into an object that outlives the call
}

type site struct {
	pkg, fn  string
	line     int
	kind     string
	what     string
	origins  []string
	exported bool
}

type poolUse struct {
	pkg, fn      string
	line         int
	putKind      string // "defer" | "stmt" | "none"
	puts         int    // number of Put sites (deferred + plain) for this object: must be exactly one
	usesAfterPut int
	escapes      int // stored to a global / field / returned
}

var (
	fset      *token.FileSet
	summaries = map[*types.Func]*summary{}
	funcDecls = map[*types.Func]*ast.FuncDecl{}
	funcPkg   = map[*types.Func]*packages.Package{}
	sites     []site
	pools     []poolUse
	modPath   string
)

var bigMutating = map[string]bool{"Set": true, "SetBytes": true, "SetString": true, "SetInt64": true, "SetUint64": true, "SetBit": true, "SetBits": true,
	"Add": true, "Sub": true, "Mul": true, "Mod": true, "Div": true, "Quo": true, "Rem": true, "QuoRem": true, "DivMod": true, "Rsh": true, "Lsh": true,
	"Exp": true, "ModInverse": true, "ModSqrt": true, "Neg": true, "Abs": true, "And": true, "AndNot": true, "Or": true, "Xor": true, "Not": true,
	"GCD": true, "Sqrt": true, "Rand": true, "Binomial": true, "MulRange": true, "Scan": true, "UnmarshalText": true, "UnmarshalJSON": true, "GobDecode": true}
var bigPure = map[string]bool{"Cmp": true, "CmpAbs": true, "Sign": true, "BitLen": true, "Bit": true, "Bytes": true, "String": true, "Text": true, "Bits": true,
	"IsInt64": true, "IsUint64": true, "Int64": true, "Uint64": true, "ProbablyPrime": true, "TrailingZeroBits": true, "Append": true, "Format": true,
	"MarshalText": true, "MarshalJSON": true, "FillBytes": true, "Float64": true}

func isPkgLevel(v *types.Var) bool {
	return v != nil && v.Parent() != nil && v.Pkg() != nil && v.Parent() == v.Pkg().Scope()
}

func pointerLike(t types.Type) bool {
	if t == nil {
		return false
	}
	switch u := t.Underlying().(type) {
	case *types.Pointer, *types.Slice, *types.Map, *types.Interface, *types.Chan, *types.Signature:
		return true
	case *types.Struct:
		for i := 0; i < u.NumFields(); i++ {
			if pointerLike(u.Field(i).Type()) {
				return true
			}
		}
	}
	return false
}

type fnAnalysis struct {
	pkg     *packages.Package
	fd      *ast.FuncDecl
	obj     *types.Func
	env     map[*types.Var]oset
	fenv    map[string]oset // local struct value, one field level: "<var ptr>.<field>"
	params  map[*types.Var]int
	recv    *types.Var
	recvPtr bool
	sum     *summary
	record  bool
}

func (a *fnAnalysis) src(n ast.Node) string {
	p1, p2 := fset.Position(n.Pos()), fset.Position(n.End())
	b, err := os.ReadFile(p1.Filename)
	if err != nil || p2.Offset > len(b) {
		return "?"
	}
	s := string(b[p1.Offset:p2.Offset])
	s = strings.Join(strings.Fields(s), " ")
	if len(s) > 70 {
		s = s[:70] + "…"
	}
	return s
}

func calleeFunc(info *types.Info, c *ast.CallExpr) *types.Func {
	switch f := c.Fun.(type) {
	case *ast.Ident:
		if fn, ok := info.Uses[f].(*types.Func); ok {
			return fn
		}
	case *ast.SelectorExpr:
		if fn, ok := info.Uses[f.Sel].(*types.Func); ok {
			return fn
		}
	}
	return nil
}

func (a *fnAnalysis) originOf(e ast.Expr) oset {
	info := a.pkg.TypesInfo
	r := oset{}
	switch v := e.(type) {
	case nil:
		return r
	case *ast.ParenExpr:
		return a.originOf(v.X)
	case *ast.Ident:
		if v.Name == "nil" {
			r.add("fresh")
			return r
		}
		obj, _ := info.Uses[v].(*types.Var)
		if obj == nil {
			obj, _ = info.Defs[v].(*types.Var)
		}
		if obj == nil {
			if _, ok := info.Uses[v].(*types.Const); ok {
				r.add("fresh")
				return r
			}
			r.add("unknown")
			return r
		}
		if isPkgLevel(obj) {
			r.add(origin("global:" + obj.Pkg().Name() + "." + obj.Name()))
			return r
		}
		if i, ok := a.params[obj]; ok {
			r.add(origin("param:" + strconv.Itoa(i)))
			// a parameter variable may also be re-assigned inside the function
			if s, ok := a.env[obj]; ok {
				r.union(s)
			}
			return r
		}
		if obj == a.recv {
			if !a.recvPtr && !pointerLike(obj.Type()) {
				r.add("fresh") // value receiver of array/basic type: a copy
				return r
			}
			r.add("recv")
			return r
		}
		if s, ok := a.env[obj]; ok && len(s) > 0 {
			r.union(s)
			return r
		}
		// declared without initialiser (var x T) or not yet seen: local storage
		r.add("fresh")
		return r
	case *ast.UnaryExpr:
		if v.Op == token.AND {
			// &local -> the local; &T{} -> fresh
			if _, ok := v.X.(*ast.CompositeLit); ok {
				r.add("fresh")
				return r
			}
			return a.originOf(v.X)
		}
		r.add("fresh")
		return r
	case *ast.StarExpr:
		// value copy of arrays/basic structs is fresh; a struct holding pointers shares them
		t := info.TypeOf(e)
		if pointerLike(t) {
			return a.originOf(v.X)
		}
		r.add("fresh")
		return r
	case *ast.CompositeLit:
		r.add("fresh")
		// a literal holding pointers derived from elsewhere shares them
		for _, el := range v.Elts {
			val := el
			if kv, ok := el.(*ast.KeyValueExpr); ok {
				val = kv.Value
			}
			if pointerLike(info.TypeOf(val)) {
				for o := range a.originOf(val) {
					if o != "fresh" {
						r.add(o)
					}
				}
			}
		}
		return r
	case *ast.BasicLit, *ast.FuncLit:
		r.add("fresh")
		return r
	case *ast.SelectorExpr:
		// package-qualified identifier?
		if id, ok := v.X.(*ast.Ident); ok {
			if _, isPkg := info.Uses[id].(*types.PkgName); isPkg {
				if obj, ok := info.Uses[v.Sel].(*types.Var); ok && isPkgLevel(obj) {
					r.add(origin("global:" + obj.Pkg().Name() + "." + obj.Name()))
					return r
				}
				r.add("fresh")
				return r
			}
		}
		if k, ok := a.fieldKey(v); ok {
			if o, ok := a.fenv[k]; ok && len(o) > 0 {
				r.union(o)
				return r
			}
		}
		return a.originOf(v.X)
	case *ast.IndexExpr:
		return a.originOf(v.X)
	case *ast.SliceExpr:
		return a.originOf(v.X)
	case *ast.TypeAssertExpr:
		// pool.Get().(*big.Int)
		if c, ok := v.X.(*ast.CallExpr); ok {
			if sel, ok := c.Fun.(*ast.SelectorExpr); ok && sel.Sel.Name == "Get" {
				if t := info.TypeOf(sel.X); t != nil && strings.HasSuffix(t.String(), "sync.Pool") {
					r.add("pool")
					return r
				}
			}
		}
		return a.originOf(v.X)
	case *ast.BinaryExpr:
		r.add("fresh")
		return r
	case *ast.CallExpr:
		return a.callOrigin(v)
	}
	r.add("unknown")
	return r
}

// x.f where x is a local variable of struct VALUE type (not a pointer, not a parameter/receiver)
func (a *fnAnalysis) fieldKey(v *ast.SelectorExpr) (string, bool) {
	info := a.pkg.TypesInfo
	id, ok := v.X.(*ast.Ident)
	if !ok {
		return "", false
	}
	obj, _ := info.Uses[id].(*types.Var)
	if obj == nil || isPkgLevel(obj) || obj == a.recv {
		return "", false
	}
	if _, isParam := a.params[obj]; isParam {
		return "", false
	}
	if _, isStruct := obj.Type().Underlying().(*types.Struct); !isStruct {
		return "", false
	}
	return fmt.Sprintf("%p.%s", obj, v.Sel.Name), true
}

func (a *fnAnalysis) callOrigin(c *ast.CallExpr) oset {
	info := a.pkg.TypesInfo
	r := oset{}
	// conversions and builtins
	if tv, ok := info.Types[c.Fun]; ok && tv.IsType() {
		if len(c.Args) == 1 {
			if pointerLike(info.TypeOf(c)) {
				// []byte(string) allocates; pointer conversions alias
				if _, isBasic := info.TypeOf(c.Args[0]).Underlying().(*types.Basic); isBasic {
					r.add("fresh")
					return r
				}
				return a.originOf(c.Args[0])
			}
		}
		r.add("fresh")
		return r
	}
	if id, ok := c.Fun.(*ast.Ident); ok {
		if _, isB := info.Uses[id].(*types.Builtin); isB {
			switch id.Name {
			case "new", "make":
				r.add("fresh")
				return r
			case "append":
				r.add("fresh")
				r.union(a.originOf(c.Args[0]))
				for _, x := range c.Args[1:] {
					if pointerLike(info.TypeOf(x)) {
						for o := range a.originOf(x) {
							if o != "fresh" {
								r.add(o)
							}
						}
					}
				}
				return r
			default:
				r.add("fresh")
				return r
			}
		}
	}
	fn := calleeFunc(info, c)
	if fn == nil {
		r.add("unknown")
		return r
	}
	if !pointerLike(info.TypeOf(c)) {
		r.add("fresh")
		return r
	}
	sig := fn.Type().(*types.Signature)
	// repo function with a summary
	if s, ok := summaries[fn]; ok {
		if len(s.returns) > 0 {
			for o := range s.returns[0] {
				switch {
				case o == "recv":
					if sel, ok := c.Fun.(*ast.SelectorExpr); ok {
						r.union(a.originOf(sel.X))
					}
				case strings.HasPrefix(string(o), "param:"):
					i, _ := strconv.Atoi(string(o)[6:])
					if i < len(c.Args) {
						r.union(a.originOf(c.Args[i]))
					}
				default:
					r.add(o)
				}
			}
			if len(r) == 0 {
				r.add("fresh")
			}
			return r
		}
		r.add("fresh")
		return r
	}
	// external: methods returning their receiver type (math/big setters, hash.Sum …)
	if sig.Recv() != nil {
		sel := c.Fun.(*ast.SelectorExpr)
		rt := sig.Recv().Type().String()
		if strings.HasSuffix(rt, "math/big.Int") {
			if bigMutating[fn.Name()] {
				return a.originOf(sel.X) // returns the receiver
			}
			if fn.Name() == "Bits" {
				return a.originOf(sel.X)
			}
			r.add("fresh")
			return r
		}
		if fn.Name() == "Sum" && len(c.Args) == 1 {
			r.add("fresh")
			r.union(a.originOf(c.Args[0]))
			return r
		}
		if fn.Name() == "Get" && strings.HasSuffix(rt, "sync.Pool") {
			r.add("pool")
			return r
		}
		r.add("fresh")
		return r
	}
	// external plain functions: constructors and decoders allocate
	r.add("fresh")
	return r
}

func worst(s oset) []string { return s.list() }

func (a *fnAnalysis) emit(n ast.Node, kind string, target ast.Expr, os_ oset) {
	// summary effects
	for o := range os_ {
		if o == "recv" {
			a.sum.writesRecv = true
		}
		if strings.HasPrefix(string(o), "param:") {
			i, _ := strconv.Atoi(string(o)[6:])
			a.sum.writesParam[i] = true
		}
	}
	if !a.record {
		return
	}
	name := a.fd.Name.Name
	if a.fd.Recv != nil && len(a.fd.Recv.List) > 0 {
		t := a.fd.Recv.List[0].Type
		if st, ok := t.(*ast.StarExpr); ok {
			t = st.X
		}
		name = a.src(t) + "." + name
	}
	sites = append(sites, site{pkg: a.pkg.Types.Name(), fn: name, line: fset.Position(n.Pos()).Line, kind: kind, what: a.src(n),
		origins: worst(os_), exported: a.fd.Name.IsExported()})
}

// the object that a store through `lhs` writes into, or nil if it only rebinds a local variable
func (a *fnAnalysis) storeTarget(lhs ast.Expr) (ast.Expr, bool, bool) {
	info := a.pkg.TypesInfo
	switch v := lhs.(type) {
	case *ast.Ident:
		if v.Name == "_" {
			return nil, false, false
		}
		if obj, ok := info.Uses[v].(*types.Var); ok && isPkgLevel(obj) {
			return v, true, true // assignment to a package-level variable
		}
		return nil, false, false
	case *ast.ParenExpr:
		return a.storeTarget(v.X)
	case *ast.StarExpr:
		return v.X, true, false
	case *ast.IndexExpr:
		t := info.TypeOf(v.X)
		if t == nil {
			return v.X, true, false
		}
		switch t.Underlying().(type) {
		case *types.Array:
			// array value: a store into the variable's own storage — recurse (x.f[i], (*p)[i] handled by X)
			return a.storeTarget(v.X)
		}
		return v.X, true, false
	case *ast.SelectorExpr:
		t := info.TypeOf(v.X)
		if t == nil {
			return v.X, true, false
		}
		if _, isPtr := t.Underlying().(*types.Pointer); isPtr {
			return v.X, true, false
		}
		// struct value: store into the variable's own storage
		return a.storeTarget(v.X)
	}
	return lhs, true, false
}

func (a *fnAnalysis) run() {
	info := a.pkg.TypesInfo
	// 1. environment: origins of local variables (flow-insensitive, iterate to a fixed point)
	for iter := 0; iter < 6; iter++ {
		ast.Inspect(a.fd.Body, func(n ast.Node) bool {
			switch v := n.(type) {
			case *ast.AssignStmt:
				if len(v.Lhs) == len(v.Rhs) {
					for i, l := range v.Lhs {
						a.bind(l, a.originOf(v.Rhs[i]))
					}
				} else if len(v.Rhs) == 1 {
					// multi-value: call or type assertion / map index
					var per []oset
					if c, ok := v.Rhs[0].(*ast.CallExpr); ok {
						per = a.multiCallOrigins(c, len(v.Lhs))
					} else {
						o := a.originOf(v.Rhs[0])
						per = []oset{o}
					}
					for i, l := range v.Lhs {
						if i < len(per) {
							a.bind(l, per[i])
						} else {
							a.bind(l, single("fresh"))
						}
					}
				}
			case *ast.ValueSpec:
				for i, nme := range v.Names {
					if i < len(v.Values) {
						a.bind(nme, a.originOf(v.Values[i]))
					}
				}
			case *ast.RangeStmt:
				if v.Value != nil {
					a.bind(v.Value, a.originOf(v.X))
				}
			case *ast.CallExpr:
				// copy(dst, src) with pointer-like elements: dst's elements now alias src's
				if id, ok := v.Fun.(*ast.Ident); ok && id.Name == "copy" && len(v.Args) == 2 {
					if _, isB := info.Uses[id].(*types.Builtin); isB {
						if sl, ok := info.TypeOf(v.Args[0]).Underlying().(*types.Slice); ok && pointerLike(sl.Elem()) {
							a.taint(v.Args[0], a.originOf(v.Args[1]))
						}
					}
				}
			}
			// x[i] = p / x.f = p with pointer-like p: the container now reaches p's object
			if as, ok := n.(*ast.AssignStmt); ok && len(as.Lhs) == len(as.Rhs) {
				for i, l := range as.Lhs {
					if _, isId := l.(*ast.Ident); isId {
						continue
					}
					if pointerLike(info.TypeOf(as.Rhs[i])) {
						a.taint(l, a.originOf(as.Rhs[i]))
					}
				}
			}
			return true
		})
	}
	// 2. write sites
	ast.Inspect(a.fd.Body, func(n ast.Node) bool {
		switch v := n.(type) {
		case *ast.AssignStmt:
			if len(v.Lhs) == len(v.Rhs) {
				for i, l := range v.Lhs {
					if _, isStore, _ := a.storeTarget(l); isStore && pointerLike(info.TypeOf(v.Rhs[i])) {
						a.capture(v, v.Rhs[i])
					}
				}
			}
			for _, l := range v.Lhs {
				tgt, isStore, isGlobalVar := a.storeTarget(l)
				if !isStore {
					continue
				}
				if isGlobalVar {
					a.emit(v, "assign-global", tgt, a.originOf(tgt))
				} else {
					a.emit(v, "store", tgt, a.originOf(tgt))
				}
			}
		case *ast.IncDecStmt:
			tgt, isStore, _ := a.storeTarget(v.X)
			if isStore {
				a.emit(v, "store", tgt, a.originOf(tgt))
			}
		case *ast.CallExpr:
			a.callWrites(v)
		case *ast.ReturnStmt:
			for i, res := range v.Results {
				for len(a.sum.returns) <= i {
					a.sum.returns = append(a.sum.returns, oset{})
				}
				if pointerLike(info.TypeOf(res)) {
					ro := a.originOf(res)
					// a returned local struct carries its field taints
					if id, ok := res.(*ast.Ident); ok {
						if obj, ok := info.Uses[id].(*types.Var); ok {
							pfx := fmt.Sprintf("%p.", obj)
							for k, fo := range a.fenv {
								if strings.HasPrefix(k, pfx) {
									for x := range fo {
										if x != "fresh" {
											ro.add(x)
										}
									}
								}
							}
						}
					}
					if ue, ok := res.(*ast.UnaryExpr); ok && ue.Op == token.AND {
						if id, ok := ue.X.(*ast.Ident); ok {
							if obj, ok := info.Uses[id].(*types.Var); ok {
								pfx := fmt.Sprintf("%p.", obj)
								for k, fo := range a.fenv {
									if strings.HasPrefix(k, pfx) {
										for x := range fo {
											if x != "fresh" {
												ro.add(x)
											}
										}
									}
								}
							}
						}
					}
					a.sum.returns[i].union(ro)
				}
			}
			if len(v.Results) == 0 && a.fd.Type.Results != nil {
				i := 0
				for _, fl := range a.fd.Type.Results.List {
					for _, nme := range fl.Names {
						for len(a.sum.returns) <= i {
							a.sum.returns = append(a.sum.returns, oset{})
						}
						if pointerLike(info.TypeOf(nme)) {
							a.sum.returns[i].union(a.originOf(nme))
						}
						i++
					}
				}
			}
		}
		return true
	})
}

func (a *fnAnalysis) multiCallOrigins(c *ast.CallExpr, n int) []oset {
	info := a.pkg.TypesInfo
	fn := calleeFunc(info, c)
	per := make([]oset, n)
	for i := range per {
		per[i] = single("fresh")
	}
	if fn == nil {
		return per
	}
	if s, ok := summaries[fn]; ok {
		for i := 0; i < n && i < len(s.returns); i++ {
			o := oset{}
			for x := range s.returns[i] {
				switch {
				case x == "recv":
					if sel, ok := c.Fun.(*ast.SelectorExpr); ok {
						o.union(a.originOf(sel.X))
					}
				case strings.HasPrefix(string(x), "param:"):
					k, _ := strconv.Atoi(string(x)[6:])
					if k < len(c.Args) {
						o.union(a.originOf(c.Args[k]))
					}
				default:
					o.add(x)
				}
			}
			if len(o) > 0 {
				per[i] = o
			}
		}
		return per
	}
	// external multi-value: first result as for single calls
	per[0] = a.callOrigin(c)
	return per
}

func (a *fnAnalysis) bind(l ast.Expr, o oset) {
	id, ok := l.(*ast.Ident)
	if !ok || id.Name == "_" {
		return
	}
	info := a.pkg.TypesInfo
	obj, _ := info.Defs[id].(*types.Var)
	if obj == nil {
		obj, _ = info.Uses[id].(*types.Var)
	}
	if obj == nil || isPkgLevel(obj) {
		return
	}
	if !pointerLike(obj.Type()) {
		// plain value variable (e.g. an Element array): its own storage
		if a.env[obj] == nil {
			a.env[obj] = oset{}
		}
		a.env[obj].add("fresh")
		return
	}
	if a.env[obj] == nil {
		a.env[obj] = oset{}
	}
	a.env[obj].union(o)
}

// taint: the root local variable of container expression e additionally reaches objects of origin o
func (a *fnAnalysis) taint(e ast.Expr, o oset) {
	info := a.pkg.TypesInfo
	if sel, ok := e.(*ast.SelectorExpr); ok {
		if k, ok := a.fieldKey(sel); ok {
			if a.fenv[k] == nil {
				a.fenv[k] = oset{}
			}
			a.fenv[k].union(o)
			return
		}
	}
	for {
		switch v := e.(type) {
		case *ast.IndexExpr:
			e = v.X
			continue
		case *ast.SliceExpr:
			e = v.X
			continue
		case *ast.SelectorExpr:
			e = v.X
			continue
		case *ast.ParenExpr:
			e = v.X
			continue
		case *ast.StarExpr:
			e = v.X
			continue
		case *ast.Ident:
			obj, _ := info.Uses[v].(*types.Var)
			if obj == nil || isPkgLevel(obj) {
				return
			}
			if _, isParam := a.params[obj]; isParam || obj == a.recv {
				return
			}
			if a.env[obj] == nil {
				a.env[obj] = oset{}
			}
			for k := range o {
				if k != "fresh" {
					a.env[obj].add(k)
				}
			}
			return
		}
		return
	}
}

// capture: a pointer-like value is stored into an object that outlives this statement (a store target or a
// capturing callee).  Pointers to package-level objects must never be captured (a later write through the
// capturing object would modify the constant); pointers from parameters are recorded in the summary.
func (a *fnAnalysis) capture(n ast.Node, val ast.Expr) {
	o := a.originOf(val)
	globals := oset{}
	for k := range o {
		switch {
		case strings.HasPrefix(string(k), "global:"):
			globals.add(k)
		case strings.HasPrefix(string(k), "param:"):
			i, _ := strconv.Atoi(string(k)[6:])
			a.sum.capturesParam[i] = true
		}
	}
	if len(globals) > 0 && a.record {
		name := a.fd.Name.Name
		if a.fd.Recv != nil && len(a.fd.Recv.List) > 0 {
			t := a.fd.Recv.List[0].Type
			if st, ok := t.(*ast.StarExpr); ok {
				t = st.X
			}
			name = a.src(t) + "." + name
		}
		sites = append(sites, site{pkg: a.pkg.Types.Name(), fn: name, line: fset.Position(n.Pos()).Line, kind: "capture-global",
			what: a.src(n), origins: globals.list(), exported: a.fd.Name.IsExported()})
	}
}

func (a *fnAnalysis) callWrites(c *ast.CallExpr) {
	info := a.pkg.TypesInfo
	if id, ok := c.Fun.(*ast.Ident); ok {
		if _, isB := info.Uses[id].(*types.Builtin); isB {
			switch id.Name {
			case "copy":
				a.emit(c, "copy", c.Args[0], a.originOf(c.Args[0]))
			case "append":
				// may write into the spare capacity of the first argument's backing array
				o := a.originOf(c.Args[0])
				a.emit(c, "append", c.Args[0], o)
			case "delete", "clear":
				a.emit(c, id.Name, c.Args[0], a.originOf(c.Args[0]))
			}
			return
		}
	}
	fn := calleeFunc(info, c)
	if fn == nil {
		if tv, ok := info.Types[c.Fun]; ok && tv.IsType() {
			return // conversion
		}
		// a call through a function value, method value, closure or func-typed variable: the callee is unknown,
		// so what it writes is unknown.  The library has none; the analysis refuses rather than assume purity.
		die("%s: call through a function value (%s): what it writes cannot be determined", fset.Position(c.Pos()), a.src(c.Fun))
	}
	sig, _ := fn.Type().(*types.Signature)
	if sig == nil {
		return
	}
	if sel, ok := c.Fun.(*ast.SelectorExpr); ok && sig.Recv() != nil {
		if tv, ok := info.Types[sel.X]; ok && tv.IsType() {
			die("%s: method expression %s: receiver passed as an argument is not tracked", fset.Position(c.Pos()), a.src(c.Fun))
		}
		if _, isIface := sig.Recv().Type().Underlying().(*types.Interface); isIface && fn.Pkg() != nil && strings.HasPrefix(fn.Pkg().Path(), modulePrefix) {
			die("%s: call through an interface of this module (%s): dynamic dispatch is not resolved", fset.Position(c.Pos()), a.src(c.Fun))
		}
	}
	if s, ok := summaries[fn]; ok {
		if sig.Recv() != nil && s.writesRecv {
			sel := c.Fun.(*ast.SelectorExpr)
			a.emit(c, "call-writes-recv", sel.X, a.originOf(sel.X))
		}
		for i := range c.Args {
			if s.writesParam[i] {
				a.emit(c, "call-writes-arg"+strconv.Itoa(i), c.Args[i], a.originOf(c.Args[i]))
			}
			if s.capturesParam[i] {
				a.capture(c, c.Args[i])
			}
		}
		return
	}
	// external
	if sig.Recv() != nil {
		sel := c.Fun.(*ast.SelectorExpr)
		rt := sig.Recv().Type().String()
		switch {
		case strings.HasSuffix(rt, "math/big.Int"):
			switch fn.Name() {
			case "QuoRem", "DivMod", "GCD":
				die("%s: big.Int.%s writes several of its arguments: not summarised", fset.Position(c.Pos()), fn.Name())
			}
			if bigMutating[fn.Name()] {
				a.emit(c, "big.Int."+fn.Name(), sel.X, a.originOf(sel.X))
			} else if fn.Name() == "FillBytes" {
				a.emit(c, "big.Int.FillBytes", c.Args[0], a.originOf(c.Args[0]))
			} else if !bigPure[fn.Name()] {
				a.emit(c, "big.Int.?"+fn.Name(), sel.X, a.originOf(sel.X))
			}
		case strings.Contains(rt, "encoding/binary"):
			if strings.HasPrefix(fn.Name(), "Put") {
				a.emit(c, "binary.Put", c.Args[0], a.originOf(c.Args[0]))
			}
		case strings.HasSuffix(rt, "sync.Pool"):
			// Get/Put handled by the pool facts; any other method of a pool is library state
			if fn.Name() != "Get" && fn.Name() != "Put" {
				a.emit(c, "sync.Pool."+fn.Name(), sel.X, a.originOf(sel.X))
			}
		default:
			// hash.Hash.Write/Sum, io.Reader etc.: write their receiver (a hash state): record
			if fn.Name() == "Write" || fn.Name() == "Reset" {
				a.emit(c, "method."+fn.Name(), sel.X, a.originOf(sel.X))
			} else {
				// any other external method on a PACKAGE-LEVEL object (sync.Map.Store/Load, sync.Mutex.Lock,
				// atomic.Value, …) is treated as a write of that object: library state shared between calls
				o := a.originOf(sel.X)
				g := oset{}
				for k := range o {
					if strings.HasPrefix(string(k), "global:") {
						g.add(k)
					}
				}
				if len(g) > 0 && !strings.Contains(rt, "reflect.") {
					a.emit(c, "extern-method-on-global."+fn.Name(), sel.X, g)
				}
			}
		}
		return
	}
	full := fn.Pkg().Path() + "." + fn.Name()
	switch full {
	case "encoding/hex.Decode", "crypto/rand.Read":
		a.emit(c, full, c.Args[0], a.originOf(c.Args[0]))
	case "io.ReadFull":
		a.emit(c, full, c.Args[1], a.originOf(c.Args[1]))
	default:
		// any other function outside this module is assumed not to write through its arguments ONLY if it has been
		// reviewed: the list below is every external function the library calls today.  A new one (sort.Slice,
		// json.Unmarshal, fmt.Sscan, …) stops the analysis.
		if !strings.HasPrefix(fn.Pkg().Path(), modulePrefix) && !reviewedExtern[full] {
			if os.Getenv("EFFECTS_LIST_EXTERN") != "" {
				fmt.Fprintln(os.Stderr, "EXTERN", full)
				return
			}
			die("%s: call of %s, an external function that has not been reviewed for writes through its arguments", fset.Position(c.Pos()), full)
		}
	}
}

const modulePrefix = "github.com/iden3/go-iden3-crypto"

// external (non-method) functions the library calls, reviewed: none writes through an argument (hex.Decode,
// rand.Read and io.ReadFull, which do, are handled above)
var reviewedExtern = map[string]bool{
	"bytes.HasPrefix": true, "encoding/hex.DecodeString": true, "encoding/hex.EncodeToString": true, "errors.New": true,
	"fmt.Errorf": true, "fmt.Sprintf": true, "github.com/dchest/blake512.New": true,
	"golang.org/x/crypto/sha3.NewLegacyKeccak256": true, "math/big.NewInt": true, "math/bits.Add64": true,
	"math/bits.Len64": true, "math/bits.Mul64": true, "math/bits.Sub64": true, "reflect.TypeOf": true,
	"strconv.FormatUint": true, "strconv.Itoa": true, "strings.TrimPrefix": true,
}

func analyse(record bool) bool {
	changed := false
	var fns []*types.Func
	for f := range funcDecls {
		fns = append(fns, f)
	}
	sort.Slice(fns, func(i, j int) bool { return fns[i].FullName() < fns[j].FullName() })
	for _, f := range fns {
		fd := funcDecls[f]
		if fd.Body == nil {
			continue
		}
		pkg := funcPkg[f]
		sig := f.Type().(*types.Signature)
		a := &fnAnalysis{pkg: pkg, fd: fd, obj: f, env: map[*types.Var]oset{}, fenv: map[string]oset{}, params: map[*types.Var]int{}, record: record,
			sum: &summary{writesParam: map[int]bool{}, capturesParam: map[int]bool{}}}
		for i := 0; i < sig.Params().Len(); i++ {
			a.params[sig.Params().At(i)] = i
		}
		if sig.Recv() != nil {
			a.recv = sig.Recv()
			_, a.recvPtr = sig.Recv().Type().(*types.Pointer)
		}
		a.run()
		old := summaries[f]
		if old == nil || !sameSummary(old, a.sum) {
			changed = true
		}
		summaries[f] = a.sum
	}
	return changed
}

func sameSummary(a, b *summary) bool {
	if a.writesRecv != b.writesRecv || len(a.writesParam) != len(b.writesParam) || len(a.returns) != len(b.returns) {
		return false
	}
	for k := range a.writesParam {
		if !b.writesParam[k] {
			return false
		}
	}
	if len(a.capturesParam) != len(b.capturesParam) {
		return false
	}
	for k := range a.capturesParam {
		if !b.capturesParam[k] {
			return false
		}
	}
	for i := range a.returns {
		if strings.Join(a.returns[i].list(), ",") != strings.Join(b.returns[i].list(), ",") {
			return false
		}
	}
	return true
}

// pool discipline facts
func poolFacts() {
	for f, fd := range funcDecls {
		if fd.Body == nil {
			continue
		}
		pkg := funcPkg[f]
		info := pkg.TypesInfo
		// find  v := pool.Get().(*T)
		ast.Inspect(fd.Body, func(n ast.Node) bool {
			as, ok := n.(*ast.AssignStmt)
			if !ok || len(as.Lhs) != 1 || len(as.Rhs) != 1 {
				return true
			}
			ta, ok := as.Rhs[0].(*ast.TypeAssertExpr)
			if !ok {
				return true
			}
			c, ok := ta.X.(*ast.CallExpr)
			if !ok {
				return true
			}
			sel, ok := c.Fun.(*ast.SelectorExpr)
			if !ok || sel.Sel.Name != "Get" {
				return true
			}
			if t := info.TypeOf(sel.X); t == nil || !strings.HasSuffix(t.String(), "sync.Pool") {
				return true
			}
			id, ok := as.Lhs[0].(*ast.Ident)
			if !ok {
				return true
			}
			obj := info.Defs[id]
			if obj == nil {
				obj = info.Uses[id]
			}
			pu := poolUse{pkg: pkg.Types.Name(), fn: fd.Name.Name, line: fset.Position(as.Pos()).Line, putKind: "none"}
			var putPos token.Pos
			ast.Inspect(fd.Body, func(m ast.Node) bool {
				switch s := m.(type) {
				case *ast.DeferStmt:
					if isPut(info, s.Call, obj) {
						pu.putKind = "defer"
						pu.puts++
					}
				case *ast.ExprStmt:
					if cc, ok := s.X.(*ast.CallExpr); ok && isPut(info, cc, obj) {
						pu.puts++
						if pu.putKind != "defer" {
							pu.putKind = "stmt"
							putPos = s.End()
						}
					}
				case *ast.ReturnStmt:
					for _, r := range s.Results {
						if rid, ok := r.(*ast.Ident); ok && info.Uses[rid] == obj {
							pu.escapes++
						}
					}
				case *ast.AssignStmt:
					for i, r := range s.Rhs {
						if rid, ok := r.(*ast.Ident); ok && info.Uses[rid] == obj && i < len(s.Lhs) {
							if _, isId := s.Lhs[i].(*ast.Ident); !isId {
								pu.escapes++
							} else if v, ok := info.Uses[s.Lhs[i].(*ast.Ident)].(*types.Var); ok && isPkgLevel(v) {
								pu.escapes++
							}
						}
					}
				}
				return true
			})
			if pu.putKind == "stmt" {
				ast.Inspect(fd.Body, func(m ast.Node) bool {
					if rid, ok := m.(*ast.Ident); ok && info.Uses[rid] == obj && rid.Pos() > putPos {
						pu.usesAfterPut++
					}
					return true
				})
			}
			pools = append(pools, pu)
			return true
		})
	}
	sort.Slice(pools, func(i, j int) bool {
		if pools[i].pkg != pools[j].pkg {
			return pools[i].pkg < pools[j].pkg
		}
		return pools[i].line < pools[j].line
	})
}

func isPut(info *types.Info, c *ast.CallExpr, obj types.Object) bool {
	sel, ok := c.Fun.(*ast.SelectorExpr)
	if !ok || sel.Sel.Name != "Put" || len(c.Args) != 1 {
		return false
	}
	if t := info.TypeOf(sel.X); t == nil || !strings.HasSuffix(t.String(), "sync.Pool") {
		return false
	}
	id, ok := c.Args[0].(*ast.Ident)
	return ok && info.Uses[id] == obj
}

func leanOrigin(o string) string {
	switch {
	case o == "fresh":
		return ".fresh"
	case o == "pool":
		return ".pool"
	case o == "recv":
		return ".recv"
	case o == "unknown":
		return ".unknown"
	case strings.HasPrefix(o, "param:"):
		return "(.param " + o[6:] + ")"
	case strings.HasPrefix(o, "global:"):
		return "(.global " + strconv.Quote(o[7:]) + ")"
	}
	return ".unknown"
}

func main() {
	if len(os.Args) != 3 {
		die("usage: gen_effects <repo> <outdir>")
	}
	repo, out := os.Args[1], os.Args[2]
	cfg := &packages.Config{Mode: packages.NeedName | packages.NeedFiles | packages.NeedSyntax | packages.NeedTypes | packages.NeedTypesInfo | packages.NeedImports | packages.NeedDeps,
		Dir: repo, Tests: false, Env: append(os.Environ(), "GOFLAGS=-mod=mod", "GOPROXY=off", "GOSUMDB=off", "GOTOOLCHAIN=local")}
	pkgs, err := packages.Load(cfg, "./...")
	if err != nil {
		die("load: %v", err)
	}
	if len(pkgs) == 0 {
		die("no packages loaded")
	}
	var globals []string
	for _, p := range pkgs {
		if len(p.Errors) > 0 {
			die("package %s: %v", p.PkgPath, p.Errors[0])
		}
		fset = p.Fset
		for _, f := range p.Syntax {
			for _, d := range f.Decls {
				switch dd := d.(type) {
				case *ast.FuncDecl:
					if obj, ok := p.TypesInfo.Defs[dd.Name].(*types.Func); ok {
						funcDecls[obj] = dd
						funcPkg[obj] = p
					}
				case *ast.GenDecl:
					if dd.Tok == token.VAR {
						for _, s := range dd.Specs {
							// initialisers run at package initialisation and are not part of any function the analysis
							// walks: a method call on (something reachable from) a package-level variable there could
							// modify it unseen, so it is refused
							for _, val := range s.(*ast.ValueSpec).Values {
								ast.Inspect(val, func(n ast.Node) bool {
									if _, isLit := n.(*ast.FuncLit); isLit {
										return false
									}
									c, ok := n.(*ast.CallExpr)
									if !ok {
										return true
									}
									sel, ok := c.Fun.(*ast.SelectorExpr)
									if !ok {
										return true
									}
									root := ast.Expr(sel.X)
									for {
										switch r := root.(type) {
										case *ast.SelectorExpr:
											if id, ok := r.X.(*ast.Ident); ok {
												if _, isPkg := p.TypesInfo.Uses[id].(*types.PkgName); isPkg {
													root = r.Sel
													continue
												}
											}
											root = r.X
											continue
										case *ast.ParenExpr:
											root = r.X
											continue
										case *ast.StarExpr:
											root = r.X
											continue
										case *ast.IndexExpr:
											root = r.X
											continue
										}
										break
									}
									if id, ok := root.(*ast.Ident); ok {
										if v, ok := p.TypesInfo.Uses[id].(*types.Var); ok && v.Pkg() != nil && v.Parent() == v.Pkg().Scope() {
											die("%s: package-level initialiser calls a method on package-level variable %s", p.Fset.Position(c.Pos()), id.Name)
										}
									}
									return true
								})
							}
							for _, n := range s.(*ast.ValueSpec).Names {
								if n.Name != "_" {
									globals = append(globals, p.Types.Name()+"."+n.Name)
								}
							}
						}
					}
				}
			}
		}
	}
	asmWrites := map[string][]int{"MulBy3": {0}, "MulBy5": {0}, "MulBy13": {0}, "add": {0}, "sub": {0}, "neg": {0}, "double": {0},
		"mul": {0}, "fromMont": {0}, "reduce": {0}, "Butterfly": {0, 1}}
	for f, fd := range funcDecls {
		if fd.Body != nil {
			continue
		}
		w, ok := asmWrites[f.Name()]
		if !ok {
			die("function %s has no Go body (assembly) and no write summary in gen_effects", f.FullName())
		}
		sm := &summary{writesParam: map[int]bool{}, capturesParam: map[int]bool{}}
		for _, i := range w {
			sm.writesParam[i] = true
		}
		summaries[f] = sm
	}
	converged := false
	for i := 0; i < 40; i++ {
		if !analyse(false) {
			converged = true
			break
		}
	}
	if !converged {
		die("write summaries did not reach a fixed point")
	}
	sites = nil
	analyse(true)
	poolFacts()
	sort.Slice(sites, func(i, j int) bool {
		a, b := sites[i], sites[j]
		if a.pkg != b.pkg {
			return a.pkg < b.pkg
		}
		if a.fn != b.fn {
			return a.fn < b.fn
		}
		if a.line != b.line {
			return a.line < b.line
		}
		if a.what != b.what {
			return a.what < b.what
		}
		if a.kind != b.kind {
			return a.kind < b.kind
		}
		return strings.Join(a.origins, ",") < strings.Join(b.origins, ",")
	})
	sort.Strings(globals)

	var sb strings.Builder
	sb.WriteString("-- GENERATED by /verif/tools/effects (gen_effects) from /repo — do not edit; regenerated on every check run.\nimport I3.Model.Policy\nset_option maxRecDepth 100000\nnamespace I3.Gen.Effects\nopen I3.Policy\n\n")
	sb.WriteString("def sites : List Site := [\n")
	for i, s := range sites {
		var os_ []string
		for _, o := range s.origins {
			os_ = append(os_, leanOrigin(o))
		}
		fmt.Fprintf(&sb, "  { pkg := %s, fn := %s, line := %d, kind := %s, what := %s, origins := [%s], exported := %v }",
			strconv.Quote(s.pkg), strconv.Quote(s.fn), s.line, strconv.Quote(s.kind), strconv.Quote(s.what), strings.Join(os_, ", "), s.exported)
		if i+1 < len(sites) {
			sb.WriteString(",")
		}
		sb.WriteString("\n")
	}
	sb.WriteString("]\n\n")
	sb.WriteString("def poolUses : List PoolUse := [\n")
	for i, p := range pools {
		fmt.Fprintf(&sb, "  { pkg := %s, fn := %s, line := %d, putKind := %s, puts := %d, usesAfterPut := %d, escapes := %d }",
			strconv.Quote(p.pkg), strconv.Quote(p.fn), p.line, strconv.Quote(p.putKind), p.puts, p.usesAfterPut, p.escapes)
		if i+1 < len(pools) {
			sb.WriteString(",")
		}
		sb.WriteString("\n")
	}
	sb.WriteString("]\n\n")
	sb.WriteString("def globals : List String := [")
	for i, g := range globals {
		if i > 0 {
			sb.WriteString(", ")
		}
		sb.WriteString(strconv.Quote(g))
	}
	sb.WriteString("]\n\nend I3.Gen.Effects\n")
	path := filepath.Join(out, "Effects.lean")
	old, err := os.ReadFile(path)
	if err != nil || string(old) != sb.String() {
		if err := os.WriteFile(path, []byte(sb.String()), 0o644); err != nil {
			die("write: %v", err)
		}
	}
}
