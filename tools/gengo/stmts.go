package main

import (
	"fmt"
	"go/ast"
	"go/token"
	"go/types"
	"sort"
	"strings"
)

// continuation of a statement list
type cont struct {
	fall    func() string            // term when control reaches the end of the list
	retTerm func(term string) string // term for `return <the function's full result tuple>`; nil: no return allowed here
	cnt     func() string            // term for `continue` (innermost loop); nil outside loops
	top     bool                     // a `return` here leaves the function (not inside a fold)
}

func (t *tr) doRet(n ast.Node, k cont, vals []string) string {
	if k.retTerm == nil {
		t.fail(n, "return in a position where the translation cannot express it")
	}
	return k.retTerm(t.retTuple(vals))
}

func indent(s string, n int) string {
	pad := strings.Repeat("  ", n)
	lines := strings.Split(s, "\n")
	for i, l := range lines {
		if l != "" {
			lines[i] = pad + l
		}
	}
	return strings.Join(lines, "\n")
}

func (t *tr) flush() string {
	s := ""
	for _, l := range t.pre {
		s += l + "\n"
	}
	t.pre = nil
	return s
}

// ---------------------------------------------------------------------------------------------------------
// which outer variables does a block assign?  (objects declared outside the block, written inside)

type writeSet struct {
	vars  map[*types.Var]bool
	whole map[*types.Var]bool // the variable itself is assigned (x = …, x++)
	deep  map[*types.Var]bool // written through (x.f = …, x[i] = …, *x = …, x.Set(…), f(x) with f writing)
}

func (t *tr) writesOf(n ast.Node) writeSet { return t.writesOfOpt(n, false) }

// writesOfOpt: with keepDeclared the variables declared inside n stay in the set (function-level analysis)
func (t *tr) writesOfOpt(n ast.Node, keepDeclared bool) writeSet {
	ws := writeSet{map[*types.Var]bool{}, map[*types.Var]bool{}, map[*types.Var]bool{}}
	declared := map[*types.Var]bool{}
	add := func(e ast.Expr) { // assignment target
		v := t.rootVar(e)
		if v == nil {
			return
		}
		ws.vars[v] = true
		if id, ok := ast.Unparen(e).(*ast.Ident); ok && t.varOf(id) == v {
			ws.whole[v] = true
		} else {
			ws.deep[v] = true
		}
	}
	addDeep := func(e ast.Expr) { // written through by a call
		v := t.rootVar(e)
		if v == nil {
			return
		}
		ws.vars[v] = true
		ws.deep[v] = true
	}
	ast.Inspect(n, func(m ast.Node) bool {
		switch x := m.(type) {
		case *ast.AssignStmt:
			for _, l := range x.Lhs {
				if id, ok := l.(*ast.Ident); ok && x.Tok == token.DEFINE {
					if v, ok := t.info.Defs[id].(*types.Var); ok && v != nil {
						declared[v] = true
						continue
					}
				}
				add(l)
			}
		case *ast.IncDecStmt:
			add(x.X)
		case *ast.DeclStmt:
			if gd, ok := x.Decl.(*ast.GenDecl); ok {
				for _, sp := range gd.Specs {
					if vs, ok := sp.(*ast.ValueSpec); ok {
						for _, id := range vs.Names {
							if v, ok := t.info.Defs[id].(*types.Var); ok {
								declared[v] = true
							}
						}
					}
				}
			}
		case *ast.RangeStmt:
			for _, e := range []ast.Expr{x.Key, x.Value} {
				if id, ok := e.(*ast.Ident); ok && x.Tok == token.DEFINE {
					if v, ok := t.info.Defs[id].(*types.Var); ok && v != nil {
						declared[v] = true
					}
				}
			}
		case *ast.CallExpr:
			for _, e := range t.callWrites(x) {
				addDeep(e)
			}
		}
		return true
	})
	if keepDeclared {
		return ws
	}
	for v := range declared {
		delete(ws.vars, v)
		delete(ws.whole, v)
		delete(ws.deep, v)
	}
	return ws
}

// callWrites: the argument/receiver expressions a call writes through
func (t *tr) callWrites(c *ast.CallExpr) []ast.Expr {
	if tv, ok := t.info.Types[c.Fun]; ok && tv.IsType() {
		return nil
	}
	if id, ok := c.Fun.(*ast.Ident); ok {
		if _, isB := t.info.ObjectOf(id).(*types.Builtin); isB {
			if id.Name == "copy" {
				return []ast.Expr{c.Args[0]}
			}
			return nil
		}
	}
	fn := t.calleeFunc(c)
	if fn == nil {
		return nil
	}
	if fn.Pkg() != nil && fn.Pkg().Path() == "encoding/hex" && fn.Name() == "Decode" {
		return []ast.Expr{c.Args[0]}
	}
	if fn.Pkg() != nil && fn.Pkg().Path() == "encoding/binary" && strings.HasPrefix(fn.Name(), "Put") {
		return []ast.Expr{c.Args[0]}
	}
	sig := fn.Type().(*types.Signature)
	if sig.Recv() != nil && (isBigLib(sig.Recv().Type()) || isElem(sig.Recv().Type())) && !translatedHere(t, fn) {
		sel := c.Fun.(*ast.SelectorExpr)
		name := fn.Name()
		sel = &ast.SelectorExpr{X: t.chainRoot(sel.X), Sel: sel.Sel}
		if isElem(sig.Recv().Type()) && curLimb {
			if _, ok := limbPrims[name]; ok {
				return []ast.Expr{sel.X}
			}
			return nil
		}
		if isBigLib(sig.Recv().Type()) {
			if name == "FillBytes" {
				return []ast.Expr{c.Args[0]}
			}
			if _, ok := bigPure[name]; ok {
				return nil
			}
			return []ast.Expr{sel.X}
		}
		if _, ok := elemPure[name]; ok {
			return nil
		}
		if _, ok := elemArgMut[name]; ok {
			return []ast.Expr{c.Args[0]}
		}
		return []ast.Expr{sel.X}
	}
	if sig.Recv() != nil && fn.Pkg() != nil && (fn.Pkg().Path() == "io" || fn.Pkg().Path() == "hash") && fn.Name() == "Write" {
		return []ast.Expr{c.Fun.(*ast.SelectorExpr).X}
	}
	fi, ok := t.calleeInfo(fn)
	if !ok {
		return nil
	}
	var argExprs []ast.Expr
	if fi.hasRecv {
		argExprs = append(argExprs, t.chainRoot(c.Fun.(*ast.SelectorExpr).X))
	}
	argExprs = append(argExprs, c.Args...)
	var r []ast.Expr
	for i, m := range fi.mutated {
		if m && i < len(argExprs) {
			r = append(r, argExprs[i])
		}
	}
	return r
}

func (t *tr) sortedVars(m map[*types.Var]bool) []*types.Var {
	var vs []*types.Var
	for v := range m {
		if isGlobal(v) && !(t.initMode && t.initVars[v]) {
			panic(fail{fmt.Sprintf("%s: write to package-level variable %s", fset.Position(v.Pos()), v.Name())})
		}
		vs = append(vs, v)
	}
	sort.Slice(vs, func(i, j int) bool { return vs[i].Pos() < vs[j].Pos() })
	return vs
}

func (t *tr) initOrder() []*types.Var {
	var vs []*types.Var
	for v := range t.initVars {
		vs = append(vs, v)
	}
	sort.Slice(vs, func(i, j int) bool {
		pi, pj := fset.Position(vs[i].Pos()), fset.Position(vs[j].Pos())
		if pi.Filename != pj.Filename {
			return pi.Filename < pj.Filename
		}
		return pi.Offset < pj.Offset
	})
	return vs
}

func (t *tr) tuple(vs []*types.Var) string {
	if len(vs) == 0 {
		return "()"
	}
	var ns []string
	for _, v := range vs {
		ns = append(ns, t.name(v))
	}
	if len(ns) == 1 {
		return ns[0]
	}
	return "(" + strings.Join(ns, ", ") + ")"
}

func (t *tr) varLeanType(v *types.Var) string {
	if t.opt[v] {
		return "(Option " + leanType(v.Type()) + ")"
	}
	return leanType(v.Type())
}

func (t *tr) tupleType(vs []*types.Var) string {
	if len(vs) == 0 {
		return "Unit"
	}
	var ns []string
	for _, v := range vs {
		ns = append(ns, t.varLeanType(v))
	}
	if len(ns) == 1 {
		return ns[0]
	}
	return "(" + strings.Join(ns, " × ") + ")"
}

func hasReturn(n ast.Node) bool {
	found := false
	ast.Inspect(n, func(m ast.Node) bool {
		if _, ok := m.(*ast.ReturnStmt); ok {
			found = true
		}
		if c, ok := m.(*ast.CallExpr); ok {
			if id, ok := c.Fun.(*ast.Ident); ok && id.Name == "panic" {
				found = true
			}
		}
		if _, ok := m.(*ast.FuncLit); ok {
			return false
		}
		return !found
	})
	return found
}

// hasWhile: an unbounded loop somewhere inside (its exhaustion is a return)
func hasWhile(n ast.Node) bool {
	found := false
	ast.Inspect(n, func(m ast.Node) bool {
		if f, ok := m.(*ast.ForStmt); ok && isWhile(f) {
			found = true
		}
		return !found
	})
	return found
}

func isWhile(f *ast.ForStmt) bool { return f.Init == nil && f.Post == nil }

// hasContinue: a `continue` that belongs to the loop whose body contains n (not to a nested loop)
func hasContinue(n ast.Node) bool {
	found := false
	ast.Inspect(n, func(m ast.Node) bool {
		switch x := m.(type) {
		case *ast.ForStmt, *ast.RangeStmt:
			if m != n {
				return false
			}
		case *ast.BranchStmt:
			if x.Tok == token.CONTINUE {
				found = true
			}
		}
		return !found
	})
	return found
}

func hasJump(n ast.Node) bool { return hasReturn(n) || hasContinue(n) || hasWhile(n) }

// in the checked variant a requirement may cut the computation anywhere: every branch is a continuation
func (t *tr) jump(n ast.Node) bool { return t.chk || hasJump(n) }

// ---------------------------------------------------------------------------------------------------------

func (t *tr) stmts(list []ast.Stmt, k cont) string {
	if len(list) == 0 {
		return k.fall()
	}
	s, rest := list[0], list[1:]
	switch x := s.(type) {
	case *ast.ReturnStmt:
		var vals []string
		if len(x.Results) == 0 && t.nres > 0 {
			// bare return: the named results
			for _, v := range t.namedRes {
				vals = append(vals, t.name(v))
			}
			return t.flush() + t.doRet(x, k, vals)
		}
		if len(x.Results) == 1 && t.nres > 1 {
			// return f(...) with several results
			c, ok := x.Results[0].(*ast.CallExpr)
			if !ok {
				t.fail(x, "unsupported multi-value return")
			}
			vals = t.call(c, t.nres)
		} else {
			for i, r := range x.Results {
				vals = append(vals, t.retVal(r, i))
			}
		}
		if t.f.nilRes {
			if len(x.Results) == 1 && t.isNil(x.Results[0]) {
				vals = []string{"none"}
			} else {
				vals = []string{"(some " + vals[0] + ")"}
			}
		}
		pre := t.flush()
		return pre + t.doRet(x, k, vals)
	case *ast.BranchStmt:
		if x.Tok != token.CONTINUE || x.Label != nil || k.cnt == nil {
			t.fail(x, "unsupported branch statement %s", x.Tok)
		}
		return t.flush() + k.cnt()
	case *ast.BlockStmt:
		return t.stmts(append(append([]ast.Stmt{}, x.List...), rest...), k)
	case *ast.EmptyStmt:
		return t.stmts(rest, k)
	case *ast.IfStmt:
		return t.ifStmt(x, rest, k)
	case *ast.ForStmt:
		return t.forStmt(x, rest, k)
	case *ast.RangeStmt:
		return t.rangeStmt(x, rest, k)
	case *ast.AssignStmt:
		t.assign(x)
	case *ast.IncDecStmt:
		one := "(1 : " + leanType(t.typeOf(x.X)) + ")"
		if basicKind(t.typeOf(x.X)) == types.Uint64 {
			fn := "I3.Go.u64add"
			if x.Tok == token.DEC {
				fn = "I3.Go.u64sub"
			}
			t.assignTo(x.X, "("+fn+" "+t.expr(x.X)+" "+one+")")
			break
		}
		if leanType(t.typeOf(x.X)) != "Int" {
			t.fail(x, "++/-- on %s", leanType(t.typeOf(x.X)))
		}
		op := " + "
		if x.Tok == token.DEC {
			op = " - "
		}
		t.assignTo(x.X, "("+t.expr(x.X)+op+one+")")
	case *ast.DeclStmt:
		gd, ok := x.Decl.(*ast.GenDecl)
		if ok && gd.Tok == token.CONST {
			// a local constant: go/types folds every use (t.expr emits the value of a constant expression), nothing to bind
			break
		}
		if !ok || gd.Tok != token.VAR {
			t.fail(x, "unsupported declaration")
		}
		for _, sp := range gd.Specs {
			vs := sp.(*ast.ValueSpec)
			for i, id := range vs.Names {
				v := t.info.Defs[id].(*types.Var)
				val := "(default : " + t.varLeanType(v) + ")"
				if !t.opt[v] {
					val = zeroValue(v.Type())
				}
				if len(vs.Values) > i {
					val = t.expr(vs.Values[i])
					if t.opt[v] {
						val = "(some " + val + ")"
					}
				}
				t.pre = append(t.pre, "let "+t.name(v)+" : "+t.varLeanType(v)+" := "+val)
			}
		}
	case *ast.DeferStmt:
		f := t.calleeFunc(x.Call)
		if f == nil || f.Name() != "Put" || f.Type().(*types.Signature).Recv() == nil || !isNamed(f.Type().(*types.Signature).Recv().Type(), "sync", "Pool") {
			t.fail(x, "defer (only `defer pool.Put(x)` is supported)")
		}
	case *ast.ExprStmt:
		c, ok := x.X.(*ast.CallExpr)
		if !ok {
			t.fail(x, "unsupported expression statement")
		}
		if id, ok := c.Fun.(*ast.Ident); ok && id.Name == "copy" {
			if _, isB := t.info.ObjectOf(id).(*types.Builtin); isB {
				t.copyStmt(c)
				break
			}
		}
		if id, ok := c.Fun.(*ast.Ident); ok && id.Name == "panic" {
			if _, isB := t.info.ObjectOf(id).(*types.Builtin); isB {
				// no value: the translation yields `I3.Go.panic` (= default); theorems show the branch dead
				if k.retTerm == nil {
					t.fail(x, "panic in a position from which the function cannot return")
				}
				if t.chk {
					return t.flush() + k.retTerm("false")
				}
				return t.flush() + k.retTerm("(I3.Go.panic : "+t.retTy+")")
			}
		}
		t.call(c, 0)
	case *ast.TypeSwitchStmt:
		// translated one case at a time (translateFuncMode): only the clause selected for this definition
		if t.caseClause == nil || x != soleTypeSwitch(t.f.decl) {
			t.fail(s, "type switch in an unsupported position")
		}
		return t.stmts(append(append([]ast.Stmt{}, t.caseClause.Body...), rest...), k)
	default:
		t.fail(s, "unsupported statement %T", s)
	}
	pre := t.flush()
	return pre + t.stmts(rest, k)
}

func (t *tr) retVal(r ast.Expr, i int) string {
	v := t.expr(r)
	if t.f.obj != nil {
		res := t.f.obj.Type().(*types.Signature).Results()
		if i < res.Len() && isAny(res.At(i).Type()) {
			return t.toAny(r, v)
		}
	}
	return v
}

func (t *tr) copyStmt(c *ast.CallExpr) {
	dst, src := c.Args[0], c.Args[1]
	srcV := t.expr(src)
	switch d := ast.Unparen(dst).(type) {
	case *ast.SliceExpr:
		base := t.expr(d.X)
		lo, hi := "(0 : Int)", "(I3.Go.len "+base+")"
		if d.Low != nil {
			lo = t.expr(d.Low)
		}
		if d.High != nil {
			hi = t.expr(d.High)
		}
		t.require("(I3.Go.sliceOk " + base + " " + lo + " " + hi + ")")
		t.assignTo(d.X, "(I3.Go.copyInto "+base+" "+lo+" "+hi+" "+srcV+")")
	default:
		base := t.expr(dst)
		t.assignTo(dst, "(I3.Go.copyInto "+base+" (0 : Int) (I3.Go.len "+base+") "+srcV+")")
	}
}

func (t *tr) assign(x *ast.AssignStmt) {
	switch x.Tok {
	case token.ASSIGN, token.DEFINE:
	default:
		// op-assign
		var op token.Token
		switch x.Tok {
		case token.AND_ASSIGN:
			op = token.AND
		case token.OR_ASSIGN:
			op = token.OR
		case token.XOR_ASSIGN:
			op = token.XOR
		case token.ADD_ASSIGN:
			op = token.ADD
		case token.SUB_ASSIGN:
			op = token.SUB
		case token.MUL_ASSIGN:
			op = token.MUL
		case token.SHR_ASSIGN:
			op = token.SHR
		case token.SHL_ASSIGN:
			op = token.SHL
		default:
			t.fail(x, "unsupported assignment operator %s", x.Tok)
		}
		be := &ast.BinaryExpr{X: x.Lhs[0], Op: op, Y: x.Rhs[0]}
		// type info for the synthetic node: reuse operand types
		v := t.binaryWithTypes(be, t.typeOf(x.Lhs[0]))
		t.assignTo(x.Lhs[0], v)
		return
	}
	bind := func(l ast.Expr, v string, optDirect bool) {
		if id, ok := l.(*ast.Ident); ok {
			if id.Name == "_" {
				return
			}
			if x.Tok == token.DEFINE {
				if nv, ok := t.info.Defs[id].(*types.Var); ok && nv != nil {
					if t.opt[nv] && !optDirect {
						v = "(some " + v + ")"
					}
					t.pre = append(t.pre, "let "+t.name(nv)+" := "+v)
					return
				}
			}
			if vr := t.varOf(id); vr != nil && t.opt[vr] && optDirect {
				if isGlobal(vr) {
					t.fail(l, "write to package-level variable")
				}
				t.pre = append(t.pre, "let "+t.name(vr)+" := "+v)
				return
			}
		}
		t.assignTo(l, v)
	}
	if len(x.Lhs) == len(x.Rhs) {
		if len(x.Lhs) > 1 {
			// parallel assignment: evaluate all right sides first
			for _, l := range x.Lhs {
				if _, ok := l.(*ast.Ident); !ok {
					// Go evaluates index and pointer operands of the left side before any assignment
					t.fail(x, "parallel assignment to an element or field")
				}
			}
			var vals []string
			for _, r := range x.Rhs {
				tmp := t.fresh("v")
				t.pre = append(t.pre, "let "+tmp+" := "+t.expr(r))
				vals = append(vals, tmp)
			}
			for i, l := range x.Lhs {
				bind(l, vals[i], false)
			}
			return
		}
		l, r := x.Lhs[0], x.Rhs[0]
		t.checkAlias(x, l, r)
		// nil-able targets
		if id, ok := l.(*ast.Ident); ok {
			var lv *types.Var
			if x.Tok == token.DEFINE {
				lv, _ = t.info.Defs[id].(*types.Var)
			}
			if lv == nil {
				lv = t.varOf(id)
			}
			if lv != nil && t.opt[lv] {
				if t.isNil(r) {
					bind(l, "none", true)
					return
				}
				if rid, ok := r.(*ast.Ident); ok && t.varOf(rid) != nil && t.opt[t.varOf(rid)] {
					bind(l, t.name(t.varOf(rid)), true)
					return
				}
				t.optResult = ""
				v := t.expr(r)
				if t.optResult != "" {
					bind(l, t.optResult, true)
					t.optResult = ""
					return
				}
				bind(l, v, false)
				return
			}
		}
		bind(l, t.expr(r), false)
		return
	}
	if len(x.Rhs) == 1 {
		if ta, ok := x.Rhs[0].(*ast.TypeAssertExpr); ok && len(x.Lhs) == 2 && ta.Type != nil {
			if !isAny(t.typeOf(ta.X)) {
				t.fail(x, "type assertion on a non-empty interface")
			}
			var fn string
			switch leanType(t.typeOf(ta.Type)) {
			case "(List UInt8)":
				if _, isSl := types.Unalias(t.typeOf(ta.Type)).Underlying().(*types.Slice); !isSl {
					t.fail(x, "type assertion to an array type")
				}
				fn = "I3.Go.Any.asBytes"
			case "String":
				fn = "I3.Go.Any.asString"
			default:
				t.fail(x, "type assertion to %s", t.typeOf(ta.Type))
			}
			v, okv := t.fresh("v"), t.fresh("ok")
			t.pre = append(t.pre, "let ("+v+", "+okv+") := "+fn+" "+t.expr(ta.X))
			bind(x.Lhs[0], v, false)
			bind(x.Lhs[1], okv, false)
			return
		}
		c, ok := x.Rhs[0].(*ast.CallExpr)
		if !ok {
			t.fail(x, "unsupported multi-value assignment")
		}
		vals := t.call(c, len(x.Lhs))
		for i, l := range x.Lhs {
			bind(l, vals[i], false)
		}
		return
	}
	t.fail(x, "unsupported assignment shape")
}

// checkAlias: `x := <path>` makes x a second name for a pointer or slice that lives in another variable; with value
// semantics a later write through x would be lost for the other name, so such a function is not translated
func (t *tr) checkAlias(n ast.Node, l, r ast.Expr) {
	id, ok := l.(*ast.Ident)
	if !ok || id.Name == "_" {
		return
	}
	lv, _ := t.info.Defs[id].(*types.Var)
	if lv == nil {
		lv = t.varOf(id)
	}
	if lv == nil || !t.fnDeep[lv] {
		return
	}
	switch types.Unalias(lv.Type()).Underlying().(type) {
	case *types.Pointer, *types.Slice, *types.Map:
	default:
		return
	}
	switch rr := ast.Unparen(r).(type) {
	case *ast.Ident, *ast.SelectorExpr, *ast.IndexExpr, *ast.SliceExpr, *ast.StarExpr:
		if rv := t.rootVar(rr); rv != nil && rv != lv {
			t.fail(n, "%s is a second name for storage reachable from %s and is written through", lv.Name(), rv.Name())
		}
	case *ast.UnaryExpr:
		if rv := t.rootVar(rr); rr.Op == token.AND && rv != nil && rv != lv {
			t.fail(n, "%s points into %s and is written through", lv.Name(), rv.Name())
		}
	}
}

func (t *tr) binaryWithTypes(be *ast.BinaryExpr, ty types.Type) string {
	a, b := t.expr(be.X), t.expr(be.Y)
	if be.Op == token.SHL || be.Op == token.SHR {
		b = t.shiftCount(be.Y)
	}
	lt := leanType(ty)
	switch lt {
	case "UInt8":
		switch be.Op {
		case token.AND:
			return "(" + a + " &&& " + b + ")"
		case token.OR:
			return "(" + a + " ||| " + b + ")"
		case token.XOR:
			return "(" + a + " ^^^ " + b + ")"
		}
	case "Int":
		switch be.Op {
		case token.ADD:
			return "(" + a + " + " + b + ")"
		case token.SUB:
			return "(" + a + " - " + b + ")"
		case token.MUL:
			return "(" + a + " * " + b + ")"
		}
	case "Nat":
		switch be.Op {
		case token.AND:
			return "(" + a + " &&& " + b + ")"
		case token.OR:
			return "(" + a + " ||| " + b + ")"
		case token.XOR:
			return "(" + a + " ^^^ " + b + ")"
		case token.SHR:
			return "(" + a + " >>> " + b + ")"
		case token.SHL:
			if basicKind(ty) == types.Uint64 {
				return "(I3.Go.u64shl " + a + " " + b + ")"
			}
		}
	}
	t.fail(be.X, "unsupported op-assignment on %s", lt)
	return ""
}

func (t *tr) ifStmt(x *ast.IfStmt, rest []ast.Stmt, k cont) string {
	out := ""
	if x.Init != nil {
		switch in := x.Init.(type) {
		case *ast.AssignStmt:
			t.assign(in)
		default:
			t.fail(x, "unsupported if-initialiser")
		}
		out += t.flush()
	}
	cond := t.expr(x.Cond)
	out += t.flush()
	var elseList []ast.Stmt
	if x.Else != nil {
		switch e := x.Else.(type) {
		case *ast.BlockStmt:
			elseList = e.List
		case *ast.IfStmt:
			elseList = []ast.Stmt{e}
		}
	}
	if t.jump(x.Body) || (x.Else != nil && t.jump(x.Else)) {
		// the rest of the enclosing list is the continuation of both branches
		a := t.stmts(append(append([]ast.Stmt{}, x.Body.List...), rest...), k)
		b := t.stmts(append(append([]ast.Stmt{}, elseList...), rest...), k)
		return out + "if " + cond + " then (\n" + indent(a, 1) + ")\nelse (\n" + indent(b, 1) + ")"
	}
	// no return inside: the branches only assign
	ws := t.writesOf(x.Body)
	if x.Else != nil {
		w2 := t.writesOf(x.Else)
		for v := range w2.vars {
			ws.vars[v] = true
		}
	}
	vs := t.sortedVars(ws.vars)
	if len(vs) == 0 {
		return out + t.stmts(rest, k)
	}
	tup := t.tuple(vs)
	kk := cont{fall: func() string { return tup }}
	a := t.stmts(x.Body.List, kk)
	b := t.stmts(elseList, kk)
	out += "let " + tup + " : " + t.tupleType(vs) + " := if " + cond + " then (\n" + indent(a, 1) + ")\nelse (\n" + indent(b, 1) + ")\n"
	return out + t.stmts(rest, k)
}

// checkBound: the loop bound must be loop-invariant (element-wise writes keep a length: allowed under len(·))
func (t *tr) checkBound(node ast.Node, ws writeSet, boundExprs []ast.Expr) {
	// the bound must be loop-invariant
	for _, be := range boundExprs {
		ast.Inspect(be, func(m ast.Node) bool {
			if id, ok := m.(*ast.Ident); ok {
				if v := t.varOf(id); v != nil && ws.vars[v] && ws.whole[v] {
					t.fail(node, "loop bound depends on %s, which the body reassigns", v.Name())
				}
			}
			return true
		})
		for v := range ws.vars {
			if !ws.whole[v] {
				// element-wise writes keep the length: allowed only under len(·)
				bad := false
				ast.Inspect(be, func(m ast.Node) bool {
					if c, ok := m.(*ast.CallExpr); ok {
						if id, ok := c.Fun.(*ast.Ident); ok && id.Name == "len" && len(c.Args) == 1 {
							// an element-wise write keeps the length of the variable itself, not of a field,
							// an element or the target of a pointer inside it
							if _, plain := ast.Unparen(c.Args[0]).(*ast.Ident); plain {
								return false
							}
						}
					}
					if id, ok := m.(*ast.Ident); ok && t.varOf(id) == v {
						bad = true
					}
					return true
				})
				if bad {
					t.fail(node, "loop bound reads %s, which the body writes", v.Name())
				}
			}
		}
	}
}

// loop with index variable iv over [lo, hi); `bind` are extra lets at the start of the body
func (t *tr) loop(node ast.Node, fn string, iv string, lo, hi string, bind []string, body *ast.BlockStmt, rest []ast.Stmt, k cont, boundExprs []ast.Expr) string {
	ws := t.writesOf(body)
	t.checkBound(node, ws, boundExprs)
	vs := t.sortedVars(ws.vars)
	tup, tty := t.tuple(vs), t.tupleType(vs)
	out := t.flush()
	bindS := ""
	for _, b := range bind {
		bindS += b + "\n"
	}
	kk := cont{fall: func() string { return tup }, cnt: func() string { return tup }}
	b := t.stmts(body.List, kk)
	out += "let " + tup + " : " + tty + " := " + fn + " (σ := " + tty + ") " + lo + " " + hi + " (fun " + iv + " " + tup + " =>\n" + indent(bindS+b, 2) + ") " + tup + "\n"
	return out + t.stmts(rest, k)
}


func (t *tr) loopGeneric(node ast.Node, iv string, lo, hi string, bind []string, body *ast.BlockStmt, rest []ast.Stmt, k cont, boundExprs []ast.Expr) string {
	fn := t.loopFn
	t.loopFn = ""
	if fn == "" {
		fn = "I3.Go.forRange"
	}
	if !t.chk && !hasReturn(body) && !hasWhile(body) {
		return t.loop(node, fn, iv, lo, hi, bind, body, rest, k, boundExprs)
	}
	if fn != "I3.Go.forRange" && !t.chk {
		t.fail(node, "return inside a downward or unsigned loop")
	}
	ws := t.writesOf(body)
	if t.chk {
		t.checkBound(node, ws, boundExprs)
	} else {
		for _, be := range boundExprs {
			ast.Inspect(be, func(m ast.Node) bool {
				if id, ok := m.(*ast.Ident); ok {
					if v := t.varOf(id); v != nil && ws.vars[v] {
						t.fail(node, "loop bound reads %s, which the body writes", v.Name())
					}
				}
				return true
			})
		}
	}
	vs := t.sortedVars(ws.vars)
	tup, tty := t.tuple(vs), t.tupleType(vs)
	out := t.flush()
	bindS := ""
	for _, b := range bind {
		bindS += b + "\n"
	}
	noRet := func() string { return "((none : Option " + t.retTy + "), " + tup + ")" }
	kk := cont{
		fall:    noRet,
		cnt:     noRet,
		retTerm: func(term string) string { return "((some " + term + " : Option " + t.retTy + "), " + tup + ")" },
	}
	b := t.stmts(body.List, kk)
	r := t.fresh("ret")
	out += "let (" + r + ", " + tup + ") : (Option " + t.retTy + ") × " + tty + " := " + fn + "Ret (ρ := " + t.retTy + ") (σ := " + tty + ") " + lo + " " + hi + " (fun " + iv + " " + tup + " =>\n" + indent(bindS+b, 2) + ") " + tup + "\n"
	restS := t.stmts(rest, k)
	// a return inside the loop returns from the function
	if !k.top && k.retTerm == nil {
		t.fail(node, "return inside a loop from which the function cannot return")
	}
	out += "match " + r + " with\n| some rv => " + k.retTerm("rv") + "\n| none => (\n" + indent(restS, 1) + ")"
	return out
}

// whileStmt: `for cond { body }` / `for { body }` with fuel; exhaustion returns (default, terminated = false)
func (t *tr) whileStmt(x *ast.ForStmt, rest []ast.Stmt, k cont) string {
	if !t.f.fuel {
		t.fail(x, "internal: unbounded loop in a function not marked as fuelled")
	}
	if k.retTerm == nil {
		t.fail(x, "unbounded loop in a position from which the function cannot return")
	}
	ws := t.writesOf(x.Body)
	vs := t.sortedVars(ws.vars)
	tup, tty := t.tuple(vs), t.tupleType(vs)
	out := t.flush()
	cond := "true"
	if x.Cond != nil {
		cond = t.expr(x.Cond)
		if len(t.pre) > 0 {
			t.fail(x, "loop condition with side effects")
		}
	}
	noRet := func() string { return "((none : Option " + t.retTy + "), " + tup + ")" }
	kk := cont{fall: noRet, cnt: noRet,
		retTerm: func(term string) string { return "((some " + term + " : Option " + t.retTy + "), " + tup + ")" }}
	b := t.stmts(x.Body.List, kk)
	ex, r := t.fresh("exhausted"), t.fresh("ret")
	out += fmt.Sprintf("let (%s, %s, %s) : Bool × (Option %s) × %s := I3.Go.whileFuel (ρ := %s) (σ := %s) %d (fun %s => %s) (fun %s =>\n%s) %s\n",
		ex, r, tup, t.retTy, tty, t.retTy, tty, whileFuel, tup, cond, tup, indent(b, 2), tup)
	restS := t.stmts(rest, k)
	diverged := k.retTerm("(default, false)")
	if t.chk {
		diverged = k.retTerm("false") // fuel exhausted: not shown to terminate
	}
	out += "if " + ex + " then (\n" + indent(diverged, 1) + ")\nelse match " + r + " with\n| some rv => " + k.retTerm("rv") + "\n| none => (\n" + indent(restS, 1) + ")"
	return out
}

func (t *tr) forStmt(x *ast.ForStmt, rest []ast.Stmt, k cont) string {
	if isWhile(x) {
		return t.whileStmt(x, rest, k)
	}
	// for i := hi; i >= lo; i--
	if post, ok := x.Post.(*ast.IncDecStmt); ok && post.Tok == token.DEC {
		in, ok := x.Init.(*ast.AssignStmt)
		if !ok || in.Tok != token.DEFINE || len(in.Lhs) != 1 {
			t.fail(x, "unsupported loop form (init)")
		}
		iv := t.info.Defs[in.Lhs[0].(*ast.Ident)].(*types.Var)
		cond, ok := x.Cond.(*ast.BinaryExpr)
		if !ok || cond.Op != token.GEQ {
			t.fail(x, "unsupported downward loop (condition)")
		}
		if id, ok := cond.X.(*ast.Ident); !ok || t.varOf(id) != iv {
			t.fail(x, "unsupported downward loop (condition variable)")
		}
		if id, ok := post.X.(*ast.Ident); !ok || t.varOf(id) != iv {
			t.fail(x, "unsupported downward loop (post variable)")
		}
		if ws := t.writesOf(x.Body); ws.vars[iv] {
			t.fail(x, "loop variable assigned in the body")
		}
		if leanType(iv.Type()) != "Int" {
			t.fail(x, "downward loop variable is not an int")
		}
		hi := t.expr(in.Rhs[0])
		lo := t.expr(cond.Y)
		t.loopFn = "I3.Go.forDown"
		return t.loopGeneric(x, t.name(iv), hi, lo, nil, x.Body, rest, k, []ast.Expr{in.Rhs[0], cond.Y})
	}
	// for i := lo; i < hi; i++
	in, ok := x.Init.(*ast.AssignStmt)
	if !ok || in.Tok != token.DEFINE || len(in.Lhs) != 1 {
		t.fail(x, "unsupported loop form (init)")
	}
	iv := t.info.Defs[in.Lhs[0].(*ast.Ident)].(*types.Var)
	cond, ok := x.Cond.(*ast.BinaryExpr)
	if !ok || cond.Op != token.LSS {
		t.fail(x, "unsupported loop form (condition)")
	}
	if id, ok := cond.X.(*ast.Ident); !ok || t.varOf(id) != iv {
		t.fail(x, "unsupported loop form (condition variable)")
	}
	post, ok := x.Post.(*ast.IncDecStmt)
	if !ok || post.Tok != token.INC {
		t.fail(x, "unsupported loop form (post)")
	}
	if id, ok := post.X.(*ast.Ident); !ok || t.varOf(id) != iv {
		t.fail(x, "unsupported loop form (post variable)")
	}
	if ws := t.writesOf(x.Body); ws.vars[iv] {
		t.fail(x, "loop variable assigned in the body")
	}
	lo := t.expr(in.Rhs[0])
	hi := t.expr(cond.Y)
	switch leanType(iv.Type()) {
	case "Int":
	case "Nat":
		t.loopFn = "I3.Go.forRangeN"
	default:
		t.fail(x, "loop variable is neither int nor unsigned")
	}
	return t.loopGeneric(x, t.name(iv), lo, hi, nil, x.Body, rest, k, []ast.Expr{cond.Y})
}

func (t *tr) rangeStmt(x *ast.RangeStmt, rest []ast.Stmt, k cont) string {
	if x.Tok != token.DEFINE && !(x.Key == nil && x.Value == nil) {
		t.fail(x, "range with assignment to existing variables")
	}
	xt := types.Unalias(t.typeOf(x.X)).Underlying()
	switch xt.(type) {
	case *types.Slice, *types.Array:
	default:
		t.fail(x, "range over %s", xt)
	}
	coll := t.expr(x.X)
	iv := t.fresh("i")
	var bind []string
	if id, ok := x.Key.(*ast.Ident); ok && id.Name != "_" {
		v := t.info.Defs[id].(*types.Var)
		iv = t.name(v)
	}
	if x.Value != nil {
		if id, ok := x.Value.(*ast.Ident); ok && id.Name != "_" {
			v := t.info.Defs[id].(*types.Var)
			bind = append(bind, "let "+t.name(v)+" := I3.Go.idx "+coll+" "+iv)
		}
	}
	ws := t.writesOf(x.Body)
	if rv := t.rootVar(x.X); rv != nil && ws.vars[rv] {
		t.fail(x, "range collection written in the body")
	}
	if id, ok := x.Value.(*ast.Ident); ok && id.Name != "_" {
		if v, ok := t.info.Defs[id].(*types.Var); ok && t.fnDeep[v] {
			switch types.Unalias(v.Type()).Underlying().(type) {
			case *types.Pointer, *types.Slice, *types.Map:
				t.fail(x, "range value %s is written through (the write reaches the collection in Go)", v.Name())
			}
		}
	}
	return t.loopGeneric(x, iv, "(0 : Int)", "(I3.Go.len "+coll+")", bind, x.Body, rest, k, nil)
}

// the function's return tuple: declared results then the final contents of mutated parameters
func (t *tr) retTuple(vals []string) string {
	if t.chk {
		return "true"
	}
	if t.initMode {
		return t.tuple(t.initOrder())
	}
	all := append([]string{}, vals...)
	for i, m := range t.f.mutated {
		if m {
			all = append(all, t.name(t.f.params[i]))
		}
	}
	if t.f.fuel {
		inner := "()"
		if len(all) == 1 {
			inner = all[0]
		} else if len(all) > 1 {
			inner = "(" + strings.Join(all, ", ") + ")"
		}
		return "(" + inner + ", true)"
	}
	if len(all) == 0 {
		return "()"
	}
	if len(all) == 1 {
		return all[0]
	}
	return "(" + strings.Join(all, ", ") + ")"
}

// soleTypeSwitch: the function body is exactly `switch [v :=] p.(type) { … }` on an interface-typed parameter p
func soleTypeSwitch(fd *ast.FuncDecl) *ast.TypeSwitchStmt {
	if fd == nil || fd.Body == nil || len(fd.Body.List) != 1 {
		return nil
	}
	ts, ok := fd.Body.List[0].(*ast.TypeSwitchStmt)
	if !ok || ts.Init != nil {
		return nil
	}
	return ts
}

// the expression x in `switch [v :=] x.(type)`
func typeSwitchSubject(ts *ast.TypeSwitchStmt) ast.Expr {
	var e ast.Expr
	switch a := ts.Assign.(type) {
	case *ast.AssignStmt:
		if len(a.Rhs) == 1 {
			e = a.Rhs[0]
		}
	case *ast.ExprStmt:
		e = a.X
	}
	if ta, ok := e.(*ast.TypeAssertExpr); ok && ta.Type == nil {
		return ta.X
	}
	return nil
}
