// gen_go (T6): translates the big.Int / field-element level Go code of go-iden3-crypto (packages utils,
// babyjub, poseidon, mimc7, goldenposeidon) into Lean 4 definitions with VALUE semantics
// (lean/I3/Exec/Go.lean documents the data representation).  One Lean `def` per Go function; statements become
// `let` chains, `if` becomes if-then-else (with the rest of the block as continuation when a branch returns),
// counting and range loops become `Go.forRange` folds over the tuple of variables the body assigns, writes
// through pointers rebind the owning variable, and a function that writes through a pointer parameter returns
// the final contents of that parameter after its declared results.
//
// The translator is syntactic and FAILS CLOSED (exit 2) on anything outside its subset: writes to package-level
// variables, goroutines, closures, break/continue/goto/switch/select/defer, unknown library calls, pointer
// comparisons other than with nil, loops whose bound is reassigned by the body.
//
// usage: gen_go <repo> <outdir>
package main

import (
	"fmt"
	"go/ast"
	"go/constant"
	"go/token"
	"go/types"
	"os"
	"strings"

	"golang.org/x/tools/go/packages"
)

const modPath = "github.com/iden3/go-iden3-crypto/v2/"

func die(f string, a ...interface{}) {
	fmt.Fprintf(os.Stderr, "gen_go: "+f+"\n", a...)
	os.Exit(2)
}

// ---------------------------------------------------------------------------------------------------------
// configuration

// packages translated, in dependency order; Lean module name per package
var pkgOrder = []string{"keccak256", "ff", "ffg", "utils", "babyjub", "poseidon", "mimc7", "goldenposeidon"}
var pkgModule = map[string]string{"keccak256": "GoKeccak", "ff": "GoFF", "ffg": "GoFFG", "utils": "GoUtils", "babyjub": "GoBabyjub", "poseidon": "GoPoseidon", "mimc7": "GoMimc7", "goldenposeidon": "GoGolden"}
var pkgImports = map[string][]string{
	"keccak256": {}, "ff": {}, "ffg": {}, "utils": {}, "babyjub": {"GoUtils", "GoPoseidon", "GoMimc7"}, "poseidon": {"GoUtils"}, "mimc7": {"GoUtils"}, "goldenposeidon": {},
}

// packages of which only the listed functions are translated: the value-level algorithms of the field packages
// (everything else there works on the limb representation and belongs to translators T2/T3)
var only = map[string]map[string]bool{
	"ff":  {"ff.Element.Div": true, "ff.BatchInvert": true, "ff.Element.Exp": true, "ff.Element.Legendre": true, "ff.Element.Sqrt": true},
	"ffg": {"ffg.Element.Div": true, "ffg.BatchInvert": true, "ffg.Element.Exp": true, "ffg.Element.Legendre": true, "ffg.Element.Sqrt": true},
}

// fuel for loops without a syntactic bound (`for {…}`, `for cond {…}`): a function containing one returns an
// extra Bool `terminated`; the theorems show it is always true
const whileFuel = 80

// functions that are NOT translated, with the reason (they keep their hand-written models)
var skip = map[string]string{
	"utils.NewIntFromString":           "decimal parsing (math/big SetString): trusted",
	"babyjub.init":                     "constants: translator T1",
	"babyjub.NewRandPrivKey":           "crypto/rand",
	"poseidon.init":                    "constants: translator T1",
	"goldenposeidon.init":              "constants: translator T1",
}

// repo functions that their CALLERS see as a hand-written Lean definition (one-shot hash); the functions
// themselves are translated too (write every slice into the external hasher object, then Sum), and
// I3.Props.C20Gen proves the two equal
var extern = map[string]string{
	"keccak256.Hash":   "I3.Go.Ext.keccak256",
	"babyjub.Blake512": "I3.Go.Ext.blake512",
}

// package-level variables that are initialised by code T1 handles (or by `init`)
var globalMap = map[string]string{
	"constants.Q":        "I3.Go.Ext.constants_Q",
	"constants.Zero":     "I3.Go.Ext.constants_Zero",
	"constants.One":      "I3.Go.Ext.constants_One",
	"constants.MinusOne": "I3.Go.Ext.constants_MinusOne",
	"babyjub.A":          "I3.Go.Ext.babyjub_A",
	"babyjub.D":          "I3.Go.Ext.babyjub_D",
	"babyjub.Aff":        "I3.Go.Ext.babyjub_Aff",
	"babyjub.Dff":        "I3.Go.Ext.babyjub_Dff",
	"babyjub.Order":      "I3.Go.Ext.babyjub_Order",
	"babyjub.SubOrder":   "I3.Go.Ext.babyjub_SubOrder",
	"babyjub.B8":         "I3.Go.Ext.babyjub_B8",
	"poseidon.c":         "I3.Go.Ext.poseidon_c",
	"goldenposeidon.C":   "I3.Go.Ext.golden_C",
	"goldenposeidon.S":   "I3.Go.Ext.golden_S",
	"goldenposeidon.M":   "I3.Go.Ext.golden_M",
	"goldenposeidon.P":   "I3.Go.Ext.golden_P",
	"ff._bLegendreExponentElement":  "((I3.Gen.ff_legendreExp : Nat) : Int)",
	"ff._bSqrtExponentElement":      "((I3.Gen.ff_sqrtExp : Nat) : Int)",
	"ffg._bLegendreExponentElement": "((I3.Gen.ffg_legendreExp : Nat) : Int)",
	"ffg._bSqrtExponentElement":     "((I3.Gen.ffg_sqrtExp : Nat) : Int)",
	"babyjub.ErrVerifyPoseidonFailed": "(some \"ErrVerifyPoseidonFailed\" : Option String)",
	"babyjub.ErrVerifyMimc7Failed":    "(some \"ErrVerifyMimc7Failed\" : Option String)",
	"babyjub.ErrSOutOfRange":          "(some \"ErrSOutOfRange\" : Option String)",
}

// ---------------------------------------------------------------------------------------------------------

type funcInfo struct {
	key      string // pkgdir.[Recv.]Name
	pkgdir   string
	lean     string
	decl     *ast.FuncDecl
	pkg      *packages.Package
	obj      *types.Func
	params   []*types.Var // receiver first (if any)
	hasRecv  bool
	mutated  []bool // per param: written through (caller-visible)
	optParam []bool // per param: compared with nil
	nilRes   bool   // single pointer result that may be nil: Option
	fuel     bool   // contains an unbounded loop: extra Bool result `terminated`
}

var funcs = map[string]*funcInfo{}
var funcByObj = map[*types.Func]*funcInfo{}
var fset *token.FileSet

func pkgDirOf(p *types.Package) string {
	if p == nil {
		return ""
	}
	path := p.Path()
	if strings.HasPrefix(path, modPath) {
		return strings.TrimPrefix(path, modPath)
	}
	return path
}

func namedOf(t types.Type) *types.Named {
	for {
		switch tt := t.(type) {
		case *types.Pointer:
			t = tt.Elem()
		case *types.Named:
			return tt
		case *types.Alias:
			t = types.Unalias(tt)
		default:
			return nil
		}
	}
}

func isNamed(t types.Type, pkg, name string) bool {
	n := namedOf(t)
	return n != nil && n.Obj().Pkg() != nil && n.Obj().Pkg().Path() == pkg && n.Obj().Name() == name
}
func isBigLib(t types.Type) bool { return isNamed(t, "math/big", "Int") }
func isBig(t types.Type) bool {
	if isNamed(t, "math/big", "Int") {
		return true
	}
	// a named type defined as big.Int (PrivKeyScalar)
	if n := namedOf(t); n != nil {
		if st, ok := n.Underlying().(*types.Struct); ok && st.NumFields() == 2 && st.Field(0).Pkg() != nil &&
			st.Field(0).Pkg().Path() == "math/big" && st.Field(0).Name() == "neg" {
			return true
		}
	}
	return false
}
func isFF(t types.Type) bool   { return isNamed(t, modPath+"ff", "Element") }
func isFFG(t types.Type) bool  { return isNamed(t, modPath+"ffg", "Element") }
func isElem(t types.Type) bool { return isFF(t) || isFFG(t) }
func isError(t types.Type) bool {
	n, ok := t.(*types.Named)
	return ok && n.Obj().Pkg() == nil && n.Obj().Name() == "error"
}
// isAny: `interface{}` and database/sql/driver.Value — dynamically typed values (I3.Go.Any)
func isAny(t types.Type) bool {
	t = types.Unalias(t)
	if isNamed(t, "database/sql/driver", "Value") {
		return true
	}
	if _, isNamedT := t.(*types.Named); isNamedT {
		return false
	}
	it, ok := t.Underlying().(*types.Interface)
	return ok && it.NumMethods() == 0
}

// toAny wraps an expression of static type `from` that is used where an interface value is expected
func (t *tr) toAny(e ast.Expr, v string) string {
	from := t.typeOf(e)
	if t.isNil(e) {
		return "I3.Go.Any.nil"
	}
	if isAny(from) {
		return v
	}
	switch leanType(from) {
	case "(List UInt8)":
		if _, isArr := types.Unalias(from).Underlying().(*types.Array); isArr {
			t.fail(e, "array value converted to an interface")
		}
		return "(I3.Go.Any.bytes " + v + ")"
	case "String":
		return "(I3.Go.Any.string " + v + ")"
	case "Int":
		if isBig(from) {
			break
		}
		return "(I3.Go.Any.int64 " + v + ")"
	case "Bool":
		return "(I3.Go.Any.bool " + v + ")"
	}
	t.fail(e, "conversion of %s to an interface value", from)
	return ""
}

func modulusOf(t types.Type) string {
	if isFFG(t) {
		return "I3.Gen.ffg_modulus"
	}
	return "I3.Gen.ff_modulus"
}

// leanType maps a Go type to the Lean type of its value-semantic representation.
func leanType(t types.Type) string {
	t = types.Unalias(t)
	if isBig(t) {
		return "Int"
	}
	if isElem(t) {
		return "Nat"
	}
	if isError(t) {
		return "(Option String)"
	}
	if isNamed(t, "hash", "Hash") {
		return "I3.Go.Ext.Hasher"
	}
	if isAny(t) {
		return "I3.Go.Any"
	}
	switch tt := t.(type) {
	case *types.Pointer:
		return leanType(tt.Elem())
	case *types.Named:
		return leanType(tt.Underlying())
	case *types.Basic:
		switch tt.Kind() {
		case types.Int, types.Int64, types.Int32, types.UntypedInt:
			return "Int"
		case types.Uint, types.Uint64, types.Uint32:
			return "Nat"
		case types.Uint8:
			return "UInt8"
		case types.Bool, types.UntypedBool:
			return "Bool"
		case types.String, types.UntypedString:
			return "String"
		}
	case *types.Slice:
		return "(List " + leanType(tt.Elem()) + ")"
	case *types.Array:
		return "(List " + leanType(tt.Elem()) + ")"
	case *types.Struct:
		if tt.NumFields() == 0 {
			return "Unit"
		}
		var fs []string
		for i := 0; i < tt.NumFields(); i++ {
			fs = append(fs, leanType(tt.Field(i).Type()))
		}
		return "(" + strings.Join(fs, " × ") + ")"
	case *types.Tuple:
		var fs []string
		for i := 0; i < tt.Len(); i++ {
			fs = append(fs, leanType(tt.At(i).Type()))
		}
		if len(fs) == 1 {
			return fs[0]
		}
		return "(" + strings.Join(fs, " × ") + ")"
	}
	panic(fail{fmt.Sprintf("unsupported type %s", t)})
}

type fail struct{ msg string }

func containsArray(t types.Type) bool {
	switch tt := types.Unalias(t).(type) {
	case *types.Named:
		if isBig(tt) || isElem(tt) {
			return false
		}
		return containsArray(tt.Underlying())
	case *types.Array:
		return true
	case *types.Struct:
		for i := 0; i < tt.NumFields(); i++ {
			if containsArray(tt.Field(i).Type()) {
				return true
			}
		}
	}
	return false
}

// zeroValue: the Go zero value of a type in its Lean representation (arrays are full-length lists of zeros)
func zeroValue(t types.Type) string {
	t = types.Unalias(t)
	if isBig(t) || isElem(t) || isError(t) {
		return "(default : " + leanType(t) + ")"
	}
	switch tt := t.(type) {
	case *types.Named:
		return zeroValue(tt.Underlying())
	case *types.Array:
		ez := zeroValue(tt.Elem())
		if strings.HasPrefix(ez, "(default : ") {
			ez = "default"
		}
		return fmt.Sprintf("(List.replicate %d %s : %s)", tt.Len(), ez, leanType(t))
	case *types.Struct:
		if tt.NumFields() > 1 && containsArray(tt) {
			var fs []string
			for i := 0; i < tt.NumFields(); i++ {
				fs = append(fs, zeroValue(tt.Field(i).Type()))
			}
			return "((" + strings.Join(fs, ", ") + ") : " + leanType(t) + ")"
		}
	}
	return "(default : " + leanType(t) + ")"
}

func structOf(t types.Type) *types.Struct {
	t = types.Unalias(t)
	for {
		switch tt := t.(type) {
		case *types.Pointer:
			t = tt.Elem()
		case *types.Named:
			t = tt.Underlying()
		case *types.Struct:
			return tt
		default:
			return nil
		}
	}
}

// projection of field i of an n-field struct represented as a right-nested tuple
func proj(x string, i, n int) string {
	if n == 1 {
		return x
	}
	s := x
	for k := 0; k < i; k++ {
		s += ".2"
	}
	if i < n-1 {
		s += ".1"
	}
	return s
}

var leanKeywords = map[string]bool{"at": true, "from": true, "end": true, "open": true, "in": true, "then": true, "fun": true, "do": true,
	"show": true, "have": true, "match": true, "with": true, "let": true, "if": true, "else": true, "by": true, "def": true, "instance": true,
	"variable": true, "where": true, "for": true, "return": true, "mut": true, "Type": true, "Prop": true, "theorem": true, "example": true,
	"structure": true, "inductive": true, "namespace": true, "section": true, "import": true, "export": true, "macro": true, "syntax": true,
	"class": true, "deriving": true, "extends": true, "using": true, "calc": true, "suffices": true, "obtain": true, "some": true, "none": true,
	"default": true, "max": true, "min": true, "id": true, "S": false}

// ---------------------------------------------------------------------------------------------------------
// per-function translator state

type tr struct {
	f      *funcInfo
	info   *types.Info
	names  map[*types.Var]string
	used   map[string]bool
	opt    map[*types.Var]bool // variables represented as Option (compared with nil)
	pre    []string            // pending let lines (hoisted calls)
	tmp    int
	retTy  string
	nres   int
	loopFn    string          // fold used for the loop being translated (forRange / forRangeN / forDown)
	optResult string          // set by a nil-able library call: the Option-valued temporary
	deps   map[string]bool    // Lean definitions referenced
}

func (t *tr) fail(n ast.Node, f string, a ...interface{}) {
	pos := ""
	if n != nil {
		pos = fset.Position(n.Pos()).String() + ": "
	}
	panic(fail{pos + fmt.Sprintf(f, a...)})
}

func (t *tr) name(v *types.Var) string {
	if s, ok := t.names[v]; ok {
		return s
	}
	base := v.Name()
	if base == "_" {
		base = "_u"
	}
	if leanKeywords[base] {
		base += "_"
	}
	s := base
	for k := 2; t.used[s]; k++ {
		s = fmt.Sprintf("%s_%d", base, k)
	}
	t.used[s] = true
	t.names[v] = s
	return s
}

func (t *tr) fresh(p string) string {
	t.tmp++
	return fmt.Sprintf("%s_%d", p, t.tmp)
}

func (t *tr) typeOf(e ast.Expr) types.Type {
	tv, ok := t.info.Types[e]
	if !ok {
		if id, ok := e.(*ast.Ident); ok {
			if o := t.info.ObjectOf(id); o != nil {
				return o.Type()
			}
		}
		t.fail(e, "no type for expression")
	}
	return tv.Type
}

func (t *tr) varOf(id *ast.Ident) *types.Var {
	o := t.info.ObjectOf(id)
	v, _ := o.(*types.Var)
	return v
}

func isGlobal(v *types.Var) bool {
	return v != nil && v.Pkg() != nil && v.Parent() == v.Pkg().Scope()
}

// rootVar: the variable at the root of an lvalue path, or nil when the path starts at a temporary.
func (t *tr) rootVar(e ast.Expr) *types.Var {
	switch x := e.(type) {
	case *ast.Ident:
		return t.varOf(x)
	case *ast.ParenExpr:
		return t.rootVar(x.X)
	case *ast.StarExpr:
		return t.rootVar(x.X)
	case *ast.UnaryExpr:
		if x.Op == token.AND {
			return t.rootVar(x.X)
		}
	case *ast.SelectorExpr:
		if sel, ok := t.info.Selections[x]; ok && sel.Kind() == types.FieldVal {
			return t.rootVar(x.X)
		}
		if id, ok := x.X.(*ast.Ident); ok { // pkg.Var
			if _, isPkg := t.info.ObjectOf(id).(*types.PkgName); isPkg {
				return t.varOf(x.Sel)
			}
		}
	case *ast.IndexExpr:
		return t.rootVar(x.X)
	case *ast.SliceExpr:
		return t.rootVar(x.X)
	case *ast.CallExpr:
		// conversion (*T)(x) keeps the path
		if tv, ok := t.info.Types[x.Fun]; ok && tv.IsType() && len(x.Args) == 1 {
			return t.rootVar(x.Args[0])
		}
	}
	return nil
}

// ---------------------------------------------------------------------------------------------------------
// library tables

// big.Int methods that write the receiver: Lean template over argument strings
var bigMut = map[string]func(a []string) string{
	"Set":      func(a []string) string { return a[0] },
	"SetBytes": func(a []string) string { return "(I3.Go.big.setBytes " + a[0] + ")" },
	"SetInt64": func(a []string) string { return a[0] },
	"Mul":      func(a []string) string { return "(" + a[0] + " * " + a[1] + ")" },
	"Add":      func(a []string) string { return "(" + a[0] + " + " + a[1] + ")" },
	"Sub":      func(a []string) string { return "(" + a[0] + " - " + a[1] + ")" },
	"Neg":      func(a []string) string { return "(- " + a[0] + ")" },
	"Mod":      func(a []string) string { return "(I3.Go.big.mod " + a[0] + " " + a[1] + ")" },
	"Rsh":      func(a []string) string { return "(I3.Go.big.rsh " + a[0] + " " + a[1] + ")" },
	"Lsh":      func(a []string) string { return "(I3.Go.big.lsh " + a[0] + " " + a[1] + ")" },
}

// big.Int methods that write the receiver and may return nil (receiver then unchanged): Option-valued template
var bigMutOpt = map[string]func(a []string) string{
	"ModInverse": func(a []string) string { return "(I3.Go.big.modInverse " + a[0] + " " + a[1] + ")" },
	"ModSqrt":    func(a []string) string { return "(I3.Go.Ext.modSqrt " + a[0] + " " + a[1] + ")" },
}
var bigPure = map[string]func(r string, a []string) string{
	"Cmp":       func(r string, a []string) string { return "(I3.Go.big.cmp " + r + " " + a[0] + ")" },
	"Sign":      func(r string, a []string) string { return "(I3.Go.big.sign " + r + ")" },
	"Bit":       func(r string, a []string) string { return "(I3.Go.big.bit " + r + " " + a[0] + ")" },
	"BitLen":    func(r string, a []string) string { return "(I3.Go.big.bitLen " + r + ")" },
	"Bytes":     func(r string, a []string) string { return "(I3.Go.big.bytes " + r + ")" },
	"FillBytes": func(r string, a []string) string { return "(I3.Go.big.fillBytes " + r + " " + a[0] + ")" },
}

func elemMut(m string) map[string]func(a []string) string {
	return map[string]func(a []string) string{
		"Set":       func(a []string) string { return a[0] },
		"SetZero":   func(a []string) string { return "(0 : Nat)" },
		"SetOne":    func(a []string) string { return "(I3.Go.fe.one " + m + ")" },
		"SetUint64": func(a []string) string { return "(I3.Go.fe.setUint64 " + m + " " + a[0] + ")" },
		"SetBigInt": func(a []string) string { return "(I3.Go.fe.setBigInt " + m + " " + a[0] + ")" },
		"Add":       func(a []string) string { return "(I3.Go.fe.add " + m + " " + a[0] + " " + a[1] + ")" },
		"Sub":       func(a []string) string { return "(I3.Go.fe.sub " + m + " " + a[0] + " " + a[1] + ")" },
		"Mul":       func(a []string) string { return "(I3.Go.fe.mul " + m + " " + a[0] + " " + a[1] + ")" },
		"Square":    func(a []string) string { return "(I3.Go.fe.square " + m + " " + a[0] + ")" },
		"Neg":       func(a []string) string { return "(I3.Go.fe.neg " + m + " " + a[0] + ")" },
		"Double":    func(a []string) string { return "(I3.Go.fe.double " + m + " " + a[0] + ")" },
		"Inverse":   func(a []string) string { return "(I3.Go.fe.inverse " + m + " " + a[0] + ")" },
		"Exp":       func(a []string) string { return "(I3.Go.fe.exp " + m + " " + a[0] + " " + a[1] + ")" },
	}
}

var elemPure = map[string]func(r string, a []string) string{
	"Equal":           func(r string, a []string) string { return "(" + r + " == " + a[0] + ")" },
	"IsZero":          func(r string, a []string) string { return "(" + r + " == (0 : Nat))" },
	"ToUint64Regular": func(r string, a []string) string { return r },
}

// element methods that write their ARGUMENT 0
var elemArgMut = map[string]func(r string) string{
	"ToBigIntRegular": func(r string) string { return "(I3.Go.fe.toBigIntRegular " + r + ")" },
}

// ---------------------------------------------------------------------------------------------------------
// expressions

func (t *tr) constLit(tv types.TypeAndValue, e ast.Expr) string {
	lt := leanType(tv.Type)
	switch tv.Value.Kind() {
	case constant.Bool:
		if constant.BoolVal(tv.Value) {
			return "true"
		}
		return "false"
	case constant.String:
		return fmt.Sprintf("%q", constant.StringVal(tv.Value))
	case constant.Int:
		s := tv.Value.ExactString()
		if strings.HasPrefix(s, "-") {
			return "(" + s + " : " + lt + ")"
		}
		return "(" + s + " : " + lt + ")"
	}
	t.fail(e, "unsupported constant")
	return ""
}

// callee classification
func (t *tr) calleeFunc(c *ast.CallExpr) *types.Func {
	switch fn := c.Fun.(type) {
	case *ast.Ident:
		f, _ := t.info.ObjectOf(fn).(*types.Func)
		return f
	case *ast.SelectorExpr:
		f, _ := t.info.ObjectOf(fn.Sel).(*types.Func)
		return f
	case *ast.ParenExpr:
		return nil
	}
	return nil
}

func funcKey(f *types.Func) string {
	sig := f.Type().(*types.Signature)
	pd := pkgDirOf(f.Pkg())
	if sig.Recv() != nil {
		n := namedOf(sig.Recv().Type())
		if n != nil {
			return pd + "." + n.Obj().Name() + "." + f.Name()
		}
	}
	return pd + "." + f.Name()
}

// isLvalue: expression denotes a cell owned by a variable (so that a write can be rebinding)
func (t *tr) isLvalue(e ast.Expr) bool {
	switch x := e.(type) {
	case *ast.Ident:
		return t.varOf(x) != nil
	case *ast.ParenExpr:
		return t.isLvalue(x.X)
	case *ast.StarExpr:
		return t.isLvalue(x.X)
	case *ast.UnaryExpr:
		return x.Op == token.AND && t.isLvalue(x.X)
	case *ast.SelectorExpr:
		if sel, ok := t.info.Selections[x]; ok && sel.Kind() == types.FieldVal {
			return t.isLvalue(x.X)
		}
		if id, ok := x.X.(*ast.Ident); ok {
			if _, isPkg := t.info.ObjectOf(id).(*types.PkgName); isPkg {
				return t.varOf(x.Sel) != nil
			}
		}
		return false
	case *ast.IndexExpr:
		return t.isLvalue(x.X)
	case *ast.SliceExpr:
		return t.isLvalue(x.X)
	case *ast.CallExpr:
		if tv, ok := t.info.Types[x.Fun]; ok && tv.IsType() && len(x.Args) == 1 {
			return t.isLvalue(x.Args[0])
		}
	}
	return false
}

// assignTo emits the rebinding that stores `v` into the cell denoted by lvalue `e`.
func (t *tr) assignTo(e ast.Expr, v string) {
	switch x := e.(type) {
	case *ast.Ident:
		if x.Name == "_" {
			return
		}
		vr := t.varOf(x)
		if vr == nil {
			t.fail(e, "assignment to non-variable")
		}
		if isGlobal(vr) {
			t.fail(e, "write to package-level variable %s", vr.Name())
		}
		if t.opt[vr] {
			t.pre = append(t.pre, fmt.Sprintf("let %s := some %s", t.name(vr), v))
		} else {
			t.pre = append(t.pre, fmt.Sprintf("let %s := %s", t.name(vr), v))
		}
	case *ast.ParenExpr:
		t.assignTo(x.X, v)
	case *ast.StarExpr:
		t.assignTo(x.X, v)
	case *ast.UnaryExpr:
		if x.Op != token.AND {
			t.fail(e, "unsupported assignment target")
		}
		t.assignTo(x.X, v)
	case *ast.SelectorExpr:
		sel, ok := t.info.Selections[x]
		if !ok || sel.Kind() != types.FieldVal {
			if vr := t.rootVar(x); vr != nil && isGlobal(vr) {
				t.fail(e, "write to package-level variable %s", vr.Name())
			}
			t.fail(e, "unsupported assignment target (selector)")
		}
		st := structOf(t.typeOf(x.X))
		if st == nil || len(sel.Index()) != 1 {
			t.fail(e, "unsupported field path")
		}
		old := t.expr(x.X)
		n := st.NumFields()
		var parts []string
		for i := 0; i < n; i++ {
			if i == sel.Index()[0] {
				parts = append(parts, v)
			} else {
				parts = append(parts, proj(old, i, n))
			}
		}
		nv := "(" + strings.Join(parts, ", ") + ")"
		if n == 1 {
			nv = v
		}
		t.assignTo(x.X, nv)
	case *ast.IndexExpr:
		old := t.expr(x.X)
		i := t.expr(x.Index)
		t.assignTo(x.X, "(I3.Go.set "+old+" "+i+" "+v+")")
	case *ast.SliceExpr:
		if x.Low == nil && x.High == nil {
			t.assignTo(x.X, v)
			return
		}
		t.fail(e, "unsupported assignment target (partial slice)")
	case *ast.CallExpr:
		if tv, ok := t.info.Types[x.Fun]; ok && tv.IsType() && len(x.Args) == 1 {
			t.assignTo(x.Args[0], v)
			return
		}
		t.fail(e, "unsupported assignment target (call)")
	default:
		t.fail(e, "unsupported assignment target %T", e)
	}
}

func (t *tr) isNil(e ast.Expr) bool {
	id, ok := e.(*ast.Ident)
	if !ok {
		return false
	}
	_, isNil := t.info.ObjectOf(id).(*types.Nil)
	return isNil
}

func (t *tr) exprs(es []ast.Expr) []string {
	var r []string
	for _, e := range es {
		r = append(r, t.expr(e))
	}
	return r
}

// argument for a parameter that is Option-typed in the callee
func (t *tr) optArg(e ast.Expr) string {
	if t.isNil(e) {
		return "none"
	}
	if id, ok := e.(*ast.Ident); ok {
		if v := t.varOf(id); v != nil && t.opt[v] {
			return t.name(v)
		}
	}
	return "(some " + t.expr(e) + ")"
}

func (t *tr) expr(e ast.Expr) string {
	if tv, ok := t.info.Types[e]; ok && tv.Value != nil {
		return t.constLit(tv, e)
	}
	switch x := e.(type) {
	case *ast.ParenExpr:
		return t.expr(x.X)
	case *ast.Ident:
		if t.isNil(x) {
			return "default"
		}
		v := t.varOf(x)
		if v == nil {
			t.fail(e, "unsupported identifier %s", x.Name)
		}
		if isGlobal(v) {
			return t.globalRef(v, e)
		}
		if t.opt[v] {
			return "(I3.Go.deref " + t.name(v) + ")"
		}
		return t.name(v)
	case *ast.StarExpr:
		return t.expr(x.X)
	case *ast.UnaryExpr:
		switch x.Op {
		case token.AND:
			return t.expr(x.X)
		case token.NOT:
			return "(!" + t.expr(x.X) + ")"
		case token.SUB:
			return "(- " + t.expr(x.X) + ")"
		}
		t.fail(e, "unsupported unary operator %s", x.Op)
	case *ast.BinaryExpr:
		return t.binary(x)
	case *ast.SelectorExpr:
		if sel, ok := t.info.Selections[x]; ok {
			if sel.Kind() != types.FieldVal {
				t.fail(e, "method value")
			}
			st := structOf(t.typeOf(x.X))
			if st == nil || len(sel.Index()) != 1 {
				t.fail(e, "unsupported field path")
			}
			return proj(t.expr(x.X), sel.Index()[0], st.NumFields())
		}
		// pkg.Name
		if v := t.varOf(x.Sel); v != nil && isGlobal(v) {
			return t.globalRef(v, e)
		}
		t.fail(e, "unsupported selector")
	case *ast.IndexExpr:
		if isElem(t.typeOf(x.X)) {
			t.fail(e, "access to a limb of a field element (representation level: translators T2/T3)")
		}
		return "(I3.Go.idx " + t.expr(x.X) + " " + t.expr(x.Index) + ")"
	case *ast.SliceExpr:
		if x.Slice3 {
			t.fail(e, "3-index slice")
		}
		base := t.expr(x.X)
		if x.Low == nil && x.High == nil {
			return base
		}
		lo, hi := "(0 : Int)", "(I3.Go.len "+base+")"
		if x.Low != nil {
			lo = t.expr(x.Low)
		}
		if x.High != nil {
			hi = t.expr(x.High)
		}
		return "(I3.Go.slice " + base + " " + lo + " " + hi + ")"
	case *ast.CompositeLit:
		return t.composite(x)
	case *ast.CallExpr:
		vals := t.call(x, 1)
		return vals[0]
	case *ast.BasicLit:
		t.fail(e, "literal without constant value")
	}
	t.fail(e, "unsupported expression %T", e)
	return ""
}

func (t *tr) globalRef(v *types.Var, e ast.Expr) string {
	k := pkgDirOf(v.Pkg()) + "." + v.Name()
	if s, ok := globalMap[k]; ok {
		return s
	}
	if g, ok := globalDefs[k]; ok {
		t.deps[g] = true
		return g
	}
	if _, ok := globalInits[k]; ok {
		g := translateGlobal(k)
		t.deps[g] = true
		return g
	}
	t.fail(e, "reference to unmapped package-level variable %s", k)
	return ""
}

func (t *tr) composite(x *ast.CompositeLit) string {
	ty := t.typeOf(x)
	if isElem(ty) {
		// Element{l0, …}: limbs of the Montgomery representation
		var ls []string
		for _, el := range x.Elts {
			tv, ok := t.info.Types[el]
			if !ok || tv.Value == nil {
				t.fail(x, "element literal with non-constant limb")
			}
			ls = append(ls, tv.Value.ExactString())
		}
		return "(I3.Go.fe.ofMont " + modulusOf(ty) + " [" + strings.Join(ls, ", ") + "])"
	}
	switch u := types.Unalias(ty).Underlying().(type) {
	case *types.Slice:
		return "[" + strings.Join(t.elts(x.Elts), ", ") + "]"
	case *types.Array:
		if len(x.Elts) == 0 {
			return zeroValue(ty)
		}
		if int64(len(x.Elts)) != u.Len() {
			t.fail(x, "partial array literal")
		}
		return "[" + strings.Join(t.elts(x.Elts), ", ") + "]"
	case *types.Struct:
		n := u.NumFields()
		vals := make([]string, n)
		for i := range vals {
			vals[i] = "default"
		}
		for i, el := range x.Elts {
			if kv, ok := el.(*ast.KeyValueExpr); ok {
				name := kv.Key.(*ast.Ident).Name
				found := false
				for j := 0; j < n; j++ {
					if u.Field(j).Name() == name {
						vals[j] = t.expr(kv.Value)
						found = true
					}
				}
				if !found {
					t.fail(x, "unknown field %s", name)
				}
			} else {
				vals[i] = t.expr(el)
			}
		}
		if n == 0 {
			return "()"
		}
		if n == 1 {
			return vals[0]
		}
		return "((" + strings.Join(vals, ", ") + ") : " + leanType(ty) + ")"
	}
	t.fail(x, "unsupported composite literal")
	return ""
}

func (t *tr) elts(es []ast.Expr) []string {
	var r []string
	for _, e := range es {
		if _, ok := e.(*ast.KeyValueExpr); ok {
			t.fail(e, "keyed element")
		}
		r = append(r, t.expr(e))
	}
	return r
}

func basicKind(ty types.Type) types.BasicKind {
	if b, ok := types.Unalias(ty).Underlying().(*types.Basic); ok {
		return b.Kind()
	}
	return types.Invalid
}

// limbEq recognises `(x[3] == c3) && … && (x[0] == c0)` over all limbs of a field element: equality with the
// element whose Montgomery limbs are c0…; canonical limbs are unique, so this is equality of values.
func (t *tr) limbEq(x ast.Expr) (string, bool) {
	var conj []ast.Expr
	var flat func(e ast.Expr)
	flat = func(e ast.Expr) {
		e = ast.Unparen(e)
		if b, ok := e.(*ast.BinaryExpr); ok && b.Op == token.LAND {
			flat(b.X)
			flat(b.Y)
			return
		}
		conj = append(conj, e)
	}
	flat(x)
	var base ast.Expr
	limbs := map[int64]string{}
	for _, c := range conj {
		b, ok := c.(*ast.BinaryExpr)
		if !ok || b.Op != token.EQL {
			return "", false
		}
		ix, ok := ast.Unparen(b.X).(*ast.IndexExpr)
		if !ok || !isElem(t.typeOf(ix.X)) {
			return "", false
		}
		itv, ok1 := t.info.Types[ix.Index]
		ctv, ok2 := t.info.Types[b.Y]
		if !ok1 || !ok2 || itv.Value == nil || ctv.Value == nil {
			return "", false
		}
		if base == nil {
			base = ix.X
		} else if types.ExprString(base) != types.ExprString(ix.X) {
			return "", false
		}
		i, _ := constant.Int64Val(itv.Value)
		limbs[i] = ctv.Value.ExactString()
	}
	if base == nil {
		return "", false
	}
	n := 4
	if isFFG(t.typeOf(base)) {
		n = 1
	}
	if len(limbs) != n || len(conj) != n {
		return "", false
	}
	var ls []string
	for i := 0; i < n; i++ {
		l, ok := limbs[int64(i)]
		if !ok {
			return "", false
		}
		ls = append(ls, l)
	}
	return "(" + t.expr(base) + " == I3.Go.fe.ofMont " + modulusOf(t.typeOf(base)) + " [" + strings.Join(ls, ", ") + "])", true
}

func (t *tr) binary(x *ast.BinaryExpr) string {
	if x.Op == token.LAND || x.Op == token.EQL {
		if s, ok := t.limbEq(x); ok {
			return s
		}
	}
	// nil comparisons
	if x.Op == token.EQL || x.Op == token.NEQ {
		var other ast.Expr
		if t.isNil(x.Y) {
			other = x.X
		} else if t.isNil(x.X) {
			other = x.Y
		}
		if other != nil {
			var s string
			if isError(t.typeOf(other)) {
				s = t.expr(other)
			} else if id, ok := other.(*ast.Ident); ok && t.varOf(id) != nil && t.opt[t.varOf(id)] {
				s = t.name(t.varOf(id))
			} else {
				t.fail(x, "comparison with nil of a value that is not tracked as nil-able")
			}
			if x.Op == token.EQL {
				return "(" + s + ").isNone"
			}
			return "(" + s + ").isSome"
		}
	}
	a, b := t.expr(x.X), t.expr(x.Y)
	lt := leanType(t.typeOf(x.X))
	switch x.Op {
	case token.LAND:
		return "(" + a + " && " + b + ")"
	case token.LOR:
		return "(" + a + " || " + b + ")"
	case token.EQL:
		if _, isPtr := types.Unalias(t.typeOf(x.X)).Underlying().(*types.Pointer); isPtr {
			t.fail(x, "pointer comparison")
		}
		return "(" + a + " == " + b + ")"
	case token.NEQ:
		if _, isPtr := types.Unalias(t.typeOf(x.X)).Underlying().(*types.Pointer); isPtr {
			t.fail(x, "pointer comparison")
		}
		return "(" + a + " != " + b + ")"
	case token.LSS:
		return "(decide (" + a + " < " + b + "))"
	case token.LEQ:
		return "(decide (" + a + " ≤ " + b + "))"
	case token.GTR:
		return "(decide (" + a + " > " + b + "))"
	case token.GEQ:
		return "(decide (" + a + " ≥ " + b + "))"
	}
	switch lt {
	case "Int":
		switch x.Op {
		case token.ADD:
			return "(" + a + " + " + b + ")"
		case token.SUB:
			return "(" + a + " - " + b + ")"
		case token.MUL:
			return "(" + a + " * " + b + ")"
		case token.QUO:
			return "(I3.Go.idiv " + a + " " + b + ")"
		case token.REM:
			return "(I3.Go.imodT " + a + " " + b + ")"
		}
	case "UInt8":
		switch x.Op {
		case token.AND:
			return "(" + a + " &&& " + b + ")"
		case token.OR:
			return "(" + a + " ||| " + b + ")"
		case token.XOR:
			return "(" + a + " ^^^ " + b + ")"
		}
	case "Nat":
		if basicKind(t.typeOf(x.X)) == types.Uint64 {
			switch x.Op {
			case token.ADD:
				return "(I3.Go.u64add " + a + " " + b + ")"
			case token.SUB:
				return "(I3.Go.u64sub " + a + " " + b + ")"
			}
		}
	}
	t.fail(x, "unsupported binary operator %s on %s", x.Op, lt)
	return ""
}

// call translates a call expression; returns the Lean strings of its `want` declared results
// (hoisting the call into t.pre when it has effects or several results).
func (t *tr) call(c *ast.CallExpr, want int) []string {
	// conversion
	if tv, ok := t.info.Types[c.Fun]; ok && tv.IsType() {
		if len(c.Args) != 1 {
			t.fail(c, "conversion arity")
		}
		from, to := t.typeOf(c.Args[0]), tv.Type
		lf, lt := leanType(from), leanType(to)
		a := t.expr(c.Args[0])
		switch {
		case lf == lt:
			return []string{a}
		case lf == "String" && lt == "(List UInt8)":
			return []string{"(I3.Go.strBytes " + a + ")"}
		case lf == "Nat" && lt == "Int":
			return []string{"((" + a + " : Nat) : Int)"}
		case lf == "Int" && lt == "Nat":
			return []string{"(Int.toNat " + a + ")"}
		}
		t.fail(c, "unsupported conversion %s -> %s", lf, lt)
	}
	// builtins
	if id, ok := c.Fun.(*ast.Ident); ok {
		if _, isB := t.info.ObjectOf(id).(*types.Builtin); isB {
			return []string{t.builtin(id.Name, c)}
		}
	}
	fn := t.calleeFunc(c)
	if fn == nil {
		t.fail(c, "unsupported call (function value)")
	}
	sig := fn.Type().(*types.Signature)
	pkgPath := ""
	if fn.Pkg() != nil {
		pkgPath = fn.Pkg().Path()
	}
	// ---- library: math/big, ff, ffg
	if sig.Recv() != nil && (isBigLib(sig.Recv().Type()) || isElem(sig.Recv().Type())) && !translatedHere(t, fn) {
		sel := c.Fun.(*ast.SelectorExpr)
		return []string{t.libMethod(c, sel, fn)}
	}
	switch pkgPath + "." + fn.Name() {
	case "math/big.NewInt":
		return []string{t.expr(c.Args[0])}
	case modPath + "ff.NewElement", modPath + "ffg.NewElement":
		return []string{"(0 : Nat)"}
	case modPath + "ff.One":
		return []string{"(I3.Go.fe.one I3.Gen.ff_modulus)"}
	case modPath + "ffg.One":
		return []string{"(I3.Go.fe.one I3.Gen.ffg_modulus)"}
	case modPath + "ffg.NewElementFromUint64":
		return []string{"(I3.Go.fe.setUint64 I3.Gen.ffg_modulus " + t.expr(c.Args[0]) + ")"}
	case "golang.org/x/crypto/sha3.NewLegacyKeccak256":
		return []string{"I3.Go.Ext.Hasher.newKeccak256"}
	case "github.com/dchest/blake512.New":
		return []string{"I3.Go.Ext.Hasher.newBlake512"}
	case "encoding/hex.EncodeToString":
		return []string{"(I3.Go.Ext.hexEncodeToString " + t.expr(c.Args[0]) + ")"}
	case "encoding/hex.DecodeString":
		r, e := t.fresh("r"), t.fresh("r")
		t.pre = append(t.pre, "let ("+r+", "+e+") := I3.Go.Ext.hexDecodeString "+t.expr(c.Args[0]))
		return []string{r, e}
	case "encoding/hex.Decode":
		// writes dst
		n, e, d := t.fresh("r"), t.fresh("r"), t.fresh("m")
		dst := t.expr(c.Args[0])
		t.pre = append(t.pre, "let ("+n+", "+e+", "+d+") := I3.Go.Ext.hexDecode "+dst+" "+t.expr(c.Args[1]))
		if t.isLvalue(c.Args[0]) {
			t.assignTo(c.Args[0], d)
		}
		return []string{n, e}
	case "strings.TrimPrefix":
		return []string{"(I3.Go.Ext.stringsTrimPrefix " + t.expr(c.Args[0]) + " " + t.expr(c.Args[1]) + ")"}
	case "bytes.HasPrefix":
		return []string{"(I3.Go.Ext.bytesHasPrefix " + t.expr(c.Args[0]) + " " + t.expr(c.Args[1]) + ")"}
	case "fmt.Sprintf":
		// only formats made of literal text and %s applied to strings
		tv := t.info.Types[c.Args[0]]
		if tv.Value == nil || tv.Value.Kind() != constant.String {
			t.fail(c, "format is not a constant")
		}
		parts := strings.Split(constant.StringVal(tv.Value), "%s")
		if len(parts) != len(c.Args) || strings.Contains(strings.Join(parts, ""), "%") {
			t.fail(c, "unsupported format string")
		}
		out := fmt.Sprintf("%q", parts[0])
		for i, a := range c.Args[1:] {
			if leanType(t.typeOf(a)) != "String" {
				t.fail(c, "%%s applied to a non-string")
			}
			out += " ++ " + t.expr(a) + " ++ " + fmt.Sprintf("%q", parts[i+1])
		}
		return []string{"(" + out + ")"}
	case "fmt.Errorf", "errors.New":
		tv := t.info.Types[c.Args[0]]
		if tv.Value == nil || tv.Value.Kind() != constant.String {
			t.fail(c, "error message is not a constant")
		}
		return []string{fmt.Sprintf("(some %q : Option String)", constant.StringVal(tv.Value))}
	}
	// ---- hash.Hash objects (external state): Write rebinds the object, Sum is pure
	if sig.Recv() != nil && (pkgPath == "io" || pkgPath == "hash") {
		sel := c.Fun.(*ast.SelectorExpr)
		if isNamed(t.typeOf(sel.X), "hash", "Hash") {
			switch fn.Name() {
			case "Write":
				d := t.expr(c.Args[0])
				h := t.expr(sel.X)
				t.assignTo(sel.X, "(I3.Go.Ext.Hasher.write "+h+" "+d+")")
				return []string{"(I3.Go.len " + d + ")", "(none : Option String)"}
			case "Sum":
				return []string{"(I3.Go.Ext.Hasher.sum " + t.expr(sel.X) + " " + t.expr(c.Args[0]) + ")"}
			}
		}
		t.fail(c, "unsupported method %s on an external object", fn.Name())
	}
	// ---- repo functions
	key := funcKey(fn)
	if ex, ok := extern[key]; ok {
		args := t.callArgs(c, sig, nil)
		return []string{"(" + ex + " " + strings.Join(args, " ") + ")"}
	}
	fi, ok := funcs[key]
	if !ok {
		t.fail(c, "call of untranslated function %s", key)
	}
	if r, isSkipped := skip[key]; isSkipped {
		t.fail(c, "call of function outside the translated subset: %s (%s)", key, r)
	}
	var argExprs []ast.Expr
	if fi.hasRecv {
		argExprs = append(argExprs, c.Fun.(*ast.SelectorExpr).X)
	}
	argExprs = append(argExprs, c.Args...)
	if len(argExprs) != len(fi.params) {
		t.fail(c, "variadic or mismatched call of %s", key)
	}
	var args []string
	for i, a := range argExprs {
		if fi.optParam[i] {
			args = append(args, t.optArg(a))
		} else {
			args = append(args, t.expr(a))
		}
	}
	t.deps[fi.lean] = true
	app := "(" + fi.lean
	for _, a := range args {
		app += " " + a
	}
	app += ")"
	if fi.fuel {
		t.fail(c, "call of a function with an unbounded loop (%s) from translated code", key)
	}
	nres := sig.Results().Len()
	nmut := 0
	for _, m := range fi.mutated {
		if m {
			nmut++
		}
	}
	if nmut == 0 && nres == 1 {
		return []string{app}
	}
	// hoist: bind all components
	var names []string
	for i := 0; i < nres; i++ {
		names = append(names, t.fresh("r"))
	}
	var mutNames []string
	for i, m := range fi.mutated {
		if m {
			mutNames = append(mutNames, t.fresh("m"))
			_ = i
		}
	}
	all := append(append([]string{}, names...), mutNames...)
	if len(all) == 1 {
		t.pre = append(t.pre, "let "+all[0]+" := "+app)
	} else {
		t.pre = append(t.pre, "let ("+strings.Join(all, ", ")+") := "+app)
	}
	k := 0
	for i, m := range fi.mutated {
		if m {
			if t.isLvalue(argExprs[i]) {
				t.assignTo(argExprs[i], mutNames[k])
			}
			k++
		}
	}
	if want > nres {
		t.fail(c, "call yields %d results, %d wanted", nres, want)
	}
	return names
}

func (t *tr) callArgs(c *ast.CallExpr, sig *types.Signature, _ []bool) []string {
	if sig.Variadic() {
		// f(xs...) or f(a, b, c): pass a list
		if c.Ellipsis != token.NoPos {
			return t.exprs(c.Args)
		}
		n := sig.Params().Len() - 1
		var r []string
		for i := 0; i < n; i++ {
			r = append(r, t.expr(c.Args[i]))
		}
		r = append(r, "["+strings.Join(t.exprs(c.Args[n:]), ", ")+"]")
		return r
	}
	return t.exprs(c.Args)
}

func (t *tr) builtin(name string, c *ast.CallExpr) string {
	switch name {
	case "len":
		return "(I3.Go.len " + t.expr(c.Args[0]) + ")"
	case "new":
		return zeroValue(t.typeOf(c.Args[0]))
	case "make":
		ty := t.typeOf(c.Args[0])
		if _, ok := types.Unalias(ty).Underlying().(*types.Slice); !ok {
			t.fail(c, "make of non-slice")
		}
		return "(I3.Go.make " + t.expr(c.Args[1]) + " : " + leanType(ty) + ")"
	case "append":
		base := t.expr(c.Args[0])
		if c.Ellipsis != token.NoPos {
			return "(" + base + " ++ " + t.expr(c.Args[1]) + ")"
		}
		return "(" + base + " ++ [" + strings.Join(t.exprs(c.Args[1:]), ", ") + "])"
	case "copy":
		// value of copy (count) unsupported; as a statement handled in stmt
		t.fail(c, "copy used as an expression")
	}
	t.fail(c, "unsupported builtin %s", name)
	return ""
}

// inside ff/ffg the value-level methods that T6 translates are called as translated functions;
// everywhere else the Element API is a primitive (I3.Go.fe.*)
func translatedHere(t *tr, fn *types.Func) bool {
	k := funcKey(fn)
	pd := pkgDirOf(fn.Pkg())
	return only[pd][k] && t.f != nil && t.f.pkgdir == pd
}

// libMethod: math/big and field-element methods
func (t *tr) libMethod(c *ast.CallExpr, sel *ast.SelectorExpr, fn *types.Func) string {
	recvT := fn.Type().(*types.Signature).Recv().Type()
	name := fn.Name()
	args := t.exprs(c.Args)
	var mut func(a []string) string
	var mutOpt func(a []string) string
	if isBigLib(recvT) {
		if p, ok := bigPure[name]; ok {
			return p(t.expr(sel.X), args)
		}
		mut = bigMut[name]
		mutOpt = bigMutOpt[name]
	} else {
		if p, ok := elemPure[name]; ok {
			return p(t.expr(sel.X), args)
		}
		if am, ok := elemArgMut[name]; ok {
			v := am(t.expr(sel.X))
			if t.isLvalue(c.Args[0]) {
				t.assignTo(c.Args[0], v)
			}
			return v
		}
		mut = elemMut(modulusOf(recvT))[name]
	}
	if mut == nil && mutOpt == nil {
		t.fail(c, "unsupported library method %s.%s", recvT, name)
	}
	if mutOpt != nil {
		// receiver keeps its value when the result is nil
		r := t.fresh("o")
		t.pre = append(t.pre, "let "+r+" := "+mutOpt(args))
		if t.isLvalue(sel.X) {
			old := t.expr(sel.X)
			t.assignTo(sel.X, "("+r+".getD "+old+")")
		}
		t.optResult = r
		return "(I3.Go.deref " + r + ")"
	}
	v := mut(args)
	if t.isLvalue(sel.X) {
		if vr := t.rootVar(sel.X); vr != nil && isGlobal(vr) {
			t.fail(c, "write to package-level variable %s", vr.Name())
		}
		t.assignTo(sel.X, v)
		return t.expr(sel.X)
	}
	return v
}
