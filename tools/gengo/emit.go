package main

import (
	"fmt"
	"go/ast"
	"go/token"
	"go/types"
	"os"
	"path/filepath"
	"sort"
	"strings"

	"golang.org/x/tools/go/packages"
)

type globalInit struct {
	pkg    *packages.Package
	pkgdir string
	v      *types.Var
	val    ast.Expr
}

var globalInits = map[string]*globalInit{}
var globalDefs = map[string]string{} // key -> lean name (once translated)
// package-level variables that have an initialiser AND are modified by an init(): translated code must not read the
// initialiser as their value (checked at the end of the run)
var initModified = map[string]bool{}

type leanDef struct {
	name string
	text string
	deps map[string]bool
	pos  token.Pos
	mod  string // Lean module the definition is emitted into
}

var defsByPkg = map[string][]*leanDef{}
var defByName = map[string]*leanDef{}
var failures []string

func newTr(fi *funcInfo, info *types.Info) *tr {
	return &tr{f: fi, info: info, names: map[*types.Var]string{}, used: map[string]bool{}, opt: map[*types.Var]bool{}, deps: map[string]bool{}}
}

// by-reference parameter types: writes through them are visible to the caller
func byRef(ty types.Type) bool {
	switch types.Unalias(ty).Underlying().(type) {
	case *types.Pointer, *types.Slice:
		return true
	}
	return false
}

func hasPointerField(ty types.Type) bool {
	st := structOf(ty)
	if st == nil {
		return false
	}
	for i := 0; i < st.NumFields(); i++ {
		if byRef(st.Field(i).Type()) {
			return true
		}
	}
	return false
}

// analyse: parameters written through; parameters compared with nil.  Returns true when something changed.
func analyse(fi *funcInfo) (changed bool) {
	curLimb = limbMode[fi.key]
	defer func() { curLimb = false }()
	defer func() {
		if r := recover(); r != nil {
			if _, ok := r.(fail); ok {
				return // reported at translation time
			}
			panic(r)
		}
	}()
	t := newTr(fi, fi.pkg.TypesInfo)
	ws := t.writesOf(fi.decl.Body)
	for i, p := range fi.params {
		m := false
		if ws.deep[p] {
			if byRef(p.Type()) {
				m = true
			}
		}
		if m && !fi.mutated[i] {
			fi.mutated[i] = true
			changed = true
		}
	}
	return
}

func nilCompared(info *types.Info, body ast.Node) map[*types.Var]bool {
	r := map[*types.Var]bool{}
	ast.Inspect(body, func(n ast.Node) bool {
		be, ok := n.(*ast.BinaryExpr)
		if !ok || (be.Op != token.EQL && be.Op != token.NEQ) {
			return true
		}
		for _, pr := range [][2]ast.Expr{{be.X, be.Y}, {be.Y, be.X}} {
			if id, ok := pr[1].(*ast.Ident); ok {
				if _, isNil := info.ObjectOf(id).(*types.Nil); isNil {
					if oid, ok := pr[0].(*ast.Ident); ok {
						if v, ok := info.ObjectOf(oid).(*types.Var); ok && !isError(v.Type()) {
							r[v] = true
						}
					}
				}
			}
		}
		return true
	})
	return r
}

func modKey(pd string, limb bool) string {
	if limb {
		return pd + "#limb"
	}
	return pd
}

func translateFunc(fi *funcInfo) { translateFuncMode(fi, false) }

// the CHECKED variant `<name>_ok : … → Bool`: true iff the call reaches a return without an index or slice bound
// violation, a negative make, a division by zero, a nil dereference of a nil-able parameter, an explicit panic or an
// exhausted unbounded loop, here or in a translated callee.
func translateFuncChk(fi *funcInfo) { translateFuncMode(fi, true) }

func translateFuncMode(fi *funcInfo, chk bool) {
	if ts := soleTypeSwitch(fi.decl); ts != nil {
		// one definition per case of the type switch (the dynamic dispatch itself is the Go runtime's)
		seenDefault := false
		for _, st := range ts.Body.List {
			cc := st.(*ast.CaseClause)
			if cc.List == nil {
				seenDefault = true
			}
			translateFuncCase(fi, chk, ts, cc)
		}
		_ = seenDefault
		return
	}
	translateFuncCase(fi, chk, nil, nil)
}

// typeTag: a Lean-identifier-safe name of a case type
func typeTag(ty types.Type) string {
	s := types.TypeString(ty, func(p *types.Package) string { return p.Name() })
	r := strings.NewReplacer("*", "ptr_", ".", "_", "[]", "slice_", "[", "arr", "]", "_", " ", "")
	return r.Replace(s)
}

func translateFuncCase(fi *funcInfo, chk bool, ts *ast.TypeSwitchStmt, cc *ast.CaseClause) {
	curOwn = ownModule[fi.key]
	defer func() { curOwn = "" }()
	curLimb = limbMode[fi.key]
	defer func() { curLimb = false }()
	defer func() {
		if r := recover(); r != nil {
			if f, ok := r.(fail); ok {
				failures = append(failures, fi.key+": "+f.msg)
				return
			}
			panic(r)
		}
	}()
	t := newTr(fi, fi.pkg.TypesInfo)
	t.chk = chk
	t.opt = nilCompared(t.info, fi.decl.Body)
	caseSuffix, caseParam := "", ""
	if cc != nil {
		subj, ok := ast.Unparen(typeSwitchSubject(ts)).(*ast.Ident)
		if !ok || t.varOf(subj) == nil {
			t.fail(ts, "type switch on something other than a parameter")
		}
		t.caseClause, t.caseSubj = cc, t.varOf(subj)
		isParam := false
		for _, p := range fi.params {
			if p == t.caseSubj {
				isParam = true
			}
		}
		if !isParam {
			t.fail(ts, "type switch on something other than a parameter")
		}
		switch {
		case cc.List == nil:
			caseSuffix, caseParam = "_default", " (tyName : String)"
		case len(cc.List) == 1:
			ty := t.typeOf(cc.List[0])
			caseSuffix = "_case_" + typeTag(ty)
			if iv, ok := t.info.Implicits[cc].(*types.Var); ok && iv != nil {
				caseParam = " (" + t.name(iv) + " : " + leanType(ty) + ")"
			}
		default:
			t.fail(cc, "type-switch case with several types")
		}
	}
	sig := fi.obj.Type().(*types.Signature)
	namedPre := ""
	for i := 0; i < sig.Results().Len(); i++ {
		if rv := sig.Results().At(i); rv.Name() != "" && rv.Name() != "_" {
			t.namedRes = append(t.namedRes, rv)
			namedPre += "let " + t.name(rv) + " : " + leanType(rv.Type()) + " := " + zeroValue(rv.Type()) + "\n"
		}
	}
	if len(t.namedRes) != 0 && len(t.namedRes) != sig.Results().Len() {
		t.fail(fi.decl, "partially named results")
	}
	ws := t.writesOf(fi.decl.Body)
	t.fnDeep = t.writesOfOpt(fi.decl.Body, true).deep
	initPre := ""
	if fi.decl.Name.Name == "init" && fi.decl.Recv == nil {
		// an init(): the package-level variables it assigns are local to the translation and form its result
		t.initMode = true
		t.initVars = map[*types.Var]bool{}
		for v := range ws.vars {
			if isGlobal(v) {
				t.initVars[v] = true
			}
		}
		for _, v := range t.initOrder() {
			val := zeroValue(v.Type())
			if g, ok := globalInits[fi.pkgdir+"."+v.Name()]; ok {
				if fi.twin && containsElemType(v.Type(), nil) {
					t.fail(fi.decl, "limb twin of init(): %s holds field elements and has an initialiser", v.Name())
				}
				initModified[fi.pkgdir+"."+v.Name()] = true
				// declared with an initialiser: that value is what init starts from
				tt := newTr(&funcInfo{key: fi.key, pkgdir: fi.pkgdir, pkg: g.pkg}, g.pkg.TypesInfo)
				val = tt.expr(g.val)
				if len(tt.pre) > 0 {
					t.fail(fi.decl, "initialiser of %s has effects", v.Name())
				}
				for d := range tt.deps {
					t.deps[d] = true
				}
			}
			initPre += "let " + t.name(v) + " : " + leanType(v.Type()) + " := " + val + "\n"
		}
	}
	for i, p := range fi.params {
		if ws.deep[p] && !byRef(p.Type()) && hasPointerField(p.Type()) {
			t.fail(fi.decl, "by-value struct parameter %s is written through", p.Name())
		}
		if fi.mutated[i] && ws.whole[p] {
			t.fail(fi.decl, "parameter %s is both rebound and written through", p.Name())
		}
	}
	// return type
	var rts []string
	for i := 0; i < sig.Results().Len(); i++ {
		rt := leanType(sig.Results().At(i).Type())
		if fi.nilRes {
			rt = "(Option " + rt + ")"
		}
		rts = append(rts, rt)
	}
	t.nres = len(rts)
	for i, m := range fi.mutated {
		if m {
			rts = append(rts, leanType(fi.params[i].Type()))
		}
	}
	switch len(rts) {
	case 0:
		t.retTy = "Unit"
	case 1:
		t.retTy = rts[0]
	default:
		t.retTy = "(" + strings.Join(rts, " × ") + ")"
	}
	if fi.fuel {
		t.retTy = "(" + t.retTy + " × Bool)"
	}
	if t.initMode {
		t.retTy = t.tupleType(t.initOrder())
	}
	lname := fi.lean + caseSuffix
	if chk {
		t.retTy = "Bool"
		lname = fi.lean + caseSuffix + "_ok"
	}
	head := "def " + lname
	for i, p := range fi.params {
		if p == t.caseSubj {
			continue // the inspected interface value: replaced by the typed case variable below
		}
		ty := leanType(p.Type())
		if fi.optParam[i] {
			ty = "(Option " + ty + ")"
		}
		head += " (" + t.name(p) + " : " + ty + ")"
	}
	head += caseParam + " : " + t.retTy + " :="
	k := cont{top: true,
		fall: func() string {
			if chk {
				return "true"
			}
			if t.nres != 0 {
				return "default /- unreachable: Go requires a return -/"
			}
			return t.retTuple(nil)
		},
		retTerm: func(term string) string { return term }}
	body := initPre + namedPre + t.stmts(fi.decl.Body.List, k)
	what := fi.key
	if cc != nil {
		if cc.List == nil {
			what += ", default clause of the type switch (tyName: name of the dynamic type)"
		} else {
			what += ", case " + types.ExprString(cc.List[0]) + " of the type switch"
		}
	}
	doc := fmt.Sprintf("/-- `%s` (%s). -/\n", what, filepath.Base(fset.Position(fi.decl.Pos()).Filename))
	if chk {
		doc = fmt.Sprintf("/-- checked variant of `%s`: no run-time panic on this input. -/\n", what)
	}
	if fi.twin {
		doc = fmt.Sprintf("/-- limb twin of `%s` (%s): an Element is the list of its Montgomery limbs. -/\n", strings.TrimSuffix(what, twinSuffix), filepath.Base(fset.Position(fi.decl.Pos()).Filename))
	}
	d := &leanDef{name: lname, text: doc + head + "\n" + indent(body, 1) + "\n", deps: t.deps, pos: fi.decl.Pos()}
	mk := modKey(fi.pkgdir, limbMode[fi.key])
	if fi.twin {
		mk = fi.pkgdir + "#twin"
	}
	if chk {
		mk += "#chk"
	}
	if curOwn != "" {
		mk = "own:" + curOwn
	}
	d.mod = moduleOf(mk)
	defsByPkg[mk] = append(defsByPkg[mk], d)
	defByName[lname] = d
}

func translateGlobal(k string) string { return translateGlobalMode(k, false) }

// translateGlobalMode: the definition of a package-level variable with an initialiser.  twin: the LIMB TWIN of a variable
// that holds field elements (its initialiser translated a second time with the limb-mode rules, e.g.
// `mimc7.constants = generateConstantsData()` → `mimc7l_constants := mimc7l_generateConstantsData`); emitted into the
// twin module of its package, recorded under the key `<key>#limb`.
func translateGlobalMode(k string, twin bool) string {
	g := globalInits[k]
	lean := g.pkgdir + "_" + g.v.Name()
	if curLimb {
		lean = g.pkgdir + "l_" + g.v.Name()
	}
	gkey := k
	if twin {
		gkey = k + twinSuffix
	}
	globalDefs[gkey] = lean
	t := newTr(&funcInfo{key: gkey, pkgdir: g.pkgdir, pkg: g.pkg, twin: twin}, g.pkg.TypesInfo)
	val := t.expr(g.val)
	pre := t.flush()
	text := fmt.Sprintf("/-- package-level `var %s` of %s. -/\ndef %s : %s :=\n%s\n", g.v.Name(), g.pkgdir, lean, leanType(g.v.Type()), indent(pre+val, 1))
	if twin {
		text = fmt.Sprintf("/-- limb twin of the package-level `var %s` of %s: an Element is the list of its Montgomery limbs. -/\ndef %s : %s :=\n%s\n", g.v.Name(), g.pkgdir, lean, leanType(g.v.Type()), indent(pre+val, 1))
	}
	d := &leanDef{name: lean, text: text, deps: t.deps, pos: g.val.Pos()}
	gk := modKey(g.pkgdir, curLimb)
	if twin {
		gk = g.pkgdir + "#twin"
	}
	if curOwn != "" {
		gk = "own:" + curOwn
	}
	d.mod = moduleOf(gk)
	defsByPkg[gk] = append(defsByPkg[gk], d)
	defByName[lean] = d
	return lean
}

func main() {
	if len(os.Args) != 3 {
		die("usage: gen_go <repo> <outdir>")
	}
	repo, out := os.Args[1], os.Args[2]
	cfg := &packages.Config{Mode: packages.NeedName | packages.NeedFiles | packages.NeedSyntax | packages.NeedTypes | packages.NeedTypesInfo | packages.NeedImports | packages.NeedDeps,
		Dir: repo, Tests: false, Env: append(os.Environ(), "GOFLAGS=-mod=mod", "GOPROXY=off", "GOSUMDB=off", "GOTOOLCHAIN=local")}
	var pats []string
	for _, p := range pkgOrder {
		pats = append(pats, "./"+p)
	}
	for _, p := range initialiserPkgs {
		pats = append(pats, "./"+p)
	}
	pkgs, err := packages.Load(cfg, pats...)
	if err != nil {
		die("load: %v", err)
	}
	byDir := map[string]*packages.Package{}
	for _, p := range pkgs {
		if len(p.Errors) > 0 {
			die("package %s: %v", p.PkgPath, p.Errors[0])
		}
		fset = p.Fset
		byDir[strings.TrimPrefix(p.PkgPath, modPath)] = p
	}
	// collect functions and package-level initialisers
	for _, pd := range pkgOrder {
		p := byDir[pd]
		if p == nil {
			die("package %s not loaded", pd)
		}
		for _, f := range p.Syntax {
			for _, d := range f.Decls {
				switch dd := d.(type) {
				case *ast.FuncDecl:
					obj := p.TypesInfo.Defs[dd.Name].(*types.Func)
					key := funcKey(obj)
					if dd.Name.Name == "init" {
						// a package may have several init()s (ff, ffg: two): the first is `<pkg>.init`, then `<pkg>.init.2`, …
						key = pd + ".init"
						for n := 2; funcs[key] != nil; n++ {
							key = fmt.Sprintf("%s.init.%d", pd, n)
						}
						if o, restricted := only[pd]; restricted && !o[key] {
							die("%s: init() number %s of package %s is not in the translated set", fset.Position(dd.Pos()), strings.TrimPrefix(key, pd+".init"), pd)
						}
					}
					fi := &funcInfo{key: key, pkgdir: pd, decl: dd, pkg: p, obj: obj, lean: strings.ReplaceAll(key, ".", "_")}
					if limbMode[key] {
						fi.lean = pd + "l_" + strings.ReplaceAll(strings.TrimPrefix(key, pd+"."), ".", "_")
					}
					sig := obj.Type().(*types.Signature)
					if sig.Recv() != nil {
						fi.hasRecv = true
						fi.params = append(fi.params, sig.Recv())
					}
					for i := 0; i < sig.Params().Len(); i++ {
						fi.params = append(fi.params, sig.Params().At(i))
					}
					fi.mutated = make([]bool, len(fi.params))
					fi.optParam = make([]bool, len(fi.params))
					if dd.Body != nil {
						fi.fuel = hasWhile(dd.Body)
						if sig.Results().Len() == 1 {
							if _, isPtr := types.Unalias(sig.Results().At(0).Type()).Underlying().(*types.Pointer); isPtr {
								ast.Inspect(dd.Body, func(n ast.Node) bool {
									if r, ok := n.(*ast.ReturnStmt); ok && len(r.Results) == 1 {
										if id, ok := r.Results[0].(*ast.Ident); ok {
											if _, isNil := p.TypesInfo.ObjectOf(id).(*types.Nil); isNil {
												fi.nilRes = true
											}
										}
									}
									return true
								})
							}
						}
						nc := nilCompared(p.TypesInfo, dd.Body)
						for i, pv := range fi.params {
							if nc[pv] {
								fi.optParam[i] = true
							}
						}
					}
					funcs[key] = fi
					funcByObj[obj] = fi
				case *ast.GenDecl:
					if dd.Tok != token.VAR {
						continue
					}
					for _, sp := range dd.Specs {
						vs := sp.(*ast.ValueSpec)
						if len(vs.Values) != len(vs.Names) {
							continue
						}
						for i, id := range vs.Names {
							if v, ok := p.TypesInfo.Defs[id].(*types.Var); ok && v != nil {
								globalInits[pd+"."+v.Name()] = &globalInit{p, pd, v, vs.Values[i]}
							}
						}
					}
				}
			}
		}
	}
	for _, pd := range initialiserPkgs {
		if byDir[pd] == nil {
			die("package %s not loaded", pd)
		}
		translateInitialisers(pd, byDir[pd])
	}
	buildTwins()
	// write summaries to a fixed point
	for round := 0; round < 20; round++ {
		ch := false
		for _, k := range sortedKeys() {
			fi := funcs[k]
			if _, s := skip[k]; s || fi.decl.Body == nil || !wanted(fi) {
				continue
			}
			if analyse(fi) {
				ch = true
			}
		}
		if !ch {
			break
		}
	}
	// translate
	var translated, skipped []string
	for _, k := range sortedKeys() {
		fi := funcs[k]
		if r, s := skip[k]; s {
			skipped = append(skipped, k+" — "+r)
			continue
		}
		if fi.decl.Body == nil || !wanted(fi) {
			continue
		}
		translateFunc(fi)
		if fi.twin {
			// limb twins have no checked variant and are not part of GoIndex (listed in GoIndexLimb)
			continue
		}
		translateFuncChk(fi)
		if unindexed[k] {
			continue
		}
		translated = append(translated, k)
	}
	if len(failures) > 0 {
		for _, f := range failures {
			fmt.Fprintln(os.Stderr, "gen_go: cannot translate "+f)
		}
		os.Exit(2)
	}
	// emit
	for _, pd := range pkgOrder {
		var b strings.Builder
		b.WriteString("-- GENERATED by tools/gengo (T6) from /repo/" + pd + " — do not edit\n")
		b.WriteString("import I3.Exec.Go\nimport I3.Exec.GoExt\n")
		for _, im := range pkgImports[pd] {
			b.WriteString("import I3.Gen." + im + "\n")
		}
		b.WriteString("set_option linter.unusedVariables false\nset_option maxRecDepth 4096\nnamespace I3.Gen.Go\n\n")
		for _, d := range topo(defsByPkg[pd]) {
			b.WriteString(d.text + "\n")
		}
		b.WriteString("end I3.Gen.Go\n")
		writeIfChanged(filepath.Join(out, pkgModule[pd]+".lean"), b.String())
	}
	// functions with a module of their own (ordinary + checked definition together)
	for _, mod := range ownModules {
		var b strings.Builder
		b.WriteString("-- GENERATED by tools/gengo (T6) — do not edit\n")
		b.WriteString("import I3.Exec.Go\nimport I3.Exec.GoExt\n")
		for _, im := range ownImports[mod] {
			b.WriteString("import I3.Gen." + im + "\n")
		}
		b.WriteString("set_option linter.unusedVariables false\nset_option maxRecDepth 10000000\nnamespace I3.Gen.Go\n\n")
		for _, d := range topo(defsByPkg["own:"+mod]) {
			b.WriteString(d.text + "\n")
		}
		b.WriteString("end I3.Gen.Go\n")
		writeIfChanged(filepath.Join(out, mod+".lean"), b.String())
	}
	// checked variants: one module per value-mode module and per limb-mode module
	allNormal := []string{}
	for _, pd := range pkgOrder {
		allNormal = append(allNormal, pkgModule[pd])
	}
	allNormal = append(allNormal, limbModule["ff"], limbModule["ffg"])
	emitChk := func(mk, mod string, imports []string) {
		var b strings.Builder
		b.WriteString("-- GENERATED by tools/gengo (T6, checked variants) — do not edit\n")
		b.WriteString("import I3.Exec.Go\nimport I3.Exec.GoExt\n")
		for _, im := range allNormal {
			b.WriteString("import I3.Gen." + im + "\n")
		}
		for _, im := range imports {
			b.WriteString("import I3.Gen.GoChk" + strings.TrimPrefix(im, "Go") + "\n")
		}
		b.WriteString("set_option linter.unusedVariables false\nset_option maxRecDepth 4096\nnamespace I3.Gen.Go\n\n")
		for _, d := range topo(defsByPkg[mk]) {
			b.WriteString(d.text + "\n")
		}
		b.WriteString("end I3.Gen.Go\n")
		writeIfChanged(filepath.Join(out, "GoChk"+strings.TrimPrefix(mod, "Go")+".lean"), b.String())
	}
	for _, pd := range pkgOrder {
		emitChk(pd+"#chk", pkgModule[pd], pkgImports[pd])
	}
	for _, pd := range []string{"ff", "ffg"} {
		emitChk(modKey(pd, true)+"#chk", limbModule[pd], nil)
	}
	for _, pd := range []string{"ff", "ffg"} {
		var b strings.Builder
		b.WriteString("-- GENERATED by tools/gengo (T6, limb mode) from /repo/" + pd + " — do not edit\n")
		b.WriteString("import I3.Exec.Go\nimport I3.Exec.GoExt\n")
		b.WriteString("set_option linter.unusedVariables false\nset_option maxRecDepth 4096\nnamespace I3.Gen.Go\n\n")
		for _, d := range topo(defsByPkg[modKey(pd, true)]) {
			b.WriteString(d.text + "\n")
		}
		b.WriteString("end I3.Gen.Go\n")
		writeIfChanged(filepath.Join(out, limbModule[pd]+".lean"), b.String())
	}
	emitTwins(out)
	var b strings.Builder
	b.WriteString("-- GENERATED by tools/gengo (T6) — do not edit\nnamespace I3.Gen.Go\n")
	b.WriteString("def translatedFunctions : List String := [\n")
	for i, k := range translated {
		sep := ","
		if i == len(translated)-1 {
			sep = ""
		}
		b.WriteString(fmt.Sprintf("  %q%s\n", k, sep))
	}
	b.WriteString("]\ndef skippedFunctions : List String := [\n")
	for i, k := range skipped {
		sep := ","
		if i == len(skipped)-1 {
			sep = ""
		}
		b.WriteString(fmt.Sprintf("  %q%s\n", k, sep))
	}
	// per translated function: the pointer/slice parameters (receiver first, "recv:" prefix) it writes through —
	// T6's own effect analysis (fixpoint over callees), the subject of I3.Props.C16Gen
	b.WriteString("]\n/-- (package, function, exported, receiver written, operands written) -/\ndef writtenParams : List (String × String × Bool × Bool × List String) := [\n")
	first := true
	for _, k := range translated {
		fi := funcs[k]
		if fi == nil {
			continue
		}
		recvW := false
		var ws []string
		for i, m := range fi.mutated {
			if !m || i >= len(fi.params) {
				continue
			}
			if fi.hasRecv && i == 0 {
				recvW = true
				continue
			}
			ws = append(ws, fmt.Sprintf("%q", fi.params[i].Name()))
		}
		if !recvW && len(ws) == 0 {
			continue
		}
		if !first {
			b.WriteString(",\n")
		}
		first = false
		b.WriteString(fmt.Sprintf("  (%q, %q, %v, %v, [%s])", fi.pkgdir, strings.TrimPrefix(k, fi.pkgdir+"."), fi.obj.Exported(), recvW, strings.Join(ws, ", ")))
	}
	b.WriteString("\n]\nend I3.Gen.Go\n")
	writeIfChanged(filepath.Join(out, "GoIndex.lean"), b.String())
	for k := range initModified {
		if _, ok := globalDefs[k]; ok {
			die("package-level variable %s has an initialiser, is modified by init() and is read by translated code", k)
		}
		if _, ok := globalDefs[k+twinSuffix]; ok {
			die("package-level variable %s has an initialiser, is modified by init() and is read by a limb twin", k)
		}
	}
	fmt.Printf("gen_go: %d functions translated, %d skipped, %d package-level values, %d limb twins\n", len(translated), len(skipped), len(globalDefs), len(twinKeys))
}

func wanted(fi *funcInfo) bool {
	if o, ok := only[fi.pkgdir]; ok {
		return o[fi.key]
	}
	return true
}

func sortedKeys() []string {
	var ks []string
	for k := range funcs {
		ks = append(ks, k)
	}
	sort.Strings(ks)
	return ks
}

func topo(ds []*leanDef) []*leanDef {
	sort.Slice(ds, func(i, j int) bool {
		pi, pj := fset.Position(ds[i].pos), fset.Position(ds[j].pos)
		if pi.Filename != pj.Filename {
			return filepath.Base(pi.Filename) < filepath.Base(pj.Filename)
		}
		return pi.Offset < pj.Offset
	})
	in := map[string]bool{}
	for _, d := range ds {
		in[d.name] = true
	}
	var out []*leanDef
	state := map[string]int{}
	var visit func(d *leanDef)
	visit = func(d *leanDef) {
		switch state[d.name] {
		case 1:
			die("recursive definition %s", d.name)
		case 2:
			return
		}
		state[d.name] = 1
		var deps []string
		for n := range d.deps {
			deps = append(deps, n)
		}
		sort.Strings(deps)
		for _, n := range deps {
			if in[n] && n != d.name {
				visit(defByName[n])
			} else if n == d.name {
				die("recursive definition %s", d.name)
			}
		}
		state[d.name] = 2
		out = append(out, d)
	}
	for _, d := range ds {
		visit(d)
	}
	return out
}

func writeIfChanged(path, content string) {
	if old, err := os.ReadFile(path); err == nil && string(old) == content {
		return
	}
	if err := os.WriteFile(path, []byte(content), 0o644); err != nil {
		die("write %s: %v", path, err)
	}
}

// emitTwins: one module per package that has limb twins (imports computed from the definitions referenced), and the
// list of twins (GoIndexLimb)
func emitTwins(out string) {
	var mods []string
	for _, pd := range pkgOrder {
		ds := defsByPkg[pd+"#twin"]
		if len(ds) == 0 {
			continue
		}
		mod := twinModName(pd)
		mods = append(mods, mod)
		imports := map[string]bool{}
		needExtLimb := false
		for _, d := range ds {
			for n := range d.deps {
				dd, ok := defByName[n]
				if !ok {
					die("limb twin %s refers to %s, which is not a generated definition", d.name, n)
				}
				if dd.mod != mod {
					imports[dd.mod] = true
				}
			}
			for _, g := range twinGlobalMap {
				if strings.Contains(d.text, g) {
					needExtLimb = true
				}
			}
			for _, g := range extLimbPrims {
				if strings.Contains(d.text, g) {
					needExtLimb = true
				}
			}
		}
		var ims []string
		for m := range imports {
			ims = append(ims, m)
		}
		sort.Strings(ims)
		var b strings.Builder
		b.WriteString("-- GENERATED by tools/gengo (T6, limb twin) from /repo/" + pd + " — do not edit\n")
		b.WriteString("import I3.Exec.Go\nimport I3.Exec.GoExt\n")
		if needExtLimb {
			b.WriteString("import I3.Exec.GoExtLimb\n")
		}
		for _, im := range ims {
			b.WriteString("import I3.Gen." + im + "\n")
		}
		b.WriteString("set_option linter.unusedVariables false\nset_option maxRecDepth 4096\nnamespace I3.Gen.Go\n\n")
		for _, d := range topo(ds) {
			b.WriteString(d.text + "\n")
		}
		b.WriteString("end I3.Gen.Go\n")
		writeIfChanged(filepath.Join(out, mod+".lean"), b.String())
	}
	var b strings.Builder
	b.WriteString("-- GENERATED by tools/gengo (T6, limb twins) — do not edit\nnamespace I3.Gen.Go\n")
	b.WriteString("/-- (Go function, Lean name of its limb twin) -/\ndef limbTwinFunctions : List (String × String) := [\n")
	ks := append([]string{}, twinKeys...)
	sort.Strings(ks)
	for i, k := range ks {
		sep := ","
		if i == len(ks)-1 {
			sep = ""
		}
		b.WriteString(fmt.Sprintf("  (%q, %q)%s\n", k, funcs[k+twinSuffix].lean, sep))
	}
	b.WriteString("]\nend I3.Gen.Go\n")
	writeIfChanged(filepath.Join(out, "GoIndexLimb.lean"), b.String())
}

// packages WITHOUT functions of interest whose package-level variable initialisers are translated as ONE definition
// `<pkg>_init`: the tuple of the package's variables, in declaration order, as the initialisers compute them
// (`constants`: `var Q, _ = new(big.Int).SetString(qString, 10)`, `big.NewInt(0/1/-1)`).  Fails closed on an initialiser
// that reads another package-level variable (Go initialises in dependency order, not in declaration order), on a
// variable without initialiser and on any function declaration named init in such a package.
var initialiserPkgs = []string{"constants"}

func translateInitialisers(pd string, p *packages.Package) {
	defer func() {
		if r := recover(); r != nil {
			if f, ok := r.(fail); ok {
				die("cannot translate the initialisers of package %s: %s", pd, f.msg)
			}
			panic(r)
		}
	}()
	t := newTr(&funcInfo{key: pd + ".init", pkgdir: pd, pkg: p}, p.TypesInfo)
	files := append([]*ast.File{}, p.Syntax...)
	sort.Slice(files, func(i, j int) bool {
		return fset.Position(files[i].Pos()).Filename < fset.Position(files[j].Pos()).Filename
	})
	body := ""
	var names, tys []string
	pos := token.NoPos
	for _, f := range files {
		for _, d := range f.Decls {
			if fd, ok := d.(*ast.FuncDecl); ok {
				if fd.Name.Name == "init" && fd.Recv == nil {
					t.fail(fd, "package %s has an init() (only initialisers are translated for it)", pd)
				}
				continue
			}
			gd, ok := d.(*ast.GenDecl)
			if !ok || gd.Tok != token.VAR {
				continue
			}
			for _, sp := range gd.Specs {
				vs := sp.(*ast.ValueSpec)
				if pos == token.NoPos {
					pos = vs.Pos()
				}
				if len(vs.Values) == 0 {
					t.fail(vs, "package-level variable without initialiser")
				}
				for _, e := range vs.Values {
					ast.Inspect(e, func(n ast.Node) bool {
						if id, ok := n.(*ast.Ident); ok {
							if v, ok := p.TypesInfo.Uses[id].(*types.Var); ok && isGlobal(v) {
								t.fail(id, "initialiser reads the package-level variable %s", v.Name())
							}
						}
						return true
					})
				}
				var vals []string
				switch {
				case len(vs.Values) == len(vs.Names):
					for _, e := range vs.Values {
						vals = append(vals, t.expr(e))
					}
				case len(vs.Values) == 1:
					c, ok := ast.Unparen(vs.Values[0]).(*ast.CallExpr)
					if !ok {
						t.fail(vs, "unsupported initialiser")
					}
					vals = t.call(c, len(vs.Names))
					if len(vals) != len(vs.Names) {
						t.fail(vs, "initialiser yields %d values for %d names", len(vals), len(vs.Names))
					}
				default:
					t.fail(vs, "unsupported initialiser")
				}
				body += t.flush()
				for i, id := range vs.Names {
					if id.Name == "_" {
						continue
					}
					v := p.TypesInfo.Defs[id].(*types.Var)
					body += "let " + t.name(v) + " : " + leanType(v.Type()) + " := " + vals[i] + "\n"
					names = append(names, t.name(v))
					tys = append(tys, leanType(v.Type()))
				}
			}
		}
	}
	if len(names) == 0 {
		die("package %s has no package-level variable", pd)
	}
	ret, retTy := names[0], tys[0]
	if len(names) > 1 {
		ret, retTy = "("+strings.Join(names, ", ")+")", "("+strings.Join(tys, " × ")+")"
	}
	lean := pd + "_init"
	text := fmt.Sprintf("/-- the package-level variables of `%s` (%s) as their initialisers compute them. -/\ndef %s : %s :=\n%s\n",
		pd, strings.Join(names, ", "), lean, retTy, indent(body+ret, 1))
	d := &leanDef{name: lean, text: text, deps: t.deps, pos: pos}
	mk := "own:GoFieldInit"
	d.mod = moduleOf(mk)
	defsByPkg[mk] = append(defsByPkg[mk], d)
	defByName[lean] = d
}
