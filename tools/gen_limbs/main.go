// T2 — limb-kernel translator.
// Translates the straight-line uint64 code of /repo/ff and /repo/ffg (Montgomery multiplication,
// add/sub/neg/double/reduce/halve, madd helpers, comparison chains, small-constant multiples,
// butterfly) statement by statement into Lean 4 definitions over Nat with explicit `% 2^64`.
//
//   - every array cell (`z[2]`, `t[0]`, …) is its own variable `z_2`, re-bound by `let` on assignment;
//   - `bits.Add64/Sub64/Mul64`, wrapping `*`/`+`, shifts, `|`, `&` map to the primitives of I3.Exec.Word;
//   - `if` without else merges the assigned variables as a tuple; `if … { …; return }` turns the rest of
//     the function into the else branch; `switch` on constants becomes an if-chain;
//   - calls of repo functions and of the element methods Add/Sub/Double/Neg/Mul/Square/Set/SetZero/IsZero…
//     become calls of the translated definitions;
//   - for each function one definition per aliasing pattern of its *Element parameters (z≡x, z≡y, x≡y, all),
//     in which the aliased parameters share their storage cells — so "the destination may alias an operand"
//     is a theorem about generated code, not an assumption.
//
// Anything outside this subset (loops, other statements, unknown calls) aborts with exit code 2:
// a translator failure is a broken tie, never a pass.
package main

import (
	"fmt"
	"go/ast"
	"go/parser"
	"go/token"
	"os"
	"path/filepath"
	"reflect"
	"sort"
	"strconv"
	"strings"
)

func die(f string, a ...interface{}) {
	fmt.Fprintf(os.Stderr, "gen_limbs: "+f+"\n", a...)
	os.Exit(2)
}

type pkgInfo struct {
	name    string
	limbs   int
	funcs   map[string]*ast.FuncDecl // by name (methods keyed as "M.Name")
	fset    *token.FileSet
	files   map[string][]byte
	rSquare []string
}

func (p *pkgInfo) src(n ast.Node) string {
	a, b := p.fset.Position(n.Pos()), p.fset.Position(n.End())
	return string(p.files[a.Filename][a.Offset:b.Offset])
}

func loadPkg(repo, name string, files []string) *pkgInfo {
	p := &pkgInfo{name: name, funcs: map[string]*ast.FuncDecl{}, fset: token.NewFileSet(), files: map[string][]byte{}}
	for _, fn := range files {
		path := filepath.Join(repo, name, fn)
		b, err := os.ReadFile(path)
		if err != nil {
			die("read %s: %v", path, err)
		}
		p.files[path] = b
		f, err := parser.ParseFile(p.fset, path, b, 0)
		if err != nil {
			die("parse %s: %v", path, err)
		}
		for _, d := range f.Decls {
			switch dd := d.(type) {
			case *ast.FuncDecl:
				key := dd.Name.Name
				if dd.Recv != nil {
					key = "M." + key
				}
				p.funcs[key] = dd
			case *ast.GenDecl:
				for _, s := range dd.Specs {
					if vs, ok := s.(*ast.ValueSpec); ok && len(vs.Names) == 1 && vs.Names[0].Name == "rSquare" && len(vs.Values) == 1 {
						cl, ok := vs.Values[0].(*ast.CompositeLit)
						if !ok {
							die("%s: rSquare is not a composite literal", name)
						}
						for _, e := range cl.Elts {
							n, err := strconv.ParseUint(p.src(e), 0, 64)
							if err != nil {
								die("%s: rSquare limb", name)
							}
							p.rSquare = append(p.rSquare, strconv.FormatUint(n, 10))
						}
					}
					if ts, ok := s.(*ast.TypeSpec); ok && ts.Name.Name == "Element" {
						at, ok := ts.Type.(*ast.ArrayType)
						if !ok {
							die("%s: Element is not an array type", name)
						}
						n, err := strconv.Atoi(p.src(at.Len))
						if err != nil {
							die("%s: Element length", name)
						}
						p.limbs = n
					}
				}
			}
		}
	}
	if p.limbs == 0 {
		die("%s: type Element not found", name)
	}
	return p
}

// ---------------------------------------------------------------------------------------------
// translation state

type varKind int

const (
	kWord varKind = iota // uint64 / uint8 scalar
	kArr                 // fixed array of words: cells name_i
	kBool
)

type variable struct {
	kind   varKind
	n      int    // cells for kArr
	store  string // storage name (aliasing: several Go names may share one storage)
	narrow bool   // declared with a type narrower than uint64 (uint8 parameter): read-only here
}

type fnTrans struct {
	p        *pkgInfo
	fd       *ast.FuncDecl
	vars     map[string]*variable
	scopes   []map[string]*variable // active scope-entry snapshots, innermost last
	out      *strings.Builder
	retExp   func() string // return tuple expression in the current state
	named    []string      // named results
	nextID   int
	optional bool     // function contains loops: it returns Option (none = fuel exhausted)
	aux      []string // auxiliary loop definitions emitted before the function
	nextLoop int
	retType  string
	// piece mode (loop bodies and straight-line segments as separate non-recursive definitions)
	pieceRet func(ret string) string // how a `return` inside a segment is rendered
}

func (t *fnTrans) fail(n ast.Node, f string, a ...interface{}) {
	pos := t.p.fset.Position(n.Pos())
	die("%s:%d (%s): %s\n    %s", pos.Filename, pos.Line, t.fd.Name.Name, fmt.Sprintf(f, a...), t.p.src(n))
}

func cell(store string, i int) string { return fmt.Sprintf("%s_%d", store, i) }

func (t *fnTrans) lookup(n ast.Node, name string) *variable {
	v, ok := t.vars[name]
	if !ok {
		t.fail(n, "unknown variable %s", name)
	}
	return v
}

func intConst(e ast.Expr) (int, bool) {
	if bl, ok := e.(*ast.BasicLit); ok && bl.Kind == token.INT {
		n, err := strconv.ParseInt(strings.ReplaceAll(bl.Value, "_", ""), 0, 64)
		if err == nil {
			return int(n), true
		}
	}
	return 0, false
}

// word-valued expression
func (t *fnTrans) word(e ast.Expr) string {
	switch v := e.(type) {
	case *ast.BasicLit:
		if v.Kind != token.INT {
			t.fail(e, "unsupported literal")
		}
		// normalise to decimal
		n, err := strconv.ParseUint(strings.ReplaceAll(v.Value, "_", ""), 0, 64)
		if err != nil {
			t.fail(e, "literal does not fit uint64")
		}
		return strconv.FormatUint(n, 10)
	case *ast.Ident:
		vv := t.lookup(e, v.Name)
		if vv.kind != kWord {
			t.fail(e, "expected a word variable")
		}
		return vv.store
	case *ast.ParenExpr:
		return t.word(v.X)
	case *ast.IndexExpr:
		id, ok := v.X.(*ast.Ident)
		if !ok {
			t.fail(e, "unsupported index base")
		}
		vv := t.lookup(e, id.Name)
		if vv.kind != kArr {
			t.fail(e, "indexing a non-array")
		}
		i, ok := intConst(v.Index)
		if !ok || i < 0 || i >= vv.n {
			t.fail(e, "index is not a constant in range")
		}
		return cell(vv.store, i)
	case *ast.CallExpr:
		// conversions uint64(x), uint8(x)
		if id, ok := v.Fun.(*ast.Ident); ok && (id.Name == "uint64") && len(v.Args) == 1 {
			return t.word(v.Args[0])
		}
		r := t.call(v)
		if len(r.parts) != 1 {
			t.fail(e, "call used as a single value returns %d values", len(r.parts))
		}
		return "(" + r.expr + ")"
	case *ast.BinaryExpr:
		a, b := t.word(v.X), t.word(v.Y)
		switch v.Op {
		case token.MUL:
			return fmt.Sprintf("((%s * %s) %% W)", a, b)
		case token.ADD:
			return fmt.Sprintf("((%s + %s) %% W)", a, b)
		case token.SUB:
			return fmt.Sprintf("((%s + W - %s) %% W)", a, b)
		case token.OR:
			return fmt.Sprintf("(%s ||| %s)", a, b)
		case token.AND:
			return fmt.Sprintf("(%s &&& %s)", a, b)
		case token.XOR:
			return fmt.Sprintf("(%s ^^^ %s)", a, b)
		case token.SHR:
			k, ok := intConst(v.Y)
			if !ok || k < 0 || k > 63 {
				t.fail(e, "shift count must be a constant 0..63")
			}
			return fmt.Sprintf("(%s >>> %d)", a, k)
		case token.SHL:
			k, ok := intConst(v.Y)
			if !ok || k < 0 || k > 63 {
				t.fail(e, "shift count must be a constant 0..63")
			}
			return fmt.Sprintf("((%s <<< %d) %% W)", a, k)
		}
		t.fail(e, "unsupported word operator %s", v.Op)
	}
	t.fail(e, "unsupported word expression")
	return ""
}

// boolean expression
func (t *fnTrans) cond(e ast.Expr) string {
	switch v := e.(type) {
	case *ast.ParenExpr:
		return "(" + t.cond(v.X) + ")"
	case *ast.UnaryExpr:
		if v.Op == token.NOT {
			return "(!" + t.cond(v.X) + ")"
		}
	case *ast.Ident:
		vv := t.lookup(e, v.Name)
		if vv.kind == kBool {
			return vv.store
		}
	case *ast.BinaryExpr:
		switch v.Op {
		case token.LOR:
			return "(" + t.cond(v.X) + " || " + t.cond(v.Y) + ")"
		case token.LAND:
			return "(" + t.cond(v.X) + " && " + t.cond(v.Y) + ")"
		case token.LSS, token.GTR, token.LEQ, token.GEQ, token.EQL, token.NEQ:
			op := map[token.Token]string{token.LSS: "<", token.GTR: ">", token.LEQ: "≤", token.GEQ: "≥", token.EQL: "=", token.NEQ: "≠"}[v.Op]
			return fmt.Sprintf("decide (%s %s %s)", t.word(v.X), op, t.word(v.Y))
		}
	case *ast.CallExpr:
		if sel, ok := v.Fun.(*ast.SelectorExpr); ok && sel.Sel.Name == "IsZero" && len(v.Args) == 0 {
			vv := t.elemArg(sel.X)
			parts := []string{}
			for i := 0; i < vv.n; i++ {
				parts = append(parts, cell(vv.store, i))
			}
			return "decide ((" + strings.Join(parts, " ||| ") + ") = 0)"
		}
	}
	t.fail(e, "unsupported condition")
	return ""
}

type callRes struct {
	expr  string
	parts []string // kinds of the returned components: "w" word, or "a:<n>" array cells flattened
	// for element-method / pointer-param calls: which stores receive the leading components
	writes []*variable
}

// an *Element argument: identifier of pointer param / &local / local array
func (t *fnTrans) elemArg(e ast.Expr) *variable {
	switch v := e.(type) {
	case *ast.Ident:
		vv := t.lookup(e, v.Name)
		if vv.kind == kArr {
			return vv
		}
	case *ast.UnaryExpr:
		if v.Op == token.AND {
			return t.elemArg(v.X)
		}
	case *ast.StarExpr:
		return t.elemArg(v.X)
	case *ast.ParenExpr:
		return t.elemArg(v.X)
	}
	t.fail(e, "expected an element (array) argument")
	return nil
}

func cells(v *variable) []string {
	r := make([]string, v.n)
	for i := range r {
		r[i] = cell(v.store, i)
	}
	return r
}

// name of the translated definition for Go function `name` under the aliasing of its element args
func aliasSuffix(args []*variable) string {
	// group equal stores; suffix lists groups with more than one member by parameter letters z,x,y / a,b
	if len(args) < 2 {
		return ""
	}
	letters := []string{"z", "x", "y"}
	if len(args) == 2 {
		letters = []string{"z", "x"}
	}
	seen := map[string][]int{}
	order := []string{}
	for i, a := range args {
		if _, ok := seen[a.store]; !ok {
			order = append(order, a.store)
		}
		seen[a.store] = append(seen[a.store], i)
	}
	suf := ""
	for _, s := range order {
		if len(seen[s]) > 1 {
			for _, i := range seen[s] {
				suf += letters[i]
			}
		}
	}
	if suf == "" {
		return ""
	}
	return "_" + suf
}

var methodMap = map[string]string{
	"Add": "_addGeneric", "Sub": "_subGeneric", "Double": "_doubleGeneric", "Neg": "_negGeneric",
	"Mul": "_mulGeneric", "FromMont": "_fromMontGeneric",
}

func leanName(goName string) string { return strings.TrimPrefix(goName, "_") }

func (t *fnTrans) call(c *ast.CallExpr) callRes {
	switch f := c.Fun.(type) {
	case *ast.SelectorExpr:
		if pk, ok := f.X.(*ast.Ident); ok && pk.Name == "bits" {
			args := make([]string, len(c.Args))
			for i, a := range c.Args {
				args[i] = t.word(a)
			}
			switch f.Sel.Name {
			case "Add64":
				return callRes{expr: fmt.Sprintf("add64 %s %s %s", args[0], args[1], args[2]), parts: []string{"w", "w"}}
			case "Sub64":
				return callRes{expr: fmt.Sprintf("sub64 %s %s %s", args[0], args[1], args[2]), parts: []string{"w", "w"}}
			case "Mul64":
				return callRes{expr: fmt.Sprintf("mul64 %s %s", args[0], args[1]), parts: []string{"w", "w"}}
			}
			t.fail(c, "unsupported math/bits function")
		}
		// element methods
		recv := t.elemArg(f.X)
		switch f.Sel.Name {
		case "SetZero":
			z := make([]string, recv.n)
			for i := range z {
				z[i] = "0"
			}
			return callRes{expr: "(" + strings.Join(z, ", ") + ")", parts: []string{fmt.Sprintf("a:%d", recv.n)}, writes: []*variable{recv}}
		case "Set":
			x := t.elemArg(c.Args[0])
			return callRes{expr: "(" + strings.Join(cells(x), ", ") + ")", parts: []string{fmt.Sprintf("a:%d", recv.n)}, writes: []*variable{recv}}
		case "Square":
			x := t.elemArg(c.Args[0])
			return t.elemCall("_mulGeneric", []*variable{recv, x, x}, nil, c)
		case "SetUint64":
			// *z = Element{v}; z.Mul(z, &rSquare)
			v := t.word(c.Args[0])
			return callRes{expr: fmt.Sprintf("setUint64 %s", v), parts: []string{fmt.Sprintf("a:%d", recv.n)}, writes: []*variable{recv}}
		}
		if g, ok := methodMap[f.Sel.Name]; ok {
			args := []*variable{recv}
			for _, a := range c.Args {
				args = append(args, t.elemArg(a))
			}
			return t.elemCall(g, args, nil, c)
		}
		t.fail(c, "unsupported method %s", f.Sel.Name)
	case *ast.Ident:
		fd, ok := t.p.funcs[f.Name]
		if !ok {
			t.fail(c, "call of unknown function %s", f.Name)
		}
		var eargs []*variable
		var wargs []string
		i := 0
		for _, fl := range fd.Type.Params.List {
			for range fl.Names {
				if _, isPtr := fl.Type.(*ast.StarExpr); isPtr {
					eargs = append(eargs, t.elemArg(c.Args[i]))
				} else {
					wargs = append(wargs, t.word(c.Args[i]))
				}
				i++
			}
		}
		if len(eargs) > 0 {
			return t.elemCall(f.Name, eargs, wargs, c)
		}
		nres := 0
		if fd.Type.Results != nil {
			for _, fl := range fd.Type.Results.List {
				if len(fl.Names) == 0 {
					nres++
				} else {
					nres += len(fl.Names)
				}
			}
		}
		parts := make([]string, nres)
		for i := range parts {
			parts[i] = "w"
		}
		return callRes{expr: leanName(f.Name) + " " + strings.Join(wargs, " "), parts: parts}
	}
	t.fail(c, "unsupported call")
	return callRes{}
}

// call of a translated function with element parameters: pass the cells of the distinct stores,
// receive the new cells of every element parameter's store
func (t *fnTrans) elemCall(goName string, args []*variable, wargs []string, n ast.Node) callRes {
	suf := aliasSuffix(args)
	var pass []string
	var writes []*variable
	seen := map[string]bool{}
	for _, a := range args {
		if seen[a.store] {
			continue
		}
		seen[a.store] = true
		pass = append(pass, cells(a)...)
		writes = append(writes, a)
	}
	pass = append(pass, wargs...)
	// the callee returns the cells of its written element params only; we need to know which: look it up
	w := writtenParams(t.p, goName)
	var parts []string
	var wr []*variable
	// map callee param index -> our arg
	seen = map[string]bool{}
	for i, a := range args {
		if !w[i] || seen[a.store] {
			// a store is written if any of the params aliased to it is written
			continue
		}
		seen[a.store] = true
		parts = append(parts, fmt.Sprintf("a:%d", a.n))
		wr = append(wr, a)
	}
	// if a param is unwritten but aliased to a written one, handled above by store identity
	for i, a := range args {
		if w[i] && !seen[a.store] {
			_ = i
		}
	}
	return callRes{expr: leanName(goName) + suf + " " + strings.Join(pass, " "), parts: parts, writes: wr}
}

// which element parameters of function `name` may be written (syntactic)
var writtenCache = map[string][]bool{}

func elemParams(fd *ast.FuncDecl) []string {
	var r []string
	if fd.Recv != nil {
		for _, fl := range fd.Recv.List {
			for _, n := range fl.Names {
				r = append(r, n.Name)
			}
		}
	}
	for _, fl := range fd.Type.Params.List {
		if _, isPtr := fl.Type.(*ast.StarExpr); isPtr {
			for _, n := range fl.Names {
				r = append(r, n.Name)
			}
		}
	}
	return r
}

func writtenParams(p *pkgInfo, name string) []bool {
	key := p.name + "." + name
	if w, ok := writtenCache[key]; ok {
		return w
	}
	fd, ok := p.funcs[name]
	if !ok {
		fd, ok = p.funcs["M."+name]
	}
	if !ok {
		die("writtenParams: unknown function %s", name)
	}
	ps := elemParams(fd)
	w := make([]bool, len(ps))
	writtenCache[key] = w // recursion guard
	idx := map[string]int{}
	for i, n := range ps {
		idx[n] = i
	}
	mark := func(e ast.Expr) {
		for {
			switch v := e.(type) {
			case *ast.IndexExpr:
				e = v.X
				continue
			case *ast.ParenExpr:
				e = v.X
				continue
			case *ast.StarExpr:
				e = v.X
				continue
			case *ast.UnaryExpr:
				e = v.X
				continue
			case *ast.Ident:
				if i, ok := idx[v.Name]; ok {
					w[i] = true
				}
			}
			return
		}
	}
	ast.Inspect(fd.Body, func(n ast.Node) bool {
		switch v := n.(type) {
		case *ast.AssignStmt:
			for _, l := range v.Lhs {
				mark(l)
			}
		case *ast.IncDecStmt:
			mark(v.X)
		case *ast.CallExpr:
			if sel, ok := v.Fun.(*ast.SelectorExpr); ok {
				if pk, ok := sel.X.(*ast.Ident); ok && pk.Name == "bits" {
					return true
				}
				if sel.Sel.Name != "IsZero" {
					mark(sel.X) // methods write their receiver
				}
			} else if id, ok := v.Fun.(*ast.Ident); ok {
				if callee, ok := p.funcs[id.Name]; ok {
					cw := writtenParams(p, id.Name)
					j := 0
					k := 0
					for _, fl := range callee.Type.Params.List {
						for range fl.Names {
							if _, isPtr := fl.Type.(*ast.StarExpr); isPtr {
								if cw[j] {
									mark(v.Args[k])
								}
								j++
							}
							k++
						}
					}
				}
			}
		}
		return true
	})
	return w
}

// ---------------------------------------------------------------------------------------------
// statements

func ind(n int) string { return strings.Repeat("  ", n) }

// variables (stores) assigned by a statement list — for merging after if
func (t *fnTrans) assigned(stmts []ast.Stmt, declared map[string]bool, acc map[string]bool) {
	var markExpr func(e ast.Expr)
	markExpr = func(e ast.Expr) {
		switch v := e.(type) {
		case *ast.Ident:
			if v.Name == "_" || declared[v.Name] {
				return
			}
			if vv, ok := t.vars[v.Name]; ok {
				if vv.kind == kArr {
					for _, c := range cells(vv) {
						acc[c] = true
					}
				} else {
					acc[vv.store] = true
				}
			}
		case *ast.IndexExpr:
			if id, ok := v.X.(*ast.Ident); ok && !declared[id.Name] {
				if vv, ok := t.vars[id.Name]; ok {
					if i, ok := intConst(v.Index); ok {
						acc[cell(vv.store, i)] = true
					}
				}
			}
		case *ast.UnaryExpr:
			markExpr(v.X)
		case *ast.StarExpr:
			markExpr(v.X)
		case *ast.ParenExpr:
			markExpr(v.X)
		}
	}
	var walkCalls func(n ast.Node)
	walkCalls = func(n ast.Node) {
		ast.Inspect(n, func(m ast.Node) bool {
			c, ok := m.(*ast.CallExpr)
			if !ok {
				return true
			}
			if sel, ok := c.Fun.(*ast.SelectorExpr); ok {
				if pk, ok := sel.X.(*ast.Ident); ok && pk.Name == "bits" {
					return true
				}
				if sel.Sel.Name != "IsZero" {
					markExpr(sel.X)
				}
			} else if id, ok := c.Fun.(*ast.Ident); ok {
				if callee, ok := t.p.funcs[id.Name]; ok {
					cw := writtenParams(t.p, id.Name)
					j, k := 0, 0
					for _, fl := range callee.Type.Params.List {
						for range fl.Names {
							if _, isPtr := fl.Type.(*ast.StarExpr); isPtr {
								if cw[j] {
									markExpr(c.Args[k])
								}
								j++
							}
							k++
						}
					}
				}
			}
			return true
		})
	}
	for _, s := range stmts {
		switch v := s.(type) {
		case *ast.AssignStmt:
			if v.Tok == token.DEFINE {
				for _, l := range v.Lhs {
					if id, ok := l.(*ast.Ident); ok {
						declared[id.Name] = true
					}
				}
			} else {
				for _, l := range v.Lhs {
					markExpr(l)
				}
			}
			walkCalls(v)
		case *ast.DeclStmt:
			for _, sp := range v.Decl.(*ast.GenDecl).Specs {
				for _, n := range sp.(*ast.ValueSpec).Names {
					declared[n.Name] = true
				}
			}
		case *ast.ExprStmt:
			walkCalls(v)
		case *ast.IncDecStmt:
			markExpr(v.X)
		case *ast.BlockStmt:
			d2 := map[string]bool{}
			for k := range declared {
				d2[k] = true
			}
			t.assigned(v.List, d2, acc)
		case *ast.IfStmt:
			d2 := map[string]bool{}
			for k := range declared {
				d2[k] = true
			}
			t.assigned(v.Body.List, d2, acc)
			if v.Else != nil {
				d3 := map[string]bool{}
				for k := range declared {
					d3[k] = true
				}
				if b, ok := v.Else.(*ast.BlockStmt); ok {
					t.assigned(b.List, d3, acc)
				} else {
					t.assigned([]ast.Stmt{v.Else}, d3, acc)
				}
			}
		case *ast.SwitchStmt:
			for _, cc := range v.Body.List {
				d2 := map[string]bool{}
				for k := range declared {
					d2[k] = true
				}
				t.assigned(cc.(*ast.CaseClause).Body, d2, acc)
			}
		}
	}
}

func endsWithReturn(stmts []ast.Stmt) bool {
	if len(stmts) == 0 {
		return false
	}
	_, ok := stmts[len(stmts)-1].(*ast.ReturnStmt)
	return ok
}

// snapshot is taken at every scope entry (block, branch); leave() restores it at the exit.  The stack of active
// snapshots tells whether a name was declared before the innermost scope began.
func (t *fnTrans) snapshot() map[string]*variable {
	m := map[string]*variable{}
	for k, v := range t.vars {
		m[k] = v
	}
	t.scopes = append(t.scopes, m)
	return m
}

func (t *fnTrans) leave(saved map[string]*variable) {
	t.vars = saved
	p := reflect.ValueOf(saved).Pointer()
	for i := len(t.scopes) - 1; i >= 0; i-- {
		if reflect.ValueOf(t.scopes[i]).Pointer() == p {
			t.scopes = t.scopes[:i]
			return
		}
	}
}

// shadowCheck: `name := …` where name exists.  In the scope that declared it, Go re-uses the variable; in an inner
// scope Go declares a NEW variable that hides the outer one until the block ends — which the flat naming of this
// translator cannot express, so such a function is rejected.
func (t *fnTrans) shadowCheck(n ast.Node, name string) {
	if len(t.scopes) == 0 {
		return
	}
	if _, outer := t.scopes[len(t.scopes)-1][name]; outer {
		t.fail(n, "%s := ... in an inner block hides the outer %s (block scoping is not modelled)", name, name)
	}
}

// assign the components of a call/tuple to the LHS expressions
func (t *fnTrans) lhsName(e ast.Expr) string {
	switch v := e.(type) {
	case *ast.Ident:
		if v.Name == "_" {
			return "_"
		}
		vv := t.lookup(e, v.Name)
		if vv.kind != kWord && vv.kind != kBool {
			t.fail(e, "assigning a whole array is not supported here")
		}
		if vv.narrow {
			t.fail(e, "assignment to a variable narrower than 64 bits (its wrap-around is not modelled)")
		}
		return vv.store
	case *ast.IndexExpr:
		return t.word(e)
	}
	t.fail(e, "unsupported assignment target")
	return ""
}

func tuplePat(names []string) string {
	if len(names) == 1 {
		return names[0]
	}
	return "(" + strings.Join(names, ", ") + ")"
}

// translate a list of statements followed by `rest` (continuation producing the tail expression)
func (t *fnTrans) stmts(list []ast.Stmt, lvl int, rest func(lvl int)) {
	if len(list) == 0 {
		rest(lvl)
		return
	}
	s := list[0]
	tail := list[1:]
	next := func(l int) { t.stmts(tail, l, rest) }
	w := t.out
	switch v := s.(type) {
	case *ast.EmptyStmt:
		next(lvl)
	case *ast.BlockStmt:
		saved := t.snapshot()
		t.stmts(v.List, lvl, func(l int) {
			// leaving the block: drop block-local names
			inner := t.vars
			t.leave(saved)
			_ = inner
			next(l)
		})
	case *ast.DeclStmt:
		gd := v.Decl.(*ast.GenDecl)
		if gd.Tok != token.VAR {
			t.fail(s, "unsupported declaration")
		}
		for _, sp := range gd.Specs {
			vs := sp.(*ast.ValueSpec)
			for i, n := range vs.Names {
				id := t.fresh(n.Name)
				if vs.Type == nil && i < len(vs.Values) {
					// var u = Element{a, b, c, d}
					if cl, ok := vs.Values[i].(*ast.CompositeLit); ok {
						t.declLiteral(n.Name, cl, lvl, s)
						continue
					}
					t.fail(s, "unsupported untyped variable declaration")
				}
				if at, ok := vs.Type.(*ast.ArrayType); ok {
					cnt, err := strconv.Atoi(t.p.src(at.Len))
					if err != nil {
						t.fail(s, "array length")
					}
					t.vars[n.Name] = &variable{kind: kArr, n: cnt, store: id}
					for j := 0; j < cnt; j++ {
						fmt.Fprintf(w, "%slet %s := 0\n", ind(lvl), cell(id, j))
					}
				} else if tid, ok := vs.Type.(*ast.Ident); ok && tid.Name == "Element" {
					t.vars[n.Name] = &variable{kind: kArr, n: t.p.limbs, store: id}
					for j := 0; j < t.p.limbs; j++ {
						fmt.Fprintf(w, "%slet %s := 0\n", ind(lvl), cell(id, j))
					}
				} else if tid, ok := vs.Type.(*ast.Ident); ok && (tid.Name == "uint64") {
					t.vars[n.Name] = &variable{kind: kWord, store: id}
					val := "0"
					if i < len(vs.Values) {
						val = t.word(vs.Values[i])
					}
					fmt.Fprintf(w, "%slet %s := %s\n", ind(lvl), id, val)
				} else if tid, ok := vs.Type.(*ast.Ident); ok && tid.Name == "bool" {
					t.vars[n.Name] = &variable{kind: kBool, store: id}
					fmt.Fprintf(w, "%slet %s := false\n", ind(lvl), id)
				} else {
					t.fail(s, "unsupported variable type")
				}
			}
		}
		next(lvl)
	case *ast.AssignStmt:
		t.assign(v, lvl)
		next(lvl)
	case *ast.ExprStmt:
		c, ok := v.X.(*ast.CallExpr)
		if !ok {
			t.fail(s, "unsupported expression statement")
		}
		// a.M1(..).M2(..): element methods return their receiver, so the chain is a sequence on `a`
		var chain []*ast.CallExpr
		cur := c
		for {
			chain = append([]*ast.CallExpr{cur}, chain...)
			sel, ok := cur.Fun.(*ast.SelectorExpr)
			if !ok {
				break
			}
			inner, ok := sel.X.(*ast.CallExpr)
			if !ok {
				break
			}
			cur = inner
		}
		if len(chain) > 1 {
			base := chain[0].Fun.(*ast.SelectorExpr).X
			for i, cc := range chain {
				if i > 0 {
					sel := cc.Fun.(*ast.SelectorExpr)
					cc = &ast.CallExpr{Fun: &ast.SelectorExpr{X: base, Sel: sel.Sel}, Args: cc.Args, Lparen: cc.Lparen, Rparen: cc.Rparen}
				}
				r := t.call(cc)
				t.bindCall(r, nil, lvl, s)
			}
			next(lvl)
			return
		}
		r := t.call(c)
		t.bindCall(r, nil, lvl, s)
		next(lvl)
	case *ast.ReturnStmt:
		if len(tail) != 0 {
			t.fail(s, "statements after return")
		}
		if len(v.Results) > 0 {
			// explicit results: element-valued returns (e.g. `return z`) are ignored, word results listed
			var ws []string
			for _, r := range v.Results {
				if id, ok := r.(*ast.Ident); ok {
					if vv, ok := t.vars[id.Name]; ok && vv.kind == kArr {
						continue
					}
				}
				ws = append(ws, t.word(r))
			}
			fmt.Fprintf(w, "%s%s\n", ind(lvl), t.wrapRet(t.retWith(ws)))
		} else {
			fmt.Fprintf(w, "%s%s\n", ind(lvl), t.wrapRet(t.retExp()))
		}
	case *ast.IfStmt:
		if v.Init != nil {
			t.fail(s, "if with init statement")
		}
		c := t.cond(v.Cond)
		var elseList []ast.Stmt
		if v.Else != nil {
			if b, ok := v.Else.(*ast.BlockStmt); ok {
				elseList = b.List
			} else {
				elseList = []ast.Stmt{v.Else}
			}
		}
		if endsWithReturn(v.Body.List) {
			// the rest of the function is the else branch
			fmt.Fprintf(w, "%sif %s then\n", ind(lvl), c)
			saved := t.snapshot()
			t.stmts(v.Body.List, lvl+1, func(int) {})
			t.leave(saved)
			fmt.Fprintf(w, "%selse\n", ind(lvl))
			t.stmts(append(append([]ast.Stmt{}, elseList...), tail...), lvl+1, rest)
			return
		}
		// merge assigned variables
		for _, part := range [][]ast.Stmt{v.Body.List, elseList} {
			for _, st := range part {
				ast.Inspect(st, func(n ast.Node) bool {
					if _, isRet := n.(*ast.ReturnStmt); isRet {
						t.fail(n, "return nested inside a branch that does not end with it")
					}
					return true
				})
			}
		}
		acc := map[string]bool{}
		t.assigned(v.Body.List, map[string]bool{}, acc)
		t.assigned(elseList, map[string]bool{}, acc)
		var names []string
		for k := range acc {
			names = append(names, k)
		}
		sort.Strings(names)
		if len(names) == 0 {
			next(lvl)
			return
		}
		pat := tuplePat(names)
		fmt.Fprintf(w, "%slet %s := (if %s then\n", ind(lvl), pat, c)
		saved := t.snapshot()
		t.stmts(v.Body.List, lvl+2, func(l int) { fmt.Fprintf(w, "%s%s\n", ind(l), pat) })
		t.leave(saved)
		fmt.Fprintf(w, "%selse\n", ind(lvl+1))
		saved = t.snapshot()
		t.stmts(elseList, lvl+2, func(l int) { fmt.Fprintf(w, "%s%s)\n", ind(l), pat) })
		t.leave(saved)
		next(lvl)
	case *ast.SwitchStmt:
		if v.Init != nil || v.Tag == nil {
			t.fail(s, "unsupported switch form")
		}
		tag := t.word(v.Tag)
		// desugar to if-chain; every clause either returns or falls out of the switch
		var chain ast.Stmt
		var def []ast.Stmt
		var clauses []*ast.CaseClause
		for _, cc := range v.Body.List {
			c := cc.(*ast.CaseClause)
			if c.List == nil {
				def = c.Body
			} else {
				clauses = append(clauses, c)
			}
		}
		_ = chain
		// emit recursively
		var emit func(i int, lvl int)
		acc := map[string]bool{}
		for _, c := range clauses {
			t.assigned(c.Body, map[string]bool{}, acc)
		}
		t.assigned(def, map[string]bool{}, acc)
		var names []string
		for k := range acc {
			names = append(names, k)
		}
		sort.Strings(names)
		pat := tuplePat(names)
		// clauses ending in return produce the function result directly; since mixing is awkward we
		// translate every clause as "compute merged state", then continue with the tail for all of them,
		// which is equivalent because a `return` inside a clause is only allowed when no statement follows the switch.
		for _, c := range clauses {
			if endsWithReturn(c.Body) && len(tail) != 0 {
				t.fail(s, "case clause returns but statements follow the switch")
			}
		}
		emit = func(i int, l int) {
			if i == len(clauses) {
				saved := t.snapshot()
				body := def
				if endsWithReturn(body) {
					body = body[:len(body)-1]
				}
				t.stmts(body, l, func(l2 int) { fmt.Fprintf(w, "%s%s\n", ind(l2), pat) })
				t.leave(saved)
				return
			}
			c := clauses[i]
			var cs []string
			for _, e := range c.List {
				cs = append(cs, fmt.Sprintf("decide (%s = %s)", tag, t.word(e)))
			}
			fmt.Fprintf(w, "%sif %s then\n", ind(l), strings.Join(cs, " || "))
			saved := t.snapshot()
			body := c.Body
			if endsWithReturn(body) {
				body = body[:len(body)-1]
			}
			t.stmts(body, l+1, func(l2 int) { fmt.Fprintf(w, "%s%s\n", ind(l2), pat) })
			t.leave(saved)
			fmt.Fprintf(w, "%selse\n", ind(l))
			emit(i+1, l+1)
		}
		if len(names) == 0 {
			t.fail(s, "switch assigns nothing")
		}
		fmt.Fprintf(w, "%slet %s := (\n", ind(lvl), pat)
		emit(0, lvl+2)
		fmt.Fprintf(w, "%s)\n", ind(lvl+1))
		next(lvl)
	case *ast.ForStmt:
		if v.Init != nil || v.Post != nil {
			t.fail(s, "only `for cond {}` and `for {}` loops are supported")
		}
		if !t.optional {
			t.fail(s, "internal: loop in a function not marked optional")
		}
		t.nextLoop++
		name := fmt.Sprintf("%s_loop%d", leanName(t.fd.Name.Name), t.nextLoop)
		live, params := t.liveVars()
		saved := t.out
		sub := &strings.Builder{}
		t.out = sub
		if v.Cond == nil {
			if len(tail) != 0 {
				t.fail(s, "statements after an infinite loop")
			}
			fmt.Fprintf(sub, "def %s (fuel : Nat)%s : Option (%s) :=\n  match fuel with\n  | 0 => none\n  | fuel + 1 =>\n", name, params, t.retType)
			snap := t.snapshot()
			t.stmts(v.Body.List, 2, func(l int) {
				fmt.Fprintf(sub, "%s%s fuel %s\n", ind(l), name, strings.Join(live, " "))
			})
			t.leave(snap)
			t.out = saved
			t.aux = append(t.aux, sub.String())
			fmt.Fprintf(w, "%s%s %d %s\n", ind(lvl), name, 1200, strings.Join(live, " "))
			return
		}
		acc := map[string]bool{}
		t.assigned(v.Body.List, map[string]bool{}, acc)
		var names []string
		for k := range acc {
			names = append(names, k)
		}
		sort.Strings(names)
		if len(names) == 0 {
			t.fail(s, "loop assigns nothing")
		}
		var tys []string
		for _, n := range names {
			tys = append(tys, t.typeOfName(n))
		}
		pat := tuplePat(names)
		fmt.Fprintf(sub, "def %s (fuel : Nat)%s : Option (%s) :=\n  match fuel with\n  | 0 => none\n  | fuel + 1 =>\n    if %s then\n", name, params, strings.Join(tys, " × "), t.cond(v.Cond))
		snap := t.snapshot()
		t.stmts(v.Body.List, 3, func(l int) {
			fmt.Fprintf(sub, "%s%s fuel %s\n", ind(l), name, strings.Join(live, " "))
		})
		t.leave(snap)
		fmt.Fprintf(sub, "    else\n      some %s\n", pat)
		t.out = saved
		t.aux = append(t.aux, sub.String())
		fmt.Fprintf(w, "%s(%s %d %s).bind fun %s =>\n", ind(lvl), name, 600, strings.Join(live, " "), pat)
		next(lvl + 1)
	default:
		t.fail(s, "unsupported statement (T2 handles straight-line code, if, switch, for-with-fuel)")
	}
}

func (t *fnTrans) wrapRet(e string) string {
	if t.pieceRet != nil {
		return t.pieceRet(e)
	}
	if t.optional {
		return "some " + e
	}
	return e
}

func (t *fnTrans) declLiteral(name string, cl *ast.CompositeLit, lvl int, n ast.Node) {
	if id, ok := cl.Type.(*ast.Ident); !ok || id.Name != "Element" {
		t.fail(n, "unsupported composite literal type")
	}
	if len(cl.Elts) != 0 && len(cl.Elts) != t.p.limbs {
		t.fail(n, "Element literal with %d of %d limbs", len(cl.Elts), t.p.limbs)
	}
	id := t.fresh(name)
	t.vars[name] = &variable{kind: kArr, n: t.p.limbs, store: id}
	for j := 0; j < t.p.limbs; j++ {
		val := "0"
		if j < len(cl.Elts) {
			val = t.word(cl.Elts[j])
		}
		fmt.Fprintf(t.out, "%slet %s := %s\n", ind(lvl), cell(id, j), val)
	}
}

// all variables currently in scope, as Lean names (cells of arrays, scalars), sorted, with a binder string
func (t *fnTrans) liveVars() ([]string, string) {
	seen := map[string]string{}
	for _, v := range t.vars {
		switch v.kind {
		case kArr:
			for _, c := range cells(v) {
				seen[c] = "Nat"
			}
		case kWord:
			seen[v.store] = "Nat"
		case kBool:
			seen[v.store] = "Bool"
		}
	}
	var names []string
	for k := range seen {
		names = append(names, k)
	}
	sort.Strings(names)
	var sb strings.Builder
	for _, n := range names {
		fmt.Fprintf(&sb, " (%s : %s)", n, seen[n])
	}
	return names, sb.String()
}

func (t *fnTrans) typeOfName(n string) string {
	for _, v := range t.vars {
		if v.kind == kBool && v.store == n {
			return "Bool"
		}
	}
	return "Nat"
}

func hasLoop(fd *ast.FuncDecl) bool {
	found := false
	ast.Inspect(fd.Body, func(n ast.Node) bool {
		if _, ok := n.(*ast.ForStmt); ok {
			found = true
		}
		return true
	})
	return found
}

func (t *fnTrans) fresh(base string) string {
	// Lean identifiers: avoid clashes between Go scopes by suffixing a counter when the name is re-declared
	name := base
	for _, v := range t.vars {
		if v.store == name {
			t.nextID++
			name = fmt.Sprintf("%s'%d", base, t.nextID)
			break
		}
	}
	if name == "C" || name == "D" || name == "m" || name == "v" || name == "t" || name == "b" || name == "c" {
		return name + "ᵥ"
	}
	return name
}

func (t *fnTrans) retWith(ws []string) string {
	base := t.retCells()
	all := append(base, ws...)
	if len(all) == 0 {
		return "()"
	}
	return tuplePat(all)
}

func (t *fnTrans) retCells() []string {
	var r []string
	w := writtenParams(t.p, t.fd.Name.Name)
	seen := map[string]bool{}
	for i, n := range elemParams(t.fd) {
		v := t.vars[n]
		if !w[i] || seen[v.store] {
			continue
		}
		seen[v.store] = true
		r = append(r, cells(v)...)
	}
	return r
}

func (t *fnTrans) bindCall(r callRes, lhs []ast.Expr, lvl int, n ast.Node) {
	w := t.out
	var names []string
	for _, wv := range r.writes {
		names = append(names, cells(wv)...)
	}
	nWordParts := 0
	for _, p := range r.parts {
		if p == "w" {
			nWordParts++
		}
	}
	if lhs != nil {
		if len(lhs) != nWordParts {
			// `z.Mul(..)` results used as values are not supported
			t.fail(n, "assignment count mismatch: %d targets for %d results", len(lhs), nWordParts)
		}
		for _, l := range lhs {
			names = append(names, t.lhsName(l))
		}
	} else {
		for i := 0; i < nWordParts; i++ {
			names = append(names, "_")
		}
	}
	if len(names) == 0 {
		return
	}
	fmt.Fprintf(w, "%slet %s := %s\n", ind(lvl), tuplePat(names), r.expr)
}

func (t *fnTrans) assign(v *ast.AssignStmt, lvl int) {
	w := t.out
	// op-assign
	if v.Tok != token.ASSIGN && v.Tok != token.DEFINE {
		if len(v.Lhs) != 1 {
			t.fail(v, "unsupported op-assignment")
		}
		op := map[token.Token]token.Token{token.SHR_ASSIGN: token.SHR, token.SHL_ASSIGN: token.SHL, token.OR_ASSIGN: token.OR,
			token.AND_ASSIGN: token.AND, token.ADD_ASSIGN: token.ADD, token.MUL_ASSIGN: token.MUL, token.XOR_ASSIGN: token.XOR}[v.Tok]
		if op == token.ILLEGAL {
			t.fail(v, "unsupported op-assignment")
		}
		e := &ast.BinaryExpr{X: v.Lhs[0], Op: op, Y: v.Rhs[0], OpPos: v.Pos()}
		fmt.Fprintf(w, "%slet %s := %s\n", ind(lvl), t.lhsName(v.Lhs[0]), t.word(e))
		return
	}
	// r := Element{}  /  r := Element{1, 2, 3, 4}
	if v.Tok == token.DEFINE && len(v.Lhs) == 1 && len(v.Rhs) == 1 {
		if cl, ok := v.Rhs[0].(*ast.CompositeLit); ok {
			t.declLiteral(v.Lhs[0].(*ast.Ident).Name, cl, lvl, v)
			return
		}
	}
	// element copy: t := *a   /  _z := *z
	if v.Tok == token.DEFINE && len(v.Lhs) == 1 && len(v.Rhs) == 1 {
		if st, ok := v.Rhs[0].(*ast.StarExpr); ok {
			src := t.elemArg(st.X)
			name := v.Lhs[0].(*ast.Ident).Name
			id := t.fresh(name)
			t.vars[name] = &variable{kind: kArr, n: src.n, store: id}
			for j := 0; j < src.n; j++ {
				fmt.Fprintf(w, "%slet %s := %s\n", ind(lvl), cell(id, j), cell(src.store, j))
			}
			return
		}
	}
	// multi-value from a single call
	if len(v.Rhs) == 1 {
		if c, ok := v.Rhs[0].(*ast.CallExpr); ok {
			isConv := false
			if id, ok := c.Fun.(*ast.Ident); ok && id.Name == "uint64" {
				isConv = true
			}
			if !isConv {
				r := t.call(c)
				if v.Tok == token.DEFINE {
					for _, l := range v.Lhs {
						id := l.(*ast.Ident)
						if id.Name != "_" {
							if _, exists := t.vars[id.Name]; !exists {
								t.vars[id.Name] = &variable{kind: kWord, store: t.fresh(id.Name)}
							} else {
								t.shadowCheck(v, id.Name)
							}
						}
					}
				}
				t.bindCall(r, v.Lhs, lvl, v)
				return
			}
		}
	}
	if len(v.Lhs) != len(v.Rhs) {
		t.fail(v, "unsupported assignment shape")
	}
	// evaluate all RHS first (Go semantics), then bind
	vals := make([]string, len(v.Rhs))
	kinds := make([]varKind, len(v.Rhs))
	for i, r := range v.Rhs {
		if isBoolExpr(r) {
			vals[i] = t.cond(r)
			kinds[i] = kBool
		} else {
			vals[i] = t.word(r)
		}
	}
	var names []string
	for i, l := range v.Lhs {
		if v.Tok == token.DEFINE {
			id := l.(*ast.Ident)
			if id.Name != "_" {
				if _, exists := t.vars[id.Name]; !exists {
					t.vars[id.Name] = &variable{kind: kinds[i], store: t.fresh(id.Name)}
				} else {
					t.shadowCheck(v, id.Name)
				}
			}
		}
		names = append(names, t.lhsName(l))
	}
	if len(names) == 1 {
		fmt.Fprintf(w, "%slet %s := %s\n", ind(lvl), names[0], vals[0])
	} else {
		fmt.Fprintf(w, "%slet %s := (%s)\n", ind(lvl), tuplePat(names), strings.Join(vals, ", "))
	}
}

func isBoolExpr(e ast.Expr) bool {
	switch v := e.(type) {
	case *ast.ParenExpr:
		return isBoolExpr(v.X)
	case *ast.UnaryExpr:
		return v.Op == token.NOT
	case *ast.BinaryExpr:
		switch v.Op {
		case token.LOR, token.LAND, token.LSS, token.GTR, token.LEQ, token.GEQ, token.EQL, token.NEQ:
			return true
		}
	}
	return false
}

// ---------------------------------------------------------------------------------------------
// one function, one aliasing pattern

// alias: for each element parameter index, the index of the parameter whose storage it shares
func translate(p *pkgInfo, goName string, alias []int, suffix string) string {
	fd, ok := p.funcs[goName]
	if !ok {
		fd, ok = p.funcs["M."+goName]
	}
	if !ok {
		die("%s: function %s not found", p.name, goName)
	}
	t := &fnTrans{p: p, fd: fd, vars: map[string]*variable{}, out: &strings.Builder{}}
	eps := elemParams(fd)
	var sig []string
	for i, n := range eps {
		a := i
		if alias != nil {
			a = alias[i]
		}
		store := eps[a]
		t.vars[n] = &variable{kind: kArr, n: p.limbs, store: store}
		if a == i {
			sig = append(sig, cells(t.vars[n])...)
		}
	}
	for _, fl := range fd.Type.Params.List {
		if _, isPtr := fl.Type.(*ast.StarExpr); isPtr {
			continue
		}
		tid, ok := fl.Type.(*ast.Ident)
		if !ok || (tid.Name != "uint64" && tid.Name != "uint8") {
			t.fail(fl, "unsupported parameter type")
		}
		for _, n := range fl.Names {
			t.vars[n.Name] = &variable{kind: kWord, store: n.Name, narrow: tid.Name != "uint64"}
			sig = append(sig, n.Name)
		}
	}
	// results
	nWordRes := 0
	if fd.Type.Results != nil {
		for _, fl := range fd.Type.Results.List {
			if _, isPtr := fl.Type.(*ast.StarExpr); isPtr {
				continue // `*Element` result = the receiver; represented by its cells
			}
			if len(fl.Names) == 0 {
				nWordRes++
			}
			for _, n := range fl.Names {
				t.vars[n.Name] = &variable{kind: kWord, store: n.Name}
				t.named = append(t.named, n.Name)
				fmt.Fprintf(t.out, "  let %s := 0\n", n.Name)
				nWordRes++
			}
		}
	}
	t.retExp = func() string {
		var ws []string
		for _, n := range t.named {
			ws = append(ws, t.vars[n].store)
		}
		return t.retWith(ws)
	}
	nret := len(t.retCells()) + nWordRes
	rt := "Unit"
	if nret > 0 {
		parts := make([]string, nret)
		for i := range parts {
			parts[i] = "Nat"
		}
		rt = strings.Join(parts, " × ")
	}
	t.retType = rt
	t.optional = hasLoop(fd)
	body := fd.Body.List
	t.stmts(body, 1, func(lvl int) {
		fmt.Fprintf(t.out, "%s%s\n", ind(lvl), t.wrapRet(t.retExp()))
	})
	params := ""
	if len(sig) > 0 {
		params = " (" + strings.Join(sig, " ") + " : Nat)"
	}
	if t.optional {
		rt = "Option (" + rt + ")"
	}
	auxText := strings.ReplaceAll(strings.Join(t.aux, "\n"), leanName(goName)+"_loop", leanName(goName)+suffix+"_loop")
	main := strings.ReplaceAll(t.out.String(), leanName(goName)+"_loop", leanName(goName)+suffix+"_loop")
	if auxText != "" {
		auxText += "\n"
	}
	return fmt.Sprintf("%sdef %s%s%s : %s :=\n%s\n", auxText, leanName(goName), suffix, params, rt, main)
}

type spec struct {
	name    string
	aliases bool
}

func emitPkg(p *pkgInfo, ns string, fns []spec) string {
	var sb strings.Builder
	fmt.Fprintf(&sb, "namespace I3.Gen.%s\n\n", ns)
	fmt.Fprintf(&sb, "def limbs : Nat := %d\n\n", p.limbs)
	for _, f := range fns {
		fd, ok := p.funcs[f.name]
		if !ok {
			fd = p.funcs["M."+f.name]
		}
		if fd == nil {
			die("%s: function %s not found", p.name, f.name)
		}
		if f.name == "mulByConstant" {
			// SetUint64(v): *z = Element{v}; z.Mul(z, &rSquare)
			rs := p.rSquare
			zeros := strings.TrimSpace(strings.Repeat("0 ", p.limbs-1))
			fmt.Fprintf(&sb, "def setUint64 (v : Nat) : %s :=\n  mulGeneric_zx v %s %s\n\n", strings.TrimSuffix(strings.Repeat("Nat × ", p.limbs), " × "), zeros, strings.Join(rs, " "))
		}
		sb.WriteString(translate(p, f.name, nil, ""))
		sb.WriteString("\n")
		n := len(elemParams(fd))
		if f.name == "_butterflyGeneric" {
			// both arguments the same element (the result that is stored last survives)
			sb.WriteString(translate(p, f.name, []int{0, 0}, "_ab"))
			sb.WriteString("\n")
		}
		if !f.aliases {
			continue
		}
		if n == 2 {
			sb.WriteString(translate(p, f.name, []int{0, 0}, "_zx"))
			sb.WriteString("\n")
		}
		if n == 3 {
			sb.WriteString(translate(p, f.name, []int{0, 0, 2}, "_zx"))
			sb.WriteString("\n")
			sb.WriteString(translate(p, f.name, []int{0, 1, 0}, "_zy"))
			sb.WriteString("\n")
			sb.WriteString(translate(p, f.name, []int{0, 1, 1}, "_xy"))
			sb.WriteString("\n")
			sb.WriteString(translate(p, f.name, []int{0, 0, 0}, "_zxy"))
			sb.WriteString("\n")
		}
	}
	fmt.Fprintf(&sb, "end I3.Gen.%s\n", ns)
	return sb.String()
}

func write(path, content string) {
	old, err := os.ReadFile(path)
	if err == nil && string(old) == content {
		return
	}
	if err := os.WriteFile(path, []byte(content), 0o644); err != nil {
		die("write %s: %v", path, err)
	}
}

func main() {
	if len(os.Args) != 3 {
		die("usage: gen_limbs <repo> <outdir>")
	}
	repo, out := os.Args[1], os.Args[2]
	hdr := "-- GENERATED by /verif/tools/gen_limbs from /repo — do not edit; regenerated on every check run.\nimport I3.Exec.Word\nset_option linter.unusedVariables false\nopen I3.Word\n\n"

	ff := loadPkg(repo, "ff", []string{"element.go", "arith.go"})
	ffFns := []spec{
		{"madd0", false}, {"madd1", false}, {"madd2", false}, {"madd3", false},
		{"_addGeneric", true}, {"_doubleGeneric", true}, {"_subGeneric", true}, {"_negGeneric", true},
		{"_reduceGeneric", false}, {"_mulGeneric", true}, {"_fromMontGeneric", false},
		{"Halve", false}, {"_butterflyGeneric", false}, {"mulByConstant", false},
	}
	write(filepath.Join(out, "FFLimbs.lean"), hdr+emitPkg(ff, "FF", ffFns))
	write(filepath.Join(out, "FFInverse.lean"), hdr+"namespace I3.Gen.FFInv\n\n"+translatePieces(ff, "Inverse")+"end I3.Gen.FFInv\n")

	ffg := loadPkg(repo, "ffg", []string{"element.go", "arith.go"})
	ffgFns := []spec{
		{"madd0", false},
		{"_addGeneric", true}, {"_doubleGeneric", true}, {"_subGeneric", true}, {"_negGeneric", true},
		{"_reduceGeneric", false}, {"_mulGeneric", true}, {"_fromMontGeneric", false},
		{"_butterflyGeneric", false}, {"mulByConstant", false},
	}
	write(filepath.Join(out, "FFGLimbs.lean"), hdr+emitPkg(ffg, "FFG", ffgFns))
}

// ---------------------------------------------------------------------------------------------
// piece mode: a function of the shape  <pre-statements>; for { (for cond {body})* ; <tail statements> }
// is emitted as non-recursive definitions — one (cond, body) pair per inner loop and one segment per
// straight-line stretch — so that the hand-written Lean loop (with fuel) composes regenerated pieces.

func (t *fnTrans) usedNames(stmts []ast.Stmt) ([]string, string) {
	seen := map[string]string{}
	for _, st := range stmts {
		ast.Inspect(st, func(n ast.Node) bool {
			id, ok := n.(*ast.Ident)
			if !ok {
				return true
			}
			v, ok := t.vars[id.Name]
			if !ok {
				return true
			}
			switch v.kind {
			case kArr:
				for _, c := range cells(v) {
					seen[c] = "Nat"
				}
			case kWord:
				seen[v.store] = "Nat"
			case kBool:
				seen[v.store] = "Bool"
			}
			return true
		})
	}
	var names []string
	for k := range seen {
		names = append(names, k)
	}
	sort.Strings(names)
	var sb strings.Builder
	for _, n := range names {
		fmt.Fprintf(&sb, " (%s : %s)", n, seen[n])
	}
	return names, sb.String()
}

func (t *fnTrans) assignedNames(stmts []ast.Stmt) ([]string, []string) {
	acc := map[string]bool{}
	t.assigned(stmts, map[string]bool{}, acc)
	var names, tys []string
	for k := range acc {
		names = append(names, k)
	}
	sort.Strings(names)
	for _, n := range names {
		tys = append(tys, t.typeOfName(n))
	}
	return names, tys
}

// declare (without emitting) the variables introduced by a statement list, so that later pieces know them
func (t *fnTrans) predeclare(stmts []ast.Stmt) {
	dummy := t.out
	t.out = &strings.Builder{}
	saved := t.pieceRet
	t.pieceRet = func(e string) string { return e }
	snap := t.optional
	t.stmts(stmts, 0, func(int) {})
	t.optional = snap
	t.pieceRet = saved
	t.out = dummy
}

func translatePieces(p *pkgInfo, goName string) string {
	fd, ok := p.funcs[goName]
	if !ok {
		fd, ok = p.funcs["M."+goName]
	}
	if !ok {
		die("%s: function %s not found", p.name, goName)
	}
	t := &fnTrans{p: p, fd: fd, vars: map[string]*variable{}, out: &strings.Builder{}}
	var sig []string
	for _, n := range elemParams(fd) {
		t.vars[n] = &variable{kind: kArr, n: p.limbs, store: n}
		sig = append(sig, cells(t.vars[n])...)
	}
	t.retExp = func() string { return t.retWith(nil) }
	nret := len(t.retCells())
	parts := make([]string, nret)
	for i := range parts {
		parts[i] = "Nat"
	}
	t.retType = strings.Join(parts, " × ")
	body := fd.Body.List
	// split: pre-statements, the infinite loop
	var pre []ast.Stmt
	var loop *ast.ForStmt
	for i, st := range body {
		if f, ok := st.(*ast.ForStmt); ok && f.Cond == nil && f.Init == nil && f.Post == nil {
			if i != len(body)-1 {
				die("%s: statements after the main loop", goName)
			}
			loop = f
			break
		}
		pre = append(pre, st)
	}
	if loop == nil {
		die("%s: no `for {}` main loop found", goName)
	}
	name := leanName(goName)
	var sb strings.Builder
	emitSeg := func(segName string, stmts []ast.Stmt, params string, assigned []string, tys []string) {
		pat := tuplePat(assigned)
		t.out = &strings.Builder{}
		t.pieceRet = func(e string) string { return "(some " + e + ", " + pat + ")" }
		t.stmts(stmts, 1, func(l int) { fmt.Fprintf(t.out, "%s(none, %s)\n", ind(l), pat) })
		t.pieceRet = nil
		fmt.Fprintf(&sb, "def %s%s : Option (%s) × (%s) :=\n%s\n", segName, params, t.retType, strings.Join(tys, " × "), t.out.String())
	}
	// segment 0: the pre-loop statements; its state = every variable it declares or assigns
	{
		params := " (" + strings.Join(sig, " ") + " : Nat)"
		// translate once to learn the declared variables, then emit with the full state tuple
		snap := t.snapshot()
		t.predeclare(pre)
		declared := t.vars
		t.leave(snap)
		seen := map[string]string{}
		for n, v := range declared {
			if _, isParam := snap[n]; isParam {
				continue
			}
			switch v.kind {
			case kArr:
				for _, c := range cells(v) {
					seen[c] = "Nat"
				}
			case kWord:
				seen[v.store] = "Nat"
			case kBool:
				seen[v.store] = "Bool"
			}
		}
		for _, c := range t.retCells() {
			seen[c] = "Nat"
		}
		var names, tys []string
		for k := range seen {
			names = append(names, k)
		}
		sort.Strings(names)
		for _, n := range names {
			tys = append(tys, seen[n])
		}
		pat := tuplePat(names)
		t.out = &strings.Builder{}
		t.pieceRet = func(e string) string { return "(some " + e + ", " + pat + ")" }
		// early returns happen before later declarations exist: bind every state variable first
		for i, n := range names {
			isParam := false
			for _, sname := range sig {
				if sname == n {
					isParam = true
				}
			}
			if !isParam {
				if tys[i] == "Bool" {
					fmt.Fprintf(t.out, "  let %s := false\n", n)
				} else {
					fmt.Fprintf(t.out, "  let %s := 0\n", n)
				}
			}
		}
		t.stmts(pre, 1, func(l int) { fmt.Fprintf(t.out, "%s(none, %s)\n", ind(l), pat) })
		t.pieceRet = nil
		fmt.Fprintf(&sb, "/-- state order: %s -/\ndef %s_pre%s : Option (%s) × (%s) :=\n%s\n", strings.Join(names, " "), name, params, t.retType, strings.Join(tys, " × "), t.out.String())
	}
	// pieces of the main loop body
	var seg []ast.Stmt
	k, j := 0, 0
	flush := func() {
		if len(seg) == 0 {
			return
		}
		j++
		_, params := t.usedNames(seg)
		an, at := t.assignedNames(seg)
		un, _ := t.usedNames(seg)
		fmt.Fprintf(&sb, "/-- parameters: %s ; state out: %s -/\n", strings.Join(un, " "), strings.Join(an, " "))
		emitSeg(fmt.Sprintf("%s_seg%d", name, j), seg, params, an, at)
		seg = nil
	}
	for _, st := range loop.Body.List {
		if f, ok := st.(*ast.ForStmt); ok {
			flush()
			if f.Cond == nil || f.Init != nil || f.Post != nil {
				die("%s: unsupported inner loop", goName)
			}
			k++
			stmts := append([]ast.Stmt{&ast.ExprStmt{X: f.Cond}}, f.Body.List...)
			un, params := t.usedNames(stmts)
			an, at := t.assignedNames(f.Body.List)
			fmt.Fprintf(&sb, "/-- parameters: %s ; state out: %s -/\n", strings.Join(un, " "), strings.Join(an, " "))
			fmt.Fprintf(&sb, "def %s_loop%d_cond%s : Bool :=\n  %s\n\n", name, k, params, t.cond(f.Cond))
			t.out = &strings.Builder{}
			pat := tuplePat(an)
			snap := t.snapshot()
			t.stmts(f.Body.List, 1, func(l int) { fmt.Fprintf(t.out, "%s%s\n", ind(l), pat) })
			t.leave(snap)
			fmt.Fprintf(&sb, "def %s_loop%d_body%s : %s :=\n%s\n", name, k, params, strings.Join(at, " × "), t.out.String())
			continue
		}
		seg = append(seg, st)
	}
	flush()
	return sb.String()
}
