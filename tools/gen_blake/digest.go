// gen_blake, second part — fail-closed translator of the streaming state machine of github.com/dchest/blake512
// (blake512.go): `New`, `(*digest).Size`, `(*digest).Write`, `(*digest).Sum`  →  <gen-dir>/BlakeDigest.lean
// (namespace I3.Gen.BlakeGo, core Lean only, imports I3.Gen.BlakeBlock and calls the `block` translated there).
//
// NOT translated (named explicitly; any declaration that is neither translated nor on this list: exit code 2):
// `Reset`, `BlockSize()`, `setSalt`, `NewSalt`, `New384`, `New384Salt` and the table `iv384` — the salt and the
// 384-bit constructors; `babyjub.Blake512` uses `New()` only.  The `hashSize == 384` branches INSIDE `Sum` are
// translated (the field is part of the state).
//
// Value semantics (the rules T6 uses, DESIGN.md §3.1): a `*digest`/`digest` is a value of the structure `FullDigest`
// {hashSize h s t nullt x nx}; a method with pointer receiver that assigns through the receiver returns the new
// value as its first result; `[]byte` and `[N]byte` are `List UInt8`; `int` is `Int` (unbounded: the translation
// is exact as long as no `int` operation overflows — the values are lengths, `nx` ≤ 128 and `j` ≤ 64); `uint64` is
// `UInt64` (wrap-around, as in Go), `byte(e)` truncates.  What this does not express: two names for one cell (a
// `p` that aliases `d.x`: impossible for callers, `x` is unexported) and run-time panics (slice bounds, index) —
// the functions below are total (`List.take/drop/set`).  The emitted module starts with the Lean definitions of
// these rules (`goLen`, `goFrom`, `goTo`, `goSlice`, `goCopy`, `goSet`, `goMake`, `goArrayLit`, `goAndNot`).
//
// Statement subset (anything else: exit code 2)
//
//	x := e        x = e       x op= e  (op ∈ + -)      x a local / named result, `d.f` a field of a digest variable
//	b[i] = e                                             b a local []byte
//	d.nx = copy(d.x[lo:], src)   d.nx += copy(d.x[lo:], src)     (writes `d.x`, then the count)
//	block(d, q)                  d.Write(q)              (statement calls; the callee's writes through d are returned)
//	if c { … } [else { … }]      without init; the variables assigned inside and declared outside are the outputs:
//	                             `let v := if c then (…; v) else (…; v)`, two outputs as a pair read by `.1`/`.2`
//	for _, s := range w { … }    w a prefix `d.h[:k]` of the chain value: `List.foldl` over the words, the body a
//	                             separate definition over the assigned variables
//	return        return e                               only as the last statement of a function
//	`:=` must not shadow a visible variable (so the Lean `let`s resolve names exactly as Go does).
//
// Every `if` and `for` at the top level of a function body becomes its own definition `<func>_if<k>` /
// `<func>_for<k>_body` over the variables the statement mentions; the function body applies it.  This is a purely
// syntactic cut (the definitions take every mentioned variable as a parameter and return every assigned one).
//
// Expression subset: variables, integer constants (`BlockSize`, literals; constant arithmetic folded exactly),
// `+ -` on int / uint64, comparisons `== < > >=` (conditions only), `<< >>` of a uint64 by a constant in 0..63, `>>` of an
// int by a constant (arithmetic shift, `Int.shiftRight`), `len(b) &^ c` with c a non-negative constant,
// `len(b)`, `uint64(e)`, `byte(e)`, `make([]byte, n)`, `[]byte{…}`, `[N]byte{…}`, `&digest{f: e, …}`, `*d0`,
// `append(a, b...)`, `d.Size()`, slices `b[lo:hi]` `b[lo:]` `b[:hi]` `b[:]` with int, uint64 or constant bounds,
// fields `d.f`, `iv512` (checked to be read-only in the whole package).
package main

import (
	"crypto/sha256"
	"fmt"
	"go/ast"
	"go/token"
	"math/big"
	"os"
	"path/filepath"
	"sort"
	"strings"
)

type dk int

const (
	dInt    dk = iota // Go int            → Int
	dU64              // uint64            → UInt64
	dU8               // byte              → UInt8
	dBool             // bool value        → Bool
	dProp             // a comparison      → decidable Prop (conditions only)
	dBytes            // []byte / [N]byte  → List UInt8
	dDigest           // digest / *digest  → FullDigest
	dH                // [8]uint64         → H
	dS                // [4]uint64         → S
	dWords            // []uint64          → List UInt64
	dConst            // untyped integer constant
	dErr              // the named result `err error` (never assigned, never read)
)

func (k dk) lean() string {
	switch k {
	case dInt:
		return "Int"
	case dU64:
		return "UInt64"
	case dU8:
		return "UInt8"
	case dBool:
		return "Bool"
	case dBytes:
		return "List UInt8"
	case dDigest:
		return "FullDigest"
	case dH:
		return "H"
	case dS:
		return "S"
	case dWords:
		return "List UInt64"
	}
	panic("no Lean type for this kind")
}

type dval struct {
	k     dk
	lean  string
	val   *big.Int // dConst
	isLen bool     // syntactically `len(…)`: a non-negative int
}

type dframe struct {
	declared map[string]bool
	assigned map[string]bool // variables declared OUTSIDE the frame and assigned inside
}

type dtr struct {
	consts   map[string]*big.Int
	fields   map[string]dk
	kinds    map[string]dk // visible variables
	order    []string      // … in declaration order
	frames   []*dframe
	ever     map[string]bool // variables ever assigned in the current function
	fn       string          // Lean name of the current function
	nIf      int
	nFor     int
	nCopy    int
	hoisted  []string
	ivUsed   bool
	sizeUsed bool
}

var leanReserved = map[string]string{"in": "in_", "at": "at_", "from": "from_", "fun": "fun_", "do": "do_",
	"then": "then_", "end": "end_", "open": "open_", "show": "show_", "have": "have_", "with": "with_", "by": "by_"}

func lname(n string) string {
	if r, ok := leanReserved[n]; ok {
		return r
	}
	if strings.HasSuffix(n, "_") {
		die(token.NoPos, "identifier %s ends with an underscore (reserved for the translation)", n)
	}
	return n
}

func (t *dtr) push() {
	t.frames = append(t.frames, &dframe{declared: map[string]bool{}, assigned: map[string]bool{}})
}

func (t *dtr) pop() *dframe {
	f := t.frames[len(t.frames)-1]
	t.frames = t.frames[:len(t.frames)-1]
	var keep []string
	for _, n := range t.order {
		if f.declared[n] {
			delete(t.kinds, n)
		} else {
			keep = append(keep, n)
		}
	}
	t.order = keep
	return f
}

func (t *dtr) declare(pos token.Pos, name string, k dk) {
	if name == "_" {
		die(pos, "blank identifier")
	}
	if _, ok := t.kinds[name]; ok {
		die(pos, "%s shadows a visible variable", name)
	}
	if _, ok := t.consts[name]; ok {
		die(pos, "%s shadows a package constant", name)
	}
	switch name {
	case "block", "iv512", "iv384", "digest", "copy", "append", "make", "byte", "uint64", "true", "false", "nil":
		die(pos, "%s shadows a name the translation gives a fixed meaning", name)
	}
	t.kinds[name] = k
	t.order = append(t.order, name)
	t.frames[len(t.frames)-1].declared[name] = true
}

func (t *dtr) markAssigned(name string) {
	t.ever[name] = true
	for i := len(t.frames) - 1; i >= 0; i-- {
		if t.frames[i].declared[name] {
			return
		}
		t.frames[i].assigned[name] = true
	}
}

// mentioned returns the visible variables a node mentions (field selectors and composite-literal keys are not
// variables), in declaration order.
func (t *dtr) mentioned(n ast.Node) []string {
	set := map[string]bool{}
	var walk func(n ast.Node)
	walk = func(n ast.Node) {
		ast.Inspect(n, func(m ast.Node) bool {
			switch m := m.(type) {
			case *ast.SelectorExpr:
				walk(m.X)
				return false
			case *ast.KeyValueExpr:
				walk(m.Value)
				return false
			case *ast.Ident:
				if _, ok := t.kinds[m.Name]; ok {
					set[m.Name] = true
				}
			}
			return true
		})
	}
	walk(n)
	var r []string
	for _, v := range t.order {
		if set[v] {
			r = append(r, v)
		}
	}
	return r
}

// ---------------------------------------------------------------------------------------------------------------
// expressions

func (t *dtr) constOf(x ast.Expr) (*big.Int, bool) {
	switch x := x.(type) {
	case *ast.ParenExpr:
		return t.constOf(x.X)
	case *ast.BasicLit:
		if x.Kind != token.INT {
			die(x.Pos(), "literal %s", x.Value)
		}
		v, ok := new(big.Int).SetString(x.Value, 0)
		if !ok {
			die(x.Pos(), "integer literal %s", x.Value)
		}
		return v, true
	case *ast.Ident:
		if _, isVar := t.kinds[x.Name]; isVar {
			return nil, false
		}
		if v, ok := t.consts[x.Name]; ok {
			return new(big.Int).Set(v), true
		}
	case *ast.BinaryExpr:
		a, ok1 := t.constOf(x.X)
		b, ok2 := t.constOf(x.Y)
		if ok1 && ok2 {
			switch x.Op {
			case token.ADD:
				return a.Add(a, b), true
			case token.SUB:
				return a.Sub(a, b), true
			}
			die(x.Pos(), "constant operator %s", x.Op)
		}
	}
	return nil, false
}

func (t *dtr) as(pos token.Pos, v dval, k dk) string {
	if v.k == k {
		return v.lean
	}
	if v.k == dConst {
		switch k {
		case dInt:
			if v.val.BitLen() > 31 {
				die(pos, "int constant %s does not fit 32 bits", v.val)
			}
			return "(" + v.val.String() + " : Int)"
		case dU64:
			if v.val.Sign() < 0 || v.val.Cmp(two64) >= 0 {
				die(pos, "constant %s does not fit uint64", v.val)
			}
			return "(" + v.val.String() + " : UInt64)"
		case dU8:
			if v.val.Sign() < 0 || v.val.Cmp(big.NewInt(256)) >= 0 {
				die(pos, "constant %s does not fit byte", v.val)
			}
			return "(" + v.val.String() + " : UInt8)"
		}
	}
	die(pos, "expected a value of type %s", k.lean())
	return ""
}

// natIndex converts a slice bound / index to a Lean Nat term.
func (t *dtr) natIndex(x ast.Expr) string {
	v := t.expr(x)
	switch v.k {
	case dConst:
		if v.val.Sign() < 0 || v.val.BitLen() > 31 {
			die(x.Pos(), "index constant %s", v.val)
		}
		return v.val.String()
	case dInt, dU64:
		return "(" + v.lean + ").toNat"
	}
	die(x.Pos(), "index of this type")
	return ""
}

func (t *dtr) digestVar(x ast.Expr) (string, bool) {
	id, ok := x.(*ast.Ident)
	if !ok {
		return "", false
	}
	if k, ok := t.kinds[id.Name]; ok && k == dDigest {
		return id.Name, true
	}
	return "", false
}

// fieldOf recognises `v.f` for a digest variable v.
func (t *dtr) fieldOf(x ast.Expr) (v, f string, k dk, ok bool) {
	sel, isSel := x.(*ast.SelectorExpr)
	if !isSel {
		return
	}
	v, ok = t.digestVar(sel.X)
	if !ok {
		return
	}
	k, ok = t.fields[sel.Sel.Name]
	if !ok {
		die(x.Pos(), "digest has no field %s", sel.Sel.Name)
	}
	return v, sel.Sel.Name, k, true
}

func (t *dtr) expr(x ast.Expr) dval {
	if c, ok := t.constOf(x); ok {
		return dval{k: dConst, val: c}
	}
	switch x := x.(type) {
	case *ast.ParenExpr:
		return t.expr(x.X)
	case *ast.Ident:
		if k, ok := t.kinds[x.Name]; ok {
			if k == dErr {
				die(x.Pos(), "the result %s is used", x.Name)
			}
			return dval{k: k, lean: lname(x.Name)}
		}
		switch x.Name {
		case "true", "false":
			return dval{k: dBool, lean: x.Name}
		case "iv512":
			t.ivUsed = true
			return dval{k: dH, lean: "iv512"}
		}
		die(x.Pos(), "identifier %s", x.Name)
	case *ast.StarExpr:
		if v, ok := t.digestVar(x.X); ok {
			return dval{k: dDigest, lean: lname(v)} // `*d0`: the value
		}
		die(x.Pos(), "dereference")
	case *ast.SelectorExpr:
		if v, f, k, ok := t.fieldOf(x); ok {
			return dval{k: k, lean: lname(v) + "." + f}
		}
		die(x.Pos(), "selector")
	case *ast.SliceExpr:
		if x.Slice3 {
			die(x.Pos(), "3-index slice")
		}
		b := t.expr(x.X)
		switch b.k {
		case dBytes:
			switch {
			case x.Low == nil && x.High == nil:
				return dval{k: dBytes, lean: b.lean}
			case x.High == nil:
				return dval{k: dBytes, lean: "(goFrom " + b.lean + " " + t.natIndex(x.Low) + ")"}
			case x.Low == nil:
				return dval{k: dBytes, lean: "(goTo " + b.lean + " " + t.natIndex(x.High) + ")"}
			}
			return dval{k: dBytes, lean: "(goSlice " + b.lean + " " + t.natIndex(x.Low) + " " + t.natIndex(x.High) + ")"}
		case dH:
			if x.Low != nil || x.High == nil {
				die(x.Pos(), "slice of the chain value (only `[:k]`)")
			}
			return dval{k: dWords, lean: "((hWords " + b.lean + ").take " + t.natIndex(x.High) + ")"}
		}
		die(x.Pos(), "slice of this operand")
	case *ast.CompositeLit:
		at, ok := x.Type.(*ast.ArrayType)
		if !ok {
			die(x.Pos(), "composite literal")
		}
		if el, ok := at.Elt.(*ast.Ident); !ok || el.Name != "byte" {
			die(x.Pos(), "composite literal element type")
		}
		var elems []string
		for _, e := range x.Elts {
			if _, kv := e.(*ast.KeyValueExpr); kv {
				die(e.Pos(), "keyed array element")
			}
			elems = append(elems, t.as(e.Pos(), t.expr(e), dU8))
		}
		list := "[" + strings.Join(elems, ", ") + "]"
		if at.Len == nil {
			return dval{k: dBytes, lean: list}
		}
		n, ok := t.constOf(at.Len)
		if !ok || n.Sign() < 0 || n.BitLen() > 31 || int(n.Int64()) < len(elems) {
			die(x.Pos(), "array literal length")
		}
		return dval{k: dBytes, lean: "(goArrayLit " + n.String() + " " + list + ")"}
	case *ast.UnaryExpr:
		if x.Op == token.AND {
			// &digest{f: e, …}
			cl, ok := x.X.(*ast.CompositeLit)
			if !ok {
				die(x.Pos(), "address-of")
			}
			if id, ok := cl.Type.(*ast.Ident); !ok || id.Name != "digest" {
				die(x.Pos(), "address-of")
			}
			var sets []string
			seen := map[string]bool{}
			for _, e := range cl.Elts {
				kv, ok := e.(*ast.KeyValueExpr)
				if !ok {
					die(e.Pos(), "unkeyed struct literal")
				}
				key, ok := kv.Key.(*ast.Ident)
				if !ok {
					die(e.Pos(), "struct literal key")
				}
				fk, ok := t.fields[key.Name]
				if !ok || seen[key.Name] {
					die(e.Pos(), "struct literal field %s", key.Name)
				}
				seen[key.Name] = true
				sets = append(sets, key.Name+" := "+t.as(kv.Value.Pos(), t.expr(kv.Value), fk))
			}
			if len(sets) == 0 {
				return dval{k: dDigest, lean: "FullDigest.zero"}
			}
			return dval{k: dDigest, lean: "{ FullDigest.zero with " + strings.Join(sets, ", ") + " }"}
		}
		die(x.Pos(), "unary operator %s", x.Op)
	case *ast.CallExpr:
		return t.call(x)
	case *ast.BinaryExpr:
		return t.binary(x)
	default:
		die(x.Pos(), "expression %T", x)
	}
	return dval{}
}

func (t *dtr) call(x *ast.CallExpr) dval {
	// d.Size()
	if sel, ok := x.Fun.(*ast.SelectorExpr); ok {
		if v, ok := t.digestVar(sel.X); ok && sel.Sel.Name == "Size" && len(x.Args) == 0 {
			t.sizeUsed = true
			return dval{k: dInt, lean: "(digest_Size " + lname(v) + ")"}
		}
		die(x.Pos(), "method call as a value")
	}
	fn, ok := x.Fun.(*ast.Ident)
	if !ok {
		// make([]byte, n): the first argument is a type, handled below through fn; anything else is rejected
		die(x.Pos(), "call")
	}
	if _, shadowed := t.kinds[fn.Name]; shadowed {
		die(x.Pos(), "call of the variable %s", fn.Name)
	}
	switch fn.Name {
	case "len":
		if len(x.Args) != 1 || x.Ellipsis.IsValid() {
			die(x.Pos(), "len")
		}
		a := t.expr(x.Args[0])
		if a.k != dBytes {
			die(x.Pos(), "len of this operand")
		}
		return dval{k: dInt, lean: "(goLen " + a.lean + ")", isLen: true}
	case "uint64":
		if len(x.Args) != 1 || x.Ellipsis.IsValid() {
			die(x.Pos(), "uint64()")
		}
		a := t.expr(x.Args[0])
		switch a.k {
		case dInt:
			return dval{k: dU64, lean: "(UInt64.ofInt " + a.lean + ")"} // two's complement, as Go's conversion
		case dU64, dConst:
			return dval{k: dU64, lean: t.as(x.Pos(), a, dU64)}
		}
		die(x.Pos(), "uint64() of this operand")
	case "byte":
		if len(x.Args) != 1 || x.Ellipsis.IsValid() {
			die(x.Pos(), "byte()")
		}
		a := t.expr(x.Args[0])
		switch a.k {
		case dU64:
			return dval{k: dU8, lean: "(" + a.lean + ").toUInt8"} // truncation
		case dU8, dConst:
			return dval{k: dU8, lean: t.as(x.Pos(), a, dU8)}
		}
		die(x.Pos(), "byte() of this operand")
	case "make":
		if len(x.Args) != 2 || x.Ellipsis.IsValid() {
			die(x.Pos(), "make")
		}
		at, ok := x.Args[0].(*ast.ArrayType)
		if !ok || at.Len != nil {
			die(x.Pos(), "make of this type")
		}
		if el, ok := at.Elt.(*ast.Ident); !ok || el.Name != "byte" {
			die(x.Pos(), "make of this type")
		}
		return dval{k: dBytes, lean: "(goMake " + t.natIndex(x.Args[1]) + ")"}
	case "append":
		if len(x.Args) != 2 || !x.Ellipsis.IsValid() {
			die(x.Pos(), "append (only `append(a, b...)`)")
		}
		a, b := t.expr(x.Args[0]), t.expr(x.Args[1])
		if a.k != dBytes || b.k != dBytes {
			die(x.Pos(), "append operands")
		}
		return dval{k: dBytes, lean: "(" + a.lean + " ++ " + b.lean + ")"}
	}
	die(x.Pos(), "call of %s as a value", fn.Name)
	return dval{}
}

func (t *dtr) binary(x *ast.BinaryExpr) dval {
	switch x.Op {
	case token.ADD, token.SUB:
		a, b := t.expr(x.X), t.expr(x.Y)
		k := dU64
		if a.k == dInt || b.k == dInt {
			k = dInt
		} else if a.k != dU64 && b.k != dU64 {
			die(x.Pos(), "operands of %s", x.Op)
		}
		return dval{k: k, lean: "(" + t.as(x.X.Pos(), a, k) + " " + x.Op.String() + " " + t.as(x.Y.Pos(), b, k) + ")"}
	case token.SHL, token.SHR:
		a := t.expr(x.X)
		c, ok := t.constOf(x.Y)
		if !ok || c.Sign() < 0 || c.Cmp(big.NewInt(64)) >= 0 {
			die(x.Pos(), "shift count must be a constant in 0..63")
		}
		switch {
		case a.k == dU64 && x.Op == token.SHL:
			return dval{k: dU64, lean: "(" + a.lean + " <<< (" + c.String() + " : UInt64))"}
		case a.k == dU64 && x.Op == token.SHR:
			return dval{k: dU64, lean: "(" + a.lean + " >>> (" + c.String() + " : UInt64))"}
		case a.k == dInt && x.Op == token.SHR:
			return dval{k: dInt, lean: "(" + a.lean + " >>> (" + c.String() + " : Nat))"} // Int.shiftRight: arithmetic
		}
		die(x.Pos(), "shift of this operand")
	case token.AND_NOT:
		a := t.expr(x.X)
		c, ok := t.constOf(x.Y)
		if a.k != dInt || !a.isLen || !ok || c.Sign() < 0 || c.BitLen() > 31 {
			die(x.Pos(), "&^ (only `len(b) &^ non-negative constant`)")
		}
		return dval{k: dInt, lean: "(goAndNot " + a.lean + " " + c.String() + ")"}
	case token.EQL, token.LSS, token.GTR, token.GEQ:
		a, b := t.expr(x.X), t.expr(x.Y)
		k := dU64
		if a.k == dInt || b.k == dInt {
			k = dInt
		} else if a.k != dU64 && b.k != dU64 {
			die(x.Pos(), "operands of %s", x.Op)
		}
		op := map[token.Token]string{token.EQL: "=", token.LSS: "<", token.GTR: ">", token.GEQ: "≥"}[x.Op]
		return dval{k: dProp, lean: "(" + t.as(x.X.Pos(), a, k) + " " + op + " " + t.as(x.Y.Pos(), b, k) + ")"}
	}
	die(x.Pos(), "binary operator %s", x.Op)
	return dval{}
}

// ---------------------------------------------------------------------------------------------------------------
// statements

func tupleOf(names []string) string {
	if len(names) == 1 {
		return lname(names[0])
	}
	var xs []string
	for _, n := range names {
		xs = append(xs, lname(n))
	}
	return "(" + strings.Join(xs, ", ") + ")"
}

func (t *dtr) tupleType(names []string) string {
	var xs []string
	for _, n := range names {
		xs = append(xs, t.kinds[n].lean())
	}
	return strings.Join(xs, " × ")
}

// bind emits the lets that rebind the outputs `outs` to the value `rhs`.
func (t *dtr) bind(pos token.Pos, outs []string, rhs, ind string, out *[]string) {
	switch len(outs) {
	case 0:
		die(pos, "statement without effect on any variable")
	case 1:
		*out = append(*out, fmt.Sprintf("%slet %s : %s := %s", ind, lname(outs[0]), t.kinds[outs[0]].lean(), rhs))
	case 2:
		*out = append(*out, fmt.Sprintf("%slet r_ : %s := %s", ind, t.tupleType(outs), rhs))
		*out = append(*out, fmt.Sprintf("%slet %s : %s := r_.1", ind, lname(outs[0]), t.kinds[outs[0]].lean()))
		*out = append(*out, fmt.Sprintf("%slet %s : %s := r_.2", ind, lname(outs[1]), t.kinds[outs[1]].lean()))
	default:
		die(pos, "statement assigning more than two outer variables")
	}
	for _, o := range outs {
		t.markAssigned(o)
	}
}

func (t *dtr) paramList(names []string) string {
	var xs []string
	for _, n := range names {
		xs = append(xs, "("+lname(n)+" : "+t.kinds[n].lean()+")")
	}
	return strings.Join(xs, " ")
}

func argList(names []string) string {
	var xs []string
	for _, n := range names {
		xs = append(xs, lname(n))
	}
	return strings.Join(xs, " ")
}

// branch translates the statement list of an if/else branch or loop body in its own scope.
func (t *dtr) branch(list []ast.Stmt, ind string, pre func()) ([]string, map[string]bool) {
	t.push()
	if pre != nil {
		pre()
	}
	var lines []string
	for _, s := range list {
		t.stmt(s, ind, &lines, false)
	}
	f := t.pop()
	return lines, f.assigned
}

func (t *dtr) ordered(set map[string]bool) []string {
	var r []string
	for _, v := range t.order {
		if set[v] {
			r = append(r, v)
		}
	}
	if len(r) != len(set) {
		die(token.NoPos, "internal: assigned variable out of scope")
	}
	return r
}

// ifExpr translates an if statement to a Lean term whose value is the tuple of the outer variables it assigns.
func (t *dtr) ifExpr(s *ast.IfStmt, ind string) (string, []string) {
	if s.Init != nil {
		die(s.Pos(), "if with init")
	}
	c := t.expr(s.Cond)
	if c.k != dProp {
		die(s.Cond.Pos(), "condition (only comparisons)")
	}
	thenLines, thenAs := t.branch(s.Body.List, ind+"  ", nil)
	var elseLines []string
	elseAs := map[string]bool{}
	if s.Else != nil {
		blk, ok := s.Else.(*ast.BlockStmt)
		if !ok {
			die(s.Else.Pos(), "else if")
		}
		elseLines, elseAs = t.branch(blk.List, ind+"  ", nil)
	}
	all := map[string]bool{}
	for v := range thenAs {
		all[v] = true
	}
	for v := range elseAs {
		all[v] = true
	}
	outs := t.ordered(all)
	if len(outs) == 0 || len(outs) > 2 {
		die(s.Pos(), "if statement assigning %d outer variables", len(outs))
	}
	tup := tupleOf(outs)
	var b strings.Builder
	b.WriteString("if " + c.lean + " then (\n")
	for _, l := range thenLines {
		b.WriteString(l + "\n")
	}
	b.WriteString(ind + "  " + tup + ") else (\n")
	for _, l := range elseLines {
		b.WriteString(l + "\n")
	}
	b.WriteString(ind + "  " + tup + ")")
	return b.String(), outs
}

// copyCall recognises `copy(d.x[lo:], src)` / `copy(d.x[:], src)` and returns the digest variable, lo, src.
func (t *dtr) copyCall(x ast.Expr) (dv, lo, src string, ok bool) {
	call, isCall := x.(*ast.CallExpr)
	if !isCall {
		return
	}
	fn, isId := call.Fun.(*ast.Ident)
	if !isId || fn.Name != "copy" {
		return
	}
	if _, shadowed := t.kinds["copy"]; shadowed || len(call.Args) != 2 || call.Ellipsis.IsValid() {
		die(x.Pos(), "copy")
	}
	sl, isSl := call.Args[0].(*ast.SliceExpr)
	if !isSl || sl.Slice3 || sl.High != nil {
		die(x.Pos(), "copy destination (only `d.x[lo:]`, `d.x[:]`)")
	}
	v, f, _, isField := t.fieldOf(sl.X)
	if !isField || f != "x" {
		die(x.Pos(), "copy destination (only `d.x[lo:]`, `d.x[:]`)")
	}
	lo = "0"
	if sl.Low != nil {
		lo = t.natIndex(sl.Low)
	}
	s := t.expr(call.Args[1])
	if s.k != dBytes {
		die(x.Pos(), "copy source")
	}
	if _, isVar := call.Args[1].(*ast.Ident); !isVar {
		die(x.Pos(), "copy source must be a variable (it cannot alias d.x: value semantics, see the header)")
	}
	return v, lo, s.lean, true
}

func (t *dtr) stmt(s ast.Stmt, ind string, out *[]string, top bool) {
	emit := func(format string, a ...interface{}) { *out = append(*out, ind+fmt.Sprintf(format, a...)) }
	switch s := s.(type) {
	case *ast.AssignStmt:
		if len(s.Lhs) != 1 || len(s.Rhs) != 1 {
			die(s.Pos(), "multiple assignment")
		}
		// copy into the buffer: the count is assigned to / added to a field of the same digest
		if dv, lo, src, ok := t.copyCall(s.Rhs[0]); ok {
			v, f, k, isField := t.fieldOf(s.Lhs[0])
			if !isField || v != dv || k != dInt || f == "x" {
				die(s.Pos(), "the result of copy must go to an int field of the same digest")
			}
			d := lname(dv)
			emit("let c_ : List UInt8 × Int := goCopy %s.x %s %s", d, lo, src)
			emit("let %s : FullDigest := { %s with x := c_.1 }", d, d)
			switch s.Tok {
			case token.ASSIGN:
				emit("let %s : FullDigest := { %s with %s := c_.2 }", d, d, f)
			case token.ADD_ASSIGN:
				emit("let %s : FullDigest := { %s with %s := (%s.%s + c_.2) }", d, d, f, d, f)
			default:
				die(s.Pos(), "assignment operator %s with copy", s.Tok)
			}
			t.markAssigned(dv)
			return
		}
		rhs := t.expr(s.Rhs[0])
		if s.Tok == token.DEFINE {
			id, ok := s.Lhs[0].(*ast.Ident)
			if !ok {
				die(s.Pos(), "define target")
			}
			k := rhs.k
			if k == dConst {
				k = dInt // the default type of an untyped integer constant
			}
			if k == dProp || k == dErr || k == dWords {
				die(s.Pos(), "variable of this type")
			}
			val := t.as(s.Rhs[0].Pos(), rhs, k)
			t.declare(s.Pos(), id.Name, k)
			emit("let %s : %s := %s", lname(id.Name), k.lean(), val)
			return
		}
		var op string
		switch s.Tok {
		case token.ASSIGN:
		case token.ADD_ASSIGN:
			op = "+"
		case token.SUB_ASSIGN:
			op = "-"
		default:
			die(s.Pos(), "assignment operator %s", s.Tok)
		}
		switch l := s.Lhs[0].(type) {
		case *ast.Ident:
			k, ok := t.kinds[l.Name]
			if !ok || k == dErr || k == dDigest {
				die(s.Pos(), "assignment target %s", l.Name)
			}
			val := t.as(s.Rhs[0].Pos(), rhs, k)
			if op != "" {
				if k != dInt && k != dU64 {
					die(s.Pos(), "%s= on this type", op)
				}
				val = "(" + lname(l.Name) + " " + op + " " + val + ")"
			}
			emit("let %s : %s := %s", lname(l.Name), k.lean(), val)
			t.markAssigned(l.Name)
		case *ast.SelectorExpr:
			v, f, k, ok := t.fieldOf(l)
			if !ok {
				die(s.Pos(), "assignment target")
			}
			val := t.as(s.Rhs[0].Pos(), rhs, k)
			if op != "" {
				if k != dInt && k != dU64 {
					die(s.Pos(), "%s= on this type", op)
				}
				val = "(" + lname(v) + "." + f + " " + op + " " + val + ")"
			}
			emit("let %s : FullDigest := { %s with %s := %s }", lname(v), lname(v), f, val)
			t.markAssigned(v)
		case *ast.IndexExpr:
			id, ok := l.X.(*ast.Ident)
			if !ok || t.kinds[id.Name] != dBytes || op != "" {
				die(s.Pos(), "indexed assignment target")
			}
			emit("let %s : List UInt8 := goSet %s %s %s", lname(id.Name), lname(id.Name), t.natIndex(l.Index),
				t.as(s.Rhs[0].Pos(), rhs, dU8))
			t.markAssigned(id.Name)
		default:
			die(s.Pos(), "assignment target")
		}
	case *ast.ExprStmt:
		call, ok := s.X.(*ast.CallExpr)
		if !ok {
			die(s.Pos(), "expression statement")
		}
		switch fn := call.Fun.(type) {
		case *ast.Ident:
			// block(d, q)
			if fn.Name != "block" || len(call.Args) != 2 || call.Ellipsis.IsValid() {
				die(s.Pos(), "statement call of %s", fn.Name)
			}
			dv, ok := t.digestVar(call.Args[0])
			if !ok {
				die(s.Pos(), "first argument of block")
			}
			q := t.expr(call.Args[1])
			if q.k != dBytes {
				die(s.Pos(), "second argument of block")
			}
			emit("let %s : FullDigest := %s.withCore (block %s.core %s)", lname(dv), lname(dv), lname(dv), q.lean)
			t.markAssigned(dv)
		case *ast.SelectorExpr:
			// d.Write(q), results discarded
			dv, ok := t.digestVar(fn.X)
			if !ok || fn.Sel.Name != "Write" || len(call.Args) != 1 || call.Ellipsis.IsValid() {
				die(s.Pos(), "statement method call")
			}
			q := t.expr(call.Args[0])
			if q.k != dBytes {
				die(s.Pos(), "argument of Write")
			}
			emit("let %s : FullDigest := (digest_Write %s %s).1", lname(dv), lname(dv), q.lean)
			t.markAssigned(dv)
		default:
			die(s.Pos(), "statement call")
		}
	case *ast.IfStmt:
		if top {
			// own definition over the mentioned variables
			t.nIf++
			name := fmt.Sprintf("%s_if%d", t.fn, t.nIf)
			params := t.mentioned(s)
			text, outs := t.ifExpr(s, "  ")
			t.hoisted = append(t.hoisted, fmt.Sprintf("/-- statement `if` no. %d of `%s`; result: %s. -/\ndef %s %s : %s :=\n  %s\n",
				t.nIf, t.fn, tupleOf(outs), name, t.paramList(params), t.tupleType(outs), text))
			t.bind(s.Pos(), outs, name+" "+argList(params), ind, out)
			return
		}
		text, outs := t.ifExpr(s, ind)
		t.bind(s.Pos(), outs, text, ind, out)
	case *ast.RangeStmt:
		if !top {
			die(s.Pos(), "nested range loop")
		}
		key, ok1 := s.Key.(*ast.Ident)
		val, ok2 := s.Value.(*ast.Ident)
		if !ok1 || !ok2 || key.Name != "_" || s.Tok != token.DEFINE {
			die(s.Pos(), "range clause (only `for _, s := range w`)")
		}
		w := t.expr(s.X)
		if w.k != dWords {
			die(s.X.Pos(), "range over this operand")
		}
		rangeVars := t.mentioned(s.X)
		t.nFor++
		name := fmt.Sprintf("%s_for%d_body", t.fn, t.nFor)
		params := t.mentioned(s.Body)
		lines, as := t.branch(s.Body.List, "  ", func() { t.declare(val.Pos(), val.Name, dU64) })
		outs := t.ordered(as)
		if len(outs) == 0 || len(outs) > 2 {
			die(s.Pos(), "loop body assigning %d outer variables", len(outs))
		}
		for _, o := range outs {
			for _, r := range rangeVars {
				if o == r {
					die(s.Pos(), "loop body assigns %s, which the range expression reads", o)
				}
			}
		}
		t.hoisted = append(t.hoisted, fmt.Sprintf("/-- body of `for` loop no. %d of `%s` (one element `%s`); result: %s. -/\ndef %s %s (%s : UInt64) : %s :=\n%s\n  %s\n",
			t.nFor, t.fn, val.Name, tupleOf(outs), name, t.paramList(params), lname(val.Name), t.tupleType(outs),
			strings.Join(lines, "\n"), tupleOf(outs)))
		// arguments: outputs come from the loop state, everything else is loop-invariant
		var args []string
		for _, p := range params {
			a := lname(p)
			for i, o := range outs {
				if o == p {
					if len(outs) == 1 {
						a = "st_"
					} else {
						a = fmt.Sprintf("st_.%d", i+1)
					}
				}
			}
			args = append(args, a)
		}
		fold := fmt.Sprintf("List.foldl (fun (st_ : %s) (%s : UInt64) => %s %s %s) %s %s", t.tupleType(outs), lname(val.Name),
			name, strings.Join(args, " "), lname(val.Name), tupleOf(outs), w.lean)
		t.bind(s.Pos(), outs, fold, ind, out)
	default:
		die(s.Pos(), "statement %T", s)
	}
}

// ---------------------------------------------------------------------------------------------------------------
// functions

func (t *dtr) startFunc(name string) {
	t.kinds = map[string]dk{}
	t.order = nil
	t.frames = nil
	t.ever = map[string]bool{}
	t.fn = name
	t.nIf, t.nFor = 0, 0
	t.hoisted = nil
	t.push()
}

func recvOf(fd *ast.FuncDecl) (string, bool) {
	if fd.Recv == nil || len(fd.Recv.List) != 1 || len(fd.Recv.List[0].Names) != 1 {
		return "", false
	}
	if typeString(fd.Recv.List[0].Type) != "*digest" {
		return "", false
	}
	return fd.Recv.List[0].Names[0].Name, true
}

// body translates all statements but the final return, which it hands back.
func (t *dtr) body(fd *ast.FuncDecl, lines *[]string) *ast.ReturnStmt {
	list := fd.Body.List
	if len(list) == 0 {
		die(fd.Pos(), "empty body")
	}
	ret, ok := list[len(list)-1].(*ast.ReturnStmt)
	if !ok {
		die(fd.Pos(), "the last statement must be a return")
	}
	for _, s := range list[:len(list)-1] {
		t.stmt(s, "  ", lines, true)
	}
	return ret
}

func (t *dtr) funcSize(fd *ast.FuncDecl) string {
	recv, ok := recvOf(fd)
	if !ok || len(fd.Type.Params.List) != 0 || fd.Type.Results == nil || len(fd.Type.Results.List) != 1 ||
		len(fd.Type.Results.List[0].Names) != 0 || typeString(fd.Type.Results.List[0].Type) != "int" {
		die(fd.Pos(), "signature of Size")
	}
	t.startFunc("digest_Size")
	t.declare(fd.Pos(), recv, dDigest)
	var lines []string
	ret := t.body(fd, &lines)
	if len(ret.Results) != 1 {
		die(ret.Pos(), "return of Size")
	}
	r := t.as(ret.Pos(), t.expr(ret.Results[0]), dInt)
	if t.ever[recv] {
		die(fd.Pos(), "Size writes through its receiver")
	}
	return fmt.Sprintf("/-- `func (d *digest) Size() int`. -/\ndef digest_Size (%s : FullDigest) : Int :=\n%s  %s\n",
		lname(recv), joinLines(lines), r)
}

func joinLines(lines []string) string {
	if len(lines) == 0 {
		return ""
	}
	return strings.Join(lines, "\n") + "\n"
}

func (t *dtr) funcWrite(fd *ast.FuncDecl) string {
	recv, ok := recvOf(fd)
	ps := fd.Type.Params.List
	if !ok || len(ps) != 1 || len(ps[0].Names) != 1 || typeString(ps[0].Type) != "[]byte" || fd.Type.Results == nil {
		die(fd.Pos(), "signature of Write")
	}
	rs := fd.Type.Results.List
	if len(rs) != 2 || len(rs[0].Names) != 1 || len(rs[1].Names) != 1 || typeString(rs[0].Type) != "int" ||
		typeString(rs[1].Type) != "error" {
		die(fd.Pos(), "results of Write (want `(nn int, err error)`)")
	}
	nn, errName := rs[0].Names[0].Name, rs[1].Names[0].Name
	t.startFunc("digest_Write")
	t.declare(fd.Pos(), recv, dDigest)
	t.declare(fd.Pos(), ps[0].Names[0].Name, dBytes)
	t.declare(fd.Pos(), nn, dInt)
	t.declare(fd.Pos(), errName, dErr)
	lines := []string{fmt.Sprintf("  let %s : Int := 0", lname(nn))} // named result: zero value
	ret := t.body(fd, &lines)
	if len(ret.Results) != 0 {
		die(ret.Pos(), "return of Write (want a bare return)")
	}
	if t.ever[errName] {
		die(fd.Pos(), "internal: err assigned")
	}
	return strings.Join(t.hoisted, "\n") + "\n" +
		fmt.Sprintf("/-- `func (d *digest) Write(p []byte) (nn int, err error)`: the new `*d` and `nn`; `err` is never assigned\n    (the zero value `nil`). -/\ndef digest_Write (%s : FullDigest) (%s : List UInt8) : FullDigest × Int :=\n%s  (%s, %s)\n",
			lname(recv), lname(ps[0].Names[0].Name), joinLines(lines), lname(recv), lname(nn))
}

func (t *dtr) funcSum(fd *ast.FuncDecl) string {
	recv, ok := recvOf(fd)
	ps := fd.Type.Params.List
	if !ok || len(ps) != 1 || len(ps[0].Names) != 1 || typeString(ps[0].Type) != "[]byte" || fd.Type.Results == nil ||
		len(fd.Type.Results.List) != 1 || len(fd.Type.Results.List[0].Names) != 0 ||
		typeString(fd.Type.Results.List[0].Type) != "[]byte" {
		die(fd.Pos(), "signature of Sum")
	}
	t.startFunc("digest_Sum")
	t.declare(fd.Pos(), recv, dDigest)
	t.declare(fd.Pos(), ps[0].Names[0].Name, dBytes)
	var lines []string
	ret := t.body(fd, &lines)
	if len(ret.Results) != 1 {
		die(ret.Pos(), "return of Sum")
	}
	r := t.as(ret.Pos(), t.expr(ret.Results[0]), dBytes)
	if t.ever[recv] {
		die(fd.Pos(), "Sum writes through its receiver")
	}
	return strings.Join(t.hoisted, "\n") + "\n" +
		fmt.Sprintf("/-- `func (d0 *digest) Sum(in []byte) []byte` (`*d0` is not written). -/\ndef digest_Sum (%s : FullDigest) (%s : List UInt8) : List UInt8 :=\n%s  %s\n",
			lname(recv), lname(ps[0].Names[0].Name), joinLines(lines), r)
}

func (t *dtr) funcNew(fd *ast.FuncDecl) string {
	if fd.Recv != nil || len(fd.Type.Params.List) != 0 || fd.Type.Results == nil || len(fd.Type.Results.List) != 1 {
		die(fd.Pos(), "signature of New")
	}
	if sel, ok := fd.Type.Results.List[0].Type.(*ast.SelectorExpr); !ok || typeString(sel.X) != "hash" || sel.Sel.Name != "Hash" {
		die(fd.Pos(), "result of New (want hash.Hash)")
	}
	t.startFunc("New")
	var lines []string
	ret := t.body(fd, &lines)
	if len(ret.Results) != 1 {
		die(ret.Pos(), "return of New")
	}
	r := t.as(ret.Pos(), t.expr(ret.Results[0]), dDigest)
	return fmt.Sprintf("/-- `func New() hash.Hash`: the `*digest` behind the interface value. -/\ndef New : FullDigest :=\n%s  %s\n",
		joinLines(lines), r)
}

// ---------------------------------------------------------------------------------------------------------------

// ivReadOnly checks that the package variable `name` is only ever copied (`d.h = name`, `h: name`).
func ivReadOnly(files []*ast.File, name string) {
	for _, f := range files {
		var stack []ast.Node
		ast.Inspect(f, func(n ast.Node) bool {
			if n == nil {
				stack = stack[:len(stack)-1]
				return true
			}
			if id, ok := n.(*ast.Ident); ok && id.Name == name {
				fine := false
				switch p := stack[len(stack)-1].(type) {
				case *ast.ValueSpec:
					for _, nm := range p.Names {
						if nm == id {
							fine = true
						}
					}
				case *ast.AssignStmt:
					if p.Tok == token.ASSIGN {
						for _, r := range p.Rhs {
							if r == ast.Expr(id) {
								fine = true
							}
						}
					}
				case *ast.KeyValueExpr:
					if p.Value == ast.Expr(id) {
						fine = true
					}
				}
				if !fine {
					die(id.Pos(), "%s is used other than by copying its value", name)
				}
			}
			stack = append(stack, n)
			return true
		})
	}
}

func genDigest(dir, gen string, blockSize *big.Int, blockFile *ast.File) {
	path := filepath.Join(dir, "blake512.go")
	f, src := parseFile(path)
	sum := sha256.Sum256(src)
	if f.Name.Name != "blake512" {
		die(f.Pos(), "package name %s", f.Name.Name)
	}
	// the package consists of exactly these non-test Go files
	ents, err := os.ReadDir(dir)
	if err != nil {
		fmt.Fprintln(os.Stderr, "gen_blake:", err)
		os.Exit(2)
	}
	var goFiles []string
	for _, e := range ents {
		if strings.HasSuffix(e.Name(), ".go") && !strings.HasSuffix(e.Name(), "_test.go") {
			goFiles = append(goFiles, e.Name())
		}
	}
	sort.Strings(goFiles)
	if strings.Join(goFiles, " ") != "blake512.go blake512block.go" {
		die(token.NoPos, "files of the package: %v (want blake512.go blake512block.go)", goFiles)
	}
	if len(f.Imports) != 1 || f.Imports[0].Path.Value != `"hash"` || f.Imports[0].Name != nil {
		die(f.Pos(), "imports of blake512.go (want \"hash\" only)")
	}

	t := &dtr{consts: map[string]*big.Int{}, fields: map[string]dk{}}
	translated := map[string]*ast.FuncDecl{}
	skipped := map[string]bool{"Reset": true, "BlockSize": true, "setSalt": true, "NewSalt": true, "New384": true, "New384Salt": true}
	seenSkipped := map[string]bool{}
	var iv512 []*big.Int
	wantFields := []struct{ name, typ string }{{"hashSize", "int"}, {"h", "[8]uint64"}, {"s", "[4]uint64"}, {"t", "uint64"},
		{"nullt", "bool"}, {"x", "[BlockSize]byte"}, {"nx", "int"}}
	fieldKinds := map[string]dk{"hashSize": dInt, "h": dH, "s": dS, "t": dU64, "nullt": dBool, "x": dBytes, "nx": dInt}
	haveDigest := false
	for _, d := range f.Decls {
		switch d := d.(type) {
		case *ast.GenDecl:
			switch d.Tok {
			case token.IMPORT:
			case token.CONST:
				for _, sp := range d.Specs {
					vs := sp.(*ast.ValueSpec)
					if vs.Type != nil || len(vs.Names) != 1 || len(vs.Values) != 1 {
						die(vs.Pos(), "constant declaration")
					}
					lit, ok := vs.Values[0].(*ast.BasicLit)
					if !ok || lit.Kind != token.INT {
						die(vs.Pos(), "constant value")
					}
					v, _ := new(big.Int).SetString(lit.Value, 0)
					t.consts[vs.Names[0].Name] = v
				}
			case token.TYPE:
				if len(d.Specs) != 1 {
					die(d.Pos(), "type declaration")
				}
				ts := d.Specs[0].(*ast.TypeSpec)
				st, ok := ts.Type.(*ast.StructType)
				if ts.Name.Name != "digest" || !ok || haveDigest {
					die(d.Pos(), "type declaration %s", ts.Name.Name)
				}
				haveDigest = true
				var got []string
				for _, fl := range st.Fields.List {
					if len(fl.Names) == 0 {
						die(fl.Pos(), "embedded field")
					}
					for _, n := range fl.Names {
						got = append(got, n.Name+" "+typeString(fl.Type))
					}
				}
				var want []string
				for _, w := range wantFields {
					want = append(want, w.name+" "+w.typ)
				}
				if strings.Join(got, "; ") != strings.Join(want, "; ") {
					die(d.Pos(), "fields of digest: %q (want %q)", got, want)
				}
			case token.VAR:
				for _, sp := range d.Specs {
					vs := sp.(*ast.ValueSpec)
					if len(vs.Names) != 1 || len(vs.Values) != 1 || vs.Type != nil {
						die(vs.Pos(), "variable declaration")
					}
					cl, ok := vs.Values[0].(*ast.CompositeLit)
					if !ok || typeString(cl.Type) != "[8]uint64" || len(cl.Elts) != 8 {
						die(vs.Pos(), "variable %s (want an [8]uint64 literal with 8 elements)", vs.Names[0].Name)
					}
					var words []*big.Int
					for _, e := range cl.Elts {
						lit, ok := e.(*ast.BasicLit)
						if !ok || lit.Kind != token.INT {
							die(e.Pos(), "table element")
						}
						v, ok := new(big.Int).SetString(lit.Value, 0)
						if !ok || v.Sign() < 0 || v.Cmp(two64) >= 0 {
							die(e.Pos(), "table element does not fit uint64")
						}
						words = append(words, v)
					}
					switch vs.Names[0].Name {
					case "iv512":
						iv512 = words
					case "iv384": // not translated
					default:
						die(vs.Pos(), "variable %s", vs.Names[0].Name)
					}
				}
			default:
				die(d.Pos(), "top-level %s declaration", d.Tok)
			}
		case *ast.FuncDecl:
			name := d.Name.Name
			switch {
			case name == "Size" || name == "Write" || name == "Sum" || name == "New":
				if translated[name] != nil {
					die(d.Pos(), "function %s declared twice", name)
				}
				translated[name] = d
			case skipped[name]:
				seenSkipped[name] = true
			default:
				die(d.Pos(), "function %s is neither translated nor on the list of skipped functions", name)
			}
		default:
			die(d.Pos(), "top-level declaration")
		}
	}
	if !haveDigest || iv512 == nil {
		die(token.NoPos, "digest / iv512 not found")
	}
	for _, n := range []string{"Size", "Write", "Sum", "New"} {
		if translated[n] == nil {
			die(token.NoPos, "function %s not found", n)
		}
	}
	if t.consts["BlockSize"] == nil || t.consts["BlockSize"].Cmp(blockSize) != 0 || blockSize.Int64() != 128 {
		die(token.NoPos, "BlockSize")
	}
	t.fields = fieldKinds
	ivReadOnly([]*ast.File{f, blockFile}, "iv512")

	sizeText := t.funcSize(translated["Size"])
	writeText := t.funcWrite(translated["Write"])
	sumText := t.funcSum(translated["Sum"])
	newText := t.funcNew(translated["New"])
	if !t.ivUsed || !t.sizeUsed {
		die(token.NoPos, "iv512 / Size unused")
	}

	var b strings.Builder
	w := func(format string, a ...interface{}) { fmt.Fprintf(&b, format, a...) }
	w("/-\n  GENERATED by tools/gen_blake from %s/blake512.go — do not edit.\n", modPath)
	w("  Statement-by-statement translation of `New`, `(*digest).Size`, `(*digest).Write`, `(*digest).Sum` (core Lean only);\n")
	w("  `block` is the translation of blake512block.go in I3.Gen.BlakeBlock.  Rules: see tools/gen_blake/digest.go.\n")
	var sk []string
	for n := range seenSkipped {
		sk = append(sk, n)
	}
	sort.Strings(sk)
	w("  Not translated: %s, iv384.\n-/\n", strings.Join(sk, ", "))
	w("import I3.Gen.BlakeBlock\nset_option linter.unusedVariables false\n\nnamespace I3.Gen.BlakeGo\n\n")
	w("/-- SHA-256 of the translated source file blake512.go. -/\n")
	w("def digestSourceSha256 : String := \"%x\"\n\n", sum)
	w("/-! ### the translation rules for slices, as definitions (Go panics where these are total) -/\n\n")
	w("/-- `len(b)`. -/\ndef goLen (b : List UInt8) : Int := (b.length : Int)\n")
	w("/-- `b[lo:]`. -/\ndef goFrom (b : List UInt8) (lo : Nat) : List UInt8 := b.drop lo\n")
	w("/-- `b[:hi]`. -/\ndef goTo (b : List UInt8) (hi : Nat) : List UInt8 := b.take hi\n")
	w("/-- `b[lo:hi]`. -/\ndef goSlice (b : List UInt8) (lo hi : Nat) : List UInt8 := (b.take hi).drop lo\n")
	w("/-- `copy(dst[lo:], src)`: the new contents of `dst` and the number of bytes copied, `min(len(dst[lo:]), len(src))`. -/\n")
	w("def goCopy (dst : List UInt8) (lo : Nat) (src : List UInt8) : List UInt8 × Int :=\n")
	w("  let n : Nat := min (dst.length - lo) src.length\n")
	w("  (dst.take lo ++ src.take n ++ dst.drop (lo + n), (n : Int))\n")
	w("/-- `b[i] = v`. -/\ndef goSet (b : List UInt8) (i : Nat) (v : UInt8) : List UInt8 := b.set i v\n")
	w("/-- `make([]byte, n)`. -/\ndef goMake (n : Nat) : List UInt8 := List.replicate n 0\n")
	w("/-- `[n]byte{e0, e1, …}`: the listed elements, then zeros. -/\n")
	w("def goArrayLit (n : Nat) (elems : List UInt8) : List UInt8 := elems ++ List.replicate (n - elems.length) 0\n")
	w("/-- `a &^ c` for a non-negative `a` (a length) and a non-negative constant `c`: clear in `a` the bits set in `c`\n")
	w("    (the cleared bits `a & c` are a subset of the bits of `a`, so the subtraction does not borrow). -/\n")
	w("def goAndNot (a : Int) (c : Nat) : Int := ((a.toNat - (a.toNat &&& c) : Nat) : Int)\n\n")
	w("/-- `type digest struct` (`x [BlockSize]byte` as a list). -/\n")
	w("structure FullDigest where\n")
	for _, fl := range wantFields {
		w("  %s : %s\n", fl.name, fieldKinds[fl.name].lean())
	}
	w("  deriving Repr, DecidableEq\n\n")
	w("/-- the zero value of `digest`. -/\n")
	w("def FullDigest.zero : FullDigest :=\n  { hashSize := 0, h := { h0 := 0, h1 := 0, h2 := 0, h3 := 0, h4 := 0, h5 := 0, h6 := 0, h7 := 0 },\n")
	w("    s := { s0 := 0, s1 := 0, s2 := 0, s3 := 0 }, t := 0, nullt := false, x := List.replicate %s 0, nx := 0 }\n\n", blockSize)
	w("/-- the fields `block` (blake512block.go) reads or writes: it mentions no other field of `*d`. -/\n")
	w("def FullDigest.core (d : FullDigest) : Digest := { h := d.h, s := d.s, t := d.t, nullt := d.nullt }\n")
	w("/-- `*d` after a call `block(d, …)` that left the fields `c`. -/\n")
	w("def FullDigest.withCore (d : FullDigest) (c : Digest) : FullDigest := { d with h := c.h, s := c.s, t := c.t, nullt := c.nullt }\n\n")
	w("/-- the array `d.h` as a slice. -/\n")
	w("def hWords (h : H) : List UInt64 := [h.h0, h.h1, h.h2, h.h3, h.h4, h.h5, h.h6, h.h7]\n\n")
	w("/-- `var iv512 = [8]uint64{…}` (only ever copied: checked over both files of the package). -/\n")
	w("def iv512 : H :=\n  { ")
	for i, v := range iv512 {
		if i > 0 {
			w(", ")
		}
		if i == 4 {
			w("\n    ")
		}
		w("h%d := 0x%016X", i, v)
	}
	w(" }\n\n")
	w("%s\n%s\n%s\n%s\nend I3.Gen.BlakeGo\n", newText, sizeText, writeText, sumText)

	outPath := filepath.Join(gen, "BlakeDigest.lean")
	if err := os.WriteFile(outPath, []byte(b.String()), 0o644); err != nil {
		fmt.Fprintln(os.Stderr, "gen_blake:", err)
		os.Exit(1)
	}
	fmt.Printf("gen_blake: wrote %s (%d bytes), source sha256 %x\n", outPath, b.Len(), sum)
}
