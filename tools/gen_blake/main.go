// gen_blake — fail-closed translator of the third-party BLAKE-512 compression code
// (github.com/dchest/blake512, blake512block.go: `func block(d *digest, p []uint8)`) into Lean 4.
//
//	gen_blake <repo-dir> <gen-dir>
//
// The module directory is located the way the Go build of <repo-dir> locates it
// (`go list -m -f '{{.Dir}}' github.com/dchest/blake512`, GOFLAGS=-mod=mod GOPROXY=off), blake512block.go is
// parsed with go/parser and `<gen-dir>/BlakeBlock.lean` (namespace I3.Gen.BlakeGo, core Lean only) is written.
// A second module, `<gen-dir>/BlakeDigest.lean`, holds the translation of `New`, `(*digest).Size`, `(*digest).Write`
// and `(*digest).Sum` of blake512.go: see digest.go (same exit-code convention: 2 = construct outside the subset).
//
// What is translated, and how
//
//	const ( cstN = 0x… )                      def cstN : UInt64 := 0x…                (value checked < 2^64)
//	h0..h7 := d.h[0..7]; s0..s3 := d.s[0..3]  `block` (prologue)
//	for len(p) >= BlockSize { BODY }          `blocks` (fuel = len(p)/BlockSize, the guard is kept) over `blockStep`
//	d.h[0..7] = h0..h7                        `block` (epilogue)
//
// BODY is straight-line code; it is cut into consecutive PIECES (`init`, `loadWords`, `round1` … `round16`,
// `finish`, and the final `p = p[BlockSize:]`), every statement of a piece becoming one Lean `let`.  Every piece has a
// declared interface (input variables, output variables); the translator checks, statement by statement, that a piece
// reads only its inputs or variables it has assigned itself and assigns only its outputs — so cutting the
// straight-line code at these places and re-composing the pieces in `blockStep` preserves the meaning, wherever
// the cuts are.  Cuts are placed at the `// Round k.` comments (k = 1..16 in order, required), before `var m`, and
// before the first statement after round 16 that assigns something that is not a `v` variable.
//
// Statement subset (anything else: exit code 2)
//
//	x, y, … := e, f, …   x := e      x = e      x op= e   (op ∈ + ^)         x ∈ locals, m[const], d.t
//	var m [16]uint64                  (zero-initialised words m0..m15)
//	if !d.nullt { x ^= e; … }         (assignments to distinct variables, no statement reads a variable assigned
//	                                   earlier in the body: translated per variable as `if … then x ^^^ e else x`)
//	j := const ; j += const           (compile-time integer variables, folded)
//	for i := c0; i < c1; i++ { … }    (constant bounds: unrolled, i and j folded)
//	p = p[BlockSize:]                 (last statement of the loop body)
//
// Expression subset: identifiers, integer literals, `^`, `|`, `+` on uint64; `<<`, `>>` by a CONSTANT count in
// 0..63 (so that Lean's `<<<`/`>>>`, which reduce the count mod 64, agree with Go); `uint64(e)` for a constant or a
// byte; `m[const]` (0..15), `d.h[const]` (0..7), `d.s[const]` (0..3), `p[const]` (0..BlockSize-1, in range because
// of the loop guard), `d.t`, `d.nullt`, `!b`, `len(p)`, BlockSize.  The field types of `digest` (h [8]uint64,
// s [4]uint64, t uint64, nullt bool) and `const BlockSize = 128` are read from blake512.go and checked.
package main

import (
	"bytes"
	"crypto/sha256"
	"fmt"
	"go/ast"
	"go/parser"
	"go/token"
	"math/big"
	"os"
	"os/exec"
	"path/filepath"
	"regexp"
	"sort"
	"strconv"
	"strings"
)

const modPath = "github.com/dchest/blake512"

var fset = token.NewFileSet()

func die(pos token.Pos, format string, a ...interface{}) {
	where := ""
	if pos.IsValid() {
		where = fset.Position(pos).String() + ": "
	}
	fmt.Fprintf(os.Stderr, "gen_blake: %sunsupported: %s\n", where, fmt.Sprintf(format, a...))
	os.Exit(2)
}

// ---------------------------------------------------------------------------------------------------------------
// types of translated expressions

type kind int

const (
	kU64   kind = iota // Lean term of type UInt64
	kU8                // Lean term of type UInt8
	kBool              // Lean term of type Bool
	kConst             // untyped integer constant (exact value in val)
	kBytes             // the slice p
)

type value struct {
	k    kind
	lean string   // Lean term (kU64, kU8, kBool, kBytes)
	val  *big.Int // kConst
}

var two64 = new(big.Int).Lsh(big.NewInt(1), 64)

// asU64 converts a value to a UInt64 Lean term (untyped constants must be representable, as in Go).
func asU64(pos token.Pos, v value) string {
	switch v.k {
	case kU64:
		return v.lean
	case kConst:
		if v.val.Sign() < 0 || v.val.Cmp(two64) >= 0 {
			die(pos, "constant %s does not fit uint64", v.val)
		}
		return "(" + v.val.String() + " : UInt64)"
	}
	die(pos, "expected a uint64 expression")
	return ""
}

// ---------------------------------------------------------------------------------------------------------------
// translation environment

type piece struct {
	name    string
	inputs  map[string]bool
	outputs map[string]bool
	defined map[string]bool // assigned so far inside the piece
	lines   []string        // emitted `let` lines
}

type env struct {
	consts    map[string]*big.Int // package-level untyped constants (cstN, BlockSize)
	constUsed map[string]bool
	ints      map[string]*big.Int // compile-time integer locals (i, j)
	u64Locals map[string]bool     // declared uint64 locals (h0.., s0.., v0..)
	mLen      int                 // length of the local array m (0 = not declared)
	cur       *piece
	inGuard   bool // inside `for len(p) >= BlockSize` and p not yet advanced
}

func newPiece(name string, in, out []string) *piece {
	p := &piece{name: name, inputs: map[string]bool{}, outputs: map[string]bool{}, defined: map[string]bool{}}
	for _, x := range in {
		p.inputs[x] = true
	}
	for _, x := range out {
		p.outputs[x] = true
	}
	return p
}

func (e *env) read(pos token.Pos, leanVar string) string {
	if !e.cur.defined[leanVar] && !e.cur.inputs[leanVar] {
		die(pos, "piece %s reads %s, which is neither an input of the piece nor assigned in it", e.cur.name, leanVar)
	}
	return leanVar
}

func (e *env) assign(pos token.Pos, leanVar, rhs string) {
	if !e.cur.outputs[leanVar] {
		die(pos, "piece %s assigns %s, which is not an output of the piece", e.cur.name, leanVar)
	}
	e.cur.defined[leanVar] = true
	e.cur.lines = append(e.cur.lines, fmt.Sprintf("  let %s : UInt64 := %s", leanVar, rhs))
}

// constInt evaluates a compile-time integer expression (literals, i/j, package constants, + and -).
func (e *env) constInt(x ast.Expr) *big.Int {
	switch x := x.(type) {
	case *ast.ParenExpr:
		return e.constInt(x.X)
	case *ast.BasicLit:
		if x.Kind != token.INT {
			die(x.Pos(), "literal %s", x.Value)
		}
		v, ok := new(big.Int).SetString(x.Value, 0)
		if !ok {
			die(x.Pos(), "integer literal %s", x.Value)
		}
		return v
	case *ast.Ident:
		if v, ok := e.ints[x.Name]; ok {
			return new(big.Int).Set(v)
		}
		if v, ok := e.consts[x.Name]; ok {
			e.constUsed[x.Name] = true
			return new(big.Int).Set(v)
		}
		die(x.Pos(), "%s is not a compile-time integer", x.Name)
	case *ast.BinaryExpr:
		a, b := e.constInt(x.X), e.constInt(x.Y)
		switch x.Op {
		case token.ADD:
			return a.Add(a, b)
		case token.SUB:
			return a.Sub(a, b)
		}
		die(x.Pos(), "constant operator %s", x.Op)
	default:
		die(x.Pos(), "constant expression %T", x)
	}
	return nil
}

func (e *env) index(x ast.Expr, bound int, what string) int {
	v := e.constInt(x)
	if v.Sign() < 0 || v.Cmp(big.NewInt(int64(bound))) >= 0 {
		die(x.Pos(), "index %s out of range for %s (length %d)", v, what, bound)
	}
	return int(v.Int64())
}

// isD reports whether x is the identifier `d` (the *digest parameter).
func isD(x ast.Expr) bool {
	id, ok := x.(*ast.Ident)
	return ok && id.Name == "d"
}

// lvalue returns the Lean variable standing for an assignable uint64 location.
func (e *env) lvalue(x ast.Expr) (string, bool) {
	switch x := x.(type) {
	case *ast.Ident:
		if e.u64Locals[x.Name] {
			return x.Name, true
		}
	case *ast.SelectorExpr:
		if isD(x.X) && x.Sel.Name == "t" {
			return "d_t", true
		}
	case *ast.IndexExpr:
		if id, ok := x.X.(*ast.Ident); ok && id.Name == "m" && e.mLen > 0 {
			return "m" + strconv.Itoa(e.index(x.Index, e.mLen, "m")), true
		}
		if sel, ok := x.X.(*ast.SelectorExpr); ok && isD(sel.X) {
			switch sel.Sel.Name {
			case "h":
				return "d_h" + strconv.Itoa(e.index(x.Index, 8, "d.h")), true
			case "s":
				return "d_s" + strconv.Itoa(e.index(x.Index, 4, "d.s")), true
			}
		}
	}
	return "", false
}

func (e *env) expr(x ast.Expr) value {
	switch x := x.(type) {
	case *ast.ParenExpr:
		return e.expr(x.X)
	case *ast.BasicLit:
		return value{k: kConst, val: e.constInt(x)}
	case *ast.Ident:
		if _, ok := e.ints[x.Name]; ok {
			die(x.Pos(), "compile-time integer %s used as a value", x.Name)
		}
		if v, ok := e.consts[x.Name]; ok {
			e.constUsed[x.Name] = true
			if strings.HasPrefix(x.Name, "cst") {
				// keep the name: `cstN` is emitted as a UInt64 definition (value checked < 2^64 there)
				return value{k: kU64, lean: x.Name}
			}
			return value{k: kConst, val: new(big.Int).Set(v)}
		}
		if x.Name == "p" {
			return value{k: kBytes, lean: e.read(x.Pos(), "p")}
		}
		if lv, ok := e.lvalue(x); ok {
			return value{k: kU64, lean: e.read(x.Pos(), lv)}
		}
		die(x.Pos(), "identifier %s", x.Name)
	case *ast.SelectorExpr:
		if isD(x.X) && x.Sel.Name == "nullt" {
			return value{k: kBool, lean: e.read(x.Pos(), "d_nullt")}
		}
		if lv, ok := e.lvalue(x); ok {
			return value{k: kU64, lean: e.read(x.Pos(), lv)}
		}
		die(x.Pos(), "selector")
	case *ast.IndexExpr:
		if id, ok := x.X.(*ast.Ident); ok && id.Name == "p" {
			if !e.inGuard {
				die(x.Pos(), "p indexed outside the guarded loop body")
			}
			bs := int(e.consts["BlockSize"].Int64())
			i := e.index(x.Index, bs, "p (guard len(p) >= BlockSize)")
			return value{k: kU8, lean: fmt.Sprintf("(%s.getD %d 0)", e.read(x.Pos(), "p"), i)}
		}
		if lv, ok := e.lvalue(x); ok {
			return value{k: kU64, lean: e.read(x.Pos(), lv)}
		}
		die(x.Pos(), "index expression")
	case *ast.UnaryExpr:
		if x.Op == token.NOT {
			v := e.expr(x.X)
			if v.k != kBool {
				die(x.Pos(), "! of a non-bool")
			}
			return value{k: kBool, lean: "(!" + v.lean + ")"}
		}
		die(x.Pos(), "unary operator %s", x.Op)
	case *ast.CallExpr:
		fn, ok := x.Fun.(*ast.Ident)
		if !ok || len(x.Args) != 1 || x.Ellipsis.IsValid() {
			die(x.Pos(), "call")
		}
		switch fn.Name {
		case "uint64":
			a := e.expr(x.Args[0])
			switch a.k {
			case kU8:
				return value{k: kU64, lean: a.lean + ".toUInt64"}
			case kConst, kU64:
				return value{k: kU64, lean: asU64(x.Pos(), a)}
			}
			die(x.Pos(), "uint64() of this operand")
		}
		die(x.Pos(), "call of %s", fn.Name)
	case *ast.BinaryExpr:
		switch x.Op {
		case token.XOR, token.OR, token.ADD:
			a, b := e.expr(x.X), e.expr(x.Y)
			if a.k == kConst && b.k == kConst {
				die(x.Pos(), "constant-only arithmetic as a value")
			}
			op := map[token.Token]string{token.XOR: "^^^", token.OR: "|||", token.ADD: "+"}[x.Op]
			return value{k: kU64, lean: "(" + asU64(x.X.Pos(), a) + " " + op + " " + asU64(x.Y.Pos(), b) + ")"}
		case token.SHL, token.SHR:
			a := e.expr(x.X)
			if a.k != kU64 {
				die(x.Pos(), "shift of a non-uint64 operand")
			}
			c := e.constInt(x.Y)
			if c.Sign() < 0 || c.Cmp(big.NewInt(64)) >= 0 {
				die(x.Pos(), "shift count %s outside 0..63", c)
			}
			op := "<<<"
			if x.Op == token.SHR {
				op = ">>>"
			}
			return value{k: kU64, lean: "(" + a.lean + " " + op + " (" + c.String() + " : UInt64))"}
		}
		die(x.Pos(), "binary operator %s", x.Op)
	default:
		die(x.Pos(), "expression %T", x)
	}
	return value{}
}

// opAssign translates `lhs op= rhs` / `lhs = rhs` and returns (leanVar, leanRhs) without emitting.
func (e *env) assignParts(s *ast.AssignStmt) (string, string) {
	if len(s.Lhs) != 1 || len(s.Rhs) != 1 {
		die(s.Pos(), "multiple assignment here")
	}
	lv, ok := e.lvalue(s.Lhs[0])
	if !ok {
		die(s.Pos(), "assignment target")
	}
	rhs := asU64(s.Rhs[0].Pos(), e.expr(s.Rhs[0]))
	switch s.Tok {
	case token.ASSIGN:
		return lv, rhs
	case token.ADD_ASSIGN:
		return lv, "(" + e.read(s.Pos(), lv) + " + " + rhs + ")"
	case token.XOR_ASSIGN:
		return lv, "(" + e.read(s.Pos(), lv) + " ^^^ " + rhs + ")"
	}
	die(s.Pos(), "assignment operator %s", s.Tok)
	return "", ""
}

// readsOf collects the Lean variables an expression reads (used for the independence check of `if` bodies).
func (e *env) readsOf(x ast.Expr) map[string]bool {
	r := map[string]bool{}
	ast.Inspect(x, func(n ast.Node) bool {
		if ex, ok := n.(ast.Expr); ok {
			if lv, ok := e.lvalueQuiet(ex); ok {
				r[lv] = true
			}
		}
		return true
	})
	return r
}

func (e *env) lvalueQuiet(x ast.Expr) (string, bool) {
	switch x := x.(type) {
	case *ast.Ident:
		if e.u64Locals[x.Name] {
			return x.Name, true
		}
		return "", false
	case *ast.SelectorExpr:
		if isD(x.X) && x.Sel.Name == "t" {
			return "d_t", true
		}
		return "", false
	case *ast.IndexExpr:
		return e.lvalue(x)
	}
	return "", false
}

func (e *env) stmt(s ast.Stmt) {
	switch s := s.(type) {
	case *ast.AssignStmt:
		switch s.Tok {
		case token.DEFINE:
			if len(s.Lhs) != len(s.Rhs) {
				die(s.Pos(), "define with mismatched sides")
			}
			// compile-time integer: `j := 0`
			if len(s.Lhs) == 1 {
				if lit, ok := s.Rhs[0].(*ast.BasicLit); ok && lit.Kind == token.INT {
					nid, ok := s.Lhs[0].(*ast.Ident)
					if !ok {
						die(s.Pos(), "define target")
					}
					name := nid.Name
					if e.u64Locals[name] || e.consts[name] != nil || name == "p" || name == "d" || name == "m" {
						die(s.Pos(), "redefinition of %s", name)
					}
					e.ints[name] = e.constInt(lit)
					return
				}
			}
			// parallel define: all right sides are evaluated before any assignment
			var rhs []string
			for _, r := range s.Rhs {
				rhs = append(rhs, asU64(r.Pos(), e.expr(r)))
			}
			for i, l := range s.Lhs {
				id, ok := l.(*ast.Ident)
				if !ok || id.Name == "_" {
					die(l.Pos(), "define target")
				}
				if e.u64Locals[id.Name] || e.ints[id.Name] != nil || e.consts[id.Name] != nil ||
					id.Name == "p" || id.Name == "d" || id.Name == "m" {
					die(l.Pos(), "redefinition/shadowing of %s", id.Name)
				}
				e.u64Locals[id.Name] = true
				e.assign(l.Pos(), id.Name, rhs[i])
			}
		case token.ADD_ASSIGN:
			// compile-time integer: `j += 8`
			if id, ok := s.Lhs[0].(*ast.Ident); ok && len(s.Lhs) == 1 && len(s.Rhs) == 1 {
				if v, ok := e.ints[id.Name]; ok {
					e.ints[id.Name] = new(big.Int).Add(v, e.constInt(s.Rhs[0]))
					return
				}
			}
			lv, rhs := e.assignParts(s)
			e.assign(s.Pos(), lv, rhs)
		case token.ASSIGN, token.XOR_ASSIGN:
			lv, rhs := e.assignParts(s)
			e.assign(s.Pos(), lv, rhs)
		default:
			die(s.Pos(), "assignment operator %s", s.Tok)
		}
	case *ast.DeclStmt:
		// var m [16]uint64
		gd, ok := s.Decl.(*ast.GenDecl)
		if !ok || gd.Tok != token.VAR || len(gd.Specs) != 1 {
			die(s.Pos(), "declaration")
		}
		vs := gd.Specs[0].(*ast.ValueSpec)
		if len(vs.Names) != 1 || vs.Names[0].Name != "m" || len(vs.Values) != 0 || e.mLen != 0 {
			die(s.Pos(), "declaration (only `var m [N]uint64`)")
		}
		at, ok := vs.Type.(*ast.ArrayType)
		if !ok || at.Len == nil {
			die(s.Pos(), "type of m")
		}
		if el, ok := at.Elt.(*ast.Ident); !ok || el.Name != "uint64" {
			die(s.Pos(), "element type of m")
		}
		n := e.constInt(at.Len)
		if n.Cmp(big.NewInt(16)) != 0 {
			die(s.Pos(), "m must have 16 words")
		}
		e.mLen = 16
		for i := 0; i < 16; i++ {
			e.assign(s.Pos(), "m"+strconv.Itoa(i), "0")
		}
	case *ast.IfStmt:
		if s.Init != nil || s.Else != nil {
			die(s.Pos(), "if with init/else")
		}
		c := e.expr(s.Cond)
		if c.k != kBool {
			die(s.Cond.Pos(), "condition")
		}
		assigned := map[string]bool{}
		type upd struct {
			pos      token.Pos
			lv, lean string
		}
		var upds []upd
		for _, b := range s.Body.List {
			as, ok := b.(*ast.AssignStmt)
			if !ok || as.Tok == token.DEFINE || len(as.Lhs) != 1 || len(as.Rhs) != 1 {
				die(b.Pos(), "statement inside if")
			}
			for r := range e.readsOf(as.Rhs[0]) {
				if assigned[r] {
					die(b.Pos(), "statement inside if reads %s assigned earlier in the same body", r)
				}
			}
			lv, rhs := e.assignParts(as)
			if assigned[lv] {
				die(b.Pos(), "%s assigned twice inside if", lv)
			}
			assigned[lv] = true
			upds = append(upds, upd{b.Pos(), lv, rhs})
		}
		for _, u := range upds {
			e.assign(u.pos, u.lv, fmt.Sprintf("if %s = true then %s else %s", c.lean, u.lean, e.read(u.pos, u.lv)))
		}
	case *ast.ForStmt:
		// for i := c0; i < c1; i++ { … }  — unrolled
		init, ok := s.Init.(*ast.AssignStmt)
		if !ok || init.Tok != token.DEFINE || len(init.Lhs) != 1 || len(init.Rhs) != 1 {
			die(s.Pos(), "for init")
		}
		iv, ok := init.Lhs[0].(*ast.Ident)
		if !ok || e.ints[iv.Name] != nil || e.u64Locals[iv.Name] || e.consts[iv.Name] != nil {
			die(s.Pos(), "for variable")
		}
		cond, ok := s.Cond.(*ast.BinaryExpr)
		if !ok || cond.Op != token.LSS {
			die(s.Pos(), "for condition")
		}
		if cv, ok := cond.X.(*ast.Ident); !ok || cv.Name != iv.Name {
			die(s.Pos(), "for condition variable")
		}
		post, ok := s.Post.(*ast.IncDecStmt)
		if !ok || post.Tok != token.INC {
			die(s.Pos(), "for post")
		}
		if pv, ok := post.X.(*ast.Ident); !ok || pv.Name != iv.Name {
			die(s.Pos(), "for post variable")
		}
		e.ints[iv.Name] = e.constInt(init.Rhs[0])
		for n := 0; ; n++ {
			if n > 4096 {
				die(s.Pos(), "loop too long to unroll")
			}
			bound := e.constInt(cond.Y) // re-evaluated each iteration, as in Go
			if e.ints[iv.Name].Cmp(bound) >= 0 {
				break
			}
			before := new(big.Int).Set(e.ints[iv.Name])
			for _, b := range s.Body.List {
				e.stmt(b)
			}
			if e.ints[iv.Name].Cmp(before) != 0 {
				die(s.Pos(), "loop variable modified in the body")
			}
			e.ints[iv.Name] = before.Add(before, big.NewInt(1))
		}
		delete(e.ints, iv.Name) // scope of i ends
	default:
		die(s.Pos(), "statement %T", s)
	}
}

// ---------------------------------------------------------------------------------------------------------------

func names(prefix string, n int) []string {
	var r []string
	for i := 0; i < n; i++ {
		r = append(r, prefix+strconv.Itoa(i))
	}
	return r
}

func cat(xs ...[]string) []string {
	var r []string
	for _, x := range xs {
		r = append(r, x...)
	}
	return r
}

func parseFile(path string) (*ast.File, []byte) {
	src, err := os.ReadFile(path)
	if err != nil {
		fmt.Fprintln(os.Stderr, "gen_blake:", err)
		os.Exit(2)
	}
	f, err := parser.ParseFile(fset, path, src, parser.ParseComments)
	if err != nil {
		fmt.Fprintln(os.Stderr, "gen_blake:", err)
		os.Exit(2)
	}
	return f, src
}

func typeString(x ast.Expr) string {
	var b bytes.Buffer
	switch x := x.(type) {
	case *ast.Ident:
		return x.Name
	case *ast.ArrayType:
		if x.Len == nil {
			return "[]" + typeString(x.Elt)
		}
		if l, ok := x.Len.(*ast.BasicLit); ok {
			return "[" + l.Value + "]" + typeString(x.Elt)
		}
		if l, ok := x.Len.(*ast.Ident); ok {
			return "[" + l.Name + "]" + typeString(x.Elt)
		}
	case *ast.StarExpr:
		return "*" + typeString(x.X)
	}
	fmt.Fprintf(&b, "?%T", x)
	return b.String()
}

// checkDigestAndBlockSize reads blake512.go: `const BlockSize = 128` and the field types of `digest`.
func checkDigestAndBlockSize(dir string) *big.Int {
	f, _ := parseFile(filepath.Join(dir, "blake512.go"))
	var blockSize *big.Int
	fields := map[string]string{}
	for _, d := range f.Decls {
		gd, ok := d.(*ast.GenDecl)
		if !ok {
			continue
		}
		for _, sp := range gd.Specs {
			switch sp := sp.(type) {
			case *ast.ValueSpec:
				if gd.Tok == token.CONST && len(sp.Names) == 1 && sp.Names[0].Name == "BlockSize" {
					if sp.Type != nil || len(sp.Values) != 1 {
						die(sp.Pos(), "BlockSize declaration")
					}
					lit, ok := sp.Values[0].(*ast.BasicLit)
					if !ok || lit.Kind != token.INT {
						die(sp.Pos(), "BlockSize value")
					}
					blockSize, _ = new(big.Int).SetString(lit.Value, 0)
				}
			case *ast.TypeSpec:
				if sp.Name.Name == "digest" {
					st, ok := sp.Type.(*ast.StructType)
					if !ok {
						die(sp.Pos(), "digest is not a struct")
					}
					for _, fl := range st.Fields.List {
						for _, n := range fl.Names {
							fields[n.Name] = typeString(fl.Type)
						}
					}
				}
			}
		}
	}
	if blockSize == nil || blockSize.Cmp(big.NewInt(128)) != 0 {
		die(token.NoPos, "const BlockSize = 128 not found in blake512.go")
	}
	want := map[string]string{"h": "[8]uint64", "s": "[4]uint64", "t": "uint64", "nullt": "bool"}
	for k, v := range want {
		if fields[k] != v {
			die(token.NoPos, "digest.%s has type %q, expected %q", k, fields[k], v)
		}
	}
	return blockSize
}

var roundRe = regexp.MustCompile(`^// Round ([0-9]+)\.$`)

func main() {
	if len(os.Args) != 3 {
		fmt.Fprintln(os.Stderr, "usage: gen_blake <repo-dir> <gen-dir>")
		os.Exit(2)
	}
	repo, gen := os.Args[1], os.Args[2]
	cmd := exec.Command("go", "list", "-m", "-f", "{{.Dir}}", modPath)
	cmd.Dir = repo
	cmd.Env = append(os.Environ(), "GOFLAGS=-mod=mod", "GOPROXY=off")
	cmd.Stderr = os.Stderr
	out, err := cmd.Output()
	if err != nil {
		fmt.Fprintln(os.Stderr, "gen_blake: go list failed:", err)
		os.Exit(2)
	}
	dir := strings.TrimSpace(string(out))
	if dir == "" {
		fmt.Fprintln(os.Stderr, "gen_blake: module directory not found")
		os.Exit(2)
	}
	blockSize := checkDigestAndBlockSize(dir)
	f, src := parseFile(filepath.Join(dir, "blake512block.go"))
	sum := sha256.Sum256(src)
	if f.Name.Name != "blake512" {
		die(f.Pos(), "package name %s", f.Name.Name)
	}

	e := &env{consts: map[string]*big.Int{"BlockSize": blockSize}, constUsed: map[string]bool{},
		ints: map[string]*big.Int{}, u64Locals: map[string]bool{}}

	// ---- top-level declarations: one const block, one func
	var fn *ast.FuncDecl
	var cstNames []string
	for _, d := range f.Decls {
		switch d := d.(type) {
		case *ast.GenDecl:
			if d.Tok != token.CONST {
				die(d.Pos(), "top-level %s declaration", d.Tok)
			}
			for _, sp := range d.Specs {
				vs := sp.(*ast.ValueSpec)
				if vs.Type != nil || len(vs.Names) != 1 || len(vs.Values) != 1 {
					die(vs.Pos(), "constant declaration")
				}
				lit, ok := vs.Values[0].(*ast.BasicLit)
				if !ok || lit.Kind != token.INT {
					die(vs.Pos(), "constant value")
				}
				name := vs.Names[0].Name
				if !regexp.MustCompile(`^cst[0-9]+$`).MatchString(name) || e.consts[name] != nil {
					die(vs.Pos(), "constant name %s", name)
				}
				v, ok := new(big.Int).SetString(lit.Value, 0)
				if !ok || v.Sign() < 0 || v.Cmp(two64) >= 0 {
					die(vs.Pos(), "constant %s does not fit uint64", name)
				}
				e.consts[name] = v
				cstNames = append(cstNames, name)
			}
		case *ast.FuncDecl:
			if fn != nil || d.Name.Name != "block" || d.Recv != nil {
				die(d.Pos(), "function %s", d.Name.Name)
			}
			fn = d
		default:
			die(d.Pos(), "top-level declaration")
		}
	}
	if fn == nil {
		die(token.NoPos, "func block not found")
	}
	if len(cstNames) != 16 {
		die(token.NoPos, "expected the 16 constants cst0..cst15, found %d", len(cstNames))
	}
	for i, n := range cstNames {
		if n != "cst"+strconv.Itoa(i) {
			die(token.NoPos, "constants not cst0..cst15 in order")
		}
	}
	// signature: func block(d *digest, p []uint8)
	ps := fn.Type.Params.List
	if fn.Type.Results != nil || fn.Type.TypeParams != nil || len(ps) != 2 ||
		len(ps[0].Names) != 1 || ps[0].Names[0].Name != "d" || typeString(ps[0].Type) != "*digest" ||
		len(ps[1].Names) != 1 || ps[1].Names[0].Name != "p" || typeString(ps[1].Type) != "[]uint8" {
		die(fn.Pos(), "signature of block (want `func block(d *digest, p []uint8)`)")
	}
	body := fn.Body.List
	if len(body) != 4 {
		die(fn.Pos(), "body of block: expected 4 statements (2 defines, for, assignment), found %d", len(body))
	}

	hN, sN, vN, mN := names("h", 8), names("s", 4), names("v", 16), names("m", 16)
	dh, ds := names("d_h", 8), names("d_s", 4)

	// ---- prologue: h0..h7 := d.h[..]; s0..s3 := d.s[..]
	prologue := newPiece("block (prologue)", cat(dh, ds), cat(hN, sN))
	e.cur = prologue
	e.stmt(body[0])
	e.stmt(body[1])
	for _, x := range cat(hN, sN) {
		if !prologue.defined[x] {
			die(body[0].Pos(), "prologue does not define %s", x)
		}
	}

	// ---- the loop
	loop, ok := body[2].(*ast.ForStmt)
	if !ok || loop.Init != nil || loop.Post != nil {
		die(body[2].Pos(), "expected `for len(p) >= BlockSize`")
	}
	{
		c, ok := loop.Cond.(*ast.BinaryExpr)
		if !ok || c.Op != token.GEQ {
			die(loop.Pos(), "loop condition")
		}
		call, ok := c.X.(*ast.CallExpr)
		if !ok || len(call.Args) != 1 {
			die(loop.Pos(), "loop condition")
		}
		if fnId, ok := call.Fun.(*ast.Ident); !ok || fnId.Name != "len" {
			die(loop.Pos(), "loop condition")
		}
		if a, ok := call.Args[0].(*ast.Ident); !ok || a.Name != "p" {
			die(loop.Pos(), "loop condition")
		}
		if b, ok := c.Y.(*ast.Ident); !ok || b.Name != "BlockSize" {
			die(loop.Pos(), "loop condition")
		}
	}
	stmts := loop.Body.List
	if len(stmts) < 2 {
		die(loop.Pos(), "loop body")
	}
	// last statement: p = p[BlockSize:]
	{
		last, ok := stmts[len(stmts)-1].(*ast.AssignStmt)
		if !ok || last.Tok != token.ASSIGN || len(last.Lhs) != 1 || len(last.Rhs) != 1 {
			die(stmts[len(stmts)-1].Pos(), "last statement of the loop must be p = p[BlockSize:]")
		}
		l, ok1 := last.Lhs[0].(*ast.Ident)
		sl, ok2 := last.Rhs[0].(*ast.SliceExpr)
		if !ok1 || !ok2 || l.Name != "p" || sl.Slice3 || sl.High != nil || sl.Low == nil {
			die(last.Pos(), "last statement of the loop must be p = p[BlockSize:]")
		}
		x, ok3 := sl.X.(*ast.Ident)
		lo, ok4 := sl.Low.(*ast.Ident)
		if !ok3 || !ok4 || x.Name != "p" || lo.Name != "BlockSize" {
			die(last.Pos(), "last statement of the loop must be p = p[BlockSize:]")
		}
		stmts = stmts[:len(stmts)-1]
	}

	// section comments `// Round k.` inside the loop body
	type mark struct {
		pos token.Pos
		k   int
	}
	var marks []mark
	for _, cg := range f.Comments {
		for _, c := range cg.List {
			if c.Pos() < loop.Body.Lbrace || c.Pos() > loop.Body.Rbrace {
				continue
			}
			if mm := roundRe.FindStringSubmatch(strings.TrimSpace(c.Text)); mm != nil {
				k, _ := strconv.Atoi(mm[1])
				marks = append(marks, mark{c.Pos(), k})
			}
		}
	}
	sort.Slice(marks, func(i, j int) bool { return marks[i].pos < marks[j].pos })
	if len(marks) != 16 {
		die(loop.Pos(), "expected 16 `// Round k.` comments, found %d", len(marks))
	}
	for i, mk := range marks {
		if mk.k != i+1 {
			die(mk.pos, "round comments out of order")
		}
	}

	// pieces
	pInit := newPiece("init", cat(hN, sN, []string{"d_t", "d_nullt"}), cat(vN, []string{"d_t"}))
	pLoad := newPiece("loadWords", []string{"p"}, mN)
	var pRounds []*piece
	for k := 1; k <= 16; k++ {
		pRounds = append(pRounds, newPiece("round"+strconv.Itoa(k), cat(vN, mN), vN))
	}
	pFinish := newPiece("finish", cat(hN, sN, vN), hN)

	e.inGuard = true
	stage := 0 // 0 = init, 1 = loadWords, 2 = rounds, 3 = finish
	e.cur = pInit
	isVAssign := func(s ast.Stmt) bool {
		as, ok := s.(*ast.AssignStmt)
		if !ok || len(as.Lhs) != 1 {
			return false
		}
		id, ok := as.Lhs[0].(*ast.Ident)
		return ok && regexp.MustCompile(`^v[0-9]+$`).MatchString(id.Name)
	}
	for _, s := range stmts {
		r := 0 // number of round comments before this statement
		for _, mk := range marks {
			if mk.pos < s.Pos() {
				r++
			}
		}
		switch {
		case r == 0:
			if _, ok := s.(*ast.DeclStmt); ok && stage == 0 {
				stage, e.cur = 1, pLoad
			}
		case stage == 0:
			die(s.Pos(), "round 1 starts before `var m`")
		case stage == 3:
			// stay in finish
		case r == 16 && !isVAssign(s):
			stage, e.cur = 3, pFinish
		default:
			stage, e.cur = 2, pRounds[r-1]
			if _, ok := s.(*ast.AssignStmt); !ok {
				die(s.Pos(), "statement %T inside a round", s)
			}
		}
		e.stmt(s)
	}
	if stage != 3 {
		die(loop.Pos(), "loop body does not end with the finish section")
	}
	// compile-time integers (j) stay in scope until the end of the body; they are not emitted, and a later use
	// as a value is rejected in expr().
	// every output of a piece is either assigned in it or passed through from its inputs
	for _, pc := range append([]*piece{pInit, pLoad, pFinish}, pRounds...) {
		for o := range pc.outputs {
			if !pc.defined[o] && !pc.inputs[o] {
				die(loop.Pos(), "piece %s never produces its output %s", pc.name, o)
			}
		}
		if len(pc.lines) == 0 {
			die(loop.Pos(), "piece %s is empty", pc.name)
		}
	}

	// ---- epilogue: d.h[0..7] = h0..h7 (parallel assignment: right sides first)
	epilogue := newPiece("block (epilogue)", hN, dh)
	e.cur = epilogue
	e.inGuard = false
	{
		as, ok := body[3].(*ast.AssignStmt)
		if !ok || as.Tok != token.ASSIGN || len(as.Lhs) != len(as.Rhs) {
			die(body[3].Pos(), "epilogue")
		}
		var rhs []string
		for _, r := range as.Rhs {
			rhs = append(rhs, asU64(r.Pos(), e.expr(r)))
		}
		for i, l := range as.Lhs {
			lv, ok := e.lvalue(l)
			if !ok {
				die(l.Pos(), "epilogue target")
			}
			if epilogue.defined[lv] {
				die(l.Pos(), "epilogue assigns %s twice", lv)
			}
			e.assign(l.Pos(), lv, rhs[i])
		}
		for _, x := range dh {
			if !epilogue.defined[x] {
				die(as.Pos(), "epilogue does not write %s", x)
			}
		}
	}

	// ---------------------------------------------------------------------------------------------------------
	// emit
	var b strings.Builder
	w := func(format string, a ...interface{}) { fmt.Fprintf(&b, format, a...) }
	w("/-\n  GENERATED by tools/gen_blake from %s/blake512block.go — do not edit.\n", modPath)
	w("  Statement-by-statement translation of `func block(d *digest, p []uint8)` over `UInt64` (core Lean only).\n")
	w("  Pieces of the loop body: init, loadWords, round1 … round16, finish; composed in `blockStep`.\n-/\n")
	w("set_option linter.unusedVariables false\n\nnamespace I3.Gen.BlakeGo\n\n")
	w("/-- SHA-256 of the translated source file blake512block.go. -/\n")
	w("def sourceSha256 : String := \"%x\"\n\n", sum)
	w("/-- `const BlockSize = 128` (blake512.go). -/\ndef BlockSize : Nat := %s\n\n", blockSize)
	for _, n := range cstNames {
		w("def %s : UInt64 := 0x%016X\n", n, e.consts[n])
	}
	structure := func(name, doc string, fields []string) {
		w("\n/-- %s -/\nstructure %s where\n", doc, name)
		for _, fl := range fields {
			w("  %s : UInt64\n", fl)
		}
		w("  deriving Repr, DecidableEq\n")
	}
	structure("H", "the locals `h0 … h7` / the array `d.h`.", hN)
	structure("S", "the locals `s0 … s3` / the array `d.s`.", sN)
	structure("V", "the locals `v0 … v15`.", vN)
	structure("M", "the local array `m [16]uint64`.", mN)
	w("\n/-- the fields of `digest` that `block` reads or writes. -/\n")
	w("structure Digest where\n  h : H\n  s : S\n  t : UInt64\n  nullt : Bool\n  deriving Repr, DecidableEq\n")
	w("\n/-- what one iteration of the loop carries over: `h0 … h7` and `d.t`. -/\n")
	w("structure LoopState where\n  h : H\n  t : UInt64\n  deriving Repr, DecidableEq\n")

	unpack := func(v string, fields []string) {
		for _, fl := range fields {
			w("  let %s : UInt64 := %s.%s\n", fl, v, fl)
		}
	}
	pack := func(fields []string) string {
		var xs []string
		for _, fl := range fields {
			xs = append(xs, fl+" := "+fl)
		}
		return "{ " + strings.Join(xs, ", ") + " }"
	}
	body_ := func(pc *piece) {
		for _, l := range pc.lines {
			w("%s\n", l)
		}
	}

	w("\n/-- `v0 … v15` from the chain value, the salt and the counter; `d.t += 1024`.  Result: (v, new d.t). -/\n")
	w("def init (h : H) (s : S) (d_t : UInt64) (d_nullt : Bool) : V × UInt64 :=\n")
	unpack("h", hN)
	unpack("s", sN)
	body_(pInit)
	w("  (%s, d_t)\n", pack(vN))

	w("\n/-- `m[i]` = big-endian word `i` of `p` (the loop `for i := 0; i < 16; i++` unrolled; `p[k]`, k < BlockSize, is in\n")
	w("    range because of the loop guard `len(p) >= BlockSize`). -/\n")
	w("def loadWords (p : List UInt8) : M :=\n")
	body_(pLoad)
	w("  %s\n", pack(mN))

	for k, pc := range pRounds {
		w("\n/-- `// Round %d.` -/\n", k+1)
		w("def %s (m : M) (v : V) : V :=\n", pc.name)
		unpack("v", vN)
		// unpack only the message words the round reads
		for _, fl := range mN {
			used := false
			for _, l := range pc.lines {
				if regexp.MustCompile(`\b` + fl + `\b`).MatchString(l) {
					used = true
				}
			}
			if used {
				w("  let %s : UInt64 := m.%s\n", fl, fl)
			}
		}
		body_(pc)
		w("  %s\n", pack(vN))
	}

	w("\n/-- `h_i ^= v_i ^ v_{i+8} ^ s_{i mod 4}`. -/\n")
	w("def finish (h : H) (s : S) (v : V) : H :=\n")
	unpack("h", hN)
	unpack("s", sN)
	unpack("v", vN)
	body_(pFinish)
	w("  %s\n", pack(hN))

	w("\n/-- the sixteen rounds in source order. -/\n")
	w("def rounds (m : M) (v : V) : V :=\n")
	for k := 1; k <= 16; k++ {
		w("  let v := round%d m v\n", k)
	}
	w("  v\n")

	w("\n/-- one iteration of `for len(p) >= BlockSize { … }` (without the final `p = p[BlockSize:]`). -/\n")
	w("def blockStep (s : S) (d_nullt : Bool) (st : LoopState) (p : List UInt8) : LoopState :=\n")
	w("  let i := init st.h s st.t d_nullt\n")
	w("  let m := loadWords p\n")
	w("  let v := rounds m i.1\n")
	w("  { h := finish st.h s v, t := i.2 }\n")

	w("\n/-- `for len(p) >= BlockSize { blockStep; p = p[BlockSize:] }`; the fuel is the number of 128-byte blocks. -/\n")
	w("def blocks (s : S) (d_nullt : Bool) : Nat → LoopState → List UInt8 → LoopState\n")
	w("  | 0, st, _ => st\n")
	w("  | n+1, st, p =>\n")
	w("    if p.length ≥ BlockSize then blocks s d_nullt n (blockStep s d_nullt st p) (p.drop BlockSize) else st\n")

	w("\n/-- `func block(d *digest, p []uint8)`. -/\n")
	w("def block (d : Digest) (p : List UInt8) : Digest :=\n")
	for i := 0; i < 8; i++ {
		w("  let d_h%d : UInt64 := d.h.h%d\n", i, i)
	}
	for i := 0; i < 4; i++ {
		w("  let d_s%d : UInt64 := d.s.s%d\n", i, i)
	}
	body_(prologue)
	w("  let st := blocks %s d.nullt (p.length / BlockSize) { h := %s, t := d.t } p\n", pack(sN), pack(hN))
	unpack("st.h", hN)
	body_(epilogue)
	w("  { d with h := { %s }, t := st.t }\n", func() string {
		var xs []string
		for i := 0; i < 8; i++ {
			xs = append(xs, fmt.Sprintf("h%d := d_h%d", i, i))
		}
		return strings.Join(xs, ", ")
	}())
	w("\nend I3.Gen.BlakeGo\n")

	for _, n := range cstNames {
		if !e.constUsed[n] {
			die(token.NoPos, "constant %s is never used", n)
		}
	}
	if err := os.MkdirAll(gen, 0o755); err != nil {
		fmt.Fprintln(os.Stderr, "gen_blake:", err)
		os.Exit(1)
	}
	outPath := filepath.Join(gen, "BlakeBlock.lean")
	if err := os.WriteFile(outPath, []byte(b.String()), 0o644); err != nil {
		fmt.Fprintln(os.Stderr, "gen_blake:", err)
		os.Exit(1)
	}
	fmt.Printf("gen_blake: wrote %s (%d bytes), source sha256 %x\n", outPath, b.Len(), sum)

	// second module: New / Size / Write / Sum of blake512.go (digest.go)
	genDigest(dir, gen, blockSize, f)
}
