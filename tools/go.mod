module veriftools

go 1.20
