// T3 — amd64 assembly translator.
// Translates the Plan-9 assembly routines of /repo/ff (element_ops_amd64.s, element_mul_amd64.s,
// element_mul_adx_amd64.s) into Lean 4 let-chains over Nat words, instruction by instruction.
//
// The translator only does data flow: macro expansion (#define … \), operand decoding, register /
// flag / memory-cell renaming, forward branches (JEQ/JNE to a label whose block ends in RET become
// if-then-else), the tail call of the portable kernel.  The MEANING of every instruction is a Lean
// primitive in I3.Exec.Word (addq, adcq, subq, sbbq, mul64, …), so the instruction semantics are
// visible and testable on the Lean side.  Each TEXT symbol is emitted once per aliasing pattern of
// its pointer arguments (the memory cells of aliased arguments are shared).
//
// Unknown instructions, operands or control flow abort with exit code 2 (broken tie, never a pass).
package main

import (
	"fmt"
	"os"
	"path/filepath"
	"regexp"
	"strconv"
	"strings"
)

func die(f string, a ...interface{}) {
	fmt.Fprintf(os.Stderr, "gen_asm: "+f+"\n", a...)
	os.Exit(2)
}

type instr struct {
	op   string
	args []string
	line int
}

type textBlock struct {
	name   string
	params []string // pointer argument names in frame order
	body   []instr
	labels map[string]int // label -> index into body
}

var (
	reDefine = regexp.MustCompile(`^#define\s+(\w+)\(([^)]*)\)\s*(.*)$`)
	reText   = regexp.MustCompile(`^TEXT\s+·(\w+)\(SB\)`)
	reData   = regexp.MustCompile(`^DATA\s+(\w+)<>(?:\+(\d+))?\(SB\)/8,\s*\$(0x[0-9a-fA-F]+|\d+)`)
	reLabel  = regexp.MustCompile(`^(\w+):$`)
	reFP     = regexp.MustCompile(`^(\w+)\+(\d+)\(FP\)$`)
	reSB     = regexp.MustCompile(`^(\w+)<>(?:\+(\d+))?\(SB\)$`)
	reMem    = regexp.MustCompile(`^(\d*)\((\w+)\)$`)
	reImm    = regexp.MustCompile(`^\$(0x[0-9a-fA-F]+|\d+)$`)
)

type macro struct {
	params []string
	body   string
}

func parseFile(path string) (blocks []*textBlock, data map[string]map[int]string) {
	raw, err := os.ReadFile(path)
	if err != nil {
		die("read %s: %v", path, err)
	}
	data = map[string]map[int]string{}
	macros := map[string]macro{}
	lines := strings.Split(string(raw), "\n")
	// join continuation lines
	var joined []string
	var lineNo []int
	for i := 0; i < len(lines); i++ {
		l := lines[i]
		start := i
		for strings.HasSuffix(strings.TrimRight(l, " \t"), "\\") && i+1 < len(lines) {
			l = strings.TrimSuffix(strings.TrimRight(l, " \t"), "\\") + " " + lines[i+1]
			i++
		}
		joined = append(joined, l)
		lineNo = append(lineNo, start+1)
	}
	var cur *textBlock
	for k, l := range joined {
		if i := strings.Index(l, "//"); i >= 0 {
			l = l[:i]
		}
		l = strings.TrimSpace(l)
		if l == "" || strings.HasPrefix(l, "#include") || strings.HasPrefix(l, "GLOBL") {
			continue
		}
		if m := reDefine.FindStringSubmatch(l); m != nil {
			var ps []string
			for _, p := range strings.Split(m[2], ",") {
				ps = append(ps, strings.TrimSpace(p))
			}
			macros[m[1]] = macro{ps, m[3]}
			continue
		}
		if strings.HasPrefix(l, "#") {
			die("%s:%d: unsupported preprocessor line: %s", path, lineNo[k], l)
		}
		if m := reData.FindStringSubmatch(l); m != nil {
			off := 0
			if m[2] != "" {
				off = parseOff(m[2])
			}
			v, err := strconv.ParseUint(m[3], 0, 64)
			if err != nil {
				die("%s:%d: DATA value", path, lineNo[k])
			}
			if data[m[1]] == nil {
				data[m[1]] = map[int]string{}
			}
			data[m[1]][off] = strconv.FormatUint(v, 10)
			continue
		}
		if strings.HasPrefix(l, "DATA") {
			die("%s:%d: unsupported DATA line: %s", path, lineNo[k], l)
		}
		if m := reText.FindStringSubmatch(l); m != nil {
			cur = &textBlock{name: m[1], labels: map[string]int{}}
			blocks = append(blocks, cur)
			continue
		}
		if cur == nil {
			die("%s:%d: instruction outside TEXT: %s", path, lineNo[k], l)
		}
		// statements separated by ';' (after macro expansion)
		var stmts []string
		for _, s := range strings.Split(l, ";") {
			s = strings.TrimSpace(s)
			if s != "" {
				stmts = append(stmts, s)
			}
		}
		for si := 0; si < len(stmts); si++ {
			s := stmts[si]
			if m := reLabel.FindStringSubmatch(s); m != nil {
				cur.labels[m[1]] = len(cur.body)
				continue
			}
			// macro invocation
			if i := strings.Index(s, "("); i > 0 {
				if mc, ok := macros[s[:i]]; ok && strings.HasSuffix(s, ")") {
					var as []string
					for _, a := range strings.Split(s[i+1:len(s)-1], ",") {
						as = append(as, strings.TrimSpace(a))
					}
					if len(as) != len(mc.params) {
						die("%s:%d: macro arity", path, lineNo[k])
					}
					body := mc.body
					// replace whole-word parameters
					for j, p := range mc.params {
						body = regexp.MustCompile(`\b`+p+`\b`).ReplaceAllString(body, as[j])
					}
					var exp []string
					for _, e := range strings.Split(body, ";") {
						e = strings.TrimSpace(e)
						if e != "" {
							exp = append(exp, e)
						}
					}
					stmts = append(stmts[:si], append(exp, stmts[si+1:]...)...)
					si--
					continue
				}
			}
			f := strings.Fields(s)
			op := f[0]
			rest := strings.TrimSpace(s[len(op):])
			var args []string
			if rest != "" {
				for _, a := range strings.Split(rest, ",") {
					args = append(args, strings.TrimSpace(a))
				}
			}
			cur.body = append(cur.body, instr{op, args, lineNo[k]})
		}
	}
	// parameter names: from x+off(FP) references, ordered by offset
	for _, b := range blocks {
		byOff := map[int]string{}
		for _, in := range b.body {
			for _, a := range in.args {
				if m := reFP.FindStringSubmatch(a); m != nil {
					off := parseOff(m[2])
					if n, ok := byOff[off]; ok && n != m[1] {
						die("%s: %s: conflicting names for frame offset %d", path, b.name, off)
					}
					byOff[off] = m[1]
				}
			}
		}
		for off := 0; off < 64; off += 8 {
			if n, ok := byOff[off]; ok {
				b.params = append(b.params, n)
			}
		}
		if len(b.params) != len(byOff) {
			die("%s: %s: frame offsets not contiguous", path, b.name)
		}
	}
	return
}

// ---------------------------------------------------------------------------------------------

type value struct {
	ptr  string // non-empty: pointer to this base
	expr string // word expression (a variable name or literal)
}

type state struct {
	regs  map[string]value
	stack map[int]value
	store map[string]string // base -> storage name (aliasing)
	out   *strings.Builder
	lvl   int
	path  string
	blk   *textBlock
	data  map[string]map[int]string
	wrote map[string]bool // storages written
	outs  []string        // storages the generated definition returns (pre-pass); a store elsewhere would be lost
	adx   bool            // symbol takes the run-time dispatch flag
	valid map[string]bool // which of CF/OF/ZF currently hold a value defined by the modelled semantics
}

func (s *state) emit(f string, a ...interface{}) {
	fmt.Fprintf(s.out, "%s%s\n", strings.Repeat("  ", s.lvl), fmt.Sprintf(f, a...))
}

func (s *state) fail(in instr, f string, a ...interface{}) {
	die("%s:%d (%s): %s   [%s %s]", s.path, in.line, s.blk.name, fmt.Sprintf(f, a...), in.op, strings.Join(in.args, ", "))
}

func cellName(storage string, off int) string { return fmt.Sprintf("%s_%d", storage, off/8) }

// parseOff reads an offset as the assembler does (0x.., 0o.., and a leading 0 is OCTAL); anything else aborts
func parseOff(t string) int {
	v, err := strconv.ParseInt(t, 0, 32)
	if err != nil {
		die("offset %q: %v", t, err)
	}
	return int(v)
}

// word value of a source operand
func (s *state) src(in instr, a string) string {
	if m := reImm.FindStringSubmatch(a); m != nil {
		v, err := strconv.ParseUint(m[1], 0, 64)
		if err != nil {
			s.fail(in, "immediate")
		}
		if v >= 1<<31 && !(in.op == "MOVQ" && len(in.args) == 2 && isReg(in.args[1])) {
			// ALU instructions and stores take a sign-extended imm32: the value the CPU uses is not the literal
			s.fail(in, "immediate >= 2^31 outside MOVQ $imm64, reg (the assembler sign-extends it)")
		}
		return strconv.FormatUint(v, 10)
	}
	if m := reSB.FindStringSubmatch(a); m != nil {
		off := 0
		if m[2] != "" {
			off = parseOff(m[2])
		}
		v, ok := s.data[m[1]][off]
		if !ok {
			s.fail(in, "unknown data symbol %s+%d", m[1], off)
		}
		return v
	}
	if m := reMem.FindStringSubmatch(a); m != nil {
		off := 0
		if m[1] != "" {
			off = parseOff(m[1])
		}
		r, ok := s.regs[m[2]]
		if !ok || r.ptr == "" {
			s.fail(in, "memory operand through a register that holds no known pointer")
		}
		if off%8 != 0 || off < 0 || off >= 32 {
			s.fail(in, "offset outside the element")
		}
		return cellName(s.store[r.ptr], off)
	}
	if isReg(a) {
		r, ok := s.regs[a]
		if !ok {
			s.fail(in, "read of uninitialised register %s", a)
		}
		if r.ptr != "" {
			s.fail(in, "pointer used as a word")
		}
		return r.expr
	}
	s.fail(in, "unsupported source operand %s", a)
	return ""
}

var regNames = map[string]bool{"AX": true, "BX": true, "CX": true, "DX": true, "SI": true, "DI": true, "BP": true,
	"R8": true, "R9": true, "R10": true, "R11": true, "R12": true, "R13": true, "R14": true, "R15": true}

func isReg(a string) bool { return regNames[a] }

func (s *state) setReg(r, expr string) {
	s.emit("let %s := %s", r, expr)
	s.regs[r] = value{expr: r}
}

// destination: register or memory cell; returns the Lean name to bind
func (s *state) dst(in instr, a string) string {
	if isReg(a) {
		s.regs[a] = value{expr: a}
		return a
	}
	if m := reMem.FindStringSubmatch(a); m != nil {
		off := 0
		if m[1] != "" {
			off = parseOff(m[1])
		}
		r, ok := s.regs[m[2]]
		if !ok || r.ptr == "" {
			s.fail(in, "store through a register that holds no known pointer")
		}
		if off%8 != 0 || off < 0 || off >= 32 {
			s.fail(in, "offset outside the element")
		}
		s.wrote[s.store[r.ptr]] = true
		okOut := false
		for _, o := range s.outs {
			if o == s.store[r.ptr] {
				okOut = true
			}
		}
		if !okOut {
			s.fail(in, "store into %s, which the result of the translated routine does not carry", s.store[r.ptr])
		}
		return cellName(s.store[r.ptr], off)
	}
	s.fail(in, "unsupported destination operand %s", a)
	return ""
}

func (s *state) clone() *state {
	c := *s
	c.regs = map[string]value{}
	for k, v := range s.regs {
		c.regs[k] = v
	}
	c.stack = map[int]value{}
	for k, v := range s.stack {
		c.stack[k] = v
	}
	c.wrote = map[string]bool{}
	for k, v := range s.wrote {
		c.wrote[k] = v
	}
	c.valid = map[string]bool{}
	for k, v := range s.valid {
		c.valid[k] = v
	}
	return &c
}

// flags: which flags an instruction defines (per the modelled semantics) and which it clobbers
func (s *state) flags(in instr, needs []string, defines []string, clobbers []string) {
	for _, f := range needs {
		if !s.valid[f] {
			s.fail(in, "reads flag %s whose value is not defined by the modelled semantics at this point", f)
		}
	}
	for _, f := range clobbers {
		s.valid[f] = false
	}
	for _, f := range defines {
		s.valid[f] = true
	}
}

func (s *state) ret(allStorages []string) {
	var cells []string
	for _, st := range allStorages {
		for i := 0; i < 4; i++ {
			cells = append(cells, cellName(st, 8*i))
		}
	}
	s.emit("(%s)", strings.Join(cells, ", "))
}

// translate from instruction index i until RET
func (s *state) run(i int, outStor []string) {
	for ; i < len(s.blk.body); i++ {
		in := s.blk.body[i]
		a := in.args
		switch in.op {
		case "NO_LOCAL_POINTERS":
		case "MOVQ":
			if len(a) != 2 {
				s.fail(in, "arity")
			}
			// pointer loads / stores to the outgoing-argument area
			if m := reFP.FindStringSubmatch(a[0]); m != nil {
				if !isReg(a[1]) {
					s.fail(in, "frame argument must be loaded into a register")
				}
				s.regs[a[1]] = value{ptr: m[1]}
				continue
			}
			if m := reMem.FindStringSubmatch(a[1]); m != nil && m[2] == "SP" {
				off := 0
				if m[1] != "" {
					off = parseOff(m[1])
				}
				r, ok := s.regs[a[0]]
				if !ok {
					s.fail(in, "uninitialised register")
				}
				s.stack[off] = r
				continue
			}
			if isReg(a[0]) && s.regs[a[0]].ptr != "" {
				if !isReg(a[1]) {
					s.fail(in, "pointer stored to memory")
				}
				s.regs[a[1]] = s.regs[a[0]]
				continue
			}
			v := s.src(in, a[0])
			d := s.dst(in, a[1])
			s.emit("let %s := %s", d, v)
		case "ADDQ":
			s.flags(in, nil, []string{"CF"}, []string{"OF", "ZF"})
			v := s.src(in, a[0])
			cur := s.src(in, a[1])
			d := s.dst(in, a[1])
			s.emit("let (%s, CF) := addq %s %s", d, cur, v)
		case "ADCQ", "ADCXQ":
			if in.op == "ADCQ" {
				s.flags(in, []string{"CF"}, []string{"CF"}, []string{"OF", "ZF"})
			} else {
				s.flags(in, []string{"CF"}, []string{"CF"}, nil)
			}
			v := s.src(in, a[0])
			cur := s.src(in, a[1])
			d := s.dst(in, a[1])
			s.emit("let (%s, CF) := adcq %s %s CF", d, cur, v)
		case "ADOXQ":
			s.flags(in, []string{"OF"}, []string{"OF"}, nil)
			v := s.src(in, a[0])
			cur := s.src(in, a[1])
			d := s.dst(in, a[1])
			s.emit("let (%s, OF) := adcq %s %s OF", d, cur, v)
		case "SUBQ":
			s.flags(in, nil, []string{"CF"}, []string{"OF", "ZF"})
			v := s.src(in, a[0])
			cur := s.src(in, a[1])
			d := s.dst(in, a[1])
			s.emit("let (%s, CF) := subq %s %s", d, cur, v)
		case "SBBQ":
			s.flags(in, []string{"CF"}, []string{"CF"}, []string{"OF", "ZF"})
			v := s.src(in, a[0])
			cur := s.src(in, a[1])
			d := s.dst(in, a[1])
			s.emit("let (%s, CF) := sbbq %s %s CF", d, cur, v)
		case "XORQ":
			s.flags(in, nil, []string{"CF", "OF"}, []string{"ZF"})
			if a[0] == a[1] && isReg(a[0]) {
				s.regs[a[0]] = value{expr: a[0]}
				s.emit("let %s := 0", a[0])
			} else {
				v := s.src(in, a[0])
				cur := s.src(in, a[1])
				d := s.dst(in, a[1])
				s.emit("let %s := (%s ^^^ %s)", d, cur, v)
			}
			s.emit("let CF := 0")
			s.emit("let OF := 0")
		case "ORQ":
			s.flags(in, nil, []string{"CF", "OF"}, []string{"ZF"})
			v := s.src(in, a[0])
			cur := s.src(in, a[1])
			d := s.dst(in, a[1])
			s.emit("let %s := (%s ||| %s)", d, cur, v)
			s.emit("let CF := 0")
			s.emit("let OF := 0")
		case "TESTQ":
			s.flags(in, nil, []string{"CF", "OF", "ZF"}, nil)
			s.emit("let ZF := decide ((%s &&& %s) = 0)", s.src(in, a[0]), s.src(in, a[1]))
			s.emit("let CF := 0")
			s.emit("let OF := 0")
		case "CMOVQCS":
			s.flags(in, []string{"CF"}, nil, nil)
			v := s.src(in, a[0])
			cur := s.src(in, a[1])
			d := s.dst(in, a[1])
			s.emit("let %s := cmov (decide (CF = 1)) %s %s", d, v, cur)
		case "CMOVQCC":
			s.flags(in, []string{"CF"}, nil, nil)
			v := s.src(in, a[0])
			cur := s.src(in, a[1])
			d := s.dst(in, a[1])
			s.emit("let %s := cmov (decide (CF = 0)) %s %s", d, v, cur)
		case "MULXQ":
			if len(a) != 3 || !isReg(a[1]) || !isReg(a[2]) || a[1] == a[2] {
				s.fail(in, "MULXQ operands")
			}
			v := s.src(in, a[0])
			dx := s.src(in, "DX")
			s.regs[a[1]] = value{expr: a[1]}
			s.regs[a[2]] = value{expr: a[2]}
			s.emit("let (%s, %s) := mul64 %s %s", a[2], a[1], dx, v)
		case "IMULQ":
			s.flags(in, nil, nil, []string{"CF", "OF", "ZF"})
			v := s.src(in, a[0])
			cur := s.src(in, a[1])
			d := s.dst(in, a[1])
			s.emit("let %s := ((%s * %s) %% W)", d, cur, v)
		case "CMPB":
			s.flags(in, nil, []string{"ZF"}, []string{"CF", "OF"})
			if a[0] != "·supportAdx(SB)" || a[1] != "$1" {
				s.fail(in, "unsupported comparison")
			}
			if !s.adx {
				s.fail(in, "dispatch flag in a symbol translated without one")
			}
			s.emit("let ZF := decide (adx = 1)")
		case "JEQ", "JNE":
			s.flags(in, []string{"ZF"}, nil, nil)
			tgt, ok := s.blk.labels[a[0]]
			if !ok || tgt <= i {
				s.fail(in, "only forward branches to a label are supported")
			}
			cond := "ZF"
			if in.op == "JNE" {
				cond = "(!ZF)"
			}
			s.emit("if %s then", cond)
			c := s.clone()
			c.lvl++
			c.run(tgt, outStor)
			s.emit("else")
			s.lvl++
			s.run(i+1, outStor)
			return
		case "CALL":
			m := regexp.MustCompile(`^·(\w+)\(SB\)$`).FindStringSubmatch(a[0])
			if m == nil {
				s.fail(in, "unsupported call target")
			}
			var bases []string
			for off := 0; ; off += 8 {
				v, ok := s.stack[off]
				if !ok {
					break
				}
				if v.ptr == "" {
					s.fail(in, "non-pointer outgoing argument")
				}
				bases = append(bases, v.ptr)
			}
			if len(bases) == 0 {
				s.fail(in, "call without arguments")
			}
			// aliasing suffix and distinct storages, as in T2
			letters := []string{"z", "x", "y"}
			if len(bases) == 2 {
				letters = []string{"z", "x"}
			}
			seen := map[string][]int{}
			var order []string
			for k, b := range bases {
				st := s.store[b]
				if _, ok := seen[st]; !ok {
					order = append(order, st)
				}
				seen[st] = append(seen[st], k)
			}
			suf := ""
			if len(bases) > 1 {
				for _, st := range order {
					if len(seen[st]) > 1 {
						for _, k := range seen[st] {
							suf += letters[k]
						}
					}
				}
			}
			if suf != "" {
				suf = "_" + suf
			}
			var pass []string
			for _, st := range order {
				for k := 0; k < 4; k++ {
					pass = append(pass, cellName(st, 8*k))
				}
			}
			if i+1 >= len(s.blk.body) || s.blk.body[i+1].op != "RET" {
				s.fail(in, "CALL not immediately followed by RET (registers and flags after a call are not modelled)")
			}
			dstSt := s.store[bases[0]]
			s.wrote[dstSt] = true
			okOut := false
			for _, o := range s.outs {
				if o == dstSt {
					okOut = true
				}
			}
			if !okOut {
				s.fail(in, "call writes %s, which the result of the translated routine does not carry", dstSt)
			}
			var outs []string
			for k := 0; k < 4; k++ {
				outs = append(outs, cellName(dstSt, 8*k))
			}
			s.emit("let (%s) := I3.Gen.FF.%s%s %s", strings.Join(outs, ", "), strings.TrimPrefix(m[1], "_"), suf, strings.Join(pass, " "))
		case "RET":
			s.ret(outStor)
			return
		default:
			s.fail(in, "unsupported instruction")
		}
	}
	die("%s: %s: fell off the end without RET", s.path, s.blk.name)
}

// which storages can be written by block b under alias map (syntactic: any store through a pointer / CALL)
func writtenStorages(b *textBlock, store map[string]string) []string {
	w := map[string]bool{}
	regs := map[string]string{}
	stack := map[int]string{}
	for _, in := range b.body {
		switch in.op {
		case "MOVQ":
			if m := reFP.FindStringSubmatch(in.args[0]); m != nil {
				regs[in.args[1]] = m[1]
				continue
			}
			if m := reMem.FindStringSubmatch(in.args[1]); m != nil {
				if m[2] == "SP" {
					off := 0
					if m[1] != "" {
						off = parseOff(m[1])
					}
					stack[off] = regs[in.args[0]]
				} else if p, ok := regs[m[2]]; ok && p != "" {
					w[store[p]] = true
				}
				continue
			}
			if isReg(in.args[0]) && isReg(in.args[1]) {
				regs[in.args[1]] = regs[in.args[0]]
			} else if isReg(in.args[1]) {
				regs[in.args[1]] = ""
			}
		case "CALL":
			if p := stack[0]; p != "" {
				w[store[p]] = true
			}
		default:
			// any other instruction writing a register makes it a non-pointer
			if n := len(in.args); n > 0 && isReg(in.args[n-1]) && in.op != "CMPB" && in.op != "TESTQ" {
				regs[in.args[n-1]] = ""
			}
			if in.op == "MULXQ" {
				regs[in.args[1]] = ""
			}
		}
	}
	var r []string
	seen := map[string]bool{}
	for _, p := range b.params {
		st := store[p]
		if w[st] && !seen[st] {
			seen[st] = true
			r = append(r, st)
		}
	}
	return r
}

func translate(path string, b *textBlock, data map[string]map[int]string, alias []int, suffix, nameSuffix string) string {
	store := map[string]string{}
	var sig []string
	for i, p := range b.params {
		a := i
		if alias != nil {
			a = alias[i]
		}
		store[p] = b.params[a]
		if a == i {
			for k := 0; k < 4; k++ {
				sig = append(sig, cellName(p, 8*k))
			}
		}
	}
	usesAdx := false
	for _, in := range b.body {
		if in.op == "CMPB" {
			usesAdx = true
		}
	}
	out := &strings.Builder{}
	s := &state{regs: map[string]value{}, stack: map[int]value{}, store: store, out: out, lvl: 1, path: path, blk: b, data: data,
		wrote: map[string]bool{}, adx: usesAdx, valid: map[string]bool{}}
	outStor := writtenStorages(b, store)
	if len(outStor) == 0 {
		die("%s: %s writes nothing", path, b.name)
	}
	s.outs = outStor
	s.emit("let CF := 0")
	s.emit("let OF := 0")
	s.emit("let ZF := false")
	s.run(0, outStor)
	rt := strings.TrimSuffix(strings.Repeat("Nat × ", 4*len(outStor)), " × ")
	params := " (" + strings.Join(sig, " ") + " : Nat)"
	if usesAdx {
		params = " (adx : Nat)" + params
	}
	return fmt.Sprintf("def %s%s%s%s : %s :=\n%s\n", b.name, nameSuffix, suffix, params, rt, out.String())
}

func main() {
	if len(os.Args) != 3 {
		die("usage: gen_asm <repo> <outdir>")
	}
	repo, outdir := os.Args[1], os.Args[2]
	var sb strings.Builder
	sb.WriteString("-- GENERATED by /verif/tools/gen_asm from /repo/ff/*.s — do not edit; regenerated on every check run.\nimport I3.Exec.Word\nimport I3.Gen.FFLimbs\nset_option linter.unusedVariables false\nset_option maxRecDepth 100000\nopen I3.Word\n\nnamespace I3.Gen.FFAsm\n\n")
	files := []struct{ file, suffix string }{
		{"ff/element_ops_amd64.s", ""}, {"ff/element_mul_amd64.s", ""}, {"ff/element_mul_adx_amd64.s", "_adxonly"}}
	for _, f := range files {
		path := filepath.Join(repo, f.file)
		blocks, data := parseFile(path)
		if len(blocks) == 0 {
			die("%s: no TEXT symbols", path)
		}
		for _, b := range blocks {
			sb.WriteString(translate(path, b, data, nil, "", f.suffix))
			sb.WriteString("\n")
			switch len(b.params) {
			case 2:
				if b.name != "Butterfly" {
					sb.WriteString(translate(path, b, data, []int{0, 0}, "_zx", f.suffix))
					sb.WriteString("\n")
				} else {
					// both arguments the same element
					sb.WriteString(translate(path, b, data, []int{0, 0}, "_ab", f.suffix))
					sb.WriteString("\n")
				}
			case 3:
				for _, v := range []struct {
					a []int
					s string
				}{{[]int{0, 0, 2}, "_zx"}, {[]int{0, 1, 0}, "_zy"}, {[]int{0, 1, 1}, "_xy"}, {[]int{0, 0, 0}, "_zxy"}} {
					sb.WriteString(translate(path, b, data, v.a, v.s, f.suffix))
					sb.WriteString("\n")
				}
			}
		}
	}
	sb.WriteString("end I3.Gen.FFAsm\n")
	p := filepath.Join(outdir, "FFAsm.lean")
	old, err := os.ReadFile(p)
	if err != nil || string(old) != sb.String() {
		if err := os.WriteFile(p, []byte(sb.String()), 0o644); err != nil {
			die("write: %v", err)
		}
	}
}
