/-
  Generator of the spec-side modules  /verif/lean/I3/Spec/GrainW<t>.lean  and  GrainW<t>P<k>.lean
  (pinned output of the reference Grain generator, cut into chunks of CH words, PC chunks per module).
  The generated theorems re-evaluate `I3.Grain.gen` in the kernel, so this script is NOT trusted.
  Nothing here depends on /repo; rerun only if I3/Exec/Grain.lean changes:
      cd /verif/lean && lake build I3.Exec.Grain && lake env lean --run ../tools/gen_grain_spec/gen.lean 2 3 … 17
-/
import I3.Exec.Grain
open I3

def CH : Nat := 16      -- words per chunk theorem
def PC : Nat := 24      -- chunks per part module

def fmtList (l : List Nat) : String :=
  "[\n  " ++ ",\n  ".intercalate (l.map toString) ++ "]"

def fmtMat (a : List (List Nat)) : String :=
  "[\n " ++ ",\n ".intercalate (a.map fun r => "[" ++ ",\n  ".intercalate (r.map toString) ++ "]") ++ "]"

structure Chunk where
  k : Nat
  s : Nat
  n : Nat
  s' : Nat
  w : List Nat

partial def chunks (s remaining k : Nat) (acc : Array Chunk) : Array Chunk × Nat :=
  if remaining = 0 then (acc, s) else
    let n := min CH remaining
    let (s', w) := Grain.gen q 254 true (n*254*64) s 0 0 n []
    chunks s' (remaining - n) (k+1) (acc.push ⟨k, s, n, s', w⟩)

def header (name descr : String) : String :=
  "/-\n  " ++ name ++ " — GENERATED once by a script from I3.Exec.Grain (nothing here depends on /repo).\n  " ++ descr ++
  "\n  The literals are NOT trusted: every theorem below re-evaluates the reference generator in the kernel.\n-/\n"

def gen (t : Nat) : IO Unit := do
  let rp := Grain.nRoundsP.getD (t - 2) 0
  let nrc := (8 + rp) * t
  let s0 := Grain.warm 160 (Grain.initState 254 t 8 rp)
  let (cs, s1) := chunks s0 nrc 0 #[]
  let (s2, wxy) := Grain.gen q 254 false (2*t*254*64) s1 0 0 (2*t) []
  let p := Grain.bn254Params t
  -- sanity: chunked = monolithic
  let rcRev := cs.foldl (fun acc c => c.w ++ acc) []
  if rcRev.reverse != p.rc then throw (IO.userError s!"mismatch rc {t}")
  let xy := wxy.reverse
  if xy.take t != p.xs || xy.drop t != p.ys then throw (IO.userError s!"mismatch xy {t}")
  let nparts := (cs.size + PC - 1) / PC
  -- part modules
  for pi in List.range nparts do
    let mut body := ""
    for c in cs.toList do
      if c.k / PC = pi then
        body := body ++ s!"def w{t}_{c.k} : List Nat := {fmtList c.w}\n\n"
        body := body ++ s!"theorem c{t}_{c.k} : Run q 254 true {c.n*254*64} {c.s} {c.n} {c.s'} w{t}_{c.k} :=\n  ⟨by decide +kernel, by decide +kernel⟩\n\n"
    let src := header s!"I3.Spec.GrainW{t}P{pi}"
        s!"Width t = {t}: chunks {pi*PC}..{min cs.size ((pi+1)*PC) - 1} of the round-constant stream of the Grain LFSR\n  (each theorem: from the pinned LFSR state, `gen` produces exactly these words and ends in the next pinned state)."
      ++ "import I3.Lemmas.GrainRun\nset_option maxRecDepth 1000000\nnamespace I3.Spec.GrainLit\nopen I3.Grain\n\n"
      ++ body ++ "end I3.Spec.GrainLit\n"
    IO.FS.writeFile s!"/verif/lean/I3/Spec/GrainW{t}P{pi}.lean" src
  -- final module
  let imports := "import I3.Lemmas.GrainRun\n" ++ String.join ((List.range nparts).map fun pi => s!"import I3.Spec.GrainW{t}P{pi}\n")
  let runTerm := cs.toList.foldl (fun (acc : String) c => if c.k = 0 then s!"c{t}_0" else s!"({acc}.trans c{t}_{c.k})") ""
  let fsum := cs.foldl (fun a c => a + c.n*254*64) 0
  let src := header s!"I3.Spec.GrainW{t}"
      s!"Width t = {t}: the round constants `rc_{t}` and the Cauchy MDS matrix `mds_{t}` of the reference Poseidon\n  parameter generator over BN254 as literals, and the theorem `grain_{t}` that they are its output."
    ++ imports ++ "set_option maxRecDepth 1000000\nnamespace I3.Spec.GrainLit\nopen I3.Grain\n\n"
    ++ s!"def rc_{t} : List Nat := {fmtList p.rc}\n\n"
    ++ s!"def mds_{t} : List (List Nat) := {fmtMat (Grain.mds q p)}\n\n"
    ++ s!"def wxy_{t} : List Nat := {fmtList wxy}\n\n"
    ++ s!"theorem cxy_{t} : Run q 254 false {2*t*254*64} {s1} {2*t} {s2} wxy_{t} :=\n  ⟨by decide +kernel, by decide +kernel⟩\n\n"
    ++ s!"theorem s0_{t} : warm 160 (initState 254 {t} 8 {rp}) = {s0} := by decide +kernel\n\n"
    ++ s!"theorem grain_{t} :\n    (bn254Params {t}).rc = rc_{t} ∧ mds q (bn254Params {t}) = mds_{t} := by\n"
    ++ s!"  have hrun := {runTerm}\n"
    ++ s!"  have h1 := hrun.fuel (fuelFor ((8 + {rp}) * {t}) 254) (by decide)\n"
    ++ s!"  have h2 := cxy_{t}.fuel (fuelFor (2 * {t}) 254) (by decide)\n"
    ++ s!"  have hp := params_eq q 254 {t} 8 {rp} _ _ _ _ _ s0_{t} h1 h2\n"
    ++ s!"  have hb : bn254Params {t} = params q 254 {t} 8 {rp} := rfl\n"
    ++ s!"  rw [hb, hp]\n  exact ⟨by decide +kernel, by decide +kernel⟩\n\n"
    ++ "end I3.Spec.GrainLit\n"
  IO.FS.writeFile s!"/verif/lean/I3/Spec/GrainW{t}.lean" src
  IO.println s!"wrote {t}: {cs.size} chunks, {nparts} parts, fuel sum {fsum} vs {Grain.fuelFor nrc 254}"

def main (args : List String) : IO Unit := do
  for a in args do gen a.toNat!
