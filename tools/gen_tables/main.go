// T1 — constants and tables translator.
// Reads the Go sources of /repo (go/parser, no type checking) and emits Lean definitions of every
// constant and table the properties depend on.  Purely syntactic; fails loudly on anything it does
// not understand (a failure is a broken tie, never a pass).
package main

import (
	"fmt"
	"go/ast"
	"go/parser"
	"go/token"
	"math/big"
	"os"
	"path/filepath"
	"regexp"
	"strconv"
	"strings"
)

var repo, out string
var fset = token.NewFileSet()

func die(f string, a ...interface{}) {
	fmt.Fprintf(os.Stderr, "gen_tables: "+f+"\n", a...)
	os.Exit(2)
}

func parse(rel string) *ast.File {
	f, err := parser.ParseFile(fset, filepath.Join(repo, rel), nil, 0)
	if err != nil {
		die("parse %s: %v", rel, err)
	}
	return f
}

// ---- generic finders ----

func findValueSpec(f *ast.File, name string) (ast.Expr, bool) {
	for _, d := range f.Decls {
		gd, ok := d.(*ast.GenDecl)
		if !ok {
			continue
		}
		for _, s := range gd.Specs {
			vs, ok := s.(*ast.ValueSpec)
			if !ok {
				continue
			}
			for i, n := range vs.Names {
				if n.Name == name && i < len(vs.Values) {
					return vs.Values[i], true
				}
				if n.Name == name && len(vs.Values) == 1 { // a, _ = f()
					return vs.Values[0], true
				}
			}
		}
	}
	return nil, false
}

func mustValue(f *ast.File, file, name string) ast.Expr {
	e, ok := findValueSpec(f, name)
	if !ok {
		die("%s: top-level %s not found", file, name)
	}
	return e
}

func findFunc(f *ast.File, name, recv string) *ast.FuncDecl {
	for _, d := range f.Decls {
		fd, ok := d.(*ast.FuncDecl)
		if !ok || fd.Name.Name != name {
			continue
		}
		if recv == "" && fd.Recv == nil {
			return fd
		}
		if recv != "" && fd.Recv != nil {
			return fd
		}
	}
	return nil
}

func allFuncs(f *ast.File, name string) []*ast.FuncDecl {
	var r []*ast.FuncDecl
	for _, d := range f.Decls {
		if fd, ok := d.(*ast.FuncDecl); ok && fd.Name.Name == name {
			r = append(r, fd)
		}
	}
	return r
}

func src(n ast.Node) string {
	var sb strings.Builder
	ast.Fprint(&sb, fset, n, nil)
	_ = sb
	// cheap printer: positions into the file
	p1 := fset.Position(n.Pos())
	p2 := fset.Position(n.End())
	b, err := os.ReadFile(p1.Filename)
	if err != nil {
		die("read %s", p1.Filename)
	}
	return string(b[p1.Offset:p2.Offset])
}

func intLit(e ast.Expr) *big.Int {
	switch v := e.(type) {
	case *ast.BasicLit:
		if v.Kind == token.INT {
			n, ok := new(big.Int).SetString(strings.ReplaceAll(v.Value, "_", ""), 0)
			if !ok {
				die("bad int literal %s", v.Value)
			}
			return n
		}
	case *ast.ParenExpr:
		return intLit(v.X)
	case *ast.CallExpr: // uint64(28): only a conversion to a predeclared integer type is transparent
		if id, ok := v.Fun.(*ast.Ident); ok && len(v.Args) == 1 {
			switch id.Name {
			case "uint64", "uint", "int", "int64", "uint32", "uint8":
				return intLit(v.Args[0])
			}
		}
	}
	die("expected integer literal, got %s", src(e))
	return nil
}

func strLit(e ast.Expr) string {
	if v, ok := e.(*ast.BasicLit); ok && v.Kind == token.STRING {
		s, err := strconv.Unquote(v.Value)
		if err != nil {
			die("bad string literal %s", v.Value)
		}
		return s
	}
	die("expected string literal, got %s", src(e))
	return ""
}

// first string literal anywhere inside e
func firstStr(e ast.Node) (string, bool) {
	var r string
	found := false
	ast.Inspect(e, func(n ast.Node) bool {
		if found {
			return false
		}
		if v, ok := n.(*ast.BasicLit); ok && v.Kind == token.STRING {
			r, _ = strconv.Unquote(v.Value)
			found = true
			return false
		}
		return true
	})
	return r, found
}

func intList(e ast.Expr) []*big.Int {
	cl, ok := e.(*ast.CompositeLit)
	if !ok {
		die("expected composite literal, got %s", src(e)[:40])
	}
	var r []*big.Int
	for _, el := range cl.Elts {
		r = append(r, intLit(el))
	}
	return r
}

func intMatrix(e ast.Expr) [][]*big.Int {
	cl, ok := e.(*ast.CompositeLit)
	if !ok {
		die("expected composite literal")
	}
	var r [][]*big.Int
	for _, el := range cl.Elts {
		r = append(r, intList(el))
	}
	return r
}

// nested string lists (hex)
func hexTree(e ast.Expr, depth int) interface{} {
	if depth == 0 {
		s := strLit(e)
		n, ok := new(big.Int).SetString(s, 16)
		if !ok {
			die("bad hex constant %q", s)
		}
		return n
	}
	cl, ok := e.(*ast.CompositeLit)
	if !ok {
		die("expected composite literal at depth %d", depth)
	}
	var r []interface{}
	for _, el := range cl.Elts {
		r = append(r, hexTree(el, depth-1))
	}
	return r
}

// assignment inside function fd whose LHS[idx] prints as lhs
func findAssign(fd *ast.FuncDecl, lhs string) ast.Expr {
	var r ast.Expr
	ast.Inspect(fd.Body, func(n ast.Node) bool {
		as, ok := n.(*ast.AssignStmt)
		if !ok {
			return true
		}
		for i, l := range as.Lhs {
			if src(l) == lhs {
				if r != nil {
					die("%s assigned twice in %s", lhs, fd.Name.Name)
				}
				if len(as.Rhs) == len(as.Lhs) {
					r = as.Rhs[i]
				} else {
					r = as.Rhs[0]
				}
			}
		}
		return true
	})
	if r == nil {
		die("assignment to %s not found in %s", lhs, fd.Name.Name)
	}
	return r
}

// ---- Lean emission ----

func leanList(xs []*big.Int) string {
	var sb strings.Builder
	sb.WriteString("[")
	for i, x := range xs {
		if i > 0 {
			sb.WriteString(", ")
		}
		if i%4 == 0 && len(xs) > 4 {
			sb.WriteString("\n  ")
		}
		sb.WriteString(x.String())
	}
	sb.WriteString("]")
	return sb.String()
}

func leanMatrix(m [][]*big.Int) string {
	var sb strings.Builder
	sb.WriteString("[")
	for i, r := range m {
		if i > 0 {
			sb.WriteString(",\n ")
		}
		sb.WriteString(leanList(r))
	}
	sb.WriteString("]")
	return sb.String()
}

func flat(t interface{}) []*big.Int {
	var r []*big.Int
	for _, x := range t.([]interface{}) {
		r = append(r, x.(*big.Int))
	}
	return r
}
func flat2(t interface{}) [][]*big.Int {
	var r [][]*big.Int
	for _, x := range t.([]interface{}) {
		r = append(r, flat(x))
	}
	return r
}

func write(name, content string) {
	p := filepath.Join(out, name)
	old, err := os.ReadFile(p)
	if err == nil && string(old) == content {
		return // keep mtime: lake rebuilds nothing
	}
	if err := os.WriteFile(p, []byte(content), 0o644); err != nil {
		die("write %s: %v", p, err)
	}
}

const hdr = "-- GENERATED by /verif/tools/gen_tables from /repo — do not edit; regenerated on every check run.\nset_option maxRecDepth 100000\n"

func main() {
	if len(os.Args) != 3 {
		die("usage: gen_tables <repo> <outdir>")
	}
	repo, out = os.Args[1], os.Args[2]
	os.MkdirAll(out, 0o755)

	// ---------- poseidon tables ----------
	pc := parse("poseidon/constants.go")
	csE := mustValue(pc, "poseidon/constants.go", "cs")
	cl, ok := csE.(*ast.CompositeLit)
	if !ok {
		die("cs is not a composite literal")
	}
	fields := map[string]ast.Expr{}
	for _, el := range cl.Elts {
		kv, ok := el.(*ast.KeyValueExpr)
		if !ok {
			die("cs: expected keyed fields")
		}
		fields[src(kv.Key)] = kv.Value
	}
	for _, k := range []string{"C", "S", "M", "P"} {
		if fields[k] == nil {
			die("cs.%s missing", k)
		}
	}
	if len(fields) != 4 {
		die("cs has %d fields, expected C,S,M,P", len(fields))
	}
	C := hexTree(fields["C"], 2).([]interface{})
	S := hexTree(fields["S"], 2).([]interface{})
	M := hexTree(fields["M"], 3).([]interface{})
	P := hexTree(fields["P"], 3).([]interface{})
	nW := len(C)
	if len(S) != nW || len(M) != nW || len(P) != nW {
		die("cs: width counts differ: %d %d %d %d", len(C), len(S), len(M), len(P))
	}
	for k := 0; k < nW; k++ {
		t := k + 2
		var sb strings.Builder
		sb.WriteString(hdr)
		fmt.Fprintf(&sb, "namespace I3.Gen.PT%d\n", t)
		fmt.Fprintf(&sb, "def C : List Nat := %s\n", leanList(flat(C[k])))
		fmt.Fprintf(&sb, "def S : List Nat := %s\n", leanList(flat(S[k])))
		fmt.Fprintf(&sb, "def M : List (List Nat) := %s\n", leanMatrix(flat2(M[k])))
		fmt.Fprintf(&sb, "def P : List (List Nat) := %s\n", leanMatrix(flat2(P[k])))
		fmt.Fprintf(&sb, "end I3.Gen.PT%d\n", t)
		write(fmt.Sprintf("PT%d.lean", t), sb.String())
	}
	{
		var sb strings.Builder
		sb.WriteString(hdr)
		for k := 0; k < nW; k++ {
			fmt.Fprintf(&sb, "import I3.Gen.PT%d\n", k+2)
		}
		// imports must come first: rebuild text
		body := sb.String()
		body = strings.Replace(body, hdr, "", 1)
		var sb2 strings.Builder
		sb2.WriteString(body)
		sb2.WriteString(hdr)
		sb2.WriteString("namespace I3.Gen\nstructure PTables where\n  C : List Nat\n  S : List Nat\n  M : List (List Nat)\n  P : List (List Nat)\n")
		fmt.Fprintf(&sb2, "def poseidonWidths : Nat := %d\n", nW)
		sb2.WriteString("def poseidonTables : Nat → Option PTables\n")
		for k := 0; k < nW; k++ {
			fmt.Fprintf(&sb2, "  | %d => some { C := PT%d.C, S := PT%d.S, M := PT%d.M, P := PT%d.P }\n", k+2, k+2, k+2, k+2, k+2)
		}
		sb2.WriteString("  | _ => none\nend I3.Gen\n")
		write("PoseidonTables.lean", sb2.String())
	}

	// ---------- scalar constants ----------
	var sb strings.Builder
	sb.WriteString(hdr)
	sb.WriteString("namespace I3.Gen\n")
	emitNat := func(name string, v *big.Int) { fmt.Fprintf(&sb, "def %s : Nat := %s\n", name, v.String()) }
	emitInt := func(name string, v *big.Int) { fmt.Fprintf(&sb, "def %s : Int := %s\n", name, v.String()) }
	emitList := func(name string, v []*big.Int) { fmt.Fprintf(&sb, "def %s : List Nat := %s\n", name, leanList(v)) }
	emitStr := func(name, v string) { fmt.Fprintf(&sb, "def %s : String := %s\n", name, strconv.Quote(v)) }
	dec := func(s string) *big.Int {
		n, ok := new(big.Int).SetString(s, 10)
		if !ok {
			die("bad decimal %q", s)
		}
		return n
	}
	hex := func(s string) *big.Int {
		n, ok := new(big.Int).SetString(s, 16)
		if !ok {
			die("bad hex %q", s)
		}
		return n
	}

	// poseidon.go
	pp := parse("poseidon/poseidon.go")
	emitNat("poseidon_NROUNDSF", intLit(mustValue(pp, "poseidon.go", "NROUNDSF")))
	emitList("poseidon_NROUNDSP", intList(mustValue(pp, "poseidon.go", "NROUNDSP")))
	emitNat("poseidon_sboxExp", intLit(mustValue(pp, "poseidon.go", "big5").(*ast.CallExpr).Args[0]))

	// constants.go
	cc := parse("constants/constants.go")
	emitNat("constants_q", dec(strLit(mustValue(cc, "constants.go", "qString"))))
	emitInt("constants_Zero", intLit(mustValue(cc, "constants.go", "Zero").(*ast.CallExpr).Args[0]))
	emitInt("constants_One", intLit(mustValue(cc, "constants.go", "One").(*ast.CallExpr).Args[0]))
	{
		e := mustValue(cc, "constants.go", "MinusOne").(*ast.CallExpr).Args[0]
		ue, ok := e.(*ast.UnaryExpr)
		if !ok || ue.Op != token.SUB {
			die("MinusOne: expected big.NewInt(-1)")
		}
		emitInt("constants_MinusOne", new(big.Int).Neg(intLit(ue.X)))
	}
	// Q must be parsed from qString in base 10
	{
		e := mustValue(cc, "constants.go", "Q")
		s := src(e)
		if !regexp.MustCompile(`^new\(big\.Int\)\.SetString\(qString,\s*10\)$`).MatchString(s) {
			die("constants.Q: unexpected initialiser %s", s)
		}
	}

	// babyjub.go
	bj := parse("babyjub/babyjub.go")
	ini := findFunc(bj, "init", "")
	if ini == nil {
		die("babyjub init not found")
	}
	getS := func(lhs string) string {
		s, ok := firstStr(findAssign(ini, lhs))
		if !ok {
			die("babyjub init: no string literal for %s", lhs)
		}
		if !strings.Contains(src(findAssign(ini, lhs)), "NewIntFromString") {
			die("babyjub init: %s not built by NewIntFromString", lhs)
		}
		return s
	}
	emitNat("babyjub_A", dec(getS("A")))
	emitNat("babyjub_D", dec(getS("D")))
	emitNat("babyjub_Order", dec(getS("Order")))
	emitNat("babyjub_B8x", dec(getS("B8.X")))
	emitNat("babyjub_B8y", dec(getS("B8.Y")))
	{
		s := src(findAssign(ini, "SubOrder"))
		m := regexp.MustCompile(`^new\(big\.Int\)\.Rsh\(Order,\s*(\d+)\)$`).FindStringSubmatch(s)
		if m == nil {
			die("babyjub init: SubOrder initialiser not understood: %s", s)
		}
		emitNat("babyjub_SubOrderShift", dec(m[1]))
		if src(findAssign(ini, "Aff")) != "ff.NewElement().SetBigInt(A)" || src(findAssign(ini, "Dff")) != "ff.NewElement().SetBigInt(D)" {
			die("babyjub init: Aff/Dff initialisers not understood")
		}
	}

	// mimc7.go
	mm := parse("mimc7/mimc7.go")
	emitStr("mimc7_SEED", strLit(mustValue(mm, "mimc7.go", "SEED")))
	gcd := findFunc(mm, "generateConstantsData", "")
	if gcd == nil {
		die("mimc7 generateConstantsData not found")
	}
	emitNat("mimc7_nRounds", intLit(findAssign(gcd, "consts.nRounds")))

	// ff / ffg element.go
	for _, pk := range []string{"ff", "ffg"} {
		ef := parse(pk + "/element.go")
		emitList(pk+"_qElement", intList(mustValue(ef, pk, "qElement")))
		emitList(pk+"_rSquare", intList(mustValue(ef, pk, "rSquare")))
		// _modulus.SetString("...", 10) in an init
		var modS string
		var legS, sqrtS string
		for _, fd := range allFuncs(ef, "init") {
			ast.Inspect(fd.Body, func(n ast.Node) bool {
				ce, ok := n.(*ast.CallExpr)
				if !ok {
					return true
				}
				s := src(ce)
				if strings.HasPrefix(s, "_modulus.SetString(") {
					modS = strLit(ce.Args[0])
					if intLit(ce.Args[1]).Int64() != 10 {
						die("%s: _modulus base", pk)
					}
				}
				return true
			})
			ast.Inspect(fd.Body, func(n ast.Node) bool {
				as, ok := n.(*ast.AssignStmt)
				if ok && src(as.Lhs[0]) == "_bLegendreExponentElement" {
					ce := as.Rhs[0].(*ast.CallExpr)
					legS = strLit(ce.Args[0])
					if intLit(ce.Args[1]).Int64() != 16 {
						die("%s: legendre exponent base", pk)
					}
				}
				if ok && src(as.Lhs[0]) == "_bSqrtExponentElement" {
					ce := as.Rhs[0].(*ast.CallExpr)
					if src(ce.Args[0]) != "sqrtExponentElement" || intLit(ce.Args[1]).Int64() != 16 {
						die("%s: sqrt exponent initialiser", pk)
					}
				}
				if gd, ok := n.(*ast.DeclStmt); ok {
					for _, sp := range gd.Decl.(*ast.GenDecl).Specs {
						vs := sp.(*ast.ValueSpec)
						if vs.Names[0].Name == "sqrtExponentElement" {
							sqrtS = strLit(vs.Values[0])
						}
					}
				}
				return true
			})
		}
		if modS == "" || legS == "" || sqrtS == "" {
			die("%s: modulus / exponents not found", pk)
		}
		emitNat(pk+"_modulus", dec(modS))
		emitNat(pk+"_legendreExp", hex(legS))
		emitNat(pk+"_sqrtExp", hex(sqrtS))
		// SetOne limbs
		so := findFunc(ef, "SetOne", "z")
		if so == nil {
			die("%s: SetOne not found", pk)
		}
		var one []*big.Int
		for i := 0; ; i++ {
			var e ast.Expr
			found := false
			ast.Inspect(so.Body, func(n ast.Node) bool {
				if as, ok := n.(*ast.AssignStmt); ok && src(as.Lhs[0]) == fmt.Sprintf("z[%d]", i) {
					e = as.Rhs[0]
					found = true
				}
				return true
			})
			if !found {
				break
			}
			one = append(one, intLit(e))
		}
		emitList(pk+"_one", one)
		// Sqrt: g literal and r
		sq := findFunc(ef, "Sqrt", "z")
		if sq == nil {
			die("%s: Sqrt not found", pk)
		}
		var gl []*big.Int
		var rr *big.Int
		ast.Inspect(sq.Body, func(n ast.Node) bool {
			if ds, ok := n.(*ast.DeclStmt); ok {
				for _, sp := range ds.Decl.(*ast.GenDecl).Specs {
					vs := sp.(*ast.ValueSpec)
					if vs.Names[0].Name == "g" && len(vs.Values) == 1 {
						gl = intList(vs.Values[0])
					}
				}
			}
			if as, ok := n.(*ast.AssignStmt); ok && as.Tok == token.DEFINE && src(as.Lhs[0]) == "r" {
				rr = intLit(as.Rhs[0])
			}
			return true
		})
		if gl == nil || rr == nil {
			die("%s: Sqrt constants not found", pk)
		}
		emitList(pk+"_sqrtG", gl)
		emitNat(pk+"_sqrtR", rr)
		// LexicographicallyLargest: second args of bits.Sub64 calls
		ll := findFunc(ef, "LexicographicallyLargest", "z")
		var lex []*big.Int
		ast.Inspect(ll.Body, func(n ast.Node) bool {
			if ce, ok := n.(*ast.CallExpr); ok && src(ce.Fun) == "bits.Sub64" {
				lex = append(lex, intLit(ce.Args[1]))
			}
			return true
		})
		emitList(pk+"_lexLimbs", lex)
	}

	// ff asm DATA
	for _, fn := range []string{"ff/element_ops_amd64.s", "ff/element_mul_amd64.s", "ff/element_mul_adx_amd64.s"} {
		b, err := os.ReadFile(filepath.Join(repo, fn))
		if err != nil {
			die("read %s", fn)
		}
		tag := strings.NewReplacer("ff/element_", "", "_amd64.s", "", "/", "_").Replace(fn)
		var ql []*big.Int
		for _, m := range regexp.MustCompile(`(?m)^DATA q<>\+(\d+)\(SB\)/8, \$0x([0-9a-fA-F]+)`).FindAllStringSubmatch(string(b), -1) {
			if off, _ := strconv.Atoi(m[1]); off != 8*len(ql) {
				die("%s: q<> DATA out of order", fn)
			}
			ql = append(ql, hex(m[2]))
		}
		qi := regexp.MustCompile(`(?m)^DATA qInv0<>\(SB\)/8, \$0x([0-9a-fA-F]+)`).FindStringSubmatch(string(b))
		if len(ql) != 4 || qi == nil {
			die("%s: q<> / qInv0<> DATA not found", fn)
		}
		emitList("ffasm_"+tag+"_q", ql)
		emitNat("ffasm_"+tag+"_qInv0", hex(qi[1]))
	}

	// goldenposeidon
	gc := parse("goldenposeidon/constants.go")
	emitNat("golden_NROUNDSF", intLit(mustValue(gc, "golden", "NROUNDSF")))
	emitNat("golden_NROUNDSP", intLit(mustValue(gc, "golden", "NROUNDSP")))
	emitNat("golden_CAPLEN", intLit(mustValue(gc, "golden", "CAPLEN")))
	emitNat("golden_mLen", intLit(mustValue(gc, "golden", "mLen")))
	emitList("golden_mcirc", intList(mustValue(gc, "golden", "mcirc")))
	emitList("golden_mdiag", intList(mustValue(gc, "golden", "mdiag")))
	emitList("golden_c", intList(mustValue(gc, "golden", "c")))
	emitList("golden_s", intList(mustValue(gc, "golden", "s")))
	fmt.Fprintf(&sb, "def golden_p : List (List Nat) := %s\n", leanMatrix(intMatrix(mustValue(gc, "golden", "p"))))
	gpf := parse("goldenposeidon/poseidon.go")
	emitNat("golden_sboxExp", intLit(mustValue(gpf, "golden", "big7").(*ast.CallExpr).Args[0]))

	sb.WriteString("end I3.Gen\n")
	write("Consts.lean", sb.String())
}
