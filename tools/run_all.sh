#!/bin/sh
# run every quick check on the current tree and validate the evidence files against the schemas
cd /verif || exit 2
fail=0
for p in C01 C02 C03 C04 C05 C06 C07 C08 C09 C10 C11 C12 C13 C14 C15 C16 C17 C18 C19 C20; do
  out=$(./check $p --tier ${TIER:-quick} 2>&1); rc=$?
  echo "$out" | tail -1
  [ $rc -ne 0 ] && { echo "$out" | grep VIOLATION; fail=1; }
done
python3-vt - <<'PY'
import json, jsonschema, glob, sys
es = json.load(open('/root/.vp/EVIDENCE.schema.json')); ms = json.load(open('/root/.vp/MANIFEST.schema.json'))
m = json.load(open('/verif/MANIFEST.json')); jsonschema.validate(m, ms)
bad = 0
for c in m['checks']:
    e = json.load(open(c['evidence_file']))
    try:
        jsonschema.validate(e, es)
    except Exception as ex:
        print('INVALID', c['property_id'], str(ex)[:200]); bad += 1
    if e['level'] != c['level_claimed']['category']:
        print('LEVEL MISMATCH', c['property_id']); bad += 1
    cov = e['coverage']
    if e['level'] == 'proof' and (cov.get('obligations', 0) < 1 or cov.get('discharged') != cov.get('obligations')):
        print('PROOF COUNTS', c['property_id'], cov.get('obligations'), cov.get('discharged')); bad += 1
    if e.get('violations', 0) != 0:
        print('VIOLATIONS RECORDED', c['property_id']); bad += 1
print('evidence ok' if not bad else f'{bad} evidence problems')
sys.exit(1 if bad else 0)
PY
[ $? -ne 0 ] && fail=1
exit $fail
