#!/usr/bin/env python3
"""mkpins.py — (re)writes I3/Model/SourcePin.lean (expected source fingerprints = those of the current
/repo tree) and the per-property obligations I3/Props/CxxPin.lean + I3/Audit/CxxPin.lean.
Run by hand after the models have been (re)validated against a changed /repo; never by ./check."""
import os, re, subprocess, sys
VERIF = os.path.dirname(os.path.dirname(os.path.abspath(__file__)))
LEAN = os.path.join(VERIF, "lean")
subprocess.check_call([os.path.join(VERIF, ".build", "gen_pins"), "/repo", os.path.join(LEAN, "I3", "Gen")])
fp = re.findall(r'\("([^"]+)", "([0-9a-f]+)"\)', open(os.path.join(LEAN, "I3", "Gen", "Fingerprints.lean")).read())
keys = [k for k, _ in fp]

# property -> regexes over function keys whose hand-written model / translation rules the theorems rely on
SEL = {
 "C01": [r"^poseidon\.", r"^utils\.(CheckBigInt|BigIntArrayToElementArray|ElementArrayToBigIntArray)", r"^ff\.Element\.(Exp|SetBigInt|setBigInt|ToBigIntRegular|ToBigInt|SetUint64|Add|Mul|Square|FromMont|ToMont|SetZero|SetOne|Set)$", r"^ff\.NewElement$"],
 "C02": [r"^babyjub\.(PrivateKey\.|PrivKeyScalar\.|NewPrivKeyScalar|SkToBigInt|pruneBuffer|Blake512|PublicKey\.Verify|PublicKey\.Point|Signature\.(Compress|Decompress)|SignatureComp\.Decompress|Point\.(Mul|Projective|Compress|Decompress)|PointProjective\.|NewPoint|PointFromSignAndY|PackSignY|UnpackSignY|PointCoordSign)", r"^utils\.(BigIntLEBytes|SetBigIntFromLEBytes|SwapEndianness)"],
 "C03": [r"^babyjub\.(PublicKey\.Verify|PublicKey\.Point|Point\.(Mul|Projective)|PointProjective\.|NewPoint)"],
 "C04": [r"^babyjub\.(Point\.(Mul|Projective)|PointProjective\.|NewPoint|init)", r"^utils\.NewIntFromString", r"^ff\.Element\.(Inverse|Equal|SetBigInt|setBigInt|ToBigIntRegular|ToBigInt)$"],
 "C05": [r"^ff\.(BatchInvert|Element\.(Add|Sub|Neg|Double|Mul|Square|Div|Exp|Inverse|Halve|FromMont|ToMont|Set|SetZero|SetOne|IsZero|Equal)|One|NewElement|mulByConstant|_\w+Generic|madd\d|Butterfly@|MulBy\d+@|add@|sub@|neg@|double@|mul@|fromMont@|reduce@)"],
 "C06": [r"^babyjub\.(Point\.(Compress|Decompress)|PointFromSignAndY|PackSignY|UnpackSignY|PointCoordSign)", r"^utils\.(BigIntLEBytes|SetBigIntFromLEBytes|SwapEndianness)"],
 "C07": [r"^poseidon\.(Hash|HashEx|HashWithState|HashWithStateEx)$", r"^mimc7\.(Hash|HashGeneric|HashBytes)$", r"^utils\.CheckBigInt"],
 "C08": [r"^mimc7\.", r"^keccak256\.", r"^utils\.(CheckBigInt|SetBigIntFromLEBytes|SwapEndianness)"],
 "C09": [r"^ffg\.(BatchInvert|Butterfly|MulBy\d+|Element\.(Add|Sub|Neg|Double|Mul|Square|Div|Exp|Inverse|Halve|FromMont|ToMont|Set|SetZero|SetOne|SetUint64|IsZero|Equal)|One|NewElement|NewElementFromUint64|mulByConstant|_\w+Generic|madd0|add|sub|neg|double|mul|fromMont|reduce)$"],
 "C10": [r"^goldenposeidon\.", r"^ffg\.(NewElementFromUint64|NewElement|Element\.(SetUint64|Exp|Add|Mul|Square|ToUint64Regular|FromMont))$"],
 "C11": [r"^ffg?\.(Element\.(SetBigInt|setBigInt|SetBytes|Bytes|Marshal|String|SetString|ToBigInt|ToBigIntRegular|ToRegular|ToMont|FromMont|Cmp|Equal|LexicographicallyLargest|SetInterface|SetUint64|IsZero|IsUint64|BitLen|Bit|Set|ToUint64Regular)|NewElementFromUint64|Modulus|init@)"],
 "C12": [r"^babyjub\.(SkToBigInt|pruneBuffer|Blake512|PrivateKey\.(Scalar|Public)|PrivKeyScalar\.|NewPrivKeyScalar|Point\.Mul)", r"^utils\.SetBigIntFromLEBytes"],
 "C13": [r"^babyjub\.(Point\.(InCurve|InSubGroup|Mul|Projective)|PointProjective\.)"],
 "C14": [r"^babyjub\.PublicKey\.Verify"],
 "C15": [r"^babyjub\.(PublicKey\.|PublicKeyComp\.|Signature\.|SignatureComp\.|DecompressSig)", r"^utils\.(Hex|SwapEndianness|BigIntLEBytes|SetBigIntFromLEBytes)"],
 "C18": [r"^ffg?\.Element\.(Sqrt|Legendre|Exp)$"],
 "C19": [r"^babyjub\.(Point\.(Mul|Set|Decompress)|Signature\.Decompress|SignatureComp\.Decompress)"],
 "C20": [r"^keccak256\.", r"^babyjub\.Blake512"],
}
# property -> packages of /repo its statement depends on (transitively): their file layout, build constraints, import
# blocks and non-code files are pinned (tree.<layout>@pkg), their declarations, and their function SETS (nothing added
# or removed, e.g. an init() in a new or existing file).  C16/C17 quantify over every operation: all packages.
ALLP = ["babyjub", "constants", "ff", "ffg", "goldenposeidon", "keccak256", "mimc7", "poseidon", "utils"]
CURVE = ["babyjub", "utils", "ff", "constants"]
EDDSA = ["babyjub", "poseidon", "mimc7", "keccak256", "utils", "ff", "constants"]
DEPS = {
 "C01": ["poseidon", "utils", "ff", "constants"], "C02": EDDSA, "C03": EDDSA, "C04": CURVE, "C05": ["ff"], "C06": CURVE,
 "C07": ["poseidon", "mimc7", "keccak256", "utils", "ff", "constants"], "C08": ["mimc7", "keccak256", "utils", "ff", "constants"],
 "C09": ["ffg"], "C10": ["goldenposeidon", "ffg"], "C11": ["ff", "ffg"], "C12": CURVE, "C13": CURVE, "C14": EDDSA,
 "C15": CURVE, "C16": ALLP, "C17": ALLP, "C18": ["ff", "ffg"], "C19": CURVE, "C20": ["keccak256", "babyjub"],
}
def q(s): return '"' + s + '"'

# Functions whose T6 translation is tied to the model by a bridge lemma need no source pin for a property whose
# generated-code theorems (Props/<pid>*Gen*.lean) depend on that lemma: an edit then either keeps the bridge
# provable (harmless) or breaks it (broken tie).  Computed from the import closure of the property's Gen files.
import glob
def imports_closure(files):
    seen, todo = set(), list(files)
    while todo:
        f = todo.pop()
        if f in seen or not os.path.exists(f):
            continue
        seen.add(f)
        for m in re.finditer(r"^import (I3\.[\w.]+)", open(f).read(), re.M):
            todo.append(os.path.join(LEAN, *m.group(1).split(".")) + ".lean")
    return seen
gen_defs = {}
for f in glob.glob(os.path.join(LEAN, "I3", "Gen", "Go*.lean")):
    for m in re.finditer(r"^/-- `([^`]+)` \(.*\)\. -/\ndef (\w+)", open(f).read(), re.M):
        gen_defs[m.group(2)] = m.group(1)
def bridged_for(pid):
    files = glob.glob(os.path.join(LEAN, "I3", "Props", pid + "*Gen*.lean"))
    if not files:
        return set()
    txt = "\n".join(open(f).read() for f in imports_closure(files) if "/Lemmas/GoBridge" in f or "/Props/" in f and "Gen" in os.path.basename(f))
    return {key for d, key in gen_defs.items() if re.search(r"\b" + re.escape(d) + r"\b", txt)}
with open(os.path.join(LEAN, "I3", "Model", "SourcePin.lean"), "w") as f:
    f.write("/-\n  I3.Model.SourcePin — fingerprints (SHA-256 prefix of the comment-free, normalised source) of every\n"
            "  function of /repo at the commit against which the hand-written models were validated.\n"
            "  WRITTEN by tools/mkpins.py; compared with the regenerated I3.Gen.fingerprints by I3.Props.CxxPin.\n-/\n"
            "set_option maxRecDepth 100000\nnamespace I3.SourcePin\n\ndef pinned : List (String × String) := [\n")
    f.write(",\n".join(f"  ({q(k)}, {q(h)})" for k, h in fp))
    f.write("\n]\n\n/-- a function is unchanged: present on both sides with the same fingerprint. -/\n"
            "def same (cur : List (String × String)) (k : String) : Bool :=\n"
            "  match cur.lookup k, pinned.lookup k with\n  | some a, some b => a == b\n  | _, _ => false\n\n"
            "/-- the function keys of a package (prefix) are the pinned ones: nothing added, nothing removed. -/\n"
            "def sameKeys (cur : List (String × String)) (pfx : String) : Bool :=\n"
            "  ((cur.map (·.1)).filter (·.startsWith pfx)) == ((pinned.map (·.1)).filter (·.startsWith pfx))\n\nend I3.SourcePin\n")
for pid in sorted(DEPS):
    res = SEL.get(pid, [])
    sel = [k for k in keys if any(re.search(r, k) for r in res)]
    assert sel or pid in ("C16", "C17"), pid
    # Relaxation is OFF by default: T6's value semantics cannot see every change (two live names for one cell, nil,
    # index out of range), so the pins stay as the complete backstop; `--relax` is for experiments only.
    br = bridged_for(pid) if "--relax" in sys.argv else set()
    dropped = [k for k in sel if k in br]
    sel = [k for k in sel if k not in br]
    if dropped:
        print(f"{pid}: {len(dropped)} functions tied by T6 bridge lemmas instead of a source pin: {' '.join(dropped)}")
    if not sel and res:
        sel = [k for k in keys if "<decls>" in k and any(re.search(r, k.replace("<decls>", "x")) for r in res)][:1] or dropped[:1]
    pkgs = sorted({k.split(".")[0] + "." for k in sel} | {d + "." for d in DEPS[pid]})
    # layout of every package the property depends on, and of the module root
    sel += [k for k in keys if k.startswith("tree.<layout>@") and (k.split("@")[1] in DEPS[pid] or k.endswith("@root"))]
    # the non-function declarations (types, constants, variable initialisers) of every package touched
    sel += [k for k in keys if ("<decls>" in k or "<asm>" in k) and k.split(".")[0] + "." in pkgs and k not in sel]
    # properties that rest on third-party code (sha3, blake512, x/sys/cpu feature detection): the dependency closure
    if pid in ("C02", "C03", "C05", "C08", "C12", "C20"):
        sel += [k for k in keys if k.startswith("module.<deps>")]
        pkgs = sorted(set(pkgs))
    with open(os.path.join(LEAN, "I3", "Props", pid + "Pin.lean"), "w") as f:
        f.write(f"/-\n  I3.Props.{pid} (source pin) — the Go functions mirrored by the hand-written models of {pid} still have the\n"
                f"  source text against which those models were validated, and no function was added to or removed\n"
                f"  from their packages.  Regenerated fingerprints: I3.Gen.fingerprints (tools/gen_pins).\n-/\n"
                f"import I3.Gen.Fingerprints\nimport I3.Model.SourcePin\nnamespace I3.Props.{pid}\nopen I3.SourcePin\n\n"
                f"def modelled : List String := [\n" + ",\n".join("  " + q(k) for k in sel) + "\n]\n\n"
                f"theorem source_pinned : modelled.all (same I3.Gen.fingerprints) = true := by decide +kernel\n\n"
                f"theorem function_set_pinned : ([{', '.join(q(p) for p in pkgs)}] : List String).all (sameKeys I3.Gen.fingerprints) = true := by\n  decide +kernel\n\n"
                f"theorem modelled_nonempty : {len(sel)} = modelled.length := by decide\n\nend I3.Props.{pid}\n")
    with open(os.path.join(LEAN, "I3", "Audit", pid + "Pin.lean"), "w") as f:
        f.write(f"import I3.Props.{pid}Pin\n#print axioms I3.Props.{pid}.source_pinned\n#print axioms I3.Props.{pid}.function_set_pinned\n")
print("pins written for", len(DEPS), "properties;", len(fp), "functions")
