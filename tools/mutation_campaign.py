#!/usr/bin/env python3
"""mutation_campaign.py [N] [seed] — classic mutation testing of the checks (informational, DESIGN.md §11).

Generates N random first-order mutants of the library's non-test Go files (relational / arithmetic / logical operator
swaps, constants +-1, a deleted statement), keeps those that still compile AND survive the package's own tests
("survivors": exactly what the existing suite cannot see), and runs the quick checks of the properties that depend on
the mutated file against each survivor in a scratch worktree (VERIF_REPO).  Reports, per survivor, whether a check
reports a violation and whether it comes with a concrete failing input.  Never touches /repo.
"""
import json, os, random, re, subprocess, sys, tempfile, time

N = int(sys.argv[1]) if len(sys.argv) > 1 else 60
SEED = int(sys.argv[2]) if len(sys.argv) > 2 else 1
OUT = "/verif/.build/mutation_campaign.txt"
ENV = dict(os.environ, GOFLAGS="-mod=mod", GOPROXY="off", GOSUMDB="off", GOTOOLCHAIN="local")
FILES = {
    "poseidon/poseidon.go": ["C01", "C07"], "mimc7/mimc7.go": ["C08", "C07"],
    "babyjub/babyjub.go": ["C04", "C13", "C06", "C19"], "babyjub/eddsa.go": ["C02", "C03", "C14", "C12", "C15"],
    "babyjub/helpers.go": ["C12", "C20"], "ff/element.go": ["C05", "C11", "C18"], "ffg/element.go": ["C09", "C11", "C18"],
    "ff/arith.go": ["C05"], "ffg/arith.go": ["C09"], "goldenposeidon/poseidon.go": ["C10"],
    "keccak256/keccac256.go": ["C20"], "utils/utils.go": ["C15", "C06"],
}
SWAPS = [(r" < ", " <= "), (r" <= ", " < "), (r" > ", " >= "), (r" >= ", " > "), (r" == ", " != "), (r" != ", " == "),
         (r" \+ ", " - "), (r" - ", " + "), (r" && ", " || "), (r" \|\| ", " && "), (r"\+\+", "--"), (r" >> ", " << ")]


def sh(cmd, cwd=None, timeout=900):
    try:
        p = subprocess.run(cmd, cwd=cwd, env=ENV, capture_output=True, text=True, timeout=timeout)
        return p.returncode, p.stdout + p.stderr
    except subprocess.TimeoutExpired:
        return 124, "timeout"


def mutate(src, rnd):
    """returns (new source, description) or None"""
    lines = src.split("\n")
    # candidate lines: inside function bodies (indented), no comments, no imports, no big literal tables
    idx = [i for i, l in enumerate(lines) if l.startswith("\t") and not l.strip().startswith("//") and len(l) < 200
           and not re.match(r'^\s*"', l) and "nolint" not in l]
    for _ in range(200):
        i = rnd.choice(idx)
        l = lines[i]
        kind = rnd.randrange(3)
        if kind == 0:
            cands = [(a, b) for a, b in SWAPS if re.search(a, l)]
            if not cands:
                continue
            a, b = rnd.choice(cands)
            ms = list(re.finditer(a, l))
            m = rnd.choice(ms)
            nl = l[:m.start()] + b + l[m.end():]
            desc = f"line {i+1}: `{a.strip()}` -> `{b.strip()}`"
        elif kind == 1:
            ms = [m for m in re.finditer(r"(?<![\w.\"x])(\d{1,3})(?![\w.\"])", l)]
            if not ms:
                continue
            m = rnd.choice(ms)
            v = int(m.group(1))
            nv = v + rnd.choice([-1, 1])
            if nv < 0:
                nv = v + 1
            nl = l[:m.start()] + str(nv) + l[m.end():]
            desc = f"line {i+1}: constant {v} -> {nv}"
        else:
            s = l.strip()
            # delete a statement that is a plain call or assignment (keeps the file compiling more often than not)
            if not re.match(r"^[\w\.\[\]\*&, ]+(\(|=|:=|\+=)", s) or s.endswith("{") or s.startswith(("return", "if", "for", "func", "var", "defer", "case", "switch", "}")):
                continue
            nl = "\t" * (len(l) - len(l.lstrip("\t"))) + "// " + s
            desc = f"line {i+1}: statement deleted"
        if nl == l:
            continue
        new = lines[:i] + [nl] + lines[i + 1:]
        return "\n".join(new), desc + f"   [{l.strip()[:90]}]"
    return None


def main():
    rnd = random.Random(SEED)
    wt = tempfile.mkdtemp(prefix="mutwt-", dir="/tmp")
    os.rmdir(wt)
    assert sh(["git", "-C", "/repo", "worktree", "add", "-q", "--detach", wt, "HEAD"])[0] == 0
    rows = []
    t0 = time.time()
    evsave = tempfile.mkdtemp(prefix="evsave-", dir="/tmp")
    subprocess.run("cp /verif/evidence/*.json " + evsave, shell=True)
    try:
        made = 0
        while made < N:
            f = rnd.choice(list(FILES))
            src = open(os.path.join(wt, f)).read()
            r = mutate(src, rnd)
            if r is None:
                continue
            made += 1
            new, desc = r
            open(os.path.join(wt, f), "w").write(new)
            pkg = "./" + os.path.dirname(f)
            rc, out = sh(["go", "build", "./..."], cwd=wt)
            if rc != 0:
                rows.append((f, desc, "does-not-compile", ""))
                sh(["git", "checkout", "--", "."], cwd=wt)
                continue
            rc, out = sh(["go", "test", "-vet=off", "-count=1", "./..."], cwd=wt, timeout=1200)
            if rc != 0:
                rows.append((f, desc, "killed-by-existing-suite", ""))
                sh(["git", "checkout", "--", "."], cwd=wt)
                continue
            # survivor: run the checks of the dependent properties against this tree
            verdict, detail = "NOT-DETECTED", ""
            for pid in FILES[f]:
                e = dict(os.environ, VERIF_REPO=wt, VERIF_SEED="1")
                p = subprocess.run(["./check", pid, "--tier", "quick"], cwd="/verif", env=e, capture_output=True, text=True, timeout=3600)
                vl = [l for l in p.stdout.split("\n") if l.startswith("VIOLATION")]
                if vl:
                    with_input = not vl[0].rstrip().endswith("no-failing-input-found")
                    if with_input:
                        verdict, detail = "detected-with-input", pid
                        break
                    if verdict == "NOT-DETECTED":
                        verdict, detail = "detected-no-input", pid
            rows.append((f, desc, "survivor:" + verdict, detail))
            sh(["git", "checkout", "--", "."], cwd=wt)
            with open(OUT, "w") as o:
                for r_ in rows:
                    o.write("\t".join(r_) + "\n")
    finally:
        sh(["git", "-C", "/repo", "worktree", "remove", "--force", wt])
        sh(["git", "-C", "/repo", "worktree", "prune"])
        # put Gen back to the unchanged tree
        for t in ("gen_tables", "gen_limbs", "gen_asm", "gen_pins", "gen_effects", "gen_go"):
            subprocess.run([f"/verif/.build/{t}", "/repo", "/verif/lean/I3/Gen"], capture_output=True)
        subprocess.run(["rm", "-rf", "/verif/.build/harness_src"])
        subprocess.run("cp " + evsave + "/*.json /verif/evidence/; rm -rf " + evsave, shell=True)  # evidence of mutant runs is not kept
    cnt = {}
    for r_ in rows:
        cnt[r_[2]] = cnt.get(r_[2], 0) + 1
    with open(OUT, "w") as o:
        for r_ in rows:
            o.write("\t".join(r_) + "\n")
        o.write("SUMMARY " + json.dumps(cnt) + f" seconds={time.time()-t0:.0f}\n")
    print(cnt)


if __name__ == "__main__":
    main()
