#!/usr/bin/env python3
"""confirm_seed.py <src_dir(with patch.diff, demo_test.go, README.txt)> <seed-id> <property> [go test extra args...]
Confirms a seeded change in a scratch worktree of /repo (compiles, existing suite passes, demo fails with the
change and passes without) and, if confirmed, stores it under /verif/seeded/<seed-id>/ with meta.json."""
import json, os, re, shutil, subprocess, sys, tempfile
src, sid, prop = sys.argv[1], sys.argv[2], sys.argv[3]
extra = sys.argv[4:]
env = dict(os.environ, GOFLAGS="-mod=mod", GOPROXY="off", GOSUMDB="off", GOTOOLCHAIN="local")
wt = tempfile.mkdtemp(prefix="seedwt-", dir="/tmp")
os.rmdir(wt)
# DEMO_GOARCH=386 runs only the demonstration (not the existing suite) for that GOARCH
demoenv = dict(env, GOARCH=os.environ["DEMO_GOARCH"]) if os.environ.get("DEMO_GOARCH") else env
def sh(cmd, cwd=None, timeout=1800, e=None):
    p = subprocess.run(cmd, cwd=cwd, env=e or env, capture_output=True, text=True, timeout=timeout)
    return p.returncode, (p.stdout + p.stderr)
rc, out = sh(["git", "-C", "/repo", "worktree", "add", "-q", "--detach", wt, "HEAD"])
assert rc == 0, out
ran = []
try:
    demo = open(os.path.join(src, "demo_test.go")).read()
    pkg = re.search(r"^package\s+(\w+)", demo, re.M).group(1)
    base = pkg[:-5] if pkg.endswith("_test") else pkg
    cands = [d for d in os.listdir(wt) if os.path.isdir(os.path.join(wt, d)) and not d.startswith(".")]
    def pkgname(d):
        for f in os.listdir(os.path.join(wt, d)):
            if f.endswith(".go") and not f.endswith("_test.go"):
                m = re.search(r"^package\s+(\w+)", open(os.path.join(wt, d, f)).read(), re.M)
                if m: return m.group(1)
    dirs = [d for d in cands if pkgname(d) == base]
    hint = re.search(r"(goldenposeidon|poseidon|babyjub|ffg|ff|mimc7|utils|keccak256|constants)/", demo[:600] + open(os.path.join(src, "README.txt")).read()[:3000])
    if len(dirs) > 1 and hint and hint.group(1) in dirs:
        dirs = [hint.group(1)]
    ok = False
    for d in dirs:
        dst = os.path.join(wt, d, "seeded_demo_test.go")
        shutil.copy(os.path.join(src, "demo_test.go"), dst)
        rc0, o0 = sh(["go", "test", "-vet=off", "-count=1"] + extra + ["./" + d], cwd=wt, e=demoenv)
        ran.append(f"unchanged: go test {' '.join(extra)} ./{d} (with demo) -> rc={rc0}")
        os.remove(dst)
        if rc0 != 0:
            continue
        rc, o = sh(["git", "apply", os.path.join(src, "patch.diff")], cwd=wt)
        assert rc == 0, "patch does not apply: " + o
        rcb, ob = sh(["go", "build", "./..."], cwd=wt)
        rct, ot = sh(["go", "test", "-vet=off", "-count=1", "./..."], cwd=wt)
        ran.append(f"patched: go build ./... -> rc={rcb}; go test ./... (existing suite) -> rc={rct}")
        shutil.copy(os.path.join(src, "demo_test.go"), dst)
        rc1, o1 = sh(["go", "test", "-vet=off", "-count=1"] + extra + ["./" + d], cwd=wt, e=demoenv)
        ran.append(f"patched: go test {' '.join(extra)} ./{d} (with demo) -> rc={rc1}")
        os.remove(dst)
        sh(["git", "checkout", "--", "."], cwd=wt)
        if rcb == 0 and rct == 0 and rc1 != 0:
            ok = True
            pkgdir = d
        else:
            print("NOT CONFIRMED:", ran, (ot if rct else "")[-800:])
        break
    if not ok:
        print("NOT CONFIRMED", ran)
        sys.exit(1)
    out = os.path.join("/verif/seeded", sid)
    os.makedirs(out, exist_ok=True)
    shutil.copy(os.path.join(src, "patch.diff"), os.path.join(out, "patch.diff"))
    shutil.copy(os.path.join(src, "demo_test.go"), os.path.join(out, "demo_test.go"))
    readme = open(os.path.join(src, "README.txt")).read()
    json.dump({"id": sid, "breaks_property": prop, "demo_package_dir": pkgdir, "demo_extra_go_test_args": extra, "demo_goarch": os.environ.get("DEMO_GOARCH", ""),
               "needs_to_manifest": readme[:1500], "confirmed_by": ran, "detected_by": []},
              open(os.path.join(out, "meta.json"), "w"), indent=1)
    print("CONFIRMED", sid, ran)
finally:
    sh(["git", "-C", "/repo", "worktree", "remove", "--force", wt])
