#!/bin/sh
# t6_faithfulness.sh — for every stored seeded change: apply it to a scratch worktree of /repo, regenerate the T6 translation, and (when the
# translator accepts the changed source and the result still type-checks against DriverGen) run the property's
# correspondence ops on the CHANGED library and on the CHANGED translation.  A faithful translator follows the source:
# Go and Gen must agree on every op although both now differ from the hand-written model.  Informational (DESIGN §11).
cd /verif || exit 2
export GOFLAGS=-mod=mod GOPROXY=off GOSUMDB=off GOTOOLCHAIN=local
out=${1:-/tmp/t6_faithfulness.txt}; : > "$out"
wt=/tmp/t6wt; hs=/tmp/t6hs
git -C /repo worktree remove --force $wt 2>/dev/null; git -C /repo worktree add -q --detach $wt HEAD || exit 2
rm -rf $hs; cp -r harness $hs; sed -i "s#=> /repo#=> $wt#" $hs/go.mod
for d in seeded/*/; do
  id=$(basename "$d"); prop=$(python3 -c "import json;print(json.load(open('$d/meta.json'))['breaks_property'])")
  git -C $wt apply "/verif/$d/patch.diff" || { echo "$id patch-failed" >> "$out"; continue; }
  if ! msg=$(.build/gen_go $wt lean/I3/Gen 2>&1); then
    echo "$id $prop fail-closed: $(echo "$msg" | head -1 | cut -c1-160)" >> "$out"
  else
    # the other translators too (T1/T2 feed GoExt)
    for t in gen_tables gen_limbs; do .build/$t $wt lean/I3/Gen >/dev/null 2>&1; done
    if ! (cd lean && timeout 900 lake build drivergen >/dev/null 2>&1); then
      echo "$id $prop generated-code-no-longer-fits-DriverGen (signature or callee changed)" >> "$out"
    else
      (cd $hs && cp $wt/go.sum . && go build -tags verif -o /tmp/t6h . 2>/dev/null) || { echo "$id $prop harness-build-failed" >> "$out"; }
      if [ -x /tmp/t6h ]; then
        timeout 600 /tmp/t6h -prop "$prop" -tier quick -seed 1 > /tmp/t6.out 2>/dev/null
        cut -f1 /tmp/t6.out > /tmp/t6.ops; cut -f2 /tmp/t6.out > /tmp/t6.go
        timeout 900 lean/.lake/build/bin/drivergen < /tmp/t6.ops > /tmp/t6.gen 2>/dev/null
        paste /tmp/t6.ops /tmp/t6.go /tmp/t6.gen | awk -F'\t' -v id="$id" -v p="$prop" '$3!="-" && $3!="bad-op"{n++; if($2!=$3 && $2 !~ /!/){m++}} END{print id, p, "translated: compared", n+0, "go!=gen", m+0}' >> "$out"
        rm -f /tmp/t6h
      fi
    fi
  fi
  git -C $wt checkout -- . && git -C $wt clean -fdq
done
git -C /repo worktree remove --force $wt; rm -rf $hs
for t in gen_tables gen_limbs gen_asm gen_pins gen_effects gen_go; do .build/$t /repo lean/I3/Gen >/dev/null 2>&1; done
(cd lean && lake build drivergen >/dev/null 2>&1)
rm -f /tmp/t6.out /tmp/t6.ops /tmp/t6.go /tmp/t6.gen
echo done >> "$out"
