// T5 — source fingerprints.
// For every function of /repo (non-test files, every build variant) emits the SHA-256 of its
// comment-free, gofmt-normalised source text.  The hand-written Lean models were validated against
// exactly these sources; I3.Model.SourcePin holds the expected fingerprints and one Lean theorem per
// property states that the functions its model mirrors still have them.  Any edit of such a function
// breaks that obligation (a harmless rewrite too — then the check reports no-failing-input-found).
package main

import (
	"bytes"
	"crypto/sha256"
	"fmt"
	"go/ast"
	"go/parser"
	"go/printer"
	"go/token"
	"os"
	"path/filepath"
	"sort"
	"strconv"
	"strings"
)

func die(f string, a ...interface{}) {
	fmt.Fprintf(os.Stderr, "gen_pins: "+f+"\n", a...)
	os.Exit(2)
}

func main() {
	if len(os.Args) != 3 {
		die("usage: gen_pins <repo> <outdir>")
	}
	repo, out := os.Args[1], os.Args[2]
	dirs := []string{"babyjub", "constants", "ff", "ffg", "goldenposeidon", "keccak256", "mimc7", "poseidon", "utils"}
	type ent struct{ key, file, hash string }
	var ents []ent
	for _, d := range dirs {
		files, err := filepath.Glob(filepath.Join(repo, d, "*.go"))
		if err != nil || len(files) == 0 {
			die("no Go files in %s", d)
		}
		sort.Strings(files)
		for _, f := range files {
			base := filepath.Base(f)
			if strings.HasSuffix(base, "_test.go") || strings.HasPrefix(base, "verif_hooks") || base == "element_fuzz.go" {
				continue
			}
			fset := token.NewFileSet()
			af, err := parser.ParseFile(fset, f, nil, 0) // no comments
			if err != nil {
				die("parse %s: %v", f, err)
			}
			// all non-function declarations of the file (types, constants, variables and their initialisers),
			// except the big literal tables whose VALUES T1 extracts and the theorems consume
			var dbuf bytes.Buffer
			for _, decl := range af.Decls {
				gd, ok := decl.(*ast.GenDecl)
				if !ok || gd.Tok == token.IMPORT {
					continue
				}
				skip := false
				if base == "constants.go" && (d == "poseidon" || d == "goldenposeidon") {
					for _, sp := range gd.Specs {
						if vs, ok := sp.(*ast.ValueSpec); ok {
							for _, n := range vs.Names {
								switch n.Name {
								case "cs", "c", "s", "p":
									skip = true
								}
							}
						}
					}
				}
				if skip {
					continue
				}
				if err := (&printer.Config{Mode: printer.UseSpaces | printer.TabIndent, Tabwidth: 8}).Fprint(&dbuf, fset, gd); err != nil {
					die("print decls of %s: %v", f, err)
				}
				dbuf.WriteString("\n")
			}
			dsum := sha256.Sum256(dbuf.Bytes())
			ents = append(ents, ent{d + ".<decls>@" + base, base, fmt.Sprintf("%x", dsum[:10])})
			for _, decl := range af.Decls {
				fd, ok := decl.(*ast.FuncDecl)
				if !ok {
					continue
				}
				name := fd.Name.Name
				if fd.Recv != nil && len(fd.Recv.List) > 0 {
					t := fd.Recv.List[0].Type
					if st, ok := t.(*ast.StarExpr); ok {
						t = st.X
					}
					if id, ok := t.(*ast.Ident); ok {
						name = id.Name + "." + name
					}
				}
				var buf bytes.Buffer
				if err := (&printer.Config{Mode: printer.UseSpaces | printer.TabIndent, Tabwidth: 8}).Fprint(&buf, fset, fd); err != nil {
					die("print %s: %v", name, err)
				}
				sum := sha256.Sum256(buf.Bytes())
				ents = append(ents, ent{d + "." + name, base, fmt.Sprintf("%x", sum[:10])})
			}
		}
	}
	// assembly files: comment-free text, per file
	for _, d := range dirs {
		asm, _ := filepath.Glob(filepath.Join(repo, d, "*.s"))
		sort.Strings(asm)
		for _, f := range asm {
			raw, err := os.ReadFile(f)
			if err != nil {
				die("read %s: %v", f, err)
			}
			var nb bytes.Buffer
			for _, l := range strings.Split(string(raw), "\n") {
				if i := strings.Index(l, "//"); i >= 0 {
					l = l[:i]
				}
				l = strings.Join(strings.Fields(l), " ")
				if l != "" {
					nb.WriteString(l + "\n")
				}
			}
			sum := sha256.Sum256(nb.Bytes())
			ents = append(ents, ent{d + ".<asm>@" + filepath.Base(f), filepath.Base(f), fmt.Sprintf("%x", sum[:10])})
		}
	}
	// the module's dependency closure: go.mod and go.sum verbatim (a replaced or re-versioned dependency — sha3,
	// blake512, x/sys/cpu — changes them), and the presence of a vendor directory (which would override them)
	for _, f := range []string{"go.mod", "go.sum"} {
		raw, err := os.ReadFile(filepath.Join(repo, f))
		if err != nil {
			die("read %s: %v", f, err)
		}
		sum := sha256.Sum256(raw)
		ents = append(ents, ent{"module.<deps>@" + f, f, fmt.Sprintf("%x", sum[:10])})
	}
	// the LAYOUT of every package directory and of the module root: which files exist (any kind), and for every file what
	// the function/declaration/assembly fingerprints above do not cover — build constraints, compiler directives, the
	// package clause and the import block of a .go file (an import swapped for a look-alike package changes no function
	// text), `+build` and `#include` lines of a .s file, and the raw content of everything else (a local textflag.h, the
	// verif hook files, element_fuzz.go).  A file added to a package, e.g. one with an init(), changes the layout.
	sha := func(b []byte) string { x := sha256.Sum256(b); return fmt.Sprintf("%x", x[:10]) }
	for _, d := range dirs {
		des, err := os.ReadDir(filepath.Join(repo, d))
		if err != nil {
			die("readdir %s: %v", d, err)
		}
		var lb bytes.Buffer
		for _, de := range des {
			name := de.Name()
			if strings.HasSuffix(name, "_test.go") {
				continue
			}
			full := filepath.Join(repo, d, name)
			switch {
			case de.IsDir():
				fmt.Fprintf(&lb, "dir %s\n", name)
			case strings.HasSuffix(name, ".go") && !(strings.HasPrefix(name, "verif_hooks") || name == "element_fuzz.go"):
				fset := token.NewFileSet()
				af, err := parser.ParseFile(fset, full, nil, parser.ParseComments)
				if err != nil {
					die("parse %s: %v", full, err)
				}
				var hb bytes.Buffer
				for _, cg := range af.Comments {
					for _, c := range cg.List {
						if strings.HasPrefix(c.Text, "//go:") || strings.HasPrefix(c.Text, "// +build") || strings.HasPrefix(c.Text, "//+build") ||
							strings.HasPrefix(c.Text, "//line") || strings.HasPrefix(c.Text, "//export") || strings.HasPrefix(c.Text, "/*line") {
							hb.WriteString(strings.TrimSpace(c.Text) + "\n")
						}
					}
				}
				hb.WriteString("package " + af.Name.Name + "\n")
				for _, im := range af.Imports {
					n := ""
					if im.Name != nil {
						n = im.Name.Name
					}
					hb.WriteString("import " + n + " " + im.Path.Value + "\n")
				}
				fmt.Fprintf(&lb, "go %s %s\n", name, sha(hb.Bytes()))
			case strings.HasSuffix(name, ".s"):
				raw, err := os.ReadFile(full)
				if err != nil {
					die("read %s: %v", full, err)
				}
				var hb bytes.Buffer
				for _, l := range strings.Split(string(raw), "\n") {
					tl := strings.TrimSpace(l)
					if strings.HasPrefix(tl, "// +build") || strings.HasPrefix(tl, "//+build") || strings.HasPrefix(tl, "//go:") || strings.HasPrefix(tl, "#include") {
						hb.WriteString(tl + "\n")
					}
				}
				fmt.Fprintf(&lb, "asm %s %s\n", name, sha(hb.Bytes()))
			default:
				raw, err := os.ReadFile(full)
				if err != nil {
					die("read %s: %v", full, err)
				}
				fmt.Fprintf(&lb, "raw %s %s\n", name, sha(raw))
			}
		}
		ents = append(ents, ent{"tree.<layout>@" + d, d, sha(lb.Bytes())})
	}
	{
		des, err := os.ReadDir(repo)
		if err != nil {
			die("readdir %s: %v", repo, err)
		}
		var lb bytes.Buffer
		for _, de := range des {
			name := de.Name()
			if strings.HasPrefix(name, ".") {
				continue
			}
			switch {
			case de.IsDir():
				// only directories that hold Go or assembly code matter (a new package that an import could be redirected to)
				has := false
				filepath.WalkDir(filepath.Join(repo, name), func(p string, d os.DirEntry, err error) error {
					if err == nil && !d.IsDir() && (strings.HasSuffix(p, ".go") || strings.HasSuffix(p, ".s")) {
						has = true
					}
					return nil
				})
				if has {
					fmt.Fprintf(&lb, "dir %s\n", name)
				}
			case strings.HasPrefix(name, "go.work") || strings.HasSuffix(name, ".go") || strings.HasSuffix(name, ".s") || strings.HasSuffix(name, ".h"):
				raw, _ := os.ReadFile(filepath.Join(repo, name))
				fmt.Fprintf(&lb, "raw %s %s\n", name, sha(raw))
			default:
				// LICENSE, README, go.mod/go.sum (pinned above): irrelevant to the build
			}
		}
		ents = append(ents, ent{"tree.<layout>@root", ".", sha(lb.Bytes())})
	}
	vend := "absent"
	if st, err := os.Stat(filepath.Join(repo, "vendor")); err == nil && st.IsDir() {
		vend = "present"
	}
	vsum := sha256.Sum256([]byte(vend))
	ents = append(ents, ent{"module.<deps>@vendor", "vendor", fmt.Sprintf("%x", vsum[:10])})
	// duplicate keys (init functions, build variants): qualify with the file name
	count := map[string]int{}
	for _, e := range ents {
		count[e.key]++
	}
	seq := map[string]int{}
	for i := range ents {
		if count[ents[i].key] > 1 && !strings.Contains(ents[i].key, "<decls>") && !strings.Contains(ents[i].key, "<deps>") && !strings.Contains(ents[i].key, "<layout>") {
			ents[i].key += "@" + ents[i].file
			seq[ents[i].key]++
			if seq[ents[i].key] > 1 {
				ents[i].key += "#" + strconv.Itoa(seq[ents[i].key])
			}
		}
	}
	sort.Slice(ents, func(i, j int) bool { return ents[i].key < ents[j].key })
	for i := 1; i < len(ents); i++ {
		if ents[i].key == ents[i-1].key {
			die("duplicate function key %s", ents[i].key)
		}
	}
	var sb strings.Builder
	sb.WriteString("-- GENERATED by /verif/tools/gen_pins from /repo — do not edit; regenerated on every check run.\nset_option maxRecDepth 100000\nnamespace I3.Gen\n\ndef fingerprints : List (String × String) := [\n")
	for i, e := range ents {
		fmt.Fprintf(&sb, "  (%s, %s)", strconv.Quote(e.key), strconv.Quote(e.hash))
		if i+1 < len(ents) {
			sb.WriteString(",")
		}
		sb.WriteString("\n")
	}
	sb.WriteString("]\n\nend I3.Gen\n")
	p := filepath.Join(out, "Fingerprints.lean")
	old, err := os.ReadFile(p)
	if err != nil || string(old) != sb.String() {
		if err := os.WriteFile(p, []byte(sb.String()), 0o644); err != nil {
			die("write: %v", err)
		}
	}
}
