// gen_keccak — fail-closed translator of the third-party Keccak code (golang.org/x/crypto/sha3, portable Go:
// keccakf.go `func keccakF1600(a *[25]uint64)`, and — see sponge.go — the sponge of sha3.go/hashes.go) into Lean 4.
//
//	gen_keccak <repo-dir> <gen-dir>
//
// The module directory is located the way the Go build of <repo-dir> locates it
// (`go list -m -f '{{.Dir}}' golang.org/x/crypto`, GOFLAGS=-mod=mod GOPROXY=off); sha3/keccakf.go is parsed with
// go/parser and `<gen-dir>/KeccakF.lean` (namespace I3.Gen.KeccakGo, core Lean only) is written.  A second module,
// `<gen-dir>/KeccakSponge.lean`, holds the translation of the sponge (sponge.go; same exit-code convention:
// 2 = construct outside the subset, nothing is written for that module).
//
// What is translated, and how (keccakf.go)
//
//	//go:build !amd64 || purego || !gc          required verbatim (the portable permutation; recorded in the header)
//	import "math/bits"                          required; `bits.RotateLeft64` is the only use
//	var rc = [24]uint64{ 0x…, … }               def rc : Array UInt64 := #[…]        (24 literals, each < 2^64)
//	func keccakF1600(a *[25]uint64) {
//	  var t, bc0, …, d4 uint64                  the uint64 locals
//	  for i := 0; i < 24; i += 4 { BODY }       `loop` (fuel = number of iterations = 6, the guard `i < 24` is kept)
//	}                                            over `loopBody i`; `keccakF1600 st = loop 6 0 st`
//
// BODY is straight-line code; it is cut at the comments `// Round k` (k = 1..4 in order, required) into the PIECES
// `round1 … round4`, each a Lean definition `(i : Nat) (st : A) : A` over the 25-word structure `A` (fields a0 … a24 =
// `a[0] … a[24]`), every Go statement becoming one Lean `let`.  The translator checks, statement by statement, that a
// piece reads a uint64 local only after having assigned it itself (so the locals carry nothing from one piece to the
// next and re-composing the pieces in `loopBody` preserves the meaning), and that nothing assigns `i`.
//
// Statement subset (anything else: exit code 2):   x = e   with x a declared uint64 local or a[const] (0..24).
// Expression subset: declared locals, a[const] (0..24), rc[i] / rc[i+const] (index checked < 24 for every value
// i takes), `^`, `|`, `&^` on uint64, `<<`/`>>` by a CONSTANT count in 0..63 (so that Lean's `<<<`/`>>>`, which
// reduce the count mod 64, agree with Go), `bits.RotateLeft64(e, const)` with const in 1..63 (emitted as the Lean
// definition `RotateLeft64`, the transcription of math/bits for such counts), parentheses.
package main

import (
	"crypto/sha256"
	"fmt"
	"go/ast"
	"go/parser"
	"go/token"
	"math/big"
	"os"
	"os/exec"
	"path/filepath"
	"regexp"
	"sort"
	"strconv"
	"strings"
)

const modPath = "golang.org/x/crypto"
const buildTag = "//go:build !amd64 || purego || !gc"

var fset = token.NewFileSet()

func die(pos token.Pos, format string, a ...interface{}) {
	where := ""
	if pos.IsValid() {
		where = fset.Position(pos).String() + ": "
	}
	fmt.Fprintf(os.Stderr, "gen_keccak: %sunsupported: %s\n", where, fmt.Sprintf(format, a...))
	os.Exit(2)
}

func fail(a ...interface{}) {
	fmt.Fprintln(os.Stderr, append([]interface{}{"gen_keccak:"}, a...)...)
	os.Exit(2)
}

var two64 = new(big.Int).Lsh(big.NewInt(1), 64)

func parseFile(path string) (*ast.File, []byte) {
	src, err := os.ReadFile(path)
	if err != nil {
		fail(err)
	}
	f, err := parser.ParseFile(fset, path, src, parser.ParseComments)
	if err != nil {
		fail(err)
	}
	return f, src
}

func intLit(x ast.Expr) *big.Int {
	for {
		p, ok := x.(*ast.ParenExpr)
		if !ok {
			break
		}
		x = p.X
	}
	l, ok := x.(*ast.BasicLit)
	if !ok || l.Kind != token.INT {
		die(x.Pos(), "expected an integer literal")
	}
	v, ok := new(big.Int).SetString(l.Value, 0)
	if !ok {
		die(x.Pos(), "integer literal %s", l.Value)
	}
	return v
}

func smallLit(x ast.Expr, lo, hi int, what string) int {
	v := intLit(x)
	if v.Cmp(big.NewInt(int64(lo))) < 0 || v.Cmp(big.NewInt(int64(hi))) > 0 {
		die(x.Pos(), "%s %s outside %d..%d", what, v, lo, hi)
	}
	return int(v.Int64())
}

func isIdent(x ast.Expr, name string) bool {
	id, ok := x.(*ast.Ident)
	return ok && id.Name == name
}

// ---------------------------------------------------------------------------------------------------------------
// keccakf.go

type fenv struct {
	locals  map[string]bool // declared uint64 locals
	defined map[string]bool // locals assigned so far in the current piece
	piece   string
	iVals   []int // the values the loop variable takes
	rcLen   int
	lines   []string
}

func (e *fenv) expr(x ast.Expr) string {
	switch x := x.(type) {
	case *ast.ParenExpr:
		return e.expr(x.X)
	case *ast.Ident:
		if !e.locals[x.Name] {
			die(x.Pos(), "identifier %s", x.Name)
		}
		if !e.defined[x.Name] {
			die(x.Pos(), "piece %s reads the local %s before assigning it", e.piece, x.Name)
		}
		return x.Name
	case *ast.IndexExpr:
		switch {
		case isIdent(x.X, "a"):
			return "a" + strconv.Itoa(smallLit(x.Index, 0, 24, "index of a"))
		case isIdent(x.X, "rc"):
			off := 0
			switch ix := x.Index.(type) {
			case *ast.Ident:
				if ix.Name != "i" {
					die(x.Pos(), "index of rc")
				}
			case *ast.BinaryExpr:
				if ix.Op != token.ADD || !isIdent(ix.X, "i") {
					die(x.Pos(), "index of rc")
				}
				off = smallLit(ix.Y, 0, e.rcLen, "offset in the index of rc")
			default:
				die(x.Pos(), "index of rc")
			}
			for _, iv := range e.iVals {
				if iv+off < 0 || iv+off >= e.rcLen {
					die(x.Pos(), "rc[i+%d] out of range for i = %d", off, iv)
				}
			}
			if off == 0 {
				return "(rc.getD i 0)"
			}
			return fmt.Sprintf("(rc.getD (i + %d) 0)", off)
		}
		die(x.Pos(), "index expression")
	case *ast.CallExpr:
		sel, ok := x.Fun.(*ast.SelectorExpr)
		if !ok || !isIdent(sel.X, "bits") || sel.Sel.Name != "RotateLeft64" || len(x.Args) != 2 || x.Ellipsis.IsValid() {
			die(x.Pos(), "call")
		}
		k := smallLit(x.Args[1], 1, 63, "rotation count")
		return fmt.Sprintf("(RotateLeft64 %s %d)", e.expr(x.Args[0]), k)
	case *ast.BinaryExpr:
		switch x.Op {
		case token.XOR:
			return "(" + e.expr(x.X) + " ^^^ " + e.expr(x.Y) + ")"
		case token.OR:
			return "(" + e.expr(x.X) + " ||| " + e.expr(x.Y) + ")"
		case token.AND_NOT:
			return "(" + e.expr(x.X) + " &&& ~~~" + e.expr(x.Y) + ")"
		case token.SHL, token.SHR:
			c := smallLit(x.Y, 0, 63, "shift count")
			op := "<<<"
			if x.Op == token.SHR {
				op = ">>>"
			}
			return fmt.Sprintf("(%s %s (%d : UInt64))", e.expr(x.X), op, c)
		}
		die(x.Pos(), "binary operator %s", x.Op)
	default:
		die(x.Pos(), "expression %T", x)
	}
	return ""
}

func (e *fenv) stmt(s ast.Stmt) {
	as, ok := s.(*ast.AssignStmt)
	if !ok || as.Tok != token.ASSIGN || len(as.Lhs) != 1 || len(as.Rhs) != 1 {
		die(s.Pos(), "statement (only `x = e` is translated)")
	}
	rhs := e.expr(as.Rhs[0])
	switch l := as.Lhs[0].(type) {
	case *ast.Ident:
		if !e.locals[l.Name] {
			die(l.Pos(), "assignment to %s", l.Name)
		}
		e.defined[l.Name] = true
		e.lines = append(e.lines, fmt.Sprintf("  let %s : UInt64 := %s", l.Name, rhs))
	case *ast.IndexExpr:
		if !isIdent(l.X, "a") {
			die(l.Pos(), "assignment target")
		}
		e.lines = append(e.lines, fmt.Sprintf("  let a%d : UInt64 := %s", smallLit(l.Index, 0, 24, "index of a"), rhs))
	default:
		die(s.Pos(), "assignment target")
	}
}

var roundRe = regexp.MustCompile(`^// Round ([0-9]+)$`)

func aFields(format string, sep string) string {
	var xs []string
	for k := 0; k < 25; k++ {
		xs = append(xs, strings.ReplaceAll(format, "#", strconv.Itoa(k)))
	}
	return strings.Join(xs, sep)
}

func genKeccakF(dir string) (string, string) {
	path := filepath.Join(dir, "sha3", "keccakf.go")
	f, src := parseFile(path)
	sum := fmt.Sprintf("%x", sha256.Sum256(src))
	if f.Name.Name != "sha3" {
		die(f.Pos(), "package name %s", f.Name.Name)
	}
	// build constraint
	tagOK := false
	for _, cg := range f.Comments {
		if cg.End() >= f.Package {
			break
		}
		for _, c := range cg.List {
			if strings.HasPrefix(c.Text, "//go:build") {
				if c.Text != buildTag {
					die(c.Pos(), "build constraint %q (expected %q)", c.Text, buildTag)
				}
				tagOK = true
			}
		}
	}
	if !tagOK {
		die(f.Pos(), "missing build constraint %q", buildTag)
	}

	var rcVals []*big.Int
	var fn *ast.FuncDecl
	importOK := false
	for _, d := range f.Decls {
		switch d := d.(type) {
		case *ast.GenDecl:
			switch d.Tok {
			case token.IMPORT:
				for _, sp := range d.Specs {
					is := sp.(*ast.ImportSpec)
					if is.Name != nil || is.Path.Value != `"math/bits"` {
						die(is.Pos(), "import %s", is.Path.Value)
					}
					importOK = true
				}
			case token.VAR:
				if len(d.Specs) != 1 || rcVals != nil {
					die(d.Pos(), "var declaration")
				}
				vs := d.Specs[0].(*ast.ValueSpec)
				if len(vs.Names) != 1 || vs.Names[0].Name != "rc" || vs.Type != nil || len(vs.Values) != 1 {
					die(d.Pos(), "var declaration (expected `var rc = [24]uint64{…}`)")
				}
				cl, ok := vs.Values[0].(*ast.CompositeLit)
				if !ok {
					die(d.Pos(), "value of rc")
				}
				at, ok := cl.Type.(*ast.ArrayType)
				if !ok || at.Len == nil || !isIdent(at.Elt, "uint64") || smallLit(at.Len, 24, 24, "length of rc") != 24 {
					die(d.Pos(), "type of rc")
				}
				for _, el := range cl.Elts {
					v := intLit(el)
					if v.Sign() < 0 || v.Cmp(two64) >= 0 {
						die(el.Pos(), "constant does not fit uint64")
					}
					rcVals = append(rcVals, v)
				}
				if len(rcVals) != 24 {
					die(d.Pos(), "rc has %d elements", len(rcVals))
				}
			default:
				die(d.Pos(), "top-level %s declaration", d.Tok)
			}
		case *ast.FuncDecl:
			if fn != nil || d.Name.Name != "keccakF1600" || d.Recv != nil {
				die(d.Pos(), "function %s", d.Name.Name)
			}
			fn = d
		}
	}
	if !importOK || rcVals == nil || fn == nil {
		die(f.Pos(), "expected import \"math/bits\", var rc and func keccakF1600")
	}
	// signature: (a *[25]uint64), no results
	{
		t := fn.Type
		if t.TypeParams != nil || t.Results != nil || len(t.Params.List) != 1 || len(t.Params.List[0].Names) != 1 ||
			t.Params.List[0].Names[0].Name != "a" {
			die(fn.Pos(), "signature of keccakF1600")
		}
		st, ok := t.Params.List[0].Type.(*ast.StarExpr)
		if !ok {
			die(fn.Pos(), "signature of keccakF1600")
		}
		at, ok := st.X.(*ast.ArrayType)
		if !ok || at.Len == nil || !isIdent(at.Elt, "uint64") || smallLit(at.Len, 25, 25, "length of a") != 25 {
			die(fn.Pos(), "signature of keccakF1600")
		}
	}
	body := fn.Body.List
	if len(body) != 2 {
		die(fn.Pos(), "body of keccakF1600: expected `var …` and one `for`")
	}
	e := &fenv{locals: map[string]bool{}, rcLen: 24}
	var localNames []string
	{
		ds, ok := body[0].(*ast.DeclStmt)
		if !ok {
			die(body[0].Pos(), "expected `var t, bc0, … uint64`")
		}
		gd := ds.Decl.(*ast.GenDecl)
		if gd.Tok != token.VAR || len(gd.Specs) != 1 {
			die(body[0].Pos(), "expected `var t, bc0, … uint64`")
		}
		vs := gd.Specs[0].(*ast.ValueSpec)
		if !isIdent(vs.Type, "uint64") || len(vs.Values) != 0 {
			die(body[0].Pos(), "expected `var t, bc0, … uint64`")
		}
		for _, n := range vs.Names {
			if n.Name == "a" || n.Name == "i" || n.Name == "rc" || n.Name == "st" || regexp.MustCompile(`^a[0-9]+$`).MatchString(n.Name) || e.locals[n.Name] {
				die(n.Pos(), "local name %s", n.Name)
			}
			e.locals[n.Name] = true
			localNames = append(localNames, n.Name)
		}
	}
	loop, ok := body[1].(*ast.ForStmt)
	if !ok {
		die(body[1].Pos(), "expected `for i := 0; i < 24; i += 4`")
	}
	var start, bound, step int
	{
		in, ok1 := loop.Init.(*ast.AssignStmt)
		co, ok2 := loop.Cond.(*ast.BinaryExpr)
		po, ok3 := loop.Post.(*ast.AssignStmt)
		if !ok1 || !ok2 || !ok3 || in.Tok != token.DEFINE || len(in.Lhs) != 1 || len(in.Rhs) != 1 || !isIdent(in.Lhs[0], "i") ||
			co.Op != token.LSS || !isIdent(co.X, "i") ||
			po.Tok != token.ADD_ASSIGN || len(po.Lhs) != 1 || len(po.Rhs) != 1 || !isIdent(po.Lhs[0], "i") {
			die(loop.Pos(), "loop header (expected `for i := c0; i < c1; i += c2`)")
		}
		start = smallLit(in.Rhs[0], 0, 1000, "loop start")
		bound = smallLit(co.Y, 0, 1000, "loop bound")
		step = smallLit(po.Rhs[0], 1, 1000, "loop step")
	}
	for i := start; i < bound; i += step {
		e.iVals = append(e.iVals, i)
	}
	fuel := len(e.iVals)

	// cuts
	type mark struct {
		pos token.Pos
		k   int
	}
	var marks []mark
	for _, cg := range f.Comments {
		for _, c := range cg.List {
			if c.Pos() < loop.Body.Lbrace || c.Pos() > loop.Body.Rbrace {
				continue
			}
			if mm := roundRe.FindStringSubmatch(strings.TrimSpace(c.Text)); mm != nil {
				k, _ := strconv.Atoi(mm[1])
				marks = append(marks, mark{c.Pos(), k})
			}
		}
	}
	sort.Slice(marks, func(i, j int) bool { return marks[i].pos < marks[j].pos })
	if len(marks) != step {
		die(loop.Pos(), "expected %d `// Round k` comments (one per unrolled round), found %d", step, len(marks))
	}
	for i, mk := range marks {
		if mk.k != i+1 {
			die(mk.pos, "round comments out of order")
		}
	}
	stmts := loop.Body.List
	if len(stmts) == 0 || stmts[0].Pos() < marks[0].pos {
		die(loop.Pos(), "statement before `// Round 1`")
	}

	var b strings.Builder
	fmt.Fprintf(&b, `/-
  GENERATED by tools/gen_keccak from golang.org/x/crypto/sha3/keccakf.go — do not edit.
  Statement-by-statement translation of the portable `+"`func keccakF1600(a *[25]uint64)`"+` over `+"`UInt64`"+` (core Lean only).
  Build constraint of the source file: `+"`%s`"+` (what a GOARCH=386 build executes).
  Pieces of the loop body: round1 … round%d (cut at the `+"`// Round k`"+` comments); composed in `+"`loopBody`"+`, `+"`loop`"+`.
-/
set_option linter.unusedVariables false

namespace I3.Gen.KeccakGo

/-- SHA-256 of the translated source file sha3/keccakf.go. -/
def keccakfSha256 : String := "%s"

/-- `+"`var rc = [24]uint64{…}`"+`: the round constants. -/
def rc : Array UInt64 := #[
`, buildTag, step, sum)
	for k, v := range rcVals {
		sep := ","
		if k == len(rcVals)-1 {
			sep = "]"
		}
		fmt.Fprintf(&b, "  0x%016X%s\n", v, sep)
	}
	b.WriteString(`
/-- ` + "`math/bits.RotateLeft64(x, k)`" + ` for a constant count 0 < k < 64 (checked by the translator):
    ` + "`s := uint(k) & 63; return x<<s | x>>(64-s)`" + `. -/
def RotateLeft64 (x : UInt64) (k : Nat) : UInt64 :=
  (x <<< UInt64.ofNat (k % 64)) ||| (x >>> UInt64.ofNat (64 - k % 64))

/-- the array ` + "`a *[25]uint64`" + `: ` + "`a[k]`" + ` is the field ` + "`ak`" + `. -/
structure A where
`)
	for k := 0; k < 25; k++ {
		fmt.Fprintf(&b, "  a%d : UInt64\n", k)
	}
	b.WriteString("  deriving Repr, DecidableEq\n")

	// pieces
	idx := 0
	for r := 1; r <= step; r++ {
		e.piece = "round" + strconv.Itoa(r)
		e.defined = map[string]bool{}
		e.lines = nil
		end := token.Pos(loop.Body.Rbrace)
		if r < step {
			end = marks[r].pos
		}
		n := 0
		for idx < len(stmts) && stmts[idx].Pos() < end {
			if stmts[idx].End() > end {
				die(stmts[idx].Pos(), "statement spans a round comment")
			}
			e.stmt(stmts[idx])
			idx++
			n++
		}
		if n == 0 {
			die(marks[r-1].pos, "empty round")
		}
		fmt.Fprintf(&b, "\n/-- `// Round %d` (%d statements); `i` is the loop variable. -/\ndef round%d (i : Nat) (st : A) : A :=\n", r, n, r)
		for k := 0; k < 25; k++ {
			fmt.Fprintf(&b, "  let a%d : UInt64 := st.a%d\n", k, k)
		}
		for _, l := range e.lines {
			b.WriteString(l + "\n")
		}
		b.WriteString("  { " + aFields("a# := a#", ", ") + " }\n")
	}
	if idx != len(stmts) {
		die(stmts[idx].Pos(), "statement not placed in a round")
	}
	b.WriteString("\n/-- the body of the loop: the unrolled rounds in source order. -/\ndef loopBody (i : Nat) (st : A) : A :=\n")
	for r := 1; r <= step; r++ {
		fmt.Fprintf(&b, "  let st := round%d i st\n", r)
	}
	b.WriteString("  st\n")
	fmt.Fprintf(&b, `
/-- `+"`for i := %d; i < %d; i += %d { loopBody }`"+`; the fuel is the number of iterations. -/
def loop : Nat → Nat → A → A
  | 0, _, st => st
  | n+1, i, st => if i < %d then loop n (i + %d) (loopBody i st) else st

/-- `+"`func keccakF1600(a *[25]uint64)`"+` (locals: %s). -/
def keccakF1600 (st : A) : A := loop %d %d st

end I3.Gen.KeccakGo
`, start, bound, step, bound, step, strings.Join(localNames, ", "), fuel, start)
	return b.String(), sum
}

func main() {
	if len(os.Args) != 3 {
		fmt.Fprintln(os.Stderr, "usage: gen_keccak <repo-dir> <gen-dir>")
		os.Exit(2)
	}
	repo, gen := os.Args[1], os.Args[2]
	cmd := exec.Command("go", "list", "-m", "-f", "{{.Dir}}", modPath)
	cmd.Dir = repo
	cmd.Env = append(os.Environ(), "GOFLAGS=-mod=mod", "GOPROXY=off")
	cmd.Stderr = os.Stderr
	out, err := cmd.Output()
	if err != nil {
		fail("go list failed:", err)
	}
	dir := strings.TrimSpace(string(out))
	if dir == "" {
		fail("module directory not found")
	}
	kf, sum1 := genKeccakF(dir)
	if err := os.WriteFile(filepath.Join(gen, "KeccakF.lean"), []byte(kf), 0o644); err != nil {
		fail(err)
	}
	fmt.Printf("gen_keccak: %s/sha3/keccakf.go (sha256 %s) -> KeccakF.lean\n", dir, sum1)
	genSponge(dir, gen)
}
