// sponge.go — the second module of gen_keccak: `<gen-dir>/KeccakSponge.lean`, the translation of the sponge of
// golang.org/x/crypto/sha3 that `sha3.NewLegacyKeccak256()`, `Write` and `Sum(nil)` execute:
//
//	hashes.go   const ( dsbyteKeccak, rateK512 ), func NewLegacyKeccak256
//	sha3.go     type state struct, const ( spongeAbsorbing, spongeSqueezing ),
//	            (*state).clone, permute, padAndPermute, Write, Read, Sum
//
// Every other declaration of the two files is listed in the header as not translated.  Fail-closed: a statement or
// expression outside the subset below ends the run with exit code 2 before anything is written.
//
// Data model.  `*state` is the Lean structure `State` (a : the 200 bytes as a list, n, rate, outputLen : Int,
// dsbyte : UInt8, state : Int = the iota constant); a method with receiver `d` takes and returns the structure.
// `[]byte` values are lists.
//
// Statement subset
//
//	if C { panic("…") }                 only as the FIRST statement of a method: emitted as the definition
//	                                    `<method>_panics`; the translation of the rest is the behaviour when it is false
//	v = len(s)   v := e   d.f = e   d.f += e          (Int fields n, state; Int locals; named result n)
//	d.a[e] ^= b                                       goSet d.a e (d.a[e] ^^^ b)
//	s = s[x:]                                         goFrom s x   (for the output window `out` of Read: see below)
//	x := subtle.XORBytes(d.a[l:h], d.a[l:h], p)       dst and x must be the SAME slice expression: goXORBytesAt
//	x := copy(out, d.a[l:h])                          goCopy
//	d.m()                                             d := state_m d            (m ∈ permute, padAndPermute)
//	if C { … }                                        the body may assign the receiver only
//	for len(s) > 0 { … }                              a body definition and a fuel loop (fuel = len(s) on entry; every
//	                                                  iteration that makes progress shortens s; the guard is kept)
//	var a *[25]uint64
//	if cpu.IsBigEndian { X } else { Y }               LITTLE-ENDIAN HOST (386, amd64, …): Y is translated, X is not
//	if cpu.IsBigEndian { X }                          skipped
//	a = (*[25]uint64)(unsafe.Pointer(&d.a))           a := wordsOfBytes d.a  — the 200 bytes read as 25 little-endian
//	                                                  words; `a` ALIASES d.a from here on
//	keccakF1600(a)                                    a := keccakF1600 a (I3.Gen.KeccakF); d.a := bytesOfWords a
//	ret := *d ; return &ret                           clone
//	dup := d.clone() ; hash := make([]byte, dup.outputLen, 64) ; dup.Read(hash) ; return append(in, hash...)
//	return                                            last statement of a method with named results (n int, err error):
//	                                                  (d, n); err is never assigned (nil)
//	return &state{rate: c, outputLen: c, dsbyte: c}   the zero State with these fields
//
// The output buffer of Read: the parameter `out` is a window into the caller's buffer that the loop advances with
// `out = out[x:]`.  The translation keeps the bytes the window has left behind in the companion list `out_`;
// `state_Read` returns `out_ ++ out`, the final contents of the caller's buffer.
//
// Expression subset: Int: literals, Int locals, d.n, d.rate, d.outputLen, len(s), `+`, `-`; UInt8: d.dsbyte, literals
// 0..255; conditions: `==`, `!=`, `>` between Int expressions, or between d.state and spongeAbsorbing/spongeSqueezing.
package main

import (
	"bytes"
	"crypto/sha256"
	"fmt"
	"go/ast"
	"go/printer"
	"go/token"
	"math/big"
	"os"
	"path/filepath"
	"sort"
	"strings"
)

func src(n ast.Node) string {
	var b bytes.Buffer
	if err := printer.Fprint(&b, fset, n); err != nil {
		fail(err)
	}
	return b.String()
}

type senv struct {
	fn      string
	recvs   map[string]bool   // *state variables
	slices  map[string]string // []byte variables: Go name -> Lean name
	ints    map[string]bool   // Int locals
	window  string            // the output window (Go name), "" if none
	alias   string            // the *[25]uint64 variable aliasing <aliasOf>.a
	aliasOf string
	consts  map[string]string // package constants usable as Int / UInt8: name -> Lean term
	pre     []string          // definitions emitted before the function
	loopNo  int
	assigned map[string]bool
}

func (e *senv) mark(v string) { e.assigned[v] = true }

func (e *senv) recvName(x ast.Expr) (string, bool) {
	id, ok := x.(*ast.Ident)
	if ok && e.recvs[id.Name] {
		return id.Name, true
	}
	return "", false
}

func (e *senv) intExpr(x ast.Expr) string {
	switch x := x.(type) {
	case *ast.ParenExpr:
		return e.intExpr(x.X)
	case *ast.BasicLit:
		return fmt.Sprintf("(%s : Int)", intLit(x).String())
	case *ast.Ident:
		if e.ints[x.Name] {
			return x.Name
		}
		die(x.Pos(), "identifier %s as an int", x.Name)
	case *ast.SelectorExpr:
		if r, ok := e.recvName(x.X); ok {
			switch x.Sel.Name {
			case "n", "rate", "outputLen":
				return r + "." + x.Sel.Name
			}
		}
		die(x.Pos(), "selector %s as an int", src(x))
	case *ast.CallExpr:
		if isIdent(x.Fun, "len") && len(x.Args) == 1 {
			if id, ok := x.Args[0].(*ast.Ident); ok {
				if l, ok := e.slices[id.Name]; ok {
					return "(goLen " + l + ")"
				}
			}
		}
		die(x.Pos(), "call %s as an int", src(x))
	case *ast.BinaryExpr:
		switch x.Op {
		case token.ADD:
			return "(" + e.intExpr(x.X) + " + " + e.intExpr(x.Y) + ")"
		case token.SUB:
			return "(" + e.intExpr(x.X) + " - " + e.intExpr(x.Y) + ")"
		}
		die(x.Pos(), "int operator %s", x.Op)
	default:
		die(x.Pos(), "int expression %T", x)
	}
	return ""
}

func (e *senv) byteExpr(x ast.Expr) string {
	switch x := x.(type) {
	case *ast.BasicLit:
		v := intLit(x)
		if v.Sign() < 0 || v.Cmp(big.NewInt(255)) > 0 {
			die(x.Pos(), "byte constant %s", v)
		}
		return fmt.Sprintf("(%s : UInt8)", v)
	case *ast.SelectorExpr:
		if r, ok := e.recvName(x.X); ok && x.Sel.Name == "dsbyte" {
			return r + ".dsbyte"
		}
	}
	die(x.Pos(), "byte expression %s", src(x))
	return ""
}

func (e *senv) isState(x ast.Expr) (string, bool) {
	if s, ok := x.(*ast.SelectorExpr); ok {
		if r, ok := e.recvName(s.X); ok && s.Sel.Name == "state" {
			return r + ".state", true
		}
	}
	return "", false
}

func (e *senv) cond(x ast.Expr) string {
	b, ok := x.(*ast.BinaryExpr)
	if !ok {
		die(x.Pos(), "condition %s", src(x))
	}
	var op string
	switch b.Op {
	case token.EQL:
		op = "="
	case token.NEQ:
		op = "≠"
	case token.GTR:
		op = ">"
	default:
		die(x.Pos(), "comparison %s", b.Op)
	}
	if l, ok := e.isState(b.X); ok {
		id, ok := b.Y.(*ast.Ident)
		if !ok || (id.Name != "spongeAbsorbing" && id.Name != "spongeSqueezing") || b.Op == token.GTR {
			die(x.Pos(), "condition %s", src(x))
		}
		return "(" + l + " " + op + " " + id.Name + ")"
	}
	return "(" + e.intExpr(b.X) + " " + op + " " + e.intExpr(b.Y) + ")"
}

// aSlice recognises `<recv>.a[lo:hi]` and returns recv, lo, hi (Lean Int terms).
func (e *senv) aSlice(x ast.Expr) (string, string, string) {
	sl, ok := x.(*ast.SliceExpr)
	if !ok || sl.Slice3 || sl.Low == nil || sl.High == nil {
		die(x.Pos(), "expected d.a[lo:hi]")
	}
	sel, ok := sl.X.(*ast.SelectorExpr)
	if !ok || sel.Sel.Name != "a" {
		die(x.Pos(), "expected d.a[lo:hi]")
	}
	r, ok := e.recvName(sel.X)
	if !ok {
		die(x.Pos(), "expected d.a[lo:hi]")
	}
	return r, e.intExpr(sl.Low), e.intExpr(sl.High)
}

func isPanic(s ast.Stmt) bool {
	es, ok := s.(*ast.ExprStmt)
	if !ok {
		return false
	}
	c, ok := es.X.(*ast.CallExpr)
	if !ok || !isIdent(c.Fun, "panic") || len(c.Args) != 1 {
		return false
	}
	l, ok := c.Args[0].(*ast.BasicLit)
	return ok && l.Kind == token.STRING
}

func (e *senv) block(list []ast.Stmt, ind string) []string {
	var out []string
	emit := func(format string, a ...interface{}) { out = append(out, ind+fmt.Sprintf(format, a...)) }
	for _, s := range list {
		switch s := s.(type) {
		case *ast.DeclStmt:
			if src(s) != "var a *[25]uint64" || e.alias != "" {
				die(s.Pos(), "declaration %s", src(s))
			}
			e.alias = "a"
		case *ast.ExprStmt:
			c, ok := s.X.(*ast.CallExpr)
			if !ok {
				die(s.Pos(), "expression statement")
			}
			switch f := c.Fun.(type) {
			case *ast.Ident:
				if f.Name == "keccakF1600" && len(c.Args) == 1 && e.alias != "" && e.aliasOf != "" && isIdent(c.Args[0], e.alias) {
					emit("let %s : A := keccakF1600 %s", e.alias, e.alias)
					emit("let %s : State := { %s with a := bytesOfWords %s }", e.aliasOf, e.aliasOf, e.alias)
					e.mark(e.aliasOf)
					continue
				}
			case *ast.SelectorExpr:
				if r, ok := e.recvName(f.X); ok && len(c.Args) == 0 && (f.Sel.Name == "permute" || f.Sel.Name == "padAndPermute") {
					emit("let %s : State := state_%s %s", r, f.Sel.Name, r)
					e.mark(r)
					continue
				}
				// dup.Read(hash)
				if r, ok := e.recvName(f.X); ok && f.Sel.Name == "Read" && len(c.Args) == 1 {
					if id, ok := c.Args[0].(*ast.Ident); ok {
						if l, ok := e.slices[id.Name]; ok {
							emit("let r_ : State × List UInt8 × Int := state_Read %s %s", r, l)
							emit("let %s : State := r_.1", r)
							emit("let %s : List UInt8 := r_.2.1", l)
							e.mark(r)
							e.mark(l)
							continue
						}
					}
				}
			}
			die(s.Pos(), "call statement %s", src(s))
		case *ast.IfStmt:
			if s.Init != nil {
				die(s.Pos(), "if with init")
			}
			if src(s.Cond) == "cpu.IsBigEndian" {
				if s.Else == nil {
					emit("-- `if cpu.IsBigEndian { … }`: little-endian host, skipped")
					continue
				}
				eb, ok := s.Else.(*ast.BlockStmt)
				if !ok {
					die(s.Pos(), "else branch")
				}
				emit("-- `if cpu.IsBigEndian { … } else { … }`: little-endian host, the else branch")
				out = append(out, e.block(eb.List, ind)...)
				continue
			}
			if s.Else != nil {
				die(s.Pos(), "if/else")
			}
			c := e.cond(s.Cond)
			saved := e.assigned
			e.assigned = map[string]bool{}
			body := e.block(s.Body.List, ind+"  ")
			inner := e.assigned
			e.assigned = saved
			if len(inner) != 1 {
				die(s.Pos(), "the body of this if must assign exactly the receiver")
			}
			var v string
			for k := range inner {
				v = k
			}
			if !e.recvs[v] {
				die(s.Pos(), "the body of this if must assign exactly the receiver")
			}
			emit("let %s : State := if %s then (", v, c)
			out = append(out, body...)
			emit("  %s) else (", v)
			emit("  %s)", v)
			e.mark(v)
		case *ast.ForStmt:
			if s.Init != nil || s.Post != nil {
				die(s.Pos(), "for statement")
			}
			cb, ok := s.Cond.(*ast.BinaryExpr)
			if !ok || cb.Op != token.GTR || src(cb.Y) != "0" {
				die(s.Pos(), "loop condition (expected len(s) > 0)")
			}
			call, ok := cb.X.(*ast.CallExpr)
			if !ok || !isIdent(call.Fun, "len") || len(call.Args) != 1 {
				die(s.Pos(), "loop condition (expected len(s) > 0)")
			}
			sid, ok := call.Args[0].(*ast.Ident)
			if !ok || e.slices[sid.Name] == "" {
				die(s.Pos(), "loop condition (expected len(s) > 0)")
			}
			sv := e.slices[sid.Name]
			e.loopNo++
			name := fmt.Sprintf("state_%s_for%d", e.fn, e.loopNo)
			saved := e.assigned
			savedInts := e.ints
			e.ints = map[string]bool{}
			for k := range savedInts {
				e.ints[k] = true
			}
			e.assigned = map[string]bool{}
			body := e.block(s.Body.List, "  ")
			inner := e.assigned
			e.assigned = saved
			e.ints = savedInts
			// loop state: the receiver, then (the companion of the window,) the slice
			var vars, types []string
			var r string
			for k := range e.recvs {
				if inner[k] {
					if r != "" {
						die(s.Pos(), "loop assigns two receivers")
					}
					r = k
				}
			}
			if r == "" || !inner[sv] {
				die(s.Pos(), "the loop must assign the receiver and advance %s", sid.Name)
			}
			vars, types = append(vars, r), append(types, "State")
			if e.window == sid.Name {
				vars, types = append(vars, sv+"_"), append(types, "List UInt8")
			}
			vars, types = append(vars, sv), append(types, "List UInt8")
			for k := range inner {
				found := false
				for _, v := range vars {
					if v == k {
						found = true
					}
				}
				if !found {
					die(s.Pos(), "loop assigns %s", k)
				}
			}
			var params, projs []string
			for i, v := range vars {
				params = append(params, fmt.Sprintf("(%s : %s)", v, types[i]))
				p := "r_" + strings.Repeat(".2", i)
				if i < len(vars)-1 {
					p += ".1"
				}
				projs = append(projs, p)
			}
			rt := strings.Join(types, " × ")
			tuple := "(" + strings.Join(vars, ", ") + ")"
			var d strings.Builder
			fmt.Fprintf(&d, "/-- body of `for %s` (loop no. %d of `%s`); result: %s. -/\n", src(s.Cond), e.loopNo, e.fn, tuple)
			fmt.Fprintf(&d, "def %s_body %s : %s :=\n", name, strings.Join(params, " "), rt)
			for _, l := range body {
				d.WriteString(l + "\n")
			}
			fmt.Fprintf(&d, "  %s\n\n", tuple)
			fmt.Fprintf(&d, "/-- `for %s { … }`; the first argument is the fuel. -/\n", src(s.Cond))
			fmt.Fprintf(&d, "def %s : Nat → %s → %s\n", name, strings.Join(types, " → "), rt)
			fmt.Fprintf(&d, "  | 0, %s => %s\n", strings.Join(vars, ", "), tuple)
			fmt.Fprintf(&d, "  | k_+1, %s =>\n    if ((goLen %s) > (0 : Int)) then (\n", strings.Join(vars, ", "), sv)
			fmt.Fprintf(&d, "      let r_ : %s := %s_body %s\n      %s k_ %s) else (\n      %s)\n", rt, name, strings.Join(vars, " "), name, strings.Join(projs, " "), tuple)
			e.pre = append(e.pre, d.String())
			emit("let r_ : %s := %s (%s).length %s", rt, name, sv, strings.Join(vars, " "))
			for i, v := range vars {
				emit("let %s : %s := %s", v, types[i], projs[i])
				e.mark(v)
			}
		case *ast.AssignStmt:
			if len(s.Lhs) != 1 || len(s.Rhs) != 1 {
				die(s.Pos(), "assignment")
			}
			lhs, rhs := s.Lhs[0], s.Rhs[0]
			// pointer cast
			if e.alias != "" && isIdent(lhs, e.alias) && s.Tok == token.ASSIGN {
				for r := range e.recvs {
					if src(rhs) == "(*[25]uint64)(unsafe.Pointer(&"+r+".a))" {
						if e.aliasOf != "" {
							die(s.Pos(), "second cast")
						}
						e.aliasOf = r
						emit("let %s : A := wordsOfBytes %s.a", e.alias, r)
					}
				}
				if e.aliasOf == "" {
					die(s.Pos(), "assignment to %s", e.alias)
				}
				continue
			}
			// x := subtle.XORBytes(...) / x := copy(...) / dup := d.clone() / hash := make(...) / ret := *d
			if s.Tok == token.DEFINE {
				id, ok := lhs.(*ast.Ident)
				if !ok || e.ints[id.Name] || e.recvs[id.Name] || e.slices[id.Name] != "" {
					die(s.Pos(), "definition")
				}
				if st, ok := rhs.(*ast.StarExpr); ok {
					if r, ok := e.recvName(st.X); ok {
						emit("let %s : State := %s", id.Name, r)
						e.recvs[id.Name] = true
						continue
					}
				}
				c, ok := rhs.(*ast.CallExpr)
				if !ok {
					die(s.Pos(), "definition %s", src(s))
				}
				switch {
				case src(c.Fun) == "subtle.XORBytes" && len(c.Args) == 3:
					if src(c.Args[0]) != src(c.Args[1]) {
						die(s.Pos(), "XORBytes: dst and x must be the same slice")
					}
					r, lo, hi := e.aSlice(c.Args[0])
					pid, ok := c.Args[2].(*ast.Ident)
					if !ok || e.slices[pid.Name] == "" {
						die(s.Pos(), "XORBytes: third argument")
					}
					emit("let c_ : List UInt8 × Int := goXORBytesAt %s.a (%s).toNat (%s).toNat %s", r, lo, hi, e.slices[pid.Name])
					emit("let %s : State := { %s with a := c_.1 }", r, r)
					emit("let %s : Int := c_.2", id.Name)
					e.mark(r)
					e.ints[id.Name] = true
				case isIdent(c.Fun, "copy") && len(c.Args) == 2:
					did, ok := c.Args[0].(*ast.Ident)
					if !ok || e.slices[did.Name] == "" {
						die(s.Pos(), "copy: destination")
					}
					r, lo, hi := e.aSlice(c.Args[1])
					dl := e.slices[did.Name]
					emit("let c_ : List UInt8 × Int := goCopy %s (goSlice %s.a (%s).toNat (%s).toNat)", dl, r, lo, hi)
					emit("let %s : List UInt8 := c_.1", dl)
					emit("let %s : Int := c_.2", id.Name)
					e.mark(dl)
					e.ints[id.Name] = true
				case isIdent(c.Fun, "make") && len(c.Args) == 3 && src(c.Args[0]) == "[]byte":
					capv := intLit(c.Args[2])
					_ = capv // the capacity does not affect the contents
					emit("let %s : List UInt8 := goMake (%s).toNat", id.Name, e.intExpr(c.Args[1]))
					e.slices[id.Name] = id.Name
				default:
					sel, ok := c.Fun.(*ast.SelectorExpr)
					if ok && sel.Sel.Name == "clone" && len(c.Args) == 0 {
						if r, ok := e.recvName(sel.X); ok {
							emit("let %s : State := state_clone %s", id.Name, r)
							e.recvs[id.Name] = true
							continue
						}
					}
					die(s.Pos(), "definition %s", src(s))
				}
				continue
			}
			switch l := lhs.(type) {
			case *ast.Ident:
				// n = len(p) ; p = p[x:]
				if e.ints[l.Name] && s.Tok == token.ASSIGN {
					emit("let %s : Int := %s", l.Name, e.intExpr(rhs))
					continue
				}
				if lv := e.slices[l.Name]; lv != "" && s.Tok == token.ASSIGN {
					sl, ok := rhs.(*ast.SliceExpr)
					if !ok || sl.Slice3 || sl.High != nil || sl.Low == nil || !isIdent(sl.X, l.Name) {
						die(s.Pos(), "assignment %s", src(s))
					}
					lo := e.intExpr(sl.Low)
					if e.window == l.Name {
						emit("let %s_ : List UInt8 := %s_ ++ goTo %s (%s).toNat", lv, lv, lv, lo)
						e.mark(lv + "_")
					}
					emit("let %s : List UInt8 := goFrom %s (%s).toNat", lv, lv, lo)
					e.mark(lv)
					continue
				}
				die(s.Pos(), "assignment %s", src(s))
			case *ast.SelectorExpr:
				r, ok := e.recvName(l.X)
				if !ok {
					die(s.Pos(), "assignment %s", src(s))
				}
				switch {
				case l.Sel.Name == "n" && s.Tok == token.ASSIGN:
					emit("let %s : State := { %s with n := %s }", r, r, e.intExpr(rhs))
				case l.Sel.Name == "n" && s.Tok == token.ADD_ASSIGN:
					emit("let %s : State := { %s with n := (%s.n + %s) }", r, r, r, e.intExpr(rhs))
				case l.Sel.Name == "state" && s.Tok == token.ASSIGN && (isIdent(rhs, "spongeAbsorbing") || isIdent(rhs, "spongeSqueezing")):
					emit("let %s : State := { %s with state := %s }", r, r, src(rhs))
				default:
					die(s.Pos(), "assignment %s", src(s))
				}
				e.mark(r)
			case *ast.IndexExpr:
				sel, ok := l.X.(*ast.SelectorExpr)
				if !ok || sel.Sel.Name != "a" || s.Tok != token.XOR_ASSIGN {
					die(s.Pos(), "assignment %s", src(s))
				}
				r, ok := e.recvName(sel.X)
				if !ok {
					die(s.Pos(), "assignment %s", src(s))
				}
				ix := e.intExpr(l.Index)
				emit("let %s : State := { %s with a := goSet %s.a (%s).toNat ((%s.a.getD (%s).toNat 0) ^^^ %s) }", r, r, r, ix, r, ix, e.byteExpr(rhs))
				e.mark(r)
			default:
				die(s.Pos(), "assignment %s", src(s))
			}
		default:
			die(s.Pos(), "statement %T", s)
		}
	}
	return out
}

func recvOf(fd *ast.FuncDecl) string {
	if fd.Recv == nil || len(fd.Recv.List) != 1 || len(fd.Recv.List[0].Names) != 1 || src(fd.Recv.List[0].Type) != "*state" {
		die(fd.Pos(), "receiver of %s", fd.Name.Name)
	}
	return fd.Recv.List[0].Names[0].Name
}

func newSenv(fn string) *senv {
	return &senv{fn: fn, recvs: map[string]bool{}, slices: map[string]string{}, ints: map[string]bool{}, assigned: map[string]bool{}}
}

// method translates one method of *state.  kind: "unit" (no params, no results), "write", "read", "sum", "clone".
func method(fd *ast.FuncDecl, kind string) string {
	e := newSenv(fd.Name.Name)
	r := recvOf(fd)
	e.recvs[r] = true
	sig := src(fd.Type)
	body := fd.Body.List
	var b strings.Builder
	name := "state_" + fd.Name.Name
	panics := ""
	takePanic := func() {
		ifs, ok := body[0].(*ast.IfStmt)
		if !ok || ifs.Init != nil || ifs.Else != nil || len(ifs.Body.List) != 1 || !isPanic(ifs.Body.List[0]) {
			die(body[0].Pos(), "expected `if … { panic(\"…\") }`")
		}
		panics = fmt.Sprintf("/-- `%s`: the guard `if %s { %s }`. -/\ndef %s_panics (%s : State) : Bool := decide %s\n\n",
			fd.Name.Name, src(ifs.Cond), src(ifs.Body.List[0]), name, r, e.cond(ifs.Cond))
		body = body[1:]
	}
	doc := fmt.Sprintf("`func (%s *state) %s%s`", r, fd.Name.Name, strings.TrimPrefix(sig, "func"))
	switch kind {
	case "unit":
		if sig != "func()" {
			die(fd.Pos(), "signature of %s", fd.Name.Name)
		}
		lines := e.block(body, "  ")
		fmt.Fprintf(&b, "/-- %s. -/\ndef %s (%s : State) : State :=\n%s\n  %s\n", doc, name, r, strings.Join(lines, "\n"), r)
	case "clone":
		if sig != "func() *state" || len(body) != 2 {
			die(fd.Pos(), "signature/body of clone")
		}
		ret, ok := body[1].(*ast.ReturnStmt)
		if !ok || len(ret.Results) != 1 {
			die(fd.Pos(), "body of clone")
		}
		lines := e.block(body[:1], "  ")
		u, ok := ret.Results[0].(*ast.UnaryExpr)
		if !ok || u.Op != token.AND {
			die(ret.Pos(), "return of clone")
		}
		rv, ok := e.recvName(u.X)
		if !ok || rv == r {
			die(ret.Pos(), "return of clone")
		}
		fmt.Fprintf(&b, "/-- %s: a copy of `*%s`. -/\ndef %s (%s : State) : State :=\n%s\n  %s\n", doc, r, name, r, strings.Join(lines, "\n"), rv)
	case "write", "read":
		want := map[string]string{"write": "func(p []byte) (n int, err error)", "read": "func(out []byte) (n int, err error)"}[kind]
		if sig != want {
			die(fd.Pos(), "signature of %s", fd.Name.Name)
		}
		pn := map[string]string{"write": "p", "read": "out"}[kind]
		e.slices[pn] = pn
		e.ints["n"] = true
		if kind == "write" {
			takePanic()
		} else {
			e.window = pn
		}
		last, ok := body[len(body)-1].(*ast.ReturnStmt)
		if !ok || len(last.Results) != 0 {
			die(fd.Pos(), "%s must end with a bare return", fd.Name.Name)
		}
		var lines []string
		lines = append(lines, "  let n : Int := 0")
		if kind == "read" {
			// the window must not be touched before the loop; the companion starts empty
			lines = append(lines, "  let out_ : List UInt8 := []")
		}
		lines = append(lines, e.block(body[:len(body)-1], "  ")...)
		for _, p := range e.pre {
			b.WriteString(p + "\n")
		}
		b.WriteString(panics)
		if kind == "write" {
			fmt.Fprintf(&b, "/-- %s: the new `*%s` and `n`; `err` is never assigned (nil). -/\ndef %s (%s : State) (p : List UInt8) : State × Int :=\n%s\n  (%s, n)\n",
				doc, r, name, r, strings.Join(lines, "\n"), r)
		} else {
			fmt.Fprintf(&b, "/-- %s: the new `*%s`, the final contents of the caller's buffer, and `n`; `err` is never assigned (nil). -/\ndef %s (%s : State) (out : List UInt8) : State × List UInt8 × Int :=\n%s\n  (%s, out_ ++ out, n)\n",
				doc, r, name, r, strings.Join(lines, "\n"), r)
		}
	case "sum":
		if sig != "func(in []byte) []byte" {
			die(fd.Pos(), "signature of Sum")
		}
		e.slices["in"] = "in_"
		takePanic()
		last, ok := body[len(body)-1].(*ast.ReturnStmt)
		if !ok || len(last.Results) != 1 {
			die(fd.Pos(), "return of Sum")
		}
		lines := e.block(body[:len(body)-1], "  ")
		c, ok := last.Results[0].(*ast.CallExpr)
		if !ok || !isIdent(c.Fun, "append") || len(c.Args) != 2 || !c.Ellipsis.IsValid() {
			die(last.Pos(), "return of Sum")
		}
		a0, ok0 := c.Args[0].(*ast.Ident)
		a1, ok1 := c.Args[1].(*ast.Ident)
		if !ok0 || !ok1 || e.slices[a0.Name] == "" || e.slices[a1.Name] == "" {
			die(last.Pos(), "return of Sum")
		}
		if e.assigned[r] {
			die(fd.Pos(), "Sum writes its receiver")
		}
		b.WriteString(panics)
		fmt.Fprintf(&b, "/-- %s (`*%s` is not written). -/\ndef %s (%s : State) (in_ : List UInt8) : List UInt8 :=\n%s\n  (%s ++ %s)\n",
			doc, r, name, r, strings.Join(lines, "\n"), e.slices[a0.Name], e.slices[a1.Name])
	}
	return b.String()
}

// constInt evaluates the constant expressions of hashes.go: literals, ( ), + - / on non-negative integers.
func constVal(x ast.Expr) *big.Int {
	switch x := x.(type) {
	case *ast.ParenExpr:
		return constVal(x.X)
	case *ast.BasicLit:
		return intLit(x)
	case *ast.BinaryExpr:
		a, b := constVal(x.X), constVal(x.Y)
		switch x.Op {
		case token.ADD:
			return new(big.Int).Add(a, b)
		case token.SUB:
			return new(big.Int).Sub(a, b)
		case token.QUO:
			if b.Sign() <= 0 || a.Sign() < 0 {
				die(x.Pos(), "constant division")
			}
			return new(big.Int).Quo(a, b)
		}
	}
	die(x.Pos(), "constant expression %s", src(x))
	return nil
}

func genSponge(dir, gen string) {
	f1, src1 := parseFile(filepath.Join(dir, "sha3", "sha3.go"))
	f2, src2 := parseFile(filepath.Join(dir, "sha3", "hashes.go"))
	if f1.Name.Name != "sha3" || f2.Name.Name != "sha3" {
		fail("package name")
	}
	var skipped []string
	methods := map[string]*ast.FuncDecl{}
	wantM := map[string]string{"clone": "clone", "permute": "unit", "padAndPermute": "unit", "Write": "write", "Read": "read", "Sum": "sum"}
	stateOK, dirOK := false, false
	for _, d := range f1.Decls {
		switch d := d.(type) {
		case *ast.FuncDecl:
			if _, ok := wantM[d.Name.Name]; ok && d.Recv != nil {
				if methods[d.Name.Name] != nil {
					die(d.Pos(), "duplicate method")
				}
				methods[d.Name.Name] = d
			} else {
				skipped = append(skipped, d.Name.Name)
			}
		case *ast.GenDecl:
			switch d.Tok {
			case token.IMPORT:
			case token.TYPE:
				for _, sp := range d.Specs {
					ts := sp.(*ast.TypeSpec)
					switch ts.Name.Name {
					case "spongeDirection":
						if src(ts.Type) != "int" {
							die(ts.Pos(), "type spongeDirection")
						}
					case "state":
						st, ok := ts.Type.(*ast.StructType)
						if !ok {
							die(ts.Pos(), "type state")
						}
						var fs []string
						for _, fl := range st.Fields.List {
							for _, n := range fl.Names {
								fs = append(fs, n.Name+" "+src(fl.Type))
							}
						}
						if strings.Join(fs, "; ") != "a [1600 / 8]byte; n int; rate int; dsbyte byte; outputLen int; state spongeDirection" {
							die(ts.Pos(), "fields of state: %s", strings.Join(fs, "; "))
						}
						stateOK = true
					default:
						die(ts.Pos(), "type %s", ts.Name.Name)
					}
				}
			case token.CONST:
				if len(d.Specs) > 0 && d.Specs[0].(*ast.ValueSpec).Names[0].Name == "spongeAbsorbing" {
					if len(d.Specs) != 2 {
						die(d.Pos(), "spongeDirection constants")
					}
					s0, s1 := d.Specs[0].(*ast.ValueSpec), d.Specs[1].(*ast.ValueSpec)
					if len(s0.Names) != 1 || len(s0.Values) != 1 || src(s0.Type) != "spongeDirection" || src(s0.Values[0]) != "iota" ||
						len(s1.Names) != 1 || s1.Names[0].Name != "spongeSqueezing" || len(s1.Values) != 0 || s1.Type != nil {
						die(d.Pos(), "spongeDirection constants")
					}
					dirOK = true
				} else {
					for _, sp := range d.Specs {
						for _, n := range sp.(*ast.ValueSpec).Names {
							skipped = append(skipped, n.Name)
						}
					}
				}
			default:
				die(d.Pos(), "top-level %s declaration", d.Tok)
			}
		}
	}
	if !stateOK || !dirOK {
		fail("sha3.go: type state / spongeDirection constants not found")
	}
	for m := range wantM {
		if methods[m] == nil {
			fail("sha3.go: method", m, "not found")
		}
	}
	// hashes.go
	consts := map[string]*big.Int{}
	var newFn *ast.FuncDecl
	for _, d := range f2.Decls {
		switch d := d.(type) {
		case *ast.FuncDecl:
			if d.Name.Name == "NewLegacyKeccak256" && d.Recv == nil {
				newFn = d
			} else {
				skipped = append(skipped, d.Name.Name)
			}
		case *ast.GenDecl:
			if d.Tok == token.CONST {
				for _, sp := range d.Specs {
					vs := sp.(*ast.ValueSpec)
					if len(vs.Names) != 1 || len(vs.Values) != 1 || vs.Type != nil {
						die(vs.Pos(), "constant declaration")
					}
					if vs.Names[0].Name == "dsbyteKeccak" || vs.Names[0].Name == "rateK512" {
						consts[vs.Names[0].Name] = constVal(vs.Values[0])
					} else {
						skipped = append(skipped, vs.Names[0].Name)
					}
				}
			} else if d.Tok != token.IMPORT {
				die(d.Pos(), "top-level %s declaration", d.Tok)
			}
		}
	}
	if newFn == nil || consts["dsbyteKeccak"] == nil || consts["rateK512"] == nil {
		fail("hashes.go: NewLegacyKeccak256 / dsbyteKeccak / rateK512 not found")
	}
	if consts["dsbyteKeccak"].Cmp(big.NewInt(255)) > 0 || consts["rateK512"].Cmp(big.NewInt(200)) > 0 {
		fail("hashes.go: constant out of range")
	}
	// NewLegacyKeccak256: return &state{rate: rateK512, outputLen: 32, dsbyte: dsbyteKeccak}
	var newDef string
	{
		if src(newFn.Type) != "func() hash.Hash" || len(newFn.Body.List) != 1 {
			die(newFn.Pos(), "NewLegacyKeccak256")
		}
		ret, ok := newFn.Body.List[0].(*ast.ReturnStmt)
		if !ok || len(ret.Results) != 1 {
			die(newFn.Pos(), "NewLegacyKeccak256")
		}
		u, ok := ret.Results[0].(*ast.UnaryExpr)
		if !ok || u.Op != token.AND {
			die(newFn.Pos(), "NewLegacyKeccak256")
		}
		cl, ok := u.X.(*ast.CompositeLit)
		if !ok || !isIdent(cl.Type, "state") {
			die(newFn.Pos(), "NewLegacyKeccak256")
		}
		var sets []string
		seen := map[string]bool{}
		for _, el := range cl.Elts {
			kv, ok := el.(*ast.KeyValueExpr)
			if !ok {
				die(el.Pos(), "composite literal element")
			}
			k := src(kv.Key)
			if seen[k] {
				die(el.Pos(), "duplicate field")
			}
			seen[k] = true
			switch k {
			case "rate":
				if !isIdent(kv.Value, "rateK512") {
					die(el.Pos(), "rate")
				}
				sets = append(sets, "rate := rateK512")
			case "outputLen":
				sets = append(sets, fmt.Sprintf("outputLen := (%s : Int)", intLit(kv.Value)))
			case "dsbyte":
				if !isIdent(kv.Value, "dsbyteKeccak") {
					die(el.Pos(), "dsbyte")
				}
				sets = append(sets, "dsbyte := dsbyteKeccak")
			default:
				die(el.Pos(), "field %s", k)
			}
		}
		newDef = "/-- `func NewLegacyKeccak256() hash.Hash`: the `*state` behind the interface value. -/\ndef NewLegacyKeccak256 : State :=\n  { State.zero with " + strings.Join(sets, ", ") + " }\n"
	}

	var b strings.Builder
	sort.Strings(skipped)
	fmt.Fprintf(&b, `/-
  GENERATED by tools/gen_keccak from golang.org/x/crypto/sha3/{sha3.go,hashes.go} — do not edit.
  Statement-by-statement translation of `+"`NewLegacyKeccak256`, `(*state).clone`, `permute`, `padAndPermute`, `Write`, `Read`, `Sum`"+`
  (core Lean only); `+"`keccakF1600`"+` is the translation of keccakf.go in I3.Gen.KeccakF.  Rules: see tools/gen_keccak/sponge.go.
  LITTLE-ENDIAN HOST: of `+"`if cpu.IsBigEndian`"+` the false branch is translated (GOARCH=386, amd64).
  Not translated: %s.
-/
import I3.Gen.KeccakF
set_option linter.unusedVariables false

namespace I3.Gen.KeccakGo

/-- SHA-256 of the translated source file sha3/sha3.go. -/
def sha3Sha256 : String := "%x"
/-- SHA-256 of the translated source file sha3/hashes.go. -/
def hashesSha256 : String := "%x"

/-! ### the translation rules for slices, as definitions (Go panics where these are total) -/

/-- `+"`len(b)`"+`. -/
def goLen (b : List UInt8) : Int := (b.length : Int)
/-- `+"`b[lo:]`"+`. -/
def goFrom (b : List UInt8) (lo : Nat) : List UInt8 := b.drop lo
/-- `+"`b[:hi]`"+`. -/
def goTo (b : List UInt8) (hi : Nat) : List UInt8 := b.take hi
/-- `+"`b[lo:hi]`"+`. -/
def goSlice (b : List UInt8) (lo hi : Nat) : List UInt8 := (b.take hi).drop lo
/-- `+"`b[i] = v`"+`. -/
def goSet (b : List UInt8) (i : Nat) (v : UInt8) : List UInt8 := b.set i v
/-- `+"`make([]byte, n, cap)`"+`. -/
def goMake (n : Nat) : List UInt8 := List.replicate n 0
/-- `+"`copy(dst, src)`"+`: the new contents of `+"`dst`"+` and the number of bytes copied, `+"`min(len(dst), len(src))`"+`. -/
def goCopy (dst src : List UInt8) : List UInt8 × Int :=
  let n : Nat := min dst.length src.length
  (src.take n ++ dst.drop n, (n : Int))
/-- `+"`subtle.XORBytes(a[lo:hi], a[lo:hi], y)`"+` (dst = x): `+"`n = min(hi-lo, len(y))`; `a[lo+i] ^= y[i]`"+` for i < n;
    the new contents of `+"`a`"+` and n. -/
def goXORBytesAt (a : List UInt8) (lo hi : Nat) (y : List UInt8) : List UInt8 × Int :=
  let n : Nat := min (hi - lo) y.length
  (a.take lo ++ List.zipWith (· ^^^ ·) ((a.drop lo).take n) (y.take n) ++ a.drop (lo + n), (n : Int))

/-! ### `+"`(*[25]uint64)(unsafe.Pointer(&d.a))`"+` on a little-endian host: word k = bytes 8k … 8k+7, least significant first -/

def leWord (b : List UInt8) (k : Nat) : UInt64 :=
  (b.getD (8*k) 0).toUInt64 ||| ((b.getD (8*k+1) 0).toUInt64 <<< 8) ||| ((b.getD (8*k+2) 0).toUInt64 <<< 16) |||
  ((b.getD (8*k+3) 0).toUInt64 <<< 24) ||| ((b.getD (8*k+4) 0).toUInt64 <<< 32) ||| ((b.getD (8*k+5) 0).toUInt64 <<< 40) |||
  ((b.getD (8*k+6) 0).toUInt64 <<< 48) ||| ((b.getD (8*k+7) 0).toUInt64 <<< 56)
def leBytes (w : UInt64) : List UInt8 :=
  [w.toUInt8, (w >>> 8).toUInt8, (w >>> 16).toUInt8, (w >>> 24).toUInt8,
   (w >>> 32).toUInt8, (w >>> 40).toUInt8, (w >>> 48).toUInt8, (w >>> 56).toUInt8]
/-- the 200 bytes read through the `+"`*[25]uint64`"+`. -/
def wordsOfBytes (b : List UInt8) : A :=
  { %s }
/-- the 200 bytes after the 25 words have been written through the `+"`*[25]uint64`"+`. -/
def bytesOfWords (s : A) : List UInt8 :=
  %s

/-- `+"`type state struct`"+` (`+"`a [1600/8]byte`"+` as a list; `+"`state spongeDirection`"+` as its integer value). -/
structure State where
  a : List UInt8
  n : Int
  rate : Int
  dsbyte : UInt8
  outputLen : Int
  state : Int
  deriving Repr, DecidableEq

/-- the zero value of `+"`state`"+`. -/
def State.zero : State :=
  { a := List.replicate 200 0, n := 0, rate := 0, dsbyte := 0, outputLen := 0, state := 0 }

/-- `+"`spongeAbsorbing spongeDirection = iota`"+`. -/
def spongeAbsorbing : Int := 0
/-- `+"`spongeSqueezing`"+` (iota = 1). -/
def spongeSqueezing : Int := 1
/-- `+"`dsbyteKeccak`"+` (hashes.go). -/
def dsbyteKeccak : UInt8 := %s
/-- `+"`rateK512 = (1600 - 512) / 8`"+` (hashes.go). -/
def rateK512 : Int := %s

`, strings.Join(skipped, ", "), sha256.Sum256(src1), sha256.Sum256(src2),
		aFields("a# := leWord b #", ", "), aFields("leBytes s.a#", " ++ "),
		consts["dsbyteKeccak"], consts["rateK512"])
	b.WriteString(newDef + "\n")
	for _, m := range []string{"clone", "permute", "padAndPermute", "Write", "Read", "Sum"} {
		b.WriteString(method(methods[m], wantM[m]) + "\n")
	}
	b.WriteString("end I3.Gen.KeccakGo\n")
	if err := os.WriteFile(filepath.Join(gen, "KeccakSponge.lean"), []byte(b.String()), 0o644); err != nil {
		fail(err)
	}
	fmt.Printf("gen_keccak: sha3.go (sha256 %x), hashes.go (sha256 %x) -> KeccakSponge.lean\n", sha256.Sum256(src1), sha256.Sum256(src2))
}
