/-
  Driver — line protocol between the Go harness and the Lean model.
  One operation per input line:  <op> <arg> <arg> …        one canonical result per output line.
  Tokens: integers in decimal (optional '-'), bytes as x<hex>, integer lists as [a,b,…].
  An op may carry a suffix "@…" (aliasing pattern / route used by the harness); it is ignored here.
  Mode: `model` (default) evaluates I3.Model.* over the regenerated I3.Gen.* constants;
        `spec` evaluates the independent reference (I3.Exec.*: Grain+Hades, affine Edwards law,
        spec MiMC7 chain, …) for the same op, or prints "-" when the op has no separate reference.
-/
import I3.Exec.Field
import I3.Exec.Bytes
import I3.Exec.Keccak
import I3.Exec.Blake512
import I3.Exec.Grain
import I3.Exec.Hades
import I3.Exec.Edwards
import I3.Gen.Consts
import I3.Gen.PoseidonTables
import I3.Model.Poseidon
import I3.Model.Mimc7
import I3.Model.Golden
import I3.Model.FF
import I3.Model.BabyJub
import I3.Model.EdDSA
import I3.Model.Codec
import I3.Model.Limbs
import I3.Model.Instances
import I3.Model.BlakeStream
import I3.Model.Receiver

open I3

-- ---------- parsing ----------
def parseInt? (s : String) : Option Int := s.toInt?
def parseNat? (s : String) : Option Nat := s.toNat?

def parseBytes? (s : String) : Option Bytes :=
  match s.toList with
  | 'x' :: rest => hexDecodeOk rest
  | _ => none

def parseIntList? (s : String) : Option (List Int) :=
  if s.startsWith "[" && s.endsWith "]" then
    let inner := ((s.drop 1).dropEnd 1).toString
    if inner.isEmpty then some [] else (inner.splitOn ",").mapM (fun t => t.toInt?)
  else none

def parseNatList? (s : String) : Option (List Nat) :=
  (parseIntList? s).bind fun l => l.mapM fun v => if v ≥ 0 then some v.toNat else none

-- ---------- printing ----------
def showBytes (b : Bytes) : String := "x" ++ hexEncode b
def showList {α} (f : α → String) (l : List α) : String := "[" ++ ",".intercalate (l.map f) ++ "]"
def showPt (p : Int × Int) : String := s!"({p.1},{p.2})"
def showBool (b : Bool) : String := if b then "true" else "false"

def showPErr : Model.Poseidon.Err → String
  | .badLen => "ERR:badLen" | .notInField => "ERR:notInField" | .badNOuts => "ERR:badNOuts"
  | .stateNotInField => "ERR:stateNotInField" | .tablePanic => "PANIC"

def showBJErr : Model.BabyJub.Err → String
  | .yTooBig => "ERR:yTooBig" | .divZero => "ERR:divZero" | .notSquare => "ERR:notSquare"
  | .signOfZero => "ERR:signOfZero"

def showEdErr : Model.EdDSA.Err → String
  | .hash => "ERR:notInField" | .verifyFailed => "ERR:verifyFailed" | .sOutOfRange => "ERR:sOutOfRange"
  | .point e => showBJErr e
  | .hexBadChar => "ERR:hexBadChar" | .hexOddLen => "ERR:hexOddLen" | .hexBadSize => "ERR:hexBadSize"
  | .scanBadType => "ERR:scanBadType" | .scanBadLen => "ERR:scanBadLen"

open I3.Inst

def checksum (m : Nat) (l : List Nat) : Nat :=
  (l.zipIdx.foldl (fun acc (v, i) => (acc + (i + 1) * v) % m) 0)

-- ---------- spec-side references ----------
/-- reference parameters per width: (round constants, MDS matrix), filled by `main` (from the on-disk
    cache of earlier runs or by evaluating the Grain generator) before any op is processed. -/
abbrev GrainTable := Array (Option (Grain.Params × List (List Nat)))

def grainLookup (tbl : GrainTable) (t : Nat) : Grain.Params × List (List Nat) :=
  match tbl[t]? with
  | some (some x) => x
  | _ => let p := Grain.bn254Params t; (p, Grain.mds q p)

/-- spec-side field configurations: nothing taken from I3.Gen. -/
def specCfgOf (m limbs r : Nat) (nonres : Nat) : Model.FF.Cfg :=
  let s := (m - 1) / 2 ^ r
  let c0 : Model.FF.Cfg := { m := m, limbs := limbs, sqrtExp := (s - 1) / 2, legExp := (m - 1) / 2, gMont := 0, r := r, lexHalf := (m + 1) / 2 }
  { c0 with gMont := c0.toMont (powMod nonres s m) }
def specFF : Model.FF.Cfg := specCfgOf q 4 28 5
def specFFG : Model.FF.Cfg := specCfgOf gp 1 32 7

def specPoseidon (tbl : GrainTable) (inp : List Int) (st : Int) (n : Int) : String :=
  let okv (v : Int) := decide (0 ≤ v) && decide (v < (q : Int))
  if inp.length = 0 ∨ inp.length > 16 then "ERR:badLen"
  else if !(inp.all okv) then "ERR:notInField"
  else if n < 1 ∨ n > (inp.length + 1 : Nat) then "ERR:badNOuts"
  else if !(okv st) then "ERR:stateNotInField"
  else
    let t := inp.length + 1
    let (p, mds) := grainLookup tbl t
    showList toString ((Hades.permute q 5 p.t p.rf p.rp p.rc mds (st.toNat :: inp.map Int.toNat)).take n.toNat)

def specMimc7 (x k : Nat) (n : Nat) : Nat :=
  -- circomlib: c_0 = 0, c_i = keccak chain over the 32-byte digest, t = (i=0 ? x+k : r+k+c_i), r = t^7; out r+k
  Model.Mimc7.rounds (x % q) (k % q) (Model.Mimc7.getConstants "mimc".toUTF8.toList n)

def toNatPt (p : Int × Int) : Nat × Nat := (imod p.1 q, imod p.2 q)
def showNatPt (p : Nat × Nat) : String := s!"({p.1},{p.2})"

-- ---------- dispatcher ----------
def stripAt (op : String) : String := (op.splitOn "@").headD op

def fieldOp (c : Model.FF.Cfg) (op : String) (args : List String) : Option String := do
  match op, args with
  | "add", [x, y] => pure (toString (Model.FF.add c (← parseNat? x) (← parseNat? y)))
  | "sub", [x, y] => pure (toString (Model.FF.sub c (← parseNat? x) (← parseNat? y)))
  | "mul", [x, y] => pure (toString (Model.FF.mul c (← parseNat? x) (← parseNat? y)))
  | "div", [x, y] => pure (toString (Model.FF.div c (← parseNat? x) (← parseNat? y)))
  | "neg", [x] => pure (toString (Model.FF.neg c (← parseNat? x)))
  | "double", [x] => pure (toString (Model.FF.double c (← parseNat? x)))
  | "square", [x] => pure (toString (Model.FF.square c (← parseNat? x)))
  | "halve", [x] => pure (toString (Model.FF.halve c (← parseNat? x)))
  | "inverse", [x] => pure (toString (Model.FF.inverse c (← parseNat? x)))
  | "mulby3", [x] => pure (toString (Model.FF.mulBy c 3 (← parseNat? x)))
  | "mulby5", [x] => pure (toString (Model.FF.mulBy c 5 (← parseNat? x)))
  | "mulby13", [x] => pure (toString (Model.FF.mulBy c 13 (← parseNat? x)))
  | "butterfly", [a, b] =>
    let r := Model.FF.butterfly c (← parseNat? a) (← parseNat? b)
    pure s!"{r.1} {r.2}"
  | "exp", [x, e] => pure (toString (Model.FF.exp c (← parseNat? x) (← parseNat? e)))
  | "batchinv", [l] => pure (showList toString (Model.FF.batchInvert c (← parseNatList? l)))
  | "legendre", [x] => pure (toString (Model.FF.legendre c (← parseNat? x)))
  | "sqrt", [x] =>
    match Model.FF.sqrt c (← parseNat? x) with
    | none => pure "nil"
    | some r => pure (toString r)
  | "setbigint", [v] => pure (toString (Model.FF.setBigInt c (← parseInt? v)))
  | "setstring", [v] => pure (toString (Model.FF.setBigInt c (← parseInt? v)))
  | "setbytes", [b] => pure (toString (Model.FF.setBytes c (← parseBytes? b)))
  | "setuint64", [v] => pure (toString (Model.FF.setUint64 c (← parseNat? v)))
  | "setinterface", [kind, v] =>
    match kind with
    | "element" | "elementptr" => pure (toString ((← parseNat? v) % c.m))
    | "uint64" => pure (toString (Model.FF.setUint64 c (← parseNat? v)))
    | "int" | "string" | "bigintptr" | "bigint" => pure (toString (Model.FF.setBigInt c (← parseInt? v)))
    | "bytes" => pure (toString (Model.FF.setBytes c (← parseBytes? v)))
    | _ => pure "ERR:badType"
  | "tobigint", [x] => pure (toString ((← parseNat? x) % c.m))
  | "montbigint", [x] => pure (toString (Model.FF.toBigIntMont c (← parseNat? x)))
  | "bytes", [x] => pure (showBytes (Model.FF.toBytes c (← parseNat? x)))
  | "string", [x] => pure (toString (Model.FF.toStringInt c (← parseNat? x)))
  | "cmp", [x, y] => pure (toString (Model.FF.cmp (← parseNat? x) (← parseNat? y)))
  | "equal", [x, y] => pure (showBool ((← parseNat? x) == (← parseNat? y)))
  | "lex", [x] => pure (showBool (Model.FF.lexLargest c (← parseNat? x)))
  | "iszero", [x] => pure (showBool ((← parseNat? x) == 0))
  | "isuint64", [x] => pure (showBool (Model.FF.isUint64Mont c (← parseNat? x)))
  | "bitlen", [x] => pure (toString (Model.FF.bitLenMont c (← parseNat? x)))
  | "bit", [x, i] => pure (toString (Model.FF.bitMont c (← parseNat? x) (← parseNat? i)))
  | "one", [] => pure (toString (1 % c.m))
  | "modulus", [] => pure (toString c.m)
  | _, _ => none

def bytesToChars (b : Bytes) : List Char := b.map fun x => Char.ofNat x.toNat

def parseSrc? (kind payload : String) : Option Model.Codec.Src :=
  match kind with
  | "nil" => some .nil
  | "int64" => payload.toInt?.map .int64
  | "float64" => some .float64
  | "bool" => some (.bool (payload == "true"))
  | "bytes" => (parseBytes? payload).map .bytes
  | "string" => (parseBytes? payload).map fun b => .string (bytesToChars b)
  | "time" => some .time
  | "array32" => (parseBytes? payload).map .array32
  | "array64" => (parseBytes? payload).map .array64
  | _ => none

def showSig (s : Model.EdDSA.Sig) : String := s!"{showPt s.r8} {s.s}"


def modelOp (op : String) (pat : String) (args : List String) : Option String := do
  let k := bjConsts
  match op, args with
  -- poseidon
  | "poseidon.hashex", [inp, st, n] =>
    match poseidonEx (← parseIntList? inp) (← parseInt? st) (← parseInt? n) with
    | .ok r => pure (showList toString r)
    | .error e => pure (showPErr e)
  | "poseidon.tablesum", [t] =>
    let t ← parseNat? t
    match Gen.poseidonTables t with
    | some x => pure s!"{checksum q x.C} {checksum q x.S} {checksum q x.M.flatten} {checksum q x.P.flatten} {x.C.length} {x.S.length} {x.M.length} {x.P.length}"
    | none => pure "none"
  | "poseidon.consts", [] => pure s!"{Gen.poseidon_NROUNDSF} {showList toString Gen.poseidon_NROUNDSP} {Gen.poseidonWidths}"
  -- mimc7
  | "mimc7.hash", [arr, key] =>
    let key ← if key = "nil" then pure none else (parseInt? key).map some
    match Model.Mimc7.hash mimcCts (← parseIntList? arr) key with
    | .ok r => pure (toString r)
    | .error _ => pure "ERR:notInField"
  | "mimc7.hashgeneric", [iv, arr, n] =>
    match Model.Mimc7.hashGeneric mimcSeed (← parseInt? iv) (← parseIntList? arr) (← parseNat? n) with
    | .ok r => pure (toString r)
    | .error _ => pure "ERR:notInField"
  | "mimc7.mimc7hash", [x, kk] => pure (toString (Model.Mimc7.mimc7Hash mimcCts (← parseInt? x) (← parseInt? kk)))
  | "mimc7.mimc7hashgeneric", [x, kk, n] =>
    pure (toString (Model.Mimc7.mimc7HashGeneric mimcSeed (← parseInt? x) (← parseInt? kk) (← parseNat? n)))
  | "mimc7.hashbytes", [b] =>
    match Model.Mimc7.hashBytes mimcCts (← parseBytes? b) with
    | .ok r => pure (toString r)
    | .error _ => pure "ERR:notInField"
  | "mimc7.consts", [] =>
    pure s!"{checksum q mimcCts} {mimcCts.length} {beToNat (Keccak.keccak256 mimcSeed)} {beToNat (Keccak.keccak256 (mimcSeed ++ "_iv".toUTF8.toList)) % q}"
  -- goldenposeidon
  | "golden.hash", [inp, cap] =>
    pure (showList toString (Model.Golden.hash goldenTab Gen.golden_sboxExp Gen.golden_mLen Gen.golden_NROUNDSP Gen.golden_CAPLEN (← parseNatList? inp) (← parseNatList? cap)))
  | "golden.tablesum", [] =>
    pure s!"{checksum gp goldenTab.C} {checksum gp goldenTab.S} {checksum gp goldenTab.M.flatten} {checksum gp goldenTab.P.flatten} {goldenTab.C.length} {goldenTab.S.length}"
  -- hashes
  | "keccak.hash", slices => pure (showBytes (Keccak.hashSlices (← slices.mapM parseBytes?)))
  | "blake.hash", [b] => pure (showBytes (Model.BlakeStream.blake512Stream (← parseBytes? b)))
  -- babyjub
  | "bj.add", [x1, y1, x2, y2] =>
    let p := ((← parseInt? x1), (← parseInt? y1)); let r := ((← parseInt? x2), (← parseInt? y2))
    pure (showPt (Model.BabyJub.affine k (Model.BabyJub.addProj k (Model.BabyJub.projective k p) (Model.BabyJub.projective k r))))
  | "bj.mul", [s, x, y] => pure (showPt (Model.BabyJub.mul k (← parseInt? s) ((← parseInt? x), (← parseInt? y))))
  | "bj.mulconst", [s] => pure (showPt (Model.BabyJub.mul k (← parseInt? s) k.b8))
  | "bj.addconst", [] =>
    pure (showPt (Model.BabyJub.affine k (Model.BabyJub.addProj k (Model.BabyJub.projective k k.b8) (Model.BabyJub.projective k k.b8))))
  | "bj.incurve", [x, y] => pure (showBool (Model.BabyJub.inCurve k ((← parseInt? x), (← parseInt? y))))
  | "bj.insubgroup", [x, y] => pure (showBool (Model.BabyJub.inSubGroup k ((← parseInt? x), (← parseInt? y))))
  | "bj.compress", [x, y] => pure (showBytes (Model.BabyJub.compress k ((← parseInt? x), (← parseInt? y))))
  | "bj.decompress", [b] =>
    let recv0 : Int × Int := if pat = "dirty" then (12345, 67890) else (0, 1)
    match Model.Receiver.pointDecompress k sqrtQ recv0 (← parseBytes? b) with
    | (recv, .ok p) => pure s!"{showPt p} recv={showPt recv}"
    | (recv, .error e) => pure s!"{showBJErr e} recv={showPt recv}"
  | "bj.pfsy", [sign, y] =>
    match Model.BabyJub.pointFromSignAndY k sqrtQ (sign == "true") (← parseInt? y) with
    | .ok p => pure (showPt p)
    | .error e => pure (showBJErr e)
  | "bj.packsigny", [sign, y] => pure (showBytes (Model.BabyJub.packSignY (sign == "true") (← parseInt? y)))
  | "bj.unpacksigny", [b] =>
    let r := Model.BabyJub.unpackSignY (← parseBytes? b)
    pure s!"{showBool r.1} {r.2}"
  | "bj.coordsign", [c] => pure (showBool (Model.BabyJub.pointCoordSign k (← parseInt? c)))
  | "bj.mulrecv", [s, x, y] =>
    let q := ((← parseInt? x), (← parseInt? y))
    let recv0 : Int × Int := if pat = "self" then q else if pat = "dirty" then (12345, 67890) else (0, 1)
    let r := Model.Receiver.pointMul k recv0 (← parseInt? s) q
    pure s!"{showPt r.2} recv={showPt r.1}"
  | "bj.set", [x, y] =>
    let c := ((← parseInt? x), (← parseInt? y))
    let r := Model.Receiver.pointSet (if pat = "self" then c else (0, 1)) c
    pure s!"{showPt r.2} recv={showPt r.1}"
  | "bj.consts", [] =>
    pure s!"{k.a} {k.d} {k.order} {k.subOrder} {showPt k.b8} {k.q} {Gen.constants_Zero} {Gen.constants_One} {Gen.constants_MinusOne} {Gen.babyjub_A % k.q} {Gen.babyjub_D % k.q}"
  -- eddsa
  | "ed.sk2big", [key] => pure (toString (Model.EdDSA.skToBigInt blake (← parseBytes? key)))
  | "ed.public", [key] => pure (showPt (Model.EdDSA.publicKey k blake (← parseBytes? key)))
  | "ed.sign", [h, key, msg] =>
    match Model.EdDSA.sign k blake (← hashBy h) (← parseBytes? key) (← parseInt? msg) with
    | .ok s => pure s!"{showSig s} {showBytes (Model.EdDSA.sigCompress k s)}"
    | .error e => pure (showEdErr e)
  | "ed.verify", [h, ax, ay, msg, rx, ry, s] =>
    match Model.EdDSA.verify k (← hashBy h) ((← parseInt? ax), (← parseInt? ay)) (← parseInt? msg)
        { r8 := ((← parseInt? rx), (← parseInt? ry)), s := (← parseInt? s) } with
    | .ok _ => pure "ok"
    | .error e => pure (showEdErr e)
  | "ed.verifycomp", [h, pkc, msg, sc] =>
    match Model.BabyJub.decompress k sqrtQ (← parseBytes? pkc) with
    | .error e => pure ("pk:" ++ showBJErr e)
    | .ok pk =>
      match Model.EdDSA.sigDecompress k sqrtQ (← parseBytes? sc) with
      | .error e => pure ("sig:" ++ showEdErr e)
      | .ok sig =>
        match Model.EdDSA.verify k (← hashBy h) pk (← parseInt? msg) sig with
        | .ok _ => pure "ok"
        | .error e => pure (showEdErr e)
  | "ed.sigcompress", [rx, ry, s] =>
    pure (showBytes (Model.EdDSA.sigCompress k { r8 := ((← parseInt? rx), (← parseInt? ry)), s := (← parseInt? s) }))
  | "ed.sigdecompress", [b] =>
    match Model.Receiver.sigDecompressRecv k sqrtQ { r8 := (0, 1), s := 0 } (← parseBytes? b) with
    | .ok r => pure s!"{showSig r.2} recv={showSig r.1}"
    | .error e => pure (showEdErr e)
  | "ed.decompresssig", [t] =>
    match Model.Codec.decompressSigText k sqrtQ (bytesToChars (← parseBytes? t)) with
    | .ok s => pure (showSig s)
    | .error e => pure (showEdErr e)
  | "ed.pk.marshal", [x, y] => pure (showBytes ((Model.Codec.marshalPublicKey k ((← parseInt? x), (← parseInt? y))).map fun c => UInt8.ofNat c.toNat))
  | "ed.pk.unmarshal", [t] =>
    match Model.Codec.unmarshalPublicKey k sqrtQ (bytesToChars (← parseBytes? t)) with
    | .ok p => pure (showPt p)
    | .error e => pure (showEdErr e)
  | "ed.comp.unmarshal", [n, t] =>
    match Model.Codec.hexDecodeInto (← parseNat? n) (bytesToChars (← parseBytes? t)) with
    | .ok b => pure (showBytes b)
    | .error e => pure (showEdErr e)
  | "ed.comp.marshal", [b] => pure (showBytes ((hexEncodeChars (← parseBytes? b)).map fun c => UInt8.ofNat c.toNat))
  | "ed.comp.scan", [n, kind, payload] =>
    match Model.Codec.scanFixed (← parseNat? n) (← parseSrc? kind payload) with
    | .ok b => pure (showBytes b)
    | .error e => pure (showEdErr e)
  | "ed.pk.scan", [kind, payload] =>
    match Model.Codec.scanPublicKey k sqrtQ (← parseSrc? kind payload) with
    | .ok p => pure (showPt p)
    | .error e => pure (showEdErr e)
  | "ed.sig.scan", [kind, payload] =>
    match Model.Codec.scanSignature k sqrtQ (← parseSrc? kind payload) with
    | .ok s => pure (showSig s)
    | .error e => pure (showEdErr e)
  | "ed.pk.value", [x, y] => pure (showBytes (Model.BabyJub.compress k ((← parseInt? x), (← parseInt? y))))
  | "ed.sig.value", [rx, ry, s] =>
    pure (showBytes (Model.EdDSA.sigCompress k { r8 := ((← parseInt? rx), (← parseInt? ry)), s := (← parseInt? s) }))
  -- utils
  | "u.hexencode", [b] => pure (showBytes ((Model.Codec.hexEncode0x (← parseBytes? b)).map fun c => UInt8.ofNat c.toNat))
  | "u.hexdecode", [t] =>
    match Model.Codec.hexDecode (bytesToChars (← parseBytes? t)) with
    | .ok b => pure (showBytes b)
    | .error e => pure (showEdErr e)
  | "u.hexdecodeinto", [n, t] =>
    match Model.Codec.hexDecodeInto (← parseNat? n) (bytesToChars (← parseBytes? t)) with
    | .ok b => pure (showBytes b)
    | .error e => pure (showEdErr e)
  | "u.lebytes", [v] => pure (showBytes (Model.BabyJub.bigIntLEBytes (← parseInt? v)))
  | "u.fromle", [b] => pure (toString (Model.Codec.setBigIntFromLEBytes (← parseBytes? b)))
  | "u.swap", [b] => pure (showBytes (Model.Codec.swapEndianness (← parseBytes? b)))
  | "u.infield", [v] => pure (showBool (Model.Mimc7.inField (← parseInt? v)))
  | "u.arrinfield", [l] => pure (showBool ((← parseIntList? l).all Model.Mimc7.inField))
  | "u.elemarr", [l] => pure (showList toString ((← parseIntList? l).map (fun v => imod v q)))
  | _, _ =>
    if op.startsWith "ff." then fieldOp ffCfg (op.drop 3).toString args
    else if op.startsWith "ffg." then fieldOp ffgCfg (op.drop 4).toString args
    else if op.startsWith "ffraw." then Model.Limbs.ffRaw (op.drop 6).toString args
    else if op.startsWith "ffgraw." then Model.Limbs.ffgRaw (op.drop 7).toString args
    else none

/-- field ops against the spec-side configuration; `sqrt` only predicts whether a root exists. -/
def specField (c : Model.FF.Cfg) (op : String) (args : List String) : Option String := do
  match op, args with
  | "sqrt", [x] =>
    let x ← parseNat? x
    if x % c.m = 0 then pure "0"
    else if eulerMod x c.m = 1 then pure "root" else pure "nil"
  | "one", [] | "modulus", [] => fieldOp c op args
  | _, _ => fieldOp c op args

/-- Independent reference for the same op ("-" when the model itself is the reference). -/
def specOp (tbl : GrainTable) (op : String) (args : List String) : Option String := do
  match op, args with
  | "poseidon.hashex", [inp, st, n] => pure (specPoseidon tbl (← parseIntList? inp) (← parseInt? st) (← parseInt? n))
  | "blake.hash", [b] => pure (showBytes (Blake.blake512 (← parseBytes? b)))
  | "keccak.hash", slices => pure (showBytes (Keccak.keccak256 (← slices.mapM parseBytes?).flatten))
  | "mimc7.mimc7hashgeneric", [x, kk, n] => pure (toString (specMimc7 (imod (← parseInt? x) q) (imod (← parseInt? kk) q) (← parseNat? n)))
  | "mimc7.mimc7hash", [x, kk] => pure (toString (specMimc7 (imod (← parseInt? x) q) (imod (← parseInt? kk) q) 91))
  -- the affine group law is the reference on CURVE points only (the domain of C04/C13/C03): off the curve the
  -- library's projective formulas and the affine law legitimately differ, so there is no reference ("-")
  | "bj.add", [x1, y1, x2, y2] =>
    let p1 := toNatPt ((← parseInt? x1), (← parseInt? y1)); let p2 := toNatPt ((← parseInt? x2), (← parseInt? y2))
    if !(Ed.onCurve p1 && Ed.onCurve p2) then pure "-" else pure (showNatPt (Ed.add p1 p2))
  | "bj.mul", [s, x, y] =>
    let s ← parseInt? s
    let p := toNatPt ((← parseInt? x), (← parseInt? y))
    if s < 0 || !Ed.onCurve p then pure "-" else pure (showNatPt (Ed.smul s.toNat p))
  | "bj.mulrecv", [s, x, y] =>
    let s ← parseInt? s
    let p := toNatPt ((← parseInt? x), (← parseInt? y))
    if s < 0 || !Ed.onCurve p then pure "-" else
      let r := Ed.smul s.toNat p
      pure s!"{showNatPt r} recv={showNatPt r}"
  | "bj.incurve", [x, y] => pure (showBool (Ed.onCurve (toNatPt ((← parseInt? x), (← parseInt? y)))))
  | "bj.insubgroup", [x, y] =>
    let p := toNatPt ((← parseInt? x), (← parseInt? y))
    pure (showBool (Ed.onCurve p && Ed.smul l p == Ed.zero))
  | "ed.verify", [h, ax, ay, msg, rx, ry, s] =>
    -- the equation S•B8 = R8 + (8·H)•A with the affine law, S required in [0, l)
    let s ← parseInt? s
    let a := toNatPt ((← parseInt? ax), (← parseInt? ay)); let r := toNatPt ((← parseInt? rx), (← parseInt? ry))
    if !(Ed.onCurve a && Ed.onCurve r) then pure "-"
    else if s < 0 ∨ s ≥ (l : Int) then pure "ERR:sOutOfRange"
    else match (← hashBy h) [(← parseInt? rx), (← parseInt? ry), (← parseInt? ax), (← parseInt? ay), (← parseInt? msg)] with
      | none => pure "ERR:notInField"
      | some hm =>
        if Ed.smul s.toNat Ed.B8 == Ed.add r (Ed.smul (8 * hm) a) then pure "ok" else pure "ERR:verifyFailed"
  | op, args =>
    if op.startsWith "ffraw." then Model.Limbs.ffRawSpec (op.drop 6).toString args
    else if op.startsWith "ffgraw." then Model.Limbs.ffgRawSpec (op.drop 7).toString args
    else if op.startsWith "ff." then specField specFF (op.drop 3).toString args
    else if op.startsWith "ffg." then specField specFFG (op.drop 4).toString args
    else pure "-"

def step (tbl : GrainTable) (mode : String) (line : String) : String :=
  match (line.trimAscii.toString.splitOn " ").filter (· ≠ "") with
  | [] => "bad-op"
  | op :: args =>
    let pat := (op.splitOn "@").getD 1 ""
    let op := if op.startsWith "ffraw." || op.startsWith "ffgraw." then op else stripAt op
    let r := if mode = "spec" then specOp tbl op args else modelOp op pat args
    r.getD "bad-op"

/-- width needed by a line, if it is a Poseidon op. -/
def widthOf (line : String) : Option Nat :=
  match (line.trimAscii.toString.splitOn " ").filter (· ≠ "") with
  | op :: inp :: _ =>
    if (stripAt op) = "poseidon.hashex" then (parseIntList? inp).map (·.length + 1) else none
  | _ => none

def showParams (p : Grain.Params) (mds : List (List Nat)) : String :=
  s!"{p.t} {p.rf} {p.rp}\n" ++ " ".intercalate (p.rc.map toString) ++ "\n" ++ " ".intercalate (p.xs.map toString) ++ "\n"
    ++ " ".intercalate (p.ys.map toString) ++ "\n" ++ "\n".intercalate (mds.map fun r => " ".intercalate (r.map toString)) ++ "\n"

def readParams (txt : String) : Option (Grain.Params × List (List Nat)) := do
  let nums (l : String) : Option (List Nat) := ((l.splitOn " ").filter (· ≠ "")).mapM (·.toNat?)
  match txt.splitOn "\n" with
  | hd :: rc :: xs :: ys :: rows =>
    match ← nums hd with
    | [t, rf, rp] =>
      let rc ← nums rc; let xs ← nums xs; let ys ← nums ys
      let mds ← (rows.filter (· ≠ "")).mapM nums
      if rc.length = (rf + rp) * t ∧ xs.length = t ∧ ys.length = t ∧ mds.length = t then
        some ({ t := t, rf := rf, rp := rp, rc := rc, xs := xs, ys := ys }, mds)
      else none
    | _ => none
  | _ => none

/-- Grain parameters are spec-side and deterministic; caching them on disk only saves time. -/
def loadGrain (dir : Option String) (t : Nat) : IO (Grain.Params × List (List Nat)) := do
  let compute : Unit → Grain.Params × List (List Nat) := fun _ => let p := Grain.bn254Params t; (p, Grain.mds q p)
  match dir with
  | none => pure (compute ())
  | some d =>
    let f := s!"{d}/grain-{t}.txt"
    if ← System.FilePath.pathExists f then
      match readParams (← IO.FS.readFile f) with
      | some x => if x.1.t = t then return x else pure ()
      | none => pure ()
    let x := compute ()
    try
      IO.FS.createDirAll d
      IO.FS.writeFile f (showParams x.1 x.2)
    catch _ => pure ()
    pure x

partial def readAll (hin : IO.FS.Stream) (acc : Array String) : IO (Array String) := do
  let line ← hin.getLine
  if line.isEmpty then return acc
  readAll hin (acc.push line)

def main (args : List String) : IO Unit := do
  let mode := args.headD "model"
  let hin ← IO.getStdin
  let hout ← IO.getStdout
  let lines ← readAll hin #[]
  let mut tbl : GrainTable := Array.replicate 18 none
  if mode = "spec" then
    let dir ← IO.getEnv "I3_GRAIN_CACHE"
    for l in lines do
      match widthOf l with
      | some t =>
        if t ≥ 2 ∧ t ≤ 17 ∧ (tbl[t]?.bind id).isNone then
          let x ← loadGrain dir t
          tbl := tbl.set! t (some x)
      | none => pure ()
  for l in lines do
    hout.putStrLn (step tbl mode l)
  hout.flush
