-- Root of the `I3` library: executable definitions only (core Lean, no Mathlib).
-- Proof modules live under I3/Props and I3/Lemmas and are built by name (`lake build I3.Props.All`).
import I3.Exec.Field
import I3.Exec.Bytes
import I3.Exec.Keccak
import I3.Exec.Blake512
import I3.Exec.Grain
import I3.Exec.Hades
import I3.Exec.Edwards
import I3.Gen.Consts
import I3.Gen.PoseidonTables
import I3.Model.Poseidon
import I3.Model.Mimc7
import I3.Model.Golden
import I3.Model.FF
import I3.Model.BabyJub
import I3.Model.EdDSA
import I3.Model.Codec
import I3.Model.Limbs
import I3.Model.Instances
import I3.Model.BlakeStream
import I3.Model.FFInverse
