/-
  I3.Lemmas.EdDSA — helper definitions and lemmas for the EdDSA properties C02, C03, C14:
  the model `I3.Model.EdDSA.{sign, verify}` at the regenerated constants `I3.Inst.bjConsts`,
  rewritten in terms of the abstract group `I3.Spec.BJJ.curve.Point`.

  * `HashTotal H`      — the field-hash parameter returns a value on five canonical field elements;
  * `verify_hash_some` — in range and with a hash value, `verify` is one comparison of coordinates;
  * `verify_ok_elim`   — what acceptance implies, for arbitrary integer pairs;
  * `sign_some`        — `sign` computes `⟨coords (r • B8), (r + hm * (s * 8)) % l⟩`;
  * `hPoseidon_total`, `hMimc7_total` (from the acceptance frontiers proved in I3.Props.C07).
-/
import I3.Lemmas.CurveBridge
import I3.Props.C07
import Mathlib.GroupTheory.OrderOfElement
import Mathlib.Data.Nat.ModEq
import Mathlib.Tactic.Ring
import Mathlib.Tactic.Push

namespace I3.Lemmas.EdDSA

open I3 I3.Spec I3.Spec.BJJ I3.Model.BabyJub I3.Model.EdDSA I3.Lemmas.CurveBridge

abbrev K : Consts := I3.Inst.bjConsts

/-- a five-element field hash is TOTAL on the field: it returns a value on every vector of five
canonical field elements. -/
def HashTotal (H : List Int → Option Nat) : Prop :=
  ∀ v : List Int, v.length = 5 → (∀ x ∈ v, 0 ≤ x ∧ x < (I3.q : ℤ)) → ∃ h, H v = some h

/-- the right-hand side of the verification equation as the code computes it -/
def rhsPt (a r8 : APoint) (hm : ℕ) : APoint :=
  affine K (addProj K (projective K r8) (projective K (mul K (8 * (hm : ℤ)) a)))

/-! ### group facts about `B8` -/

theorem b8_coords : K.b8 = coords B8 := k_b8.trans coords_B8.symm

theorem nsmul_B8_eq_iff (n m : ℕ) : n • B8 = m • B8 ↔ n ≡ m [MOD I3.l] := by
  rw [nsmul_eq_nsmul_iff_modEq, addOrderOf_B8]

theorem mod_l_nsmul_B8 (n : ℕ) : (n % I3.l) • B8 = n • B8 :=
  (nsmul_B8_eq_iff _ _).2 (Nat.mod_modEq n I3.l)

theorem nsmul_B8_inj {n m : ℕ} (hn : n < I3.l) (hm : m < I3.l) (h : n • B8 = m • B8) : n = m := by
  have := (nsmul_B8_eq_iff n m).1 h
  unfold Nat.ModEq at this
  rwa [Nat.mod_eq_of_lt hn, Nat.mod_eq_of_lt hm] at this

theorem toNat_inj_of_nsmul_B8 {S S' : ℤ} (h0 : 0 ≤ S) (hl : S < (I3.l : ℤ)) (h0' : 0 ≤ S')
    (hl' : S' < (I3.l : ℤ)) (h : S.toNat • B8 = S'.toNat • B8) : S = S' := by
  have := nsmul_B8_inj (n := S.toNat) (m := S'.toNat) (by omega) (by omega) h
  omega

theorem l_smul_nsmul_B8 (s : ℕ) : I3.l • (s • B8) = 0 := by
  rw [← mul_nsmul, mul_comm, mul_nsmul, l_smul_B8, nsmul_zero]

/-- every nonzero multiple of `B8` has order `l` -/
theorem addOrderOf_nsmul_B8 (s : ℕ) (h : s • B8 ≠ 0) : addOrderOf (s • B8) = I3.l :=
  addOrderOf_eq_prime (l_smul_nsmul_B8 s) h

theorem coprime_l_eight : Nat.gcd I3.l 8 = 1 := by decide +kernel

theorem eight_mul_nsmul_eq_iff (s : ℕ) (hA : s • B8 ≠ 0) (n m : ℕ) :
    (8 * n) • (s • B8) = (8 * m) • (s • B8) ↔ n ≡ m [MOD I3.l] := by
  rw [nsmul_eq_nsmul_iff_modEq, addOrderOf_nsmul_B8 s hA]
  exact ⟨Nat.ModEq.cancel_left_of_coprime coprime_l_eight, Nat.ModEq.mul_left 8⟩

/-! ### the model on curve points -/

theorem mul_b8_nat (n : ℕ) : mul K (n : ℤ) K.b8 = coords (n • B8) := by
  rw [b8_coords, mul_coords]

theorem mul_b8_int {S : ℤ} (h : 0 ≤ S) : mul K S K.b8 = coords (S.toNat • B8) := by
  rw [b8_coords, mul_coords_int h]

theorem publicKey_eq (blake : Bytes → Bytes) (key : Bytes) :
    publicKey K blake key = coords (skToBigInt blake key • B8) :=
  mul_b8_nat _

theorem rhsPt_coords (A R8 : curve.Point) (hm : ℕ) :
    rhsPt (coords A) (coords R8) hm = coords (R8 + (8 * hm) • A) := by
  unfold rhsPt
  have h : (8 * (hm : ℤ)) = ((8 * hm : ℕ) : ℤ) := by push_cast; rfl
  rw [h, mul_coords, add_coords]

theorem beq_coords_iff (P : curve.Point) (p : APoint) :
    ((coords P).1 == p.1 && (coords P).2 == p.2) = true ↔ coords P = p := by
  simp only [Bool.and_eq_true, beq_iff_eq]
  exact ⟨fun ⟨h1, h2⟩ => Prod.ext h1 h2, fun h => by rw [h]; exact ⟨rfl, rfl⟩⟩

/-- a total hash is defined on curve points in canonical coordinates and a message in the field -/
theorem hash_defined {H : List Int → Option Nat} (hT : HashTotal H) (A R8 : curve.Point) {msg : ℤ}
    (h0 : 0 ≤ msg) (hq : msg < (I3.q : ℤ)) :
    ∃ hm, H [(coords R8).1, (coords R8).2, (coords A).1, (coords A).2, msg] = some hm := by
  apply hT _ rfl
  intro x hx
  simp only [List.mem_cons, List.not_mem_nil, or_false] at hx
  rcases hx with rfl | rfl | rfl | rfl | rfl
  · exact ⟨(coords_nonneg R8).1, (coords_lt R8).1⟩
  · exact ⟨(coords_nonneg R8).2, (coords_lt R8).2⟩
  · exact ⟨(coords_nonneg A).1, (coords_lt A).1⟩
  · exact ⟨(coords_nonneg A).2, (coords_lt A).2⟩
  · exact ⟨h0, hq⟩

/-! ### unfolding `verify` -/

theorem verify_out_of_range (H : List Int → Option Nat) (a r8 : APoint) (msg S : ℤ)
    (h : S < 0 ∨ (I3.l : ℤ) ≤ S) : verify K H a msg ⟨r8, S⟩ = .error .sOutOfRange := by
  have c : S < 0 ∨ S ≥ ((K.subOrder : ℕ) : ℤ) := by rw [k_subOrder]; exact h
  simp only [verify, c, if_true]

theorem verify_hash_none (H : List Int → Option Nat) (a r8 : APoint) (msg S : ℤ)
    (h0 : 0 ≤ S) (hl : S < (I3.l : ℤ)) (hH : H [r8.1, r8.2, a.1, a.2, msg] = none) :
    verify K H a msg ⟨r8, S⟩ = .error .hash := by
  have c : ¬ (S < 0 ∨ S ≥ ((K.subOrder : ℕ) : ℤ)) := by rw [k_subOrder]; omega
  simp only [verify, c, if_false, hH]

/-- in range and with a hash value, `verify` is the comparison of `S • B8` with `rhsPt` -/
theorem verify_hash_some (H : List Int → Option Nat) (a r8 : APoint) (msg S : ℤ) (hm : ℕ)
    (h0 : 0 ≤ S) (hl : S < (I3.l : ℤ)) (hH : H [r8.1, r8.2, a.1, a.2, msg] = some hm) :
    verify K H a msg ⟨r8, S⟩ =
      if coords (S.toNat • B8) = rhsPt a r8 hm then .ok () else .error .verifyFailed := by
  have c : ¬ (S < 0 ∨ S ≥ ((K.subOrder : ℕ) : ℤ)) := by rw [k_subOrder]; omega
  simp only [verify, c, if_false, hH, mul_b8_int h0]
  by_cases h : coords (S.toNat • B8) = rhsPt a r8 hm
  · exact (if_pos ((beq_coords_iff _ _).2 h)).trans (if_pos h).symm
  · exact (if_neg (fun hc => h ((beq_coords_iff _ _).1 hc))).trans (if_neg h).symm

/-- what an accepted signature tells us, for arbitrary integer pairs -/
theorem verify_ok_elim {H : List Int → Option Nat} {a r8 : APoint} {msg S : ℤ}
    (h : verify K H a msg ⟨r8, S⟩ = .ok ()) :
    0 ≤ S ∧ S < (I3.l : ℤ) ∧ ∃ hm, H [r8.1, r8.2, a.1, a.2, msg] = some hm ∧
      coords (S.toNat • B8) = rhsPt a r8 hm := by
  by_cases c : S < 0 ∨ (I3.l : ℤ) ≤ S
  · rw [verify_out_of_range H a r8 msg S c] at h; cases h
  have h0 : 0 ≤ S := by omega
  have hl : S < (I3.l : ℤ) := by omega
  refine ⟨h0, hl, ?_⟩
  cases hH : H [r8.1, r8.2, a.1, a.2, msg] with
  | none => rw [verify_hash_none H a r8 msg S h0 hl hH] at h; cases h
  | some hm =>
    refine ⟨hm, rfl, ?_⟩
    rw [verify_hash_some H a r8 msg S hm h0 hl hH] at h
    by_contra hne
    rw [if_neg hne] at h
    cases h

/-! ### unfolding `sign` -/

theorem natAbs_eq_toNat {m : ℤ} (h : 0 ≤ m) : m.natAbs = m.toNat := by omega

theorem sign_some (blake : Bytes → Bytes) (H : List Int → Option Nat) (key : Bytes) (msg : ℤ)
    (r s hm : ℕ)
    (hr : r = leToNat (blake ((blake key).drop 32 ++ bigIntLEBytes msg)) % I3.l)
    (hs : s = skToBigInt blake key)
    (hH : H [(coords (r • B8)).1, (coords (r • B8)).2, (coords (s • B8)).1, (coords (s • B8)).2,
      msg] = some hm) :
    sign K blake H key msg =
      .ok ⟨coords (r • B8), ((r : ℤ) + (hm : ℤ) * ((s * 8 : ℕ) : ℤ)) % (I3.l : ℤ)⟩ := by
  subst hr hs
  simp only [sign, publicKey_eq, k_subOrder, mul_b8_nat, hH]

theorem sign_none (blake : Bytes → Bytes) (H : List Int → Option Nat) (key : Bytes) (msg : ℤ)
    (r s : ℕ)
    (hr : r = leToNat (blake ((blake key).drop 32 ++ bigIntLEBytes msg)) % I3.l)
    (hs : s = skToBigInt blake key)
    (hH : H [(coords (r • B8)).1, (coords (r • B8)).2, (coords (s • B8)).1, (coords (s • B8)).2,
      msg] = none) :
    sign K blake H key msg = .error .hash := by
  subst hr hs
  simp only [sign, publicKey_eq, k_subOrder, mul_b8_nat, hH]

/-- everything a successful `sign` tells us, for arbitrary `blake`, `H`, key and message -/
theorem sign_ok_elim {blake : Bytes → Bytes} {H : List Int → Option Nat} {key : Bytes} {msg : ℤ}
    {sig : Sig} (h : sign K blake H key msg = .ok sig) (r s : ℕ)
    (hr : r = leToNat (blake ((blake key).drop 32 ++ bigIntLEBytes msg)) % I3.l)
    (hs : s = skToBigInt blake key) :
    ∃ hm, H [(coords (r • B8)).1, (coords (r • B8)).2, (coords (s • B8)).1, (coords (s • B8)).2,
        msg] = some hm ∧
      sig = ⟨coords (r • B8), ((r : ℤ) + (hm : ℤ) * ((s * 8 : ℕ) : ℤ)) % (I3.l : ℤ)⟩ := by
  cases hH : H [(coords (r • B8)).1, (coords (r • B8)).2, (coords (s • B8)).1,
      (coords (s • B8)).2, msg] with
  | none => rw [sign_none blake H key msg r s hr hs hH] at h; cases h
  | some hm =>
    rw [sign_some blake H key msg r s hm hr hs hH] at h
    exact ⟨hm, rfl, (Except.ok.inj h).symm⟩

/-! ### the signing equation in the group -/

theorem sigS_eq (r s hm : ℕ) :
    ((r : ℤ) + (hm : ℤ) * ((s * 8 : ℕ) : ℤ)) % (I3.l : ℤ) =
      (((r + hm * (s * 8)) % I3.l : ℕ) : ℤ) := by
  push_cast
  rfl

theorem sigS_range (r s hm : ℕ) :
    0 ≤ ((r : ℤ) + (hm : ℤ) * ((s * 8 : ℕ) : ℤ)) % (I3.l : ℤ) ∧
      ((r : ℤ) + (hm : ℤ) * ((s * 8 : ℕ) : ℤ)) % (I3.l : ℤ) < (I3.l : ℤ) := by
  rw [sigS_eq]
  have := Nat.mod_lt (r + hm * (s * 8)) I3.l_prime.pos
  omega

/-- **completeness of the scheme in the group**: `S • B8 = r • B8 + (8 hm) • (s • B8)` for
`S = (r + hm * 8 s) mod l`, because `l • B8 = 0` -/
theorem sigS_nsmul (r s hm : ℕ) :
    (((r : ℤ) + (hm : ℤ) * ((s * 8 : ℕ) : ℤ)) % (I3.l : ℤ)).toNat • B8 =
      r • B8 + (8 * hm) • (s • B8) := by
  rw [sigS_eq, Int.toNat_natCast, mod_l_nsmul_B8, add_nsmul, ← mul_nsmul']
  congr 2
  ring

theorem l_lt_two_pow_256 : (I3.l : ℤ) < 2 ^ 256 := by decide +kernel

/-! ### the two production hashes are total on the field and reject everything else -/

theorem hPoseidon_total : HashTotal Inst.hPoseidon := by
  intro v hlen hv
  have hok : ∃ r, Inst.poseidonEx v 0 1 = .ok r := by
    rw [I3.Props.C07.poseidonEx_ok_iff, I3.Props.C07.constants_q_eq]
    refine ⟨by omega, by omega, hv, le_refl _, ?_, le_refl _, by omega⟩
    have := q_pos; omega
  obtain ⟨r, hr⟩ := hok
  have hl : (r.length : ℤ) = 1 :=
    I3.Props.C07.poseidon_ok_length _ _ _ _ _ _ _ I3.Props.C07.inst_tablesPresent r hr
  match r, hl with
  | [h], _ => exact ⟨h, by simp only [Inst.hPoseidon, hr]⟩

theorem hPoseidon_none (v : List Int) (h : ∃ x ∈ v, x < 0 ∨ (I3.q : ℤ) ≤ x) :
    Inst.hPoseidon v = none := by
  cases hr : Inst.poseidonEx v 0 1 with
  | error e => simp only [Inst.hPoseidon, hr]
  | ok r =>
    exfalso
    have := (I3.Props.C07.poseidonEx_ok_iff v 0 1).1 ⟨r, hr⟩
    rw [I3.Props.C07.constants_q_eq] at this
    obtain ⟨x, hx, hbad⟩ := h
    have := this.2.2.1 x hx
    omega

theorem hMimc7_total : HashTotal Inst.hMimc7 := by
  intro v _ hv
  obtain ⟨r, hr⟩ := (I3.Props.C07.mimc7_hash_ok_iff Inst.mimcCts v none).2 hv
  exact ⟨r.toNat, by simp only [Inst.hMimc7, hr]⟩

theorem hMimc7_none (v : List Int) (h : ∃ x ∈ v, x < 0 ∨ (I3.q : ℤ) ≤ x) :
    Inst.hMimc7 v = none := by
  simp only [Inst.hMimc7, I3.Props.C07.mimc7_hash_reject Inst.mimcCts v none h]

end I3.Lemmas.EdDSA
