/-
  I3.Lemmas.Bytes — helper lemmas about the byte / hexadecimal / little-endian helpers of
  I3.Exec.Bytes and the sign-packing of I3.Model.BabyJub.  Core Lean only.
-/
import I3.Model.Codec
namespace I3.Lemmas.Bytes
open I3

/-! ### bytes -/

/-- A predicate on bytes holds everywhere as soon as it holds on the 256 values (this is what makes
    byte-level facts decidable by `decide`). -/
theorem forall_uint8 {P : UInt8 → Prop} (h : ∀ n, n < 256 → P (UInt8.ofNat n)) : ∀ x, P x := by
  intro x
  have := h x.toNat x.toNat_lt
  simpa using this

theorem ofNat_div_mod (b : UInt8) : UInt8.ofNat (b.toNat / 16 * 16 + b.toNat % 16) = b := by
  rw [Nat.div_add_mod']; exact UInt8.ofNat_toNat

/-! ### hexadecimal -/

theorem hexVal_hexDigit : ∀ n, n < 16 → hexVal (hexDigit n) = some n := by decide

theorem hexDigit_ne_x : ∀ n, n < 16 → hexDigit n ≠ 'x' := by decide

theorem hexDecodeChars_hexEncodeChars (bs : Bytes) :
    hexDecodeChars (hexEncodeChars bs) = (bs, none) := by
  induction bs with
  | nil => rfl
  | cons b bs ih =>
    have h1 : b.toNat / 16 < 16 := by have := b.toNat_lt; omega
    have h2 : b.toNat % 16 < 16 := by omega
    simp only [hexEncodeChars, hexDecodeChars, hexVal_hexDigit _ h1, hexVal_hexDigit _ h2, ih,
      ofNat_div_mod]

theorem hexEncodeChars_length (bs : Bytes) : (hexEncodeChars bs).length = 2 * bs.length := by
  induction bs with
  | nil => rfl
  | cons b bs ih => simp only [hexEncodeChars, List.length_cons, ih]; omega

/-- A successful decode consumed exactly two hexadecimal digits per output byte. -/
theorem hexDecodeChars_ok {cs : List Char} {b : Bytes} (h : hexDecodeChars cs = (b, none)) :
    cs.length = 2 * b.length ∧ ∀ c ∈ cs, (hexVal c).isSome := by
  induction cs using hexDecodeChars.induct generalizing b with
  | case1 =>
    simp only [hexDecodeChars, Prod.mk.injEq] at h
    simp [← h.1]
  | case2 c hc => simp [hexDecodeChars, hc] at h
  | case3 c v hc => simp [hexDecodeChars, hc] at h
  | case4 c1 c2 cs a v h2 h1 r e hr ih =>
    simp only [hexDecodeChars, h1, h2, hr, Prod.mk.injEq] at h
    obtain ⟨hb, he⟩ := h
    subst he
    have := ih hr
    subst hb
    refine ⟨by simp only [List.length_cons, this.1]; omega, ?_⟩
    intro c hc
    simp only [List.mem_cons] at hc
    rcases hc with rfl | rfl | hc
    · simp [h1]
    · simp [h2]
    · exact this.2 c hc
  | case5 c1 c2 cs hno =>
    exfalso
    unfold hexDecodeChars at h
    split at h
    · next a v h1 h2 => exact hno a v h1 h2
    · simp at h

theorem stripPrefix0x_0x (h : List Char) : Model.Codec.stripPrefix0x ('0' :: 'x' :: h) = h := rfl

theorem stripPrefix0x_hexEncodeChars (bs : Bytes) :
    Model.Codec.stripPrefix0x (hexEncodeChars bs) = hexEncodeChars bs := by
  cases bs with
  | nil => rfl
  | cons b bs =>
    have h2 : b.toNat % 16 < 16 := by omega
    have := hexDigit_ne_x _ h2
    unfold Model.Codec.stripPrefix0x hexEncodeChars
    split
    · next rest heq =>
      simp only [List.cons.injEq] at heq
      exact absurd heq.2.1 this
    · rfl

/-! ### little-endian -/

theorem natToLE_length (n v : Nat) : (natToLE n v).length = n := by
  induction n generalizing v with
  | zero => rfl
  | succ n ih => simp [natToLE, ih]

theorem leToNat_natToLE (n v : Nat) : leToNat (natToLE n v) = v % 256 ^ n := by
  induction n generalizing v with
  | zero => simp [natToLE, leToNat, Nat.mod_one]
  | succ n ih =>
    simp only [natToLE, leToNat, ih, UInt8.toNat_ofNat']
    rw [show 256 ^ (n + 1) = 256 * 256 ^ n from by rw [Nat.pow_succ, Nat.mul_comm], Nat.mod_mul]
    omega

theorem natToLE_leToNat (bs : Bytes) : natToLE bs.length (leToNat bs) = bs := by
  induction bs with
  | nil => rfl
  | cons b bs ih =>
    have hb := b.toNat_lt
    have h1 : (b.toNat + 256 * leToNat bs) % 256 = b.toNat := by omega
    have h2 : (b.toNat + 256 * leToNat bs) / 256 = leToNat bs := by omega
    simp only [List.length_cons, natToLE, leToNat, h1, h2, ih, UInt8.ofNat_toNat]

theorem leToNat_lt (bs : Bytes) : leToNat bs < 256 ^ bs.length := by
  induction bs with
  | nil => simp [leToNat]
  | cons b bs ih =>
    have hb := b.toNat_lt
    simp only [leToNat, List.length_cons, Nat.pow_succ]
    generalize 256 ^ bs.length = P at *
    omega

theorem leToNat_append (xs ys : Bytes) :
    leToNat (xs ++ ys) = leToNat xs + 256 ^ xs.length * leToNat ys := by
  induction xs with
  | nil => simp [leToNat]
  | cons x xs ih =>
    simp only [List.cons_append, leToNat, ih, List.length_cons, Nat.pow_succ]
    rw [Nat.mul_add, Nat.mul_comm (256 ^ xs.length) 256, Nat.mul_assoc]
    omega

/-- the most significant byte of an `n+1`-byte little-endian encoding. -/
theorem natToLE_succ_last (n v : Nat) :
    natToLE (n + 1) v = natToLE n v ++ [UInt8.ofNat (v / 256 ^ n % 256)] := by
  induction n generalizing v with
  | zero => simp [natToLE]
  | succ n ih =>
    rw [natToLE, ih (v / 256)]
    simp only [natToLE, List.cons_append, Nat.div_div_eq_div_mul, Nat.pow_succ,
      Nat.mul_comm (256 ^ n) 256]

/-- a list of length `n+1` splits into its first `n` elements and its last one. -/
theorem take_append_getD {α} (b : List α) (n : Nat) (d : α) (h : b.length = n + 1) :
    b.take n ++ [b.getD n d] = b := by
  induction b generalizing n with
  | nil => simp at h
  | cons x xs ih =>
    cases n with
    | zero =>
      have : xs = [] := by simpa using h
      subst this; rfl
    | succ n =>
      have h' : xs.length = n + 1 := by simpa using h
      simp only [List.take_succ_cons, List.cons_append, List.getD_cons_succ, ih n h']

theorem take_append_left {α} (xs ys : List α) (n : Nat) (h : xs.length = n) :
    (xs ++ ys).take n = xs := by
  subst h; simp

theorem getD_append_singleton {α} (xs : List α) (y d : α) (n : Nat) (h : xs.length = n) :
    (xs ++ [y]).getD n d = y := by
  subst h; simp [List.getD]

/-! ### sign bit packing -/

section
set_option maxRecDepth 100000

theorem or80_and80 : ∀ x : UInt8, ((x ||| 0x80) &&& 0x80 != 0) = true :=
  forall_uint8 (by decide)

theorem or80_and7F : ∀ x : UInt8, x.toNat < 128 → (x ||| 0x80) &&& 0x7F = x :=
  forall_uint8 (by decide)

theorem lt128_and80 : ∀ x : UInt8, x.toNat < 128 → ((x &&& 0x80) != 0) = false :=
  forall_uint8 (by decide)

theorem lt128_and7F : ∀ x : UInt8, x.toNat < 128 → x &&& 0x7F = x :=
  forall_uint8 (by decide)

theorem and7F_lt : ∀ x : UInt8, (x &&& 0x7F).toNat < 128 :=
  forall_uint8 (by decide)

theorem and7F_or80 : ∀ x : UInt8, ((x &&& 0x80) != 0) = true → (x &&& 0x7F) ||| 0x80 = x :=
  forall_uint8 (by decide)

theorem and80_zero_and7F : ∀ x : UInt8, ((x &&& 0x80) != 0) = false → x &&& 0x7F = x :=
  forall_uint8 (by decide)

end

theorem pow_256_31_mul_128 : 256 ^ 31 * 128 = 2 ^ 255 := by decide
theorem pow_256_32 : 256 ^ 32 = 2 ^ 256 := by decide

end I3.Lemmas.Bytes

namespace I3.Lemmas.Bytes

/-- Decidable equality on `Except` (core does not provide it); activated with
    `attribute [local instance]` by the non-vacuity examples only. -/
@[instance_reducible] def exceptDecEq {ε α : Type} [DecidableEq ε] [DecidableEq α] : DecidableEq (Except ε α)
  | .ok a, .ok b =>
    if h : a = b then isTrue (by rw [h]) else isFalse (fun h' => h (Except.ok.inj h'))
  | .error a, .error b =>
    if h : a = b then isTrue (by rw [h]) else isFalse (fun h' => h (Except.error.inj h'))
  | .ok _, .error _ => isFalse (fun h => nomatch h)
  | .error _, .ok _ => isFalse (fun h => nomatch h)

end I3.Lemmas.Bytes
