/-
  I3.Lemmas.GoBridgeGolden — bridge between the definitions GENERATED from /repo/goldenposeidon/poseidon.go by
  the source translator T6 (`I3.Gen.Go.goldenposeidon_*`) and the hand-written model
  `I3.Model.Golden.hash I3.Inst.goldenTab …` (which is `I3.Model.Poseidon.permute` at the Goldilocks prime).

  Namespaces: the bridge theorems (`goldenposeidon_exp7_eq`, `goldenposeidon_exp7state_eq`,
  `goldenposeidon_ark_eq`, `goldenposeidon_mix_eq`, `goldenposeidon_Hash_eq`) are in `I3.GoBridge`; the named
  pieces of the generated `Hash` (`gInit`, `gArk0`, `gFullA`, `gPartial`, `gFullB`, tied to the generated text
  by the `rfl` of `goldenposeidon_Hash_unfold`) and their lemmas are in `I3.GoBridge.GoldenAux`.  The generic loop
  lemmas are those of I3.Lemmas.GoBridgePoseidon (`I3.GoBridge.Loops`).

  Loops with LITERAL bounds (`for i := 1; i < 12; i++` over a tuple) must not be unfolded by `rfl` (the
  elaborator would run them symbolically): the `_unfold` lemmas first `generalize` the literal bounds.
-/
import I3.Gen.GoGolden
import I3.Lemmas.GoBridgePoseidon
import I3.Lemmas.Golden
set_option maxRecDepth 100000
namespace I3.GoBridge
open I3 I3.Gen.Go I3.GoBridge.Loops I3.GoBridge.PoseidonAux
open I3.Model.Poseidon (mix ark sboxAll partialRound permute tablesOk Tables)

namespace GoldenAux
theorem ffg_modulus_eq : Gen.ffg_modulus = gp := rfl

/-- the Goldilocks tables built by the model of `init` are large enough for width 12 and 22 partial rounds. -/
theorem goldenTab_ok : tablesOk Inst.goldenTab 12 22 = true := by decide +kernel

end GoldenAux
open GoldenAux

/-! ## the four round pieces -/

/-- `exp7(a)`: `a^7 mod p` by the model's square-and-multiply. -/
theorem goldenposeidon_exp7_eq (a : Nat) : goldenposeidon_exp7 a = powMod a 7 gp := rfl

/-- `exp7state(state)` is the model's full S-box layer — for every state. -/
theorem goldenposeidon_exp7state_eq (state : List Nat) : goldenposeidon_exp7state state = sboxAll gp 7 state := by
  have h0 : goldenposeidon_exp7state state =
      Go.forRange 0 (Go.len state) (fun i s => Go.set s i ((fun _ x => goldenposeidon_exp7 x) i (Go.idx s i))) state :=
    rfl
  rw [h0, forRange_mapIdx]
  unfold sboxAll
  apply List.ext_getElem? ; intro i
  rw [List.getElem?_mapIdx, List.getElem?_map]; rfl

namespace GoldenAux
/-- the inline / out-of-line `ark` loop with the package-level table `C`. -/
theorem arkLoop_eq (state c : List Nat) (it : Nat) (h : it + state.length ≤ c.length) :
    Go.forRange 0 (Go.len state) (fun i s => Go.set s i
        ((fun i x => Go.fe.add gp x (Go.idx c ((it : Int) + i))) i (Go.idx s i))) state = ark gp state c it := by
  rw [forRange_mapIdx (fun i x => Go.fe.add gp x (Go.idx c ((it : Int) + i))) state]
  unfold ark
  apply List.ext_getElem? ; intro i
  rw [List.getElem?_mapIdx, List.getElem?_zipWith, List.getElem?_drop]
  by_cases hi : i < state.length
  · have e : ((it : Int) + (i : Int)).toNat = it + i := by omega
    rw [List.getElem?_eq_getElem hi, List.getElem?_eq_getElem (by omega : it + i < c.length)]
    simp only [Option.map_some, idx_eq_getD, e, getD_of_lt c _ _ (by omega : it + i < c.length)]
    rfl
  · rw [List.getElem?_eq_none (by omega)]; rfl

end GoldenAux

/-- `ark(state, it)` is the model's `ark` with the table `C` of `Inst.goldenTab`, as soon as the constants
    `C[it .. it+len(state))` exist. -/
theorem goldenposeidon_ark_eq (state : List Nat) (it : Nat) (h : it + state.length ≤ Inst.goldenTab.C.length) :
    goldenposeidon_ark state (it : Int) = ark gp state Inst.goldenTab.C it :=
  arkLoop_eq state Inst.goldenTab.C it h

/-- the side condition is needed: with a missing constant the Go loop (total semantics) keeps the lane, the
    model drops it. -/
example : goldenposeidon_ark [1] 1000 = [1] ∧ ark gp [1] Inst.goldenTab.C 1000 = [] := by decide +kernel

namespace GoldenAux
/-- the loop nest of `mix` for a given matrix. -/
def gMixLoop (mat : List (List Nat)) (state : List Nat) : List Nat :=
  (Go.forRange (σ := Nat × List Nat) 0 12 (fun i p =>
     Go.forRange (σ := Nat × List Nat) 0 12 (fun j p' =>
        (Go.fe.mul gp (Go.idx (Go.idx mat j) i) (Go.idx state j),
         Go.set p'.2 i (Go.fe.add gp (Go.idx p'.2 i) (Go.fe.mul gp (Go.idx (Go.idx mat j) i) (Go.idx state j)))))
      (p.1, Go.set p.2 i (Go.fe.setUint64 gp 0)))
    (goldenposeidon_zero, Go.forRange 0 12 (fun i ns => Go.set ns i (0 : Nat)) (Go.make 12))).2

end GoldenAux

/-- the generated `mix`, with the tuple patterns as projections (definitional). -/
theorem goldenposeidon_mix_unfold (state : List Nat) (opt : Bool) :
    goldenposeidon_mix state opt =
      (Go.forRange (σ := Nat × List Nat) 0 12 (fun i p =>
         Go.forRange (σ := Nat × List Nat) 0 12 (fun j p' =>
            ((if opt then Go.fe.mul gp (Go.idx (Go.idx Go.Ext.golden_P j) i) (Go.idx state j)
              else Go.fe.mul gp (Go.idx (Go.idx Go.Ext.golden_M j) i) (Go.idx state j)),
             Go.set p'.2 i (Go.fe.add gp (Go.idx p'.2 i)
              (if opt then Go.fe.mul gp (Go.idx (Go.idx Go.Ext.golden_P j) i) (Go.idx state j)
              else Go.fe.mul gp (Go.idx (Go.idx Go.Ext.golden_M j) i) (Go.idx state j)))))
          (p.1, Go.set p.2 i (Go.fe.setUint64 gp 0)))
        (goldenposeidon_zero, Go.forRange 0 12 (fun i ns => Go.set ns i (0 : Nat)) (Go.make 12))).2 := by
  unfold goldenposeidon_mix
  generalize (12 : Int) = n
  rfl

theorem goldenposeidon_mix_true (state : List Nat) :
    goldenposeidon_mix state true = gMixLoop Go.Ext.golden_P state := by
  rw [goldenposeidon_mix_unfold]; simp only [if_true]; unfold gMixLoop; generalize (12 : Int) = n; rfl
theorem goldenposeidon_mix_false (state : List Nat) :
    goldenposeidon_mix state false = gMixLoop Go.Ext.golden_M state := by
  rw [goldenposeidon_mix_unfold]; simp only [Bool.false_eq_true, if_false]; unfold gMixLoop
  generalize (12 : Int) = n; rfl

namespace GoldenAux
theorem gMixLoop_eq (mat : List (List Nat)) (state : List Nat) (hst : state.length = 12) :
    gMixLoop mat state = mix gp mat state := by
  have e12 : (12 : Int) = ((state.length : Nat) : Int) := by rw [hst]; rfl
  unfold gMixLoop
  rw [e12, zeroLoop_eq, mixLoop_eq]

end GoldenAux

/-- `mix(state, opt)` is the model's `mix` with `P` (`opt = true`) or `M`, on every state of width 12. -/
theorem goldenposeidon_mix_eq (state : List Nat) (opt : Bool) (hst : state.length = 12) :
    goldenposeidon_mix state opt =
      mix gp (if opt then Inst.goldenTab.P else Inst.goldenTab.M) state := by
  cases opt
  · rw [goldenposeidon_mix_false, gMixLoop_eq _ _ hst]; rfl
  · rw [goldenposeidon_mix_true, gMixLoop_eq _ _ hst]; rfl

/-! ## `Hash`: the generated body cut into named pieces (tied to the generated text by `rfl`) -/

/-- the width condition is needed: the Go result always has 12 lanes. -/
example : (goldenposeidon_mix [1] false).length = 12 ∧ (mix gp Inst.goldenTab.M [1]).length = 1 := by
  decide +kernel

namespace GoldenAux
/-- loading the 8 + 4 words through `SetUint64`. -/
def gInit (inp cap : List Nat) : List Nat :=
  Go.forRange 0 4 (fun i s => Go.set s (i + 8) (Go.fe.setUint64 gp (Go.idx cap i)))
    (Go.forRange 0 8 (fun i s => Go.set s i (Go.fe.setUint64 gp (Go.idx inp i))) (Go.make 12))

/-- the first (inline) `ark`. -/
def gArk0 (state : List Nat) : List Nat :=
  Go.forRange 0 12 (fun i s => Go.set s i (Go.fe.add gp (Go.idx s i) (Go.idx Go.Ext.golden_C i))) state

/-- body of the first full-round loop. -/
def gFullA (r : Int) (state : List Nat) : List Nat :=
  goldenposeidon_mix (goldenposeidon_ark (goldenposeidon_exp7state state) ((r + 1) * 12)) (r == 3)

/-- body of the partial-round loop. -/
def gPartial (r : Int) (state : List Nat) : List Nat :=
  let st1 := Go.set state 0 (goldenposeidon_exp7 (Go.idx state 0))
  let st2 := Go.set st1 0 (Go.fe.add gp (Go.idx st1 0) (Go.idx Go.Ext.golden_C (60 + r)))
  let mul0 := Go.fe.mul gp (Go.idx Go.Ext.golden_S (23 * r)) (Go.idx st2 0)
  let s0 := Go.fe.add gp goldenposeidon_zero mul0
  let p := Go.forRange (σ := List Nat × Nat × Nat) 1 12 (fun i x =>
      (Go.set x.1 i (Go.fe.add gp (Go.idx x.1 i)
          (Go.fe.mul gp (Go.idx Go.Ext.golden_S ((((23 * r) + 12) + i) - 1)) (Go.idx x.1 0))),
       Go.fe.add gp x.2.1 (Go.fe.mul gp (Go.idx Go.Ext.golden_S ((23 * r) + i)) (Go.idx x.1 i)),
       Go.fe.mul gp (Go.idx Go.Ext.golden_S ((((23 * r) + 12) + i) - 1)) (Go.idx x.1 0)))
      (st2, s0, mul0)
  Go.set p.1 0 p.2.1

/-- body of the last full-round loop. -/
def gFullB (r : Int) (state : List Nat) : List Nat :=
  goldenposeidon_mix
    (if decide (r < 3) then goldenposeidon_ark (goldenposeidon_exp7state state) (((5 + r) * 12) + 22)
     else goldenposeidon_exp7state state) false

end GoldenAux

theorem goldenposeidon_Hash_unfold (inp cap : List Nat) :
    goldenposeidon_Hash inp cap =
      ([Go.idx (Go.forRange 0 4 gFullB (Go.forRange 0 22 gPartial (Go.forRange 0 4 gFullA (gArk0 (gInit inp cap))))) 0,
        Go.idx (Go.forRange 0 4 gFullB (Go.forRange 0 22 gPartial (Go.forRange 0 4 gFullA (gArk0 (gInit inp cap))))) 1,
        Go.idx (Go.forRange 0 4 gFullB (Go.forRange 0 22 gPartial (Go.forRange 0 4 gFullA (gArk0 (gInit inp cap))))) 2,
        Go.idx (Go.forRange 0 4 gFullB (Go.forRange 0 22 gPartial (Go.forRange 0 4 gFullA (gArk0 (gInit inp cap))))) 3],
       default) := by
  unfold goldenposeidon_Hash gFullB gPartial gFullA gArk0 gInit
  generalize (12 : Int) = n
  generalize (4 : Int) = n4
  generalize (22 : Int) = n22
  generalize (8 : Int) = n8
  rfl

namespace GoldenAux
/-! ### the pieces against the model -/

theorem list_eq_of_length_8 (l : List Nat) (h : l.length = 8) :
    ∃ a0 a1 a2 a3 a4 a5 a6 a7, l = [a0, a1, a2, a3, a4, a5, a6, a7] := by
  rcases l with _|⟨a0,_|⟨a1,_|⟨a2,_|⟨a3,_|⟨a4,_|⟨a5,_|⟨a6,_|⟨a7,_|⟨a8,t⟩⟩⟩⟩⟩⟩⟩⟩⟩ <;>
    first | exact ⟨_, _, _, _, _, _, _, _, rfl⟩ | (simp at h)

theorem list_eq_of_length_4 (l : List Nat) (h : l.length = 4) : ∃ a0 a1 a2 a3, l = [a0, a1, a2, a3] := by
  rcases l with _|⟨a0,_|⟨a1,_|⟨a2,_|⟨a3,_|⟨a4,t⟩⟩⟩⟩⟩ <;>
    first | exact ⟨_, _, _, _, rfl⟩ | (simp at h)

/-- the loading loops: inputs followed by capacity, every word reduced. -/
theorem gInit_eq (inp cap : List Nat) (hi : inp.length = 8) (hc : cap.length = 4) :
    gInit inp cap = (inp ++ cap).map (· % gp) := by
  obtain ⟨a0, a1, a2, a3, a4, a5, a6, a7, rfl⟩ := list_eq_of_length_8 inp hi
  obtain ⟨c0, c1, c2, c3, rfl⟩ := list_eq_of_length_4 cap hc
  rfl

theorem goldenC_len : 118 ≤ Inst.goldenTab.C.length := Lemmas.Guards.tablesOk_C goldenTab_ok
theorem goldenS_len : 506 ≤ Inst.goldenTab.S.length := Lemmas.Guards.tablesOk_S goldenTab_ok

theorem gArk0_eq (state : List Nat) (hst : state.length = 12) :
    gArk0 state = ark gp state Inst.goldenTab.C 0 := by
  have e12 : (12 : Int) = Go.len state := by rw [len_eq_length, hst]; rfl
  unfold gArk0
  rw [e12]
  have := goldenC_len
  exact (forRange_congr _ _ _ _ (fun i a _ _ => by
    show _ = Go.set a i (Go.fe.add gp (Go.idx a i) (Go.idx Inst.goldenTab.C (((0 : Nat) : Int) + i)))
    rw [show ((0 : Nat) : Int) + i = i by simp]; rfl) state).trans
    (arkLoop_eq state Inst.goldenTab.C 0 (by omega))

/-- a full round of the model keeps width 12 when the constants exist. -/
theorem fullRound_len12 (mat : List (List Nat)) (st : List Nat) (it : Nat) (hst : st.length = 12)
    (hit : it + 12 ≤ Inst.goldenTab.C.length) :
    (mix gp mat (ark gp (sboxAll gp 7 st) Inst.goldenTab.C it)).length = 12 := by
  rw [Lemmas.Guards.fullRound_length _ _ _ _ _ _ (by omega), hst]

theorem gFull_core (state : List Nat) (it : Nat) (opt : Bool) (hst : state.length = 12)
    (hit : it + 12 ≤ Inst.goldenTab.C.length) :
    goldenposeidon_mix (goldenposeidon_ark (goldenposeidon_exp7state state) (it : Int)) opt =
      mix gp (if opt then Inst.goldenTab.P else Inst.goldenTab.M) (ark gp (sboxAll gp 7 state) Inst.goldenTab.C it) := by
  have hl : (sboxAll gp 7 state).length = 12 := by rw [Lemmas.Guards.sboxAll_length, hst]
  rw [goldenposeidon_exp7state_eq, goldenposeidon_ark_eq _ _ (by omega), goldenposeidon_mix_eq]
  rw [Lemmas.Guards.ark_length _ _ _ _ (by omega), hl]

/-- the first four full rounds: three with `M`, the fourth with the pre-sparse matrix `P`. -/
theorem gFullA_loop (s1 : List Nat) (hst : s1.length = 12) :
    Go.forRange 0 4 gFullA s1 =
      mix gp Inst.goldenTab.P (ark gp (sboxAll gp 7
        ((List.range 3).foldl (fun st i => mix gp Inst.goldenTab.M
          (ark gp (sboxAll gp 7 st) Inst.goldenTab.C ((i + 1) * 12))) s1)) Inst.goldenTab.C (4 * 12)) := by
  have hC := goldenC_len
  rw [forRange_four, foldl_range_three]
  unfold gFullA
  have e0 : (((0 : Int) + 1) * 12) = (((0 + 1) * 12 : Nat) : Int) := by decide
  have e1 : (((1 : Int) + 1) * 12) = (((1 + 1) * 12 : Nat) : Int) := by decide
  have e2 : (((2 : Int) + 1) * 12) = (((2 + 1) * 12 : Nat) : Int) := by decide
  have e3 : (((3 : Int) + 1) * 12) = ((4 * 12 : Nat) : Int) := by decide
  have b0 : ((0 : Int) == 3) = false := by decide
  have b1 : ((1 : Int) == 3) = false := by decide
  have b2 : ((2 : Int) == 3) = false := by decide
  have b3 : ((3 : Int) == 3) = true := by decide
  rw [e0, e1, e2, e3, b0, b1, b2, b3]
  have l1 := fullRound_len12 Inst.goldenTab.M s1 ((0 + 1) * 12) hst (by omega)
  rw [gFull_core s1 _ false hst (by omega)]
  simp only [Bool.false_eq_true, if_false]
  have l2 := fullRound_len12 Inst.goldenTab.M _ ((1 + 1) * 12) l1 (by omega)
  rw [gFull_core _ _ false l1 (by omega)]
  simp only [Bool.false_eq_true, if_false]
  have l3 := fullRound_len12 Inst.goldenTab.M _ ((2 + 1) * 12) l2 (by omega)
  rw [gFull_core _ _ false l2 (by omega)]
  simp only [Bool.false_eq_true, if_false]
  rw [gFull_core _ _ true l3 (by omega)]
  simp only [if_true]

/-- iteration `k < 22` of the partial-round loop is the model's `partialRound` on every state of width 12. -/
theorem gPartial_eq (k : Nat) (hk : k < 22) (state : List Nat) (hst : state.length = 12) :
    gPartial (k : Int) state = partialRound gp 7 12 Inst.goldenTab.C Inst.goldenTab.S state k := by
  have hS := goldenS_len
  cases state with
  | nil => simp at hst
  | cons s0 rest =>
  have hrest : rest.length = 11 := by simp at hst; omega
  set C := Inst.goldenTab.C with hCdef
  set S := Inst.goldenTab.S with hSdef
  set a0 : Nat := (powMod s0 7 gp + C.getD ((4 + 1) * 12 + k) 0) % gp with ha0
  have eC : ((60 : Int) + (k : Int)) = (((4 + 1) * 12 + k : Nat) : Int) := by omega
  have eS0 : ((23 : Int) * (k : Int)) = ((23 * k : Nat) : Int) := by omega
  have eS1 : ∀ j : Nat, (((23 * k : Nat) : Int) + ((1 + j : Nat) : Int)) = ((23 * k + (1 + j) : Nat) : Int) := by
    intro j; omega
  have eS2 : ∀ j : Nat, (((((23 * k : Nat) : Int)) + 12) + ((1 + j : Nat) : Int)) - 1 = ((23 * k + 12 + j : Nat) : Int) := by
    intro j; omega
  have hst2 : Go.set (Go.set (s0 :: rest) 0 (goldenposeidon_exp7 (Go.idx (s0 :: rest) 0))) 0
      (Go.fe.add gp (Go.idx (Go.set (s0 :: rest) 0 (goldenposeidon_exp7 (Go.idx (s0 :: rest) 0))) 0)
        (Go.idx Go.Ext.golden_C (60 + (k : Int)))) = a0 :: rest := by
    rw [eC]; rfl
  unfold gPartial
  simp only [hst2]
  have hidx0 : Go.idx (a0 :: rest) 0 = a0 := rfl
  rw [hidx0, eS0]
  -- the loop over lanes 1..11 as a fold on `(rest, s0)`
  have hloop : ∀ (F : Int → List Nat × Nat × Nat → List Nat × Nat × Nat) (x : List Nat × Nat × Nat),
      Go.forRange 1 12 F x = (List.range 11).foldl (fun s (j : Nat) => F ((1 + j : Nat) : Int) s) x :=
    fun F x => forRange_one_nat 12 F x
  rw [hloop]
  simp only [eS1, eS2, idx_natCast, set_natCast, idx_zero, set_zero]
  have hrel := foldl_rel
    (fun (x : List Nat × Nat × Nat) (y : List Nat × Nat) => x.1 = a0 :: y.1 ∧ x.2.1 = y.2)
    (fun (x : List Nat × Nat × Nat) (j : Nat) =>
      (x.1.set (1 + j) (Go.fe.add gp (x.1.getD (1 + j) default)
          (Go.fe.mul gp (Go.Ext.golden_S.getD (23 * k + 12 + j) default) (x.1.getD 0 default))),
       Go.fe.add gp x.2.1 (Go.fe.mul gp (Go.Ext.golden_S.getD (23 * k + (1 + j)) default) (x.1.getD (1 + j) default)),
       Go.fe.mul gp (Go.Ext.golden_S.getD (23 * k + 12 + j) default) (x.1.getD 0 default)))
    (fun (y : List Nat × Nat) (j : Nat) =>
      (y.1.set (0 + j) ((fun j x => (x + S.getD (23 * k + 12 + j) 0 * a0 % gp) % gp) j (y.1.getD (0 + j) 0)),
       (fun j s x => (s + S.getD (23 * k + (1 + j)) 0 * x % gp) % gp) j y.2 (y.1.getD (0 + j) 0)))
    (List.range 11)
    (by
      rintro ⟨x1, x2, x3⟩ ⟨y1, y2⟩ j _ ⟨h1, h2⟩
      simp only at h1 h2
      subst h1 h2
      simp only [Nat.zero_add, Nat.add_comm 1 j, List.set_cons_succ, List.getD_cons_succ, List.getD_cons_zero]
      exact ⟨rfl, rfl⟩)
    (a0 :: rest, Go.fe.add gp goldenposeidon_zero (Go.fe.mul gp (Go.Ext.golden_S.getD (23 * k) default) a0),
      Go.fe.mul gp (Go.Ext.golden_S.getD (23 * k) default) a0)
    (rest, (0 + S.getD (23 * k) 0 * a0 % gp) % gp) ⟨rfl, rfl⟩
  rw [foldl_range_set (0 : Nat)
    (fun j x => (x + S.getD (23 * k + 12 + j) 0 * a0 % gp) % gp)
    (fun j s x => (s + S.getD (23 * k + (1 + j)) 0 * x % gp) % gp) 0 rest
    ((0 + S.getD (23 * k) 0 * a0 % gp) % gp) 11] at hrel
  obtain ⟨h1, h2⟩ := hrel
  simp only at h1 h2
  rw [h1, h2]
  show _ :: _ = _
  unfold partialRound
  simp only
  have hb : (12 * 2 - 1) * k = 23 * k := rfl
  rw [hb, ← ha0]
  congr 1
  · -- lane 0
    rw [foldl_zipWith_range (fun a b => a * b) (fun a b => (a + b) % gp) 0 0]
    have hmin : min (S.drop (23 * k)).length (a0 :: rest).length = 11 + 1 := by
      rw [List.length_drop, List.length_cons, hrest]; omega
    have hsplit : ∀ (G : Nat → Nat → Nat) (a : Nat),
        (List.range (11 + 1)).foldl G a = (List.range 11).foldl (fun a j => G a (j + 1)) (G a 0) := by
      intro G a; rw [List.range_succ_eq_map, List.foldl_cons, List.foldl_map]
    rw [hmin, hsplit]
    have hinit : (0 + S.getD (23 * k) 0 * a0 % gp) % gp =
        (0 + (S.drop (23 * k)).getD 0 0 * (a0 :: rest).getD 0 0) % gp := by
      rw [getD_drop', Nat.add_mod_mod]; rfl
    rw [hinit]
    apply foldl_congr
    intro a j _
    rw [getD_drop', List.getD_cons_succ, Nat.add_mod_mod, Nat.zero_add, Nat.add_comm 1 j]
  · -- lanes 1..11
    apply List.ext_getElem? ; intro j
    rw [List.getElem?_mapIdx, List.getElem?_zipWith, List.getElem?_drop]
    by_cases hj : j < rest.length
    · have hj2 : 23 * k + 12 + j < S.length := by omega
      have c : 0 ≤ j ∧ j < 0 + 11 := by omega
      rw [List.getElem?_eq_getElem hj, List.getElem?_eq_getElem hj2]
      simp only [c, and_self, if_true, Option.map_some, Nat.sub_zero, getD_of_lt S _ 0 hj2, Nat.add_mod_mod,
        Nat.mul_comm a0]
    · rw [List.getElem?_eq_none (by omega)]; rfl

/-- the 22 partial rounds. -/
theorem gPartial_loop (s3 : List Nat) (hst : s3.length = 12) :
    Go.forRange 0 22 gPartial s3 =
        (List.range 22).foldl (partialRound gp 7 12 Inst.goldenTab.C Inst.goldenTab.S) s3 ∧
      ((List.range 22).foldl (partialRound gp 7 12 Inst.goldenTab.C Inst.goldenTab.S) s3).length = 12 := by
  have hS := goldenS_len
  have e22 : (22 : Int) = ((22 : Nat) : Int) := rfl
  rw [e22, forRange_zero_nat]
  apply foldl_rel (fun (a b : List Nat) => a = b ∧ b.length = 12) _ _ _ _ s3 s3 ⟨rfl, hst⟩
  rintro a b k hk ⟨rfl, hb⟩
  have hk' : k < 22 := List.mem_range.1 hk
  exact ⟨gPartial_eq k hk' a hb,
    Lemmas.Guards.partialRound_length _ _ _ _ _ _ _ hb (by omega)⟩

/-- the last four full rounds: three with constants, the last one without. -/
theorem gFullB_loop (s4 : List Nat) (hst : s4.length = 12) :
    Go.forRange 0 4 gFullB s4 =
      mix gp Inst.goldenTab.M (sboxAll gp 7
        ((List.range 3).foldl (fun st i => mix gp Inst.goldenTab.M
          (ark gp (sboxAll gp 7 st) Inst.goldenTab.C ((4 + 1) * 12 + 22 + i * 12))) s4)) := by
  have hC := goldenC_len
  rw [forRange_four, foldl_range_three]
  unfold gFullB
  have e0 : ((((5 : Int) + 0) * 12) + 22) = (((4 + 1) * 12 + 22 + 0 * 12 : Nat) : Int) := by decide
  have e1 : ((((5 : Int) + 1) * 12) + 22) = (((4 + 1) * 12 + 22 + 1 * 12 : Nat) : Int) := by decide
  have e2 : ((((5 : Int) + 2) * 12) + 22) = (((4 + 1) * 12 + 22 + 2 * 12 : Nat) : Int) := by decide
  have b0 : decide ((0 : Int) < 3) = true := by decide
  have b1 : decide ((1 : Int) < 3) = true := by decide
  have b2 : decide ((2 : Int) < 3) = true := by decide
  have b3 : decide ((3 : Int) < 3) = false := by decide
  rw [e0, e1, e2, b0, b1, b2, b3]
  simp only [if_true, Bool.false_eq_true, if_false]
  have l1 := fullRound_len12 Inst.goldenTab.M s4 ((4 + 1) * 12 + 22 + 0 * 12) hst (by omega)
  rw [gFull_core s4 _ false hst (by omega)]
  simp only [Bool.false_eq_true, if_false]
  have l2 := fullRound_len12 Inst.goldenTab.M _ ((4 + 1) * 12 + 22 + 1 * 12) l1 (by omega)
  rw [gFull_core _ _ false l1 (by omega)]
  simp only [Bool.false_eq_true, if_false]
  have l3 := fullRound_len12 Inst.goldenTab.M _ ((4 + 1) * 12 + 22 + 2 * 12) l2 (by omega)
  rw [gFull_core _ _ false l2 (by omega)]
  simp only [Bool.false_eq_true, if_false]
  rw [goldenposeidon_exp7state_eq, goldenposeidon_mix_eq _ _ (by rw [Lemmas.Guards.sboxAll_length, l3])]
  simp only [Bool.false_eq_true, if_false]

theorem take4_eq (s : List Nat) (h : 4 ≤ s.length) :
    [Go.idx s 0, Go.idx s 1, Go.idx s 2, Go.idx s 3] = s.take 4 := by
  rcases s with _|⟨a0,_|⟨a1,_|⟨a2,_|⟨a3,t⟩⟩⟩⟩ <;> first | rfl | (simp at h)

/-! ## `Hash` against the model -/

/-- the generated loop structure is the model's `permute` at the Goldilocks instance, on every state of
    width 12. -/
theorem goldenPermute_eq (st0 : List Nat) (hst : st0.length = 12) :
    Go.forRange 0 4 gFullB (Go.forRange 0 22 gPartial (Go.forRange 0 4 gFullA (gArk0 st0))) =
      permute gp 7 Inst.goldenTab 12 22 st0 := by
  have hC := goldenC_len
  unfold permute
  simp only
  have l1 : (ark gp st0 Inst.goldenTab.C 0).length = 12 := by
    rw [Lemmas.Guards.ark_length _ _ _ _ (by omega), hst]
  rw [gArk0_eq st0 hst, gFullA_loop _ l1]
  have l2 : ((List.range 3).foldl (fun st i => mix gp Inst.goldenTab.M
      (ark gp (sboxAll gp 7 st) Inst.goldenTab.C ((i + 1) * 12))) (ark gp st0 Inst.goldenTab.C 0)).length = 12 := by
    refine Lemmas.Guards.foldl_range_inv (α := List Nat) (fun st => st.length = 12) _ _ ?_ _ l1
    intro a i hi ha
    exact fullRound_len12 _ a _ ha (by omega)
  have l3 := fullRound_len12 Inst.goldenTab.P _ (4 * 12) l2 (by omega)
  obtain ⟨h4, l4⟩ := gPartial_loop _ l3
  rw [h4, gFullB_loop _ l4]

end GoldenAux

/-- **Bridge theorem (Goldilocks Poseidon).**  For every 8-word input and 4-word capacity (arbitrary
    naturals), the generated `goldenposeidon_Hash` returns the model's hash and a `nil` error. -/
theorem goldenposeidon_Hash_eq (inp cap : List Nat) (hi : inp.length = 8) (hc : cap.length = 4) :
    goldenposeidon_Hash inp cap =
      (Model.Golden.hash Inst.goldenTab Gen.golden_sboxExp Gen.golden_mLen Gen.golden_NROUNDSP Gen.golden_CAPLEN
        inp cap, none) := by
  have hl : ((inp ++ cap).map (· % gp)).length = 12 := by simp [hi, hc]
  have hm : Model.Golden.hash Inst.goldenTab Gen.golden_sboxExp Gen.golden_mLen Gen.golden_NROUNDSP
      Gen.golden_CAPLEN inp cap = (permute gp 7 Inst.goldenTab 12 22 ((inp ++ cap).map (· % gp))).take 4 := rfl
  rw [goldenposeidon_Hash_unfold, gInit_eq inp cap hi hc, goldenPermute_eq _ hl, hm, take4_eq]
  · rfl
  · rw [Lemmas.Guards.permute_length gp 7 Inst.goldenTab 12 22 _ goldenTab_ok hl]; omega

/-- the same with the parameters spelled out. -/
theorem goldenposeidon_Hash_eq' (inp cap : List Nat) (hi : inp.length = 8) (hc : cap.length = 4) :
    goldenposeidon_Hash inp cap = (Model.Golden.hash Inst.goldenTab 7 12 22 4 inp cap, none) :=
  goldenposeidon_Hash_eq inp cap hi hc

end I3.GoBridge
