/-
  I3.Lemmas.LimbTac — `limb_eval [f₁, f₂, …]`: symbolic execution of the straight-line limb programs
  produced by the translator T2 (I3.Gen.FFLimbs / I3.Gen.FFGLimbs).  It proves a goal `lhs = rhs` by
  evaluating both sides and comparing the results.

  Why a tactic: the generated definitions are chains `let (a, b) := f x; …` (auxiliary matchers on
  `Nat × Nat`).  `simp`/`dsimp`/`unfold`/`delta`/`rfl` reduce such a `match` on a non-constructor
  discriminant through structure eta (duplicating the discriminant: exponential terms), and — worse —
  make the KERNEL reduce the chain: it then evaluates `if decide (borrow ≠ 0)` on open terms
  containing `2^64` literals and diverges ("deep recursion", > 250 s for a two-limb toy).  Here every
  step is an explicit rewriting proof (`congrArg` on the discriminant + the matcher's own equation
  lemma + `if_pos`/`if_neg`), the only definitional steps left to the kernel being δ of one constant
  against its own body and β/ζ between syntactically equal terms.  Type checking a whole
  `mulGeneric` evaluation takes milliseconds.
-/
import Lean
import I3.Exec.Word
namespace I3.LimbTac
open Lean Meta Elab Tactic

structure Ctx where
  eqs : Array (Expr × Expr × Expr) := #[]   -- lhs, rhs, proof of lhs = rhs
  props : Array (Expr × Expr) := #[]        -- proposition, proof
  unfold : NameSet := {}

def findEq (c : Ctx) (e : Expr) : Option (Expr × Expr) :=
  c.eqs.findSome? fun (l, r, h) => if l == e then some (r, h) else none

def findProp (c : Ctx) (p : Expr) : Option Expr :=
  c.props.findSome? fun (q, h) => if q == p then some h else none

/-- decide a condition from the hypotheses: `some (true, h : cnd)` or `some (false, h : ¬ cnd)` -/
def decideCond (c : Ctx) (cnd : Expr) : MetaM (Option (Bool × Expr)) := do
  if let some h := findProp c cnd then return some (true, h)
  if let some h := findProp c (mkNot cnd) then return some (false, h)
  -- `decide q = true`
  if let some (_, lhs, rhs) := cnd.eq? then
    if rhs.isConstOf ``Bool.true && lhs.isAppOfArity ``Decidable.decide 2 then
      let q := lhs.getArg! 0
      let inst := lhs.getArg! 1
      if let some h := findProp c q then
        return some (true, mkApp3 (mkConst ``decide_eq_true) q inst h)
      if let some h := findProp c (mkNot q) then
        -- fun hd => h (of_decide_eq_true hd)
        let pf ← withLocalDeclD `hd cnd fun hd =>
          mkLambdaFVars #[hd] (mkApp h (mkApp3 (mkConst ``of_decide_eq_true) q inst hd))
        return some (false, pf)
      -- q is `a ≠ b` and `¬ a = b` or `a = b` is known
      if q.isAppOfArity ``Ne 3 then
        let eq := mkApp3 (mkConst ``Eq q.getAppFn.constLevels!) (q.getArg! 0) (q.getArg! 1) (q.getArg! 2)
        if let some h := findProp c (mkNot eq) then
          return some (true, mkApp3 (mkConst ``decide_eq_true) q inst h)
        if let some h := findProp c eq then
          let pf ← withLocalDeclD `hd cnd fun hd =>
            mkLambdaFVars #[hd] (mkApp (mkApp3 (mkConst ``of_decide_eq_true) q inst hd) h)
          return some (false, pf)
  return none

/-- split a right-nested tuple into `n` components -/
def tupleComps (e : Expr) (n : Nat) : MetaM (Array Expr) := do
  let mut e := e
  let mut out := #[]
  for _ in [0:n-1] do
    unless e.isAppOfArity ``Prod.mk 4 do
      throwError "limb_eval: expected a tuple, got{indentExpr e}"
    out := out.push (e.getArg! 2)
    e := e.getArg! 3
  return out.push e

mutual
/-- evaluate `e`, returning `e'` and a proof of `e = e'` -/
partial def evalE (c : Ctx) (e : Expr) : MetaM (Expr × Expr) := do
  let e := e.consumeMData
  if let some r := findEq c e then return r
  if let .letE _ _ v b _ := e then
    return ← evalE c (b.instantiate1 v)
  if let some r ← evalMatcher? c e then return r
  if e.isAppOfArity ``ite 5 then
    let args := e.getAppArgs
    let some (b, h) ← decideCond c args[1]!
      | throwError "limb_eval: cannot decide the condition{indentExpr args[1]!}"
    let lem := if b then ``if_pos else ``if_neg
    let step ← mkAppOptM lem #[args[1]!, args[2]!, h, args[0]!, args[3]!, args[4]!]
    let (e', h') ← evalE c (if b then args[3]! else args[4]!)
    return (e', ← mkEqTrans step h')
  if let .const n lvls := e.getAppFn then
    if c.unfold.contains n then
      let info ← getConstInfo n
      let v ← instantiateValueLevelParams info lvls
      let f := e.getAppFn
      let mut h ← mkExpectedTypeHint (← mkEqRefl f) (← mkEq f v)
      for a in e.getAppArgs do
        h ← mkCongrFun h a
      let (e', h') ← evalE c (v.beta e.getAppArgs)
      return (e', ← mkEqTrans h h')
  return (e, ← mkEqRefl e)

/-- evaluate the discriminant of a `match` to a tuple -/
partial def evalD (c : Ctx) (d : Expr) : MetaM (Expr × Expr) := do
  let d := d.consumeMData
  if let some r := findEq c d then return r
  if d.isAppOfArity ``Prod.mk 4 then return (d, ← mkEqRefl d)
  let (d', h) ← evalE c d
  if d' == d then
    throwError "limb_eval: no equation for the discriminant{indentExpr d}"
  return (d', h)

partial def evalMatcher? (c : Ctx) (e : Expr) : MetaM (Option (Expr × Expr)) := do
  let .const n lvls := e.getAppFn | return none
  let some info ← getMatcherInfo? n | return none
  unless info.numDiscrs == 1 && info.numAlts == 1 && info.numParams == 0 && e.getAppNumArgs == 3 do
    throwError "limb_eval: unsupported match{indentExpr e}"
  let args := e.getAppArgs
  let motive := args[0]!
  let d := args[1]!
  let alt := args[2]!
  let (d', hd) ← evalD c d
  let comps ← tupleComps d' info.altNumParams[0]!
  let eqns ← Match.getEquationsFor n
  let eqn := mkAppN (mkConst eqns.eqnNames[0]! lvls) (#[motive] ++ comps ++ #[alt])
  let f ← withLocalDeclD `p (← inferType d) fun p =>
    mkLambdaFVars #[p] (mkApp3 e.getAppFn motive p alt)
  let h1 ← mkCongrArg f hd
  let (e', h3) ← evalE c (alt.beta comps)
  return some (e', ← mkEqTrans h1 (← mkEqTrans eqn h3))
end

def mkCtx (unfold : Array Name) : MetaM Ctx := do
  let mut c : Ctx := { unfold := unfold.foldl (·.insert ·) {} }
  for ldecl in ← getLCtx do
    if ldecl.isImplementationDetail then continue
    let ty ← instantiateMVars ldecl.type
    unless ← isProp ty do continue
    -- `p → False` is recorded as `¬ p`
    let ty := if ty.isArrow && ty.bindingBody!.isConstOf ``False then mkNot ty.bindingDomain! else ty
    c := { c with props := c.props.push (ty, ldecl.toExpr) }
    if let some (_, lhs, rhs) := ty.eq? then
      c := { c with eqs := c.eqs.push (lhs.consumeMData, rhs, ldecl.toExpr) }
  return c

/-- `limb_eval [f, g, …]` proves `lhs = rhs` by symbolic execution of both sides: `let`s are
inlined, the listed functions are unfolded, a `match d with | (a, b, …) => …` is stepped with a
hypothesis `h : d = (a₀, b₀, …)` from the local context and the matcher's equation lemma, and an
`if c then … else …` is resolved by a hypothesis `c`, `¬ c` (or `p`, `¬ p` for `c = (decide p = true)`).
All steps are explicit rewriting proofs, so that the kernel never has to reduce a `match`. -/
elab "limb_eval" "[" ids:ident,* "]" : tactic => withMainContext do
  let names ← ids.getElems.mapM fun id => realizeGlobalConstNoOverload id
  let c ← mkCtx names
  let g ← getMainGoal
  let tgt ← instantiateMVars (← g.getType)
  let some (_, lhs, rhs) := tgt.eq? | throwError "limb_eval: the goal is not an equation"
  let (l', hl) ← evalE c lhs
  let (r', hr) ← evalE c rhs
  unless l' == r' || (← withReducible <| isDefEq l' r') do
    throwError "limb_eval: the two sides evaluate to{indentExpr l'}\nand{indentExpr r'}"
  g.assign (← mkEqTrans hl (← mkEqSymm hr))
  replaceMainGoal []

end I3.LimbTac

/-! ### relational specifications of the word primitives -/
namespace I3.Word

theorem add64_spec (a b c : Nat) (ha : a < W) (hb : b < W) (hc : c ≤ 1) :
    ∃ s k, add64 a b c = (s, k) ∧ s < W ∧ k ≤ 1 ∧ s + k * W = a + b + c := by
  refine ⟨_, _, rfl, ?_, ?_, ?_⟩ <;> (simp only [W] at *; omega)

theorem sub64_spec (a b c : Nat) (ha : a < W) (hb : b < W) (hc : c ≤ 1) :
    ∃ d k, sub64 a b c = (d, k) ∧ d < W ∧ k ≤ 1 ∧ d + b + c = a + k * W := by
  refine ⟨_, _, rfl, ?_, ?_, ?_⟩ <;> (simp only [W] at *; omega)

theorem mul_le_words (a b : Nat) (ha : a < W) (hb : b < W) : a * b ≤ (W - 1) * (W - 1) :=
  Nat.mul_le_mul (by omega) (by omega)

end I3.Word
