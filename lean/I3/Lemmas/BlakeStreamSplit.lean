/-
  I3.Lemmas.BlakeStreamSplit — the stream model `I3.Model.BlakeStream.Digest.write` does not depend on how the data
  is split into `Write` calls: `(d.write p).write q = d.write (p ++ q)` for every digest whose buffer is not full.
  Route: `write` has the closed form `canon` (all whole blocks of `d.x ++ p` compressed, the remainder buffered).
  Core-only.
-/
import I3.Props.C20Blake
namespace I3.Lemmas.BlakeStreamSplit
open I3 I3.Model.BlakeStream I3.Props.C20

theorem block_append (d : Digest) (a b : Bytes) (j : Nat) (ha : a.length = 128 * j) :
    d.block (a ++ b) = (d.block a).block b := by
  induction j generalizing d a with
  | zero =>
    have : a = [] := List.eq_nil_of_length_eq_zero (by omega)
    subst this
    rw [block_short d [] (by simp)]; rfl
  | succ j ih =>
    have hl : 128 ≤ a.length := by omega
    rw [block_long d (a ++ b) (by simp; omega), block_long d a hl, List.take_append_of_le_length hl,
        List.drop_append_of_le_length hl]
    exact ih _ _ (by simp; omega)

/-- the closed form of `write`. -/
def canon (d : Digest) (p : Bytes) : Digest :=
  { ({ d with x := [] } : Digest).block ((d.x ++ p).take ((d.x ++ p).length / 128 * 128)) with
    x := (d.x ++ p).drop ((d.x ++ p).length / 128 * 128) }

theorem canon_short (d : Digest) (p : Bytes) (hp : d.x.length + p.length < 128) :
    canon d p = { d with x := d.x ++ p } := by
  have h0 : (d.x ++ p).length / 128 = 0 := by simp; omega
  simp only [canon, h0, Nat.zero_mul, List.take_zero, List.drop_zero]
  rw [block_short _ _ (by simp)]

theorem canon_empty (d : Digest) (p : Bytes) (hx : d.x = []) :
    canon d p = { d.block (p.take (p.length / 128 * 128)) with x := p.drop (p.length / 128 * 128) } := by
  obtain ⟨h, t, nt, x⟩ := d
  simp only at hx; subst hx
  simp only [canon, List.nil_append]

/-- `write` when the first statement has flushed the buffer: the rest is a `write` on an empty buffer. -/
theorem write_flush (d : Digest) (p : Bytes) (h0 : 0 < d.x.length) (hp : 128 ≤ d.x.length + p.length)
    (hx : d.x.length < 128) :
    d.write p = ({ step { d with x := [] } (d.x ++ p.take (128 - d.x.length)) with x := [] } : Digest).write
                  (p.drop (128 - d.x.length)) := by
  have hn : (if p.length > 128 - d.x.length then 128 - d.x.length else p.length) = 128 - d.x.length := by
    split <;> omega
  have hl : (d.x ++ p.take (128 - d.x.length)).length = 128 := by simp; omega
  have hf : d.fill p = (({ step { d with x := [] } (d.x ++ p.take (128 - d.x.length)) with x := [] } : Digest),
                        p.drop (128 - d.x.length)) := by
    have hb := block_one { d with x := d.x ++ p.take (128 - d.x.length) } _ hl
    simp only [Digest.fill, gt_iff_lt, h0, if_true, hn, hl, hb]
    rfl
  have hf2 : ∀ (e : Digest) (r : Bytes), e.x = [] → e.fill r = (e, r) := by
    intro e r he; simp [Digest.fill, he]
  rw [Digest.write, hf, Digest.write, hf2 _ _ rfl]

theorem write_canon (d : Digest) (hx : d.x.length < 128) (p : Bytes) : d.write p = canon d p := by
  by_cases h1 : d.x.length + p.length < 128
  · rw [write_short d p h1, canon_short d p h1]
  · by_cases h0 : d.x.length = 0
    · have hx0 : d.x = [] := List.eq_nil_of_length_eq_zero h0
      rw [write_empty d p hx0, canon_empty d p hx0]
    · rw [write_flush d p (by omega) (by omega) hx, write_empty _ _ rfl]
      have hs : d.x ++ p = (d.x ++ p.take (128 - d.x.length)) ++ p.drop (128 - d.x.length) := by
        rw [List.append_assoc, List.take_append_drop]
      have hl : (d.x ++ p.take (128 - d.x.length)).length = 128 := by simp; omega
      generalize hblk : d.x ++ p.take (128 - d.x.length) = blk at hs hl
      generalize hrest : p.drop (128 - d.x.length) = rest at hs
      have hn : (blk ++ rest).length / 128 * 128 = 128 + rest.length / 128 * 128 := by
        rw [List.length_append, hl]; omega
      rw [canon, hs, hn, ← hl, List.take_length_add_append, List.drop_length_add_append,
          block_append _ blk _ 1 (by omega), block_one _ blk hl]
      rfl

theorem canon_x_length (d : Digest) (p : Bytes) : (canon d p).x.length < 128 := by
  simp only [canon, List.length_drop]; omega

theorem canon_canon (d : Digest) (p q : Bytes) : canon (canon d p) q = canon d (p ++ q) := by
  have hD : ({ canon d p with x := [] } : Digest) =
      ({ d with x := [] } : Digest).block ((d.x ++ p).take ((d.x ++ p).length / 128 * 128)) := by
    have hx := block_x ({ d with x := [] } : Digest) ((d.x ++ p).take ((d.x ++ p).length / 128 * 128))
    simp only [canon]
    revert hx
    generalize Digest.block _ _ = D
    obtain ⟨_, _, _, _⟩ := D
    intro hx; simp only at hx; subst hx; rfl
  have hx' : (canon d p).x = (d.x ++ p).drop ((d.x ++ p).length / 128 * 128) := rfl
  have hs2 : d.x ++ (p ++ q) = (d.x ++ p).take ((d.x ++ p).length / 128 * 128) ++
      ((d.x ++ p).drop ((d.x ++ p).length / 128 * 128) ++ q) := by
    rw [← List.append_assoc, ← List.append_assoc, List.take_append_drop]
  rw [canon, hD, hx']
  conv => rhs; rw [canon, hs2]
  generalize hs : d.x ++ p = s
  have hA' : (s.take (s.length / 128 * 128)).length = 128 * (s.length / 128) := by
    rw [List.length_take]; omega
  generalize hA : s.take (s.length / 128 * 128) = A at hA'
  generalize hB : s.drop (s.length / 128 * 128) = B
  have hN : (A ++ (B ++ q)).length / 128 * 128 = A.length + (B ++ q).length / 128 * 128 := by
    rw [List.length_append, hA']; omega
  rw [hN, List.take_length_add_append, List.drop_length_add_append, block_append _ A _ _ hA']

/-- **the stream model does not depend on how the data is split into `Write` calls.** -/
theorem write_write (d : Digest) (hx : d.x.length < 128) (p q : Bytes) :
    (d.write p).write q = d.write (p ++ q) := by
  rw [write_canon d hx p, write_canon _ (canon_x_length d p) q, write_canon d hx (p ++ q), canon_canon]

theorem write_x_length (d : Digest) (hx : d.x.length < 128) (p : Bytes) : (d.write p).x.length < 128 := by
  rw [write_canon d hx p]; exact canon_x_length d p

/-- a sequence of writes is one write of the concatenation. -/
theorem writes_join (d : Digest) (hx : d.x.length < 128) (ps : List Bytes) :
    ps.foldl (fun d p => d.write p) d = d.write ps.flatten := by
  induction ps generalizing d with
  | nil =>
    simp only [List.foldl, List.flatten_nil]
    rw [write_short d [] (by simp; omega)]
    simp
  | cons p ps ih =>
    rw [List.foldl, ih _ (write_x_length d hx p), List.flatten_cons, write_write d hx]

end I3.Lemmas.BlakeStreamSplit
