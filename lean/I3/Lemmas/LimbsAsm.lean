/-
  I3.Lemmas.LimbsAsm — arithmetic of the translated amd64 ASSEMBLY routines of package `ff`
  (I3.Gen.FFAsm, generated instruction by instruction from /repo/ff/element_ops_amd64.s,
  element_mul_amd64.s, element_mul_adx_amd64.s; instruction semantics in I3.Exec.Word).

  Method (the one of I3.Lemmas.Limbs).  Each instruction gets a relational specification
  (`addq_spec`, `adcq_spec`, `subq_spec`, `sbbq_spec`, `mul64_spec`: "∃ outputs, instr = outputs ∧ linear
  relation"); the generated straight-line code is executed symbolically on the named outputs by
  `limb_eval` (I3.Lemmas.LimbTac); the arithmetic is done by `omega` in small stand-alone lemmas.
    * REDUCE macro (`SUBQ/SBBQ q`, `CMOVQCS` of the saved copy): `reduce_core`.
    * add / double / MulBy3 / MulBy5 / MulBy13: carry chains followed by REDUCE: `addred_core`.
    * sub / Butterfly: borrow chain, then `q` masked by `CMOVQCC` is added back: `sub_core`.
    * MULX/ADCX/ADOX Montgomery multiplication: the generated code is shown EQUAL (by symbolic
      execution of both sides) to the composition `mulADX` of hand-named rounds `mulRound0`, `mulRound`
      (`(t, A) := t + x·y_i`, two interleaved carry chains) and `redRound` (`m := t0·qInv0 mod W`,
      `t := (t + m·q)/W + A·W³`); one lemma per round kind, then four rounds and REDUCE.
    * run-time dispatch `adx ≠ 1`: the routine IS the translated portable kernel (`mul_noadx`, …).
    * aliasing variants equal the base routine on the shared cells.
-/
import I3.Gen.FFAsm
import I3.Lemmas.Limbs
import Mathlib.Tactic.Ring
set_option linter.unusedVariables false
namespace I3.LimbsAsm
open I3.Word I3.Limbs I3.Gen

/-! ### instruction specifications -/

theorem addq_spec (a b : Nat) (ha : a < W) (hb : b < W) :
    ∃ s k, addq a b = (s, k) ∧ s < W ∧ k ≤ 1 ∧ s + k * W = a + b + 0 := by
  refine ⟨_, _, rfl, ?_, ?_, ?_⟩ <;> (simp only [W] at *; omega)

theorem adcq_spec (a b c : Nat) (ha : a < W) (hb : b < W) (hc : c ≤ 1) :
    ∃ s k, adcq a b c = (s, k) ∧ s < W ∧ k ≤ 1 ∧ s + k * W = a + b + c := by
  refine ⟨_, _, rfl, ?_, ?_, ?_⟩ <;> (simp only [W] at *; omega)

theorem subq_spec (a b : Nat) (ha : a < W) (hb : b < W) :
    ∃ d k, subq a b = (d, k) ∧ d < W ∧ k ≤ 1 ∧ d + b + 0 = a + k * W := by
  refine ⟨_, _, rfl, ?_, ?_, ?_⟩ <;> (simp only [W] at *; omega)

theorem sbbq_spec (a b c : Nat) (ha : a < W) (hb : b < W) (hc : c ≤ 1) :
    ∃ d k, sbbq a b c = (d, k) ∧ d < W ∧ k ≤ 1 ∧ d + b + c = a + k * W := by
  refine ⟨_, _, rfl, ?_, ?_, ?_⟩ <;> (simp only [W] at *; omega)

/-! ### the REDUCE macro -/

/-- arithmetic of the REDUCE macro -/
theorem reduce_arith (S D k : Nat) (hS : S < 2 * Q) (hD : D < R) (hk : k ≤ 1)
    (key : D + Q + 0 = S + k * R) :
    (k = 1 → S = S % Q) ∧ (¬ k = 1 → D = S % Q) := by
  simp only [Q, R, W] at *; omega

theorem cmov_pos (k s d : Nat) (h : k = 1) : cmov (decide (k = 1)) s d = s := by
  simp [cmov, h]
theorem cmov_neg (k s d : Nat) (h : ¬ k = 1) : cmov (decide (k = 1)) s d = d := by
  simp [cmov, h]

/-- the REDUCE macro: `SUBQ/SBBQ q`, then `CMOVQCS` of the saved copy -/
theorem reduce_core (s0 s1 s2 s3 : Nat)
    (h0 : s0 < W) (h1 : s1 < W) (h2 : s2 < W) (h3 : s3 < W) (h : val4 s0 s1 s2 s3 < 2 * Q) :
    ∃ d0 k0 d1 k1 d2 k2 d3 k3 r0 r1 r2 r3,
      subq s0 4891460686036598785 = (d0, k0) ∧ sbbq s1 2896914383306846353 k0 = (d1, k1) ∧
      sbbq s2 13281191951274694749 k1 = (d2, k2) ∧ sbbq s3 3486998266802970665 k2 = (d3, k3) ∧
      cmov (decide (k3 = 1)) s0 d0 = r0 ∧ cmov (decide (k3 = 1)) s1 d1 = r1 ∧
      cmov (decide (k3 = 1)) s2 d2 = r2 ∧ cmov (decide (k3 = 1)) s3 d3 = r3 ∧
      r0 < W ∧ r1 < W ∧ r2 < W ∧ r3 < W ∧ val4 r0 r1 r2 r3 = val4 s0 s1 s2 s3 % Q := by
  obtain ⟨d0, k0, e0, hd0, hk0, f0⟩ := subq_spec s0 4891460686036598785 h0 (by decide)
  obtain ⟨d1, k1, e1, hd1, hk1, f1⟩ := sbbq_spec s1 2896914383306846353 k0 h1 (by decide) hk0
  obtain ⟨d2, k2, e2, hd2, hk2, f2⟩ := sbbq_spec s2 13281191951274694749 k1 h2 (by decide) hk1
  obtain ⟨d3, k3, e3, hd3, hk3, f3⟩ := sbbq_spec s3 3486998266802970665 k2 h3 (by decide) hk2
  have key := sub_chain s0 s1 s2 s3 4891460686036598785 2896914383306846353 13281191951274694749
    3486998266802970665 d0 d1 d2 d3 k0 k1 k2 k3 0 f0 f1 f2 f3
  rw [val4_Q] at key
  have hD := val4_lt d0 d1 d2 d3 hd0 hd1 hd2 hd3
  obtain ⟨hp, hn⟩ := reduce_arith _ _ k3 h hD hk3 key
  by_cases hb : k3 = 1
  · exact ⟨d0, k0, d1, k1, d2, k2, d3, k3, s0, s1, s2, s3, e0, e1, e2, e3,
      cmov_pos _ _ _ hb, cmov_pos _ _ _ hb, cmov_pos _ _ _ hb, cmov_pos _ _ _ hb, h0, h1, h2, h3, hp hb⟩
  · exact ⟨d0, k0, d1, k1, d2, k2, d3, k3, d0, d1, d2, d3, e0, e1, e2, e3,
      cmov_neg _ _ _ hb, cmov_neg _ _ _ hb, cmov_neg _ _ _ hb, cmov_neg _ _ _ hb, hd0, hd1, hd2, hd3, hn hb⟩

theorem asm_reduce_ok (z0 z1 z2 z3 : Nat)
    (h0 : z0 < W) (h1 : z1 < W) (h2 : z2 < W) (h3 : z3 < W) (h : val4 z0 z1 z2 z3 < 2 * Q) :
    ∃ r0 r1 r2 r3, FFAsm.reduce z0 z1 z2 z3 = (r0, r1, r2, r3) ∧
      r0 < W ∧ r1 < W ∧ r2 < W ∧ r3 < W ∧ val4 r0 r1 r2 r3 = val4 z0 z1 z2 z3 % Q := by
  obtain ⟨d0, k0, d1, k1, d2, k2, d3, k3, r0, r1, r2, r3, e0, e1, e2, e3, c0, c1, c2, c3, g0, g1, g2, g3, hr⟩ :=
    reduce_core z0 z1 z2 z3 h0 h1 h2 h3 h
  subst c0 c1 c2 c3
  exact ⟨_, _, _, _, by limb_eval [FFAsm.reduce], g0, g1, g2, g3, hr⟩

/-! ### add, double -/

theorem no_carry (S k X Y : Nat) (key : S + k * R = X + Y + 0) (hX : X < Q) (hY : Y < Q) :
    S = X + Y ∧ S < 2 * Q := by
  simp only [Q, R, W] at *; omega

/-- `ADDQ/ADCQ` chain of two canonical operands followed by the REDUCE macro -/
theorem addred_core (x0 x1 x2 x3 y0 y1 y2 y3 : Nat)
    (hx0 : x0 < W) (hx1 : x1 < W) (hx2 : x2 < W) (hx3 : x3 < W)
    (hy0 : y0 < W) (hy1 : y1 < W) (hy2 : y2 < W) (hy3 : y3 < W)
    (hx : val4 x0 x1 x2 x3 < Q) (hy : val4 y0 y1 y2 y3 < Q) :
    ∃ s0 c0 s1 c1 s2 c2 s3 c3 d0 k0 d1 k1 d2 k2 d3 k3 r0 r1 r2 r3,
      addq x0 y0 = (s0, c0) ∧ adcq x1 y1 c0 = (s1, c1) ∧ adcq x2 y2 c1 = (s2, c2) ∧
      adcq x3 y3 c2 = (s3, c3) ∧
      subq s0 4891460686036598785 = (d0, k0) ∧ sbbq s1 2896914383306846353 k0 = (d1, k1) ∧
      sbbq s2 13281191951274694749 k1 = (d2, k2) ∧ sbbq s3 3486998266802970665 k2 = (d3, k3) ∧
      cmov (decide (k3 = 1)) s0 d0 = r0 ∧ cmov (decide (k3 = 1)) s1 d1 = r1 ∧
      cmov (decide (k3 = 1)) s2 d2 = r2 ∧ cmov (decide (k3 = 1)) s3 d3 = r3 ∧
      r0 < W ∧ r1 < W ∧ r2 < W ∧ r3 < W ∧ val4 r0 r1 r2 r3 < Q ∧
      val4 r0 r1 r2 r3 = (val4 x0 x1 x2 x3 + val4 y0 y1 y2 y3) % Q := by
  obtain ⟨s0, c0, a0, hs0, hc0, f0⟩ := addq_spec x0 y0 hx0 hy0
  obtain ⟨s1, c1, a1, hs1, hc1, f1⟩ := adcq_spec x1 y1 c0 hx1 hy1 hc0
  obtain ⟨s2, c2, a2, hs2, hc2, f2⟩ := adcq_spec x2 y2 c1 hx2 hy2 hc1
  obtain ⟨s3, c3, a3, hs3, hc3, f3⟩ := adcq_spec x3 y3 c2 hx3 hy3 hc2
  have key := add_chain x0 x1 x2 x3 y0 y1 y2 y3 s0 s1 s2 s3 c0 c1 c2 c3 0 f0 f1 f2 f3
  obtain ⟨hv, hlt⟩ := no_carry _ c3 _ _ key hx hy
  obtain ⟨d0, k0, d1, k1, d2, k2, d3, k3, r0, r1, r2, r3, e0, e1, e2, e3, m0, m1, m2, m3, g0, g1, g2, g3, hr⟩ :=
    reduce_core s0 s1 s2 s3 hs0 hs1 hs2 hs3 hlt
  exact ⟨s0, c0, s1, c1, s2, c2, s3, c3, d0, k0, d1, k1, d2, k2, d3, k3, r0, r1, r2, r3,
    a0, a1, a2, a3, e0, e1, e2, e3, m0, m1, m2, m3, g0, g1, g2, g3,
    by rw [hr]; exact Nat.mod_lt _ (by decide), by rw [hr, hv]⟩

theorem asm_add_ok (z0 z1 z2 z3 x0 x1 x2 x3 y0 y1 y2 y3 : Nat)
    (hx0 : x0 < W) (hx1 : x1 < W) (hx2 : x2 < W) (hx3 : x3 < W)
    (hy0 : y0 < W) (hy1 : y1 < W) (hy2 : y2 < W) (hy3 : y3 < W)
    (hx : val4 x0 x1 x2 x3 < Q) (hy : val4 y0 y1 y2 y3 < Q) :
    ∃ r0 r1 r2 r3, FFAsm.add z0 z1 z2 z3 x0 x1 x2 x3 y0 y1 y2 y3 = (r0, r1, r2, r3) ∧
      r0 < W ∧ r1 < W ∧ r2 < W ∧ r3 < W ∧
      val4 r0 r1 r2 r3 = (val4 x0 x1 x2 x3 + val4 y0 y1 y2 y3) % Q := by
  obtain ⟨s0, c0, s1, c1, s2, c2, s3, c3, d0, k0, d1, k1, d2, k2, d3, k3, r0, r1, r2, r3,
    a0, a1, a2, a3, e0, e1, e2, e3, m0, m1, m2, m3, g0, g1, g2, g3, hlt, hr⟩ :=
    addred_core x0 x1 x2 x3 y0 y1 y2 y3 hx0 hx1 hx2 hx3 hy0 hy1 hy2 hy3 hx hy
  subst m0 m1 m2 m3
  exact ⟨_, _, _, _, by limb_eval [FFAsm.add], g0, g1, g2, g3, hr⟩

theorem asm_double_ok (z0 z1 z2 z3 x0 x1 x2 x3 : Nat)
    (hx0 : x0 < W) (hx1 : x1 < W) (hx2 : x2 < W) (hx3 : x3 < W) (hx : val4 x0 x1 x2 x3 < Q) :
    ∃ r0 r1 r2 r3, FFAsm.double z0 z1 z2 z3 x0 x1 x2 x3 = (r0, r1, r2, r3) ∧
      r0 < W ∧ r1 < W ∧ r2 < W ∧ r3 < W ∧
      val4 r0 r1 r2 r3 = (2 * val4 x0 x1 x2 x3) % Q := by
  obtain ⟨s0, c0, s1, c1, s2, c2, s3, c3, d0, k0, d1, k1, d2, k2, d3, k3, r0, r1, r2, r3,
    a0, a1, a2, a3, e0, e1, e2, e3, m0, m1, m2, m3, g0, g1, g2, g3, hlt, hr⟩ :=
    addred_core x0 x1 x2 x3 x0 x1 x2 x3 hx0 hx1 hx2 hx3 hx0 hx1 hx2 hx3 hx hx
  subst m0 m1 m2 m3
  exact ⟨_, _, _, _, by limb_eval [FFAsm.double], g0, g1, g2, g3, by rw [hr, two_mul]⟩

/-! ### sub: borrow chain, then `q` masked by `CMOVQCC` is added back -/

theorem mask_pos (k q : Nat) (h : k = 0) : cmov (decide (k = 0)) 0 q = 0 := by simp [cmov, h]
theorem mask_neg (k q : Nat) (h : ¬ k = 0) : cmov (decide (k = 0)) 0 q = q := by simp [cmov, h]

theorem sub_arith0 (X Y D : Nat) (hX : X < Q) (hY : Y < Q) (hD : D < R)
    (key : D + Y + 0 = X + 0 * R) : D = (X + (Q - Y)) % Q := by
  simp only [Q, R, W] at *; omega

theorem sub_arith1 (X Y D S k c : Nat) (hX : X < Q) (hY : Y < Q) (hD : D < R) (hS : S < R)
    (hk : k ≤ 1) (hk0 : ¬ k = 0)
    (key : D + Y + 0 = X + k * R) (key2 : S + c * R = D + Q + 0) : S = (X + (Q - Y)) % Q := by
  simp only [Q, R, W] at *; omega

theorem sub_core (x0 x1 x2 x3 y0 y1 y2 y3 : Nat)
    (hx0 : x0 < W) (hx1 : x1 < W) (hx2 : x2 < W) (hx3 : x3 < W)
    (hy0 : y0 < W) (hy1 : y1 < W) (hy2 : y2 < W) (hy3 : y3 < W)
    (hx : val4 x0 x1 x2 x3 < Q) (hy : val4 y0 y1 y2 y3 < Q) :
    ∃ d0 k0 d1 k1 d2 k2 d3 k3 m0 m1 m2 m3 s0 c0 s1 c1 s2 c2 s3 c3,
      subq x0 y0 = (d0, k0) ∧ sbbq x1 y1 k0 = (d1, k1) ∧ sbbq x2 y2 k1 = (d2, k2) ∧
      sbbq x3 y3 k2 = (d3, k3) ∧
      cmov (decide (k3 = 0)) 0 4891460686036598785 = m0 ∧ cmov (decide (k3 = 0)) 0 2896914383306846353 = m1 ∧
      cmov (decide (k3 = 0)) 0 13281191951274694749 = m2 ∧ cmov (decide (k3 = 0)) 0 3486998266802970665 = m3 ∧
      addq d0 m0 = (s0, c0) ∧ adcq d1 m1 c0 = (s1, c1) ∧ adcq d2 m2 c1 = (s2, c2) ∧
      adcq d3 m3 c2 = (s3, c3) ∧
      s0 < W ∧ s1 < W ∧ s2 < W ∧ s3 < W ∧
      val4 s0 s1 s2 s3 = (val4 x0 x1 x2 x3 + (Q - val4 y0 y1 y2 y3)) % Q := by
  obtain ⟨d0, k0, e0, hd0, hk0, f0⟩ := subq_spec x0 y0 hx0 hy0
  obtain ⟨d1, k1, e1, hd1, hk1, f1⟩ := sbbq_spec x1 y1 k0 hx1 hy1 hk0
  obtain ⟨d2, k2, e2, hd2, hk2, f2⟩ := sbbq_spec x2 y2 k1 hx2 hy2 hk1
  obtain ⟨d3, k3, e3, hd3, hk3, f3⟩ := sbbq_spec x3 y3 k2 hx3 hy3 hk2
  have hD := val4_lt d0 d1 d2 d3 hd0 hd1 hd2 hd3
  have key := sub_chain x0 x1 x2 x3 y0 y1 y2 y3 d0 d1 d2 d3 k0 k1 k2 k3 0 f0 f1 f2 f3
  by_cases hb : k3 = 0
  · obtain ⟨s0, c0, a0, hs0, hc0, g0⟩ := addq_spec d0 0 hd0 (by decide)
    obtain ⟨s1, c1, a1, hs1, hc1, g1⟩ := adcq_spec d1 0 c0 hd1 (by decide) hc0
    obtain ⟨s2, c2, a2, hs2, hc2, g2⟩ := adcq_spec d2 0 c1 hd2 (by decide) hc1
    obtain ⟨s3, c3, a3, hs3, hc3, g3⟩ := adcq_spec d3 0 c2 hd3 (by decide) hc2
    have hs : s0 = d0 ∧ s1 = d1 ∧ s2 = d2 ∧ s3 = d3 := by simp only [W] at *; omega
    obtain ⟨rfl, rfl, rfl, rfl⟩ := hs
    rw [hb] at key
    exact ⟨s0, k0, s1, k1, s2, k2, s3, k3, 0, 0, 0, 0, s0, c0, s1, c1, s2, c2, s3, c3, e0, e1, e2, e3,
      mask_pos _ _ hb, mask_pos _ _ hb, mask_pos _ _ hb, mask_pos _ _ hb, a0, a1, a2, a3,
      hs0, hs1, hs2, hs3, sub_arith0 _ _ _ hx hy hD key⟩
  · obtain ⟨s0, c0, a0, hs0, hc0, g0⟩ := addq_spec d0 4891460686036598785 hd0 (by decide)
    obtain ⟨s1, c1, a1, hs1, hc1, g1⟩ := adcq_spec d1 2896914383306846353 c0 hd1 (by decide) hc0
    obtain ⟨s2, c2, a2, hs2, hc2, g2⟩ := adcq_spec d2 13281191951274694749 c1 hd2 (by decide) hc1
    obtain ⟨s3, c3, a3, hs3, hc3, g3⟩ := adcq_spec d3 3486998266802970665 c2 hd3 (by decide) hc2
    have hS := val4_lt s0 s1 s2 s3 hs0 hs1 hs2 hs3
    have key2 := add_chain d0 d1 d2 d3 4891460686036598785 2896914383306846353 13281191951274694749
      3486998266802970665 s0 s1 s2 s3 c0 c1 c2 c3 0 g0 g1 g2 g3
    rw [val4_Q] at key2
    exact ⟨d0, k0, d1, k1, d2, k2, d3, k3, _, _, _, _, s0, c0, s1, c1, s2, c2, s3, c3, e0, e1, e2, e3,
      mask_neg _ _ hb, mask_neg _ _ hb, mask_neg _ _ hb, mask_neg _ _ hb, a0, a1, a2, a3,
      hs0, hs1, hs2, hs3, sub_arith1 _ _ _ _ k3 c3 hx hy hD hS hk3 hb key key2⟩

theorem asm_sub_ok (z0 z1 z2 z3 x0 x1 x2 x3 y0 y1 y2 y3 : Nat)
    (hx0 : x0 < W) (hx1 : x1 < W) (hx2 : x2 < W) (hx3 : x3 < W)
    (hy0 : y0 < W) (hy1 : y1 < W) (hy2 : y2 < W) (hy3 : y3 < W)
    (hx : val4 x0 x1 x2 x3 < Q) (hy : val4 y0 y1 y2 y3 < Q) :
    ∃ r0 r1 r2 r3, FFAsm.sub z0 z1 z2 z3 x0 x1 x2 x3 y0 y1 y2 y3 = (r0, r1, r2, r3) ∧
      r0 < W ∧ r1 < W ∧ r2 < W ∧ r3 < W ∧
      val4 r0 r1 r2 r3 = (val4 x0 x1 x2 x3 + (Q - val4 y0 y1 y2 y3)) % Q := by
  obtain ⟨d0, k0, d1, k1, d2, k2, d3, k3, m0, m1, m2, m3, s0, c0, s1, c1, s2, c2, s3, c3,
    e0, e1, e2, e3, n0, n1, n2, n3, a0, a1, a2, a3, g0, g1, g2, g3, hr⟩ :=
    sub_core x0 x1 x2 x3 y0 y1 y2 y3 hx0 hx1 hx2 hx3 hy0 hy1 hy2 hy3 hx hy
  subst n0 n1 n2 n3
  exact ⟨s0, s1, s2, s3, by limb_eval [FFAsm.sub], g0, g1, g2, g3, hr⟩

/-! ### neg -/

theorem or_zero_iff (x0 x1 x2 x3 : Nat) :
    ((x0 ||| x1 ||| x2 ||| x3) &&& (x0 ||| x1 ||| x2 ||| x3)) = 0 ↔ x0 = 0 ∧ x1 = 0 ∧ x2 = 0 ∧ x3 = 0 := by
  rw [Nat.and_self]
  simp only [Nat.or_eq_zero_iff, and_assoc]

theorem neg_arith (X D k : Nat) (hX : X < Q) (hX0 : 0 < X) (hD : D < R)
    (key : D + X + 0 = Q + k * R) : D = (Q - X) % Q := by
  simp only [Q, R, W] at *; omega

theorem val4_pos (x0 x1 x2 x3 : Nat) (h : ¬ (x0 = 0 ∧ x1 = 0 ∧ x2 = 0 ∧ x3 = 0)) : 0 < val4 x0 x1 x2 x3 := by
  simp only [val4, W]; omega

theorem asm_neg_ok (z0 z1 z2 z3 x0 x1 x2 x3 : Nat)
    (hx0 : x0 < W) (hx1 : x1 < W) (hx2 : x2 < W) (hx3 : x3 < W) (hx : val4 x0 x1 x2 x3 < Q) :
    ∃ r0 r1 r2 r3, FFAsm.neg z0 z1 z2 z3 x0 x1 x2 x3 = (r0, r1, r2, r3) ∧
      r0 < W ∧ r1 < W ∧ r2 < W ∧ r3 < W ∧
      val4 r0 r1 r2 r3 = (Q - val4 x0 x1 x2 x3) % Q := by
  by_cases hz : ((x0 ||| x1 ||| x2 ||| x3) &&& (x0 ||| x1 ||| x2 ||| x3)) = 0
  · have hE : FFAsm.neg z0 z1 z2 z3 x0 x1 x2 x3 = (x0 ||| x1 ||| x2 ||| x3, x0 ||| x1 ||| x2 ||| x3,
        x0 ||| x1 ||| x2 ||| x3, x0 ||| x1 ||| x2 ||| x3) := by limb_eval [FFAsm.neg]
    obtain ⟨rfl, rfl, rfl, rfl⟩ := (or_zero_iff x0 x1 x2 x3).1 hz
    exact ⟨0, 0, 0, 0, hE, by decide, by decide, by decide, by decide, by decide⟩
  · have hnz := val4_pos x0 x1 x2 x3 (fun h => hz ((or_zero_iff x0 x1 x2 x3).2 h))
    obtain ⟨d0, k0, e0, hd0, hk0, f0⟩ := subq_spec 4891460686036598785 x0 (by decide) hx0
    obtain ⟨d1, k1, e1, hd1, hk1, f1⟩ := sbbq_spec 2896914383306846353 x1 k0 (by decide) hx1 hk0
    obtain ⟨d2, k2, e2, hd2, hk2, f2⟩ := sbbq_spec 13281191951274694749 x2 k1 (by decide) hx2 hk1
    obtain ⟨d3, k3, e3, hd3, hk3, f3⟩ := sbbq_spec 3486998266802970665 x3 k2 (by decide) hx3 hk2
    refine ⟨d0, d1, d2, d3, by limb_eval [FFAsm.neg], hd0, hd1, hd2, hd3, ?_⟩
    have hD := val4_lt d0 d1 d2 d3 hd0 hd1 hd2 hd3
    have key := sub_chain 4891460686036598785 2896914383306846353 13281191951274694749
      3486998266802970665 x0 x1 x2 x3 d0 d1 d2 d3 k0 k1 k2 k3 0 f0 f1 f2 f3
    rw [val4_Q] at key
    exact neg_arith _ _ k3 hx hnz hD key

/-! ### MulBy3, MulBy5, MulBy13: doublings and additions, each followed by REDUCE -/

theorem m3_arith (X : Nat) : ((X + X) % Q + X) % Q = (3 * X) % Q := by
  simp only [Q]; omega
theorem m5_arith (X : Nat) : (((X + X) % Q + (X + X) % Q) % Q + X) % Q = (5 * X) % Q := by
  simp only [Q]; omega
theorem m13_arith (X A B C D : Nat) (hA : A = (X + X) % Q) (hB : B = (A + A) % Q)
    (hC : C = (B + B) % Q) (hD : D = (C + B) % Q) : (D + X) % Q = (13 * X) % Q := by
  simp only [Q] at *; omega

theorem asm_mulBy3_ok (x0 x1 x2 x3 : Nat)
    (hx0 : x0 < W) (hx1 : x1 < W) (hx2 : x2 < W) (hx3 : x3 < W) (hx : val4 x0 x1 x2 x3 < Q) :
    ∃ r0 r1 r2 r3, FFAsm.MulBy3 x0 x1 x2 x3 = (r0, r1, r2, r3) ∧
      r0 < W ∧ r1 < W ∧ r2 < W ∧ r3 < W ∧ val4 r0 r1 r2 r3 = (3 * val4 x0 x1 x2 x3) % Q := by
  obtain ⟨s0, c0, s1, c1, s2, c2, s3, c3, d0, k0, d1, k1, d2, k2, d3, k3, r0, r1, r2, r3,
    a0, a1, a2, a3, e0, e1, e2, e3, m0, m1, m2, m3, g0, g1, g2, g3, hlt, hr⟩ :=
    addred_core x0 x1 x2 x3 x0 x1 x2 x3 hx0 hx1 hx2 hx3 hx0 hx1 hx2 hx3 hx hx
  obtain ⟨s0', c0', s1', c1', s2', c2', s3', c3', d0', k0', d1', k1', d2', k2', d3', k3', r0', r1', r2', r3',
    a0', a1', a2', a3', e0', e1', e2', e3', m0', m1', m2', m3', g0', g1', g2', g3', hlt', hr'⟩ :=
    addred_core r0 r1 r2 r3 x0 x1 x2 x3 g0 g1 g2 g3 hx0 hx1 hx2 hx3 hlt hx
  rw [hr, m3_arith] at hr'
  subst m0 m1 m2 m3 m0' m1' m2' m3'
  exact ⟨_, _, _, _, by limb_eval [FFAsm.MulBy3], g0', g1', g2', g3', hr'⟩

theorem asm_mulBy5_ok (x0 x1 x2 x3 : Nat)
    (hx0 : x0 < W) (hx1 : x1 < W) (hx2 : x2 < W) (hx3 : x3 < W) (hx : val4 x0 x1 x2 x3 < Q) :
    ∃ r0 r1 r2 r3, FFAsm.MulBy5 x0 x1 x2 x3 = (r0, r1, r2, r3) ∧
      r0 < W ∧ r1 < W ∧ r2 < W ∧ r3 < W ∧ val4 r0 r1 r2 r3 = (5 * val4 x0 x1 x2 x3) % Q := by
  obtain ⟨s0, c0, s1, c1, s2, c2, s3, c3, d0, k0, d1, k1, d2, k2, d3, k3, r0, r1, r2, r3,
    a0, a1, a2, a3, e0, e1, e2, e3, m0, m1, m2, m3, g0, g1, g2, g3, hlt, hr⟩ :=
    addred_core x0 x1 x2 x3 x0 x1 x2 x3 hx0 hx1 hx2 hx3 hx0 hx1 hx2 hx3 hx hx
  obtain ⟨s0', c0', s1', c1', s2', c2', s3', c3', d0', k0', d1', k1', d2', k2', d3', k3', r0', r1', r2', r3',
    a0', a1', a2', a3', e0', e1', e2', e3', m0', m1', m2', m3', g0', g1', g2', g3', hlt', hr'⟩ :=
    addred_core r0 r1 r2 r3 r0 r1 r2 r3 g0 g1 g2 g3 g0 g1 g2 g3 hlt hlt
  obtain ⟨s0'', c0'', s1'', c1'', s2'', c2'', s3'', c3'', d0'', k0'', d1'', k1'', d2'', k2'', d3'', k3'',
    r0'', r1'', r2'', r3'', a0'', a1'', a2'', a3'', e0'', e1'', e2'', e3'', m0'', m1'', m2'', m3'',
    g0'', g1'', g2'', g3'', hlt'', hr''⟩ :=
    addred_core r0' r1' r2' r3' x0 x1 x2 x3 g0' g1' g2' g3' hx0 hx1 hx2 hx3 hlt' hx
  rw [hr', hr, m5_arith] at hr''
  subst m0 m1 m2 m3 m0' m1' m2' m3' m0'' m1'' m2'' m3''
  exact ⟨_, _, _, _, by limb_eval [FFAsm.MulBy5], g0'', g1'', g2'', g3'', hr''⟩

theorem asm_mulBy13_ok (x0 x1 x2 x3 : Nat)
    (hx0 : x0 < W) (hx1 : x1 < W) (hx2 : x2 < W) (hx3 : x3 < W) (hx : val4 x0 x1 x2 x3 < Q) :
    ∃ r0 r1 r2 r3, FFAsm.MulBy13 x0 x1 x2 x3 = (r0, r1, r2, r3) ∧
      r0 < W ∧ r1 < W ∧ r2 < W ∧ r3 < W ∧ val4 r0 r1 r2 r3 = (13 * val4 x0 x1 x2 x3) % Q := by
  -- 2x
  obtain ⟨s0, c0, s1, c1, s2, c2, s3, c3, d0, k0, d1, k1, d2, k2, d3, k3, r0, r1, r2, r3,
    a0, a1, a2, a3, e0, e1, e2, e3, m0, m1, m2, m3, g0, g1, g2, g3, hlt, hr⟩ :=
    addred_core x0 x1 x2 x3 x0 x1 x2 x3 hx0 hx1 hx2 hx3 hx0 hx1 hx2 hx3 hx hx
  -- 4x
  obtain ⟨s0', c0', s1', c1', s2', c2', s3', c3', d0', k0', d1', k1', d2', k2', d3', k3', r0', r1', r2', r3',
    a0', a1', a2', a3', e0', e1', e2', e3', m0', m1', m2', m3', g0', g1', g2', g3', hlt', hr'⟩ :=
    addred_core r0 r1 r2 r3 r0 r1 r2 r3 g0 g1 g2 g3 g0 g1 g2 g3 hlt hlt
  -- 8x
  obtain ⟨s0'', c0'', s1'', c1'', s2'', c2'', s3'', c3'', d0'', k0'', d1'', k1'', d2'', k2'', d3'', k3'',
    r0'', r1'', r2'', r3'', a0'', a1'', a2'', a3'', e0'', e1'', e2'', e3'', m0'', m1'', m2'', m3'',
    g0'', g1'', g2'', g3'', hlt'', hr''⟩ :=
    addred_core r0' r1' r2' r3' r0' r1' r2' r3' g0' g1' g2' g3' g0' g1' g2' g3' hlt' hlt'
  -- 12x = 8x + 4x
  obtain ⟨t0, b0, t1, b1, t2, b2, t3, b3, f0, j0, f1, j1, f2, j2, f3, j3, u0, u1, u2, u3,
    p0, p1, p2, p3, q0, q1, q2, q3, n0, n1, n2, n3, h0, h1, h2, h3, hult, hu⟩ :=
    addred_core r0'' r1'' r2'' r3'' r0' r1' r2' r3' g0'' g1'' g2'' g3'' g0' g1' g2' g3' hlt'' hlt'
  -- 13x = 12x + x
  obtain ⟨t0', b0', t1', b1', t2', b2', t3', b3', f0', j0', f1', j1', f2', j2', f3', j3', u0', u1', u2', u3',
    p0', p1', p2', p3', q0', q1', q2', q3', n0', n1', n2', n3', h0', h1', h2', h3', hult', hu'⟩ :=
    addred_core u0 u1 u2 u3 x0 x1 x2 x3 h0 h1 h2 h3 hx0 hx1 hx2 hx3 hult hx
  rw [m13_arith _ _ _ _ _ hr hr' hr'' hu] at hu'
  subst m0 m1 m2 m3 m0' m1' m2' m3' m0'' m1'' m2'' m3'' n0 n1 n2 n3 n0' n1' n2' n3'
  exact ⟨_, _, _, _, by limb_eval [FFAsm.MulBy13], h0', h1', h2', h3', hu'⟩

/-! ### Butterfly -/

theorem asm_butterfly_ok (a0 a1 a2 a3 b0 b1 b2 b3 : Nat)
    (ha0 : a0 < W) (ha1 : a1 < W) (ha2 : a2 < W) (ha3 : a3 < W)
    (hb0 : b0 < W) (hb1 : b1 < W) (hb2 : b2 < W) (hb3 : b3 < W)
    (ha : val4 a0 a1 a2 a3 < Q) (hb : val4 b0 b1 b2 b3 < Q) :
    ∃ r0 r1 r2 r3 s0 s1 s2 s3,
      FFAsm.Butterfly a0 a1 a2 a3 b0 b1 b2 b3 = (r0, r1, r2, r3, s0, s1, s2, s3) ∧
      r0 < W ∧ r1 < W ∧ r2 < W ∧ r3 < W ∧ s0 < W ∧ s1 < W ∧ s2 < W ∧ s3 < W ∧
      val4 r0 r1 r2 r3 = (val4 a0 a1 a2 a3 + val4 b0 b1 b2 b3) % Q ∧
      val4 s0 s1 s2 s3 = (val4 a0 a1 a2 a3 + (Q - val4 b0 b1 b2 b3)) % Q := by
  obtain ⟨t0, c0, t1, c1, t2, c2, t3, c3, d0, k0, d1, k1, d2, k2, d3, k3, r0, r1, r2, r3,
    p0, p1, p2, p3, e0, e1, e2, e3, m0, m1, m2, m3, g0, g1, g2, g3, hlt, hr⟩ :=
    addred_core a0 a1 a2 a3 b0 b1 b2 b3 ha0 ha1 ha2 ha3 hb0 hb1 hb2 hb3 ha hb
  obtain ⟨d0', k0', d1', k1', d2', k2', d3', k3', m0', m1', m2', m3', s0, c0', s1, c1', s2, c2', s3, c3',
    e0', e1', e2', e3', n0, n1, n2, n3, q0, q1, q2, q3, h0, h1, h2, h3, hs⟩ :=
    sub_core a0 a1 a2 a3 b0 b1 b2 b3 ha0 ha1 ha2 ha3 hb0 hb1 hb2 hb3 ha hb
  subst m0 m1 m2 m3 n0 n1 n2 n3
  exact ⟨_, _, _, _, s0, s1, s2, s3, by limb_eval [FFAsm.Butterfly], g0, g1, g2, g3, h0, h1, h2, h3, hr, hs⟩

/-- `Butterfly(a, a)` in the assembly: both arguments the same element.  The routine loads the operands into
registers first, stores `b` (the difference) and then `a` (the sum): the sum survives. -/
theorem asm_butterfly_ab_ok (a0 a1 a2 a3 : Nat)
    (ha0 : a0 < W) (ha1 : a1 < W) (ha2 : a2 < W) (ha3 : a3 < W) (ha : val4 a0 a1 a2 a3 < Q) :
    ∃ r0 r1 r2 r3, FFAsm.Butterfly_ab a0 a1 a2 a3 = (r0, r1, r2, r3) ∧
      r0 < W ∧ r1 < W ∧ r2 < W ∧ r3 < W ∧
      val4 r0 r1 r2 r3 = (val4 a0 a1 a2 a3 + val4 a0 a1 a2 a3) % Q := by
  obtain ⟨t0, c0, t1, c1, t2, c2, t3, c3, d0, k0, d1, k1, d2, k2, d3, k3, r0, r1, r2, r3,
    p0, p1, p2, p3, e0, e1, e2, e3, m0, m1, m2, m3, g0, g1, g2, g3, hlt, hr⟩ :=
    addred_core a0 a1 a2 a3 a0 a1 a2 a3 ha0 ha1 ha2 ha3 ha0 ha1 ha2 ha3 ha ha
  obtain ⟨d0', k0', d1', k1', d2', k2', d3', k3', m0', m1', m2', m3', s0, c0', s1, c1', s2, c2', s3, c3',
    e0', e1', e2', e3', n0, n1, n2, n3, q0, q1, q2, q3, h0, h1, h2, h3, hs⟩ :=
    sub_core a0 a1 a2 a3 a0 a1 a2 a3 ha0 ha1 ha2 ha3 ha0 ha1 ha2 ha3 ha ha
  subst m0 m1 m2 m3 n0 n1 n2 n3
  exact ⟨_, _, _, _, by limb_eval [FFAsm.Butterfly_ab], g0, g1, g2, g3, hr⟩

/-! ### Montgomery multiplication with MULX / ADCX / ADOX -/

/-- iteration 0 of the ADX multiplication: `(t, A) := x · y` (`MULXQ` + one `ADOXQ` chain) -/
def mulRound0 (x0 x1 x2 x3 y : Nat) : Nat × Nat × Nat × Nat × Nat :=
  let (R15, R14) := mul64 y x0
  let (CX, AX) := mul64 y x1
  let (R15, OF) := adcq R15 AX 0
  let (BX, AX) := mul64 y x2
  let (CX, OF) := adcq CX AX OF
  let (BP, AX) := mul64 y x3
  let (BX, OF) := adcq BX AX OF
  let (BP, OF) := adcq BP 0 OF
  (R14, R15, CX, BX, BP)

/-- iterations 1–3: `(t, A) := t + x · y` (`MULXQ` + interleaved `ADCXQ`/`ADOXQ` chains) -/
def mulRound (t0 t1 t2 t3 x0 x1 x2 x3 y : Nat) : Nat × Nat × Nat × Nat × Nat :=
  let (BP, AX) := mul64 y x0
  let (R14, OF) := adcq t0 AX 0
  let (R15, CF) := adcq t1 BP 0
  let (BP, AX) := mul64 y x1
  let (R15, OF) := adcq R15 AX OF
  let (CX, CF) := adcq t2 BP CF
  let (BP, AX) := mul64 y x2
  let (CX, OF) := adcq CX AX OF
  let (BX, CF) := adcq t3 BP CF
  let (BP, AX) := mul64 y x3
  let (BX, OF) := adcq BX AX OF
  let (BP, CF) := adcq BP 0 CF
  let (BP, OF) := adcq BP 0 OF
  (R14, R15, CX, BX, BP)

/-- the Montgomery reduction step: `m := t0·qInv0 mod W`, `t := (t + m·q) / W` with the top word `A` added -/
def redRound (t0 t1 t2 t3 A : Nat) : Nat × Nat × Nat × Nat :=
  let DX := ((14042775128853446655 * t0) % W)
  let (R12, AX) := mul64 DX 4891460686036598785
  let (AX, CF) := adcq AX t0 0
  let (R14, CF) := adcq R12 t1 CF
  let (R15, AX) := mul64 DX 2896914383306846353
  let (R14, OF) := adcq R14 AX 0
  let (R15, CF) := adcq R15 t2 CF
  let (CX, AX) := mul64 DX 13281191951274694749
  let (R15, OF) := adcq R15 AX OF
  let (CX, CF) := adcq CX t3 CF
  let (BX, AX) := mul64 DX 3486998266802970665
  let (CX, OF) := adcq CX AX OF
  let (BX, CF) := adcq BX 0 CF
  let (BX, OF) := adcq BX A OF
  (R14, R15, CX, BX)

/-- the ADX multiplication as a composition of its rounds -/
def mulADX (x0 x1 x2 x3 y0 y1 y2 y3 : Nat) : Nat × Nat × Nat × Nat :=
  let (a0, a1, a2, a3, a4) := mulRound0 x0 x1 x2 x3 y0
  let (t0, t1, t2, t3) := redRound a0 a1 a2 a3 a4
  let (a0, a1, a2, a3, a4) := mulRound t0 t1 t2 t3 x0 x1 x2 x3 y1
  let (t0, t1, t2, t3) := redRound a0 a1 a2 a3 a4
  let (a0, a1, a2, a3, a4) := mulRound t0 t1 t2 t3 x0 x1 x2 x3 y2
  let (t0, t1, t2, t3) := redRound a0 a1 a2 a3 a4
  let (a0, a1, a2, a3, a4) := mulRound t0 t1 t2 t3 x0 x1 x2 x3 y3
  let (t0, t1, t2, t3) := redRound a0 a1 a2 a3 a4
  FFAsm.reduce t0 t1 t2 t3


def val5 (a b c d e : Nat) : Nat := a + b * W + c * W ^ 2 + d * W ^ 3 + e * W ^ 4

theorem mul64_spec (a b : Nat) (ha : a < W) (hb : b < W) :
    ∃ hi lo, mul64 a b = (hi, lo) ∧ hi < W ∧ lo < W ∧ lo + hi * W = a * b := by
  have hp := mul_le_words a b ha hb
  refine ⟨_, _, rfl, ?_, ?_, ?_⟩ <;> (generalize a * b = p at *; simp only [W] at *; omega)

/-! #### the multiplication half of a round -/

theorem mulRound_lin (t0 t1 t2 t3 p0 p1 p2 p3 h0 l0 a0 o0 b1 c0 h1 l1 a1 o1 b2 c1 h2 l2 a2 o2 b3 c2 h3 l3
    a3 o3 b4 c3 a4 o4 : Nat)
    (M0 : l0 + h0 * W = p0) (B0 : a0 + o0 * W = t0 + l0 + 0) (A0 : b1 + c0 * W = t1 + h0 + 0)
    (M1 : l1 + h1 * W = p1) (B1 : a1 + o1 * W = b1 + l1 + o0) (A1 : b2 + c1 * W = t2 + h1 + c0)
    (M2 : l2 + h2 * W = p2) (B2 : a2 + o2 * W = b2 + l2 + o1) (A2 : b3 + c2 * W = t3 + h2 + c1)
    (M3 : l3 + h3 * W = p3) (B3 : a3 + o3 * W = b3 + l3 + o2) (A3 : b4 + c3 * W = h3 + 0 + c2)
    (B4 : a4 + o4 * W = b4 + 0 + o3) :
    val5 a0 a1 a2 a3 (a4 + (o4 + c3) * W) = val4 t0 t1 t2 t3 + val4 p0 p1 p2 p3 := by
  simp only [val4, val5, W] at *; omega

theorem mulRound_top (a0 a1 a2 a3 e T P : Nat) (key : val5 a0 a1 a2 a3 e = T + P) (hT : T < R)
    (hP : P ≤ (W - 1) * (R - 1)) : e < W := by
  simp only [val5, R, W] at *; omega

theorem top_zero (a k : Nat) (h : a + k * W < W) : k = 0 := by
  simp only [W] at *; omega

theorem val4_mul_le (y X : Nat) (hy : y < W) (hX : X < R) : y * X ≤ (W - 1) * (R - 1) :=
  Nat.mul_le_mul (by omega) (by omega)

theorem mulRound_spec (t0 t1 t2 t3 x0 x1 x2 x3 y : Nat)
    (ht0 : t0 < W) (ht1 : t1 < W) (ht2 : t2 < W) (ht3 : t3 < W)
    (hx0 : x0 < W) (hx1 : x1 < W) (hx2 : x2 < W) (hx3 : x3 < W) (hy : y < W) :
    ∃ a0 a1 a2 a3 a4, mulRound t0 t1 t2 t3 x0 x1 x2 x3 y = (a0, a1, a2, a3, a4) ∧
      a0 < W ∧ a1 < W ∧ a2 < W ∧ a3 < W ∧ a4 < W ∧
      val5 a0 a1 a2 a3 a4 = val4 t0 t1 t2 t3 + y * val4 x0 x1 x2 x3 := by
  obtain ⟨h0, l0, e0, hh0, hl0, M0⟩ := mul64_spec y x0 hy hx0
  obtain ⟨a0, o0, e1, ha0, ho0, B0⟩ := adcq_spec t0 l0 0 ht0 hl0 (by decide)
  obtain ⟨b1, c0, e2, hb1, hc0, A0⟩ := adcq_spec t1 h0 0 ht1 hh0 (by decide)
  obtain ⟨h1, l1, e3, hh1, hl1, M1⟩ := mul64_spec y x1 hy hx1
  obtain ⟨a1, o1, e4, ha1, ho1, B1⟩ := adcq_spec b1 l1 o0 hb1 hl1 ho0
  obtain ⟨b2, c1, e5, hb2, hc1, A1⟩ := adcq_spec t2 h1 c0 ht2 hh1 hc0
  obtain ⟨h2, l2, e6, hh2, hl2, M2⟩ := mul64_spec y x2 hy hx2
  obtain ⟨a2, o2, e7, ha2, ho2, B2⟩ := adcq_spec b2 l2 o1 hb2 hl2 ho1
  obtain ⟨b3, c2, e8, hb3, hc2, A2⟩ := adcq_spec t3 h2 c1 ht3 hh2 hc1
  obtain ⟨h3, l3, e9, hh3, hl3, M3⟩ := mul64_spec y x3 hy hx3
  obtain ⟨a3, o3, e10, ha3, ho3, B3⟩ := adcq_spec b3 l3 o2 hb3 hl3 ho2
  obtain ⟨b4, c3, e11, hb4, hc3, A3⟩ := adcq_spec h3 0 c2 hh3 (by decide) hc2
  obtain ⟨a4, o4, e12, ha4, ho4, B4⟩ := adcq_spec b4 0 o3 hb4 (by decide) ho3
  refine ⟨a0, a1, a2, a3, a4, by limb_eval [mulRound], ha0, ha1, ha2, ha3, ha4, ?_⟩
  have key := mulRound_lin t0 t1 t2 t3 (y * x0) (y * x1) (y * x2) (y * x3) h0 l0 a0 o0 b1 c0 h1 l1 a1 o1
    b2 c1 h2 l2 a2 o2 b3 c2 h3 l3 a3 o3 b4 c3 a4 o4 M0 B0 A0 M1 B1 A1 M2 B2 A2 M3 B3 A3 B4
  rw [val4_smul] at key
  have htop := mulRound_top _ _ _ _ _ _ _ key (val4_lt t0 t1 t2 t3 ht0 ht1 ht2 ht3)
    (val4_mul_le y _ hy (val4_lt x0 x1 x2 x3 hx0 hx1 hx2 hx3))
  have hz := top_zero a4 (o4 + c3) htop
  rw [hz, Nat.zero_mul, Nat.add_zero] at key
  exact key

theorem mulRound0_lin (p0 p1 p2 p3 h0 a0 h1 l1 a1 o0 h2 l2 a2 o1 h3 l3 a3 o2 a4 o3 : Nat)
    (M0 : a0 + h0 * W = p0) (M1 : l1 + h1 * W = p1) (B0 : a1 + o0 * W = h0 + l1 + 0)
    (M2 : l2 + h2 * W = p2) (B1 : a2 + o1 * W = h1 + l2 + o0)
    (M3 : l3 + h3 * W = p3) (B2 : a3 + o2 * W = h2 + l3 + o1) (B3 : a4 + o3 * W = h3 + 0 + o2) :
    val5 a0 a1 a2 a3 (a4 + o3 * W) = 0 + val4 p0 p1 p2 p3 := by
  simp only [val4, val5, W] at *; omega

theorem R_pos : 0 < R := by simp only [R, W]; omega

theorem mulRound0_spec (x0 x1 x2 x3 y : Nat)
    (hx0 : x0 < W) (hx1 : x1 < W) (hx2 : x2 < W) (hx3 : x3 < W) (hy : y < W) :
    ∃ a0 a1 a2 a3 a4, mulRound0 x0 x1 x2 x3 y = (a0, a1, a2, a3, a4) ∧
      a0 < W ∧ a1 < W ∧ a2 < W ∧ a3 < W ∧ a4 < W ∧
      val5 a0 a1 a2 a3 a4 = y * val4 x0 x1 x2 x3 := by
  obtain ⟨h0, a0, e0, hh0, ha0, M0⟩ := mul64_spec y x0 hy hx0
  obtain ⟨h1, l1, e1, hh1, hl1, M1⟩ := mul64_spec y x1 hy hx1
  obtain ⟨a1, o0, e2, ha1, ho0, B0⟩ := adcq_spec h0 l1 0 hh0 hl1 (by decide)
  obtain ⟨h2, l2, e3, hh2, hl2, M2⟩ := mul64_spec y x2 hy hx2
  obtain ⟨a2, o1, e4, ha2, ho1, B1⟩ := adcq_spec h1 l2 o0 hh1 hl2 ho0
  obtain ⟨h3, l3, e5, hh3, hl3, M3⟩ := mul64_spec y x3 hy hx3
  obtain ⟨a3, o2, e6, ha3, ho2, B2⟩ := adcq_spec h2 l3 o1 hh2 hl3 ho1
  obtain ⟨a4, o3, e7, ha4, ho3, B3⟩ := adcq_spec h3 0 o2 hh3 (by decide) ho2
  refine ⟨a0, a1, a2, a3, a4, by limb_eval [mulRound0], ha0, ha1, ha2, ha3, ha4, ?_⟩
  have key := mulRound0_lin (y * x0) (y * x1) (y * x2) (y * x3) h0 a0 h1 l1 a1 o0 h2 l2 a2 o1 h3 l3 a3 o2
    a4 o3 M0 M1 B0 M2 B1 M3 B2 B3
  rw [val4_smul] at key
  have htop := mulRound_top _ _ _ _ _ _ _ key R_pos
    (val4_mul_le y _ hy (val4_lt x0 x1 x2 x3 hx0 hx1 hx2 hx3))
  have hz := top_zero a4 o3 htop
  rw [hz, Nat.zero_mul, Nat.add_zero, Nat.zero_add] at key
  exact key

/-! #### the reduction half of a round -/

theorem redRound_lin (t0 t1 t2 t3 A m h0 l0 z c0 b0 c1 h1 l1 u0 o0 b1 c2 h2 l2 u1 o1 b2 c3 h3 l3 u2 o2
    b3 c4 u3 o3 : Nat)
    (M0 : l0 + h0 * W = m * 4891460686036598785) (A0 : z + c0 * W = l0 + t0 + 0)
    (A1 : b0 + c1 * W = h0 + t1 + c0)
    (M1 : l1 + h1 * W = m * 2896914383306846353) (B0 : u0 + o0 * W = b0 + l1 + 0)
    (A2 : b1 + c2 * W = h1 + t2 + c1)
    (M2 : l2 + h2 * W = m * 13281191951274694749) (B1 : u1 + o1 * W = b1 + l2 + o0)
    (A3 : b2 + c3 * W = h2 + t3 + c2)
    (M3 : l3 + h3 * W = m * 3486998266802970665) (B2 : u2 + o2 * W = b2 + l3 + o1)
    (A4 : b3 + c4 * W = h3 + 0 + c3) (B3 : u3 + o3 * W = b3 + A + o2) :
    val5 z u0 u1 u2 (u3 + (o3 + c4) * W) = val5 t0 t1 t2 t3 A + m * Q := by
  simp only [val5, Q, W] at *; omega

theorem val5_shift (u0 u1 u2 e : Nat) : val5 0 u0 u1 u2 e = val4 u0 u1 u2 e * W := by
  simp only [val4, val5]; ring

/-- `m = t0·(−q⁻¹) mod 2^64` cancels the lowest word -/
theorem red_low_zero (t0 m l0 h0 z c0 : Nat) (hm : m = (14042775128853446655 * t0) % W) (hz : z < W)
    (M0 : l0 + h0 * W = m * 4891460686036598785) (A0 : z + c0 * W = l0 + t0 + 0) : z = 0 := by
  simp only [W] at *; omega

theorem redRound_top (u0 u1 u2 e V m : Nat) (key : val4 u0 u1 u2 e * W = V + m * Q) (hm : m < W)
    (hV : V + (W - 1) * Q < W ^ 5) : e < W := by
  simp only [val4, Q, W] at *; omega

theorem redRound_spec (t0 t1 t2 t3 A : Nat)
    (ht0 : t0 < W) (ht1 : t1 < W) (ht2 : t2 < W) (ht3 : t3 < W) (hA : A < W)
    (hfit : val5 t0 t1 t2 t3 A + (W - 1) * Q < W ^ 5) :
    ∃ u0 u1 u2 u3, redRound t0 t1 t2 t3 A = (u0, u1, u2, u3) ∧
      u0 < W ∧ u1 < W ∧ u2 < W ∧ u3 < W ∧
      ∃ m, m < W ∧ val4 u0 u1 u2 u3 * W = val5 t0 t1 t2 t3 A + m * Q := by
  obtain ⟨m, hmd⟩ : ∃ m, m = (14042775128853446655 * t0) % W := ⟨_, rfl⟩
  have hm : m < W := hmd ▸ Nat.mod_lt _ (by decide)
  obtain ⟨h0, l0, e0, hh0, hl0, M0⟩ := mul64_spec m 4891460686036598785 hm (by decide)
  obtain ⟨z, c0, e1, hz, hc0, A0⟩ := adcq_spec l0 t0 0 hl0 ht0 (by decide)
  obtain ⟨b0, c1, e2, hb0, hc1, A1⟩ := adcq_spec h0 t1 c0 hh0 ht1 hc0
  obtain ⟨h1, l1, e3, hh1, hl1, M1⟩ := mul64_spec m 2896914383306846353 hm (by decide)
  obtain ⟨u0, o0, e4, hu0, ho0, B0⟩ := adcq_spec b0 l1 0 hb0 hl1 (by decide)
  obtain ⟨b1, c2, e5, hb1, hc2, A2⟩ := adcq_spec h1 t2 c1 hh1 ht2 hc1
  obtain ⟨h2, l2, e6, hh2, hl2, M2⟩ := mul64_spec m 13281191951274694749 hm (by decide)
  obtain ⟨u1, o1, e7, hu1, ho1, B1⟩ := adcq_spec b1 l2 o0 hb1 hl2 ho0
  obtain ⟨b2, c3, e8, hb2, hc3, A3⟩ := adcq_spec h2 t3 c2 hh2 ht3 hc2
  obtain ⟨h3, l3, e9, hh3, hl3, M3⟩ := mul64_spec m 3486998266802970665 hm (by decide)
  obtain ⟨u2, o2, e10, hu2, ho2, B2⟩ := adcq_spec b2 l3 o1 hb2 hl3 ho1
  obtain ⟨b3, c4, e11, hb3, hc4, A4⟩ := adcq_spec h3 0 c3 hh3 (by decide) hc3
  obtain ⟨u3, o3, e12, hu3, ho3, B3⟩ := adcq_spec b3 A o2 hb3 hA ho2
  refine ⟨u0, u1, u2, u3, by subst hmd; limb_eval [redRound], hu0, hu1, hu2, hu3, m, hm, ?_⟩
  have key := redRound_lin t0 t1 t2 t3 A m h0 l0 z c0 b0 c1 h1 l1 u0 o0 b1 c2 h2 l2 u1 o1 b2 c3 h3 l3 u2 o2
    b3 c4 u3 o3 M0 A0 A1 M1 B0 A2 M2 B1 A3 M3 B2 A4 B3
  have hz0 := red_low_zero t0 m l0 h0 z c0 hmd hz M0 A0
  rw [hz0, val5_shift] at key
  have htop := redRound_top _ _ _ _ _ m key hm hfit
  have hk := top_zero u3 (o3 + c4) htop
  rw [hk, Nat.zero_mul, Nat.add_zero] at key
  exact key

/-! #### four rounds and the final REDUCE -/

theorem fit_of_round (V T P Y : Nat) (h : V = T + P) (hT : T < 2 * Q) (hP : P ≤ (W - 1) * Y) (hY : Y < Q) :
    V + (W - 1) * Q < W ^ 5 := by
  have h1 : (W - 1) * Y ≤ (W - 1) * Q := Nat.mul_le_mul_left _ (by omega)
  generalize (W - 1) * Y = Z at *
  simp only [Q, W] at *; omega

theorem smul_le (y X : Nat) (hy : y < W) : y * X ≤ (W - 1) * X := Nat.mul_le_mul_right _ (by omega)

theorem two_Q_pos : 0 < 2 * Q := by decide

/-- one full round (`i ≥ 1`): multiplication half, then reduction half -/
theorem fullRound_spec (t0 t1 t2 t3 x0 x1 x2 x3 y : Nat)
    (ht0 : t0 < W) (ht1 : t1 < W) (ht2 : t2 < W) (ht3 : t3 < W)
    (hx0 : x0 < W) (hx1 : x1 < W) (hx2 : x2 < W) (hx3 : x3 < W) (hy : y < W)
    (hX : val4 x0 x1 x2 x3 < Q) (hT : val4 t0 t1 t2 t3 < 2 * Q) :
    ∃ a0 a1 a2 a3 a4 u0 u1 u2 u3, mulRound t0 t1 t2 t3 x0 x1 x2 x3 y = (a0, a1, a2, a3, a4) ∧
      redRound a0 a1 a2 a3 a4 = (u0, u1, u2, u3) ∧
      u0 < W ∧ u1 < W ∧ u2 < W ∧ u3 < W ∧ val4 u0 u1 u2 u3 < 2 * Q ∧
      ∃ m, m < W ∧ val4 u0 u1 u2 u3 * W = val4 t0 t1 t2 t3 + y * val4 x0 x1 x2 x3 + m * Q := by
  obtain ⟨a0, a1, a2, a3, a4, e1, ha0, ha1, ha2, ha3, ha4, hv⟩ :=
    mulRound_spec t0 t1 t2 t3 x0 x1 x2 x3 y ht0 ht1 ht2 ht3 hx0 hx1 hx2 hx3 hy
  have hP := smul_le y (val4 x0 x1 x2 x3) hy
  obtain ⟨u0, u1, u2, u3, e2, hu0, hu1, hu2, hu3, m, hm, key⟩ :=
    redRound_spec a0 a1 a2 a3 a4 ha0 ha1 ha2 ha3 ha4 (fit_of_round _ _ _ _ hv hT hP hX)
  rw [hv] at key
  exact ⟨a0, a1, a2, a3, a4, u0, u1, u2, u3, e1, e2, hu0, hu1, hu2, hu3,
    round_bound _ _ _ m _ key hT hP hX hm, m, hm, key⟩

/-- round 0 -/
theorem fullRound0_spec (x0 x1 x2 x3 y : Nat)
    (hx0 : x0 < W) (hx1 : x1 < W) (hx2 : x2 < W) (hx3 : x3 < W) (hy : y < W)
    (hX : val4 x0 x1 x2 x3 < Q) :
    ∃ a0 a1 a2 a3 a4 u0 u1 u2 u3, mulRound0 x0 x1 x2 x3 y = (a0, a1, a2, a3, a4) ∧
      redRound a0 a1 a2 a3 a4 = (u0, u1, u2, u3) ∧
      u0 < W ∧ u1 < W ∧ u2 < W ∧ u3 < W ∧ val4 u0 u1 u2 u3 < 2 * Q ∧
      ∃ m, m < W ∧ val4 u0 u1 u2 u3 * W = y * val4 x0 x1 x2 x3 + m * Q := by
  obtain ⟨a0, a1, a2, a3, a4, e1, ha0, ha1, ha2, ha3, ha4, hv⟩ :=
    mulRound0_spec x0 x1 x2 x3 y hx0 hx1 hx2 hx3 hy
  have hP := smul_le y (val4 x0 x1 x2 x3) hy
  have hv' : val5 a0 a1 a2 a3 a4 = 0 + y * val4 x0 x1 x2 x3 := by rw [Nat.zero_add]; exact hv
  obtain ⟨u0, u1, u2, u3, e2, hu0, hu1, hu2, hu3, m, hm, key⟩ :=
    redRound_spec a0 a1 a2 a3 a4 ha0 ha1 ha2 ha3 ha4 (fit_of_round _ _ _ _ hv' two_Q_pos hP hX)
  rw [hv'] at key
  have hb := round_bound _ _ _ m _ key two_Q_pos hP hX hm
  rw [Nat.zero_add] at key
  exact ⟨a0, a1, a2, a3, a4, u0, u1, u2, u3, e1, e2, hu0, hu1, hu2, hu3, hb, m, hm, key⟩

/-- the ADX Montgomery multiplication: `x` canonical, `y` any four words -/
theorem mulADX_ok (x0 x1 x2 x3 y0 y1 y2 y3 : Nat)
    (hx0 : x0 < W) (hx1 : x1 < W) (hx2 : x2 < W) (hx3 : x3 < W)
    (hy0 : y0 < W) (hy1 : y1 < W) (hy2 : y2 < W) (hy3 : y3 < W)
    (hx : val4 x0 x1 x2 x3 < Q) :
    ∃ r0 r1 r2 r3, mulADX x0 x1 x2 x3 y0 y1 y2 y3 = (r0, r1, r2, r3) ∧
      r0 < W ∧ r1 < W ∧ r2 < W ∧ r3 < W ∧ val4 r0 r1 r2 r3 < Q ∧
      (val4 r0 r1 r2 r3 * R) % Q = (val4 x0 x1 x2 x3 * val4 y0 y1 y2 y3) % Q := by
  obtain ⟨a0, a1, a2, a3, a4, t0, t1, t2, t3, e01, e02, ht0, ht1, ht2, ht3, hT1, m0, hm0, E0⟩ :=
    fullRound0_spec x0 x1 x2 x3 y0 hx0 hx1 hx2 hx3 hy0 hx
  obtain ⟨a0', a1', a2', a3', a4', t0', t1', t2', t3', e11, e12, ht0', ht1', ht2', ht3', hT2, m1, hm1, E1⟩ :=
    fullRound_spec t0 t1 t2 t3 x0 x1 x2 x3 y1 ht0 ht1 ht2 ht3 hx0 hx1 hx2 hx3 hy1 hx hT1
  obtain ⟨a0'', a1'', a2'', a3'', a4'', t0'', t1'', t2'', t3'', e21, e22, ht0'', ht1'', ht2'', ht3'', hT3,
    m2, hm2, E2⟩ :=
    fullRound_spec t0' t1' t2' t3' x0 x1 x2 x3 y2 ht0' ht1' ht2' ht3' hx0 hx1 hx2 hx3 hy2 hx hT2
  obtain ⟨b0, b1, b2, b3, b4, w0, w1, w2, w3, e31, e32, hw0, hw1, hw2, hw3, hT4, m3, hm3, E3⟩ :=
    fullRound_spec t0'' t1'' t2'' t3'' x0 x1 x2 x3 y3 ht0'' ht1'' ht2'' ht3'' hx0 hx1 hx2 hx3 hy3 hx hT3
  obtain ⟨r0, r1, r2, r3, he, g0, g1, g2, g3, hr⟩ := asm_reduce_ok w0 w1 w2 w3 hw0 hw1 hw2 hw3 hT4
  refine ⟨r0, r1, r2, r3, by limb_eval [mulADX], g0, g1, g2, g3, ?_, ?_⟩
  · rw [hr]; exact Nat.mod_lt _ (by decide)
  · rw [Nat.mul_comm (val4 x0 x1 x2 x3)]
    exact mod_of_mont _ _ _ _ (mont_chain y0 y1 y2 y3 _ _ _ _ _ m0 m1 m2 m3 E0 E1 E2 E3) hr

/-! #### fromMont -/

def fromMontADX (z0 z1 z2 z3 : Nat) : Nat × Nat × Nat × Nat :=
  let (t0, t1, t2, t3) := redRound z0 z1 z2 z3 0
  let (t0, t1, t2, t3) := redRound t0 t1 t2 t3 0
  let (t0, t1, t2, t3) := redRound t0 t1 t2 t3 0
  let (t0, t1, t2, t3) := redRound t0 t1 t2 t3 0
  FFAsm.reduce t0 t1 t2 t3

theorem val5_top_zero (a b c d : Nat) : val5 a b c d 0 = val4 a b c d := by
  simp only [val4, val5]; omega

theorem fit4 (V : Nat) (h : V < R) : V + (W - 1) * Q < W ^ 5 := by
  simp only [Q, R, W] at *; omega

theorem fmRound_spec (z0 z1 z2 z3 : Nat) (hz0 : z0 < W) (hz1 : z1 < W) (hz2 : z2 < W) (hz3 : z3 < W) :
    ∃ u0 u1 u2 u3, redRound z0 z1 z2 z3 0 = (u0, u1, u2, u3) ∧
      u0 < W ∧ u1 < W ∧ u2 < W ∧ u3 < W ∧
      ∃ m, m < W ∧ val4 u0 u1 u2 u3 * W = val4 z0 z1 z2 z3 + m * Q := by
  have h := redRound_spec z0 z1 z2 z3 0 hz0 hz1 hz2 hz3 (by decide)
    (by rw [val5_top_zero]; exact fit4 _ (val4_lt z0 z1 z2 z3 hz0 hz1 hz2 hz3))
  rw [val5_top_zero] at h
  exact h

/-- the ADX `fromMont`, for ANY four words -/
theorem fromMontADX_ok (z0 z1 z2 z3 : Nat) (hz0 : z0 < W) (hz1 : z1 < W) (hz2 : z2 < W) (hz3 : z3 < W) :
    ∃ r0 r1 r2 r3, fromMontADX z0 z1 z2 z3 = (r0, r1, r2, r3) ∧
      r0 < W ∧ r1 < W ∧ r2 < W ∧ r3 < W ∧ val4 r0 r1 r2 r3 < Q ∧
      (val4 r0 r1 r2 r3 * R) % Q = val4 z0 z1 z2 z3 % Q := by
  obtain ⟨t0, t1, t2, t3, e0, ht0, ht1, ht2, ht3, m0, hm0, E0⟩ := fmRound_spec z0 z1 z2 z3 hz0 hz1 hz2 hz3
  obtain ⟨t0', t1', t2', t3', e1, ht0', ht1', ht2', ht3', m1, hm1, E1⟩ := fmRound_spec t0 t1 t2 t3 ht0 ht1 ht2 ht3
  obtain ⟨t0'', t1'', t2'', t3'', e2, ht0'', ht1'', ht2'', ht3'', m2, hm2, E2⟩ :=
    fmRound_spec t0' t1' t2' t3' ht0' ht1' ht2' ht3'
  obtain ⟨w0, w1, w2, w3, e3, hw0, hw1, hw2, hw3, m3, hm3, E3⟩ :=
    fmRound_spec t0'' t1'' t2'' t3'' ht0'' ht1'' ht2'' ht3''
  have hch := fm_chain _ _ _ _ _ m0 m1 m2 m3 E0 E1 E2 E3
  have hb := fm_bound _ _ _ hch (val4_lt z0 z1 z2 z3 hz0 hz1 hz2 hz3) (val4_lt m0 m1 m2 m3 hm0 hm1 hm2 hm3)
  obtain ⟨r0, r1, r2, r3, he, g0, g1, g2, g3, hr⟩ := asm_reduce_ok w0 w1 w2 w3 hw0 hw1 hw2 hw3 hb
  refine ⟨r0, r1, r2, r3, by limb_eval [fromMontADX], g0, g1, g2, g3, ?_, ?_⟩
  · rw [hr]; exact Nat.mod_lt _ (by decide)
  · exact mod_of_mont _ _ _ _ hch hr

/-! ### the generated routines are these compositions -/

theorem not_noadx_one : ¬ ((!decide ((1 : Nat) = 1)) = true) := by decide

theorem mul_adx1 (z0 z1 z2 z3 x0 x1 x2 x3 y0 y1 y2 y3 : Nat) :
    FFAsm.mul 1 z0 z1 z2 z3 x0 x1 x2 x3 y0 y1 y2 y3 = mulADX x0 x1 x2 x3 y0 y1 y2 y3 := by
  have hc := not_noadx_one
  show _ = _
  limb_eval [FFAsm.mul, mulADX, mulRound0, mulRound, redRound, FFAsm.reduce, mul64, adcq, subq, sbbq, sub64]

theorem mul_zx_adx1 (z0 z1 z2 z3 y0 y1 y2 y3 : Nat) :
    FFAsm.mul_zx 1 z0 z1 z2 z3 y0 y1 y2 y3 = mulADX z0 z1 z2 z3 y0 y1 y2 y3 := by
  have hc := not_noadx_one
  show _ = _
  limb_eval [FFAsm.mul_zx, mulADX, mulRound0, mulRound, redRound, FFAsm.reduce, mul64, adcq, subq, sbbq, sub64]

theorem mul_zy_adx1 (z0 z1 z2 z3 x0 x1 x2 x3 : Nat) :
    FFAsm.mul_zy 1 z0 z1 z2 z3 x0 x1 x2 x3 = mulADX x0 x1 x2 x3 z0 z1 z2 z3 := by
  have hc := not_noadx_one
  show _ = _
  limb_eval [FFAsm.mul_zy, mulADX, mulRound0, mulRound, redRound, FFAsm.reduce, mul64, adcq, subq, sbbq, sub64]

theorem mul_xy_adx1 (z0 z1 z2 z3 x0 x1 x2 x3 : Nat) :
    FFAsm.mul_xy 1 z0 z1 z2 z3 x0 x1 x2 x3 = mulADX x0 x1 x2 x3 x0 x1 x2 x3 := by
  have hc := not_noadx_one
  show _ = _
  limb_eval [FFAsm.mul_xy, mulADX, mulRound0, mulRound, redRound, FFAsm.reduce, mul64, adcq, subq, sbbq, sub64]

theorem mul_zxy_adx1 (z0 z1 z2 z3 : Nat) :
    FFAsm.mul_zxy 1 z0 z1 z2 z3 = mulADX z0 z1 z2 z3 z0 z1 z2 z3 := by
  have hc := not_noadx_one
  show _ = _
  limb_eval [FFAsm.mul_zxy, mulADX, mulRound0, mulRound, redRound, FFAsm.reduce, mul64, adcq, subq, sbbq, sub64]

theorem mul_adxonly_eq (z0 z1 z2 z3 x0 x1 x2 x3 y0 y1 y2 y3 : Nat) :
    FFAsm.mul_adxonly z0 z1 z2 z3 x0 x1 x2 x3 y0 y1 y2 y3 = mulADX x0 x1 x2 x3 y0 y1 y2 y3 := by
  show _ = _
  limb_eval [FFAsm.mul_adxonly, mulADX, mulRound0, mulRound, redRound, FFAsm.reduce, mul64, adcq, subq, sbbq, sub64]

theorem mul_adxonly_zx_eq (z0 z1 z2 z3 y0 y1 y2 y3 : Nat) :
    FFAsm.mul_adxonly_zx z0 z1 z2 z3 y0 y1 y2 y3 = mulADX z0 z1 z2 z3 y0 y1 y2 y3 := by
  show _ = _
  limb_eval [FFAsm.mul_adxonly_zx, mulADX, mulRound0, mulRound, redRound, FFAsm.reduce, mul64, adcq, subq, sbbq, sub64]

theorem mul_adxonly_zy_eq (z0 z1 z2 z3 x0 x1 x2 x3 : Nat) :
    FFAsm.mul_adxonly_zy z0 z1 z2 z3 x0 x1 x2 x3 = mulADX x0 x1 x2 x3 z0 z1 z2 z3 := by
  show _ = _
  limb_eval [FFAsm.mul_adxonly_zy, mulADX, mulRound0, mulRound, redRound, FFAsm.reduce, mul64, adcq, subq, sbbq, sub64]

theorem mul_adxonly_xy_eq (z0 z1 z2 z3 x0 x1 x2 x3 : Nat) :
    FFAsm.mul_adxonly_xy z0 z1 z2 z3 x0 x1 x2 x3 = mulADX x0 x1 x2 x3 x0 x1 x2 x3 := by
  show _ = _
  limb_eval [FFAsm.mul_adxonly_xy, mulADX, mulRound0, mulRound, redRound, FFAsm.reduce, mul64, adcq, subq, sbbq, sub64]

theorem mul_adxonly_zxy_eq (z0 z1 z2 z3 : Nat) :
    FFAsm.mul_adxonly_zxy z0 z1 z2 z3 = mulADX z0 z1 z2 z3 z0 z1 z2 z3 := by
  show _ = _
  limb_eval [FFAsm.mul_adxonly_zxy, mulADX, mulRound0, mulRound, redRound, FFAsm.reduce, mul64, adcq, subq, sbbq, sub64]

theorem fromMont_adx1 (z0 z1 z2 z3 : Nat) : FFAsm.fromMont 1 z0 z1 z2 z3 = fromMontADX z0 z1 z2 z3 := by
  have hc := not_noadx_one
  show _ = _
  limb_eval [FFAsm.fromMont, fromMontADX, redRound, FFAsm.reduce, mul64, adcq, subq, sbbq, sub64]

theorem fromMont_adxonly_eq (z0 z1 z2 z3 : Nat) : FFAsm.fromMont_adxonly z0 z1 z2 z3 = fromMontADX z0 z1 z2 z3 := by
  show _ = _
  limb_eval [FFAsm.fromMont_adxonly, fromMontADX, redRound, FFAsm.reduce, mul64, adcq, subq, sbbq, sub64]

theorem noadx_cond (adx : Nat) (h : adx ≠ 1) : (!decide (adx = 1)) = true := by simp [h]

theorem mul_noadx (adx : Nat) (h : adx ≠ 1) (z0 z1 z2 z3 x0 x1 x2 x3 y0 y1 y2 y3 : Nat) :
    FFAsm.mul adx z0 z1 z2 z3 x0 x1 x2 x3 y0 y1 y2 y3 = FF.mulGeneric z0 z1 z2 z3 x0 x1 x2 x3 y0 y1 y2 y3 := by
  have hc := noadx_cond adx h
  rcases hm : FF.mulGeneric z0 z1 z2 z3 x0 x1 x2 x3 y0 y1 y2 y3 with ⟨r0, r1, r2, r3⟩
  show _ = _
  limb_eval [FFAsm.mul]

theorem mul_zx_noadx (adx : Nat) (h : adx ≠ 1) (z0 z1 z2 z3 y0 y1 y2 y3 : Nat) :
    FFAsm.mul_zx adx z0 z1 z2 z3 y0 y1 y2 y3 = FF.mulGeneric_zx z0 z1 z2 z3 y0 y1 y2 y3 := by
  have hc := noadx_cond adx h
  rcases hm : FF.mulGeneric_zx z0 z1 z2 z3 y0 y1 y2 y3 with ⟨r0, r1, r2, r3⟩
  show _ = _
  limb_eval [FFAsm.mul_zx]

theorem mul_zy_noadx (adx : Nat) (h : adx ≠ 1) (z0 z1 z2 z3 x0 x1 x2 x3 : Nat) :
    FFAsm.mul_zy adx z0 z1 z2 z3 x0 x1 x2 x3 = FF.mulGeneric_zy z0 z1 z2 z3 x0 x1 x2 x3 := by
  have hc := noadx_cond adx h
  rcases hm : FF.mulGeneric_zy z0 z1 z2 z3 x0 x1 x2 x3 with ⟨r0, r1, r2, r3⟩
  show _ = _
  limb_eval [FFAsm.mul_zy]

theorem mul_xy_noadx (adx : Nat) (h : adx ≠ 1) (z0 z1 z2 z3 x0 x1 x2 x3 : Nat) :
    FFAsm.mul_xy adx z0 z1 z2 z3 x0 x1 x2 x3 = FF.mulGeneric_xy z0 z1 z2 z3 x0 x1 x2 x3 := by
  have hc := noadx_cond adx h
  rcases hm : FF.mulGeneric_xy z0 z1 z2 z3 x0 x1 x2 x3 with ⟨r0, r1, r2, r3⟩
  show _ = _
  limb_eval [FFAsm.mul_xy]

theorem mul_zxy_noadx (adx : Nat) (h : adx ≠ 1) (z0 z1 z2 z3 : Nat) :
    FFAsm.mul_zxy adx z0 z1 z2 z3 = FF.mulGeneric_zxy z0 z1 z2 z3 := by
  have hc := noadx_cond adx h
  rcases hm : FF.mulGeneric_zxy z0 z1 z2 z3 with ⟨r0, r1, r2, r3⟩
  show _ = _
  limb_eval [FFAsm.mul_zxy]

theorem fromMont_noadx (adx : Nat) (h : adx ≠ 1) (z0 z1 z2 z3 : Nat) :
    FFAsm.fromMont adx z0 z1 z2 z3 = FF.fromMontGeneric z0 z1 z2 z3 := by
  have hc := noadx_cond adx h
  rcases hm : FF.fromMontGeneric z0 z1 z2 z3 with ⟨r0, r1, r2, r3⟩
  show _ = _
  limb_eval [FFAsm.fromMont]

/-! ### aliasing: every variant is the base routine on the shared cells -/

theorem add_zx (a0 a1 a2 a3 z0 z1 z2 z3 y0 y1 y2 y3 : Nat) :
    FFAsm.add_zx z0 z1 z2 z3 y0 y1 y2 y3 = FFAsm.add a0 a1 a2 a3 z0 z1 z2 z3 y0 y1 y2 y3 := rfl
theorem add_zy (a0 a1 a2 a3 z0 z1 z2 z3 x0 x1 x2 x3 : Nat) :
    FFAsm.add_zy z0 z1 z2 z3 x0 x1 x2 x3 = FFAsm.add a0 a1 a2 a3 x0 x1 x2 x3 z0 z1 z2 z3 := rfl
theorem add_xy (z0 z1 z2 z3 x0 x1 x2 x3 : Nat) :
    FFAsm.add_xy z0 z1 z2 z3 x0 x1 x2 x3 = FFAsm.add z0 z1 z2 z3 x0 x1 x2 x3 x0 x1 x2 x3 := rfl
theorem add_zxy (a0 a1 a2 a3 z0 z1 z2 z3 : Nat) :
    FFAsm.add_zxy z0 z1 z2 z3 = FFAsm.add a0 a1 a2 a3 z0 z1 z2 z3 z0 z1 z2 z3 := rfl
theorem sub_zx (a0 a1 a2 a3 z0 z1 z2 z3 y0 y1 y2 y3 : Nat) :
    FFAsm.sub_zx z0 z1 z2 z3 y0 y1 y2 y3 = FFAsm.sub a0 a1 a2 a3 z0 z1 z2 z3 y0 y1 y2 y3 := rfl
theorem sub_zy (a0 a1 a2 a3 z0 z1 z2 z3 x0 x1 x2 x3 : Nat) :
    FFAsm.sub_zy z0 z1 z2 z3 x0 x1 x2 x3 = FFAsm.sub a0 a1 a2 a3 x0 x1 x2 x3 z0 z1 z2 z3 := rfl
theorem sub_xy (z0 z1 z2 z3 x0 x1 x2 x3 : Nat) :
    FFAsm.sub_xy z0 z1 z2 z3 x0 x1 x2 x3 = FFAsm.sub z0 z1 z2 z3 x0 x1 x2 x3 x0 x1 x2 x3 := rfl
theorem sub_zxy (a0 a1 a2 a3 z0 z1 z2 z3 : Nat) :
    FFAsm.sub_zxy z0 z1 z2 z3 = FFAsm.sub a0 a1 a2 a3 z0 z1 z2 z3 z0 z1 z2 z3 := rfl
theorem double_zx (a0 a1 a2 a3 z0 z1 z2 z3 : Nat) :
    FFAsm.double_zx z0 z1 z2 z3 = FFAsm.double a0 a1 a2 a3 z0 z1 z2 z3 := rfl
theorem neg_zx (a0 a1 a2 a3 z0 z1 z2 z3 : Nat) :
    FFAsm.neg_zx z0 z1 z2 z3 = FFAsm.neg a0 a1 a2 a3 z0 z1 z2 z3 := rfl

/-- the variants of `mul` are not compared by `rfl` (the kernel would have to unfold the portable
kernels under the undecided dispatch): both sides are rewritten to the same normal form instead -/
theorem mul_zx (adx a0 a1 a2 a3 z0 z1 z2 z3 y0 y1 y2 y3 : Nat) :
    FFAsm.mul_zx adx z0 z1 z2 z3 y0 y1 y2 y3 = FFAsm.mul adx a0 a1 a2 a3 z0 z1 z2 z3 y0 y1 y2 y3 := by
  by_cases h : adx = 1
  · subst h; rw [mul_zx_adx1, mul_adx1]
  · rw [mul_zx_noadx adx h, mul_noadx adx h, I3.Limbs.mul_zx a0 a1 a2 a3]
theorem mul_zy (adx a0 a1 a2 a3 z0 z1 z2 z3 x0 x1 x2 x3 : Nat) :
    FFAsm.mul_zy adx z0 z1 z2 z3 x0 x1 x2 x3 = FFAsm.mul adx a0 a1 a2 a3 x0 x1 x2 x3 z0 z1 z2 z3 := by
  by_cases h : adx = 1
  · subst h; rw [mul_zy_adx1, mul_adx1]
  · rw [mul_zy_noadx adx h, mul_noadx adx h, I3.Limbs.mul_zy a0 a1 a2 a3]
theorem mul_xy (adx z0 z1 z2 z3 x0 x1 x2 x3 : Nat) :
    FFAsm.mul_xy adx z0 z1 z2 z3 x0 x1 x2 x3 = FFAsm.mul adx z0 z1 z2 z3 x0 x1 x2 x3 x0 x1 x2 x3 := by
  by_cases h : adx = 1
  · subst h; rw [mul_xy_adx1, mul_adx1]
  · rw [mul_xy_noadx adx h, mul_noadx adx h, I3.Limbs.mul_xy]
theorem mul_zxy (adx a0 a1 a2 a3 z0 z1 z2 z3 : Nat) :
    FFAsm.mul_zxy adx z0 z1 z2 z3 = FFAsm.mul adx a0 a1 a2 a3 z0 z1 z2 z3 z0 z1 z2 z3 := by
  by_cases h : adx = 1
  · subst h; rw [mul_zxy_adx1, mul_adx1]
  · rw [mul_zxy_noadx adx h, mul_noadx adx h, I3.Limbs.mul_zxy a0 a1 a2 a3]
theorem mul_adxonly_zx (a0 a1 a2 a3 z0 z1 z2 z3 y0 y1 y2 y3 : Nat) :
    FFAsm.mul_adxonly_zx z0 z1 z2 z3 y0 y1 y2 y3 = FFAsm.mul_adxonly a0 a1 a2 a3 z0 z1 z2 z3 y0 y1 y2 y3 := by
  rw [mul_adxonly_zx_eq, mul_adxonly_eq]
theorem mul_adxonly_zy (a0 a1 a2 a3 z0 z1 z2 z3 x0 x1 x2 x3 : Nat) :
    FFAsm.mul_adxonly_zy z0 z1 z2 z3 x0 x1 x2 x3 = FFAsm.mul_adxonly a0 a1 a2 a3 x0 x1 x2 x3 z0 z1 z2 z3 := by
  rw [mul_adxonly_zy_eq, mul_adxonly_eq]
theorem mul_adxonly_xy (z0 z1 z2 z3 x0 x1 x2 x3 : Nat) :
    FFAsm.mul_adxonly_xy z0 z1 z2 z3 x0 x1 x2 x3 = FFAsm.mul_adxonly z0 z1 z2 z3 x0 x1 x2 x3 x0 x1 x2 x3 := by
  rw [mul_adxonly_xy_eq, mul_adxonly_eq]
theorem mul_adxonly_zxy (a0 a1 a2 a3 z0 z1 z2 z3 : Nat) :
    FFAsm.mul_adxonly_zxy z0 z1 z2 z3 = FFAsm.mul_adxonly a0 a1 a2 a3 z0 z1 z2 z3 z0 z1 z2 z3 := by
  rw [mul_adxonly_zxy_eq, mul_adxonly_eq]

/-- with ADX the run-time dispatch and the `amd64_adx` build are the same code -/
theorem mul_adx1_eq_adxonly (z0 z1 z2 z3 x0 x1 x2 x3 y0 y1 y2 y3 : Nat) :
    FFAsm.mul 1 z0 z1 z2 z3 x0 x1 x2 x3 y0 y1 y2 y3 = FFAsm.mul_adxonly z0 z1 z2 z3 x0 x1 x2 x3 y0 y1 y2 y3 := by
  rw [mul_adx1, mul_adxonly_eq]
theorem fromMont_adx1_eq_adxonly (z0 z1 z2 z3 : Nat) :
    FFAsm.fromMont 1 z0 z1 z2 z3 = FFAsm.fromMont_adxonly z0 z1 z2 z3 := by
  rw [fromMont_adx1, fromMont_adxonly_eq]

/-! ### mul, fromMont: the generated routines -/

/-- `mul` with ADX (`x` canonical, `y` any four words) -/
theorem asm_mul_adx_ok' (z0 z1 z2 z3 x0 x1 x2 x3 y0 y1 y2 y3 : Nat)
    (hx0 : x0 < W) (hx1 : x1 < W) (hx2 : x2 < W) (hx3 : x3 < W)
    (hy0 : y0 < W) (hy1 : y1 < W) (hy2 : y2 < W) (hy3 : y3 < W)
    (hx : val4 x0 x1 x2 x3 < Q) :
    ∃ r0 r1 r2 r3, FFAsm.mul 1 z0 z1 z2 z3 x0 x1 x2 x3 y0 y1 y2 y3 = (r0, r1, r2, r3) ∧
      r0 < W ∧ r1 < W ∧ r2 < W ∧ r3 < W ∧ val4 r0 r1 r2 r3 < Q ∧
      (val4 r0 r1 r2 r3 * R) % Q = (val4 x0 x1 x2 x3 * val4 y0 y1 y2 y3) % Q := by
  rw [mul_adx1]; exact mulADX_ok x0 x1 x2 x3 y0 y1 y2 y3 hx0 hx1 hx2 hx3 hy0 hy1 hy2 hy3 hx

/-- `mul` of the `amd64_adx` build (`x` canonical, `y` any four words) -/
theorem asm_mul_adxonly_ok' (z0 z1 z2 z3 x0 x1 x2 x3 y0 y1 y2 y3 : Nat)
    (hx0 : x0 < W) (hx1 : x1 < W) (hx2 : x2 < W) (hx3 : x3 < W)
    (hy0 : y0 < W) (hy1 : y1 < W) (hy2 : y2 < W) (hy3 : y3 < W)
    (hx : val4 x0 x1 x2 x3 < Q) :
    ∃ r0 r1 r2 r3, FFAsm.mul_adxonly z0 z1 z2 z3 x0 x1 x2 x3 y0 y1 y2 y3 = (r0, r1, r2, r3) ∧
      r0 < W ∧ r1 < W ∧ r2 < W ∧ r3 < W ∧ val4 r0 r1 r2 r3 < Q ∧
      (val4 r0 r1 r2 r3 * R) % Q = (val4 x0 x1 x2 x3 * val4 y0 y1 y2 y3) % Q := by
  rw [mul_adxonly_eq]; exact mulADX_ok x0 x1 x2 x3 y0 y1 y2 y3 hx0 hx1 hx2 hx3 hy0 hy1 hy2 hy3 hx

/-- `mul` whatever the CPU feature flag is -/
theorem asm_mul_ok (adx z0 z1 z2 z3 x0 x1 x2 x3 y0 y1 y2 y3 : Nat)
    (hx0 : x0 < W) (hx1 : x1 < W) (hx2 : x2 < W) (hx3 : x3 < W)
    (hy0 : y0 < W) (hy1 : y1 < W) (hy2 : y2 < W) (hy3 : y3 < W)
    (hx : val4 x0 x1 x2 x3 < Q) (hy : val4 y0 y1 y2 y3 < Q) :
    ∃ r0 r1 r2 r3, FFAsm.mul adx z0 z1 z2 z3 x0 x1 x2 x3 y0 y1 y2 y3 = (r0, r1, r2, r3) ∧
      r0 < W ∧ r1 < W ∧ r2 < W ∧ r3 < W ∧ val4 r0 r1 r2 r3 < Q ∧
      (val4 r0 r1 r2 r3 * R) % Q = (val4 x0 x1 x2 x3 * val4 y0 y1 y2 y3) % Q := by
  by_cases h : adx = 1
  · subst h; exact asm_mul_adx_ok' z0 z1 z2 z3 x0 x1 x2 x3 y0 y1 y2 y3 hx0 hx1 hx2 hx3 hy0 hy1 hy2 hy3 hx
  · rw [mul_noadx adx h]
    exact I3.Limbs.mul_ok z0 z1 z2 z3 x0 x1 x2 x3 y0 y1 y2 y3 hx0 hx1 hx2 hx3 hy0 hy1 hy2 hy3 hx hy

/-- `fromMont` of the `amd64_adx` build, for ANY four words -/
theorem asm_fromMont_adxonly_ok (z0 z1 z2 z3 : Nat) (hz0 : z0 < W) (hz1 : z1 < W) (hz2 : z2 < W) (hz3 : z3 < W) :
    ∃ r0 r1 r2 r3, FFAsm.fromMont_adxonly z0 z1 z2 z3 = (r0, r1, r2, r3) ∧
      r0 < W ∧ r1 < W ∧ r2 < W ∧ r3 < W ∧ val4 r0 r1 r2 r3 < Q ∧
      (val4 r0 r1 r2 r3 * R) % Q = val4 z0 z1 z2 z3 % Q := by
  rw [fromMont_adxonly_eq]; exact fromMontADX_ok z0 z1 z2 z3 hz0 hz1 hz2 hz3

/-- `fromMont` whatever the CPU feature flag is, for ANY four words -/
theorem asm_fromMont_ok (adx z0 z1 z2 z3 : Nat) (hz0 : z0 < W) (hz1 : z1 < W) (hz2 : z2 < W) (hz3 : z3 < W) :
    ∃ r0 r1 r2 r3, FFAsm.fromMont adx z0 z1 z2 z3 = (r0, r1, r2, r3) ∧
      r0 < W ∧ r1 < W ∧ r2 < W ∧ r3 < W ∧ val4 r0 r1 r2 r3 < Q ∧
      (val4 r0 r1 r2 r3 * R) % Q = val4 z0 z1 z2 z3 % Q := by
  by_cases h : adx = 1
  · subst h; rw [fromMont_adx1]; exact fromMontADX_ok z0 z1 z2 z3 hz0 hz1 hz2 hz3
  · rw [fromMont_noadx adx h]; exact I3.Limbs.fromMont_ok z0 z1 z2 z3 hz0 hz1 hz2 hz3

end I3.LimbsAsm
