/-
  I3.Lemmas.Conv — helper lemmas for property C11: big-endian byte strings (`beToNat`, `natToBE`)
  and the Euclidean residue `imod`.  Core Lean only (the hypotheses of `Cfg.WF` that are needed are
  passed explicitly: `0 < m` and `m < 2^(64·limbs)`).
-/
import I3.Model.FF
import I3.Lemmas.Bytes
namespace I3.Lemmas.Conv
open I3 I3.Model.FF

/-! ### `imod` -/

theorem imod_cast (v : Int) {m : Nat} (hm : 0 < m) : ((imod v m : Nat) : Int) = v % (m : Int) := by
  unfold imod
  exact Int.toNat_of_nonneg (Int.emod_nonneg _ (by omega))

theorem imod_lt (v : Int) {m : Nat} (hm : 0 < m) : imod v m < m := by
  have h1 := imod_cast v hm
  have h2 : v % (m : Int) < (m : Int) := Int.emod_lt_of_pos _ (by omega)
  omega

theorem imod_natCast (a m : Nat) : imod (a : Int) m = a % m := by
  unfold imod
  rw [← Int.natCast_emod, Int.toNat_natCast]

theorem imod_eq_iff (v w : Int) {m : Nat} (hm : 0 < m) :
    imod v m = imod w m ↔ v % (m : Int) = w % (m : Int) := by
  rw [← imod_cast v hm, ← imod_cast w hm]
  omega

theorem imod_add_mul (v k : Int) (m : Nat) : imod (v + k * (m : Int)) m = imod v m := by
  unfold imod
  rw [Int.add_mul_emod_self_right]

/-! ### big-endian decoding -/

theorem foldl_be (a : Nat) (bs : Bytes) :
    bs.foldl (fun acc (b : UInt8) => acc * 256 + b.toNat) a = a * 256 ^ bs.length + beToNat bs := by
  induction bs generalizing a with
  | nil => simp [beToNat]
  | cons b bs ih =>
    rw [beToNat, List.foldl_cons, List.foldl_cons, ih, ih (0 * 256 + b.toNat), List.length_cons,
      Nat.pow_succ, Nat.zero_mul, Nat.zero_add, Nat.add_mul, Nat.add_assoc, Nat.mul_assoc,
      Nat.mul_comm 256]

theorem beToNat_nil : beToNat [] = 0 := rfl

theorem beToNat_cons (b : UInt8) (bs : Bytes) :
    beToNat (b :: bs) = b.toNat * 256 ^ bs.length + beToNat bs := by
  rw [beToNat, List.foldl_cons, foldl_be, Nat.zero_mul, Nat.zero_add]

theorem beToNat_append (xs ys : Bytes) :
    beToNat (xs ++ ys) = beToNat xs * 256 ^ ys.length + beToNat ys := by
  rw [beToNat, List.foldl_append, foldl_be]
  rfl

theorem beToNat_singleton (b : UInt8) : beToNat [b] = b.toNat := by
  simp [beToNat]

/-- leading zero bytes do not change the value. -/
theorem beToNat_zeros_append (n : Nat) (bs : Bytes) :
    beToNat (List.replicate n 0 ++ bs) = beToNat bs := by
  induction n with
  | zero => rfl
  | succ n ih =>
    rw [List.replicate_succ, List.cons_append, beToNat_cons, ih]
    simp

theorem beToNat_lt (bs : Bytes) : beToNat bs < 256 ^ bs.length := by
  induction bs with
  | nil => simp [beToNat]
  | cons b bs ih =>
    have hb := b.toNat_lt
    rw [beToNat_cons, List.length_cons, Nat.pow_succ]
    have : b.toNat * 256 ^ bs.length ≤ 255 * 256 ^ bs.length := Nat.mul_le_mul_right _ (by omega)
    generalize 256 ^ bs.length = P at *
    omega

/-- big-endian decoding is little-endian decoding of the reversed string. -/
theorem beToNat_reverse (bs : Bytes) : beToNat bs.reverse = leToNat bs := by
  induction bs with
  | nil => rfl
  | cons b bs ih =>
    rw [List.reverse_cons, beToNat_append, ih, beToNat_singleton, leToNat, List.length_singleton,
      Nat.pow_one]
    omega

theorem beToNat_eq_leToNat_reverse (bs : Bytes) : beToNat bs = leToNat bs.reverse := by
  rw [← beToNat_reverse, List.reverse_reverse]

/-! ### fixed-width big-endian encoding -/

theorem natToBE_length (n v : Nat) : (natToBE n v).length = n := by
  rw [natToBE, List.length_reverse, Lemmas.Bytes.natToLE_length]

theorem beToNat_natToBE (n v : Nat) : beToNat (natToBE n v) = v % 256 ^ n := by
  rw [natToBE, beToNat_reverse, Lemmas.Bytes.leToNat_natToLE]

theorem natToBE_beToNat (bs : Bytes) : natToBE bs.length (beToNat bs) = bs := by
  have := Lemmas.Bytes.natToLE_leToNat bs.reverse
  rw [List.length_reverse, ← beToNat_eq_leToNat_reverse] at this
  rw [natToBE, this, List.reverse_reverse]

theorem pow_256_8 (l : Nat) : 256 ^ (8 * l) = 2 ^ (64 * l) := by
  rw [show 256 = 2 ^ 8 from rfl, ← Nat.pow_mul, ← Nat.mul_assoc]

/-- same length and same value ⇒ same string. -/
theorem beToNat_inj {xs ys : Bytes} (hl : xs.length = ys.length) (h : beToNat xs = beToNat ys) :
    xs = ys := by
  rw [← natToBE_beToNat xs, ← natToBE_beToNat ys, hl, h]

end I3.Lemmas.Conv
