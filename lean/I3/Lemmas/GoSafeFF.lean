/-
  I3.Lemmas.GoSafeFF — panic-freedom of the CHECKED VARIANTS (`I3/Gen/GoChkFF.lean`, `GoChkFFG.lean`,
  `GoChkFFLimb.lean`, `GoChkFFGLimb.lean`) of the two field packages: helper lemmas for I3.Props.C18Safe and
  I3.Props.C11Safe (general lemmas and proof technique: I3.Lemmas.GoSafe).

  1. loop rules for the remaining counted loops of checked variants (`forDownRet`, `forRangeNRet`);
  2. `Sqrt`: the Tonelli–Shanks loops of the checked variant have result type `Bool` (the ordinary generated
     function: `Ret`), so the two inner loops and the outer loop are restated for an arbitrary result type and the
     outer loop is shown to RETURN `true` WITHIN THE FUEL directly from the invariant `TSInv` (`ordLog_exact`:
     the new `r` is strictly smaller; `tsInv_step`: the invariant is preserved) — the argument behind
     `GoBridge.FF.tsRun_result` / `C18Gen.ff_Sqrt_terminates`.  The generated definition is opened exactly like in
     I3.Lemmas.GoBridgeFF (`unfold`, rewriting with lemmas whose left-hand side matches syntactically,
     `ff_head_whnf`): the kernel never compares two copies of the nested `whileFuel` term;
  3. limb lists: the T2 kernel wrappers return lists of the package's length (4 resp. 1) whatever they are given;
     the lengths of the results of the ordinary generated constructors.
-/
import I3.Gen.GoChkFF
import I3.Gen.GoChkFFG
import I3.Gen.GoChkFFLimb
import I3.Gen.GoChkFFGLimb
import I3.Lemmas.GoSafe
import I3.Lemmas.GoBridgeFF
import I3.Lemmas.GoBridgeFFLimb

set_option maxRecDepth 100000
set_option linter.unusedVariables false

namespace I3.GoSafe
open I3 I3.Go I3.Gen.Go

/-! ## 1. loops -/

section loops
variable {ρ σ : Type}

/-- the fold behind every counted loop whose body may return: while the invariant holds no iteration returns -/
theorem foldRet_inv (P : σ → Prop) (F : Option ρ × σ → Nat → Option ρ × σ) :
    ∀ (n : Nat) (s : σ), P s →
      (∀ k st, k < n → P st → (F (none, st) k).1 = none ∧ P (F (none, st) k).2) →
      ((List.range n).foldl F (none, s)).1 = none ∧ P ((List.range n).foldl F (none, s)).2
  | 0, s, hs, _ => ⟨rfl, hs⟩
  | n + 1, s, hs, hF => by
    rw [List.range_succ, List.foldl_append]
    obtain ⟨h1, h2⟩ := foldRet_inv P F n s hs (fun k st hk hP => hF k st (Nat.lt_succ_of_lt hk) hP)
    generalize (List.range n).foldl F (none, s) = acc at h1 h2
    obtain ⟨a, st⟩ := acc
    dsimp only at h1 h2
    subst h1
    exact hF n st (Nat.lt_succ_self n) h2

/-- LOOP RULE for `for i := hi; i >= lo; i--` -/
theorem forDownRet_inv (P : σ → Prop) {hi lo : Int} {f : Int → σ → Option ρ × σ} {s : σ}
    {r : Option ρ × σ} (hr : Go.forDownRet hi lo f s = r) (hs : P s)
    (hstep : ∀ i s, lo ≤ i → i ≤ hi → P s → (f i s).1 = none ∧ P (f i s).2) :
    r.1 = none ∧ P r.2 := by
  subst hr
  unfold Go.forDownRet
  refine foldRet_inv P _ _ s hs ?_
  intro k st hk hP
  exact hstep (hi - (k : Int)) st (by omega) (by omega) hP

/-- LOOP RULE for a counted loop with an unsigned variable -/
theorem forRangeNRet_inv (P : σ → Prop) {lo hi : Nat} {f : Nat → σ → Option ρ × σ} {s : σ}
    {r : Option ρ × σ} (hr : Go.forRangeNRet lo hi f s = r) (hs : P s)
    (hstep : ∀ i s, lo ≤ i → i < hi → P s → (f i s).1 = none ∧ P (f i s).2) :
    r.1 = none ∧ P r.2 := by
  subst hr
  unfold Go.forRangeNRet
  refine foldRet_inv P _ _ s hs ?_
  intro k st hk hP
  exact hstep (lo + k) st (by omega) (by omega) hP

/-- a counted loop whose body never returns is the plain loop -/
theorem forRangeNRet_eq {lo hi : Nat} {f : Nat → σ → Option ρ × σ} {g : Nat → σ → σ}
    (hf : ∀ i s, f i s = (none, g i s)) (s : σ) :
    Go.forRangeNRet lo hi f s = (none, Go.forRangeN lo hi g s) := by
  unfold Go.forRangeNRet Go.forRangeN
  generalize hi - lo = n
  induction n with
  | zero => rfl
  | succ n ih =>
    rw [List.range_succ, List.foldl_append, List.foldl_append, ih]
    simp only [List.foldl_cons, List.foldl_nil]
    exact hf _ _

end loops

/-! ## 2. Sqrt -/

namespace FF
open I3.Model.FF I3.GoBridge I3.GoBridge.FF

section sqrt
variable {ρ : Type}

/-- the `r - 1` squarings of the residue test, in a checked variant -/
theorem forRangeNRet_square' {M : Nat} {f : Nat → Nat → Option ρ × Nat}
    (hf : ∀ i t, f i t = (none, Go.fe.square M t)) (n t : Nat) :
    Go.forRangeNRet 0 n f t = (none, sqPow M n t) := by
  rw [forRangeNRet_eq (g := fun _ t => Go.fe.square M t) hf, forRangeN_square]

/-- inner loop 1 (`for t != 1 { t.Square(&t); m++ }`), any result type -/
theorem inner1 {M : Nat} {c1 : Nat × Nat → Bool} {b1 : Nat × Nat → Option ρ × (Nat × Nat)}
    (hc1 : ∀ t m, c1 (t, m) = !(t == 1))
    (hb1 : ∀ t m, b1 (t, m) = (none, (Go.fe.square M t, Go.u64add m 1)))
    (j fuel t : Nat) (hj : j ≤ fuel) (hj64 : j < 2 ^ 64)
    (h1 : sqPow M j t = 1) (hmin : ∀ i, i < j → sqPow M i t ≠ 1) :
    Go.whileFuel fuel c1 b1 (t, 0) = (false, none, (1, j)) := by
  have hit : ∀ i k t, k + i < 2 ^ 64 →
      (fun s : Nat × Nat => (Go.fe.square M s.1, Go.u64add s.2 1))^[i] (t, k) = (sqPow M i t, k + i) := by
    intro i
    induction i with
    | zero => intro k t _; rfl
    | succ i ih =>
      intro k t hk
      have hk1 : Go.u64add k 1 = k + 1 := u64add_small (by omega)
      rw [Function.iterate_succ_apply]
      show (fun s : Nat × Nat => (Go.fe.square M s.1, Go.u64add s.2 1))^[i]
        (Go.fe.square M t, Go.u64add k 1) = _
      rw [hk1, ih (k + 1) _ (by omega), sqPow]
      exact Prod.ext rfl (by show k + 1 + i = k + (i + 1); omega)
  have hbody : ∀ s, b1 s = (none, (fun s : Nat × Nat => (Go.fe.square M s.1, Go.u64add s.2 1)) s) := by
    rintro ⟨t, m⟩; exact hb1 t m
  rw [whileFuel_iterate hbody j fuel (t, 0) hj, hit j 0 t (by omega), h1, Nat.zero_add]
  · intro i hi
    rw [hit i 0 t (by omega), hc1]
    simpa using hmin i hi
  · rw [hit j 0 t (by omega), hc1, h1]; rfl

/-- inner loop 2 (`for ge > 0 { t.Square(&t); ge-- }`), any result type -/
theorem inner2 {M : Nat} {c2 : Nat × Int → Bool} {b2 : Nat × Int → Option ρ × (Nat × Int)}
    (hc2 : ∀ t ge, c2 (t, ge) = decide (ge > (0 : Int)))
    (hb2 : ∀ t ge, b2 (t, ge) = (none, (Go.fe.square M t, ge - 1)))
    (n fuel t : Nat) (hn : n ≤ fuel) :
    Go.whileFuel fuel c2 b2 (t, (n : Int)) = (false, none, (sqPow M n t, 0)) := by
  have hit : ∀ i (k : Int) t,
      (fun s : Nat × Int => (Go.fe.square M s.1, s.2 - 1))^[i] (t, k) = (sqPow M i t, k - i) := by
    intro i
    induction i with
    | zero => intro k t; simp [sqPow]
    | succ i ih =>
      intro k t
      rw [Function.iterate_succ_apply, ih, sqPow]
      simp only [Go.fe.square]
      congr 1; push_cast; ring
  have hbody : ∀ s, b2 s = (none, (fun s : Nat × Int => (Go.fe.square M s.1, s.2 - 1)) s) := by
    rintro ⟨t, m⟩; exact hb2 t m
  rw [whileFuel_iterate hbody n fuel (t, (n : Int)) hn, hit, Int.sub_self]
  · intro i hi
    rw [hit, hc2]
    simp only [gt_iff_lt, sub_pos, Nat.cast_lt, decide_eq_true_eq]; exact hi
  · rw [hit, hc2]; simp

/-- under the Tonelli–Shanks invariant inner loop 1 ends within the fuel: `ordLog < r ≤ 64 < 80` -/
theorem inner1_inv {M x y b g r : Nat} (hM : 1 < M) (inv : TSInv M x y b g r) (hr : r ≤ 64)
    {c1 : Nat × Nat → Bool} {b1 : Nat × Nat → Option ρ × (Nat × Nat)}
    (hc1 : ∀ t m, c1 (t, m) = !(t == 1))
    (hb1 : ∀ t m, b1 (t, m) = (none, (Go.fe.square M t, Go.u64add m 1))) :
    Go.whileFuel 80 c1 b1 (b, (default : Nat)) = (false, none, (1, ordLog M (r + 1) b 0)) := by
  obtain ⟨hlt, h1, hmin⟩ := ordLog_exact hM inv
  have hcast : ∀ i, sqPow M i b = 1 ↔ (b : ZMod M) ^ (2 ^ i) = 1 := fun i => by
    rw [← sqPow_cast, natCast_eq_one_of_lt hM (sqPow_lt i b inv.b_lt)]
  exact inner1 hc1 hb1 _ 80 b (by omega) (by norm_num; omega) ((hcast _).2 h1)
    (fun i hi => fun h => hmin i hi ((hcast i).1 h))

/-- inner loop 2 in the form it has in the outer loop body: `r - m - 1 < 64 < 80` squarings -/
theorem inner2_inv {M x y b g r : Nat} (hM : 1 < M) (inv : TSInv M x y b g r) (hr : r ≤ 64)
    {c2 : Nat × Int → Bool} {b2 : Nat × Int → Option ρ × (Nat × Int)}
    (hc2 : ∀ t ge, c2 (t, ge) = decide (ge > (0 : Int)))
    (hb2 : ∀ t ge, b2 (t, ge) = (none, (Go.fe.square M t, ge - 1))) :
    Go.whileFuel 80 c2 b2 (g, (let w : Nat := Go.u64sub (Go.u64sub r (ordLog M (r + 1) b 0)) 1; if w < 9223372036854775808 then ((w : Nat) : Int) else ((w : Nat) : Int) - 18446744073709551616)) =
      (false, none, (sqPow M (r - ordLog M (r + 1) b 0 - 1) g, 0)) := by
  have hlt := (ordLog_exact hM inv).1
  have h1 : Go.u64sub r (ordLog M (r + 1) b 0) = r - ordLog M (r + 1) b 0 :=
    u64sub_small (by omega) (by norm_num; omega)
  have h2 : Go.u64sub (r - ordLog M (r + 1) b 0) 1 = r - ordLog M (r + 1) b 0 - 1 :=
    u64sub_small (by omega) (by norm_num; omega)
  rw [h1, h2]
  dsimp only
  rw [if_pos (by omega)]
  exact inner2 hc2 hb2 _ 80 g (by omega)

end sqrt

/-- one iteration of the outer loop of the CHECKED `Sqrt` on the Go state `(z, y, b, t, g, r)`: no inner loop is
    exhausted; `return z` (checked variant: `some true`) when `m = 0` -/
def tsBodyOk (M : Nat) (z y b g r : Nat) : Option Bool × St :=
  if ordLog M (r + 1) b 0 = 0 then (some true, (y, y, b, 1, g, r))
  else
    (none, (z, y * sqPow M (r - ordLog M (r + 1) b 0 - 1) g % M,
      b * (sqPow M (r - ordLog M (r + 1) b 0 - 1) g * sqPow M (r - ordLog M (r + 1) b 0 - 1) g % M) % M,
      sqPow M (r - ordLog M (r + 1) b 0 - 1) g,
      sqPow M (r - ordLog M (r + 1) b 0 - 1) g * sqPow M (r - ordLog M (r + 1) b 0 - 1) g % M,
      ordLog M (r + 1) b 0))

/-- **termination of the outer loop within the fuel**: from a state satisfying the invariant the loop RETURNS
    (`some true`: no requirement failed, no inner loop was exhausted) after at most `r + 1` iterations, because
    every iteration that does not return replaces `r` by the strictly smaller `m = ordLog …`. -/
theorem outer_ok {M x : Nat} (hp : M.Prime) (hM : 1 < M)
    {cond : St → Bool} {body : St → Option Bool × St} (hcond : ∀ s, cond s = true)
    (hbody : ∀ z y b t g r, TSInv M x y b g r → r ≤ 64 →
      body (z, y, b, t, g, r) = tsBodyOk M z y b g r) :
    ∀ fuel z y b t g r, TSInv M x y b g r → r ≤ 64 → r + 1 ≤ fuel →
      ∃ z' y' b' t' g' r', Go.whileFuel fuel cond body (z, y, b, t, g, r) =
        (false, some true, (z', y', b', t', g', r'))
  | 0, _, _, _, _, _, _, _, _, hf => by omega
  | fuel + 1, z, y, b, t, g, r, inv, hr, hf => by
    have hb := hbody z y b t g r inv hr
    unfold tsBodyOk at hb
    by_cases h0 : ordLog M (r + 1) b 0 = 0
    · rw [if_pos h0] at hb
      exact ⟨_, _, _, _, _, _, whileFuel_return fuel (hcond _) hb⟩
    · rw [if_neg h0] at hb
      have := Fact.mk hp
      have hlt := (ordLog_exact hM inv).1
      rw [whileFuel_continue fuel (hcond _) hb]
      exact outer_ok hp hM hcond hbody fuel _ _ _ _ _ _ (tsInv_step hM inv h0) (by omega) (by omega)

/-- everything the proof about a generated `Sqrt_ok` needs, in the syntactic form in which the terms appear in
    the unfolded definition (cf. `GoBridge.FF.sqrt_facts`) -/
theorem sqrt_ok_facts {c : Cfg} (h : c.WF) (hr : c.r ≤ 64) (x : Nat) {M r0 rm1 e g0 : Nat}
    (hM : M = c.m) (hr0 : r0 = c.r) (hrm1 : rm1 = c.r - 1) (he : e = c.sqrtExp)
    (hg : g0 = c.fromMont c.gMont) :
    (sqPow M rm1 (Go.fe.mul M (exp c x e) (Go.fe.mul M x (exp c x e))) == 0) = true ∨
    (¬ (sqPow M rm1 (Go.fe.mul M (exp c x e) (Go.fe.mul M x (exp c x e))) == 0) = true ∧
      (!(sqPow M rm1 (Go.fe.mul M (exp c x e) (Go.fe.mul M x (exp c x e))) == 1)) = true) ∨
    (¬ (sqPow M rm1 (Go.fe.mul M (exp c x e) (Go.fe.mul M x (exp c x e))) == 0) = true ∧
      ¬ (!(sqPow M rm1 (Go.fe.mul M (exp c x e) (Go.fe.mul M x (exp c x e))) == 1)) = true ∧
        ∀ {cond : St → Bool} {body : St → Option Bool × St}, (∀ s, cond s = true) →
          (∀ z y b t g r, TSInv M x y b g r → r ≤ 64 →
            body (z, y, b, t, g, r) = tsBodyOk M z y b g r) →
          ∀ z, ∃ z' y' b' t' g' r', Go.whileFuel 80 cond body
              (z, Go.fe.mul M x (exp c x e), Go.fe.mul M (exp c x e) (Go.fe.mul M x (exp c x e)),
                sqPow M rm1 (Go.fe.mul M (exp c x e) (Go.fe.mul M x (exp c x e))), g0, r0) =
            (false, some true, (z', y', b', t', g', r'))) := by
  subst hM hr0 hrm1 he hg
  rcases sqrt_model_cases h x with ⟨h0, -⟩ | ⟨h0, h1, -⟩ | ⟨h1, inv, -⟩
  · left; rw [beq_iff_eq]; exact h0
  · right; left
    refine ⟨by rw [beq_iff_eq]; exact h0, ?_⟩
    rw [Bool.not_eq_true', beq_eq_false_iff_ne]; exact h1
  · right; right
    refine ⟨?_, ?_, ?_⟩
    · rw [beq_iff_eq]
      show sqPow c.m (c.r - 1) _ ≠ 0
      intro h0
      have : (1 : Nat) = 0 := h1.symm.trans h0
      omega
    · rw [Bool.not_eq_true', Bool.not_eq_false, beq_iff_eq]; exact h1
    · intro cond body hcond hbody z
      exact outer_ok h.prime h.one_lt hcond hbody 80 _ _ _ _ _ _ inv hr (by omega)

/-- the proof that the body of the outer loop of a generated `Sqrt_ok` is `tsBodyOk`: the same script for both
    fields (cf. `ff_sqrt_body_script`) -/
macro "ff_sqrt_ok_body_script" M:term:max hM:term:max : tactic => `(tactic| (
  intro z y b t g r inv hr
  ff_head_whnf
  rw [inner1_inv $hM inv hr]
  · ff_head_whnf
    rw [if_neg Bool.false_ne_true]
    ff_head_whnf
    unfold tsBodyOk
    by_cases hj : ordLog $M (r + 1) b 0 = 0
    · rw [if_pos (beq_iff_eq.2 hj), if_pos hj]
      all_goals rfl
    · rw [if_neg (mt beq_iff_eq.1 hj), if_neg hj]
      ff_head_whnf
      rw [inner2_inv $hM inv hr]
      · ff_head_whnf
        rw [if_neg Bool.false_ne_true]
        ff_head_whnf
        rfl
      · intro _ _; rfl
      · intro _ _; rfl
  · intro _ _; rfl
  · intro _ _; rfl))

end FF

/-! ## 3. limb lists -/

section limbs
open I3.GoBridge I3.GoBridge.FFLimb

/-- every index of a four-element / one-element list (`[4]uint64`, `[1]uint64`) -/
theorem inRange4_0 {α} (a b c d : α) : Go.inRange [a, b, c, d] (0 : Int) = true := rfl
theorem inRange4_1 {α} (a b c d : α) : Go.inRange [a, b, c, d] (1 : Int) = true := rfl
theorem inRange4_2 {α} (a b c d : α) : Go.inRange [a, b, c, d] (2 : Int) = true := rfl
theorem inRange4_3 {α} (a b c d : α) : Go.inRange [a, b, c, d] (3 : Int) = true := rfl
theorem inRange1_0 {α} (a : α) : Go.inRange [a] (0 : Int) = true := rfl

/-- **the T2 kernel wrappers return a list of the package's length** (4 for ff, 1 for ffg), whatever lists they are
    given (missing limbs are read as 0, extra limbs are ignored): by construction (`Go.Ext.of4`), the kernels
    themselves are not unfolded. -/
theorem ffl_mul_length (x y : List Nat) : (Go.Ext.ffl_mul x y).length = 4 := rfl
theorem ffl_square_length (x : List Nat) : (Go.Ext.ffl_square x).length = 4 := rfl
theorem ffl_add_length (x y : List Nat) : (Go.Ext.ffl_add x y).length = 4 := rfl
theorem ffl_sub_length (x y : List Nat) : (Go.Ext.ffl_sub x y).length = 4 := rfl
theorem ffl_neg_length (x : List Nat) : (Go.Ext.ffl_neg x).length = 4 := rfl
theorem ffl_double_length (x : List Nat) : (Go.Ext.ffl_double x).length = 4 := rfl
theorem ffl_fromMont_length (z : List Nat) : (Go.Ext.ffl_fromMont z).length = 4 := rfl
theorem ffgl_mul_length (x y : List Nat) : (Go.Ext.ffgl_mul x y).length = 1 := rfl
theorem ffgl_square_length (x : List Nat) : (Go.Ext.ffgl_square x).length = 1 := rfl
theorem ffgl_add_length (x y : List Nat) : (Go.Ext.ffgl_add x y).length = 1 := rfl
theorem ffgl_sub_length (x y : List Nat) : (Go.Ext.ffgl_sub x y).length = 1 := rfl
theorem ffgl_neg_length (x : List Nat) : (Go.Ext.ffgl_neg x).length = 1 := rfl
theorem ffgl_double_length (x : List Nat) : (Go.Ext.ffgl_double x).length = 1 := rfl
theorem ffgl_fromMont_length (z : List Nat) : (Go.Ext.ffgl_fromMont z).length = 1 := rfl

/-- `x[lo:hi]` on a list of known length -/
theorem sliceOk_len {α} {l : List α} {n : Nat} (hl : l.length = n) {lo hi : Int}
    (h : decide (0 ≤ lo ∧ lo ≤ hi ∧ hi ≤ (n : Int)) = true) : Go.sliceOk l lo hi = true := by
  subst hl; exact h

/-- `binary.BigEndian.PutUint64(b[lo:hi], v)` needs `hi - lo ≥ 8` -/
theorem be64_fits (v : Nat) {k : Int} (hk : 8 ≤ k) : decide (Go.len (Go.be64 v) ≤ k) = true := by
  rw [decide_eq_true_eq, len_eq, be64_length]; exact hk

/-- a loop that runs without returning up to iteration `k`, which fails: the loop yields `some false` -/
theorem forRangeRet_fails_at {σ : Type} (P : σ → Prop) {hi : Int} {f : Int → σ → Option Bool × σ} (k : Int)
    (hk : k < hi) (hfail : ∀ s, P s → (f k s).1 = some false) :
    ∀ (n : Nat) (lo : Int) (s : σ), (k - lo).toNat = n → lo ≤ k → P s →
      (∀ i s, lo ≤ i → i < k → P s → (f i s).1 = none ∧ P (f i s).2) →
      (Go.forRangeRet lo hi f s).1 = some false
  | 0, lo, s, hn, hlo, hs, _ => by
    have : lo = k := by omega
    subst this
    exact forRangeRet_first_fails rfl hk (hfail s hs)
  | n + 1, lo, s, hn, hlo, hs, hstep => by
    have hlt : lo < k := by omega
    rw [forRangeRet_first (by omega : lo < hi)]
    obtain ⟨h1, h2⟩ := hstep lo s (Int.le_refl _) hlt hs
    rcases hf : f lo s with ⟨_ | r, s'⟩
    · rw [hf] at h2
      dsimp only
      exact forRangeRet_fails_at P k hk hfail n (lo + 1) s' (by omega) (by omega) h2
        (fun i s hi1 hi2 => hstep i s (by omega) hi2)
    · rw [hf] at h1; cases h1

/-- the 64-bit loop of `setBigInt` (`for i := 0; i < len(vBits); i++ { z[i] = vBits[i] }`) in a checked variant:
    it falls through (destination length unchanged) when the words fit, and FAILS (index out of range at
    `i = len(z)`) when they do not. -/
theorem copyLoop_spec (b z : List Nat) {f : Int → List Nat → Option Bool × List Nat} {r : Option Bool × List Nat}
    (hr : Go.forRangeRet 0 (Go.len b) f z = r)
    (hf : ∀ i zs, f i zs =
      Go.req (Go.inRange b i) (Go.req (Go.inRange zs i) ((none : Option Bool), Go.set zs i (Go.idx b i)))) :
    (b.length ≤ z.length → r.1 = none ∧ r.2.length = z.length) ∧ (z.length < b.length → r.1 = some false) := by
  constructor
  · intro hle
    exact forRangeRet_inv (fun zs : List Nat => zs.length = z.length) hr rfl (by
      intro i zs hi1 hi2 hP
      rw [len_eq] at hi2
      rw [hf, req_of (inRange_of hi1 hi2), req_of (inRange_of hi1 (by rw [hP]; omega))]
      exact ⟨rfl, by dsimp only; rw [length_set, hP]⟩)
  · intro hlt
    subst hr
    refine forRangeRet_fails_at (fun zs : List Nat => zs.length = z.length) (z.length : Int)
      (by rw [len_eq]; omega) ?_ z.length 0 z (by omega) (by omega) rfl ?_
    · intro zs hP
      have h1 : Go.inRange b (z.length : Int) = true := inRange_of (by omega) (by omega)
      have h2 : Go.inRange zs (z.length : Int) = false := by
        rw [← Bool.not_eq_true, inRange_iff, hP]; omega
      rw [hf, req_of h1, req_false_loop h2]
    · intro i zs hi1 hi2 hP
      rw [hf, req_of (inRange_of hi1 (by omega)), req_of (inRange_of hi1 (by rw [hP]; omega))]
      exact ⟨rfl, by dsimp only; rw [length_set, hP]⟩

/-- what `SetBigInt` learns from its two comparisons before it calls `setBigInt` directly -/
theorem cmp_range {v M : Int} (h0 : ¬ (Go.big.cmp v M == 0) = true)
    (h1 : (Go.big.cmp v M != 1 && Go.big.cmp v default != -1) = true) : 0 ≤ v ∧ v < M := by
  have hd : (default : Int) = 0 := rfl
  rw [hd] at h1
  unfold Go.big.cmp at h0 h1
  by_cases a : v < M
  · by_cases c : v < 0
    · rw [if_pos a, if_pos c] at h1; simp at h1
    · exact ⟨by omega, a⟩
  · by_cases b : v = M
    · rw [if_neg a, if_pos b] at h0; simp at h0
    · rw [if_neg a, if_neg b] at h1; simp at h1

/-- the words of `0 ≤ v < W^k` fit into `k` limbs -/
theorem bits_length_le {v : Int} (h0 : 0 ≤ v) {k : Nat} (hv : v < ((W ^ k : Nat) : Int)) :
    (Go.big.bits v).length ≤ k := by
  obtain ⟨n, rfl⟩ := Int.eq_ofNat_of_zero_le h0
  exact (bits_spec n).2.2 k (by exact_mod_cast hv)

/-- **the number of 64-bit words of `v.Bits()`**: they fit into `k` limbs exactly when `|v| < 2^(64·k)` -/
theorem bits_length_le_iff (v : Int) (k : Nat) : (Go.big.bits v).length ≤ k ↔ v.natAbs < W ^ k := by
  have e : Go.big.bits v = Go.big.bits ((v.natAbs : Nat) : Int) := by
    unfold Go.big.bits; rw [Int.natAbs_natCast]
  obtain ⟨h1, h2, h3⟩ := bits_spec v.natAbs
  rw [e]
  constructor
  · intro hle
    have := val_lt_pow _ h2
    rw [h1] at this
    exact Nat.lt_of_lt_of_le this (Nat.pow_le_pow_right (by decide) hle)
  · exact h3 k

end limbs

end I3.GoSafe
