/-
  I3.Lemmas.LimbsG — arithmetic of the translated Goldilocks kernels (I3.Gen.FFGLimbs, package `ffg`):
  p = 2^64 − 2^32 + 1 fills the whole word, so `add`/`double` have a carry-out branch and the
  Montgomery product an overflow word.  Same method as I3.Lemmas.Limbs (relational word specs,
  `limb_eval`, small `omega` lemmas).  Elements are single naturals `< P`; `R = 2^64`.
-/
import I3.Gen.FFGLimbs
import I3.Lemmas.LimbTac
import Mathlib.Tactic.Ring
namespace I3.LimbsG
open I3.Word I3.Gen.FFG

def P : Nat := 18446744069414584321
/-- the Montgomery radix of the one-limb representation -/
def R : Nat := W
def Rinv : Nat := 18446744065119617025

theorem P_lt_W : P < W := by decide
theorem W_lt_2P : W < 2 * P := by decide
theorem R_Rinv : (R * Rinv) % P = 1 := by decide

/-- the comparison `p ≤ z` exactly as the translator prints it -/
theorem ge_cond (s : Nat) : ((!(decide (s < 18446744069414584321))) = true) ↔ P ≤ s := by
  simp [P]

/-! ### reduce, add, double, sub, neg -/

/-- one conditional subtraction canonicalises ANY word (`2^64 < 2p`) -/
theorem reduce_ok (z : Nat) (hz : z < W) : reduceGeneric z = z % P := by
  by_cases h : P ≤ z
  · have hc := (ge_cond z).2 h
    obtain ⟨d, k, e, hd, hk, f⟩ := sub64_spec z 18446744069414584321 0 hz (by decide) (by decide)
    have hE : reduceGeneric z = d := by limb_eval [reduceGeneric]
    rw [hE]; simp only [P, W] at *; omega
  · have hc := mt (ge_cond z).1 h
    have hE : reduceGeneric z = z := by limb_eval [reduceGeneric]
    rw [hE]; simp only [P, W] at *; omega

theorem add_ok (z x y : Nat) (hx : x < P) (hy : y < P) : addGeneric z x y = (x + y) % P := by
  have hxW : x < W := Nat.lt_trans hx P_lt_W
  have hyW : y < W := Nat.lt_trans hy P_lt_W
  obtain ⟨s, k, e, hs, hk, f⟩ := add64_spec x y 0 hxW hyW (by decide)
  by_cases hk0 : k = 0
  · by_cases h : P ≤ s
    · have hc := (ge_cond s).2 h
      obtain ⟨d, b, e', hd, hb, f'⟩ := sub64_spec s 18446744069414584321 0 hs (by decide) (by decide)
      have hE : addGeneric z x y = d := by limb_eval [addGeneric]
      rw [hE]; simp only [P, W] at *; omega
    · have hc := mt (ge_cond s).1 h
      have hE : addGeneric z x y = s := by limb_eval [addGeneric]
      rw [hE]; simp only [P, W] at *; omega
  · -- carry out of the 64-bit addition: the sum is ≥ 2^64 > p
    obtain ⟨d, b, e', hd, hb, f'⟩ := sub64_spec s 18446744069414584321 0 hs (by decide) (by decide)
    have hE : addGeneric z x y = d := by limb_eval [addGeneric]
    rw [hE]; simp only [P, W] at *; omega

theorem double_eq (z x : Nat) : doubleGeneric z x = addGeneric z x x := rfl

theorem double_ok (z x : Nat) (hx : x < P) : doubleGeneric z x = (2 * x) % P := by
  rw [double_eq, add_ok z x x hx hx, two_mul]

theorem sub_ok (z x y : Nat) (hx : x < P) (hy : y < P) : subGeneric z x y = (x + (P - y)) % P := by
  have hxW : x < W := Nat.lt_trans hx P_lt_W
  have hyW : y < W := Nat.lt_trans hy P_lt_W
  obtain ⟨d, k, e, hd, hk, f⟩ := sub64_spec x y 0 hxW hyW (by decide)
  by_cases hk0 : k = 0
  · have hE : subGeneric z x y = d := by limb_eval [subGeneric]
    rw [hE]; simp only [P, W] at *; omega
  · obtain ⟨s, c, e', hs, hc, f'⟩ := add64_spec d 18446744069414584321 0 hd (by decide) (by decide)
    have hE : subGeneric z x y = s := by limb_eval [subGeneric]
    rw [hE]; simp only [P, W] at *; omega

theorem neg_ok (z x : Nat) (hx : x < P) : negGeneric z x = (P - x) % P := by
  have hxW : x < W := Nat.lt_trans hx P_lt_W
  by_cases h0 : x = 0
  · have hE : negGeneric z x = 0 := by limb_eval [negGeneric]
    rw [hE, h0]; decide
  · obtain ⟨d, k, e, hd, hk, f⟩ := sub64_spec 18446744069414584321 x 0 (by decide) hxW (by decide)
    have hE : negGeneric z x = d := by limb_eval [negGeneric]
    rw [hE]; simp only [P, W] at *; omega

/-! ### Montgomery multiplication with the overflow word -/

theorem madd0_spec (a b c : Nat) (ha : a < W) (hb : b < W) (hc : c < W) :
    madd0 a b c < W ∧ ∃ lo, lo < W ∧ lo + madd0 a b c * W = a * b + c := by
  have e1 : mul64 a b = (a * b / W, a * b % W) := rfl
  have e2 : add64 (a * b % W) c 0 = ((a * b % W + c + 0) % W, (a * b % W + c + 0) / W) := rfl
  have e3 : add64 (a * b / W) 0 ((a * b % W + c + 0) / W) =
      ((a * b / W + 0 + (a * b % W + c + 0) / W) % W, (a * b / W + 0 + (a * b % W + c + 0) / W) / W) := rfl
  have hE : madd0 a b c = (a * b / W + 0 + (a * b % W + c + 0) / W) % W := by limb_eval [madd0]
  rw [hE]
  have hp := mul_le_words a b ha hb
  generalize a * b = p at *
  refine ⟨?_, (p + c) % W, ?_, ?_⟩ <;> (simp only [W] at *; omega)

/-- the Montgomery factor `m = t·(−p⁻¹) mod 2^64` cancels the low word -/
theorem mont_low_zero (c l k m : Nat) (hm : m = (c * 18446744069414584319) % W) (hl : l < W)
    (A : l + k * W = m * 18446744069414584321 + c) : l = 0 := by
  simp only [W] at *; omega

/-- arithmetic of the single CIOS round: the two-word value `t0 + t1·2^64` is `(x·y + m·p) / 2^64 < 2p` -/
theorem mul_arith (p m C C' t0 t0' k : Nat) (hp : p < W * P) (hm : m < W)
    (A1 : t0 + C * W = p) (A2 : 0 + C' * W = m * 18446744069414584321 + t0)
    (A3 : t0' + k * W = C + C' + 0) :
    (t0' + k * W) * W = p + m * P ∧ t0' + k * W < 2 * P := by
  simp only [P, W] at *; omega

/-- Montgomery product; it suffices that ONE operand is canonical (`x·y < 2^64·p`) -/
theorem mul_core (z x y : Nat) (hx : x < W) (hy : y < W) (hxy : x * y < W * P) :
    mulGeneric z x y < P ∧ (mulGeneric z x y * R) % P = (x * y) % P := by
  have hp := mul_le_words y x hy hx
  have e1 : mul64 y x = (y * x / W, y * x % W) := rfl
  have hC : y * x / W < W := by generalize y * x = p at *; simp only [W] at *; omega
  have ht0 : y * x % W < W := Nat.mod_lt _ (by decide)
  have A1 : y * x % W + y * x / W * W = x * y := by rw [Nat.mul_comm x y]; exact Nat.mod_add_div' _ _
  obtain ⟨t1, D, e2, ht1, hD, A0⟩ := add64_spec 0 (y * x / W) 0 (by decide) hC (by decide)
  have hD0 : D = 0 := by simp only [W] at *; omega
  have ht1' : t1 = y * x / W := by simp only [W] at *; omega
  subst hD0
  have hm : (y * x % W * 18446744069414584319) % W < W := Nat.mod_lt _ (by decide)
  obtain ⟨hC', l0, hl0, A2⟩ := madd0_spec ((y * x % W * 18446744069414584319) % W) 18446744069414584321
    (y * x % W) hm (by decide) ht0
  obtain ⟨t0', k, e4, ht0', hk, A3⟩ := add64_spec t1
    (madd0 ((y * x % W * 18446744069414584319) % W) 18446744069414584321 (y * x % W)) 0 ht1 hC' (by decide)
  obtain ⟨u1, k', e5, hu1, hk', A4⟩ := add64_spec 0 0 k (by decide) (by decide) hk
  have hu1' : u1 = k := by simp only [W] at *; omega
  subst hu1'
  have hl : l0 = 0 := mont_low_zero _ l0 _ _ rfl hl0 A2
  subst hl
  rw [ht1'] at A3
  obtain ⟨hT, hTlt⟩ := mul_arith (x * y) _ _ _ _ t0' u1 hxy hm A1 A2 A3
  by_cases hk0 : u1 = 0
  · -- no overflow word: ordinary conditional subtraction
    have hE : mulGeneric z x y = reduceGeneric t0' := by
      by_cases hc : (!(decide (t0' < 18446744069414584321))) = true
      · rcases hs : sub64 t0' 18446744069414584321 0 with ⟨d, b⟩
        limb_eval [mulGeneric, reduceGeneric]
      · limb_eval [mulGeneric, reduceGeneric]
    generalize (y * x % W * 18446744069414584319) % W = m at *
    rw [hE, reduce_ok t0' ht0']
    refine ⟨Nat.mod_lt _ (by decide), ?_⟩
    rw [hk0, Nat.zero_mul, Nat.add_zero] at hT
    rw [R, Nat.mod_mul_mod, hT, Nat.add_mul_mod_self_right]
  · -- overflow word set: the value is `t0' + 2^64 ≥ p`, subtract once (wrapping)
    obtain ⟨d, b, e6, hd, hb, A5⟩ := sub64_spec t0' 18446744069414584321 0 ht0' (by decide) (by decide)
    have hE : mulGeneric z x y = d := by limb_eval [mulGeneric]
    generalize (y * x % W * 18446744069414584319) % W = m at *
    rw [hE]
    have hk1 : u1 = 1 := by omega
    subst hk1
    clear e1 e2 e4 e5 e6 hE
    have hd' : d + P = t0' + W := by
      simp only [P, W] at A5 hTlt ⊢; omega
    refine ⟨by simp only [P, W] at hd' hTlt ⊢; omega, ?_⟩
    have : d * R + P * W = x * y + m * P := by rw [← hT, Nat.one_mul, ← hd', R]; ring
    have h2 : d * R = x * y + m * P - P * W := by omega
    have h3 : P * W ≤ x * y + m * P := by omega
    have h4 : (d * R + P * W) % P = (d * R) % P := Nat.add_mul_mod_self_left _ _ _
    rw [← h4, this, Nat.add_mul_mod_self_right]

theorem mul_ok (z x y : Nat) (hx : x < P) (hy : y < P) :
    mulGeneric z x y < P ∧ (mulGeneric z x y * R) % P = (x * y) % P :=
  mul_core z x y (Nat.lt_trans hx P_lt_W) (Nat.lt_trans hy P_lt_W)
    (Nat.lt_of_lt_of_le (Nat.mul_lt_mul_of_lt_of_le (Nat.lt_trans hx P_lt_W) (Nat.le_of_lt hy) (by decide))
      (Nat.le_refl _))

/-- product of any word with a canonical element (what `SetUint64` needs) -/
theorem mul_word_ok (z v y : Nat) (hv : v < W) (hy : y < P) :
    mulGeneric z v y < P ∧ (mulGeneric z v y * R) % P = (v * y) % P :=
  mul_core z v y hv (Nat.lt_trans hy P_lt_W) (Nat.mul_lt_mul_of_lt_of_le hv (Nat.le_of_lt hy) (by decide))

/-- `R` is invertible modulo `p` -/
theorem cancel_R (a b : Nat) (h : (a * R) % P = (b * R) % P) : a % P = b % P := by
  have h1 : (a * R * Rinv) % P = (b * R * Rinv) % P := by
    rw [Nat.mul_mod (a * R), h, ← Nat.mul_mod]
  have h2 : ∀ c, (c * R * Rinv) % P = c % P := fun c => by
    rw [Nat.mul_assoc, Nat.mul_mod, R_Rinv, Nat.mul_one, Nat.mod_mod]
  rwa [h2, h2] at h1

/-! ### leaving and entering the Montgomery domain -/

theorem fm_arith (z m C : Nat) (hz : z < W) (hm : m < W)
    (A : 0 + C * W = m * 18446744069414584321 + z) : C * W = z + m * P ∧ C < W := by
  simp only [P, W] at *; omega

/-- `fromMont` divides by `R` modulo `p`; the operand may be any word -/
theorem fromMont_ok (z : Nat) (hz : z < W) :
    fromMontGeneric z < P ∧ (fromMontGeneric z * R) % P = z % P := by
  have hm : (z * 18446744069414584319) % W < W := Nat.mod_lt _ (by decide)
  obtain ⟨hC, l0, hl0, A⟩ := madd0_spec ((z * 18446744069414584319) % W) 18446744069414584321 z hm
    (by decide) hz
  have hl : l0 = 0 := mont_low_zero _ l0 _ _ rfl hl0 A
  subst hl
  have hE : fromMontGeneric z =
      reduceGeneric (madd0 ((z * 18446744069414584319) % W) 18446744069414584321 z) := by
    by_cases hc : (!(decide (madd0 ((z * 18446744069414584319) % W) 18446744069414584321 z
        < 18446744069414584321))) = true
    · rcases hs : sub64 (madd0 ((z * 18446744069414584319) % W) 18446744069414584321 z)
        18446744069414584321 0 with ⟨d, b⟩
      limb_eval [fromMontGeneric, reduceGeneric]
    · limb_eval [fromMontGeneric, reduceGeneric]
  obtain ⟨hT, _⟩ := fm_arith z _ _ hz hm A
  rw [hE, reduce_ok _ hC]
  refine ⟨Nat.mod_lt _ (by decide), ?_⟩
  rw [R, Nat.mod_mul_mod, hT, Nat.add_mul_mod_self_right]

/-! ### aliasing: every variant is the base kernel on the shared cell -/

theorem add_zx (a z y : Nat) : addGeneric_zx z y = addGeneric a z y := rfl
theorem add_zy (a z x : Nat) : addGeneric_zy z x = addGeneric a x z := rfl
theorem add_xy (z x : Nat) : addGeneric_xy z x = addGeneric z x x := rfl
theorem add_zxy (a z : Nat) : addGeneric_zxy z = addGeneric a z z := rfl
theorem double_zx (a z : Nat) : doubleGeneric_zx z = doubleGeneric a z := rfl
theorem sub_zx (a z y : Nat) : subGeneric_zx z y = subGeneric a z y := rfl
theorem sub_zy (a z x : Nat) : subGeneric_zy z x = subGeneric a x z := rfl
theorem sub_xy (z x : Nat) : subGeneric_xy z x = subGeneric z x x := rfl
theorem sub_zxy (a z : Nat) : subGeneric_zxy z = subGeneric a z z := rfl
theorem neg_zx (a z : Nat) : negGeneric_zx z = negGeneric a z := rfl
theorem mul_zx (a z y : Nat) : mulGeneric_zx z y = mulGeneric a z y := rfl
theorem mul_zy (a z x : Nat) : mulGeneric_zy z x = mulGeneric a x z := rfl
theorem mul_xy (z x : Nat) : mulGeneric_xy z x = mulGeneric z x x := rfl
theorem mul_zxy (a z : Nat) : mulGeneric_zxy z = mulGeneric a z z := rfl

theorem rSquare_val : (18446744065119617025 : Nat) = (R * R) % P := by decide

theorem setUint64_eq (v : Nat) : setUint64 v = mulGeneric 0 v 18446744065119617025 := rfl

/-- `SetUint64 v` is the Montgomery form of `v`, for EVERY 64-bit `v` (also `v ≥ p`) -/
theorem setUint64_ok (v : Nat) (hv : v < W) : setUint64 v = (v * R) % P := by
  obtain ⟨hlt, hr⟩ := mul_word_ok 0 v 18446744065119617025 hv (by decide)
  rw [← setUint64_eq] at hlt hr
  rw [rSquare_val, Nat.mul_mod_mod, ← Nat.mul_assoc] at hr
  have := cancel_R _ _ hr
  rwa [Nat.mod_eq_of_lt hlt] at this

/-- constructing from a word and reading back gives the residue -/
theorem fromMont_setUint64 (v : Nat) (hv : v < W) : fromMontGeneric (setUint64 v) = v % P := by
  have hs : setUint64 v < W := by
    rw [setUint64_ok v hv]; exact Nat.lt_trans (Nat.mod_lt _ (by decide)) P_lt_W
  obtain ⟨hlt, hr⟩ := fromMont_ok (setUint64 v) hs
  rw [show setUint64 v % P = (v * R) % P by rw [setUint64_ok v hv, Nat.mod_mod]] at hr
  have := cancel_R _ _ hr
  rwa [Nat.mod_eq_of_lt hlt] at this

/-! ### multiplication by a word constant, butterfly -/

theorem mulByConstant_ok (z c : Nat) (hz : z < P) (hc : c < W) : mulByConstant z c = (c * z) % P := by
  by_cases h0 : c = 0
  · have hE : mulByConstant z c = 0 := by limb_eval [mulByConstant]
    rw [hE, h0, Nat.zero_mul]; decide
  by_cases h1 : c = 1
  · have hE : mulByConstant z c = z := by limb_eval [mulByConstant]
    rw [hE, h1, Nat.one_mul, Nat.mod_eq_of_lt hz]
  have hd : doubleGeneric_zx z = (2 * z) % P := by rw [double_zx 0]; exact double_ok 0 z hz
  have hdlt : (2 * z) % P < P := Nat.mod_lt _ (by decide)
  by_cases h2 : c = 2
  · have hE : mulByConstant z c = doubleGeneric_zx z := by limb_eval [mulByConstant]
    rw [hE, hd, h2]
  by_cases h3 : c = 3
  · have hE : mulByConstant z c = addGeneric_zx (doubleGeneric_zx z) z := by limb_eval [mulByConstant]
    rw [hE, hd, add_zx 0, add_ok 0 _ z hdlt hz, h3]; simp only [P] at *; omega
  by_cases h5 : c = 5
  · have hE : mulByConstant z c = addGeneric_zx (doubleGeneric_zx (doubleGeneric_zx z)) z := by
      limb_eval [mulByConstant]
    have hd2 : doubleGeneric_zx ((2 * z) % P) = (2 * ((2 * z) % P)) % P := by
      rw [double_zx 0]; exact double_ok 0 _ hdlt
    rw [hE, hd, hd2, add_zx 0, add_ok 0 _ z (Nat.mod_lt _ (by decide)) hz, h5]; simp only [P] at *; omega
  · have hE : mulByConstant z c = mulGeneric_zx z (setUint64 c) := by limb_eval [mulByConstant]
    have hs := setUint64_ok c hc
    have hslt : setUint64 c < P := by rw [hs]; exact Nat.mod_lt _ (by decide)
    obtain ⟨hlt, hr⟩ := mul_ok 0 z (setUint64 c) hz hslt
    rw [← mul_zx 0, ← hE] at hlt hr
    rw [hs, Nat.mul_mod_mod, ← Nat.mul_assoc] at hr
    have := cancel_R _ _ hr
    rw [Nat.mod_eq_of_lt hlt] at this
    rw [this, Nat.mul_comm]

theorem butterfly_ok (a b : Nat) (ha : a < P) (hb : b < P) :
    butterflyGeneric a b = ((a + b) % P, (a + (P - b)) % P) := by
  have e1 : addGeneric_zx a b = (a + b) % P := by rw [add_zx 0]; exact add_ok 0 a b ha hb
  have e2 : subGeneric_zy b a = (a + (P - b)) % P := by rw [sub_zy 0]; exact sub_ok 0 a b ha hb
  have hE : butterflyGeneric a b = (addGeneric_zx a b, subGeneric_zy b a) := by limb_eval [butterflyGeneric]
  rw [hE, e1, e2]

/-! ### closed forms -/

theorem mul_closed (z x y : Nat) (hx : x < P) (hy : y < P) :
    mulGeneric z x y = (x * y * Rinv) % P := by
  obtain ⟨hlt, hr⟩ := mul_ok z x y hx hy
  have h : (mulGeneric z x y * R * Rinv) % P = (x * y * Rinv) % P := by
    rw [Nat.mul_mod (mulGeneric z x y * R), hr, ← Nat.mul_mod]
  rwa [Nat.mul_assoc, Nat.mul_mod, R_Rinv, Nat.mul_one, Nat.mod_mod, Nat.mod_eq_of_lt hlt] at h
end I3.LimbsG
