/-
  I3.Lemmas.PoseidonRefine — soundness of the Poseidon table checker (property C01).

  Main result `checkAll_sound`: if `I3.PoseidonCheck.checkAll m t rp K Mref tab ws = true` (for ANY
  proposed witnesses `ws`), then for every state of length `t`
      Model.Poseidon.permute m e tab t rp st = Hades.permute m e t 8 rp K Mref st,
  i.e. the optimised loop of /repo/poseidon/poseidon.go (sparse partial rounds, tables C/S/M/P) is the
  textbook Hades permutation with round constants `K` and MDS matrix `Mref`.  General in the modulus
  `m` (no primality, no division is used) and in the S-box exponent `e`.

  Structure:
    * abstract layer over a commutative ring: `sbox0`, `sboxF`, `sbox0_affine` (the lane-0 S-box
      commutes with `y ↦ A y + β` when `A = diag(1, Â)` and `β₀ = 0`), `partial_step`;
    * bridge: `toVec`/`toMat` send `List Nat` data to `Fin t → ZMod m` / `Matrix`; every executable
      operation of `I3.Model.Poseidon`, `I3.Hades` and `I3.PoseidonCheck` is shown to commute with them
      (`toVec_mix` — Go `mix` multiplies by the TRANSPOSE —, `toVec_ark`, `toVec_partialRound`, …);
    * `Rel`: the relation system (R1)–(R4) over `ZMod m`; `permute_eq_of_rel` proves the refinement by
      the invariants   u_i = s_i + K_i (i ≤ 3),   s_{4+j} = A_j·v_j + b_j (j ≤ rp),
      x_i = s_{4+rp+i} + K_{4+rp+i} (i ≤ 3);
    * `rel_of_checkAll`: the boolean checker implies `Rel`;  `checkAll_sound`.
-/
import I3.Exec.PoseidonCheck
import I3.Exec.Hades
import Mathlib.Data.Matrix.Mul
import Mathlib.Data.ZMod.Basic
import Mathlib.Algebra.BigOperators.Fin
import Mathlib.Tactic.Ring
import Mathlib.Tactic.Abel

namespace I3.PoseidonRefine
open Matrix

/-! ## abstract layer -/
section abstract
variable {F : Type*} [CommRing F] {t : ℕ} [NeZero t]

/-- S-box on lane 0 only. -/
def sbox0 (e : ℕ) (v : Fin t → F) : Fin t → F := Function.update v 0 (v 0 ^ e)

/-- S-box on every lane. -/
def sboxF (e : ℕ) (v : Fin t → F) : Fin t → F := fun i => v i ^ e

theorem sbox0_eq (e : ℕ) (v : Fin t → F) : sbox0 e v = v + Pi.single 0 (v 0 ^ e - v 0) := by
  ext i
  by_cases h : i = 0
  · subst h; simp [sbox0]
  · simp [sbox0, Function.update_of_ne h, Pi.single_eq_of_ne h]

theorem sbox0_affine (A : Matrix (Fin t) (Fin t) F) (β y : Fin t → F) (e : ℕ)
    (hrow : ∀ k, A 0 k = if k = 0 then 1 else 0)
    (hcol : ∀ i, A i 0 = if i = 0 then 1 else 0)
    (hβ : β 0 = 0) :
    sbox0 e (A *ᵥ y + β) = A *ᵥ sbox0 e y + β := by
  have h0 : (A *ᵥ y + β) 0 = y 0 := by
    simp [Matrix.mulVec, dotProduct, hrow, hβ]
  have hc : ∀ c : F, A *ᵥ Pi.single 0 c = Pi.single 0 c := by
    intro c
    ext i
    by_cases h : i = 0
    · subst h; simp [hcol]
    · simp [hcol, h]
  rw [sbox0_eq, sbox0_eq, h0, Matrix.mulVec_add, hc]
  abel

theorem partial_step (M A A' Sp : Matrix (Fin t) (Fin t) F) (b b' K v : Fin t → F) (c : F) (e : ℕ)
    (hrow : ∀ k, A 0 k = if k = 0 then 1 else 0)
    (hcol : ∀ i, A i 0 = if i = 0 then 1 else 0)
    (hβ : (b + K) 0 = 0)
    (hA : M * A = A' * Sp)
    (hb : M *ᵥ (b + K) = c • ((A' * Sp) *ᵥ Pi.single 0 1) + b') :
    M *ᵥ sbox0 e (A *ᵥ v + b + K) = A' *ᵥ (Sp *ᵥ (sbox0 e v + Pi.single 0 c)) + b' := by
  have hs : (A' * Sp) *ᵥ Pi.single 0 c = c • ((A' * Sp) *ᵥ Pi.single 0 1) := by
    rw [← Matrix.mulVec_smul]
    congr 1
    ext i
    by_cases h : i = 0
    · subst h; simp
    · simp [Pi.single_eq_of_ne h]
  rw [add_assoc, sbox0_affine A (b + K) v e hrow hcol hβ, Matrix.mulVec_add, Matrix.mulVec_mulVec, hA,
    hb, Matrix.mulVec_mulVec, Matrix.mulVec_add, hs]
  abel

end abstract

/-! ## bridge: lists of naturals to vectors / matrices over `ZMod m` -/
section bridge
open I3.PoseidonCheck

theorem powMod_eq (b e m : ℕ) : powMod b e m = b ^ e % m := by
  induction e using Nat.strong_induction_on with
  | _ e ih =>
    rw [powMod]
    split_ifs with h0 h1
    · subst h0; simp
    · rw [ih (e / 2) (by omega)]
      have he : e = e / 2 + e / 2 + 1 := by omega
      conv_rhs => rw [he, pow_succ, pow_add]
      simp [Nat.mul_mod]
    · rw [ih (e / 2) (by omega)]
      have he : e = e / 2 + e / 2 := by omega
      conv_rhs => rw [he, pow_add]
      simp [Nat.mul_mod]

variable (t m : ℕ)

def toVec (l : List ℕ) : Fin t → ZMod m := fun i => ((l.getD i 0 : ℕ) : ZMod m)

def toMat (A : List (List ℕ)) : Matrix (Fin t) (Fin t) (ZMod m) :=
  fun i j => (((A.getD i []).getD j 0 : ℕ) : ZMod m)

theorem cast_powMod (x e : ℕ) : ((powMod x e m : ℕ) : ZMod m) = (x : ZMod m) ^ e := by
  rw [powMod_eq, ZMod.natCast_mod, Nat.cast_pow]

/-! ### generic list facts -/

theorem getD_map_range (f : ℕ → ℕ) (n i : ℕ) (h : i < n) : ((List.range n).map f).getD i 0 = f i := by
  simp [List.getD_eq_getElem?_getD, h]

theorem getD_map_range' {α : Type} (f : ℕ → α) (d : α) (n i : ℕ) (h : i < n) :
    ((List.range n).map f).getD i d = f i := by
  simp [List.getD_eq_getElem?_getD, h]

theorem getD_map_lt (f : ℕ → ℕ) (l : List ℕ) (i : ℕ) (h : i < l.length) :
    (l.map f).getD i 0 = f (l.getD i 0) := by
  simp [List.getD_eq_getElem?_getD, h]

theorem getD_zipWith_lt (f : ℕ → ℕ → ℕ) (a b : List ℕ) (i : ℕ) (ha : i < a.length) (hb : i < b.length) :
    (List.zipWith f a b).getD i 0 = f (a.getD i 0) (b.getD i 0) := by
  simp [List.getD_eq_getElem?_getD, ha, hb]

theorem getD_col (A : List (List ℕ)) (i j : ℕ) :
    (A.map fun r => r.getD i 0).getD j 0 = (A.getD j []).getD i 0 := by
  simp only [List.getD_eq_getElem?_getD, List.getElem?_map]
  cases A[j]? <;> simp

theorem getD_drop (l : List ℕ) (k i : ℕ) : (l.drop k).getD i 0 = l.getD (k + i) 0 := by
  simp [List.getD_eq_getElem?_getD]

theorem getD_seg (l : List ℕ) (k n i : ℕ) (h : i < n) : (seg l k n).getD i 0 = l.getD (k + i) 0 := by
  simp [seg, List.getD_eq_getElem?_getD, h]

/-! ### dot products -/

theorem cast_dotRaw {R : Type*} [CommSemiring R] : ∀ (t : ℕ) (a b : List ℕ), b.length ≤ t →
    ((dotRaw a b : ℕ) : R) = ∑ i : Fin t, ((a.getD i 0 : ℕ) : R) * ((b.getD i 0 : ℕ) : R)
  | t, [], b, _ => by simp [dotRaw]
  | t, x :: xs, [], _ => by simp [dotRaw]
  | 0, x :: xs, y :: ys, h => by simp at h
  | t + 1, x :: xs, y :: ys, h => by
    rw [dotRaw, Fin.sum_univ_succ, Nat.cast_add, Nat.cast_mul,
      cast_dotRaw t xs ys (by simpa using h)]
    simp

theorem sum_zipWith_mul : ∀ (a b : List ℕ), (List.zipWith (· * ·) a b).sum = dotRaw a b
  | [], b => by simp [dotRaw]
  | x :: xs, [] => by simp [dotRaw]
  | x :: xs, y :: ys => by simp [dotRaw, sum_zipWith_mul xs ys]

theorem cast_foldl_addmod (l : List ℕ) : ∀ a : ℕ,
    ((l.foldl (fun a b => (a + b) % m) a : ℕ) : ZMod m) = (a : ZMod m) + ((l.sum : ℕ) : ZMod m) := by
  induction l with
  | nil => intro a; simp
  | cons x xs ih => intro a; rw [List.foldl_cons, ih, ZMod.natCast_mod]; simp [add_assoc]

theorem cast_dot (a b : List ℕ) (hb : b.length ≤ t) :
    ((dot m a b : ℕ) : ZMod m) = ∑ i : Fin t, toVec t m a i * toVec t m b i := by
  rw [dot, ZMod.natCast_mod, cast_dotRaw t a b hb]; rfl

theorem cast_hadesDot (a b : List ℕ) (hb : b.length ≤ t) :
    ((Hades.dot m a b : ℕ) : ZMod m) = ∑ i : Fin t, toVec t m a i * toVec t m b i := by
  rw [Hades.dot, cast_foldl_addmod, sum_zipWith_mul, cast_dotRaw t a b hb]; simp [toVec]


/-! ### `toVec` basics -/

theorem toVec_apply (l : List ℕ) (i : Fin t) : toVec t m l i = ((l.getD i 0 : ℕ) : ZMod m) := rfl

theorem toVec_seg (l : List ℕ) (k : ℕ) : toVec t m (seg l k t) = toVec t m (l.drop k) := by
  ext i; simp only [toVec_apply, getD_seg l k t i i.2, getD_drop]

theorem toVec_take (l : List ℕ) : toVec t m (l.take t) = toVec t m l := by
  have := toVec_seg t m l 0
  simpa [seg] using this

/-- canonical lists of the right length are determined by their image in `ZMod m`. -/
theorem toVec_inj {a b : List ℕ} (ha : a.length = t) (hb : b.length = t)
    (ha' : ∀ x ∈ a, x < m) (hb' : ∀ x ∈ b, x < m) (h : toVec t m a = toVec t m b) : a = b := by
  apply List.ext_getElem (by rw [ha, hb])
  intro i h1 h2
  have hi : i < t := ha ▸ h1
  have := congrFun h ⟨i, hi⟩
  simp only [toVec_apply, List.getD_eq_getElem?_getD, List.getElem?_eq_getElem h1,
    List.getElem?_eq_getElem h2, Option.getD_some] at this
  rw [ZMod.natCast_eq_natCast_iff', Nat.mod_eq_of_lt (ha' _ (List.getElem_mem h1)),
    Nat.mod_eq_of_lt (hb' _ (List.getElem_mem h2))] at this
  exact this

/-! ### the Go-side operations (`I3.Model.Poseidon`) -/

open I3.Model.Poseidon in
theorem toVec_mix (mat : List (List ℕ)) (st : List ℕ) (hmat : mat.length ≤ t) (hst : st.length = t) :
    toVec t m (mix m mat st) = (toMat t m mat)ᵀ *ᵥ toVec t m st := by
  ext i
  have hi : (i : ℕ) < st.length := hst ▸ i.2
  rw [toVec_apply, mix, getD_map_range _ _ _ hi, cast_foldl_addmod]
  have : List.zipWith (fun (row : List ℕ) (s : ℕ) => row.getD i 0 * s) mat st =
      List.zipWith (· * ·) (mat.map fun r => r.getD i 0) st := by
    rw [List.zipWith_map_left]
  rw [this, sum_zipWith_mul, cast_dotRaw t _ _ (le_of_eq hst)]
  simp only [Nat.cast_zero, zero_add, Matrix.mulVec, dotProduct, Matrix.transpose_apply, getD_col]
  rfl

open I3.Model.Poseidon in
theorem toVec_ark (st C : List ℕ) (it : ℕ) (hst : st.length = t) (hC : it + t ≤ C.length) :
    toVec t m (ark m st C it) = toVec t m st + toVec t m (C.drop it) := by
  ext i
  have h1 : (i : ℕ) < st.length := hst ▸ i.2
  have h2 : (i : ℕ) < (C.drop it).length := by rw [List.length_drop]; have := i.2; omega
  rw [toVec_apply, ark, getD_zipWith_lt _ _ _ _ h1 h2, ZMod.natCast_mod, Nat.cast_add]
  rfl

open I3.Model.Poseidon in
theorem toVec_sboxAll [NeZero t] (e : ℕ) (st : List ℕ) (hst : st.length = t) :
    toVec t m (sboxAll m e st) = sboxF e (toVec t m st) := by
  ext i
  have h1 : (i : ℕ) < st.length := hst ▸ i.2
  rw [toVec_apply, sboxAll, getD_map_lt _ _ _ h1, cast_powMod]
  rfl

/-! ### the reference operations (`I3.Hades`) -/

theorem toVec_hadesMatVec (mat : List (List ℕ)) (v : List ℕ) (hmat : mat.length = t) (hv : v.length = t) :
    toVec t m (Hades.matVec m mat v) = toMat t m mat *ᵥ toVec t m v := by
  ext i
  have hi : (i : ℕ) < mat.length := hmat ▸ i.2
  simp only [toVec_apply, Hades.matVec, List.getD_eq_getElem?_getD, List.getElem?_map,
    List.getElem?_eq_getElem hi, Option.map_some, Option.getD_some]
  rw [cast_hadesDot t m _ _ (le_of_eq hv)]
  simp only [Matrix.mulVec, dotProduct, toMat, toVec_apply, List.getD_eq_getElem?_getD,
    List.getElem?_eq_getElem hi, Option.getD_some]

theorem toVec_hadesAddVec (a b : List ℕ) (ha : a.length = t) (hb : t ≤ b.length) :
    toVec t m (Hades.addVec m a b) = toVec t m a + toVec t m b := by
  ext i
  have h1 : (i : ℕ) < a.length := ha ▸ i.2
  have h2 : (i : ℕ) < b.length := lt_of_lt_of_le i.2 hb
  rw [toVec_apply, Hades.addVec, getD_zipWith_lt _ _ _ _ h1 h2, ZMod.natCast_mod, Nat.cast_add]
  rfl

theorem toVec_sboxFull [NeZero t] (e : ℕ) (st : List ℕ) (hst : st.length = t) :
    toVec t m (Hades.sboxFull m e st) = sboxF e (toVec t m st) := by
  ext i
  have h1 : (i : ℕ) < st.length := hst ▸ i.2
  rw [toVec_apply, Hades.sboxFull, getD_map_lt _ _ _ h1, cast_powMod]
  rfl

theorem toVec_cons_update [NeZero t] (x y : ℕ) (xs : List ℕ) :
    toVec t m (y :: xs) = Function.update (toVec t m (x :: xs)) 0 (y : ZMod m) := by
  ext i
  by_cases h : i = 0
  · subst h; simp [toVec_apply]
  · rw [Function.update_of_ne h]
    obtain ⟨k, hk⟩ : ∃ k, (i : ℕ) = k + 1 := ⟨(i : ℕ) - 1, by
      have : (i : ℕ) ≠ 0 := fun h0 => h (Fin.ext (by simpa using h0)); omega⟩
    simp [toVec_apply, hk]

theorem toVec_sboxFirst [NeZero t] (e : ℕ) (st : List ℕ) (hst : st.length = t) :
    toVec t m (Hades.sboxFirst m e st) = sbox0 e (toVec t m st) := by
  cases st with
  | nil => exact absurd hst.symm (NeZero.ne t)
  | cons x xs =>
    rw [Hades.sboxFirst, toVec_cons_update t m x, sbox0]
    congr 1
    simp [toVec_apply, cast_powMod]


/-! ### the checker's operations (`I3.PoseidonCheck`) -/

@[simp] theorem forceNat_eq {α : Type} (x : ℕ) (k : ℕ → α) : forceNat x k = k x := by
  cases x <;> rfl

@[simp] theorem forceVec_eq {α : Type} : ∀ (l : List ℕ) (k : List ℕ → α), forceVec l k = k l
  | [], k => rfl
  | x :: xs, k => by simp [forceVec, forceVec_eq xs]

@[simp] theorem forceMat_eq {α : Type} : ∀ (l : List (List ℕ)) (k : List (List ℕ) → α), forceMat l k = k l
  | [], k => rfl
  | x :: xs, k => by simp [forceMat, forceMat_eq xs]

@[simp] theorem forceWs_eq {α : Type} : ∀ (l : List (Mat × Vec)) (k : List (Mat × Vec) → α),
    forceWs l k = k l
  | [], k => rfl
  | x :: xs, k => by simp [forceWs, forceWs_eq xs]

theorem eqVec_sound : ∀ {a b : List ℕ}, eqVec a b = true → a = b
  | [], [], _ => rfl
  | [], _ :: _, h => by simp [eqVec] at h
  | _ :: _, [], h => by simp [eqVec] at h
  | x :: xs, y :: ys, h => by
    simp only [eqVec, Bool.and_eq_true] at h
    rw [Nat.eq_of_beq_eq_true h.1, eqVec_sound h.2]

theorem eqMat_sound : ∀ {a b : List (List ℕ)}, eqMat a b = true → a = b
  | [], [], _ => rfl
  | [], _ :: _, h => by simp [eqMat] at h
  | _ :: _, [], h => by simp [eqMat] at h
  | x :: xs, y :: ys, h => by
    simp only [eqMat, Bool.and_eq_true] at h
    rw [eqVec_sound h.1, eqMat_sound h.2]

theorem isVec_sound {n : ℕ} {v : List ℕ} (h : isVec m n v = true) : v.length = n ∧ ∀ x ∈ v, x < m := by
  simp only [isVec, Bool.and_eq_true, List.all_eq_true, Nat.blt_eq] at h
  exact ⟨Nat.eq_of_beq_eq_true h.1, h.2⟩

theorem isMat_sound {A : List (List ℕ)} (h : isMat m t A = true) :
    A.length = t ∧ ∀ r ∈ A, r.length = t := by
  simp only [isMat, Bool.and_eq_true, List.all_eq_true] at h
  exact ⟨Nat.eq_of_beq_eq_true h.1, fun r hr => (isVec_sound m (h.2 r hr)).1⟩

theorem toVec_matVec (A : List (List ℕ)) (v : List ℕ) (hA : A.length = t) (hv : v.length ≤ t) :
    toVec t m (matVec m A v) = toMat t m A *ᵥ toVec t m v := by
  ext i
  have hi : (i : ℕ) < A.length := hA ▸ i.2
  simp only [toVec_apply, matVec, List.getD_eq_getElem?_getD, List.getElem?_map,
    List.getElem?_eq_getElem hi, Option.map_some, Option.getD_some]
  rw [cast_dot t m _ _ hv]
  simp only [Matrix.mulVec, dotProduct, toMat, toVec_apply, List.getD_eq_getElem?_getD,
    List.getElem?_eq_getElem hi, Option.getD_some]

theorem toMat_matMulT (A BT : List (List ℕ)) (hA : A.length = t) (hB : BT.length = t)
    (hB' : ∀ r ∈ BT, r.length ≤ t) :
    toMat t m (matMulT m A BT) = toMat t m A * (toMat t m BT)ᵀ := by
  ext i j
  have hi : (i : ℕ) < A.length := hA ▸ i.2
  have hj : (j : ℕ) < BT.length := hB ▸ j.2
  simp only [toMat, matMulT, List.getD_eq_getElem?_getD, List.getElem?_map,
    List.getElem?_eq_getElem hi, List.getElem?_eq_getElem hj, Option.map_some, Option.getD_some]
  rw [cast_dot t m _ _ (hB' _ (List.getElem_mem hj))]
  simp only [Matrix.mul_apply, Matrix.transpose_apply, toMat, toVec_apply, List.getD_eq_getElem?_getD,
    List.getElem?_eq_getElem hi, List.getElem?_eq_getElem hj, Option.getD_some]

theorem transpose_length (A : List (List ℕ)) : (PoseidonCheck.transpose t A).length = t := by
  simp [PoseidonCheck.transpose]

theorem transpose_rows (A : List (List ℕ)) :
    ∀ r ∈ PoseidonCheck.transpose t A, r.length = A.length := by
  intro r hr
  simp only [PoseidonCheck.transpose, List.mem_map] at hr
  obtain ⟨i, -, rfl⟩ := hr
  simp

theorem toMat_transpose (A : List (List ℕ)) :
    toMat t m (PoseidonCheck.transpose t A) = (toMat t m A)ᵀ := by
  ext i j
  simp only [toMat, PoseidonCheck.transpose, Matrix.transpose_apply]
  rw [getD_map_range' _ _ _ _ i.2, getD_col]

theorem toMat_matMul (A B : List (List ℕ)) (hA : A.length = t) (hB : B.length = t) :
    toMat t m (matMul m t A B) = toMat t m A * toMat t m B := by
  rw [matMul, forceMat_eq, toMat_matMulT t m A _ hA (transpose_length t B)
    (fun r hr => by rw [transpose_rows t B r hr, hB]), toMat_transpose, Matrix.transpose_transpose]

theorem unitVec_getD (i k : ℕ) (hk : k < t) : (unitVec t i).getD k 0 = if k = i then 1 else 0 := by
  rw [unitVec, getD_map_range _ _ _ hk]

theorem toVec_unitVec [NeZero t] : toVec t m (unitVec t 0) = Pi.single 0 1 := by
  ext k
  rw [toVec_apply, unitVec_getD t 0 k k.2]
  by_cases h : k = 0
  · subst h; simp
  · have : (k : ℕ) ≠ 0 := fun h0 => h (Fin.ext (by simpa using h0))
    simp [this, Pi.single_eq_of_ne h]

theorem toMat_identity : toMat t m (identity t) = 1 := by
  ext i j
  simp only [toMat, identity]
  rw [getD_map_range' _ _ _ _ i.2, unitVec_getD t _ _ j.2, Matrix.one_apply]
  by_cases h : i = j
  · subst h; simp
  · have : (j : ℕ) ≠ (i : ℕ) := fun h0 => h (Fin.ext h0.symm)
    simp [h, this]

theorem toVec_addVec (a b : List ℕ) (ha : a.length = t) (hb : t ≤ b.length) :
    toVec t m (addVec m a b) = toVec t m a + toVec t m b := by
  ext i
  have h1 : (i : ℕ) < a.length := ha ▸ i.2
  have h2 : (i : ℕ) < b.length := lt_of_lt_of_le i.2 hb
  rw [toVec_apply, addVec, getD_zipWith_lt _ _ _ _ h1 h2, ZMod.natCast_mod, Nat.cast_add]
  rfl

theorem cast_neg_mod [NeZero m] (x : ℕ) : (((m - x % m) % m : ℕ) : ZMod m) = -(x : ZMod m) := by
  have hm : 0 < m := Nat.pos_of_ne_zero (NeZero.ne m)
  have hx : x % m ≤ m := (Nat.mod_lt x hm).le
  rw [ZMod.natCast_mod, Nat.cast_sub hx, ZMod.natCast_self, ZMod.natCast_mod, zero_sub]

theorem toVec_negVec [NeZero m] (a : List ℕ) (ha : a.length = t) :
    toVec t m (negVec m a) = -toVec t m a := by
  ext i
  have h1 : (i : ℕ) < a.length := ha ▸ i.2
  rw [toVec_apply, negVec, getD_map_lt _ _ _ h1, cast_neg_mod]
  rfl

theorem toVec_scaleVec (c : ℕ) (a : List ℕ) (ha : a.length = t) :
    toVec t m (scaleVec m c a) = (c : ZMod m) • toVec t m a := by
  ext i
  have h1 : (i : ℕ) < a.length := ha ▸ i.2
  rw [toVec_apply, scaleVec, getD_map_lt _ _ _ h1, ZMod.natCast_mod, Nat.cast_mul]
  rfl

theorem matVec_length (A : List (List ℕ)) (v : List ℕ) : (matVec m A v).length = A.length := by
  simp [matVec]

theorem matMul_length (A B : List (List ℕ)) : (matMul m t A B).length = A.length := by
  simp [matMul, matMulT]


/-! ### the sparse partial round -/

theorem sbox0_add_single {F : Type*} [CommRing F] [NeZero t] (e : ℕ) (v : Fin t → F) (c : F) :
    sbox0 e v + Pi.single 0 c = Function.update v 0 (v 0 ^ e + c) := by
  ext i
  by_cases h : i = 0
  · subst h; simp [sbox0]
  · simp [sbox0, Function.update_of_ne h, Pi.single_eq_of_ne h]

theorem sparse_row0 (S : List ℕ) (j : ℕ) : (sparse t S j).getD 0 [] = seg S ((t * 2 - 1) * j) t := by
  simp [sparse]

theorem sparse_rowSucc (S : List ℕ) (j k : ℕ) (hk : k < t - 1)
    (hS : (t * 2 - 1) * j + t + (t - 1) ≤ S.length) :
    (sparse t S j).getD (k + 1) [] = S.getD ((t * 2 - 1) * j + t + k) 0 :: unitVec (t - 1) k := by
  have h1 : k < (seg S ((t * 2 - 1) * j + t) (t - 1)).length := by
    simp only [seg, List.length_take, List.length_drop]; omega
  have h2 : k < (identity (t - 1)).length := by simp [identity, hk]
  have h3 : (seg S ((t * 2 - 1) * j + t) (t - 1))[k]'h1 = S.getD ((t * 2 - 1) * j + t + k) 0 := by
    have := getD_seg S ((t * 2 - 1) * j + t) (t - 1) k hk
    rw [List.getD_eq_getElem?_getD, List.getElem?_eq_getElem h1] at this
    simpa using this
  have h4 : (identity (t - 1))[k]'h2 = unitVec (t - 1) k := by simp [identity]
  simp only [sparse, List.getD_eq_getElem?_getD, List.getElem?_cons_succ, List.getElem?_zipWith,
    List.getElem?_eq_getElem h1, List.getElem?_eq_getElem h2, Option.getD_some, h3, h4]

open I3.Model.Poseidon in
theorem toVec_partialRound [NeZero t] (e : ℕ) (C S st : List ℕ) (j : ℕ) (hst : st.length = t)
    (hS : (t * 2 - 1) * j + t + (t - 1) ≤ S.length) :
    toVec t m (partialRound m e t C S st j) =
      toMat t m (sparse t S j) *ᵥ
        (sbox0 e (toVec t m st) + Pi.single 0 ((C.getD ((4 + 1) * t + j) 0 : ℕ) : ZMod m)) := by
  obtain ⟨t', rfl⟩ : ∃ t', t = t' + 1 := ⟨t - 1, by have := NeZero.pos t; omega⟩
  cases st with
  | nil => simp at hst
  | cons s0 rest =>
  have hrest : rest.length = t' := by simpa using hst
  rw [sbox0_add_single]
  set s0' := (powMod s0 e m + C.getD ((4 + 1) * (t' + 1) + j) 0) % m with hs0'
  have hw : Function.update (toVec (t' + 1) m (s0 :: rest)) 0
      (toVec (t' + 1) m (s0 :: rest) 0 ^ e + ((C.getD ((4 + 1) * (t' + 1) + j) 0 : ℕ) : ZMod m)) =
      toVec (t' + 1) m (s0' :: rest) := by
    rw [toVec_cons_update (t' + 1) m s0 s0' rest]
    congr 1
    simp [toVec_apply, hs0', cast_powMod]
  rw [hw]
  simp only [partialRound]
  rw [← hs0']
  ext i
  refine Fin.cases ?_ (fun k => ?_) i
  · -- lane 0
    simp only [toVec_apply, Fin.val_zero, List.getD_cons_zero]
    rw [cast_foldl_addmod, sum_zipWith_mul,
      cast_dotRaw (t' + 1) _ (s0' :: rest) (by simp [hrest])]
    simp only [Nat.cast_zero, zero_add, Matrix.mulVec, dotProduct, toMat, Fin.val_zero, sparse_row0,
      toVec_apply]
    refine Finset.sum_congr rfl fun c _ => ?_
    rw [getD_seg _ _ _ _ c.2, getD_drop]
  · -- lane k+1
    have hk : (k : ℕ) < t' := k.2
    have h1 : (k : ℕ) < rest.length := hrest ▸ hk
    have h2 : (k : ℕ) < (S.drop (((t' + 1) * 2 - 1) * j + (t' + 1))).length := by
      rw [List.length_drop]; simp only [Nat.add_sub_cancel] at hS; omega
    simp only [toVec_apply, Fin.val_succ, List.getD_cons_succ]
    rw [getD_zipWith_lt _ _ _ _ h1 h2, ZMod.natCast_mod]
    simp only [Matrix.mulVec, dotProduct, toMat, Fin.val_succ]
    rw [sparse_rowSucc (t' + 1) S j k (by simp) hS, Fin.sum_univ_succ]
    simp only [Fin.val_zero, List.getD_cons_zero, Fin.val_succ, List.getD_cons_succ, toVec_apply,
      Nat.add_sub_cancel]
    have : ∀ c : Fin t', (((unitVec t' k).getD c 0 : ℕ) : ZMod m) * ((rest.getD c 0 : ℕ) : ZMod m) =
        if c = k then ((rest.getD c 0 : ℕ) : ZMod m) else 0 := by
      intro c
      rw [unitVec_getD t' k c c.2]
      by_cases h : c = k
      · subst h; simp
      · have : (c : ℕ) ≠ (k : ℕ) := fun h0 => h (Fin.ext h0)
        simp [h, this]
    rw [Finset.sum_congr rfl fun c _ => this c, Finset.sum_ite_eq' Finset.univ k]
    simp only [Finset.mem_univ, if_true, getD_drop, Nat.cast_add, Nat.cast_mul]
    ring

end bridge




/-! ## the refinement -/
section refine
open I3.PoseidonCheck I3.Model.Poseidon
set_option linter.unusedSectionVars false

variable (m t rp e : ℕ) [NeZero t] [NeZero m]
variable (K C S : List ℕ) (Mref Mgo Pgo : List (List ℕ))

/-- The relation system (R1)–(R4) in terms of vectors and matrices over `ZMod m`. -/
structure Rel : Prop where
  hK : K.length = (8 + rp) * t
  hC : C.length = 8 * t + rp
  hS : S.length = (t * 2 - 1) * rp
  hMref : Mref.length = t
  hMgo : Mgo.length = t
  hPgo : Pgo.length = t
  r1 : (toMat t m Mgo)ᵀ = toMat t m Mref
  r2a : toVec t m C = toVec t m K
  r2 : ∀ i < 3, toMat t m Mref *ᵥ toVec t m (C.drop ((i + 1) * t)) = toVec t m (K.drop ((i + 1) * t))
  r4 : ∀ i < 3, toMat t m Mref *ᵥ toVec t m (C.drop ((4 + 1) * t + rp + i * t)) =
        toVec t m (K.drop ((4 + rp + (i + 1)) * t))
  r3 : ∃ (A : ℕ → Matrix (Fin t) (Fin t) (ZMod m)) (b : ℕ → Fin t → ZMod m),
    A rp = 1 ∧ b rp = -toVec t m (K.drop ((4 + rp) * t)) ∧
    A 0 * (toMat t m Pgo)ᵀ = toMat t m Mref ∧
    toMat t m Mref *ᵥ toVec t m (C.drop (4 * t)) = -b 0 ∧
    ∀ j < rp,
      (∀ k, A j 0 k = if k = 0 then 1 else 0) ∧ (∀ i, A j i 0 = if i = 0 then 1 else 0) ∧
      (b j + toVec t m (K.drop ((4 + j) * t))) 0 = 0 ∧
      toMat t m Mref * A j = A (j + 1) * toMat t m (sparse t S j) ∧
      toMat t m Mref *ᵥ (b j + toVec t m (K.drop ((4 + j) * t))) =
        ((C.getD ((4 + 1) * t + j) 0 : ℕ) : ZMod m) •
          ((A (j + 1) * toMat t m (sparse t S j)) *ᵥ Pi.single 0 1) + b (j + 1)

/-! ### reference rounds -/

theorem hadesMatVec_length (mat : List (List ℕ)) (v : List ℕ) :
    (Hades.matVec m mat v).length = mat.length := by simp [Hades.matVec]

theorem round_length (hMref : Mref.length = t) (s : List ℕ) (r : ℕ) :
    (Hades.round m e t 8 rp K Mref s r).length = t := by
  simp only [Hades.round, hadesMatVec_length, hMref]

theorem seg_K_length (hK : K.length = (8 + rp) * t) (r : ℕ) (hr : r < 8 + rp) :
    ((K.drop (r * t)).take t).length = t := by
  have : (r + 1) * t ≤ (8 + rp) * t := Nat.mul_le_mul_right t hr
  rw [List.length_take, List.length_drop, hK]
  rw [Nat.add_mul, Nat.one_mul] at this
  omega

theorem toVec_addK (hK : K.length = (8 + rp) * t) (s : List ℕ) (hs : s.length = t) (r : ℕ)
    (hr : r < 8 + rp) :
    toVec t m (Hades.addVec m s ((K.drop (r * t)).take t)) = toVec t m s + toVec t m (K.drop (r * t)) := by
  rw [toVec_hadesAddVec t m _ _ hs (le_of_eq (seg_K_length t rp K hK r hr).symm), toVec_take]

theorem addK_length (hK : K.length = (8 + rp) * t) (s : List ℕ) (hs : s.length = t) (r : ℕ)
    (hr : r < 8 + rp) : (Hades.addVec m s ((K.drop (r * t)).take t)).length = t := by
  rw [Hades.addVec, List.length_zipWith, hs, seg_K_length t rp K hK r hr, Nat.min_self]

theorem toVec_round_full (hK : K.length = (8 + rp) * t) (hMref : Mref.length = t) (s : List ℕ)
    (hs : s.length = t) (r : ℕ) (hr : r < 8 + rp) (hfull : r < 4 ∨ r ≥ 4 + rp) :
    toVec t m (Hades.round m e t 8 rp K Mref s r) =
      toMat t m Mref *ᵥ sboxF e (toVec t m s + toVec t m (K.drop (r * t))) := by
  have hl := addK_length m t rp K hK s hs r hr
  simp only [Hades.round, Nat.reduceDiv, hfull, if_true]
  rw [toVec_hadesMatVec t m _ _ hMref (by simp [Hades.sboxFull, hl]), toVec_sboxFull t m e _ hl,
    toVec_addK m t rp K hK s hs r hr]

theorem toVec_round_partial (hK : K.length = (8 + rp) * t) (hMref : Mref.length = t) (s : List ℕ)
    (hs : s.length = t) (r : ℕ) (hr : r < 8 + rp) (hpart : ¬ (r < 4 ∨ r ≥ 4 + rp)) :
    toVec t m (Hades.round m e t 8 rp K Mref s r) =
      toMat t m Mref *ᵥ sbox0 e (toVec t m s + toVec t m (K.drop (r * t))) := by
  have hl := addK_length m t rp K hK s hs r hr
  have hl' : (Hades.sboxFirst m e (Hades.addVec m s ((K.drop (r * t)).take t))).length = t := by
    cases h : Hades.addVec m s ((K.drop (r * t)).take t) with
    | nil => rw [h] at hl; exact absurd hl.symm (NeZero.ne t)
    | cons x xs => rw [h] at hl; simpa [Hades.sboxFirst] using hl
  simp only [Hades.round, Nat.reduceDiv, hpart, if_false]
  rw [toVec_hadesMatVec t m _ _ hMref hl', toVec_sboxFirst t m e _ hl,
    toVec_addK m t rp K hK s hs r hr]

/-- reference state after `n` rounds. -/
def ref (st : List ℕ) (n : ℕ) : List ℕ := (List.range n).foldl (Hades.round m e t 8 rp K Mref) st

theorem ref_succ (st : List ℕ) (n : ℕ) :
    ref m t rp e K Mref st (n + 1) = Hades.round m e t 8 rp K Mref (ref m t rp e K Mref st n) n := by
  simp [ref, List.range_succ]

theorem ref_length (hMref : Mref.length = t) (st : List ℕ) (hst : st.length = t) :
    ∀ n, (ref m t rp e K Mref st n).length = t
  | 0 => by simpa [ref] using hst
  | n + 1 => by rw [ref_succ]; exact round_length m t rp e K Mref hMref _ _


/-! ### the Go loop, phase by phase -/

/-- state after the first `ark` and `i ≤ 3` full rounds of the Go loop. -/
def g1 (st : List ℕ) (i : ℕ) : List ℕ :=
  (List.range i).foldl (fun st i => mix m Mgo (ark m (sboxAll m e st) C ((i + 1) * t))) (ark m st C 0)

/-- state after the round that multiplies by the pre-sparse matrix `P`. -/
def v0 (st : List ℕ) : List ℕ := mix m Pgo (ark m (sboxAll m e (g1 m t e C Mgo st 3)) C (4 * t))

/-- state after `j` sparse partial rounds. -/
def pv (st : List ℕ) (j : ℕ) : List ℕ :=
  (List.range j).foldl (partialRound m e t C S) (v0 m t e C Mgo Pgo st)

/-- state after the partial rounds and `i ≤ 3` more full rounds. -/
def x4 (st : List ℕ) (i : ℕ) : List ℕ :=
  (List.range i).foldl (fun st i => mix m Mgo (ark m (sboxAll m e st) C ((4 + 1) * t + rp + i * t)))
    (pv m t e C S Mgo Pgo st rp)

theorem permute_unfold (st : List ℕ) :
    permute m e ⟨C, S, Mgo, Pgo⟩ t rp st = mix m Mgo (sboxAll m e (x4 m t rp e C S Mgo Pgo st 3)) := rfl

theorem g1_succ (st : List ℕ) (i : ℕ) : g1 m t e C Mgo st (i + 1) =
    mix m Mgo (ark m (sboxAll m e (g1 m t e C Mgo st i)) C ((i + 1) * t)) := by
  simp [g1, List.range_succ]

theorem pv_succ (st : List ℕ) (j : ℕ) : pv m t e C S Mgo Pgo st (j + 1) =
    partialRound m e t C S (pv m t e C S Mgo Pgo st j) j := by
  simp [pv, List.range_succ]

theorem x4_succ (st : List ℕ) (i : ℕ) : x4 m t rp e C S Mgo Pgo st (i + 1) =
    mix m Mgo (ark m (sboxAll m e (x4 m t rp e C S Mgo Pgo st i)) C ((4 + 1) * t + rp + i * t)) := by
  simp [x4, List.range_succ]

theorem fullRound_length (g : List ℕ) (it : ℕ) (hg : g.length = t) (h : it + t ≤ C.length) :
    (mix m Mgo (ark m (sboxAll m e g) C it)).length = t := by
  simp only [mix, ark, sboxAll, List.length_map, List.length_range, List.length_zipWith,
    List.length_drop, hg]
  omega

variable {m t rp e K C S Mref Mgo Pgo}

/-- One full round of the Go loop against one full reference round. -/
theorem full_step (h : Rel m t rp K C S Mref Mgo Pgo) (g s : List ℕ) (r it : ℕ)
    (hg : g.length = t) (hs : s.length = t)
    (hinv : toVec t m g = toVec t m s + toVec t m (K.drop (r * t)))
    (hr : r < 8 + rp) (hfull : r < 4 ∨ r ≥ 4 + rp) (hit : it + t ≤ C.length)
    (hrel : toMat t m Mref *ᵥ toVec t m (C.drop it) = toVec t m (K.drop ((r + 1) * t))) :
    toVec t m (mix m Mgo (ark m (sboxAll m e g) C it)) =
      toVec t m (Hades.round m e t 8 rp K Mref s r) + toVec t m (K.drop ((r + 1) * t)) := by
  have hl : (sboxAll m e g).length = t := by simp [sboxAll, hg]
  have hl2 : (ark m (sboxAll m e g) C it).length = t := by
    simp only [ark, List.length_zipWith, List.length_drop, hl]; omega
  rw [toVec_mix t m _ _ (le_of_eq h.hMgo) hl2, toVec_ark t m _ _ _ hl hit, toVec_sboxAll t m e g hg,
    h.r1, Matrix.mulVec_add, hrel, hinv, toVec_round_full m t rp e K Mref h.hK h.hMref s hs r hr hfull]

theorem phase1 (h : Rel m t rp K C S Mref Mgo Pgo) (st : List ℕ) (hst : st.length = t) :
    ∀ i ≤ 3, (g1 m t e C Mgo st i).length = t ∧
      toVec t m (g1 m t e C Mgo st i) =
        toVec t m (ref m t rp e K Mref st i) + toVec t m (K.drop (i * t)) := by
  intro i
  induction i with
  | zero =>
    intro _
    have hC : 0 + t ≤ C.length := by rw [h.hC]; omega
    refine ⟨by simp only [g1, List.range_zero, List.foldl_nil, ark, List.length_zipWith,
      List.length_drop, hst]; omega, ?_⟩
    simp only [g1, List.range_zero, List.foldl_nil, ref, Nat.zero_mul, List.drop_zero]
    rw [toVec_ark t m _ _ _ hst hC, List.drop_zero, h.r2a]
  | succ i ih =>
    intro hi
    obtain ⟨hl, hv⟩ := ih (by omega)
    have hit : (i + 1) * t + t ≤ C.length := by
      rw [h.hC]
      have : (i + 1) * t ≤ 3 * t := Nat.mul_le_mul_right t (by omega)
      omega
    rw [g1_succ, ref_succ]
    exact ⟨fullRound_length m t e C Mgo _ _ hl hit,
      full_step h _ _ i _ hl (ref_length m t rp e K Mref h.hMref st hst i) hv (by omega)
        (Or.inl (by omega)) hit (h.r2 i (by omega))⟩


theorem phase2 (h : Rel m t rp K C S Mref Mgo Pgo) (st : List ℕ) (hst : st.length = t)
    (A0 : Matrix (Fin t) (Fin t) (ZMod m)) (b0 : Fin t → ZMod m)
    (hA0 : A0 * (toMat t m Pgo)ᵀ = toMat t m Mref)
    (hb0 : toMat t m Mref *ᵥ toVec t m (C.drop (4 * t)) = -b0) :
    (v0 m t e C Mgo Pgo st).length = t ∧
      toVec t m (ref m t rp e K Mref st 4) = A0 *ᵥ toVec t m (v0 m t e C Mgo Pgo st) + b0 := by
  obtain ⟨hl, hv⟩ := phase1 (e := e) h st hst 3 (le_refl 3)
  have hit : 4 * t + t ≤ C.length := by rw [h.hC]; omega
  have hl1 : (sboxAll m e (g1 m t e C Mgo st 3)).length = t := by simp [sboxAll, hl]
  have hl2 : (ark m (sboxAll m e (g1 m t e C Mgo st 3)) C (4 * t)).length = t := by
    simp only [ark, List.length_zipWith, List.length_drop, hl1]; omega
  refine ⟨fullRound_length m t e C Pgo _ _ hl hit, ?_⟩
  rw [ref_succ, toVec_round_full m t rp e K Mref h.hK h.hMref _
    (ref_length m t rp e K Mref h.hMref st hst 3) 3 (by omega) (Or.inl (by omega)), ← hv, v0,
    toVec_mix t m _ _ (le_of_eq h.hPgo) hl2, toVec_ark t m _ _ _ hl1 hit, toVec_sboxAll t m e _ hl,
    Matrix.mulVec_mulVec, hA0, Matrix.mulVec_add, hb0]
  abel

theorem partialRound_length' (C S st : List ℕ) (j : ℕ) (hst : st.length = t)
    (hS : (t * 2 - 1) * j + t + (t - 1) ≤ S.length) :
    (partialRound m e t C S st j).length = t := by
  cases st with
  | nil => simpa [partialRound] using hst
  | cons s0 rest =>
    simp only [partialRound, List.length_cons, List.length_zipWith, List.length_drop]
    simp only [List.length_cons] at hst
    omega

theorem phase3 (h : Rel m t rp K C S Mref Mgo Pgo) (st : List ℕ) (hst : st.length = t)
    (A : ℕ → Matrix (Fin t) (Fin t) (ZMod m)) (b : ℕ → Fin t → ZMod m)
    (hA0 : A 0 * (toMat t m Pgo)ᵀ = toMat t m Mref)
    (hb0 : toMat t m Mref *ᵥ toVec t m (C.drop (4 * t)) = -b 0)
    (hstep : ∀ j < rp,
      (∀ k, A j 0 k = if k = 0 then 1 else 0) ∧ (∀ i, A j i 0 = if i = 0 then 1 else 0) ∧
      (b j + toVec t m (K.drop ((4 + j) * t))) 0 = 0 ∧
      toMat t m Mref * A j = A (j + 1) * toMat t m (sparse t S j) ∧
      toMat t m Mref *ᵥ (b j + toVec t m (K.drop ((4 + j) * t))) =
        ((C.getD ((4 + 1) * t + j) 0 : ℕ) : ZMod m) •
          ((A (j + 1) * toMat t m (sparse t S j)) *ᵥ Pi.single 0 1) + b (j + 1)) :
    ∀ j ≤ rp, (pv m t e C S Mgo Pgo st j).length = t ∧
      toVec t m (ref m t rp e K Mref st (4 + j)) =
        A j *ᵥ toVec t m (pv m t e C S Mgo Pgo st j) + b j := by
  intro j
  induction j with
  | zero =>
    intro _
    simpa [pv] using phase2 (e := e) h st hst (A 0) (b 0) hA0 hb0
  | succ j ih =>
    intro hj
    obtain ⟨hl, hv⟩ := ih (by omega)
    obtain ⟨hrow, hcol, hβ, hA, hb⟩ := hstep j (by omega)
    have hS : (t * 2 - 1) * j + t + (t - 1) ≤ S.length := by
      rw [h.hS]
      have h1 : (t * 2 - 1) * (j + 1) ≤ (t * 2 - 1) * rp := Nat.mul_le_mul_left _ hj
      rw [Nat.mul_succ] at h1
      have := NeZero.pos t
      omega
    rw [pv_succ]
    refine ⟨partialRound_length' _ _ _ _ hl hS, ?_⟩
    rw [show 4 + (j + 1) = (4 + j) + 1 from rfl, ref_succ,
      toVec_round_partial m t rp e K Mref h.hK h.hMref _
        (ref_length m t rp e K Mref h.hMref st hst (4 + j)) (4 + j) (by omega) (by omega), hv,
      partial_step _ _ _ _ _ _ _ _ _ e hrow hcol hβ hA hb, toVec_partialRound t m e C S _ j hl hS]

theorem phase4 (h : Rel m t rp K C S Mref Mgo Pgo) (st : List ℕ) (hst : st.length = t) :
    ∀ i ≤ 3, (x4 m t rp e C S Mgo Pgo st i).length = t ∧
      toVec t m (x4 m t rp e C S Mgo Pgo st i) =
        toVec t m (ref m t rp e K Mref st (4 + rp + i)) + toVec t m (K.drop ((4 + rp + i) * t)) := by
  obtain ⟨A, b, hArp, hbrp, hA0, hb0, hstep⟩ := h.r3
  obtain ⟨hl0, hv0⟩ := phase3 (e := e) h st hst A b hA0 hb0 hstep rp (le_refl rp)
  intro i
  induction i with
  | zero =>
    intro _
    refine ⟨by simpa [x4] using hl0, ?_⟩
    simp only [x4, List.range_zero, List.foldl_nil, Nat.add_zero]
    rw [hv0, hArp, hbrp, Matrix.one_mulVec]
    abel
  | succ i ih =>
    intro hi
    obtain ⟨hl, hv⟩ := ih (by omega)
    have hit : (4 + 1) * t + rp + i * t + t ≤ C.length := by
      rw [h.hC]
      have : i * t ≤ 2 * t := Nat.mul_le_mul_right t (by omega)
      omega
    rw [x4_succ, show 4 + rp + (i + 1) = (4 + rp + i) + 1 from rfl, ref_succ]
    exact ⟨fullRound_length m t e C Mgo _ _ hl hit,
      full_step h _ _ (4 + rp + i) _ hl (ref_length m t rp e K Mref h.hMref st hst _) hv (by omega)
        (Or.inr (by omega)) hit (h.r4 i (by omega))⟩

theorem foldl_addmod_lt (hm : 0 < m) (l : List ℕ) (a : ℕ) (ha : a < m) :
    l.foldl (fun a b => (a + b) % m) a < m := by
  induction l generalizing a with
  | nil => simpa using ha
  | cons x xs ih => exact ih _ (Nat.mod_lt _ hm)

/-- **Refinement**: under the relation system, the optimised Go loop is the textbook permutation. -/
theorem permute_eq_of_rel (h : Rel m t rp K C S Mref Mgo Pgo) (st : List ℕ) (hst : st.length = t) :
    permute m e ⟨C, S, Mgo, Pgo⟩ t rp st = Hades.permute m e t 8 rp K Mref st := by
  have hm : 0 < m := NeZero.pos m
  obtain ⟨hl, hv⟩ := phase4 (e := e) h st hst 3 (le_refl 3)
  have hl1 : (sboxAll m e (x4 m t rp e C S Mgo Pgo st 3)).length = t := by simp [sboxAll, hl]
  have href : Hades.permute m e t 8 rp K Mref st = ref m t rp e K Mref st ((4 + rp + 3) + 1) := by
    have e8 : 8 + rp = (4 + rp + 3) + 1 := by omega
    rw [Hades.permute, ref, e8]
  rw [permute_unfold, href, ref_succ]
  apply toVec_inj t m (by simp [mix, hl1]) (round_length m t rp e K Mref h.hMref _ _)
  · intro x hx
    simp only [mix, List.mem_map] at hx
    obtain ⟨i, -, rfl⟩ := hx
    exact foldl_addmod_lt hm _ 0 hm
  · intro x hx
    simp only [Hades.round, Hades.matVec, List.mem_map] at hx
    obtain ⟨row, -, rfl⟩ := hx
    exact foldl_addmod_lt hm _ 0 hm
  · rw [toVec_mix t m _ _ (le_of_eq h.hMgo) hl1, toVec_sboxAll t m e _ hl, h.r1, hv,
      toVec_round_full m t rp e K Mref h.hK h.hMref _ (ref_length m t rp e K Mref h.hMref st hst _)
        (4 + rp + 3) (by omega) (Or.inr (by omega))]


/-! ### from the boolean checker to the relation system -/

theorem headD_eq_getD (l : List ℕ) (d : ℕ) (h : l ≠ []) : l.headD d = l.getD 0 0 := by
  cases l with
  | nil => exact absurd rfl h
  | cons x xs => simp

theorem sparse_length (S : List ℕ) (j : ℕ) (hS : (t * 2 - 1) * j + t + (t - 1) ≤ S.length) :
    (sparse t S j).length = t := by
  have := NeZero.pos t
  simp only [sparse, seg, identity, List.length_cons, List.length_zipWith, List.length_take,
    List.length_drop, List.length_map, List.length_range]
  omega

omit [NeZero m] in
theorem stepOk_spec (hK : K.length = (8 + rp) * t) (hS : S.length = (t * 2 - 1) * rp)
    (hMref : Mref.length = t) (j : ℕ) (hj : j < rp) (w w' : Mat × Vec)
    (hw1 : w.1.length = t) (hw2 : w.2.length = t) (hw1' : w'.1.length = t) (hw2' : w'.2.length = t)
    (h : stepOk m t K C S Mref j w w' = true) :
    (∀ k : Fin t, toMat t m w.1 0 k = if k = 0 then 1 else 0) ∧
    (∀ i : Fin t, toMat t m w.1 i 0 = if i = 0 then 1 else 0) ∧
    (toVec t m w.2 + toVec t m (K.drop ((4 + j) * t))) 0 = 0 ∧
    toMat t m Mref * toMat t m w.1 = toMat t m w'.1 * toMat t m (sparse t S j) ∧
    toMat t m Mref *ᵥ (toVec t m w.2 + toVec t m (K.drop ((4 + j) * t))) =
      ((C.getD ((4 + 1) * t + j) 0 : ℕ) : ZMod m) •
        ((toMat t m w'.1 * toMat t m (sparse t S j)) *ᵥ Pi.single 0 1) + toVec t m w'.2 := by
  have ht := NeZero.pos t
  simp only [stepOk, forceVec_eq, forceMat_eq, Bool.and_eq_true] at h
  obtain ⟨⟨⟨⟨hrow, hcol⟩, hβ⟩, hA⟩, hb⟩ := h
  have hrow := eqVec_sound hrow
  have hcol := eqVec_sound hcol
  have hβ := Nat.eq_of_beq_eq_true hβ
  have hA := eqMat_sound hA
  have hb := eqVec_sound hb
  have hSj : (t * 2 - 1) * j + t + (t - 1) ≤ S.length := by
    rw [hS]
    have h1 : (t * 2 - 1) * (j + 1) ≤ (t * 2 - 1) * rp := Nat.mul_le_mul_left _ hj
    rw [Nat.mul_succ] at h1
    omega
  have hKj : t ≤ (seg K ((4 + j) * t) t).length := by
    have : (4 + j + 1) * t ≤ (8 + rp) * t := Nat.mul_le_mul_right t (by omega)
    rw [Nat.add_mul, Nat.one_mul] at this
    simp only [seg, List.length_take, List.length_drop, hK]
    omega
  have hβv : toVec t m (addVec m w.2 (seg K ((4 + j) * t) t)) =
      toVec t m w.2 + toVec t m (K.drop ((4 + j) * t)) := by
    rw [toVec_addVec t m _ _ hw2 hKj, toVec_seg]
  have hβl : (addVec m w.2 (seg K ((4 + j) * t) t)).length = t := by
    simp only [addVec, List.length_zipWith, hw2]; omega
  have hSp := sparse_length (t := t) S j hSj
  have hASp : toMat t m (matMul m t w'.1 (sparse t S j)) =
      toMat t m w'.1 * toMat t m (sparse t S j) := toMat_matMul t m _ _ hw1' hSp
  refine ⟨?_, ?_, ?_, ?_, ?_⟩
  · intro k
    have hne : w.1 ≠ [] := by intro h0; rw [h0] at hw1; simp at hw1; omega
    have : w.1.getD 0 [] = w.1.headD [] := by
      cases hw : w.1 with
      | nil => exact absurd hw hne
      | cons x xs => simp
    simp only [toMat, Fin.val_zero, this, hrow, unitVec_getD t 0 k k.2]
    by_cases hk : k = 0
    · subst hk; simp
    · have : (k : ℕ) ≠ 0 := fun h0 => hk (Fin.ext (by simpa using h0))
      simp [hk, this]
  · intro i
    have hi : (i : ℕ) < w.1.length := hw1 ▸ i.2
    have h1 : (w.1.getD i []).getD 0 0 = (w.1.map fun r => r.headD 0).getD i 0 := by
      simp only [List.getD_eq_getElem?_getD, List.getElem?_map, List.getElem?_eq_getElem hi,
        Option.map_some, Option.getD_some]
      cases w.1[(i : ℕ)] <;> simp
    simp only [toMat, Fin.val_zero, h1, hcol, unitVec_getD t 0 i i.2]
    by_cases hk : i = 0
    · subst hk; simp
    · have : (i : ℕ) ≠ 0 := fun h0 => hk (Fin.ext (by simpa using h0))
      simp [hk, this]
  · rw [← hβv, toVec_apply, Fin.val_zero,
      ← headD_eq_getD _ 1 (by intro h0; rw [h0] at hβl; simp at hβl; omega), hβ]
    simp
  · rw [← toMat_matMul t m _ _ hMref hw1, hA, hASp]
  · have hl1 : (matMul m t w'.1 (sparse t S j)).length = t := by rw [matMul_length, hw1']
    have hl2 : (matVec m (matMul m t w'.1 (sparse t S j)) (unitVec t 0)).length = t := by
      rw [matVec_length, hl1]
    have hl3 : (scaleVec m (C.getD ((4 + 1) * t + j) 0)
        (matVec m (matMul m t w'.1 (sparse t S j)) (unitVec t 0))).length = t := by
      simp only [scaleVec, List.length_map]; exact hl2
    rw [← hβv, ← toVec_matVec t m _ _ hMref (le_of_eq hβl), hb,
      toVec_addVec t m _ _ hl3 (le_of_eq hw2'.symm), toVec_scaleVec t m _ _ hl2,
      toVec_matVec t m _ _ hl1 (by simp [unitVec]), hASp, toVec_unitVec]

omit [NeZero t] [NeZero m] in
theorem chainOk_spec : ∀ (rest : List (Mat × Vec)) (j0 : ℕ) (w : Mat × Vec),
    chainOk m t K C S Mref j0 w rest = true →
    (∀ i < rest.length, stepOk m t K C S Mref (j0 + i) ((w :: rest).getD i ([], []))
        ((w :: rest).getD (i + 1) ([], [])) = true) ∧
    ((w :: rest).getD rest.length ([], [])).1 = identity t ∧
    ((w :: rest).getD rest.length ([], [])).2 = negVec m (seg K ((4 + (j0 + rest.length)) * t) t)
  | [], j0, w, h => by
    simp only [chainOk, Bool.and_eq_true] at h
    refine ⟨by simp, ?_, ?_⟩
    · simpa using eqMat_sound h.1
    · simpa using eqVec_sound h.2
  | w' :: rest, j0, w, h => by
    simp only [chainOk, Bool.and_eq_true] at h
    obtain ⟨ih1, ih2, ih3⟩ := chainOk_spec rest (j0 + 1) w' h.2
    refine ⟨?_, ?_, ?_⟩
    · intro i hi
      cases i with
      | zero => simpa using h.1
      | succ i =>
        have := ih1 i (by simpa using hi)
        rw [show j0 + 1 + i = j0 + (i + 1) by omega] at this
        simpa using this
    · simpa using ih2
    · rw [show j0 + 1 + rest.length = j0 + (w' :: rest).length by simp; omega] at ih3
      simpa using ih3


theorem rel_of_checkAll (tab : Tables) (ws : List (Mat × Vec))
    (h : checkAll m t rp K Mref tab ws = true) : Rel m t rp K tab.C tab.S Mref tab.M tab.P := by
  have ht := NeZero.pos t
  simp only [checkAll, forceWs_eq, forceVec_eq, Bool.and_eq_true] at h
  obtain ⟨⟨⟨⟨⟨⟨⟨⟨⟨⟨⟨⟨⟨-, hMref⟩, hM⟩, hP⟩, hC⟩, hS⟩, hK⟩, hwl⟩, hwall⟩, hR1⟩, hR2a⟩, hR2⟩, hR4⟩, hR3⟩ := h
  have hMref := (isMat_sound t m hMref).1
  have hM := (isMat_sound t m hM).1
  have hPr := (isMat_sound t m hP).2
  have hP := (isMat_sound t m hP).1
  have hC := (isVec_sound m hC).1
  have hS := (isVec_sound m hS).1
  have hK := (isVec_sound m hK).1
  have hwl := Nat.eq_of_beq_eq_true hwl
  have hR1 := eqMat_sound hR1
  have hR2a := eqVec_sound hR2a
  simp only [List.all_eq_true, List.mem_range, Bool.and_eq_true] at hR2 hR4 hwall
  have segle : ∀ (l : List ℕ) (k : ℕ), (seg l k t).length ≤ t := by
    intro l k; simp only [seg, List.length_take]; omega
  refine ⟨hK, hC, hS, hMref, hM, hP, ?_, ?_, ?_, ?_, ?_⟩
  · rw [← hR1, toMat_transpose]
  · have := congrArg (toVec t m) hR2a
    simpa only [toVec_seg, List.drop_zero] using this
  · intro i hi
    have := congrArg (toVec t m) (eqVec_sound (hR2 i hi))
    rwa [toVec_matVec t m _ _ hMref (segle _ _), toVec_seg, toVec_seg] at this
  · intro i hi
    have := congrArg (toVec t m) (eqVec_sound (hR4 i hi))
    rwa [toVec_matVec t m _ _ hMref (segle _ _), toVec_seg, toVec_seg] at this
  · -- (R3)
    cases ws with
    | nil => simp at hR3
    | cons w0 rest =>
    simp only [Bool.and_eq_true] at hR3
    obtain ⟨⟨hA0, hb0⟩, hchain⟩ := hR3
    have hrest : rest.length = rp := by simpa using hwl
    obtain ⟨hsteps, hend1, hend2⟩ := chainOk_spec rest 0 w0 hchain
    have hshape : ∀ j ≤ rp, (((w0 :: rest).getD j ([], [])).1.length = t ∧
        ((w0 :: rest).getD j ([], [])).2.length = t) := by
      intro j hj
      have hj' : j < (w0 :: rest).length := by simp [hrest]; omega
      have hmem : (w0 :: rest).getD j ([], []) ∈ (w0 :: rest) := by
        rw [List.getD_eq_getElem?_getD, List.getElem?_eq_getElem hj', Option.getD_some]
        exact List.getElem_mem hj'
      have := hwall _ hmem
      exact ⟨(isMat_sound t m this.1).1, (isVec_sound m this.2).1⟩
    refine ⟨fun j => toMat t m ((w0 :: rest).getD j ([], [])).1,
      fun j => toVec t m ((w0 :: rest).getD j ([], [])).2, ?_, ?_, ?_, ?_, ?_⟩
    · simp only; rw [← hrest, hend1, toMat_identity]
    · simp only; rw [← hrest, hend2, Nat.zero_add, hrest]
      have hKl : (seg K ((4 + rp) * t) t).length = t := by
        have : (4 + rp + 1) * t ≤ (8 + rp) * t := Nat.mul_le_mul_right t (by omega)
        rw [Nat.add_mul, Nat.one_mul] at this
        simp only [seg, List.length_take, List.length_drop, hK]
        omega
      rw [toVec_negVec t m _ hKl, toVec_seg]
    · have h0 := (hshape 0 (Nat.zero_le _)).1
      simp only [List.getD_cons_zero] at h0 ⊢
      have := congrArg (toMat t m) (eqMat_sound hA0)
      rwa [toMat_matMulT t m _ _ h0 hP (fun r hr => le_of_eq (hPr r hr))] at this
    · have h0 := (hshape 0 (Nat.zero_le _)).2
      simp only [List.getD_cons_zero] at h0 ⊢
      have := congrArg (toVec t m) (eqVec_sound hb0)
      rw [toVec_matVec t m _ _ hMref (segle _ _), toVec_seg, toVec_negVec t m _ h0] at this
      exact this
    · intro j hj
      have hs := hsteps j (hrest ▸ hj)
      rw [Nat.zero_add] at hs
      exact stepOk_spec hK hS hMref j hj _ _ (hshape j (by omega)).1 (hshape j (by omega)).2
        (hshape (j + 1) (by omega)).1 (hshape (j + 1) (by omega)).2 hs

end refine

/-! ## soundness of the checker -/

open I3.PoseidonCheck I3.Model.Poseidon in
/-- **Soundness of `checkAll`** — for ANY proposed witnesses `ws`: if the checker accepts the tables
    `tab` against the reference round constants `K` and MDS matrix `Mref`, then the optimised loop of
    `poseidon.HashWithStateEx` (`Model.Poseidon.permute`) computes, on every state of width `t`,
    exactly the textbook Hades permutation `Hades.permute` with 8 full and `rp` partial rounds.
    No primality or range hypothesis is needed (`m` arbitrary, S-box exponent `e` arbitrary). -/
theorem checkAll_sound (m t rp e : ℕ) (K : List ℕ) (Mref : List (List ℕ)) (tab : Tables)
    (ws : List (Mat × Vec)) (h : checkAll m t rp K Mref tab ws = true)
    (st : List ℕ) (hst : st.length = t) :
    permute m e tab t rp st = Hades.permute m e t 8 rp K Mref st := by
  have h' := h
  simp only [checkAll, forceWs_eq, Bool.and_eq_true] at h'
  obtain ⟨⟨⟨⟨⟨⟨⟨⟨⟨⟨⟨⟨⟨ht, -⟩, -⟩, -⟩, -⟩, -⟩, hK⟩, -⟩, -⟩, -⟩, -⟩, -⟩, -⟩, -⟩ := h'
  have ht : 0 < t := by simpa [Nat.blt_eq] using ht
  have : NeZero t := ⟨by omega⟩
  obtain ⟨hKl, hKm⟩ := isVec_sound m hK
  have hm : 0 < m := by
    cases hk : K with
    | nil =>
      rw [hk] at hKl
      have : 0 < (8 + rp) * t := Nat.mul_pos (by omega) ht
      simp at hKl; omega
    | cons x xs => exact lt_of_le_of_lt (Nat.zero_le x) (hKm x (by rw [hk]; simp))
  have : NeZero m := ⟨by omega⟩
  exact permute_eq_of_rel (rel_of_checkAll tab ws h) st hst





/-! ## the BN254 reference instance -/

theorem params_t (m nbits t rf rp : ℕ) : (Grain.params m nbits t rf rp).t = t := by
  simp only [Grain.params]

theorem params_rf (m nbits t rf rp : ℕ) : (Grain.params m nbits t rf rp).rf = rf := by
  simp only [Grain.params]

theorem params_rp (m nbits t rf rp : ℕ) : (Grain.params m nbits t rf rp).rp = rp := by
  simp only [Grain.params]

/-- `Hades.poseidonBN254` at the reference parameters of width `t`, with the schedule made explicit. -/
theorem poseidonBN254_eq (t rp : ℕ) (h : Grain.nRoundsP.getD (t - 2) 0 = rp) (st : List ℕ) :
    Hades.poseidonBN254 (Grain.bn254Params t) st =
      Hades.permute q 5 t 8 rp (Grain.bn254Params t).rc (Grain.mds q (Grain.bn254Params t)) st := by
  have h1 : (Grain.bn254Params t).t = t := params_t _ _ _ _ _
  have h2 : (Grain.bn254Params t).rf = 8 := params_rf _ _ _ _ _
  have h3 : (Grain.bn254Params t).rp = rp := by rw [← h]; exact params_rp _ _ _ _ _
  rw [Hades.poseidonBN254, h1, h2, h3]

/-- One width of C01: accepted tables ⇒ the Go permutation is the reference Poseidon permutation. -/
theorem width_of_check (t rp : ℕ) (h : Grain.nRoundsP.getD (t - 2) 0 = rp)
    (tab : Model.Poseidon.Tables) (ws : List (PoseidonCheck.Mat × PoseidonCheck.Vec))
    (hc : PoseidonCheck.checkAll q t rp (Grain.bn254Params t).rc (Grain.mds q (Grain.bn254Params t))
      tab ws = true) (st : List ℕ) (hst : st.length = t) :
    Model.Poseidon.permute q 5 tab t rp st = Hades.poseidonBN254 (Grain.bn254Params t) st := by
  rw [poseidonBN254_eq t rp h, checkAll_sound q t rp 5 _ _ tab ws hc st hst]

end I3.PoseidonRefine
