/-
  I3.Lemmas.PoseidonRefine — soundness of the Poseidon table checker (property C01).

  Main result `checkAll_sound`: if `I3.PoseidonCheck.checkAll m t rp K Mref tab ws = true` (for ANY
  proposed witnesses `ws`), then for every state of length `t`
      Model.Poseidon.permute m e tab t rp st = Hades.permute m e t 8 rp K Mref st,
  i.e. the optimised loop of /repo/poseidon/poseidon.go (sparse partial rounds, tables C/S/M/P) is the
  textbook Hades permutation with round constants `K` and MDS matrix `Mref`.  General in the modulus
  `m` (no primality, no division is used) and in the S-box exponent `e`.

  Structure:
    * abstract layer over a commutative ring: `sbox0`, `sboxF`, `sbox0_affine` (the lane-0 S-box
      commutes with `y ↦ A y + β` when `A = diag(1, Â)` and `β₀ = 0`), `partial_step`;
    * bridge: `toVec`/`toMat` send `List Nat` data to `Fin t → ZMod m` / `Matrix`; every executable
      operation of `I3.Model.Poseidon`, `I3.Hades` and `I3.PoseidonCheck` is shown to commute with them
      (`toVec_mix` — Go `mix` multiplies by the TRANSPOSE —, `toVec_ark`, `toVec_partialRound`, …);
    * `Rel`: the relation system (R1)–(R4) over `ZMod m` with witnesses `A_j` (matrices with row 0 and
      column 0 equal to e_0) and `b_j`; `permute_eq_of_rel` proves the refinement by the invariants
        u_i = s_i + K_i (i ≤ 3),   s_{4+j} = A_j·v_j + b_j (j ≤ rp),   x_i = s_{4+rp+i} + K_{4+rp+i} (i ≤ 3);
    * block matrices: `diagM X = diag(1, X)`, `sparseM`, `mul_diagM_eq` (block form of
      `M·diag(1,X) = diag(1,X')·Sp`), `row_chain`/`col_chain` (the rows/columns stored in the S table are
      `mrow·N̂^k` / solve `N̂^k·scol = mcol`);
    * `rel_of_checkAll`: the boolean checker implies `Rel` with `A_j := diag(1, N̂^(rp−j))` (never computed);
      `checkAll_sound`.
-/
import I3.Exec.PoseidonCheck
import I3.Exec.Hades
import Mathlib.Data.Matrix.Mul
import Mathlib.Data.ZMod.Basic
import Mathlib.Algebra.BigOperators.Fin
import Mathlib.LinearAlgebra.Matrix.NonsingularInverse
import Mathlib.Tactic.Ring
import Mathlib.Tactic.Abel

namespace I3.PoseidonRefine
open Matrix

/-! ## abstract layer -/
section abstract
variable {F : Type*} [CommRing F] {t : ℕ} [NeZero t]

/-- S-box on lane 0 only. -/
def sbox0 (e : ℕ) (v : Fin t → F) : Fin t → F := Function.update v 0 (v 0 ^ e)

/-- S-box on every lane. -/
def sboxF (e : ℕ) (v : Fin t → F) : Fin t → F := fun i => v i ^ e

theorem sbox0_eq (e : ℕ) (v : Fin t → F) : sbox0 e v = v + Pi.single 0 (v 0 ^ e - v 0) := by
  ext i
  by_cases h : i = 0
  · subst h; simp [sbox0]
  · simp [sbox0, Function.update_of_ne h, Pi.single_eq_of_ne h]

theorem sbox0_affine (A : Matrix (Fin t) (Fin t) F) (β y : Fin t → F) (e : ℕ)
    (hrow : ∀ k, A 0 k = if k = 0 then 1 else 0)
    (hcol : ∀ i, A i 0 = if i = 0 then 1 else 0)
    (hβ : β 0 = 0) :
    sbox0 e (A *ᵥ y + β) = A *ᵥ sbox0 e y + β := by
  have h0 : (A *ᵥ y + β) 0 = y 0 := by
    simp [Matrix.mulVec, dotProduct, hrow, hβ]
  have hc : ∀ c : F, A *ᵥ Pi.single 0 c = Pi.single 0 c := by
    intro c
    ext i
    by_cases h : i = 0
    · subst h; simp [hcol]
    · simp [hcol, h]
  rw [sbox0_eq, sbox0_eq, h0, Matrix.mulVec_add, hc]
  abel

theorem partial_step (M A A' Sp : Matrix (Fin t) (Fin t) F) (b b' K v : Fin t → F) (c : F) (e : ℕ)
    (hrow : ∀ k, A 0 k = if k = 0 then 1 else 0)
    (hcol : ∀ i, A i 0 = if i = 0 then 1 else 0)
    (hβ : (b + K) 0 = 0)
    (hA : M * A = A' * Sp)
    (hb : M *ᵥ (b + K) = c • ((A' * Sp) *ᵥ Pi.single 0 1) + b') :
    M *ᵥ sbox0 e (A *ᵥ v + b + K) = A' *ᵥ (Sp *ᵥ (sbox0 e v + Pi.single 0 c)) + b' := by
  have hs : (A' * Sp) *ᵥ Pi.single 0 c = c • ((A' * Sp) *ᵥ Pi.single 0 1) := by
    rw [← Matrix.mulVec_smul]
    congr 1
    ext i
    by_cases h : i = 0
    · subst h; simp
    · simp [Pi.single_eq_of_ne h]
  rw [add_assoc, sbox0_affine A (b + K) v e hrow hcol hβ, Matrix.mulVec_add, Matrix.mulVec_mulVec, hA,
    hb, Matrix.mulVec_mulVec, Matrix.mulVec_add, hs]
  abel

end abstract

/-! ## block matrices `diag(1, X)` and the sparse matrix; the chains of rows / columns of `S` -/
section blocks
variable {F : Type*} [CommRing F] {n : ℕ}

/-- `diag(1, X)`. -/
def diagM (X : Matrix (Fin n) (Fin n) F) : Matrix (Fin (n + 1)) (Fin (n + 1)) F :=
  fun i k => Fin.cases (Fin.cases 1 (fun _ => 0) k) (fun i' => Fin.cases 0 (fun k' => X i' k') k) i

/-- `[[s00, srow], [scol, I]]`. -/
def sparseM (s00 : F) (srow scol : Fin n → F) : Matrix (Fin (n + 1)) (Fin (n + 1)) F :=
  fun i k => Fin.cases (Fin.cases s00 srow k)
    (fun i' => Fin.cases (scol i') (fun k' => if i' = k' then 1 else 0) k) i

@[simp] theorem diagM_zero_zero (X : Matrix (Fin n) (Fin n) F) : diagM X 0 0 = 1 := rfl
@[simp] theorem diagM_zero_succ (X : Matrix (Fin n) (Fin n) F) (k : Fin n) : diagM X 0 k.succ = 0 := rfl
@[simp] theorem diagM_succ_zero (X : Matrix (Fin n) (Fin n) F) (i : Fin n) : diagM X i.succ 0 = 0 := rfl
@[simp] theorem diagM_succ_succ (X : Matrix (Fin n) (Fin n) F) (i k : Fin n) :
    diagM X i.succ k.succ = X i k := rfl

theorem diagM_row0 (X : Matrix (Fin n) (Fin n) F) (k : Fin (n + 1)) :
    diagM X 0 k = if k = 0 then 1 else 0 := by
  refine Fin.cases ?_ (fun k' => ?_) k
  · simp
  · simp [Fin.succ_ne_zero]

theorem diagM_col0 (X : Matrix (Fin n) (Fin n) F) (i : Fin (n + 1)) :
    diagM X i 0 = if i = 0 then 1 else 0 := by
  refine Fin.cases ?_ (fun i' => ?_) i
  · simp
  · simp [Fin.succ_ne_zero]

theorem diagM_one : diagM (1 : Matrix (Fin n) (Fin n) F) = 1 := by
  ext i k
  refine Fin.cases ?_ (fun i' => ?_) i <;> refine Fin.cases ?_ (fun k' => ?_) k
  · simp
  · simp [(Fin.succ_ne_zero k').symm]
  · simp [Fin.succ_ne_zero]
  · simp [Matrix.one_apply]

/-- The block form of `M · diag(1,X) = diag(1,X') · Sp`. -/
theorem mul_diagM_eq (M : Matrix (Fin (n + 1)) (Fin (n + 1)) F) (X X' : Matrix (Fin n) (Fin n) F)
    (s00 : F) (srow scol : Fin n → F)
    (h00 : M 0 0 = s00) (hrow : (fun k : Fin n => M 0 k.succ) ᵥ* X = srow)
    (hcol : X' *ᵥ scol = fun i : Fin n => M i.succ 0)
    (hsub : M.submatrix Fin.succ Fin.succ * X = X') :
    M * diagM X = diagM X' * sparseM s00 srow scol := by
  ext i k
  refine Fin.cases ?_ (fun i' => ?_) i <;> refine Fin.cases ?_ (fun k' => ?_) k
  · simp [Matrix.mul_apply, Fin.sum_univ_succ, sparseM, h00]
  · have := congrFun hrow k'
    simp only [Matrix.vecMul, dotProduct] at this
    simp [Matrix.mul_apply, Fin.sum_univ_succ, sparseM, this]
  · have := congrFun hcol i'
    simp only [Matrix.mulVec, dotProduct] at this
    simp [Matrix.mul_apply, Fin.sum_univ_succ, sparseM, this]
  · have := congrFun (congrFun hsub i') k'
    simp only [Matrix.mul_apply, Matrix.submatrix_apply] at this
    simp [Matrix.mul_apply, Fin.sum_univ_succ, sparseM, this]

variable (Mh N : Matrix (Fin n) (Fin n) F) (rp : ℕ)

theorem pow_step (hN : N * Mh = 1) (j : ℕ) (hj : j < rp) : Mh * N ^ (rp - j) = N ^ (rp - (j + 1)) := by
  have hMN : Mh * N = 1 := mul_eq_one_comm.1 hN
  have : rp - j = (rp - (j + 1)) + 1 := by omega
  rw [this, pow_succ', ← mul_assoc, hMN, one_mul]

theorem row_chain (hN : N * Mh = 1) (mrow : Fin n → F) (r : ℕ → Fin n → F) (hend : r rp = mrow)
    (hstep : ∀ j < rp, r j ᵥ* Mh = r (j + 1)) : ∀ d ≤ rp, r (rp - d) = mrow ᵥ* N ^ d := by
  have hMN : Mh * N = 1 := mul_eq_one_comm.1 hN
  intro d
  induction d with
  | zero => intro _; simp [hend]
  | succ d ih =>
    intro hd
    have h1 := hstep (rp - (d + 1)) (by omega)
    rw [show rp - (d + 1) + 1 = rp - d by omega, ih (by omega)] at h1
    have h2 : r (rp - (d + 1)) = (r (rp - (d + 1)) ᵥ* Mh) ᵥ* N := by
      rw [Matrix.vecMul_vecMul, hMN, Matrix.vecMul_one]
    rw [h2, h1, Matrix.vecMul_vecMul, pow_succ]

theorem col_chain (hN : N * Mh = 1) (mcol : Fin n → F) (c : ℕ → Fin n → F)
    (hend : 0 < rp → c (rp - 1) = mcol)
    (hstep : ∀ j, j + 1 < rp → Mh *ᵥ c (j + 1) = c j) :
    ∀ d < rp, N ^ d *ᵥ c (rp - 1 - d) = mcol := by
  intro d
  induction d with
  | zero => intro h; simpa using hend h
  | succ d ih =>
    intro hd
    have h1 := hstep (rp - 1 - (d + 1)) (by omega)
    rw [show rp - 1 - (d + 1) + 1 = rp - 1 - d by omega] at h1
    rw [← h1, Matrix.mulVec_mulVec, pow_succ, mul_assoc, hN, mul_one]
    exact ih (by omega)

end blocks

/-! ## bridge: lists of naturals to vectors / matrices over `ZMod m` -/
section bridge
open I3.PoseidonCheck

theorem powMod_eq (b e m : ℕ) : powMod b e m = b ^ e % m := by
  induction e using Nat.strong_induction_on with
  | _ e ih =>
    rw [powMod]
    split_ifs with h0 h1
    · subst h0; simp
    · rw [ih (e / 2) (by omega)]
      have he : e = e / 2 + e / 2 + 1 := by omega
      conv_rhs => rw [he, pow_succ, pow_add]
      simp [Nat.mul_mod]
    · rw [ih (e / 2) (by omega)]
      have he : e = e / 2 + e / 2 := by omega
      conv_rhs => rw [he, pow_add]
      simp [Nat.mul_mod]

variable (t m : ℕ)

def toVec (l : List ℕ) : Fin t → ZMod m := fun i => ((l.getD i 0 : ℕ) : ZMod m)

def toMat (A : List (List ℕ)) : Matrix (Fin t) (Fin t) (ZMod m) :=
  fun i j => (((A.getD i []).getD j 0 : ℕ) : ZMod m)

theorem cast_powMod (x e : ℕ) : ((powMod x e m : ℕ) : ZMod m) = (x : ZMod m) ^ e := by
  rw [powMod_eq, ZMod.natCast_mod, Nat.cast_pow]

/-! ### generic list facts -/

theorem getD_map_range (f : ℕ → ℕ) (n i : ℕ) (h : i < n) : ((List.range n).map f).getD i 0 = f i := by
  simp [List.getD_eq_getElem?_getD, h]

theorem getD_map_range' {α : Type} (f : ℕ → α) (d : α) (n i : ℕ) (h : i < n) :
    ((List.range n).map f).getD i d = f i := by
  simp [List.getD_eq_getElem?_getD, h]

theorem getD_map_lt (f : ℕ → ℕ) (l : List ℕ) (i : ℕ) (h : i < l.length) :
    (l.map f).getD i 0 = f (l.getD i 0) := by
  simp [List.getD_eq_getElem?_getD, h]

theorem getD_zipWith_lt (f : ℕ → ℕ → ℕ) (a b : List ℕ) (i : ℕ) (ha : i < a.length) (hb : i < b.length) :
    (List.zipWith f a b).getD i 0 = f (a.getD i 0) (b.getD i 0) := by
  simp [List.getD_eq_getElem?_getD, ha, hb]

theorem getD_col (A : List (List ℕ)) (i j : ℕ) :
    (A.map fun r => r.getD i 0).getD j 0 = (A.getD j []).getD i 0 := by
  simp only [List.getD_eq_getElem?_getD, List.getElem?_map]
  cases A[j]? <;> simp

theorem getD_drop (l : List ℕ) (k i : ℕ) : (l.drop k).getD i 0 = l.getD (k + i) 0 := by
  simp [List.getD_eq_getElem?_getD]

theorem getD_seg (l : List ℕ) (k n i : ℕ) (h : i < n) : (seg l k n).getD i 0 = l.getD (k + i) 0 := by
  simp [seg, List.getD_eq_getElem?_getD, h]

/-! ### dot products -/

theorem cast_dotRaw {R : Type*} [CommSemiring R] : ∀ (t : ℕ) (a b : List ℕ), b.length ≤ t →
    ((dotRaw a b : ℕ) : R) = ∑ i : Fin t, ((a.getD i 0 : ℕ) : R) * ((b.getD i 0 : ℕ) : R)
  | t, [], b, _ => by simp [dotRaw]
  | t, x :: xs, [], _ => by simp [dotRaw]
  | 0, x :: xs, y :: ys, h => by simp at h
  | t + 1, x :: xs, y :: ys, h => by
    rw [dotRaw, Fin.sum_univ_succ, Nat.cast_add, Nat.cast_mul,
      cast_dotRaw t xs ys (by simpa using h)]
    simp

theorem sum_zipWith_mul : ∀ (a b : List ℕ), (List.zipWith (· * ·) a b).sum = dotRaw a b
  | [], b => by simp [dotRaw]
  | x :: xs, [] => by simp [dotRaw]
  | x :: xs, y :: ys => by simp [dotRaw, sum_zipWith_mul xs ys]

theorem cast_foldl_addmod (l : List ℕ) : ∀ a : ℕ,
    ((l.foldl (fun a b => (a + b) % m) a : ℕ) : ZMod m) = (a : ZMod m) + ((l.sum : ℕ) : ZMod m) := by
  induction l with
  | nil => intro a; simp
  | cons x xs ih => intro a; rw [List.foldl_cons, ih, ZMod.natCast_mod]; simp [add_assoc]

theorem cast_dot (a b : List ℕ) (hb : b.length ≤ t) :
    ((dot m a b : ℕ) : ZMod m) = ∑ i : Fin t, toVec t m a i * toVec t m b i := by
  rw [dot, ZMod.natCast_mod, cast_dotRaw t a b hb]; rfl

theorem cast_hadesDot (a b : List ℕ) (hb : b.length ≤ t) :
    ((Hades.dot m a b : ℕ) : ZMod m) = ∑ i : Fin t, toVec t m a i * toVec t m b i := by
  rw [Hades.dot, cast_foldl_addmod, sum_zipWith_mul, cast_dotRaw t a b hb]; simp [toVec]


/-! ### `toVec` basics -/

theorem toVec_apply (l : List ℕ) (i : Fin t) : toVec t m l i = ((l.getD i 0 : ℕ) : ZMod m) := rfl

theorem toVec_seg (l : List ℕ) (k : ℕ) : toVec t m (seg l k t) = toVec t m (l.drop k) := by
  ext i; simp only [toVec_apply, getD_seg l k t i i.2, getD_drop]

theorem toVec_take (l : List ℕ) : toVec t m (l.take t) = toVec t m l := by
  have := toVec_seg t m l 0
  simpa [seg] using this

/-- canonical lists of the right length are determined by their image in `ZMod m`. -/
theorem toVec_inj {a b : List ℕ} (ha : a.length = t) (hb : b.length = t)
    (ha' : ∀ x ∈ a, x < m) (hb' : ∀ x ∈ b, x < m) (h : toVec t m a = toVec t m b) : a = b := by
  apply List.ext_getElem (by rw [ha, hb])
  intro i h1 h2
  have hi : i < t := ha ▸ h1
  have := congrFun h ⟨i, hi⟩
  simp only [toVec_apply, List.getD_eq_getElem?_getD, List.getElem?_eq_getElem h1,
    List.getElem?_eq_getElem h2, Option.getD_some] at this
  rw [ZMod.natCast_eq_natCast_iff', Nat.mod_eq_of_lt (ha' _ (List.getElem_mem h1)),
    Nat.mod_eq_of_lt (hb' _ (List.getElem_mem h2))] at this
  exact this

/-! ### the Go-side operations (`I3.Model.Poseidon`) -/

open I3.Model.Poseidon in
theorem toVec_mix (mat : List (List ℕ)) (st : List ℕ) (hmat : mat.length ≤ t) (hst : st.length = t) :
    toVec t m (mix m mat st) = (toMat t m mat)ᵀ *ᵥ toVec t m st := by
  ext i
  have hi : (i : ℕ) < st.length := hst ▸ i.2
  rw [toVec_apply, mix, getD_map_range _ _ _ hi, cast_foldl_addmod]
  have : List.zipWith (fun (row : List ℕ) (s : ℕ) => row.getD i 0 * s) mat st =
      List.zipWith (· * ·) (mat.map fun r => r.getD i 0) st := by
    rw [List.zipWith_map_left]
  rw [this, sum_zipWith_mul, cast_dotRaw t _ _ (le_of_eq hst)]
  simp only [Nat.cast_zero, zero_add, Matrix.mulVec, dotProduct, Matrix.transpose_apply, getD_col]
  rfl

open I3.Model.Poseidon in
theorem toVec_ark (st C : List ℕ) (it : ℕ) (hst : st.length = t) (hC : it + t ≤ C.length) :
    toVec t m (ark m st C it) = toVec t m st + toVec t m (C.drop it) := by
  ext i
  have h1 : (i : ℕ) < st.length := hst ▸ i.2
  have h2 : (i : ℕ) < (C.drop it).length := by rw [List.length_drop]; have := i.2; omega
  rw [toVec_apply, ark, getD_zipWith_lt _ _ _ _ h1 h2, ZMod.natCast_mod, Nat.cast_add]
  rfl

open I3.Model.Poseidon in
theorem toVec_sboxAll [NeZero t] (e : ℕ) (st : List ℕ) (hst : st.length = t) :
    toVec t m (sboxAll m e st) = sboxF e (toVec t m st) := by
  ext i
  have h1 : (i : ℕ) < st.length := hst ▸ i.2
  rw [toVec_apply, sboxAll, getD_map_lt _ _ _ h1, cast_powMod]
  rfl

/-! ### the reference operations (`I3.Hades`) -/

theorem toVec_hadesMatVec (mat : List (List ℕ)) (v : List ℕ) (hmat : mat.length = t) (hv : v.length = t) :
    toVec t m (Hades.matVec m mat v) = toMat t m mat *ᵥ toVec t m v := by
  ext i
  have hi : (i : ℕ) < mat.length := hmat ▸ i.2
  simp only [toVec_apply, Hades.matVec, List.getD_eq_getElem?_getD, List.getElem?_map,
    List.getElem?_eq_getElem hi, Option.map_some, Option.getD_some]
  rw [cast_hadesDot t m _ _ (le_of_eq hv)]
  simp only [Matrix.mulVec, dotProduct, toMat, toVec_apply, List.getD_eq_getElem?_getD,
    List.getElem?_eq_getElem hi, Option.getD_some]

theorem toVec_hadesAddVec (a b : List ℕ) (ha : a.length = t) (hb : t ≤ b.length) :
    toVec t m (Hades.addVec m a b) = toVec t m a + toVec t m b := by
  ext i
  have h1 : (i : ℕ) < a.length := ha ▸ i.2
  have h2 : (i : ℕ) < b.length := lt_of_lt_of_le i.2 hb
  rw [toVec_apply, Hades.addVec, getD_zipWith_lt _ _ _ _ h1 h2, ZMod.natCast_mod, Nat.cast_add]
  rfl

theorem toVec_sboxFull [NeZero t] (e : ℕ) (st : List ℕ) (hst : st.length = t) :
    toVec t m (Hades.sboxFull m e st) = sboxF e (toVec t m st) := by
  ext i
  have h1 : (i : ℕ) < st.length := hst ▸ i.2
  rw [toVec_apply, Hades.sboxFull, getD_map_lt _ _ _ h1, cast_powMod]
  rfl

theorem toVec_cons_update [NeZero t] (x y : ℕ) (xs : List ℕ) :
    toVec t m (y :: xs) = Function.update (toVec t m (x :: xs)) 0 (y : ZMod m) := by
  ext i
  by_cases h : i = 0
  · subst h; simp [toVec_apply]
  · rw [Function.update_of_ne h]
    obtain ⟨k, hk⟩ : ∃ k, (i : ℕ) = k + 1 := ⟨(i : ℕ) - 1, by
      have : (i : ℕ) ≠ 0 := fun h0 => h (Fin.ext (by simpa using h0)); omega⟩
    simp [toVec_apply, hk]

theorem toVec_sboxFirst [NeZero t] (e : ℕ) (st : List ℕ) (hst : st.length = t) :
    toVec t m (Hades.sboxFirst m e st) = sbox0 e (toVec t m st) := by
  cases st with
  | nil => exact absurd hst.symm (NeZero.ne t)
  | cons x xs =>
    rw [Hades.sboxFirst, toVec_cons_update t m x, sbox0]
    congr 1
    simp [toVec_apply, cast_powMod]


/-! ### the checker's operations (`I3.PoseidonCheck`) -/

@[simp] theorem forceNat_eq {α : Type} (x : ℕ) (k : ℕ → α) : forceNat x k = k x := by
  cases x <;> rfl

@[simp] theorem forceVec_eq {α : Type} : ∀ (l : List ℕ) (k : List ℕ → α), forceVec l k = k l
  | [], k => rfl
  | x :: xs, k => by simp [forceVec, forceVec_eq xs]

@[simp] theorem forceMat_eq {α : Type} : ∀ (l : List (List ℕ)) (k : List (List ℕ) → α), forceMat l k = k l
  | [], k => rfl
  | x :: xs, k => by simp [forceMat, forceMat_eq xs]

@[simp] theorem forceHead_eq {α : Type} (l : List ℕ) (k : List ℕ → α) : forceHead l k = k l := by
  cases l <;> rfl

theorem eqVec_sound : ∀ {a b : List ℕ}, eqVec a b = true → a = b
  | [], [], _ => rfl
  | [], _ :: _, h => by simp [eqVec] at h
  | _ :: _, [], h => by simp [eqVec] at h
  | x :: xs, y :: ys, h => by
    simp only [eqVec, Bool.and_eq_true] at h
    rw [Nat.eq_of_beq_eq_true h.1, eqVec_sound h.2]

theorem eqMat_sound : ∀ {a b : List (List ℕ)}, eqMat a b = true → a = b
  | [], [], _ => rfl
  | [], _ :: _, h => by simp [eqMat] at h
  | _ :: _, [], h => by simp [eqMat] at h
  | x :: xs, y :: ys, h => by
    simp only [eqMat, Bool.and_eq_true] at h
    rw [eqVec_sound h.1, eqMat_sound h.2]

theorem isVec_sound {n : ℕ} {v : List ℕ} (h : isVec m n v = true) : v.length = n ∧ ∀ x ∈ v, x < m := by
  simp only [isVec, Bool.and_eq_true, List.all_eq_true, Nat.blt_eq] at h
  exact ⟨Nat.eq_of_beq_eq_true h.1, h.2⟩

theorem isMat_sound {A : List (List ℕ)} (h : isMat m t A = true) :
    A.length = t ∧ ∀ r ∈ A, r.length = t := by
  simp only [isMat, Bool.and_eq_true, List.all_eq_true] at h
  exact ⟨Nat.eq_of_beq_eq_true h.1, fun r hr => (isVec_sound m (h.2 r hr)).1⟩

theorem toVec_matVec (A : List (List ℕ)) (v : List ℕ) (hA : A.length = t) (hv : v.length ≤ t) :
    toVec t m (matVec m A v) = toMat t m A *ᵥ toVec t m v := by
  ext i
  have hi : (i : ℕ) < A.length := hA ▸ i.2
  simp only [toVec_apply, matVec, List.getD_eq_getElem?_getD, List.getElem?_map,
    List.getElem?_eq_getElem hi, Option.map_some, Option.getD_some]
  rw [cast_dot t m _ _ hv]
  simp only [Matrix.mulVec, dotProduct, toMat, toVec_apply, List.getD_eq_getElem?_getD,
    List.getElem?_eq_getElem hi, Option.getD_some]

theorem toMat_matMulT (A BT : List (List ℕ)) (hA : A.length = t) (hB : BT.length = t)
    (hB' : ∀ r ∈ BT, r.length ≤ t) :
    toMat t m (matMulT m A BT) = toMat t m A * (toMat t m BT)ᵀ := by
  ext i j
  have hi : (i : ℕ) < A.length := hA ▸ i.2
  have hj : (j : ℕ) < BT.length := hB ▸ j.2
  simp only [toMat, matMulT, List.getD_eq_getElem?_getD, List.getElem?_map,
    List.getElem?_eq_getElem hi, List.getElem?_eq_getElem hj, Option.map_some, Option.getD_some]
  rw [cast_dot t m _ _ (hB' _ (List.getElem_mem hj))]
  simp only [Matrix.mul_apply, Matrix.transpose_apply, toMat, toVec_apply, List.getD_eq_getElem?_getD,
    List.getElem?_eq_getElem hi, List.getElem?_eq_getElem hj, Option.getD_some]

theorem transpose_length (A : List (List ℕ)) : (PoseidonCheck.transpose t A).length = t := by
  simp [PoseidonCheck.transpose]

theorem transpose_rows (A : List (List ℕ)) :
    ∀ r ∈ PoseidonCheck.transpose t A, r.length = A.length := by
  intro r hr
  simp only [PoseidonCheck.transpose, List.mem_map] at hr
  obtain ⟨i, -, rfl⟩ := hr
  simp

theorem toMat_transpose (A : List (List ℕ)) :
    toMat t m (PoseidonCheck.transpose t A) = (toMat t m A)ᵀ := by
  ext i j
  simp only [toMat, PoseidonCheck.transpose, Matrix.transpose_apply]
  rw [getD_map_range' _ _ _ _ i.2, getD_col]

theorem toMat_matMul (A B : List (List ℕ)) (hA : A.length = t) (hB : B.length = t) :
    toMat t m (matMul m t A B) = toMat t m A * toMat t m B := by
  rw [matMul, forceMat_eq, toMat_matMulT t m A _ hA (transpose_length t B)
    (fun r hr => by rw [transpose_rows t B r hr, hB]), toMat_transpose, Matrix.transpose_transpose]

theorem unitVec_getD (i k : ℕ) (hk : k < t) : (unitVec t i).getD k 0 = if k = i then 1 else 0 := by
  rw [unitVec, getD_map_range _ _ _ hk]

theorem toVec_unitVec [NeZero t] : toVec t m (unitVec t 0) = Pi.single 0 1 := by
  ext k
  rw [toVec_apply, unitVec_getD t 0 k k.2]
  by_cases h : k = 0
  · subst h; simp
  · have : (k : ℕ) ≠ 0 := fun h0 => h (Fin.ext (by simpa using h0))
    simp [this, Pi.single_eq_of_ne h]

theorem toMat_identity : toMat t m (identity t) = 1 := by
  ext i j
  simp only [toMat, identity]
  rw [getD_map_range' _ _ _ _ i.2, unitVec_getD t _ _ j.2, Matrix.one_apply]
  by_cases h : i = j
  · subst h; simp
  · have : (j : ℕ) ≠ (i : ℕ) := fun h0 => h (Fin.ext h0.symm)
    simp [h, this]

theorem toVec_addVec (a b : List ℕ) (ha : a.length = t) (hb : t ≤ b.length) :
    toVec t m (addVec m a b) = toVec t m a + toVec t m b := by
  ext i
  have h1 : (i : ℕ) < a.length := ha ▸ i.2
  have h2 : (i : ℕ) < b.length := lt_of_lt_of_le i.2 hb
  rw [toVec_apply, addVec, getD_zipWith_lt _ _ _ _ h1 h2, ZMod.natCast_mod, Nat.cast_add]
  rfl

theorem cast_neg_mod [NeZero m] (x : ℕ) : (((m - x % m) % m : ℕ) : ZMod m) = -(x : ZMod m) := by
  have hm : 0 < m := Nat.pos_of_ne_zero (NeZero.ne m)
  have hx : x % m ≤ m := (Nat.mod_lt x hm).le
  rw [ZMod.natCast_mod, Nat.cast_sub hx, ZMod.natCast_self, ZMod.natCast_mod, zero_sub]

theorem toVec_negVec [NeZero m] (a : List ℕ) (ha : a.length = t) :
    toVec t m (negVec m a) = -toVec t m a := by
  ext i
  have h1 : (i : ℕ) < a.length := ha ▸ i.2
  rw [toVec_apply, negVec, getD_map_lt _ _ _ h1, cast_neg_mod]
  rfl

theorem toVec_scaleVec (c : ℕ) (a : List ℕ) (ha : a.length = t) :
    toVec t m (scaleVec m c a) = (c : ZMod m) • toVec t m a := by
  ext i
  have h1 : (i : ℕ) < a.length := ha ▸ i.2
  rw [toVec_apply, scaleVec, getD_map_lt _ _ _ h1, ZMod.natCast_mod, Nat.cast_mul]
  rfl

theorem matVec_length (A : List (List ℕ)) (v : List ℕ) : (matVec m A v).length = A.length := by
  simp [matVec]

theorem matMul_length (A B : List (List ℕ)) : (matMul m t A B).length = A.length := by
  simp [matMul, matMulT]


/-! ### the sparse partial round -/

theorem sbox0_add_single {F : Type*} [CommRing F] [NeZero t] (e : ℕ) (v : Fin t → F) (c : F) :
    sbox0 e v + Pi.single 0 c = Function.update v 0 (v 0 ^ e + c) := by
  ext i
  by_cases h : i = 0
  · subst h; simp [sbox0]
  · simp [sbox0, Function.update_of_ne h, Pi.single_eq_of_ne h]

theorem sparse_row0 (S : List ℕ) (j : ℕ) : (sparse t S j).getD 0 [] = seg S ((t * 2 - 1) * j) t := by
  simp [sparse]

theorem sparse_rowSucc (S : List ℕ) (j k : ℕ) (hk : k < t - 1)
    (hS : (t * 2 - 1) * j + t + (t - 1) ≤ S.length) :
    (sparse t S j).getD (k + 1) [] = S.getD ((t * 2 - 1) * j + t + k) 0 :: unitVec (t - 1) k := by
  have h1 : k < (seg S ((t * 2 - 1) * j + t) (t - 1)).length := by
    simp only [seg, List.length_take, List.length_drop]; omega
  have h2 : k < (identity (t - 1)).length := by simp [identity, hk]
  have h3 : (seg S ((t * 2 - 1) * j + t) (t - 1))[k]'h1 = S.getD ((t * 2 - 1) * j + t + k) 0 := by
    have := getD_seg S ((t * 2 - 1) * j + t) (t - 1) k hk
    rw [List.getD_eq_getElem?_getD, List.getElem?_eq_getElem h1] at this
    simpa using this
  have h4 : (identity (t - 1))[k]'h2 = unitVec (t - 1) k := by simp [identity]
  simp only [sparse, List.getD_eq_getElem?_getD, List.getElem?_cons_succ, List.getElem?_zipWith,
    List.getElem?_eq_getElem h1, List.getElem?_eq_getElem h2, Option.getD_some, h3, h4]

open I3.Model.Poseidon in
theorem toVec_partialRound [NeZero t] (e : ℕ) (C S st : List ℕ) (j : ℕ) (hst : st.length = t)
    (hS : (t * 2 - 1) * j + t + (t - 1) ≤ S.length) :
    toVec t m (partialRound m e t C S st j) =
      toMat t m (sparse t S j) *ᵥ
        (sbox0 e (toVec t m st) + Pi.single 0 ((C.getD ((4 + 1) * t + j) 0 : ℕ) : ZMod m)) := by
  obtain ⟨t', rfl⟩ : ∃ t', t = t' + 1 := ⟨t - 1, by have := NeZero.pos t; omega⟩
  cases st with
  | nil => simp at hst
  | cons s0 rest =>
  have hrest : rest.length = t' := by simpa using hst
  rw [sbox0_add_single]
  set s0' := (powMod s0 e m + C.getD ((4 + 1) * (t' + 1) + j) 0) % m with hs0'
  have hw : Function.update (toVec (t' + 1) m (s0 :: rest)) 0
      (toVec (t' + 1) m (s0 :: rest) 0 ^ e + ((C.getD ((4 + 1) * (t' + 1) + j) 0 : ℕ) : ZMod m)) =
      toVec (t' + 1) m (s0' :: rest) := by
    rw [toVec_cons_update (t' + 1) m s0 s0' rest]
    congr 1
    simp [toVec_apply, hs0', cast_powMod]
  rw [hw]
  simp only [partialRound]
  rw [← hs0']
  ext i
  refine Fin.cases ?_ (fun k => ?_) i
  · -- lane 0
    simp only [toVec_apply, Fin.val_zero, List.getD_cons_zero]
    rw [cast_foldl_addmod, sum_zipWith_mul,
      cast_dotRaw (t' + 1) _ (s0' :: rest) (by simp [hrest])]
    simp only [Nat.cast_zero, zero_add, Matrix.mulVec, dotProduct, toMat, Fin.val_zero, sparse_row0,
      toVec_apply]
    refine Finset.sum_congr rfl fun c _ => ?_
    rw [getD_seg _ _ _ _ c.2, getD_drop]
  · -- lane k+1
    have hk : (k : ℕ) < t' := k.2
    have h1 : (k : ℕ) < rest.length := hrest ▸ hk
    have h2 : (k : ℕ) < (S.drop (((t' + 1) * 2 - 1) * j + (t' + 1))).length := by
      rw [List.length_drop]; simp only [Nat.add_sub_cancel] at hS; omega
    simp only [toVec_apply, Fin.val_succ, List.getD_cons_succ]
    rw [getD_zipWith_lt _ _ _ _ h1 h2, ZMod.natCast_mod]
    simp only [Matrix.mulVec, dotProduct, toMat, Fin.val_succ]
    rw [sparse_rowSucc (t' + 1) S j k (by simp) hS, Fin.sum_univ_succ]
    simp only [Fin.val_zero, List.getD_cons_zero, Fin.val_succ, List.getD_cons_succ, toVec_apply,
      Nat.add_sub_cancel]
    have : ∀ c : Fin t', (((unitVec t' k).getD c 0 : ℕ) : ZMod m) * ((rest.getD c 0 : ℕ) : ZMod m) =
        if c = k then ((rest.getD c 0 : ℕ) : ZMod m) else 0 := by
      intro c
      rw [unitVec_getD t' k c c.2]
      by_cases h : c = k
      · subst h; simp
      · have : (c : ℕ) ≠ (k : ℕ) := fun h0 => h (Fin.ext h0)
        simp [h, this]
    rw [Finset.sum_congr rfl fun c _ => this c, Finset.sum_ite_eq' Finset.univ k]
    simp only [Finset.mem_univ, if_true, getD_drop, Nat.cast_add, Nat.cast_mul]
    ring

end bridge




/-! ## the refinement -/
section refine
open I3.PoseidonCheck I3.Model.Poseidon
set_option linter.unusedSectionVars false

variable (m t rp e : ℕ) [NeZero t] [NeZero m]
variable (K C S : List ℕ) (Mref Mgo Pgo : List (List ℕ))

/-- The relation system (R1)–(R4) in terms of vectors and matrices over `ZMod m`. -/
structure Rel : Prop where
  hK : K.length = (8 + rp) * t
  hC : C.length = 8 * t + rp
  hS : S.length = (t * 2 - 1) * rp
  hMref : Mref.length = t
  hMgo : Mgo.length = t
  hPgo : Pgo.length = t
  r1 : (toMat t m Mgo)ᵀ = toMat t m Mref
  r2a : toVec t m C = toVec t m K
  r2 : ∀ i < 3, toMat t m Mref *ᵥ toVec t m (C.drop ((i + 1) * t)) = toVec t m (K.drop ((i + 1) * t))
  r4 : ∀ i < 3, toMat t m Mref *ᵥ toVec t m (C.drop ((4 + 1) * t + rp + i * t)) =
        toVec t m (K.drop ((4 + rp + (i + 1)) * t))
  r3 : ∃ (A : ℕ → Matrix (Fin t) (Fin t) (ZMod m)) (b : ℕ → Fin t → ZMod m),
    A rp = 1 ∧ b rp = -toVec t m (K.drop ((4 + rp) * t)) ∧
    A 0 * (toMat t m Pgo)ᵀ = toMat t m Mref ∧
    toMat t m Mref *ᵥ toVec t m (C.drop (4 * t)) = -b 0 ∧
    ∀ j < rp,
      (∀ k, A j 0 k = if k = 0 then 1 else 0) ∧ (∀ i, A j i 0 = if i = 0 then 1 else 0) ∧
      (b j + toVec t m (K.drop ((4 + j) * t))) 0 = 0 ∧
      toMat t m Mref * A j = A (j + 1) * toMat t m (sparse t S j) ∧
      toMat t m Mref *ᵥ (b j + toVec t m (K.drop ((4 + j) * t))) =
        ((C.getD ((4 + 1) * t + j) 0 : ℕ) : ZMod m) •
          ((A (j + 1) * toMat t m (sparse t S j)) *ᵥ Pi.single 0 1) + b (j + 1)

/-! ### reference rounds -/

theorem hadesMatVec_length (mat : List (List ℕ)) (v : List ℕ) :
    (Hades.matVec m mat v).length = mat.length := by simp [Hades.matVec]

theorem round_length (hMref : Mref.length = t) (s : List ℕ) (r : ℕ) :
    (Hades.round m e t 8 rp K Mref s r).length = t := by
  simp only [Hades.round, hadesMatVec_length, hMref]

theorem seg_K_length (hK : K.length = (8 + rp) * t) (r : ℕ) (hr : r < 8 + rp) :
    ((K.drop (r * t)).take t).length = t := by
  have : (r + 1) * t ≤ (8 + rp) * t := Nat.mul_le_mul_right t hr
  rw [List.length_take, List.length_drop, hK]
  rw [Nat.add_mul, Nat.one_mul] at this
  omega

theorem toVec_addK (hK : K.length = (8 + rp) * t) (s : List ℕ) (hs : s.length = t) (r : ℕ)
    (hr : r < 8 + rp) :
    toVec t m (Hades.addVec m s ((K.drop (r * t)).take t)) = toVec t m s + toVec t m (K.drop (r * t)) := by
  rw [toVec_hadesAddVec t m _ _ hs (le_of_eq (seg_K_length t rp K hK r hr).symm), toVec_take]

theorem addK_length (hK : K.length = (8 + rp) * t) (s : List ℕ) (hs : s.length = t) (r : ℕ)
    (hr : r < 8 + rp) : (Hades.addVec m s ((K.drop (r * t)).take t)).length = t := by
  rw [Hades.addVec, List.length_zipWith, hs, seg_K_length t rp K hK r hr, Nat.min_self]

theorem toVec_round_full (hK : K.length = (8 + rp) * t) (hMref : Mref.length = t) (s : List ℕ)
    (hs : s.length = t) (r : ℕ) (hr : r < 8 + rp) (hfull : r < 4 ∨ r ≥ 4 + rp) :
    toVec t m (Hades.round m e t 8 rp K Mref s r) =
      toMat t m Mref *ᵥ sboxF e (toVec t m s + toVec t m (K.drop (r * t))) := by
  have hl := addK_length m t rp K hK s hs r hr
  simp only [Hades.round, Nat.reduceDiv, hfull, if_true]
  rw [toVec_hadesMatVec t m _ _ hMref (by simp [Hades.sboxFull, hl]), toVec_sboxFull t m e _ hl,
    toVec_addK m t rp K hK s hs r hr]

theorem toVec_round_partial (hK : K.length = (8 + rp) * t) (hMref : Mref.length = t) (s : List ℕ)
    (hs : s.length = t) (r : ℕ) (hr : r < 8 + rp) (hpart : ¬ (r < 4 ∨ r ≥ 4 + rp)) :
    toVec t m (Hades.round m e t 8 rp K Mref s r) =
      toMat t m Mref *ᵥ sbox0 e (toVec t m s + toVec t m (K.drop (r * t))) := by
  have hl := addK_length m t rp K hK s hs r hr
  have hl' : (Hades.sboxFirst m e (Hades.addVec m s ((K.drop (r * t)).take t))).length = t := by
    cases h : Hades.addVec m s ((K.drop (r * t)).take t) with
    | nil => rw [h] at hl; exact absurd hl.symm (NeZero.ne t)
    | cons x xs => rw [h] at hl; simpa [Hades.sboxFirst] using hl
  simp only [Hades.round, Nat.reduceDiv, hpart, if_false]
  rw [toVec_hadesMatVec t m _ _ hMref hl', toVec_sboxFirst t m e _ hl,
    toVec_addK m t rp K hK s hs r hr]

/-- reference state after `n` rounds. -/
def ref (st : List ℕ) (n : ℕ) : List ℕ := (List.range n).foldl (Hades.round m e t 8 rp K Mref) st

theorem ref_succ (st : List ℕ) (n : ℕ) :
    ref m t rp e K Mref st (n + 1) = Hades.round m e t 8 rp K Mref (ref m t rp e K Mref st n) n := by
  simp [ref, List.range_succ]

theorem ref_length (hMref : Mref.length = t) (st : List ℕ) (hst : st.length = t) :
    ∀ n, (ref m t rp e K Mref st n).length = t
  | 0 => by simpa [ref] using hst
  | n + 1 => by rw [ref_succ]; exact round_length m t rp e K Mref hMref _ _


/-! ### the Go loop, phase by phase -/

/-- state after the first `ark` and `i ≤ 3` full rounds of the Go loop. -/
def g1 (st : List ℕ) (i : ℕ) : List ℕ :=
  (List.range i).foldl (fun st i => mix m Mgo (ark m (sboxAll m e st) C ((i + 1) * t))) (ark m st C 0)

/-- state after the round that multiplies by the pre-sparse matrix `P`. -/
def v0 (st : List ℕ) : List ℕ := mix m Pgo (ark m (sboxAll m e (g1 m t e C Mgo st 3)) C (4 * t))

/-- state after `j` sparse partial rounds. -/
def pv (st : List ℕ) (j : ℕ) : List ℕ :=
  (List.range j).foldl (partialRound m e t C S) (v0 m t e C Mgo Pgo st)

/-- state after the partial rounds and `i ≤ 3` more full rounds. -/
def x4 (st : List ℕ) (i : ℕ) : List ℕ :=
  (List.range i).foldl (fun st i => mix m Mgo (ark m (sboxAll m e st) C ((4 + 1) * t + rp + i * t)))
    (pv m t e C S Mgo Pgo st rp)

theorem permute_unfold (st : List ℕ) :
    permute m e ⟨C, S, Mgo, Pgo⟩ t rp st = mix m Mgo (sboxAll m e (x4 m t rp e C S Mgo Pgo st 3)) := rfl

theorem g1_succ (st : List ℕ) (i : ℕ) : g1 m t e C Mgo st (i + 1) =
    mix m Mgo (ark m (sboxAll m e (g1 m t e C Mgo st i)) C ((i + 1) * t)) := by
  simp [g1, List.range_succ]

theorem pv_succ (st : List ℕ) (j : ℕ) : pv m t e C S Mgo Pgo st (j + 1) =
    partialRound m e t C S (pv m t e C S Mgo Pgo st j) j := by
  simp [pv, List.range_succ]

theorem x4_succ (st : List ℕ) (i : ℕ) : x4 m t rp e C S Mgo Pgo st (i + 1) =
    mix m Mgo (ark m (sboxAll m e (x4 m t rp e C S Mgo Pgo st i)) C ((4 + 1) * t + rp + i * t)) := by
  simp [x4, List.range_succ]

theorem fullRound_length (g : List ℕ) (it : ℕ) (hg : g.length = t) (h : it + t ≤ C.length) :
    (mix m Mgo (ark m (sboxAll m e g) C it)).length = t := by
  simp only [mix, ark, sboxAll, List.length_map, List.length_range, List.length_zipWith,
    List.length_drop, hg]
  omega

variable {m t rp e K C S Mref Mgo Pgo}

/-- One full round of the Go loop against one full reference round. -/
theorem full_step (h : Rel m t rp K C S Mref Mgo Pgo) (g s : List ℕ) (r it : ℕ)
    (hg : g.length = t) (hs : s.length = t)
    (hinv : toVec t m g = toVec t m s + toVec t m (K.drop (r * t)))
    (hr : r < 8 + rp) (hfull : r < 4 ∨ r ≥ 4 + rp) (hit : it + t ≤ C.length)
    (hrel : toMat t m Mref *ᵥ toVec t m (C.drop it) = toVec t m (K.drop ((r + 1) * t))) :
    toVec t m (mix m Mgo (ark m (sboxAll m e g) C it)) =
      toVec t m (Hades.round m e t 8 rp K Mref s r) + toVec t m (K.drop ((r + 1) * t)) := by
  have hl : (sboxAll m e g).length = t := by simp [sboxAll, hg]
  have hl2 : (ark m (sboxAll m e g) C it).length = t := by
    simp only [ark, List.length_zipWith, List.length_drop, hl]; omega
  rw [toVec_mix t m _ _ (le_of_eq h.hMgo) hl2, toVec_ark t m _ _ _ hl hit, toVec_sboxAll t m e g hg,
    h.r1, Matrix.mulVec_add, hrel, hinv, toVec_round_full m t rp e K Mref h.hK h.hMref s hs r hr hfull]

theorem phase1 (h : Rel m t rp K C S Mref Mgo Pgo) (st : List ℕ) (hst : st.length = t) :
    ∀ i ≤ 3, (g1 m t e C Mgo st i).length = t ∧
      toVec t m (g1 m t e C Mgo st i) =
        toVec t m (ref m t rp e K Mref st i) + toVec t m (K.drop (i * t)) := by
  intro i
  induction i with
  | zero =>
    intro _
    have hC : 0 + t ≤ C.length := by rw [h.hC]; omega
    refine ⟨by simp only [g1, List.range_zero, List.foldl_nil, ark, List.length_zipWith,
      List.length_drop, hst]; omega, ?_⟩
    simp only [g1, List.range_zero, List.foldl_nil, ref, Nat.zero_mul, List.drop_zero]
    rw [toVec_ark t m _ _ _ hst hC, List.drop_zero, h.r2a]
  | succ i ih =>
    intro hi
    obtain ⟨hl, hv⟩ := ih (by omega)
    have hit : (i + 1) * t + t ≤ C.length := by
      rw [h.hC]
      have : (i + 1) * t ≤ 3 * t := Nat.mul_le_mul_right t (by omega)
      omega
    rw [g1_succ, ref_succ]
    exact ⟨fullRound_length m t e C Mgo _ _ hl hit,
      full_step h _ _ i _ hl (ref_length m t rp e K Mref h.hMref st hst i) hv (by omega)
        (Or.inl (by omega)) hit (h.r2 i (by omega))⟩


theorem phase2 (h : Rel m t rp K C S Mref Mgo Pgo) (st : List ℕ) (hst : st.length = t)
    (A0 : Matrix (Fin t) (Fin t) (ZMod m)) (b0 : Fin t → ZMod m)
    (hA0 : A0 * (toMat t m Pgo)ᵀ = toMat t m Mref)
    (hb0 : toMat t m Mref *ᵥ toVec t m (C.drop (4 * t)) = -b0) :
    (v0 m t e C Mgo Pgo st).length = t ∧
      toVec t m (ref m t rp e K Mref st 4) = A0 *ᵥ toVec t m (v0 m t e C Mgo Pgo st) + b0 := by
  obtain ⟨hl, hv⟩ := phase1 (e := e) h st hst 3 (le_refl 3)
  have hit : 4 * t + t ≤ C.length := by rw [h.hC]; omega
  have hl1 : (sboxAll m e (g1 m t e C Mgo st 3)).length = t := by simp [sboxAll, hl]
  have hl2 : (ark m (sboxAll m e (g1 m t e C Mgo st 3)) C (4 * t)).length = t := by
    simp only [ark, List.length_zipWith, List.length_drop, hl1]; omega
  refine ⟨fullRound_length m t e C Pgo _ _ hl hit, ?_⟩
  rw [ref_succ, toVec_round_full m t rp e K Mref h.hK h.hMref _
    (ref_length m t rp e K Mref h.hMref st hst 3) 3 (by omega) (Or.inl (by omega)), ← hv, v0,
    toVec_mix t m _ _ (le_of_eq h.hPgo) hl2, toVec_ark t m _ _ _ hl1 hit, toVec_sboxAll t m e _ hl,
    Matrix.mulVec_mulVec, hA0, Matrix.mulVec_add, hb0]
  abel

theorem partialRound_length' (C S st : List ℕ) (j : ℕ) (hst : st.length = t)
    (hS : (t * 2 - 1) * j + t + (t - 1) ≤ S.length) :
    (partialRound m e t C S st j).length = t := by
  cases st with
  | nil => simpa [partialRound] using hst
  | cons s0 rest =>
    simp only [partialRound, List.length_cons, List.length_zipWith, List.length_drop]
    simp only [List.length_cons] at hst
    omega

theorem phase3 (h : Rel m t rp K C S Mref Mgo Pgo) (st : List ℕ) (hst : st.length = t)
    (A : ℕ → Matrix (Fin t) (Fin t) (ZMod m)) (b : ℕ → Fin t → ZMod m)
    (hA0 : A 0 * (toMat t m Pgo)ᵀ = toMat t m Mref)
    (hb0 : toMat t m Mref *ᵥ toVec t m (C.drop (4 * t)) = -b 0)
    (hstep : ∀ j < rp,
      (∀ k, A j 0 k = if k = 0 then 1 else 0) ∧ (∀ i, A j i 0 = if i = 0 then 1 else 0) ∧
      (b j + toVec t m (K.drop ((4 + j) * t))) 0 = 0 ∧
      toMat t m Mref * A j = A (j + 1) * toMat t m (sparse t S j) ∧
      toMat t m Mref *ᵥ (b j + toVec t m (K.drop ((4 + j) * t))) =
        ((C.getD ((4 + 1) * t + j) 0 : ℕ) : ZMod m) •
          ((A (j + 1) * toMat t m (sparse t S j)) *ᵥ Pi.single 0 1) + b (j + 1)) :
    ∀ j ≤ rp, (pv m t e C S Mgo Pgo st j).length = t ∧
      toVec t m (ref m t rp e K Mref st (4 + j)) =
        A j *ᵥ toVec t m (pv m t e C S Mgo Pgo st j) + b j := by
  intro j
  induction j with
  | zero =>
    intro _
    simpa [pv] using phase2 (e := e) h st hst (A 0) (b 0) hA0 hb0
  | succ j ih =>
    intro hj
    obtain ⟨hl, hv⟩ := ih (by omega)
    obtain ⟨hrow, hcol, hβ, hA, hb⟩ := hstep j (by omega)
    have hS : (t * 2 - 1) * j + t + (t - 1) ≤ S.length := by
      rw [h.hS]
      have h1 : (t * 2 - 1) * (j + 1) ≤ (t * 2 - 1) * rp := Nat.mul_le_mul_left _ hj
      rw [Nat.mul_succ] at h1
      have := NeZero.pos t
      omega
    rw [pv_succ]
    refine ⟨partialRound_length' _ _ _ _ hl hS, ?_⟩
    rw [show 4 + (j + 1) = (4 + j) + 1 from rfl, ref_succ,
      toVec_round_partial m t rp e K Mref h.hK h.hMref _
        (ref_length m t rp e K Mref h.hMref st hst (4 + j)) (4 + j) (by omega) (by omega), hv,
      partial_step _ _ _ _ _ _ _ _ _ e hrow hcol hβ hA hb, toVec_partialRound t m e C S _ j hl hS]

theorem phase4 (h : Rel m t rp K C S Mref Mgo Pgo) (st : List ℕ) (hst : st.length = t) :
    ∀ i ≤ 3, (x4 m t rp e C S Mgo Pgo st i).length = t ∧
      toVec t m (x4 m t rp e C S Mgo Pgo st i) =
        toVec t m (ref m t rp e K Mref st (4 + rp + i)) + toVec t m (K.drop ((4 + rp + i) * t)) := by
  obtain ⟨A, b, hArp, hbrp, hA0, hb0, hstep⟩ := h.r3
  obtain ⟨hl0, hv0⟩ := phase3 (e := e) h st hst A b hA0 hb0 hstep rp (le_refl rp)
  intro i
  induction i with
  | zero =>
    intro _
    refine ⟨by simpa [x4] using hl0, ?_⟩
    simp only [x4, List.range_zero, List.foldl_nil, Nat.add_zero]
    rw [hv0, hArp, hbrp, Matrix.one_mulVec]
    abel
  | succ i ih =>
    intro hi
    obtain ⟨hl, hv⟩ := ih (by omega)
    have hit : (4 + 1) * t + rp + i * t + t ≤ C.length := by
      rw [h.hC]
      have : i * t ≤ 2 * t := Nat.mul_le_mul_right t (by omega)
      omega
    rw [x4_succ, show 4 + rp + (i + 1) = (4 + rp + i) + 1 from rfl, ref_succ]
    exact ⟨fullRound_length m t e C Mgo _ _ hl hit,
      full_step h _ _ (4 + rp + i) _ hl (ref_length m t rp e K Mref h.hMref st hst _) hv (by omega)
        (Or.inr (by omega)) hit (h.r4 i (by omega))⟩

theorem foldl_addmod_lt (hm : 0 < m) (l : List ℕ) (a : ℕ) (ha : a < m) :
    l.foldl (fun a b => (a + b) % m) a < m := by
  induction l generalizing a with
  | nil => simpa using ha
  | cons x xs ih => exact ih _ (Nat.mod_lt _ hm)

/-- **Refinement**: under the relation system, the optimised Go loop is the textbook permutation. -/
theorem permute_eq_of_rel (h : Rel m t rp K C S Mref Mgo Pgo) (st : List ℕ) (hst : st.length = t) :
    permute m e ⟨C, S, Mgo, Pgo⟩ t rp st = Hades.permute m e t 8 rp K Mref st := by
  have hm : 0 < m := NeZero.pos m
  obtain ⟨hl, hv⟩ := phase4 (e := e) h st hst 3 (le_refl 3)
  have hl1 : (sboxAll m e (x4 m t rp e C S Mgo Pgo st 3)).length = t := by simp [sboxAll, hl]
  have href : Hades.permute m e t 8 rp K Mref st = ref m t rp e K Mref st ((4 + rp + 3) + 1) := by
    have e8 : 8 + rp = (4 + rp + 3) + 1 := by omega
    rw [Hades.permute, ref, e8]
  rw [permute_unfold, href, ref_succ]
  apply toVec_inj t m (by simp [mix, hl1]) (round_length m t rp e K Mref h.hMref _ _)
  · intro x hx
    simp only [mix, List.mem_map] at hx
    obtain ⟨i, -, rfl⟩ := hx
    exact foldl_addmod_lt hm _ 0 hm
  · intro x hx
    simp only [Hades.round, Hades.matVec, List.mem_map] at hx
    obtain ⟨row, -, rfl⟩ := hx
    exact foldl_addmod_lt hm _ 0 hm
  · rw [toVec_mix t m _ _ (le_of_eq h.hMgo) hl1, toVec_sboxAll t m e _ hl, h.r1, hv,
      toVec_round_full m t rp e K Mref h.hK h.hMref _ (ref_length m t rp e K Mref h.hMref st hst _)
        (4 + rp + 3) (by omega) (Or.inr (by omega))]


/-! ### from the boolean checker to the relation system -/

theorem headD_eq_getD (l : List ℕ) (d : ℕ) (h : l ≠ []) : l.headD d = l.getD 0 0 := by
  cases l with
  | nil => exact absurd rfl h
  | cons x xs => simp

theorem sparse_length (S : List ℕ) (j : ℕ) (hS : (t * 2 - 1) * j + t + (t - 1) ≤ S.length) :
    (sparse t S j).length = t := by
  have := NeZero.pos t
  simp only [sparse, seg, identity, List.length_cons, List.length_zipWith, List.length_take,
    List.length_drop, List.length_map, List.length_range]
  omega

end refine

/-! ## from the boolean checker to the relation system -/
section refine2
open I3.PoseidonCheck I3.Model.Poseidon
set_option linter.unusedSectionVars false
/-! #### list-level bridges for the block structure -/

variable (m : ℕ)

theorem getD_tail (l : List ℕ) (k : ℕ) : l.tail.getD k 0 = l.getD (k + 1) 0 := by
  cases l <;> simp

theorem toMat_subMat (n : ℕ) (A : List (List ℕ)) :
    toMat n m (subMat A) = (toMat (n + 1) m A).submatrix Fin.succ Fin.succ := by
  ext i k
  simp only [toMat, subMat, Matrix.submatrix_apply, Fin.val_succ]
  have : (A.tail.map List.tail).getD i [] = (A.getD (i + 1) []).tail := by
    simp only [List.getD_eq_getElem?_getD, List.getElem?_map, List.getElem?_tail]
    cases A[(i : ℕ) + 1]? <;> simp
  rw [this, getD_tail]

theorem subMat_length (A : List (List ℕ)) : (subMat A).length = A.length - 1 := by
  simp [subMat]

theorem toVec_mrow (n : ℕ) (A : List (List ℕ)) :
    toVec n m ((A.headD []).tail) = fun k : Fin n => toMat (n + 1) m A 0 k.succ := by
  ext k
  simp only [toVec_apply, toMat, Fin.val_zero, Fin.val_succ, getD_tail, List.headD_eq_getD]

theorem toVec_mcol (n : ℕ) (A : List (List ℕ)) :
    toVec n m (A.tail.map fun r => r.headD 0) = fun i : Fin n => toMat (n + 1) m A i.succ 0 := by
  ext i
  simp only [toVec_apply, toMat, Fin.val_zero, Fin.val_succ]
  congr 1
  simp only [List.getD_eq_getElem?_getD, List.getElem?_map, List.getElem?_tail]
  cases A[(i : ℕ) + 1]? with
  | none => simp
  | some r => cases r <;> simp

theorem cast_m00 (n : ℕ) (A : List (List ℕ)) :
    (((A.headD []).headD 0 : ℕ) : ZMod m) = toMat (n + 1) m A 0 0 := by
  simp only [toMat, Fin.val_zero, List.headD_eq_getD]

theorem toMat_diagBlock (n : ℕ) (X : List (List ℕ)) :
    toMat (n + 1) m (diagBlock n X) = diagM (toMat n m X) := by
  ext i k
  refine Fin.cases ?_ (fun i' => ?_) i <;> refine Fin.cases ?_ (fun k' => ?_) k
  · simp [toMat, diagBlock]
  · simp [toMat, diagBlock, List.getD_eq_getElem?_getD]
  · simp only [toMat, diagBlock, Fin.val_succ, Fin.val_zero, List.getD_cons_succ, diagM_succ_zero]
    simp only [List.getD_eq_getElem?_getD, List.getElem?_map]
    cases X[(i' : ℕ)]? <;> simp
  · simp only [toMat, diagBlock, Fin.val_succ, List.getD_cons_succ, diagM_succ_succ]
    congr 1
    simp only [List.getD_eq_getElem?_getD, List.getElem?_map]
    cases X[(i' : ℕ)]? <;> simp

theorem diagBlock_length (n : ℕ) (X : List (List ℕ)) : (diagBlock n X).length = X.length + 1 := by
  simp [diagBlock]

theorem identity_length (n : ℕ) : (identity n).length = n := by simp [identity]

theorem powMatF_spec (n : ℕ) (A : List (List ℕ)) (hA : A.length = n) : ∀ f e, e < 2 ^ f →
    (powMatF m n A f e).length = n ∧ toMat n m (powMatF m n A f e) = toMat n m A ^ e
  | 0, e, h => by
    have h0 : e = 0 := by simpa using h
    subst h0
    simp [powMatF, identity_length, toMat_identity]
  | f + 1, e, h => by
    have hlt : e / 2 < 2 ^ f := by rw [pow_succ] at h; omega
    obtain ⟨hl, hv⟩ := powMatF_spec n A hA f (e / 2) hlt
    simp only [powMatF, forceMat_eq]
    split_ifs with h0 h1
    · subst h0; simp [identity_length, toMat_identity]
    · have hl2 : (matMul m n (powMatF m n A f (e / 2)) (powMatF m n A f (e / 2))).length = n := by
        rw [matMul_length, hl]
      refine ⟨by rw [matMul_length, hl2], ?_⟩
      rw [toMat_matMul n m _ _ hl2 hA, toMat_matMul n m _ _ hl hl, hv]
      have he : e = e / 2 + e / 2 + 1 := by omega
      conv_rhs => rw [he, pow_succ, pow_add]
    · refine ⟨by rw [matMul_length, hl], ?_⟩
      rw [toMat_matMul n m _ _ hl hl, hv]
      have he : e = e / 2 + e / 2 := by omega
      conv_rhs => rw [he, pow_add]

theorem toMat_sparse (n : ℕ) (S : List ℕ) (j : ℕ)
    (hS : ((n + 1) * 2 - 1) * j + (n + 1) + n ≤ S.length) :
    toMat (n + 1) m (sparse (n + 1) S j) =
      sparseM ((S.getD (((n + 1) * 2 - 1) * j) 0 : ℕ) : ZMod m)
        (toVec n m (S.drop (((n + 1) * 2 - 1) * j + 1)))
        (toVec n m (S.drop (((n + 1) * 2 - 1) * j + (n + 1)))) := by
  ext i k
  refine Fin.cases ?_ (fun i' => ?_) i
  · simp only [toMat, Fin.val_zero, sparse_row0, getD_seg _ _ _ _ k.2]
    refine Fin.cases ?_ (fun k' => ?_) k
    · simp [sparseM]
    · simp [sparseM, toVec_apply, Nat.add_assoc, Nat.add_comm 1]
  · have hi : (i' : ℕ) < (n + 1) - 1 := by simp
    simp only [toMat, Fin.val_succ, sparse_rowSucc (n + 1) S j i' hi (by simpa using hS)]
    refine Fin.cases ?_ (fun k' => ?_) k
    · simp [sparseM, toVec_apply]
    · simp only [Fin.val_succ, List.getD_cons_succ, Nat.add_sub_cancel, unitVec_getD n i' k' k'.2,
        sparseM, Fin.cases_succ]
      by_cases h : i' = k'
      · subst h; simp
      · have : (k' : ℕ) ≠ (i' : ℕ) := fun h0 => h (Fin.ext h0.symm)
        simp [h, this]

/-! #### from the boolean checker to the relation system -/

theorem chainOk_spec (t : ℕ) (Mref Mhat MhatT : Mat) (mrow mcol col0 : Vec) (m00 : ℕ)
    (K C S : List ℕ) : ∀ (rest : List Vec) (j : ℕ) (b : Vec),
    chainOk m t Mref Mhat MhatT mrow mcol col0 m00 (S.drop ((t * 2 - 1) * j)) (K.drop ((4 + j) * t))
      (C.drop ((4 + 1) * t + j)) b rest = true →
    (∀ i < rest.length, stepOk m t Mref Mhat MhatT mrow mcol col0 m00 (decide (i + 1 = rest.length))
        (S.drop ((t * 2 - 1) * (j + i))) (S.drop ((t * 2 - 1) * (j + i + 1)))
        (K.drop ((4 + (j + i)) * t)) (C.drop ((4 + 1) * t + (j + i)))
        ((b :: rest).getD i []) ((b :: rest).getD (i + 1) []) = true) ∧
    (b :: rest).getD rest.length [] = negVec m (seg K ((4 + (j + rest.length)) * t) t)
  | [], j, b, h => by
    simp only [chainOk] at h
    refine ⟨by simp, ?_⟩
    simpa [seg] using eqVec_sound h
  | b' :: rest, j, b, h => by
    simp only [chainOk, forceHead_eq, Bool.and_eq_true, List.drop_drop, List.tail_drop] at h
    obtain ⟨hstep, hchain⟩ := h
    have e1 : (t * 2 - 1) * j + (t * 2 - 1) = (t * 2 - 1) * (j + 1) := (Nat.mul_succ _ _).symm
    have e2 : (4 + j) * t + t = (4 + (j + 1)) * t := by ring
    have e3 : (4 + 1) * t + j + 1 = (4 + 1) * t + (j + 1) := by omega
    rw [e1] at hstep
    rw [e1, e2, e3] at hchain
    obtain ⟨ih1, ih2⟩ := chainOk_spec t Mref Mhat MhatT mrow mcol col0 m00 K C S rest (j + 1) b' hchain
    refine ⟨?_, ?_⟩
    · intro i hi
      cases i with
      | zero =>
        have : rest.isEmpty = decide (0 + 1 = (b' :: rest).length) := by cases rest <;> simp
        simpa [this] using hstep
      | succ i =>
        have := ih1 i (by simpa using hi)
        have e4 : j + 1 + i = j + (i + 1) := by omega
        rw [e4] at this
        simpa using this
    · have e4 : j + 1 + rest.length = j + (b' :: rest).length := by simp; omega
      rw [e4] at ih2
      simpa using ih2

theorem stepOk_facts (n rp : ℕ) [NeZero m] (K C S : List ℕ) (Mref : List (List ℕ)) (last : Bool) (j : ℕ)
    (hj : j < rp) (hlast : last = true ↔ ¬ (j + 1 < rp))
    (hK : K.length = (8 + rp) * (n + 1))
    (hMref : Mref.length = n + 1) (b b' : Vec) (hb : b.length = n + 1) (hb' : b'.length = n + 1)
    (h : stepOk m (n + 1) Mref (subMat Mref) (PoseidonCheck.transpose n (subMat Mref))
      ((Mref.headD []).tail) (Mref.tail.map fun r => r.headD 0) (matVec m Mref (unitVec (n + 1) 0))
      ((Mref.headD []).headD 0) last
      (S.drop (((n + 1) * 2 - 1) * j)) (S.drop (((n + 1) * 2 - 1) * (j + 1)))
      (K.drop ((4 + j) * (n + 1))) (C.drop ((4 + 1) * (n + 1) + j)) b b' = true) :
    ((S.getD (((n + 1) * 2 - 1) * j) 0 : ℕ) : ZMod m) = toMat (n + 1) m Mref 0 0 ∧
    toVec n m (S.drop (((n + 1) * 2 - 1) * j + 1)) ᵥ* (toMat (n + 1) m Mref).submatrix Fin.succ Fin.succ =
      (if j + 1 < rp then toVec n m (S.drop (((n + 1) * 2 - 1) * (j + 1) + 1))
        else fun k : Fin n => toMat (n + 1) m Mref 0 k.succ) ∧
    (if j + 1 < rp then
        (toMat (n + 1) m Mref).submatrix Fin.succ Fin.succ *ᵥ
          toVec n m (S.drop (((n + 1) * 2 - 1) * (j + 1) + (n + 1))) =
            toVec n m (S.drop (((n + 1) * 2 - 1) * j + (n + 1)))
      else toVec n m (S.drop (((n + 1) * 2 - 1) * j + (n + 1))) =
        fun i : Fin n => toMat (n + 1) m Mref i.succ 0) ∧
    (toVec (n + 1) m b + toVec (n + 1) m (K.drop ((4 + j) * (n + 1)))) 0 = 0 ∧
    toMat (n + 1) m Mref *ᵥ (toVec (n + 1) m b + toVec (n + 1) m (K.drop ((4 + j) * (n + 1)))) =
      ((C.getD ((4 + 1) * (n + 1) + j) 0 : ℕ) : ZMod m) • (toMat (n + 1) m Mref *ᵥ Pi.single 0 1) +
        toVec (n + 1) m b' := by
  simp only [stepOk, forceVec_eq, Bool.and_eq_true, Nat.add_sub_cancel] at h
  obtain ⟨⟨⟨⟨h00, hrow⟩, hcol⟩, hβ⟩, hbb⟩ := h
  have h00 := Nat.eq_of_beq_eq_true h00
  have hrow := eqVec_sound hrow
  have hβ := Nat.eq_of_beq_eq_true hβ
  have hbb := eqVec_sound hbb
  have hMhat : (subMat Mref).length = n := by rw [subMat_length, hMref]; simp
  have segle : ∀ (l : List ℕ) (k : ℕ), (seg l k n).length ≤ n := by
    intro l k; simp only [seg, List.length_take]; omega
  have hseg : ∀ (base k : ℕ), toVec n m (seg (S.drop base) k n) = toVec n m (S.drop (base + k)) := by
    intro base k; rw [toVec_seg, List.drop_drop]
  have hKj : n + 1 ≤ ((K.drop ((4 + j) * (n + 1))).take (n + 1)).length := by
    have : (4 + j + 1) * (n + 1) ≤ (8 + rp) * (n + 1) := Nat.mul_le_mul_right _ (by omega)
    rw [Nat.add_mul, Nat.one_mul] at this
    simp only [List.length_take, List.length_drop, hK]
    omega
  have hβv : toVec (n + 1) m (addVec m b ((K.drop ((4 + j) * (n + 1))).take (n + 1))) =
      toVec (n + 1) m b + toVec (n + 1) m (K.drop ((4 + j) * (n + 1))) := by
    rw [toVec_addVec (n + 1) m _ _ hb hKj, toVec_take]
  have hβl : (addVec m b ((K.drop ((4 + j) * (n + 1))).take (n + 1))).length = n + 1 := by
    simp only [addVec, List.length_zipWith, hb]; omega
  refine ⟨?_, ?_, ?_, ?_, ?_⟩
  · rw [← cast_m00, ← h00, List.headD_eq_getD, getD_drop]; rfl
  · have := congrArg (toVec n m) hrow
    rw [toVec_matVec n m _ _ (transpose_length n _) (segle _ _), toMat_transpose, hseg,
      Matrix.mulVec_transpose, toMat_subMat] at this
    rw [this]
    by_cases hl : j + 1 < rp
    · have : last = false := by
        cases last with
        | false => rfl
        | true => exact absurd hl (hlast.1 rfl)
      simp only [this, hl, if_true, hseg, Bool.false_eq_true, if_false]
    · have : last = true := hlast.2 hl
      simp only [this, hl, if_true, if_false, toVec_mrow]
  · by_cases hl : j + 1 < rp
    · have hlf : last = false := by
        cases last with
        | false => rfl
        | true => exact absurd hl (hlast.1 rfl)
      simp only [hlf, hl, if_true, Bool.false_eq_true, if_false] at hcol ⊢
      have := congrArg (toVec n m) (eqVec_sound hcol)
      rwa [toVec_matVec n m _ _ hMhat (segle _ _), hseg, hseg, toMat_subMat] at this
    · have hlt : last = true := hlast.2 hl
      simp only [hlt, hl, if_true, if_false] at hcol ⊢
      have := congrArg (toVec n m) (eqVec_sound hcol)
      rwa [hseg, toVec_mcol] at this
  · rw [← hβv, toVec_apply, Fin.val_zero,
      ← headD_eq_getD _ 1 (by intro h0; rw [h0] at hβl; simp at hβl), hβ]
    simp
  · have hc0 : (matVec m Mref (unitVec (n + 1) 0)).length = n + 1 := by rw [matVec_length, hMref]
    have hl3 : (scaleVec m ((C.drop ((4 + 1) * (n + 1) + j)).headD 0)
        (matVec m Mref (unitVec (n + 1) 0))).length = n + 1 := by
      simp only [scaleVec, List.length_map]; exact hc0
    rw [← hβv, ← toVec_matVec (n + 1) m _ _ hMref (le_of_eq hβl), hbb,
      toVec_addVec (n + 1) m _ _ hl3 (le_of_eq hb'.symm), toVec_scaleVec (n + 1) m _ _ hc0,
      toVec_matVec (n + 1) m _ _ hMref (by simp [unitVec]), toVec_unitVec, List.headD_eq_getD,
      getD_drop]
    rfl

theorem rel_of_checkAll {t rp : ℕ} [NeZero t] [NeZero m] {K : List ℕ} {Mref : List (List ℕ)}
    (tab : Tables) (ws : Mat × List Vec) (h : checkAll m t rp K Mref tab ws = true) :
    Rel m t rp K tab.C tab.S Mref tab.M tab.P := by
  obtain ⟨n, rfl⟩ : ∃ n, t = n + 1 := ⟨t - 1, by have := NeZero.pos t; omega⟩
  obtain ⟨Nhat, bs⟩ := ws
  simp only [checkAll, forceMat_eq, forceVec_eq, forceHead_eq, Bool.and_eq_true,
    Nat.add_sub_cancel] at h
  obtain ⟨⟨⟨⟨⟨⟨⟨⟨⟨⟨⟨⟨⟨⟨-, hMref⟩, hM⟩, hP⟩, hC⟩, hS⟩, hK⟩, hN⟩, hbl⟩, hball⟩, hR1⟩, hR2a⟩, hR2⟩, hR4⟩,
    ⟨hNM, hA0⟩, hR3⟩ := h
  have hMref := (isMat_sound (n + 1) m hMref).1
  have hM := (isMat_sound (n + 1) m hM).1
  have hPr := (isMat_sound (n + 1) m hP).2
  have hP := (isMat_sound (n + 1) m hP).1
  have hC := (isVec_sound m hC).1
  have hS := (isVec_sound m hS).1
  have hK := (isVec_sound m hK).1
  have hN := (isMat_sound n m hN).1
  have hbl := Nat.eq_of_beq_eq_true hbl
  have hR1 := eqMat_sound hR1
  have hR2a := eqVec_sound hR2a
  simp only [List.all_eq_true, List.mem_range] at hR2 hR4 hball
  have segle : ∀ (l : List ℕ) (k : ℕ), (seg l k (n + 1)).length ≤ n + 1 := by
    intro l k; simp only [seg, List.length_take]; omega
  refine ⟨hK, hC, hS, hMref, hM, hP, ?_, ?_, ?_, ?_, ?_⟩
  · rw [← hR1, toMat_transpose]
  · have := congrArg (toVec (n + 1) m) hR2a
    simpa only [toVec_seg, List.drop_zero] using this
  · intro i hi
    have := congrArg (toVec (n + 1) m) (eqVec_sound (hR2 i hi))
    rwa [toVec_matVec (n + 1) m _ _ hMref (segle _ _), toVec_seg, toVec_seg] at this
  · intro i hi
    have := congrArg (toVec (n + 1) m) (eqVec_sound (hR4 i hi))
    rwa [toVec_matVec (n + 1) m _ _ hMref (segle _ _), toVec_seg, toVec_seg] at this
  · -- (R3)
    cases bs with
    | nil => simp at hR3
    | cons b0 rest =>
    simp only [Bool.and_eq_true] at hR3
    obtain ⟨hb0, hchain⟩ := hR3
    have hrest : rest.length = rp := by simpa using hbl
    have hchain' : chainOk m (n + 1) Mref (subMat Mref) (PoseidonCheck.transpose n (subMat Mref))
        ((Mref.headD []).tail) (Mref.tail.map fun r => r.headD 0) (matVec m Mref (unitVec (n + 1) 0))
        ((Mref.headD []).headD 0) (tab.S.drop (((n + 1) * 2 - 1) * 0)) (K.drop ((4 + 0) * (n + 1)))
        (tab.C.drop ((4 + 1) * (n + 1) + 0)) b0 rest = true := by
      simpa using hchain
    obtain ⟨hsteps, hend⟩ := chainOk_spec m (n + 1) _ _ _ _ _ _ _ K tab.C tab.S rest 0 b0 hchain'
    have hshape : ∀ j ≤ rp, ((b0 :: rest).getD j []).length = n + 1 := by
      intro j hj
      have hj' : j < (b0 :: rest).length := by simp [hrest]; omega
      have hmem : (b0 :: rest).getD j [] ∈ (b0 :: rest) := by
        rw [List.getD_eq_getElem?_getD, List.getElem?_eq_getElem hj', Option.getD_some]
        exact List.getElem_mem hj'
      exact (isVec_sound m (hball _ hmem)).1
    -- abstract data
    set M := toMat (n + 1) m Mref with hMdef
    set Mh := M.submatrix Fin.succ Fin.succ with hMh
    set N := toMat n m Nhat with hNdef
    have hMhat : (subMat Mref).length = n := by rw [subMat_length, hMref]; simp
    have hNMh : N * Mh = 1 := by
      have := congrArg (toMat n m) (eqMat_sound hNM)
      rwa [toMat_matMul n m _ _ hN hMhat, toMat_identity, toMat_subMat] at this
    have hfacts := fun j (hj : j < rp) =>
      stepOk_facts m n rp K tab.C tab.S Mref (decide (j + 1 = rest.length)) j hj
        (by rw [hrest]; simp; omega) hK hMref _ _ (hshape j (by omega)) (hshape (j + 1) (by omega))
        (by have := hsteps j (hrest ▸ hj); simpa using this)
    -- rows and columns of the S table as powers of `N`
    let r : ℕ → Fin n → ZMod m := fun j =>
      if j < rp then toVec n m (tab.S.drop (((n + 1) * 2 - 1) * j + 1)) else fun k => M 0 k.succ
    let c : ℕ → Fin n → ZMod m := fun j => toVec n m (tab.S.drop (((n + 1) * 2 - 1) * j + (n + 1)))
    have hr : ∀ j ≤ rp, r j = (fun k : Fin n => M 0 k.succ) ᵥ* N ^ (rp - j) := by
      intro j hj
      have := row_chain Mh N rp hNMh (fun k : Fin n => M 0 k.succ) r (by simp [r]) (by
        intro j hj
        have h2 := (hfacts j hj).2.1
        simp only [r, hj, if_true]
        rw [h2]) (rp - j) (by omega)
      rwa [show rp - (rp - j) = j by omega] at this
    have hc : ∀ j < rp, N ^ (rp - (j + 1)) *ᵥ c j = fun i : Fin n => M i.succ 0 := by
      intro j hj
      have := col_chain Mh N rp hNMh (fun i : Fin n => M i.succ 0) c (by
          intro hpos
          have h3 := (hfacts (rp - 1) (by omega)).2.2.1
          have : ¬ (rp - 1 + 1 < rp) := by omega
          simpa only [this, if_false] using h3) (by
          intro j hj
          have h3 := (hfacts j (by omega)).2.2.1
          simpa only [hj, if_true] using h3) (rp - 1 - j) (by omega)
      rwa [show rp - 1 - (rp - 1 - j) = j by omega, show rp - 1 - j = rp - (j + 1) by omega] at this
    refine ⟨fun j => diagM (N ^ (rp - j)), fun j => toVec (n + 1) m ((b0 :: rest).getD j []),
      ?_, ?_, ?_, ?_, ?_⟩
    · simp only [Nat.sub_self, pow_zero, diagM_one]
    · simp only
      rw [← hrest, hend, Nat.zero_add, hrest]
      have hKl : (seg K ((4 + rp) * (n + 1)) (n + 1)).length = n + 1 := by
        have : (4 + rp + 1) * (n + 1) ≤ (8 + rp) * (n + 1) := Nat.mul_le_mul_right _ (by omega)
        rw [Nat.add_mul, Nat.one_mul] at this
        simp only [seg, List.length_take, List.length_drop, hK]
        omega
      rw [toVec_negVec (n + 1) m _ hKl, toVec_seg]
    · simp only [Nat.sub_zero]
      obtain ⟨hpl, hpv⟩ := powMatF_spec m n Nhat hN (Nat.log2 rp + 1) rp Nat.lt_log2_self
      have := congrArg (toMat (n + 1) m) (eqMat_sound hA0)
      rwa [toMat_matMulT (n + 1) m _ _ (by rw [diagBlock_length, hpl]) hP
        (fun r hr => le_of_eq (hPr r hr)), toMat_diagBlock, hpv] at this
    · have h0 := hshape 0 (Nat.zero_le _)
      simp only [List.getD_cons_zero] at h0 ⊢
      have := congrArg (toVec (n + 1) m) (eqVec_sound hb0)
      rwa [toVec_matVec (n + 1) m _ _ hMref (segle _ _), toVec_seg, toVec_negVec (n + 1) m _ h0] at this
    · intro j hj
      obtain ⟨f1, -, -, f4, f5⟩ := hfacts j hj
      have hSj : ((n + 1) * 2 - 1) * j + (n + 1) + n ≤ tab.S.length := by
        rw [hS]
        have h1 : ((n + 1) * 2 - 1) * (j + 1) ≤ ((n + 1) * 2 - 1) * rp := Nat.mul_le_mul_left _ hj
        rw [Nat.mul_succ] at h1
        omega
      have hA : M * diagM (N ^ (rp - j)) =
          diagM (N ^ (rp - (j + 1))) * toMat (n + 1) m (sparse (n + 1) tab.S j) := by
        rw [toMat_sparse m n tab.S j hSj]
        refine mul_diagM_eq M _ _ _ _ _ f1.symm ?_ (hc j hj) (pow_step Mh N rp hNMh j hj)
        have := hr j (by omega)
        simp only [r, hj, if_true] at this
        exact this.symm
      refine ⟨diagM_row0 _, diagM_col0 _, f4, hA, ?_⟩
      rw [← hA, ← Matrix.mulVec_mulVec, Matrix.mulVec_single_one]
      have : (diagM (N ^ (rp - j))).col 0 = Pi.single 0 1 := by
        ext i
        simp only [Matrix.col_apply, diagM_col0, Pi.single_apply]
      rw [this]
      exact f5
end refine2

/-! ## soundness of the checker -/

open I3.PoseidonCheck I3.Model.Poseidon in
/-- **Soundness of `checkAll`** — for ANY proposed witnesses `ws`: if the checker accepts the tables
    `tab` against the reference round constants `K` and MDS matrix `Mref`, then the optimised loop of
    `poseidon.HashWithStateEx` (`Model.Poseidon.permute`) computes, on every state of width `t`,
    exactly the textbook Hades permutation `Hades.permute` with 8 full and `rp` partial rounds.
    No primality or range hypothesis is needed (`m` arbitrary, S-box exponent `e` arbitrary). -/
theorem checkAll_sound (m t rp e : ℕ) (K : List ℕ) (Mref : List (List ℕ)) (tab : Tables)
    (ws : Mat × List Vec) (h : checkAll m t rp K Mref tab ws = true)
    (st : List ℕ) (hst : st.length = t) :
    permute m e tab t rp st = Hades.permute m e t 8 rp K Mref st := by
  have h' := h
  simp only [checkAll, forceMat_eq, Bool.and_eq_true] at h'
  obtain ⟨⟨⟨⟨⟨⟨⟨⟨⟨⟨⟨⟨⟨⟨ht, -⟩, -⟩, -⟩, -⟩, -⟩, hK⟩, -⟩, -⟩, -⟩, -⟩, -⟩, -⟩, -⟩, -⟩ := h'
  have ht : 0 < t := by simpa [Nat.blt_eq] using ht
  have : NeZero t := ⟨by omega⟩
  obtain ⟨hKl, hKm⟩ := isVec_sound m hK
  have hm : 0 < m := by
    cases hk : K with
    | nil =>
      rw [hk] at hKl
      have : 0 < (8 + rp) * t := Nat.mul_pos (by omega) ht
      simp at hKl; omega
    | cons x xs => exact lt_of_le_of_lt (Nat.zero_le x) (hKm x (by rw [hk]; simp))
  have : NeZero m := ⟨by omega⟩
  exact permute_eq_of_rel (rel_of_checkAll m tab ws h) st hst

/-! ## the BN254 reference instance -/

theorem params_t (m nbits t rf rp : ℕ) : (Grain.params m nbits t rf rp).t = t := by
  simp only [Grain.params]

theorem params_rf (m nbits t rf rp : ℕ) : (Grain.params m nbits t rf rp).rf = rf := by
  simp only [Grain.params]

theorem params_rp (m nbits t rf rp : ℕ) : (Grain.params m nbits t rf rp).rp = rp := by
  simp only [Grain.params]

/-- `Hades.poseidonBN254` at the reference parameters of width `t`, with the schedule made explicit. -/
theorem poseidonBN254_eq (t rp : ℕ) (h : Grain.nRoundsP.getD (t - 2) 0 = rp) (st : List ℕ) :
    Hades.poseidonBN254 (Grain.bn254Params t) st =
      Hades.permute q 5 t 8 rp (Grain.bn254Params t).rc (Grain.mds q (Grain.bn254Params t)) st := by
  have h1 : (Grain.bn254Params t).t = t := params_t _ _ _ _ _
  have h2 : (Grain.bn254Params t).rf = 8 := params_rf _ _ _ _ _
  have h3 : (Grain.bn254Params t).rp = rp := by rw [← h]; exact params_rp _ _ _ _ _
  rw [Hades.poseidonBN254, h1, h2, h3]

/-- One width of C01: accepted tables ⇒ the Go permutation is the reference Poseidon permutation. -/
theorem width_of_check (t rp : ℕ) (h : Grain.nRoundsP.getD (t - 2) 0 = rp)
    (tab : Model.Poseidon.Tables) (ws : PoseidonCheck.Mat × List PoseidonCheck.Vec)
    (hc : PoseidonCheck.checkAll q t rp (Grain.bn254Params t).rc (Grain.mds q (Grain.bn254Params t))
      tab ws = true) (st : List ℕ) (hst : st.length = t) :
    Model.Poseidon.permute q 5 tab t rp st = Hades.poseidonBN254 (Grain.bn254Params t) st := by
  rw [poseidonBN254_eq t rp h, checkAll_sound q t rp 5 _ _ tab ws hc st hst]

end I3.PoseidonRefine
