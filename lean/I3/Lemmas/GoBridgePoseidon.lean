/-
  I3.Lemmas.GoBridgePoseidon — bridge between the definitions GENERATED from /repo/poseidon/poseidon.go and
  /repo/utils/utils.go by the source translator T6 (`I3.Gen.Go.poseidon_*`, `I3.Gen.Go.utils_*`) and the
  hand-written model `I3.Model.Poseidon` / the production instance `I3.Inst.poseidonEx`, `I3.Inst.hPoseidon`.

  Namespaces.
    * `I3.GoBridge`              — the bridge theorems, named after the generated function
                                   (`poseidon_exp5_eq`, `poseidon_exp5state_eq`, `poseidon_ark_eq`, `poseidon_mix_eq`,
                                   `poseidon_HashWithStateEx_eq` and its `↔` corollaries, `poseidon_HashEx_eq`,
                                   `poseidon_HashWithState_eq`, `poseidon_Hash_some_iff`, `poseidon_Hash_none_iff` …).
    * `I3.GoBridge.Loops`        — generic: `Go.idx/set/len/make` as `List.getD/set/length/replicate`, and
                                   `Go.forRange` as structural recursion / a fold over `List.range`
                                   (`forRange_eq_loopN`, `forRange_zero_nat`, `forRange_rel`, `forRange_mapIdx`,
                                   `forRange_fill`, `foldl_range_set` …).  Reused by I3.Lemmas.GoBridgeGolden.
    * `I3.GoBridge.PoseidonAux`  — `utils_*` lemmas, the named pieces of the generated `HashWithStateEx`
                                   (`goPartial`, `goPermute`, `goOutput`, tied to the generated text by the `rfl`
                                   of `poseidon_HashWithStateEx_unfold`), the message constants and `goResult`.
  (Helper names are kept out of `I3.GoBridge` because the other bridge files share that namespace.)

  Nothing is assumed about the inputs of `HashWithStateEx`: the bridge theorem holds for every `List Int`,
  every `initState` and every `nOuts`.  The side conditions of the lemmas about the round pieces are exactly
  those under which the TOTAL semantics of `Go.idx` (default 0 instead of a panic) and the truncating
  `zipWith` of the model can differ; a counter-example follows each of them.
-/
import Mathlib.Tactic.Ring
import Mathlib.Tactic.Linarith
import I3.Gen.GoPoseidon
import I3.Lemmas.Guards
import I3.Props.C07
namespace I3.GoBridge
open I3

/-! ## 1. Go slices and loops -/

namespace Loops
section generic
variable {α : Type} {β : Type} {γ : Type} {σ : Type}

/-! ### `idx` / `set` / `len` / `make` on natural indices -/

theorem idx_eq_getD [Inhabited α] (l : List α) (i : Int) : Go.idx l i = l.getD i.toNat default := rfl
theorem set_eq_set (l : List α) (i : Int) (v : α) : Go.set l i v = l.set i.toNat v := rfl
theorem len_eq_length (l : List α) : Go.len l = (l.length : Int) := rfl
theorem make_eq_replicate [Inhabited α] (n : Int) : (Go.make n : List α) = List.replicate n.toNat default := rfl

theorem idx_natCast [Inhabited α] (l : List α) (i : Nat) : Go.idx l (i : Int) = l.getD i default := rfl
theorem set_natCast (l : List α) (i : Nat) (v : α) : Go.set l (i : Int) v = l.set i v := rfl
theorem make_natCast [Inhabited α] (n : Nat) : (Go.make (n : Int) : List α) = List.replicate n default := rfl
theorem idx_zero [Inhabited α] (l : List α) : Go.idx l 0 = l.getD 0 default := rfl
theorem set_zero (l : List α) (v : α) : Go.set l 0 v = l.set 0 v := rfl

theorem length_set' (l : List α) (i : Int) (v : α) : (Go.set l i v).length = l.length := by
  simp [Go.set]
theorem len_set (l : List α) (i : Int) (v : α) : Go.len (Go.set l i v) = Go.len l := by
  simp [Go.len, Go.set]
theorem length_make [Inhabited α] (n : Int) : (Go.make n : List α).length = n.toNat := by
  simp [Go.make]
/-- reading a negative index (Go would panic) yields the head in the total semantics. -/
theorem idx_neg [Inhabited α] (l : List α) (i : Int) (h : i ≤ 0) : Go.idx l i = l.getD 0 default := by
  rw [idx_eq_getD, Int.toNat_eq_zero.2 h]

theorem getD_of_le (l : List α) (n : Nat) (d : α) (h : l.length ≤ n) : l.getD n d = d := by
  rw [List.getD_eq_getElem?_getD, List.getElem?_eq_none h]; rfl
theorem getD_of_lt (l : List α) (n : Nat) (d : α) (h : n < l.length) : l.getD n d = l[n] := by
  rw [List.getD_eq_getElem?_getD, List.getElem?_eq_getElem h]; rfl

/-! ### folds -/

/-- simulation of two folds over the same list. -/
theorem foldl_rel (R : α → β → Prop) (f : α → γ → α) (g : β → γ → β) (l : List γ)
    (h : ∀ a b c, c ∈ l → R a b → R (f a c) (g b c)) (a : α) (b : β) (hab : R a b) :
    R (l.foldl f a) (l.foldl g b) := by
  induction l generalizing a b with
  | nil => exact hab
  | cons x xs ih =>
    exact ih (fun a b c hc => h a b c (List.mem_cons_of_mem _ hc)) _ _ (h a b x List.mem_cons_self hab)

/-- two folds whose bodies agree on the elements of the list. -/
theorem foldl_congr (f g : α → γ → α) (l : List γ) (h : ∀ a c, c ∈ l → f a c = g a c) (a : α) :
    l.foldl f a = l.foldl g a :=
  foldl_rel (fun x y => x = y) f g l (fun a b c hc hab => by subst hab; exact h a c hc) a a rfl

/-- a fold over a pair whose first (second) component does not depend on the other one. -/
theorem foldl_fst (f : σ × β → γ → σ × β) (g : σ → γ → σ) (l : List γ)
    (h : ∀ p c, c ∈ l → (f p c).1 = g p.1 c) (p : σ × β) : (l.foldl f p).1 = l.foldl g p.1 :=
  foldl_rel (fun (x : σ × β) (y : σ) => x.1 = y) f g l (fun a b c hc hab => by rw [h a c hc, hab]) p p.1 rfl

theorem foldl_snd (f : β × σ → γ → β × σ) (g : σ → γ → σ) (l : List γ)
    (h : ∀ p c, c ∈ l → (f p c).2 = g p.2 c) (p : β × σ) : (l.foldl f p).2 = l.foldl g p.2 :=
  foldl_rel (fun (x : β × σ) (y : σ) => x.2 = y) f g l (fun a b c hc hab => by rw [h a c hc, hab]) p p.2 rfl

/-- a loop that keeps writing into ONE cell `i` is a fold on the contents of that cell. -/
theorem foldl_set_cell (d : α) (G : γ → α → α) (i : Nat) (l : List γ) (ns : List α) :
    l.foldl (fun ns j => ns.set i (G j (ns.getD i d))) ns =
      ns.set i (l.foldl (fun a j => G j a) (ns.getD i d)) := by
  induction l generalizing ns with
  | nil =>
    simp only [List.foldl_nil]
    by_cases hi : i < ns.length
    · rw [List.getD_eq_getElem?_getD, List.getElem?_eq_getElem hi, Option.getD_some, List.set_getElem_self]
    · rw [List.set_eq_of_length_le (by simpa using hi)]
  | cons x xs ih =>
    rw [List.foldl_cons, ih, List.foldl_cons, List.set_set]
    by_cases hi : i < ns.length
    · rw [List.getD_eq_getElem?_getD (l := ns.set i _), List.getElem?_set_self hi]; rfl
    · rw [List.set_eq_of_length_le (by simpa using hi), List.set_eq_of_length_le (by simpa using hi)]

/-- a loop `for k in [0,n)` whose step `k` rewrites cell `lo+k` as a function of its old contents, while
    accumulating a second component from the OLD contents: pointwise form. -/
theorem foldl_range_set (d : α) (F : Nat → α → α) (A : Nat → β → α → β) (lo : Nat) (l : List α) (a : β)
    (n : Nat) :
    (List.range n).foldl (fun (p : List α × β) k =>
        (p.1.set (lo + k) (F k (p.1.getD (lo + k) d)), A k p.2 (p.1.getD (lo + k) d))) (l, a) =
      (l.mapIdx (fun i x => if lo ≤ i ∧ i < lo + n then F (i - lo) x else x),
       (List.range n).foldl (fun a k => A k a (l.getD (lo + k) d)) a) := by
  induction n with
  | zero =>
    simp only [List.range_zero, List.foldl_nil, Nat.add_zero]
    congr 1
    apply List.ext_getElem? ; intro i
    rw [List.getElem?_mapIdx]
    have : ¬ (lo ≤ i ∧ i < lo) := by omega
    simp only [this, if_false]
    cases l[i]? <;> rfl
  | succ n ih =>
    rw [List.range_succ, List.foldl_append, List.foldl_append, ih]
    simp only [List.foldl_cons, List.foldl_nil]
    have hget : (l.mapIdx (fun i x => if lo ≤ i ∧ i < lo + n then F (i - lo) x else x)).getD (lo + n) d =
        l.getD (lo + n) d := by
      rw [List.getD_eq_getElem?_getD, List.getD_eq_getElem?_getD, List.getElem?_mapIdx]
      have : ¬ (lo ≤ lo + n ∧ lo + n < lo + n) := by omega
      simp only [this, if_false]
      cases l[lo + n]? <;> rfl
    rw [hget]
    congr 1
    apply List.ext_getElem? ; intro i
    rw [List.getElem?_set, List.getElem?_mapIdx, List.getElem?_mapIdx, List.length_mapIdx]
    by_cases hi : lo + n = i
    · subst hi
      by_cases hl : lo + n < l.length
      · have c1 : lo ≤ lo + n ∧ lo + n < lo + (n + 1) := by omega
        simp only [if_true, hl, c1, List.getD_eq_getElem?_getD, List.getElem?_eq_getElem hl,
          Option.map_some, Option.getD_some, Nat.add_sub_cancel_left, and_self]
      · simp only [hl, if_false, if_true]
        rw [List.getElem?_eq_none (by omega)]; rfl
    · simp only [hi, if_false]
      have : (lo ≤ i ∧ i < lo + n) ↔ (lo ≤ i ∧ i < lo + (n + 1)) := by omega
      simp only [this]

/-- the same without accumulator. -/
theorem foldl_range_set' (d : α) (F : Nat → α → α) (lo : Nat) (l : List α) (n : Nat) :
    (List.range n).foldl (fun (s : List α) k => s.set (lo + k) (F k (s.getD (lo + k) d))) l =
      l.mapIdx (fun i x => if lo ≤ i ∧ i < lo + n then F (i - lo) x else x) := by
  have h := foldl_range_set d F (fun _ (u : Unit) _ => u) lo l () n
  have := foldl_rel (fun (p : List α × Unit) (s : List α) => p.1 = s)
    (fun (p : List α × Unit) k => (p.1.set (lo + k) (F k (p.1.getD (lo + k) d)), p.2))
    (fun (s : List α) k => s.set (lo + k) (F k (s.getD (lo + k) d))) (List.range n)
    (fun a b c _ hab => by subst hab; rfl) (l, ()) l rfl
  rw [← this, h]

/-- the sub-range of a fold over `List.range` beyond which the body is the identity on values
    satisfying an invariant `R` can be dropped. -/
theorem foldl_range_stable (R : α → Prop) (G : α → Nat → α) (k : Nat) (a : α)
    (hR : R ((List.range k).foldl G a)) (hid : ∀ j, k ≤ j → ∀ x, R x → G x j = x) (n : Nat) (hn : k ≤ n) :
    (List.range n).foldl G a = (List.range k).foldl G a := by
  induction n, hn using Nat.le_induction with
  | base => rfl
  | succ n hn ih =>
    rw [List.range_succ, List.foldl_append, ih]
    simp only [List.foldl_cons, List.foldl_nil]
    exact hid n hn _ hR

/-- a fold over a `zipWith` is a fold over the common index range. -/
theorem foldl_zipWith_range (f : β → γ → σ) (g : α → σ → α) (db : β) (dc : γ) (xs : List β) (ys : List γ)
    (a : α) :
    (List.zipWith f xs ys).foldl g a =
      (List.range (min xs.length ys.length)).foldl (fun a j => g a (f (xs.getD j db) (ys.getD j dc))) a := by
  induction xs generalizing ys a with
  | nil => simp
  | cons x xs ih =>
    cases ys with
    | nil => simp
    | cons y ys =>
      simp only [List.zipWith_cons_cons, List.foldl_cons, List.length_cons, Nat.add_min_add_right,
        List.range_succ_eq_map, List.foldl_map, List.getD_cons_zero, Nat.succ_eq_add_one,
        List.getD_cons_succ]
      exact ih ys _

/-! ### `forRange` -/

/-- structural recursion on the trip count. -/
def loopN (f : Nat → σ → σ) : Nat → σ → σ
  | 0, s => s
  | n + 1, s => f n (loopN f n s)

theorem foldl_range_eq_loopN (f : Nat → σ → σ) (n : Nat) (s : σ) :
    (List.range n).foldl (fun s k => f k s) s = loopN f n s := by
  induction n with
  | zero => rfl
  | succ n ih => rw [List.range_succ, List.foldl_append, ih]; rfl

/-- peeling the FIRST iteration. -/
theorem loopN_succ_left (f : Nat → σ → σ) (n : Nat) (s : σ) :
    loopN f (n + 1) s = loopN (fun k => f (k + 1)) n (f 0 s) := by
  induction n with
  | zero => rfl
  | succ n ih => rw [loopN, ih]; rfl

/-- **`forRange` is structural recursion**: `for i := lo; i < hi; i++ { s = f i s }` runs the body
    `(hi - lo).toNat` times, iteration `k` with `i = lo + k`. -/
theorem forRange_eq_loopN (lo hi : Int) (f : Int → σ → σ) (s : σ) :
    Go.forRange lo hi f s = loopN (fun k => f (lo + (k : Int))) (hi - lo).toNat s :=
  foldl_range_eq_loopN _ _ _

theorem forRange_eq_foldl (lo hi : Int) (f : Int → σ → σ) (s : σ) :
    Go.forRange lo hi f s = (List.range (hi - lo).toNat).foldl (fun s (k : Nat) => f (lo + (k : Int)) s) s :=
  rfl

/-- the loop from `0` to a natural bound. -/
theorem forRange_zero_nat (n : Nat) (f : Int → σ → σ) (s : σ) :
    Go.forRange 0 (n : Int) f s = (List.range n).foldl (fun s (k : Nat) => f (k : Int) s) s := by
  rw [forRange_eq_foldl]
  simp only [Int.sub_zero, Int.toNat_natCast, Int.zero_add]

/-- the loop between two natural bounds. -/
theorem forRange_nat_nat (lo hi : Nat) (f : Int → σ → σ) (s : σ) :
    Go.forRange (lo : Int) (hi : Int) f s =
      (List.range (hi - lo)).foldl (fun s (k : Nat) => f ((lo + k : Nat) : Int) s) s := by
  rw [forRange_eq_foldl]
  have : ((hi : Int) - (lo : Int)).toNat = hi - lo := by omega
  rw [this]
  simp only [Int.natCast_add]

theorem forRange_one_nat (hi : Nat) (f : Int → σ → σ) (s : σ) :
    Go.forRange 1 (hi : Int) f s =
      (List.range (hi - 1)).foldl (fun s (k : Nat) => f ((1 + k : Nat) : Int) s) s :=
  forRange_nat_nat 1 hi f s

theorem forRange_of_le (lo hi : Int) (h : hi ≤ lo) (f : Int → σ → σ) (s : σ) : Go.forRange lo hi f s = s := by
  rw [forRange_eq_foldl, Int.toNat_eq_zero.2 (by omega)]; rfl

theorem forRange_succ (lo : Int) (n : Nat) (f : Int → σ → σ) (s : σ) :
    Go.forRange lo (lo + ((n + 1 : Nat) : Int)) f s = f (lo + (n : Int)) (Go.forRange lo (lo + (n : Int)) f s) := by
  rw [forRange_eq_foldl, forRange_eq_foldl]
  have h1 : (lo + ((n + 1 : Nat) : Int) - lo).toNat = n + 1 := by omega
  have h2 : (lo + (n : Int) - lo).toNat = n := by omega
  rw [h1, h2, List.range_succ, List.foldl_append]; rfl

/-- simulation of two `for` loops with the same bounds. -/
theorem forRange_rel {τ : Type} (R : σ → τ → Prop) (lo hi : Int) (f : Int → σ → σ) (g : Int → τ → τ)
    (h : ∀ i a b, lo ≤ i → i < hi → R a b → R (f i a) (g i b)) (a : σ) (b : τ) (hab : R a b) :
    R (Go.forRange lo hi f a) (Go.forRange lo hi g b) := by
  apply foldl_rel R _ _ _ _ a b hab
  intro a b k hk hab
  have := List.mem_range.1 hk
  exact h _ a b (by omega) (by omega) hab

theorem forRange_congr (lo hi : Int) (f g : Int → σ → σ)
    (h : ∀ i a, lo ≤ i → i < hi → f i a = g i a) (a : σ) : Go.forRange lo hi f a = Go.forRange lo hi g a :=
  forRange_rel (fun x y => x = y) lo hi f g (fun i a b h1 h2 hab => by subst hab; exact h i a h1 h2) a a rfl

/-- a loop over a pair whose first component does not depend on the second one. -/
theorem forRange_fst (lo hi : Int) (f : Int → σ × β → σ × β) (g : Int → σ → σ)
    (h : ∀ i p, lo ≤ i → i < hi → (f i p).1 = g i p.1) (p : σ × β) :
    (Go.forRange lo hi f p).1 = Go.forRange lo hi g p.1 :=
  forRange_rel (fun (x : σ × β) (y : σ) => x.1 = y) lo hi f g
    (fun i a b h1 h2 hab => by rw [h i a h1 h2, hab]) p p.1 rfl

theorem forRange_snd (lo hi : Int) (f : Int → β × σ → β × σ) (g : Int → σ → σ)
    (h : ∀ i p, lo ≤ i → i < hi → (f i p).2 = g i p.2) (p : β × σ) :
    (Go.forRange lo hi f p).2 = Go.forRange lo hi g p.2 :=
  forRange_rel (fun (x : β × σ) (y : σ) => x.2 = y) lo hi f g
    (fun i a b h1 h2 hab => by rw [h i a h1 h2, hab]) p p.2 rfl

/-- invariant rule. -/
theorem forRange_inv (P : σ → Prop) (lo hi : Int) (f : Int → σ → σ)
    (h : ∀ i a, lo ≤ i → i < hi → P a → P (f i a)) (a : σ) (ha : P a) : P (Go.forRange lo hi f a) :=
  forRange_rel (fun x (_ : Unit) => P x) lo hi f (fun _ u => u) (fun i a _ h1 h2 hab => h i a h1 h2 hab) a () ha

/-- `for i := 0; i < len(l); i++ { l[i] = F(i, l[i]) }`. -/
theorem forRange_mapIdx [Inhabited α] (F : Int → α → α) (l : List α) :
    Go.forRange 0 (Go.len l) (fun i s => Go.set s i (F i (Go.idx s i))) l =
      l.mapIdx (fun i x => F (i : Int) x) := by
  rw [len_eq_length, forRange_zero_nat]
  have := foldl_range_set' (default : α) (fun k x => F (k : Int) x) 0 l l.length
  simp only [Nat.zero_add] at this
  simp only [idx_natCast, set_natCast]
  rw [this]
  apply List.ext_getElem? ; intro i
  rw [List.getElem?_mapIdx, List.getElem?_mapIdx]
  by_cases hi : i < l.length
  · simp [hi]
  · rw [List.getElem?_eq_none (by omega)]; rfl

/-- `for i := 0; i < n; i++ { l[lo+i] = V(i) }` on a slice that is long enough. -/
theorem forRange_fill (V : Int → α) (lo n : Nat) (l : List α) (h : lo + n ≤ l.length) :
    Go.forRange 0 (n : Int) (fun i s => Go.set s (i + (lo : Int)) (V i)) l =
      l.take lo ++ (List.range n).map (fun (k : Nat) => V (k : Int)) ++ l.drop (lo + n) := by
  rw [forRange_zero_nat]
  have e : ∀ (s : List α) (k : Nat), Go.set s ((k : Int) + (lo : Int)) (V k) = s.set (lo + k) (V k) := by
    intro s k
    rw [set_eq_set]; congr 1; omega
  simp only [e]
  cases hd : l with
  | nil =>
    have : lo = 0 ∧ n = 0 := by subst hd; simp at h; omega
    obtain ⟨rfl, rfl⟩ := this
    subst hd
    simp
  | cons d _ =>
    rw [← hd]
    rw [foldl_range_set' d (fun k _ => V (k : Int)) lo l n]
    apply List.ext_getElem? ; intro i
    rw [List.getElem?_mapIdx]
    by_cases h1 : i < lo
    · have : ¬ (lo ≤ i ∧ i < lo + n) := by omega
      simp only [this, if_false]
      rw [List.append_assoc, List.getElem?_append_left (by simp; omega), List.getElem?_take_of_lt h1]
      cases l[i]? <;> rfl
    · by_cases h2 : i < lo + n
      · have c : lo ≤ i ∧ i < lo + n := by omega
        simp only [c, and_self, if_true]
        rw [List.append_assoc, List.getElem?_append_right (by simp; omega),
          List.getElem?_append_left (by simp; omega), List.getElem?_eq_getElem (by omega : i < l.length)]
        simp only [List.length_take, Option.map_some]
        rw [List.getElem?_map, List.getElem?_range (by omega)]
        simp only [Option.map_some]
        congr 3; omega
      · have : ¬ (lo ≤ i ∧ i < lo + n) := by omega
        simp only [this, if_false]
        rw [List.getElem?_append_right (by simp; omega), List.getElem?_drop]
        simp only [List.length_append, List.length_take, List.length_map, List.length_range]
        have : lo + n + (i - (min lo l.length + n)) = i := by omega
        rw [this]
        cases l[i]? <;> rfl

/-- `for i := 0; i < 4; i++` unrolled. -/
theorem forRange_four (f : Int → σ → σ) (s : σ) : Go.forRange 0 4 f s = f 3 (f 2 (f 1 (f 0 s))) := rfl

theorem foldl_range_three (f : σ → Nat → σ) (s : σ) : (List.range 3).foldl f s = f (f (f s 0) 1) 2 := rfl

end generic
end Loops
open Loops

/-! ## 2. `utils` -/

open I3.Gen.Go
open I3.Model.Poseidon (inField mix ark sboxAll partialRound permute tablesOk Tables hashWithStateEx Err)

namespace PoseidonAux
theorem ff_modulus_eq : Gen.ff_modulus = q := rfl
theorem constants_Q_eq : Go.Ext.constants_Q = (q : Int) := rfl

/-- `utils.CheckBigIntInField(a)` is `0 ≤ a < q`. -/
theorem utils_CheckBigIntInField_eq (a : Int) : utils_CheckBigIntInField a = inField q a := by
  unfold utils_CheckBigIntInField inField Go.big.cmp
  have hZ : Go.Ext.constants_Zero = 0 := rfl
  rw [constants_Q_eq, hZ]
  rw [Bool.eq_iff_iff]
  simp only [Bool.and_eq_true, beq_iff_eq, bne_iff_ne, decide_eq_true_eq]
  have hq : (0 : Int) < (q : Int) := by decide
  split_ifs <;> simp <;> omega

theorem utils_CheckBigIntInField_iff (a : Int) : utils_CheckBigIntInField a = true ↔ 0 ≤ a ∧ a < (q : Int) := by
  rw [utils_CheckBigIntInField_eq, Lemmas.Guards.inField_iff]

/-- an early-exit loop `for i := range arr { if !c(arr[i]) { return false } }`. -/
theorem forRangeRet_all {α : Type} [Inhabited α] (c : α → Bool) (arr : List α) :
    Go.forRangeRet (ρ := Bool) (σ := Unit) 0 (Go.len arr)
      (fun i _ => if (!(c (Go.idx arr i))) then ((some false : Option Bool), ()) else ((none : Option Bool), ())) () =
      (if arr.all c then none else some false, ()) := by
  have key : ∀ n : Nat, n ≤ arr.length →
      Go.forRangeRet (ρ := Bool) (σ := Unit) 0 (n : Int)
        (fun i _ => if (!(c (Go.idx arr i))) then ((some false : Option Bool), ()) else ((none : Option Bool), ())) () =
      (if (arr.take n).all c then none else some false, ()) := by
    intro n
    induction n with
    | zero => intro _; rfl
    | succ n ih =>
      intro hn
      have ih' := ih (by omega)
      unfold Go.forRangeRet at ih' ⊢
      simp only [Int.sub_zero, Int.toNat_natCast, Int.zero_add, idx_natCast] at ih' ⊢
      rw [List.range_succ, List.foldl_append, ih']
      have hn' : n < arr.length := by omega
      simp only [List.foldl_cons, List.foldl_nil]
      rw [List.take_add_one, List.all_append, List.getElem?_eq_getElem hn', List.getD_eq_getElem?_getD,
        List.getElem?_eq_getElem hn']
      simp only [Option.getD_some, Option.toList_some, List.all_cons, List.all_nil, Bool.and_true]
      by_cases h1 : (arr.take n).all c = true <;> by_cases h2 : c arr[n] = true <;> simp [h1, h2]
  have := key arr.length (Nat.le_refl _)
  rw [List.take_length] at this
  exact this

/-- `utils.CheckBigIntArrayInField(arr)`: every element is in `[0, q)`. -/
theorem utils_CheckBigIntArrayInField_eq (arr : List Int) :
    utils_CheckBigIntArrayInField arr = arr.all (inField q) := by
  have h0 : utils_CheckBigIntArrayInField arr =
      (match (Go.forRangeRet (ρ := Bool) (σ := Unit) 0 (Go.len arr)
        (fun i _ => if (!(utils_CheckBigIntInField (Go.idx arr i))) then ((some false : Option Bool), ())
          else ((none : Option Bool), ())) ()).1 with
        | some rv => rv
        | none => true) := rfl
  rw [h0, forRangeRet_all]
  have : utils_CheckBigIntInField = inField q := funext utils_CheckBigIntInField_eq
  rw [this]
  cases arr.all (inField q) <;> rfl

/-- `utils.BigIntArrayToElementArray(bi)`: every entry reduced modulo `q` (`SetBigInt`). -/
theorem utils_BigIntArrayToElementArray_eq (bi : List Int) :
    utils_BigIntArrayToElementArray bi = bi.map (fun v => imod v q) := by
  have h0 : utils_BigIntArrayToElementArray bi =
      Go.forRange 0 ((bi.length : Nat) : Int)
        (fun i o => Go.set o (i + ((0 : Nat) : Int)) (Go.fe.setBigInt Gen.ff_modulus (Go.idx bi i)))
        (Go.make (bi.length : Int)) := rfl
  rw [h0, forRange_fill (fun i => Go.fe.setBigInt Gen.ff_modulus (Go.idx bi i)) 0 bi.length _ (by simp [make_natCast])]
  simp only [List.take_zero, List.nil_append, Nat.zero_add, make_natCast, idx_natCast]
  rw [List.drop_eq_nil_of_le (by simp), List.append_nil]
  apply List.ext_getElem? ; intro i
  rw [List.getElem?_map, List.getElem?_map]
  by_cases hi : i < bi.length
  · rw [List.getElem?_range hi, List.getElem?_eq_getElem hi]
    simp only [Option.map_some, List.getD_eq_getElem?_getD, List.getElem?_eq_getElem hi, Option.getD_some]
    rfl
  · rw [List.getElem?_eq_none (by simpa using hi), List.getElem?_eq_none (by simpa using hi)]; rfl

/-- on canonical values `SetBigInt` is the identity. -/
theorem imod_of_inField (v : Int) (h0 : 0 ≤ v) (h1 : v < (q : Int)) : imod v q = v.toNat := by
  unfold imod; rw [Int.emod_eq_of_lt h0 h1]

end PoseidonAux
open PoseidonAux

/-! ## 3. the four round pieces -/

/-- `exp5(a)`: `a^5 mod q` by the model's square-and-multiply. -/
theorem poseidon_exp5_eq (a : Nat) : poseidon_exp5 a = powMod a 5 q := rfl

/-- `exp5state(state)` is the model's full S-box layer — for every state. -/
theorem poseidon_exp5state_eq (state : List Nat) : poseidon_exp5state state = sboxAll q 5 state := by
  have h0 : poseidon_exp5state state =
      Go.forRange 0 (Go.len state) (fun i s => Go.set s i ((fun _ x => poseidon_exp5 x) i (Go.idx s i))) state := rfl
  rw [h0, forRange_mapIdx]
  unfold sboxAll
  apply List.ext_getElem? ; intro i
  rw [List.getElem?_mapIdx, List.getElem?_map]; rfl

/-- the shape of the Go `ark` loop for ANY arguments: lane `i` gets `c[it+i]` added, where an index that is
    out of range reads 0 (Go would panic) — the length of the state is kept. -/
theorem poseidon_ark_mapIdx (state c : List Nat) (it : Int) :
    poseidon_ark state c it = state.mapIdx (fun i x => (x + c.getD (it + (i : Int)).toNat 0) % q) := by
  have h0 : poseidon_ark state c it =
      Go.forRange 0 (Go.len state) (fun i s => Go.set s i
        ((fun i x => Go.fe.add Gen.ff_modulus x (Go.idx c (it + i))) i (Go.idx s i))) state := rfl
  exact h0.trans (forRange_mapIdx (fun i x => Go.fe.add Gen.ff_modulus x (Go.idx c (it + i))) state)

/-- `ark(state, c, it)` is the model's `ark` as soon as the constants `c[it .. it+len(state))` exist (the
    model truncates to the constants that are there; Go panics).  `it ≥ 0` is built into the statement. -/
theorem poseidon_ark_eq (state c : List Nat) (it : Nat) (h : it + state.length ≤ c.length) :
    poseidon_ark state c (it : Int) = ark q state c it := by
  rw [poseidon_ark_mapIdx]
  unfold ark
  apply List.ext_getElem? ; intro i
  rw [List.getElem?_mapIdx, List.getElem?_zipWith, List.getElem?_drop]
  by_cases hi : i < state.length
  · have e : ((it : Int) + (i : Int)).toNat = it + i := by omega
    rw [List.getElem?_eq_getElem hi, List.getElem?_eq_getElem (by omega : it + i < c.length), e,
      List.getD_eq_getElem?_getD, List.getElem?_eq_getElem (by omega : it + i < c.length)]
    rfl
  · rw [List.getElem?_eq_none (by omega)]; rfl

/-- the side condition of `poseidon_ark_eq` is needed: with a missing constant the Go loop (total semantics)
    keeps the lane, the model drops it. -/
example : poseidon_ark [1] [] 0 = [1] ∧ ark q [1] [] 0 = [] := by decide

namespace PoseidonAux
/-- one lane of `mix` as computed by Go (modulus `p`): `Σ_j m[j][i]·state[j]`, every product and every sum
    reduced. -/
def goMixLane (p : Nat) (m : List (List Nat)) (state : List Nat) (i : Nat) : Nat :=
  (List.range state.length).foldl
    (fun a j => (a + (m.getD j []).getD i 0 * state.getD j 0 % p) % p) (0 % p)

theorem goMixLane_eq (p : Nat) (m : List (List Nat)) (state : List Nat) (i : Nat) :
    goMixLane p m state i =
      (List.zipWith (fun (row : List Nat) (s : Nat) => row.getD i 0 * s) m state).foldl
        (fun a b => (a + b) % p) 0 := by
  unfold goMixLane
  rw [foldl_zipWith_range (fun (row : List Nat) (s : Nat) => row.getD i 0 * s) (fun a b => (a + b) % p) [] 0]
  have hbody : ∀ (a j : Nat), (a + (m.getD j []).getD i 0 * state.getD j 0 % p) % p =
      (a + (m.getD j []).getD i 0 * state.getD j 0) % p := fun a j => Nat.add_mod_mod _ _ _
  simp only [hbody, Nat.zero_mod]
  apply foldl_range_stable (fun a => a % p = a)
  · exact Lemmas.Guards.foldl_range_inv (fun a => a % p = a) _ _
      (fun a j _ _ => Nat.mod_mod _ _) 0 (Nat.zero_mod _)
  · intro j hj x hx
    have : (m.getD j []).getD i 0 * state.getD j 0 = 0 := by
      by_cases h1 : m.length ≤ j
      · rw [getD_of_le m j [] h1]; simp
      · rw [getD_of_le state j 0 (by omega)]; simp
    rw [this, Nat.add_zero, hx]
  · exact Nat.min_le_right _ _

/-- the doubly nested `mix` loop over a pair `(mul, newState)`, for any modulus: the model's `mix`.  Missing
    rows or entries of the matrix read as 0 on both sides; the loop bound must be the length of the state. -/
theorem mixLoop_eq (p : Nat) (m : List (List Nat)) (state : List Nat) (mul0 : Nat) :
    (Go.forRange (σ := Nat × List Nat) 0 (state.length : Int) (fun i x =>
       Go.forRange (σ := Nat × List Nat) 0 (state.length : Int) (fun j y =>
          (Go.fe.mul p (Go.idx (Go.idx m j) i) (Go.idx state j),
           Go.set y.2 i (Go.fe.add p (Go.idx y.2 i) (Go.fe.mul p (Go.idx (Go.idx m j) i) (Go.idx state j)))))
        (x.1, Go.set x.2 i (Go.fe.setUint64 p 0)))
      (mul0, List.replicate state.length 0)).2 = mix p m state := by
  rw [forRange_snd (σ := List Nat) (β := Nat) 0 (state.length : Int) _
    (fun i ns => ns.set i.toNat (goMixLane p m state i.toNat))]
  · rw [forRange_zero_nat]
    simp only [Int.toNat_natCast]
    have := foldl_range_set' (0 : Nat) (fun k _ => goMixLane p m state k) 0 (List.replicate state.length 0)
      state.length
    simp only [Nat.zero_add] at this
    rw [this]
    unfold mix
    apply List.ext_getElem? ; intro i
    rw [List.getElem?_mapIdx, List.getElem?_map]
    by_cases hi : i < state.length
    · rw [List.getElem?_eq_getElem (by simpa using hi), List.getElem?_range hi]
      simp only [hi, Nat.zero_le, and_self, if_true, Option.map_some, Nat.sub_zero, goMixLane_eq]
    · rw [List.getElem?_eq_none (by simpa using hi), List.getElem?_eq_none (by simpa using hi)]; rfl
  · intro i x _ _
    rw [forRange_snd (σ := List Nat) (β := Nat) 0 (state.length : Int) _
      (fun j ns => ns.set i.toNat ((fun j a => (a + (m.getD j []).getD i.toNat 0 * state.getD j 0 % p) % p)
        j.toNat (ns.getD i.toNat 0)))]
    · rw [forRange_zero_nat]
      simp only [Int.toNat_natCast]
      rw [foldl_set_cell (0 : Nat) (fun (j : Nat) a => (a + (m.getD j []).getD i.toNat 0 * state.getD j 0 % p) % p)]
      have e : Go.set x.2 i (Go.fe.setUint64 p 0) = x.2.set i.toNat (0 % p) := rfl
      rw [e, List.set_set]
      by_cases hi : i.toNat < x.2.length
      · rw [List.getD_eq_getElem?_getD, List.getElem?_set_self hi]; rfl
      · rw [List.set_eq_of_length_le (by omega), List.set_eq_of_length_le (by omega)]
    · intro j y _ _; rfl

/-- the zeroing loop `for i := 0; i < n; i++ { newState[i] = zero }` on a fresh slice. -/
theorem zeroLoop_eq (n : Nat) :
    Go.forRange 0 (n : Int) (fun i ns => Go.set ns i (0 : Nat)) (Go.make (n : Int)) = List.replicate n 0 := by
  apply forRange_inv (fun ns => ns = List.replicate n 0)
  · intro i a _ _ ha
    rw [ha, set_eq_set]; exact List.set_replicate_self
  · rfl

end PoseidonAux

/-- `mix(state, t, m)` is the model's `mix` — for every state and every matrix (missing rows or entries
    read as 0 on both sides), provided `t` is the length of the state. -/
theorem poseidon_mix_eq (state : List Nat) (t : Int) (m : List (List Nat)) (ht : t = (state.length : Int)) :
    poseidon_mix state t m = mix q m state := by
  subst ht
  have h0 : poseidon_mix state (state.length : Int) m =
    (Go.forRange (σ := Nat × List Nat) 0 (state.length : Int) (fun i p =>
       Go.forRange (σ := Nat × List Nat) 0 (state.length : Int) (fun j p' =>
          (Go.fe.mul q (Go.idx (Go.idx m j) i) (Go.idx state j),
           Go.set p'.2 i (Go.fe.add q (Go.idx p'.2 i)
             (Go.fe.mul q (Go.idx (Go.idx m j) i) (Go.idx state j)))))
        (p.1, Go.set p.2 i (Go.fe.setUint64 q 0)))
      (poseidon_zero, Go.forRange 0 (state.length : Int) (fun i ns => Go.set ns i (0 : Nat))
        (Go.make (state.length : Int)))).2 := rfl
  rw [h0, zeroLoop_eq, mixLoop_eq]

/-- the length condition of `poseidon_mix_eq` is needed: the Go result has `t` lanes. -/
example : poseidon_mix [1] 2 [[1]] = [1, 0] ∧ mix q [[1]] [1] = [1] := by decide

/-! ## 4. `HashWithStateEx`: the generated body cut into named pieces

The definitions below are the sub-terms of the generated `poseidon_HashWithStateEx`, with the tuple patterns
written as projections; `poseidon_HashWithStateEx_unfold` (proved by `rfl`) is what ties them to the
generated text, so any change of the Go source that changes the translation breaks that `rfl`. -/

namespace PoseidonAux
/-- body of the sparse partial-round loop (`for i := 0; i < nRoundsP; i++`). -/
def goPartial (t : Int) (C S : List Nat) (i : Int) (p : List Nat × Nat) : List Nat × Nat :=
  let st1 := Go.set p.1 0 (poseidon_exp5 (Go.idx p.1 0))
  let st2 := Go.set st1 0 (Go.fe.add Gen.ff_modulus (Go.idx st1 0) (Go.idx C (((Go.idiv 8 2 + 1) * t) + i)))
  let acc := Go.forRange (σ := Nat × Nat) 0 (Go.len st2) (fun j a =>
      (Go.fe.mul Gen.ff_modulus (Go.idx S ((((t * 2) - 1) * i) + j)) (Go.idx st2 j),
       Go.fe.add Gen.ff_modulus a.2 (Go.fe.mul Gen.ff_modulus (Go.idx S ((((t * 2) - 1) * i) + j)) (Go.idx st2 j))))
      (0, poseidon_zero)
  let r := Go.forRange (σ := List Nat × Nat) 1 t (fun k b =>
      (Go.set (Go.set b.1 k (Go.fe.add Gen.ff_modulus (Go.idx b.1 k)
          (Go.fe.mul Gen.ff_modulus (Go.idx b.1 0) (Go.idx S ((((((t * 2) - 1) * i) + t) + k) - 1))))) k
        (Go.idx (Go.set b.1 k (Go.fe.add Gen.ff_modulus (Go.idx b.1 k)
          (Go.fe.mul Gen.ff_modulus (Go.idx b.1 0) (Go.idx S ((((((t * 2) - 1) * i) + t) + k) - 1))))) k),
       Go.fe.mul Gen.ff_modulus (Go.idx b.1 0) (Go.idx S ((((((t * 2) - 1) * i) + t) + k) - 1))))
      (st2, acc.1)
  (Go.set r.1 0 acc.2, r.2)

/-- one full round `exp5state; ark; mix`. -/
def goFull (t : Int) (C : List Nat) (M : List (List Nat)) (it : Int) (state : List Nat) : List Nat :=
  poseidon_mix (poseidon_ark (poseidon_exp5state state) C it) t M

/-- everything between the guards and the output conversion. -/
def goPermute (t : Int) (C S : List Nat) (M P : List (List Nat)) (nRoundsP : Int) (state : List Nat) : List Nat :=
  let state := poseidon_ark state C 0
  let state := Go.forRange 0 (Go.idiv 8 2 - 1) (fun i st => goFull t C M ((i + 1) * t) st) state
  let state := goFull t C P (Go.idiv 8 2 * t) state
  let state := (Go.forRange 0 nRoundsP (goPartial t C S) (state, poseidon_zero)).1
  let state := Go.forRange 0 (Go.idiv 8 2 - 1)
    (fun i st => goFull t C M ((((Go.idiv 8 2 + 1) * t) + nRoundsP) + (i * t)) st) state
  poseidon_mix (poseidon_exp5state state) t M

/-- the output loop `r[i] = state[i]` as `*big.Int`. -/
def goOutput (state : List Nat) (nOuts : Int) : List Int :=
  Go.forRange 0 nOuts (fun i r => Go.set (Go.set r i 0) i (Go.fe.toBigIntRegular (Go.idx state i))) (Go.make nOuts)

/-- the four error messages of the generated code. -/
def msgBadLen : String := "invalid inputs length %d, max %d"
def msgNotInField : String := "inputs values not inside Finite Field"
def msgBadNOuts : String := "invalid nOuts %d, min 1, max %d"
def msgStateNotInField : String := "initState values not inside Finite Field"

end PoseidonAux

/-- **the generated `HashWithStateEx`, guard by guard** (definitional). -/
theorem poseidon_HashWithStateEx_unfold (inp : List Int) (st n : Int) :
    poseidon_HashWithStateEx inp st n =
      if ((Go.len inp == 0) || decide (Go.len inp > Go.len poseidon_NROUNDSP)) then (default, some msgBadLen)
      else if (!(utils_CheckBigIntArrayInField inp)) then (default, some msgNotInField)
      else if (decide (n < 1) || decide (n > Go.len inp + 1)) then (default, some msgBadNOuts)
      else if (!(utils_CheckBigIntInField st)) then (default, some msgStateNotInField)
      else
        (goOutput
          (goPermute (Go.len inp + 1)
            (Go.idx Go.Ext.poseidon_c.1 (Go.len inp + 1 - 2)) (Go.idx Go.Ext.poseidon_c.2.1 (Go.len inp + 1 - 2))
            (Go.idx Go.Ext.poseidon_c.2.2.1 (Go.len inp + 1 - 2)) (Go.idx Go.Ext.poseidon_c.2.2.2 (Go.len inp + 1 - 2))
            (Go.idx poseidon_NROUNDSP (Go.len inp + 1 - 2))
            (Go.copyInto (Go.set (Go.make (Go.len inp + 1)) 0 (Go.fe.setBigInt Gen.ff_modulus st)) 1
              (Go.len (Go.set (Go.make (Go.len inp + 1) : List Nat) 0 (Go.fe.setBigInt Gen.ff_modulus st)))
              (utils_BigIntArrayToElementArray inp)))
          n, default) := rfl

namespace PoseidonAux
/-! ### the sparse partial round -/

theorem set_getD_self {α : Type} (l : List α) (i : Nat) (d : α) : l.set i (l.getD i d) = l := by
  by_cases hi : i < l.length
  · rw [getD_of_lt l i d hi, List.set_getElem_self]
  · rw [List.set_eq_of_length_le (by omega)]

theorem getD_drop' {α : Type} (l : List α) (b j : Nat) (d : α) : (l.drop b).getD j d = l.getD (b + j) d := by
  rw [List.getD_eq_getElem?_getD, List.getD_eq_getElem?_getD, List.getElem?_drop]

/-- iteration `i` of the partial-round loop is the model's `partialRound`, on a state of width `t ≥ 1`, as
    soon as the `2t-1` sparse-matrix entries of round `i` exist. -/
theorem goPartial_eq (t : Nat) (C S : List Nat) (i : Nat) (state : List Nat) (mul : Nat)
    (hst : state.length = t) (ht : 1 ≤ t) (hS : (t * 2 - 1) * i + t + (t - 1) ≤ S.length) :
    (goPartial (t : Int) C S (i : Int) (state, mul)).1 = partialRound q 5 t C S state i := by
  cases state with
  | nil => simp at hst; omega
  | cons s0 rest =>
  have hrest : rest.length = t - 1 := by simp at hst; omega
  -- index arithmetic
  have eC : (((Go.idiv 8 2 + 1) * (t : Int)) + (i : Int)) = (((4 + 1) * t + i : Nat) : Int) := by
    have : Go.idiv 8 2 = 4 := by decide
    rw [this]; push_cast; ring
  have eS1 : ∀ j : Nat, (((((t : Int) * 2) - 1) * (i : Int)) + (j : Int)) = (((t * 2 - 1) * i + j : Nat) : Int) := by
    intro j
    have : ((t * 2 - 1 : Nat) : Int) = (t : Int) * 2 - 1 := by omega
    push_cast [this]; ring
  have eS2 : ∀ k : Nat, ((((((t : Int) * 2) - 1) * (i : Int)) + (t : Int)) + ((1 + k : Nat) : Int)) - 1 =
      (((t * 2 - 1) * i + t + k : Nat) : Int) := by
    intro k
    have : ((t * 2 - 1 : Nat) : Int) = (t : Int) * 2 - 1 := by omega
    push_cast [this]; ring
  set s0' : Nat := (powMod s0 5 q + C.getD ((4 + 1) * t + i) 0) % q with hs0'
  have hst2 : Go.set (Go.set (s0 :: rest) 0 (poseidon_exp5 (Go.idx (s0 :: rest) 0))) 0
      (Go.fe.add Gen.ff_modulus (Go.idx (Go.set (s0 :: rest) 0 (poseidon_exp5 (Go.idx (s0 :: rest) 0))) 0)
        (Go.idx C (((Go.idiv 8 2 + 1) * (t : Int)) + (i : Int)))) = s0' :: rest := by
    rw [eC]; rfl
  unfold goPartial
  simp only [hst2]
  -- the accumulation of lane 0
  have hacc : ∀ a0 : Nat, (Go.forRange (σ := Nat × Nat) 0 (Go.len (s0' :: rest)) (fun j a =>
      (Go.fe.mul Gen.ff_modulus (Go.idx S (((((t : Int) * 2) - 1) * (i : Int)) + j)) (Go.idx (s0' :: rest) j),
       Go.fe.add Gen.ff_modulus a.2 (Go.fe.mul Gen.ff_modulus (Go.idx S (((((t : Int) * 2) - 1) * (i : Int)) + j))
        (Go.idx (s0' :: rest) j)))) (a0, poseidon_zero)).2 =
      (List.zipWith (fun a b => a * b) (S.drop ((t * 2 - 1) * i)) (s0' :: rest)).foldl (fun a b => (a + b) % q) 0 := by
    intro a0
    rw [len_eq_length, forRange_zero_nat]
    simp only [eS1, idx_natCast]
    rw [foldl_snd (σ := Nat) (β := Nat) _ (fun a j => (a + S.getD ((t * 2 - 1) * i + j) 0 *
      (s0' :: rest).getD j 0 % q) % q) _ (fun _ _ _ => rfl)]
    rw [foldl_zipWith_range (fun a b => a * b) (fun a b => (a + b) % q) 0 0]
    have hmin : min (S.drop ((t * 2 - 1) * i)).length (s0' :: rest).length = (s0' :: rest).length := by
      rw [List.length_drop, List.length_cons, hrest]; omega
    rw [hmin]
    apply foldl_congr
    intro a j _
    rw [getD_drop', Nat.add_mod_mod]
  -- the update of lanes 1 .. t-1
  have hupd : ∀ m0 : Nat, (Go.forRange (σ := List Nat × Nat) 1 (t : Int) (fun k b =>
      (Go.set (Go.set b.1 k (Go.fe.add Gen.ff_modulus (Go.idx b.1 k)
          (Go.fe.mul Gen.ff_modulus (Go.idx b.1 0) (Go.idx S (((((((t : Int) * 2) - 1) * (i : Int)) + (t : Int)) + k) - 1))))) k
        (Go.idx (Go.set b.1 k (Go.fe.add Gen.ff_modulus (Go.idx b.1 k)
          (Go.fe.mul Gen.ff_modulus (Go.idx b.1 0) (Go.idx S (((((((t : Int) * 2) - 1) * (i : Int)) + (t : Int)) + k) - 1))))) k),
       Go.fe.mul Gen.ff_modulus (Go.idx b.1 0) (Go.idx S (((((((t : Int) * 2) - 1) * (i : Int)) + (t : Int)) + k) - 1))))
      (s0' :: rest, m0)).1 =
      s0' :: List.zipWith (fun sk w => (sk + s0' * w) % q) rest (S.drop ((t * 2 - 1) * i + t)) := by
    intro m0
    rw [forRange_one_nat]
    simp only [eS2, idx_natCast, set_natCast]
    rw [foldl_fst (σ := List Nat) (β := Nat) _ (fun st k => st.set (1 + k)
      ((st.getD (1 + k) 0 + st.getD 0 0 * S.getD ((t * 2 - 1) * i + t + k) 0 % q) % q)) _
      (fun p k _ => by
        show (List.set _ _ _).set _ _ = _
        rw [set_getD_self]; rfl)]
    have hh := List.foldl_hom (fun r : List Nat => s0' :: r)
      (g₁ := fun r k => r.set (0 + k) ((fun k x => (x + s0' * S.getD ((t * 2 - 1) * i + t + k) 0 % q) % q) k
        (r.getD (0 + k) 0)))
      (g₂ := fun (st : List Nat) (k : Nat) => st.set (1 + k)
        ((st.getD (1 + k) 0 + st.getD 0 0 * S.getD ((t * 2 - 1) * i + t + k) 0 % q) % q))
      (l := List.range (t - 1)) (init := rest)
      (fun r k => by
        simp only [Nat.zero_add, Nat.add_comm 1 k, List.set_cons_succ, List.getD_cons_succ, List.getD_cons_zero])
    rw [hh, foldl_range_set' (0 : Nat) (fun k x => (x + s0' * S.getD ((t * 2 - 1) * i + t + k) 0 % q) % q) 0 rest
      (t - 1)]
    congr 1
    apply List.ext_getElem? ; intro k
    rw [List.getElem?_mapIdx, List.getElem?_zipWith, List.getElem?_drop]
    by_cases hk : k < rest.length
    · have hk2 : (t * 2 - 1) * i + t + k < S.length := by omega
      have c : 0 ≤ k ∧ k < 0 + (t - 1) := by omega
      rw [List.getElem?_eq_getElem hk, List.getElem?_eq_getElem hk2]
      simp only [c, and_self, if_true, Option.map_some, Nat.sub_zero, getD_of_lt S _ 0 hk2, Nat.add_mod_mod]
    · rw [List.getElem?_eq_none (by omega)]; rfl
  simp only [hacc, hupd]
  rfl

/-! ### the permutation -/

theorem goFull_eq (t : Nat) (C : List Nat) (M : List (List Nat)) (it : Nat) (state : List Nat)
    (hst : state.length = t) (hC : it + t ≤ C.length) :
    goFull (t : Int) C M (it : Int) state = mix q M (ark q (sboxAll q 5 state) C it) := by
  unfold goFull
  have hl : (sboxAll q 5 state).length = t := by rw [Lemmas.Guards.sboxAll_length, hst]
  rw [poseidon_exp5state_eq, poseidon_ark_eq _ _ _ (by omega), poseidon_mix_eq]
  rw [Lemmas.Guards.ark_length _ _ _ _ (by omega), hl]

theorem idiv_8_2 : Go.idiv 8 2 = 4 := by decide

/-- the generated loop structure is the model's `permute`, for every state of width `t ≥ 1` and tables that
    are large enough (`tablesOk`: otherwise Go panics on an index). -/
theorem goPermute_eq (tab : Tables) (t rp : Nat) (state : List Nat) (ht : 1 ≤ t) (hst : state.length = t)
    (hok : tablesOk tab t rp = true) :
    goPermute (t : Int) tab.C tab.S tab.M tab.P (rp : Int) state = permute q 5 tab t rp state := by
  have hC := Lemmas.Guards.tablesOk_C hok
  have hS := Lemmas.Guards.tablesOk_S hok
  unfold goPermute permute
  simp only [idiv_8_2]
  have e3 : ((4 : Int) - 1) = ((3 : Nat) : Int) := rfl
  have e0 : (0 : Int) = ((0 : Nat) : Int) := rfl
  -- first ark
  have h0 : poseidon_ark state tab.C 0 = ark q state tab.C 0 := by
    rw [e0, poseidon_ark_eq _ _ _ (by omega)]
  have l0 : (ark q state tab.C 0).length = t := by rw [Lemmas.Guards.ark_length _ _ _ _ (by omega), hst]
  rw [h0]
  -- three full rounds
  have h1 : ∀ st0 : List Nat, st0.length = t →
      Go.forRange 0 ((4 : Int) - 1) (fun i st => goFull (t : Int) tab.C tab.M ((i + 1) * (t : Int)) st) st0 =
        (List.range 3).foldl (fun st i => mix q tab.M (ark q (sboxAll q 5 st) tab.C ((i + 1) * t))) st0 ∧
      ((List.range 3).foldl (fun st i => mix q tab.M (ark q (sboxAll q 5 st) tab.C ((i + 1) * t))) st0).length = t := by
    intro st0 hst0
    rw [e3, forRange_zero_nat]
    apply foldl_rel (fun (a b : List Nat) => a = b ∧ b.length = t) _ _ _ _ st0 st0 ⟨rfl, hst0⟩
    rintro a b k hk ⟨rfl, hb⟩
    have hk3 : k < 3 := List.mem_range.1 hk
    have hb1 : (k + 1) * t ≤ 3 * t := Nat.mul_le_mul_right _ (by omega)
    have e : ((k : Int) + 1) * (t : Int) = (((k + 1) * t : Nat) : Int) := by push_cast; ring
    rw [e, goFull_eq _ _ _ _ _ hb (by omega)]
    exact ⟨rfl, by rw [Lemmas.Guards.fullRound_length _ _ _ _ _ _ (by omega), hb]⟩
  obtain ⟨h1a, h1b⟩ := h1 _ l0
  rw [h1a]
  -- the round with P
  have e4 : (4 : Int) * (t : Int) = ((4 * t : Nat) : Int) := by push_cast; ring
  rw [e4, goFull_eq _ _ _ _ _ h1b (by omega)]
  have l2 : (mix q tab.P (ark q (sboxAll q 5 ((List.range 3).foldl
      (fun st i => mix q tab.M (ark q (sboxAll q 5 st) tab.C ((i + 1) * t))) (ark q state tab.C 0))) tab.C (4 * t))).length
      = t := by rw [Lemmas.Guards.fullRound_length _ _ _ _ _ _ (by omega), h1b]
  generalize (mix q tab.P (ark q (sboxAll q 5 ((List.range 3).foldl
      (fun st i => mix q tab.M (ark q (sboxAll q 5 st) tab.C ((i + 1) * t))) (ark q state tab.C 0))) tab.C (4 * t))) = st2
      at l2 ⊢
  -- partial rounds
  have h3 : (Go.forRange 0 (rp : Int) (goPartial (t : Int) tab.C tab.S) (st2, poseidon_zero)).1 =
        (List.range rp).foldl (partialRound q 5 t tab.C tab.S) st2 ∧
      ((List.range rp).foldl (partialRound q 5 t tab.C tab.S) st2).length = t := by
    rw [forRange_zero_nat]
    apply foldl_rel (fun (a : List Nat × Nat) (b : List Nat) => a.1 = b ∧ b.length = t) _ _ _ _
      (st2, poseidon_zero) st2 ⟨rfl, l2⟩
    rintro ⟨a, mul⟩ b k hk ⟨rfl, hb⟩
    have hk3 : k < rp := List.mem_range.1 hk
    have hS' : (t * 2 - 1) * k + t + (t - 1) ≤ tab.S.length := by
      have h1 : (2 * t - 1) * (k + 1) ≤ (2 * t - 1) * rp := Nat.mul_le_mul_left _ hk3
      rw [Nat.mul_succ] at h1
      rw [Nat.mul_comm t 2]
      generalize (2 * t - 1) * k = B at *
      generalize (2 * t - 1) * rp = R at *
      omega
    exact ⟨goPartial_eq t tab.C tab.S k a mul hb ht hS', Lemmas.Guards.partialRound_length _ _ _ _ _ _ _ hb hS'⟩
  obtain ⟨h3a, h3b⟩ := h3
  rw [h3a]
  generalize (List.range rp).foldl (partialRound q 5 t tab.C tab.S) st2 = st3 at h3b ⊢
  -- last three full rounds with constants
  have h4 : Go.forRange 0 ((4 : Int) - 1)
        (fun i st => goFull (t : Int) tab.C tab.M ((((4 + 1) * (t : Int)) + (rp : Int)) + (i * (t : Int))) st) st3 =
        (List.range 3).foldl (fun st i => mix q tab.M (ark q (sboxAll q 5 st) tab.C ((4 + 1) * t + rp + i * t))) st3 ∧
      ((List.range 3).foldl (fun st i => mix q tab.M (ark q (sboxAll q 5 st) tab.C ((4 + 1) * t + rp + i * t))) st3).length
        = t := by
    rw [e3, forRange_zero_nat]
    apply foldl_rel (fun (a b : List Nat) => a = b ∧ b.length = t) _ _ _ _ st3 st3 ⟨rfl, h3b⟩
    rintro a b k hk ⟨rfl, hb⟩
    have hk3 : k < 3 := List.mem_range.1 hk
    have hb1 : k * t ≤ 2 * t := Nat.mul_le_mul_right _ (by omega)
    have e : (((4 + 1) * (t : Int)) + (rp : Int)) + ((k : Int) * (t : Int)) = (((4 + 1) * t + rp + k * t : Nat) : Int) := by
      push_cast; ring
    rw [e, goFull_eq _ _ _ _ _ hb (by omega)]
    exact ⟨rfl, by rw [Lemmas.Guards.fullRound_length _ _ _ _ _ _ (by omega), hb]⟩
  obtain ⟨h4a, h4b⟩ := h4
  rw [h4a, poseidon_exp5state_eq, poseidon_mix_eq _ _ _ (by rw [Lemmas.Guards.sboxAll_length, h4b])]

/-! ### output, tables, initial state -/

theorem goOutput_eq (state : List Nat) (k : Nat) (hk : k ≤ state.length) :
    goOutput state (k : Int) = (state.take k).map Int.ofNat := by
  have h0 : goOutput state (k : Int) = Go.forRange 0 (k : Int)
      (fun i r => Go.set r (i + ((0 : Nat) : Int)) (Go.fe.toBigIntRegular (Go.idx state i))) (Go.make (k : Int)) := by
    unfold goOutput
    apply forRange_congr
    intro i r _ _
    rw [set_eq_set, set_eq_set, set_eq_set, List.set_set]
    have : i + ((0 : Nat) : Int) = i := by simp
    rw [this]
  rw [h0, forRange_fill (fun i => Go.fe.toBigIntRegular (Go.idx state i)) 0 k _ (by simp [make_natCast])]
  simp only [List.take_zero, List.nil_append, Nat.zero_add, make_natCast, idx_natCast]
  rw [List.drop_eq_nil_of_le (by simp), List.append_nil]
  apply List.ext_getElem? ; intro i
  rw [List.getElem?_map, List.getElem?_map, List.getElem?_take]
  by_cases hi : i < k
  · rw [List.getElem?_range hi, if_pos hi, List.getElem?_eq_getElem (by omega : i < state.length)]
    simp only [Option.map_some, getD_of_lt state i _ (by omega : i < state.length)]
    rfl
  · rw [List.getElem?_eq_none (by simpa using hi), if_neg hi]; rfl

theorem NROUNDSP_eq : poseidon_NROUNDSP = Gen.poseidon_NROUNDSP.map Int.ofNat := by decide

/-- the four tables and the round count the generated code looks up for width `t` are those of the
    instance `Inst.pTables t` / `Gen.poseidon_NROUNDSP`. -/
theorem tables_lookup (t : Nat) (h2 : 2 ≤ t) (tab : Tables) (rp : Nat)
    (htab : Inst.pTables t = some tab) (hrp : Gen.poseidon_NROUNDSP[t - 2]? = some rp) :
    Go.idx Go.Ext.poseidon_c.1 ((t : Int) - 2) = tab.C ∧ Go.idx Go.Ext.poseidon_c.2.1 ((t : Int) - 2) = tab.S ∧
    Go.idx Go.Ext.poseidon_c.2.2.1 ((t : Int) - 2) = tab.M ∧ Go.idx Go.Ext.poseidon_c.2.2.2 ((t : Int) - 2) = tab.P ∧
    Go.idx poseidon_NROUNDSP ((t : Int) - 2) = (rp : Int) := by
  have hlen : Gen.poseidon_NROUNDSP.length = 16 := by decide
  have h17 : t - 2 < 16 := by
    have := (List.getElem?_eq_some_iff.1 hrp).1
    omega
  have et : ((t : Int) - 2) = ((t - 2 : Nat) : Int) := by omega
  rw [et]
  simp only [idx_natCast]
  unfold Inst.pTables at htab
  obtain ⟨x, hx, rfl⟩ := Option.map_eq_some_iff.1 htab
  have hp : Go.Ext.ptab t = x := by unfold Go.Ext.ptab; rw [hx]; rfl
  have hw : Go.Ext.poseidonWidthList[t - 2]? = some t := by
    unfold Go.Ext.poseidonWidthList
    rw [List.getElem?_map, List.getElem?_range (by exact h17)]
    simp only [Option.map_some]; congr 1; omega
  unfold Go.Ext.poseidon_c
  simp only [List.getD_eq_getElem?_getD, List.getElem?_map, hw, Option.map_some, Option.getD_some, hp,
    NROUNDSP_eq, hrp, true_and]
  rfl

/-- the initial state `[initState, inp…]` built by `make` / `SetBigInt` / `copy`. -/
theorem initState_eq (inp : List Int) (st : Int) (h3 : ∀ x ∈ inp, 0 ≤ x ∧ x < (q : Int))
    (h4 : 0 ≤ st) (h5 : st < (q : Int)) :
    Go.copyInto (Go.set (Go.make (Go.len inp + 1)) 0 (Go.fe.setBigInt Gen.ff_modulus st)) 1
      (Go.len (Go.set (Go.make (Go.len inp + 1) : List Nat) 0 (Go.fe.setBigInt Gen.ff_modulus st)))
      (utils_BigIntArrayToElementArray inp) = st.toNat :: inp.map Int.toNat := by
  have e1 : Go.len inp + 1 = ((inp.length + 1 : Nat) : Int) := by rw [len_eq_length]; rfl
  have e2 : Go.set (Go.make (Go.len inp + 1)) 0 (Go.fe.setBigInt Gen.ff_modulus st) =
      st.toNat :: List.replicate inp.length 0 := by
    rw [e1, make_natCast, List.replicate_succ]
    show _ :: _ = _
    congr 1
    exact imod_of_inField st h4 h5
  have e3 : utils_BigIntArrayToElementArray inp = inp.map Int.toNat := by
    rw [utils_BigIntArrayToElementArray_eq]
    apply List.map_congr_left
    intro x hx
    exact imod_of_inField x (h3 x hx).1 (h3 x hx).2
  rw [e2, e3]
  unfold Go.copyInto Go.len
  simp only [List.length_cons, List.length_replicate, List.length_map, Int.toNat_natCast]
  have : (1 : Int).toNat = 1 := rfl
  rw [this, Nat.min_self, Nat.add_sub_cancel, Nat.min_self, List.take_succ_cons, List.take_zero,
    List.take_of_length_le (by simp), List.drop_eq_nil_of_le (by simp; omega), List.append_nil]
  rfl

/-! ## 5. `HashWithStateEx` against the model instance -/

/-- the message the Go code attaches to each guard (`tablePanic` is not a Go return value: it is a run-time
    panic, unreachable for the production tables — `poseidonEx_ne_tablePanic`). -/
def goErr : Err → Option String
  | .badLen => some msgBadLen
  | .notInField => some msgNotInField
  | .badNOuts => some msgBadNOuts
  | .stateNotInField => some msgStateNotInField
  | .tablePanic => none

/-- what `HashWithStateEx` / `HashEx` return for each outcome of the model. -/
def goResult : Except Err (List Nat) → Option (List Int × Option String)
  | .ok r => some (r.map Int.ofNat, none)
  | .error e => (goErr e).map fun msg => (default, some msg)

/-- what `HashWithState` / `Hash` return for each outcome of the model with `nOuts = 1`. -/
def goResult1 : Except Err (List Nat) → Option (Int × Option String)
  | .ok r => some (Int.ofNat (r.getD 0 0), none)
  | .error e => (goErr e).map fun msg => (default, some msg)

end PoseidonAux

theorem poseidonEx_ne_tablePanic (inp : List Int) (st n : Int) : Inst.poseidonEx inp st n ≠ .error .tablePanic :=
  Props.C07.poseidon_no_tablePanic _ _ _ _ inp st n Props.C07.inst_tablesPresent

/-- **Bridge theorem.**  For every input vector (any length, any integers), every `initState` and every
    `nOuts` (also negative), the generated `poseidon_HashWithStateEx` returns exactly what the model instance
    `Inst.poseidonEx` prescribes: the same values on success, the same guard with its message otherwise. -/
theorem poseidon_HashWithStateEx_eq (inp : List Int) (st n : Int) :
    goResult (Inst.poseidonEx inp st n) = some (poseidon_HashWithStateEx inp st n) := by
  have hlen : Gen.poseidon_NROUNDSP.length = 16 := by decide
  have hlen' : Go.len poseidon_NROUNDSP = 16 := by decide
  rw [poseidon_HashWithStateEx_unfold, hlen', len_eq_length, utils_CheckBigIntArrayInField_eq,
    utils_CheckBigIntInField_eq]
  by_cases c1 : inp.length = 0 ∨ 16 < inp.length
  · have hm : Inst.poseidonEx inp st n = .error .badLen :=
      Props.C07.poseidon_badLen _ _ _ _ _ _ _ (by rw [hlen]; exact c1)
    rw [hm, if_pos (by simp only [Bool.or_eq_true, beq_iff_eq, decide_eq_true_eq]; omega)]; rfl
  rw [if_neg (by simp only [Bool.or_eq_true, beq_iff_eq, decide_eq_true_eq]; omega)]
  by_cases c2 : ∀ x ∈ inp, 0 ≤ x ∧ x < (q : Int)
  swap
  · have hm : Inst.poseidonEx inp st n = .error .notInField := by
      apply Props.C07.poseidon_notInField _ _ _ _ _ _ _ (by omega) (by rw [hlen]; omega)
      simp only [Classical.not_forall] at c2
      obtain ⟨x, hx, hbad⟩ := c2
      exact ⟨x, hx, by have : (Gen.constants_q : Int) = (q : Int) := rfl; omega⟩
    have : inp.all (inField q) = false := by
      rw [Bool.eq_false_iff, Ne, Lemmas.Guards.all_inField_iff]; exact c2
    rw [hm, this, if_pos (by rfl)]; rfl
  rw [(Lemmas.Guards.all_inField_iff q inp).2 c2, if_neg (by simp)]
  by_cases c3 : n < 1 ∨ (inp.length : Int) + 1 < n
  · have hm : Inst.poseidonEx inp st n = .error .badNOuts :=
      Props.C07.poseidon_badNOuts _ _ _ _ _ _ _ (by omega) (by rw [hlen]; omega) c2 c3
    rw [hm, if_pos (by simp only [Bool.or_eq_true, decide_eq_true_eq]; omega)]; rfl
  rw [if_neg (by simp only [Bool.or_eq_true, decide_eq_true_eq]; omega)]
  by_cases c4 : st < 0 ∨ (q : Int) ≤ st
  · have hm : Inst.poseidonEx inp st n = .error .stateNotInField :=
      Props.C07.poseidon_stateNotInField _ _ _ _ _ _ _ Props.C07.inst_tablesPresent (by omega)
        (by rw [hlen]; omega) c2 (by omega) (by omega) c4
    have : inField q st = false := by
      rw [Bool.eq_false_iff, Ne, Lemmas.Guards.inField_iff]; omega
    rw [hm, this, if_pos (by rfl)]; rfl
  have hst : inField q st = true := by rw [Lemmas.Guards.inField_iff]; omega
  rw [hst, if_neg (by simp)]
  -- all guards passed
  obtain ⟨tab, rp, htab, hrp, hok, heq⟩ := Lemmas.Guards.hashWithStateEx_passed Gen.constants_q
    Gen.poseidon_sboxExp Inst.pTables Gen.poseidon_NROUNDSP inp st n Props.C07.inst_tablesPresent (by omega)
    (by rw [hlen]; omega) c2 (by omega) (by omega)
  have hm : Inst.poseidonEx inp st n =
      .ok ((permute q 5 tab (inp.length + 1) rp (st.toNat :: inp.map Int.toNat)).take n.toNat) := by
    unfold Inst.poseidonEx
    rw [heq, if_pos (by exact hst)]; rfl
  rw [hm]
  have e1 : (inp.length : Int) + 1 = ((inp.length + 1 : Nat) : Int) := rfl
  obtain ⟨k, rfl⟩ := Int.eq_ofNat_of_zero_le (by omega : 0 ≤ n)
  have hinit := initState_eq inp st c2 (by omega) (by omega)
  rw [len_eq_length] at hinit
  rw [hinit, e1]
  obtain ⟨tC, tS, tM, tP, tR⟩ := tables_lookup (inp.length + 1) (by omega) tab rp htab hrp
  rw [tC, tS, tM, tP, tR, goPermute_eq tab (inp.length + 1) rp _ (by omega) (by simp) hok, goOutput_eq]
  · rfl
  · rw [Lemmas.Guards.permute_length q 5 tab _ rp _ hok (by simp)]; omega

/-! ### consequences in `↔` form -/

namespace PoseidonAux
theorem goErr_inj (e e' : Err) (m : String) (h : goErr e = some m) (h' : goErr e' = some m) : e = e' := by
  rw [← h'] at h
  cases e <;> cases e' <;> first | rfl | (exfalso; revert h h'; simp [goErr, msgBadLen, msgNotInField, msgBadNOuts, msgStateNotInField])

end PoseidonAux

/-- success: the model returns `r` iff the generated function returns `(r, nil)`. -/
theorem poseidon_HashWithStateEx_ok_iff (inp : List Int) (st n : Int) (r : List Nat) :
    Inst.poseidonEx inp st n = .ok r ↔ poseidon_HashWithStateEx inp st n = (r.map Int.ofNat, none) := by
  have h := poseidon_HashWithStateEx_eq inp st n
  constructor
  · intro hm
    rw [hm] at h
    exact (Option.some.inj h).symm
  · intro hg
    rw [hg] at h
    cases hm : Inst.poseidonEx inp st n with
    | ok r' =>
      rw [hm] at h
      have := (Prod.mk.inj (Option.some.inj h)).1
      rw [List.map_inj_right (fun a b hab => Int.ofNat.inj hab)] at this
      rw [this]
    | error e =>
      rw [hm] at h
      cases e <;> simp [goResult, goErr] at h

/-- failure: the model stops at guard `e` iff the generated function returns `(nil, msg e)`. -/
theorem poseidon_HashWithStateEx_error_iff (inp : List Int) (st n : Int) (e : Err) (msg : String)
    (he : goErr e = some msg) :
    Inst.poseidonEx inp st n = .error e ↔ poseidon_HashWithStateEx inp st n = (default, some msg) := by
  have h := poseidon_HashWithStateEx_eq inp st n
  constructor
  · intro hm
    rw [hm] at h
    simp only [goResult, he, Option.map_some] at h
    exact (Option.some.inj h).symm
  · intro hg
    rw [hg] at h
    cases hm : Inst.poseidonEx inp st n with
    | ok r' => rw [hm] at h; simp [goResult] at h
    | error e' =>
      rw [hm] at h
      cases he' : goErr e' with
      | none => simp [goResult, he'] at h
      | some m' =>
        simp only [goResult, he', Option.map_some, Option.some.injEq, Prod.mk.injEq, true_and] at h
        subst h
        rw [goErr_inj e e' _ he he']

theorem poseidon_HashWithStateEx_badLen (inp : List Int) (st n : Int) :
    Inst.poseidonEx inp st n = .error .badLen ↔ poseidon_HashWithStateEx inp st n = (default, some msgBadLen) :=
  poseidon_HashWithStateEx_error_iff inp st n _ _ rfl
theorem poseidon_HashWithStateEx_notInField (inp : List Int) (st n : Int) :
    Inst.poseidonEx inp st n = .error .notInField ↔
      poseidon_HashWithStateEx inp st n = (default, some msgNotInField) :=
  poseidon_HashWithStateEx_error_iff inp st n _ _ rfl
theorem poseidon_HashWithStateEx_badNOuts (inp : List Int) (st n : Int) :
    Inst.poseidonEx inp st n = .error .badNOuts ↔
      poseidon_HashWithStateEx inp st n = (default, some msgBadNOuts) :=
  poseidon_HashWithStateEx_error_iff inp st n _ _ rfl
theorem poseidon_HashWithStateEx_stateNotInField (inp : List Int) (st n : Int) :
    Inst.poseidonEx inp st n = .error .stateNotInField ↔
      poseidon_HashWithStateEx inp st n = (default, some msgStateNotInField) :=
  poseidon_HashWithStateEx_error_iff inp st n _ _ rfl

/-- the error component is `nil` exactly when the model succeeds, and then the values agree. -/
theorem poseidon_HashWithStateEx_nil_iff (inp : List Int) (st n : Int) (out : List Int) :
    poseidon_HashWithStateEx inp st n = (out, none) ↔
      ∃ r, Inst.poseidonEx inp st n = .ok r ∧ out = r.map Int.ofNat := by
  constructor
  · intro hg
    have h := poseidon_HashWithStateEx_eq inp st n
    rw [hg] at h
    cases hm : Inst.poseidonEx inp st n with
    | ok r' =>
      rw [hm] at h
      exact ⟨r', rfl, ((Prod.mk.inj (Option.some.inj h)).1).symm⟩
    | error e =>
      rw [hm] at h
      cases e <;> simp [goResult, goErr] at h
  · rintro ⟨r, hr, rfl⟩
    exact (poseidon_HashWithStateEx_ok_iff inp st n r).1 hr

/-- no error is returned exactly when the model succeeds. -/
theorem poseidon_HashWithStateEx_noerr_iff (inp : List Int) (st n : Int) :
    (poseidon_HashWithStateEx inp st n).2 = none ↔ ∃ r, Inst.poseidonEx inp st n = .ok r := by
  constructor
  · intro h
    have : poseidon_HashWithStateEx inp st n = ((poseidon_HashWithStateEx inp st n).1, none) := by
      rw [← h]
    obtain ⟨r, hr, -⟩ := (poseidon_HashWithStateEx_nil_iff inp st n _).1 this
    exact ⟨r, hr⟩
  · rintro ⟨r, hr⟩
    rw [(poseidon_HashWithStateEx_ok_iff inp st n r).1 hr]

/-! ## 6. `HashEx`, `HashWithState`, `Hash` -/

theorem poseidon_HashEx_def (inp : List Int) (n : Int) :
    poseidon_HashEx inp n = poseidon_HashWithStateEx inp 0 n := rfl

theorem poseidon_HashEx_eq (inp : List Int) (n : Int) :
    goResult (Inst.poseidonEx inp 0 n) = some (poseidon_HashEx inp n) :=
  poseidon_HashWithStateEx_eq inp 0 n

theorem poseidon_HashWithState_def (inp : List Int) (st : Int) :
    poseidon_HashWithState inp st =
      if (poseidon_HashWithStateEx inp st 1).2.isSome then (default, (poseidon_HashWithStateEx inp st 1).2)
      else (Go.idx (poseidon_HashWithStateEx inp st 1).1 0, default) := rfl

/-- `HashWithState(inp, st)` is the model with `nOuts = 1`: lane 0 on success, `(0, msg)` on each guard. -/
theorem poseidon_HashWithState_eq (inp : List Int) (st : Int) :
    goResult1 (Inst.poseidonEx inp st 1) = some (poseidon_HashWithState inp st) := by
  have h := poseidon_HashWithStateEx_eq inp st 1
  rw [poseidon_HashWithState_def]
  cases hm : Inst.poseidonEx inp st 1 with
  | ok r =>
    rw [hm] at h
    rw [← Option.some.inj h]
    cases r <;> rfl
  | error e =>
    rw [hm] at h
    cases he : goErr e with
    | none => simp [goResult, he] at h
    | some msg =>
      simp only [goResult, he, Option.map_some] at h
      rw [← Option.some.inj h]
      simp only [goResult1, he, Option.map_some]
      rfl

theorem poseidon_Hash_def (inp : List Int) : poseidon_Hash inp = poseidon_HashWithState inp 0 := rfl

theorem poseidon_Hash_eq (inp : List Int) :
    goResult1 (Inst.poseidonEx inp 0 1) = some (poseidon_Hash inp) :=
  poseidon_HashWithState_eq inp 0

/-- a successful call with `nOuts = 1` returns exactly one value. -/
theorem poseidonEx_one_ok (inp : List Int) (st : Int) (r : List Nat) (h : Inst.poseidonEx inp st 1 = .ok r) :
    ∃ x, r = [x] := by
  have := Props.C07.poseidon_ok_length _ _ _ _ inp st 1 Props.C07.inst_tablesPresent r h
  match r, this with
  | [x], _ => exact ⟨x, rfl⟩
  | [], h => simp at h
  | _ :: _ :: _, h => simp at h; omega

/-- `Hash(inp)` against `Inst.hPoseidon`: `some h` ↔ `(h, nil)`. -/
theorem poseidon_Hash_some_iff (inp : List Int) (h : Nat) :
    Inst.hPoseidon inp = some h ↔ poseidon_Hash inp = ((h : Int), none) := by
  have hb := poseidon_Hash_eq inp
  unfold Inst.hPoseidon
  cases hm : Inst.poseidonEx inp 0 1 with
  | ok r =>
    obtain ⟨x, rfl⟩ := poseidonEx_one_ok inp 0 r hm
    rw [hm] at hb
    rw [← Option.some.inj hb]
    simp
  | error e =>
    rw [hm] at hb
    cases he : goErr e with
    | none => simp [goResult1, he] at hb
    | some msg =>
      simp only [goResult1, he, Option.map_some] at hb
      rw [← Option.some.inj hb]
      simp

/-- `Hash(inp)` against `Inst.hPoseidon`: `none` ↔ an error is returned (with value 0). -/
theorem poseidon_Hash_none_iff (inp : List Int) :
    Inst.hPoseidon inp = none ↔ ∃ msg, poseidon_Hash inp = (0, some msg) := by
  have hb := poseidon_Hash_eq inp
  unfold Inst.hPoseidon
  cases hm : Inst.poseidonEx inp 0 1 with
  | ok r =>
    obtain ⟨x, rfl⟩ := poseidonEx_one_ok inp 0 r hm
    rw [hm] at hb
    rw [← Option.some.inj hb]
    simp
  | error e =>
    rw [hm] at hb
    cases he : goErr e with
    | none => simp [goResult1, he] at hb
    | some msg =>
      simp only [goResult1, he, Option.map_some] at hb
      rw [← Option.some.inj hb]
      simp only [true_iff]
      exact ⟨msg, rfl⟩

/-- `Hash(inp) = (v, nil)` exactly when the model hash exists and is `v`. -/
theorem poseidon_Hash_nil_iff (inp : List Int) (v : Int) :
    poseidon_Hash inp = (v, none) ↔ ∃ h, Inst.hPoseidon inp = some h ∧ v = (h : Int) := by
  constructor
  · intro hv
    cases hh : Inst.hPoseidon inp with
    | none =>
      obtain ⟨msg, hmsg⟩ := (poseidon_Hash_none_iff inp).1 hh
      rw [hmsg] at hv
      simp at hv
    | some h =>
      have := (poseidon_Hash_some_iff inp h).1 hh
      rw [this] at hv
      exact ⟨h, rfl, ((Prod.mk.inj hv).1).symm⟩
  · rintro ⟨h, hh, rfl⟩
    exact (poseidon_Hash_some_iff inp h).1 hh

theorem poseidon_Hash_noerr_iff (inp : List Int) :
    (poseidon_Hash inp).2 = none ↔ ∃ h, Inst.hPoseidon inp = some h := by
  constructor
  · intro h
    have : poseidon_Hash inp = ((poseidon_Hash inp).1, none) := by rw [← h]
    obtain ⟨x, hx, -⟩ := (poseidon_Hash_nil_iff inp _).1 this
    exact ⟨x, hx⟩
  · rintro ⟨x, hx⟩
    rw [(poseidon_Hash_some_iff inp x).1 hx]

end I3.GoBridge
