/-
  I3.Lemmas.Mimc7 — helper lemmas for property C08: the executable model `I3.Model.Mimc7`
  (constant table + fold, every intermediate sum reduced) against the definition
  `I3.Spec.Mimc7` written from the property text.  Core Lean only.
-/
import I3.Spec.Mimc7
import I3.Model.Mimc7
import I3.Lemmas.Guards
namespace I3.Lemmas.Mimc7
open I3 I3.Model.Mimc7

theorem q_pos : 0 < q := by decide

/-! ### modular arithmetic -/

theorem pow7_congr {a b : Nat} (h : a % q = b % q) : a ^ 7 % q = b ^ 7 % q := by
  rw [Nat.pow_mod, h, ← Nat.pow_mod]

theorem pow7_eq (t : Nat) : pow7 t = t ^ 7 % q := by
  have h : t ^ 7 = t * t * (t * t) * (t * t) * t := by
    simp only [Nat.pow_succ, Nat.pow_zero, Nat.one_mul, Nat.mul_assoc]
  simp only [pow7, Nat.mul_mod_mod, Nat.mod_mul_mod, h]

theorem pow7_mod (a : Nat) : pow7 (a % q) = a ^ 7 % q := by
  rw [pow7_eq, ← Nat.pow_mod]

theorem imod_natCast (a m : Nat) : imod (a : Int) m = a % m := by
  unfold imod
  rw [← Int.natCast_emod, Int.toNat_natCast]

theorem imod_lt (v : Int) {m : Nat} (hm : 0 < m) : imod v m < m := by
  unfold imod
  have h1 : 0 ≤ v % (m : Int) := Int.emod_nonneg _ (by omega)
  have h2 : v % (m : Int) < (m : Int) := Int.emod_lt_of_pos _ (by omega)
  omega

/-! ### the constant table -/

theorem cst_zero (seed : Bytes) : Spec.Mimc7.cst seed 0 = 0 := rfl

theorem cst_succ (seed : Bytes) (i : Nat) :
    Spec.Mimc7.cst seed (i + 1) = beToNat (Keccak.keccak256 (Spec.Mimc7.digest seed i)) % q := by
  simp only [Spec.Mimc7.cst, Nat.add_one_ne_zero, if_false, Spec.Mimc7.digest]

theorem cst_lt (seed : Bytes) (i : Nat) : Spec.Mimc7.cst seed i < q := by
  unfold Spec.Mimc7.cst
  split
  · exact q_pos
  · exact Nat.mod_lt _ q_pos

/-- the model's chain started at the `j`-th digest yields the constants `c_{j+1}, c_{j+2}, …`. -/
theorem chain_eq (seed : Bytes) (m j : Nat) :
    chain m (Spec.Mimc7.digest seed j) = (List.range' (j + 1) m).map (Spec.Mimc7.cst seed) := by
  induction m generalizing j with
  | zero => rfl
  | succ m ih =>
    rw [chain, List.range'_succ, List.map_cons, cst_succ]
    have := ih (j + 1)
    rw [Spec.Mimc7.digest] at this
    rw [this]

theorem getConstants_eq (seed : Bytes) (n : Nat) (hn : 1 ≤ n) :
    getConstants seed n = (List.range n).map (Spec.Mimc7.cst seed) := by
  obtain ⟨m, rfl⟩ : ∃ m, n = m + 1 := ⟨n - 1, by omega⟩
  have := chain_eq seed m 0
  rw [Spec.Mimc7.digest] at this
  rw [getConstants, Nat.add_sub_cancel, this, List.range_eq_range', List.range'_succ,
    List.map_cons, cst_zero]

theorem getConstants_length (seed : Bytes) (n : Nat) (hn : 1 ≤ n) :
    (getConstants seed n).length = n := by
  rw [getConstants_eq seed n hn, List.length_map, List.length_range]

/-! ### the round loop -/

theorem foldl_perm (seed : Bytes) (x k m : Nat) :
    ((List.range' 1 m).map (Spec.Mimc7.cst seed)).foldl
        (fun r c => pow7 (((r + k) % q + c) % q)) (pow7 ((x + k) % q))
      = Spec.Mimc7.perm seed x k (m + 1) := by
  induction m with
  | zero => simp only [List.range'_zero, List.map_nil, List.foldl_nil, pow7_mod, Spec.Mimc7.perm]
  | succ m ih =>
    rw [List.range'_concat, List.map_append, List.foldl_append, ih]
    simp only [List.map_cons, List.map_nil, List.foldl_cons, List.foldl_nil, Nat.one_mul,
      Spec.Mimc7.perm, Nat.mod_add_mod, pow7_mod, Nat.add_comm 1 m]

theorem rounds_eq (seed : Bytes) (x k n : Nat) (hn : 1 ≤ n) :
    rounds x k (getConstants seed n) = Spec.Mimc7.mimc7 seed x k n := by
  obtain ⟨m, rfl⟩ : ∃ m, n = m + 1 := ⟨n - 1, by omega⟩
  rw [getConstants_eq seed _ hn, List.range_eq_range', List.range'_succ, List.map_cons]
  simp only [rounds, Nat.zero_add, foldl_perm, Spec.Mimc7.mimc7]

theorem rounds_lt (x k : Nat) (cts : List Nat) : rounds x k cts < q := by
  unfold rounds
  split
  · exact q_pos
  · exact Nat.mod_lt _ q_pos

/-! ### the definition only depends on the residues of `x` and `k` -/

theorem perm_mod (seed : Bytes) (x k : Nat) :
    ∀ n, Spec.Mimc7.perm seed (x % q) (k % q) n = Spec.Mimc7.perm seed x k n
  | 0 => rfl
  | 1 => by
    simp only [Spec.Mimc7.perm]
    exact pow7_congr (by rw [← Nat.add_mod])
  | n + 2 => by
    simp only [Spec.Mimc7.perm, perm_mod seed x k (n + 1)]
    apply pow7_congr
    rw [Nat.add_right_comm, Nat.add_mod_mod, Nat.add_right_comm]

theorem mimc7_mod (seed : Bytes) (x k n : Nat) :
    Spec.Mimc7.mimc7 seed (x % q) (k % q) n = Spec.Mimc7.mimc7 seed x k n := by
  simp only [Spec.Mimc7.mimc7, perm_mod, Nat.add_mod_mod]

theorem mimc7_lt (seed : Bytes) (x k n : Nat) : Spec.Mimc7.mimc7 seed x k n < q :=
  Nat.mod_lt _ q_pos

/-! ### folds -/

/-- a fold whose step always lands in `P` ends in `P` as soon as one step is taken. -/
theorem foldl_mem_of_ne_nil {α β : Type} (P : α → Prop) (f : α → β → α) (hf : ∀ a b, P (f a b))
    (l : List β) (hl : l ≠ []) (a : α) : P (l.foldl f a) := by
  induction l generalizing a with
  | nil => exact absurd rfl hl
  | cons x xs ih =>
    rw [List.foldl_cons]
    cases xs with
    | nil => exact hf a x
    | cons y ys => exact ih (by simp) _

/-- an `Int`-valued fold over cast naturals is the cast of the `Nat`-valued fold. -/
theorem foldl_map_cast (f : Nat → Nat → Nat) (g : Int → Int → Int)
    (hfg : ∀ r m : Nat, g (r : Int) (m : Int) = ((f r m : Nat) : Int)) (arr : List Nat) (r0 : Nat) :
    (arr.map (fun (n : Nat) => (n : Int))).foldl g (r0 : Int) = ((arr.foldl f r0 : Nat) : Int) := by
  induction arr generalizing r0 with
  | nil => rfl
  | cons m ms ih => rw [List.map_cons, List.foldl_cons, List.foldl_cons, hfg, ih]

/-! ### 31-byte chunks -/

theorem chunks31_nil : chunks31 [] = [] := by
  rw [chunks31]; rfl

theorem chunks31_flatten (b : Bytes) : (chunks31 b).flatten = b := by
  induction b using chunks31.induct with
  | case1 b h =>
    rw [chunks31]
    simp only [h, dite_true, List.flatten_nil]
    exact (List.eq_nil_of_length_eq_zero h).symm
  | case2 b h ih =>
    rw [chunks31]
    simp only [h, dite_false, List.flatten_cons, ih, List.take_append_drop]

/-- the recursive model and the slice form `b[31 i : 31 (i+1)]`, `i < ⌈|b|/31⌉`, agree. -/
theorem chunks31_eq_spec (b : Bytes) : chunks31 b = Spec.Mimc7.chunks b := by
  induction b using chunks31.induct with
  | case1 b h =>
    rw [chunks31]
    simp [h, Spec.Mimc7.chunks]
  | case2 b h ih =>
    rw [chunks31]
    simp only [h, dite_false, ih, Spec.Mimc7.chunks]
    have hk : (b.length + 30) / 31 = ((b.drop 31).length + 30) / 31 + 1 := by
      rw [List.length_drop]; omega
    rw [hk, List.range_succ_eq_map, List.map_cons, List.map_map]
    congr 1
    apply List.map_congr_left
    intro i _
    simp only [Function.comp, List.drop_drop]
    congr 2
    omega

theorem chunks31_length (b : Bytes) : (chunks31 b).length = (b.length + 30) / 31 := by
  rw [chunks31_eq_spec, Spec.Mimc7.chunks, List.length_map, List.length_range]

theorem chunks31_getElem (b : Bytes) (i : Nat) (h : i < (chunks31 b).length) :
    (chunks31 b)[i] = (b.drop (31 * i)).take 31 := by
  simp only [chunks31_eq_spec, Spec.Mimc7.chunks, List.getElem_map, List.getElem_range]

end I3.Lemmas.Mimc7
