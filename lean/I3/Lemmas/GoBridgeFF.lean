/-
  I3.Lemmas.GoBridgeFF — bridge between the definitions GENERATED from /repo/ff/element.go and
  /repo/ffg/element.go by the source translator T6 (`I3.Gen.Go.ff_*`, `I3.Gen.Go.ffg_*`: `Div`,
  `BatchInvert`, `Exp`, `Legendre`, `Sqrt`) and the hand-written value-level model `I3.Model.FF`
  instantiated at `I3.Inst.ffCfg` / `I3.Inst.ffgCfg`, whose correctness is C18
  (I3.Props.C18, I3.Props.C18Inst).

  Layout:
  1. the Go loop combinators `forRange` / `forRangeN` / `forDown` / `whileFuel` as structural
     recursion (`iter`, `Nat.iterate`), stated once (namespace `I3.GoBridge`);
  2. closed facts about the regenerated constants: the moduli, the Montgomery literals of `1` and of
     the Tonelli–Shanks generator `g` (namespace `I3.GoBridge`);
  3. (namespace `I3.GoBridge.FF`, helper lemmas) generic twins `gDiv`, `gBatchInvert`, `gExp`,
     `gLegendre` of the generated functions, parameterised by the modulus — the generated functions
     are these twins by `rfl` — and their equality with the model for an arbitrary configuration;
  4. (namespace `I3.GoBridge.FF`) `Sqrt`: the two inner loops, the outer Tonelli–Shanks loop as
     structural recursion on the fuel with the full Go state (`tsRun`), its agreement with the
     model's `tsLoop` under the invariant `TSInv`, and termination within the fuel.  `Sqrt` has no
     generic twin: the kernel cannot compare two copies of the nested `whileFuel` term that differ
     only deep inside (matchers are unfolded eagerly and the loops get evaluated), so the generated
     definition is unfolded and rewritten in place; every step is either a propositional rewrite
     whose left-hand side matches the goal syntactically or a head reduction (`ff_head_whnf`) that
     leaves all other subterms untouched.  The script is the same for both fields;
  5./6. the bridge lemmas for ff and ffg (namespace `I3.GoBridge`):
     `ff_Element_Div_eq`, `ff_BatchInvert_eq`, `ff_Element_Exp_eq`, `ff_Element_Exp_eq_toNat`,
     `ff_Element_Legendre_eq`, `ff_Element_Sqrt_eq` and the `ffg_…` twins.

  Where canonicity (`x < m`) matters: only in `Exp` with exponent `1` (the Go code then returns `x`
  itself, the model `x % m`).  `Div`, `BatchInvert`, `Legendre`, `Sqrt` agree with the model for
  every natural operand (the exponents used by `Legendre` and `Sqrt` are not `1`).  For a NEGATIVE
  exponent `Exp` follows `big.Int.BitLen` (of `|e|`) and `big.Int.Bit` (two's complement); this is
  outside the model's domain — see the `example`s in sections 5 and 6.
-/
import I3.Gen.GoFF
import I3.Gen.GoFFG
import I3.Props.C18Inst
import Mathlib.Logic.Function.Iterate
import Mathlib.Tactic.Ring
import Mathlib.Tactic.Linarith
set_option linter.unusedVariables false
namespace I3.GoBridge
open I3 I3.Model.FF I3.Gen.Go

/-! ## 1. loops as structural recursion -/
section loops
universe u v
variable {σ : Type u} {ρ : Type v}

/-- `n` iterations of a body that sees the iteration number: the structural recursion all counted
Go loops are compared with. -/
def iter (g : Nat → σ → σ) : Nat → σ → σ
  | 0, s => s
  | n + 1, s => g n (iter g n s)

theorem foldl_range_iter (g : Nat → σ → σ) (n : Nat) (s : σ) :
    (List.range n).foldl (fun s k => g k s) s = iter g n s := by
  induction n with
  | zero => rfl
  | succ n ih => rw [List.range_succ, List.foldl_append, ih]; rfl

/-- `for i := lo; i < hi; i++` -/
theorem forRange_iter (lo hi : Int) (f : Int → σ → σ) (s : σ) :
    Go.forRange lo hi f s = iter (fun k => f (lo + (k : Int))) (hi - lo).toNat s :=
  foldl_range_iter _ _ _

/-- the same with an unsigned loop variable -/
theorem forRangeN_iter (lo hi : Nat) (f : Nat → σ → σ) (s : σ) :
    Go.forRangeN lo hi f s = iter (fun k => f (lo + k)) (hi - lo) s :=
  foldl_range_iter _ _ _

/-- `for i := hi; i >= lo; i--` -/
theorem forDown_iter (hi lo : Int) (f : Int → σ → σ) (s : σ) :
    Go.forDown hi lo f s = iter (fun k => f (hi - (k : Int))) (hi - lo + 1).toNat s :=
  foldl_range_iter _ _ _

theorem iter_const (f : σ → σ) (n : Nat) (s : σ) : iter (fun _ => f) n s = f^[n] s := by
  induction n with
  | zero => rfl
  | succ n ih => rw [iter, ih, Function.iterate_succ_apply']

theorem iter_congr {g g' : Nat → σ → σ} (n : Nat) (h : ∀ k, k < n → ∀ s, g k s = g' k s) (s : σ) :
    iter g n s = iter g' n s := by
  induction n with
  | zero => rfl
  | succ n ih =>
    rw [iter, iter, ih (fun k hk => h k (Nat.lt_succ_of_lt hk)), h n (Nat.lt_succ_self n)]

/-- one-step unfoldings of the fuelled loop -/
theorem whileFuel_exit {cond : σ → Bool} {body : σ → Option ρ × σ} {s : σ} (fuel : Nat)
    (hc : cond s = false) : Go.whileFuel (fuel + 1) cond body s = (false, none, s) := by
  simp [Go.whileFuel, hc]

theorem whileFuel_return {cond : σ → Bool} {body : σ → Option ρ × σ} {s s' : σ} {r : ρ}
    (fuel : Nat) (hc : cond s = true) (hb : body s = (some r, s')) :
    Go.whileFuel (fuel + 1) cond body s = (false, some r, s') := by
  simp [Go.whileFuel, hc, hb]

theorem whileFuel_continue {cond : σ → Bool} {body : σ → Option ρ × σ} {s s' : σ}
    (fuel : Nat) (hc : cond s = true) (hb : body s = (none, s')) :
    Go.whileFuel (fuel + 1) cond body s = Go.whileFuel fuel cond body s' := by
  simp [Go.whileFuel, hc, hb]

/-- **a fuelled `for cond { body }` whose body never returns is iteration of its step function**:
if the condition holds for the first `k ≤ fuel` iterates and fails at the `k`-th, the loop ends
normally (not exhausted, nothing returned) in the state `step^[k] s`. -/
theorem whileFuel_iterate {cond : σ → Bool} {body : σ → Option ρ × σ} {step : σ → σ}
    (hbody : ∀ s, body s = (none, step s)) :
    ∀ (k fuel : Nat) (s : σ), k ≤ fuel → (∀ i, i < k → cond (step^[i] s) = true) →
      cond (step^[k] s) = false →
      Go.whileFuel fuel cond body s = (false, none, step^[k] s)
  | 0, 0, s, _, _, hk => by
    simp only [Function.iterate_zero, id_eq] at hk
    simp [Go.whileFuel, hk]
  | 0, fuel + 1, s, _, _, hk => whileFuel_exit fuel hk
  | k + 1, 0, s, h, _, _ => by omega
  | k + 1, fuel + 1, s, h, hlt, hk => by
    have h0 : cond s = true := hlt 0 (Nat.succ_pos k)
    rw [whileFuel_continue fuel h0 (hbody s),
      whileFuel_iterate hbody k fuel (step s) (by omega)
        (fun i hi => by simpa using hlt (i + 1) (by omega)) (by simpa using hk)]
    rfl
end loops
/-! ## 2. closed facts about the regenerated constants -/

theorem ff_modulus_q : Gen.ff_modulus = I3.q := by decide +kernel
theorem ffg_modulus_gp : Gen.ffg_modulus = I3.gp := by decide +kernel
theorem ffCfg_m : Inst.ffCfg.m = Gen.ff_modulus := rfl
theorem ffgCfg_m : Inst.ffgCfg.m = Gen.ffg_modulus := rfl

theorem ff_one_lit : Go.fe.ofMont Gen.ff_modulus
    [12436184717236109307, 3962172157175319849, 7381016538464732718, 1011752739694698287] = 1 := by
  decide +kernel
theorem ffg_one_lit : Go.fe.ofMont Gen.ffg_modulus [4294967295] = 1 := by decide +kernel
theorem ff_g_lit : Go.fe.ofMont Gen.ff_modulus
    [7164790868263648668, 11685701338293206998, 6216421865291908056, 1756667274303109607]
      = Inst.ffCfg.fromMont Inst.ffCfg.gMont := by decide +kernel
theorem ffg_g_lit : Go.fe.ofMont Gen.ffg_modulus [15733474329512464024]
      = Inst.ffgCfg.fromMont Inst.ffgCfg.gMont := by decide +kernel
theorem ff_r_lit : (28 : Nat) = Inst.ffCfg.r := by decide +kernel
theorem ffg_r_lit : (32 : Nat) = Inst.ffgCfg.r := by decide +kernel
/-- general: ofMont is fromMont of the limb value -/
theorem ofMont_eq (c : Model.FF.Cfg) (l : List Nat) (hl : l.length = c.limbs) :
    Go.fe.ofMont c.m l = c.fromMont (Inst.limbsVal l) := by
  unfold Go.fe.ofMont Model.FF.Cfg.fromMont Model.FF.Cfg.R Inst.limbsVal
  simp only [hl]
  rw [Nat.mod_mul_mod]
  rfl
namespace FF

/-! ## 3. generic twins of the generated functions -/

def gDiv (M : Nat) (z : Nat) (x : Nat) (y : Nat) : (Nat × Nat) :=
  let yInv : Nat := (default : Nat)
  let yInv := (I3.Go.fe.inverse M y)
  let z := (I3.Go.fe.mul M x yInv)
  (z, z)

def gBatchInvert (M : Nat) (a : (List Nat)) : (List Nat) :=
  let res := (I3.Go.make (I3.Go.len a) : (List Nat))
  if ((I3.Go.len a) == (0 : Int)) then (
    res)
  else (
    let zeroes := (I3.Go.make (I3.Go.len a) : (List Bool))
    let accumulator := (I3.Go.fe.one M)
    let (res, zeroes, accumulator) : ((List Nat) × (List Bool) × Nat) := I3.Go.forRange (σ := ((List Nat) × (List Bool) × Nat)) (0 : Int) (I3.Go.len a) (fun i (res, zeroes, accumulator) =>
        if ((I3.Go.idx a i) == (0 : Nat)) then (
          let zeroes := (I3.Go.set zeroes i true)
          (res, zeroes, accumulator))
        else (
          let res := (I3.Go.set res i accumulator)
          let accumulator := (I3.Go.fe.mul M accumulator (I3.Go.idx a i))
          (res, zeroes, accumulator))) (res, zeroes, accumulator)
    let accumulator := (I3.Go.fe.inverse M accumulator)
    let (res, accumulator) : ((List Nat) × Nat) := I3.Go.forDown (σ := ((List Nat) × Nat)) ((I3.Go.len a) - (1 : Int)) (0 : Int) (fun i_2 (res, accumulator) =>
        if (I3.Go.idx zeroes i_2) then (
          (res, accumulator))
        else (
          let res := (I3.Go.set res i_2 (I3.Go.fe.mul M (I3.Go.idx res i_2) accumulator))
          let accumulator := (I3.Go.fe.mul M accumulator (I3.Go.idx a i_2))
          (res, accumulator))) (res, accumulator)
    res)

def gExp (M : Nat) (z : Nat) (x : Nat) (exponent : Int) : (Nat × Nat) :=
  let bZero : Int := (default : Int)
  if ((I3.Go.big.cmp exponent bZero) == (0 : Int)) then (
    let z := (I3.Go.fe.one M)
    (z, z))
  else (
    let z := x
    let z : Nat := I3.Go.forDown (σ := Nat) ((I3.Go.big.bitLen exponent) - (2 : Int)) (0 : Int) (fun i z =>
        let z := (I3.Go.fe.square M z)
        let z : Nat := if ((I3.Go.big.bit exponent i) == (1 : Nat)) then (
          let z := (I3.Go.fe.mul M z x)
          z)
        else (
          z)
        z) z
    (z, z))

def gLegendre (M one legExp : Nat) (z : Nat) : Int :=
  let l : Nat := (default : Nat)
  let (r_1, m_2) := (gExp M l z ((legExp : Nat) : Int))
  let l := m_2
  if (l == (0 : Nat)) then (
    (0 : Int))
  else (
    if (l == one) then (
      (1 : Int))
    else (
      (-1 : Int)))


/-! ### Exp -/

theorem foldl_start_mod (f : Nat → Nat → Nat) (m : Nat) (hf : ∀ z j, f (z % m) j = f z j) :
    ∀ (l : List Nat), l ≠ [] → ∀ x, l.foldl f (x % m) = l.foldl f x
  | [], h, _ => absurd rfl h
  | j :: l, _, x => by rw [List.foldl_cons, List.foldl_cons, hf]

theorem bitLen_two_le {e : Nat} (he : 2 ≤ e) : 2 ≤ bitLen e := by
  have h0 : e ≠ 0 := by omega
  have : 1 ≤ Nat.log2 e := (Nat.le_log2 h0).2 (by simpa using he)
  simp only [bitLen, h0, if_false]
  omega

theorem big_cmp_zero (e : Nat) : (Go.big.cmp (e : Int) default == (0 : Int)) = decide (e = 0) := by
  have hd : (default : Int) = 0 := rfl
  unfold Go.big.cmp
  rw [hd]
  by_cases h : e = 0
  · subst h; rfl
  · have h1 : ¬ ((e : Int) < 0) := by omega
    have h2 : ¬ ((e : Int) = 0) := by omega
    simp [h1, h]

theorem big_bit_natCast (e : Nat) (i : Int) : Go.big.bit (e : Int) i = bitAt e i.toNat := by
  unfold Go.big.bit
  rw [if_pos (Int.natCast_nonneg e), Int.toNat_natCast]

theorem big_bitLen_natCast (e : Nat) : Go.big.bitLen (e : Int) = ((bitLen e : Nat) : Int) := by
  unfold Go.big.bitLen
  rw [Int.natAbs_natCast]

/-- `Exp` for a non-negative exponent: the generated square-and-multiply loop is the model's.
Canonicity of `x` matters only for the exponent `1`, where the Go code returns `x` itself. -/
theorem gExp_eq (c : Cfg) (z x e : Nat) (hx : x < c.m ∨ e ≠ 1) :
    gExp c.m z x (e : Int) = (exp c x e, exp c x e) := by
  unfold gExp exp
  simp only [big_cmp_zero, decide_eq_true_eq]
  by_cases h0 : e = 0
  · rw [if_pos h0, if_pos h0]; rfl
  · rw [if_neg h0, if_neg h0]
    have hn : 1 ≤ bitLen e := bitLen_pos h0
    have key : Go.forDown (Go.big.bitLen (e : Int) - 2) 0 (fun i z =>
        let z := Go.fe.square c.m z
        let z : Nat := if (Go.big.bit (e : Int) i == 1) then (let z := Go.fe.mul c.m z x; z) else z
        z) x =
        (List.range (bitLen e - 1)).foldl (fun z j =>
          let i := bitLen e - 2 - j
          let z := z * z % c.m
          if bitAt e i = 1 then z * x % c.m else z) (x % c.m) := by
      unfold Go.forDown
      rw [big_bitLen_natCast]
      have hlen : (((bitLen e : Nat) : Int) - 2 - 0 + 1).toNat = bitLen e - 1 := by omega
      rw [hlen]
      have hbody : ∀ (a : Nat), ∀ k ∈ List.range (bitLen e - 1),
          (fun (s : Nat) (k : Nat) => (fun (i : Int) (z : Nat) =>
            let z := Go.fe.square c.m z
            let z : Nat := if (Go.big.bit (e : Int) i == 1) then (let z := Go.fe.mul c.m z x; z) else z
            z) (((bitLen e : Nat) : Int) - 2 - (k : Int)) s) a k =
          (fun z j =>
            let i := bitLen e - 2 - j
            let z := z * z % c.m
            if bitAt e i = 1 then z * x % c.m else z) a k := by
        intro a k hk
        have hk' : k < bitLen e - 1 := List.mem_range.1 hk
        have hi : (((bitLen e : Nat) : Int) - 2 - (k : Int)).toNat = bitLen e - 2 - k := by omega
        simp only [big_bit_natCast, hi, Go.fe.square, Go.fe.mul, beq_iff_eq]
      rw [List.foldl_ext _ _ _ hbody]
      rcases hx with hx | hx
      · rw [Nat.mod_eq_of_lt hx]
      · symm
        apply foldl_start_mod
        · intro z j
          simp only [← Nat.mul_mod]
        · have : 2 ≤ bitLen e := bitLen_two_le (by omega)
          intro hnil
          have := congrArg List.length hnil
          simp at this
          omega
    simp only [key]


/-! ### BatchInvert -/

theorem take_succ_getD {α} (l : List α) (k : Nat) (d : α) (hk : k < l.length) :
    l.take (k + 1) = l.take k ++ [l.getD k d] := by
  rw [List.take_add_one, List.getD_eq_getElem?_getD, List.getElem?_eq_getElem hk]
  rfl

theorem set_at_length {α} (l : List α) (v d : α) (j : Nat) :
    (l ++ List.replicate (j + 1) d).set l.length v = (l ++ [v]) ++ List.replicate j d := by
  simp [List.replicate_succ]

theorem append_replicate_succ {α} (l : List α) (d : α) (j : Nat) :
    l ++ List.replicate (j + 1) d = (l ++ [d]) ++ List.replicate j d := by
  simp [List.replicate_succ]

theorem bi_fwd (c : Cfg) (a : List Nat)
    (f : Int → (List Nat × List Bool × Nat) → (List Nat × List Bool × Nat))
    (hf : ∀ (i : Int) res zs acc, f i (res, zs, acc) =
      if (Go.idx a i == 0) then (res, Go.set zs i true, acc)
      else (Go.set res i acc, zs, Go.fe.mul c.m acc (Go.idx a i))) :
    ∀ k, k ≤ a.length →
      iter (fun k => f (0 + (k : Int))) k
          (List.replicate a.length 0, List.replicate a.length false, 1 % c.m) =
        (((a.take k).foldl (biStep1 c) ([], 1 % c.m)).1.reverse ++ List.replicate (a.length - k) 0,
         (a.take k).map (· == 0) ++ List.replicate (a.length - k) false,
         ((a.take k).foldl (biStep1 c) ([], 1 % c.m)).2)
      ∧ ((a.take k).foldl (biStep1 c) ([], 1 % c.m)).1.length = k := by
  intro k
  induction k with
  | zero => intro _; simp [iter]
  | succ k ih =>
    intro hk
    obtain ⟨ih, ihl⟩ := ih (by omega)
    have hk' : k < a.length := hk
    rw [iter, ih, hf, take_succ_getD a k default hk', List.foldl_append]
    have hidx : Go.idx a (0 + (k : Int)) = a.getD k default := by
      unfold Go.idx; simp
    rw [hidx]
    generalize a.getD k default = x
    generalize (a.take k).foldl (biStep1 c) ([], 1 % c.m) = st at ihl ⊢
    obtain ⟨pr, acc⟩ := st
    simp only at ihl
    have hn : a.length - k = (a.length - (k + 1)) + 1 := by omega
    have hl1 : pr.reverse.length = (0 + (k : Int)).toNat := by simp [ihl]
    have hl2 : ((a.take k).map (· == 0)).length = (0 + (k : Int)).toNat := by
      simp [List.length_take]; omega
    simp only [List.foldl_cons, List.foldl_nil, biStep1, Go.set, Go.fe.mul, hn]
    by_cases hx : x = 0
    · rw [if_pos (by simpa using hx), if_pos hx]
      rw [← hl2, set_at_length, append_replicate_succ]
      simp [hx, ihl]
    · rw [if_neg (by simpa using hx), if_neg hx]
      rw [← hl1, set_at_length, append_replicate_succ ((a.take k).map (· == 0))]
      simp [hx, ihl]
theorem getD_at_length {α} (l : List α) (v d : α) (T : List α) :
    (l ++ v :: T).getD l.length d = v := by simp

theorem set_at_length' {α} (l : List α) (v w : α) (T : List α) :
    (l ++ v :: T).set l.length w = l ++ w :: T := by simp

/-- the forward pass writes `0` wherever the input holds `0` -/
theorem bi_zero_fact (c : Cfg) (l : List Nat) :
    (l.foldl (biStep1 c) ([], 1 % c.m)).1.length = l.length ∧
    ∀ xp ∈ List.zip l.reverse (l.foldl (biStep1 c) ([], 1 % c.m)).1, xp.1 = 0 → xp.2 = 0 := by
  induction l using List.reverseRecOn with
  | nil => simp
  | append_singleton l x ih =>
    rw [List.foldl_append, List.foldl_cons, List.foldl_nil, List.reverse_append,
      List.reverse_singleton, List.singleton_append]
    generalize l.foldl (biStep1 c) ([], 1 % c.m) = st at ih ⊢
    obtain ⟨pr, acc⟩ := st
    obtain ⟨ih1, ih2⟩ := ih
    simp only at ih1 ih2
    unfold biStep1
    by_cases hx : x = 0
    · simp only [if_pos hx, List.zip_cons_cons, List.mem_cons, List.length_cons, List.length_append,
        List.length_nil, ih1, true_and]
      rintro xp (rfl | h) h0
      · rfl
      · exact ih2 xp h h0
    · simp only [if_neg hx, List.zip_cons_cons, List.mem_cons, List.length_cons, List.length_append,
        List.length_nil, ih1, true_and]
      rintro xp (rfl | h) h0
      · exact absurd h0 hx
      · exact ih2 xp h h0

theorem bi_bwd (c : Cfg) (a P : List Nat) (hP : P.length = a.length)
    (hzero : ∀ xp ∈ List.zip a.reverse P, xp.1 = 0 → xp.2 = 0) (inv0 : Nat)
    (f : Int → (List Nat × Nat) → (List Nat × Nat))
    (hf : ∀ (i : Int) res acc, f i (res, acc) =
      if Go.idx (a.map (· == 0)) i then (res, acc)
      else (Go.set res i (Go.fe.mul c.m (Go.idx res i) acc), Go.fe.mul c.m acc (Go.idx a i))) :
    ∀ j, j ≤ a.length →
      iter (fun k => f (((a.length : Int) - 1) - (k : Int))) j (P.reverse, inv0) =
        (P.reverse.take (a.length - j) ++
            (((List.zip a.reverse P).take j).foldl (biStep2 c) ([], inv0)).1,
          (((List.zip a.reverse P).take j).foldl (biStep2 c) ([], inv0)).2) := by
  intro j
  induction j with
  | zero =>
    intro _
    simp [iter, ← hP]
  | succ j ih =>
    intro hj
    have ih := ih (by omega)
    have hj' : j < a.length := hj
    have hLlen : j < (List.zip a.reverse P).length := by simp [hP]; omega
    have hi : (((a.length : Int) - 1) - (j : Int)).toNat = a.length - 1 - j := by omega
    have hRlen : P.reverse.length = a.length := by simp [hP]
    have hn : a.length - j = (a.length - 1 - j) + 1 := by omega
    have hn' : a.length - (j + 1) = a.length - 1 - j := by omega
    have htl : (P.reverse.take (a.length - 1 - j)).length = a.length - 1 - j := by
      rw [List.length_take, hRlen]; omega
    have hL : (List.zip a.reverse P).getD j default
        = (a.getD (a.length - 1 - j) default, P.reverse.getD (a.length - 1 - j) default) := by
      have h1 : j < a.reverse.length := by simp; omega
      have h2 : j < P.length := by omega
      have h3 : a.length - 1 - j < a.length := by omega
      have h4 : a.length - 1 - j < P.reverse.length := by omega
      have h5 : P.length - 1 - (a.length - 1 - j) = j := by omega
      rw [List.getD_eq_getElem?_getD, List.getD_eq_getElem?_getD, List.getD_eq_getElem?_getD,
        List.getElem?_eq_getElem hLlen, List.getElem?_eq_getElem h3, List.getElem?_eq_getElem h4]
      simp only [List.getElem_zip, List.getElem_reverse, Option.getD_some, h5]
    have hmem : (List.zip a.reverse P).getD j default ∈ List.zip a.reverse P := by
      rw [List.getD_eq_getElem?_getD, List.getElem?_eq_getElem hLlen]
      exact List.getElem_mem _
    have hZ : Go.idx (a.map (· == 0)) (((a.length : Int) - 1) - (j : Int))
        = (a.getD (a.length - 1 - j) default == 0) := by
      have h3 : a.length - 1 - j < a.length := by omega
      unfold Go.idx
      rw [hi, List.getD_eq_getElem?_getD, List.getD_eq_getElem?_getD, List.getElem?_map,
        List.getElem?_eq_getElem h3]
      rfl
    have hA : Go.idx a (((a.length : Int) - 1) - (j : Int)) = a.getD (a.length - 1 - j) default := by
      unfold Go.idx; rw [hi]
    rw [iter, ih, hf, hZ, hA, take_succ_getD _ j default hLlen, List.foldl_append, hL, hn, hn',
      take_succ_getD _ _ default (by omega : a.length - 1 - j < P.reverse.length)]
    have hz := hzero _ hmem
    rw [hL] at hz
    simp only at hz
    generalize a.getD (a.length - 1 - j) default = x at hz ⊢
    generalize P.reverse.getD (a.length - 1 - j) default = p at hz ⊢
    generalize ((List.zip a.reverse P).take j).foldl (biStep2 c) ([], inv0) = st
    obtain ⟨T, acc⟩ := st
    simp only [List.foldl_cons, List.foldl_nil, biStep2, Go.set, Go.idx, Go.fe.mul, hi,
      List.append_assoc, List.singleton_append]
    by_cases hx : x = 0
    · rw [if_pos (by simpa using hx), if_pos hx, hz hx]
    · rw [if_neg (by simpa using hx), if_neg hx]
      generalize P.reverse.take (a.length - 1 - j) = Tk at htl ⊢
      rw [← htl, getD_at_length, set_at_length']
theorem len_ne_zero {a : List Nat} (h : a ≠ []) : (Go.len a == (0 : Int)) = false := by
  cases a with
  | nil => exact absurd rfl h
  | cons x l => simp [Go.len]; omega


theorem bi_fwd_all (c : Cfg) (a : List Nat)
    {f : Int → (List Nat × List Bool × Nat) → (List Nat × List Bool × Nat)}
    (hf : ∀ (i : Int) res zs acc, f i (res, zs, acc) =
      if (Go.idx a i == 0) then (res, Go.set zs i true, acc)
      else (Go.set res i acc, zs, Go.fe.mul c.m acc (Go.idx a i))) :
    Go.forRange 0 (Go.len a) f (Go.make (Go.len a), Go.make (Go.len a), Go.fe.one c.m) =
      ((a.foldl (biStep1 c) ([], 1 % c.m)).1.reverse, a.map (· == 0),
        (a.foldl (biStep1 c) ([], 1 % c.m)).2) := by
  have h := (bi_fwd c a f hf a.length le_rfl).1
  rw [List.take_length, Nat.sub_self] at h
  simp only [List.replicate_zero, List.append_nil] at h
  rw [forRange_iter, ← h]
  simp [Go.len, Go.make, Go.fe.one]

theorem bi_bwd_all (c : Cfg) (a : List Nat) (inv0 : Nat)
    {f : Int → (List Nat × Nat) → (List Nat × Nat)}
    (hf : ∀ (i : Int) res acc, f i (res, acc) =
      if Go.idx (a.map (· == 0)) i then (res, acc)
      else (Go.set res i (Go.fe.mul c.m (Go.idx res i) acc), Go.fe.mul c.m acc (Go.idx a i))) :
    Go.forDown (Go.len a - 1) 0 f ((a.foldl (biStep1 c) ([], 1 % c.m)).1.reverse, inv0) =
      (List.zip a.reverse (a.foldl (biStep1 c) ([], 1 % c.m)).1).foldl (biStep2 c) ([], inv0) := by
  obtain ⟨hlen, hzero⟩ := bi_zero_fact c a
  have h := bi_bwd c a _ hlen hzero inv0 f hf a.length le_rfl
  have hz : (List.zip a.reverse (a.foldl (biStep1 c) ([], 1 % c.m)).1).length = a.length := by
    simp [hlen]
  rw [Nat.sub_self, List.take_zero, List.nil_append, ← hz, List.take_length, hz] at h
  rw [forDown_iter]
  have : (Go.len a - 1 - 0 + 1).toNat = a.length := by simp [Go.len]
  rw [this]
  exact h

theorem gBatchInvert_eq (c : Cfg) (a : List Nat) : gBatchInvert c.m a = batchInvert c a := by
  unfold gBatchInvert
  by_cases h0 : a = []
  · subst h0; rfl
  · simp -iota only []
    rw [len_ne_zero h0, if_neg (by decide), bi_fwd_all c a (fun _ _ _ _ => rfl)]
    simp only []
    rw [bi_bwd_all c a _ (fun _ _ _ => rfl), batchInvert_unfold]
    rfl

/-! ### Div, Legendre -/

theorem gDiv_eq (c : Cfg) (z x y : Nat) : gDiv c.m z x y = (div c x y, div c x y) := rfl

theorem gLegendre_eq (c : Cfg) (x : Nat) (hx : x < c.m ∨ c.legExp ≠ 1) :
    gLegendre c.m (1 % c.m) c.legExp x = legendre c x := by
  unfold gLegendre legendre
  simp only [gExp_eq c _ x c.legExp hx, beq_iff_eq]

/-! ## 4. Sqrt -/

/-- what `Sqrt` returns: (result pointer, final receiver), terminated -/
abbrev Ret := (((Option Nat) × Nat) × Bool)
/-- the state of the outer loop: `(z, y, b, t, g, r)` -/
abbrev St := (Nat × Nat × Nat × Nat × Nat × Nat)

theorem sqPow_iterate (M : Nat) : ∀ n t, (fun t => t * t % M)^[n] t = sqPow M n t
  | 0, _ => rfl
  | n + 1, t => by rw [Function.iterate_succ_apply, sqPow_iterate M n, sqPow]

theorem sqPow_succ' (M : Nat) (n t : Nat) : sqPow M (n + 1) t = sqPow M n t * sqPow M n t % M := by
  rw [← sqPow_iterate, Function.iterate_succ_apply', sqPow_iterate]

/-- the `r - 1` squarings of the residue test -/
theorem forRangeN_square (M n t : Nat) :
    Go.forRangeN 0 n (fun _ t => Go.fe.square M t) t = sqPow M n t := by
  rw [forRangeN_iter, iter_const, Nat.sub_zero]
  exact sqPow_iterate M n t

theorem u64add_small {a b : Nat} (h : a + b < 2 ^ 64) : Go.u64add a b = a + b := by
  unfold Go.u64add; exact Nat.mod_eq_of_lt (by simpa using h)

theorem u64sub_small {a b : Nat} (hb : b ≤ a) (ha : a < 2 ^ 64) : Go.u64sub a b = a - b := by
  unfold Go.u64sub
  have hb' : b % 18446744073709551616 = b := Nat.mod_eq_of_lt (by norm_num at ha; omega)
  rw [hb']
  norm_num at ha
  omega

/-- inner loop 1 (`for t != 1 { t.Square(&t); m++ }`): counts the squarings needed to reach one. -/
theorem sqrt_inner1 {M : Nat} {c1 : Nat × Nat → Bool} {b1 : Nat × Nat → Option Ret × (Nat × Nat)}
    (hc1 : ∀ t m, c1 (t, m) = !(t == 1))
    (hb1 : ∀ t m, b1 (t, m) = (none, (Go.fe.square M t, Go.u64add m 1)))
    (j fuel t : Nat) (hj : j ≤ fuel) (hj64 : j < 2 ^ 64)
    (h1 : sqPow M j t = 1) (hmin : ∀ i, i < j → sqPow M i t ≠ 1) :
    Go.whileFuel fuel c1 b1 (t, 0) = (false, none, (1, j)) := by
  have hit : ∀ i k t, k + i < 2 ^ 64 →
      (fun s : Nat × Nat => (Go.fe.square M s.1, Go.u64add s.2 1))^[i] (t, k) = (sqPow M i t, k + i) := by
    intro i
    induction i with
    | zero => intro k t _; rfl
    | succ i ih =>
      intro k t hk
      have hk1 : Go.u64add k 1 = k + 1 := u64add_small (by omega)
      rw [Function.iterate_succ_apply]
      show (fun s : Nat × Nat => (Go.fe.square M s.1, Go.u64add s.2 1))^[i]
        (Go.fe.square M t, Go.u64add k 1) = _
      rw [hk1, ih (k + 1) _ (by omega), sqPow]
      exact Prod.ext rfl (by show k + 1 + i = k + (i + 1); omega)
  have hbody : ∀ s, b1 s = (none, (fun s : Nat × Nat => (Go.fe.square M s.1, Go.u64add s.2 1)) s) := by
    rintro ⟨t, m⟩; exact hb1 t m
  rw [whileFuel_iterate hbody j fuel (t, 0) hj, hit j 0 t (by omega), h1, Nat.zero_add]
  · intro i hi
    rw [hit i 0 t (by omega), hc1]
    simpa using hmin i hi
  · rw [hit j 0 t (by omega), hc1, h1]; rfl

/-- inner loop 2 (`for ge > 0 { t.Square(&t); ge-- }`): `ge` squarings. -/
theorem sqrt_inner2 {M : Nat} {c2 : Nat × Int → Bool} {b2 : Nat × Int → Option Ret × (Nat × Int)}
    (hc2 : ∀ t ge, c2 (t, ge) = decide (ge > (0 : Int)))
    (hb2 : ∀ t ge, b2 (t, ge) = (none, (Go.fe.square M t, ge - 1)))
    (n fuel t : Nat) (hn : n ≤ fuel) :
    Go.whileFuel fuel c2 b2 (t, (n : Int)) = (false, none, (sqPow M n t, 0)) := by
  have hit : ∀ i (k : Int) t,
      (fun s : Nat × Int => (Go.fe.square M s.1, s.2 - 1))^[i] (t, k) = (sqPow M i t, k - i) := by
    intro i
    induction i with
    | zero => intro k t; simp [sqPow]
    | succ i ih =>
      intro k t
      rw [Function.iterate_succ_apply, ih, sqPow]
      simp only [Go.fe.square]
      congr 1; push_cast; ring
  have hbody : ∀ s, b2 s = (none, (fun s : Nat × Int => (Go.fe.square M s.1, s.2 - 1)) s) := by
    rintro ⟨t, m⟩; exact hb2 t m
  rw [whileFuel_iterate hbody n fuel (t, (n : Int)) hn, hit, Int.sub_self]
  · intro i hi
    rw [hit, hc2]
    simp only [gt_iff_lt, sub_pos, Nat.cast_lt, decide_eq_true_eq]; exact hi
  · rw [hit, hc2]; simp


/-- under the Tonelli–Shanks invariant, inner loop 1 computes the model's `ordLog` -/
theorem sqrt_inner1_inv {M x y b g r : Nat} (hM : 1 < M) (inv : TSInv M x y b g r) (hr : r ≤ 64)
    {c1 : Nat × Nat → Bool} {b1 : Nat × Nat → Option Ret × (Nat × Nat)}
    (hc1 : ∀ t m, c1 (t, m) = !(t == 1))
    (hb1 : ∀ t m, b1 (t, m) = (none, (Go.fe.square M t, Go.u64add m 1))) :
    Go.whileFuel 80 c1 b1 (b, (default : Nat)) = (false, none, (1, ordLog M (r + 1) b 0)) := by
  obtain ⟨hlt, h1, hmin⟩ := ordLog_exact hM inv
  have hcast : ∀ i, sqPow M i b = 1 ↔ (b : ZMod M) ^ (2 ^ i) = 1 := fun i => by
    rw [← sqPow_cast, natCast_eq_one_of_lt hM (sqPow_lt i b inv.b_lt)]
  exact sqrt_inner1 hc1 hb1 _ 80 b (by omega) (by norm_num; omega) ((hcast _).2 h1)
    (fun i hi => fun h => hmin i hi ((hcast i).1 h))

/-- one iteration of the outer loop of `Sqrt` on the Go state `(z, y, b, t, g, r)` -/
def tsBody (M : Nat) (z y b g r : Nat) : Option Ret × St :=
  if ordLog M (r + 1) b 0 = 0 then (some ((some y, y), true), (y, y, b, 1, g, r))
  else
    (none, (z, y * sqPow M (r - ordLog M (r + 1) b 0 - 1) g % M,
      b * (sqPow M (r - ordLog M (r + 1) b 0 - 1) g * sqPow M (r - ordLog M (r + 1) b 0 - 1) g % M) % M,
      sqPow M (r - ordLog M (r + 1) b 0 - 1) g,
      sqPow M (r - ordLog M (r + 1) b 0 - 1) g * sqPow M (r - ordLog M (r + 1) b 0 - 1) g % M,
      ordLog M (r + 1) b 0))

/-- the outer loop of `Sqrt` as structural recursion on the fuel, with the full Go state; its
result is that of `Go.whileFuel`: (exhausted, returned value, final state) -/
def tsRun (M : Nat) : Nat → Nat → Nat → Nat → Nat → Nat → Nat → Bool × Option Ret × St
  | 0, z, y, b, t, g, r => (true, none, (z, y, b, t, g, r))
  | f + 1, z, y, b, t, g, r =>
    if ordLog M (r + 1) b 0 = 0 then (false, some ((some y, y), true), (y, y, b, 1, g, r))
    else
      tsRun M f z (y * sqPow M (r - ordLog M (r + 1) b 0 - 1) g % M)
        (b * (sqPow M (r - ordLog M (r + 1) b 0 - 1) g * sqPow M (r - ordLog M (r + 1) b 0 - 1) g % M) % M)
        (sqPow M (r - ordLog M (r + 1) b 0 - 1) g)
        (sqPow M (r - ordLog M (r + 1) b 0 - 1) g * sqPow M (r - ordLog M (r + 1) b 0 - 1) g % M)
        (ordLog M (r + 1) b 0)

/-- the outer `for { … }` of the generated `Sqrt` is `tsRun`, for every fuel, from every state that
satisfies the Tonelli–Shanks invariant -/
theorem outer_eq_tsRun {M x : Nat} (hp : M.Prime) (hM : 1 < M)
    {cond : St → Bool} {body : St → Option Ret × St} (hcond : ∀ s, cond s = true)
    (hbody : ∀ z y b t g r, TSInv M x y b g r → r ≤ 64 →
      body (z, y, b, t, g, r) = tsBody M z y b g r) :
    ∀ fuel z y b t g r, TSInv M x y b g r → r ≤ 64 →
      Go.whileFuel fuel cond body (z, y, b, t, g, r) = tsRun M fuel z y b t g r
  | 0, z, y, b, t, g, r, _, _ => by
    simp [Go.whileFuel, tsRun, hcond]
  | fuel + 1, z, y, b, t, g, r, inv, hr => by
    have hb := hbody z y b t g r inv hr
    unfold tsBody at hb
    rw [tsRun]
    by_cases h0 : ordLog M (r + 1) b 0 = 0
    · rw [if_pos h0] at hb ⊢
      exact whileFuel_return fuel (hcond _) hb
    · rw [if_neg h0] at hb ⊢
      have := Fact.mk hp
      have hlt := (ordLog_exact hM inv).1
      rw [whileFuel_continue fuel (hcond _) hb]
      exact outer_eq_tsRun hp hM hcond hbody fuel _ _ _ _ _ _ (tsInv_step hM inv h0) (by omega)

theorem tsRun_exhausted (M : Nat) : ∀ f z y b t g r,
    (tsRun M f z y b t g r).1 = (Model.FF.tsLoop M f y b g r).isNone
  | 0, _, _, _, _, _, _ => rfl
  | f + 1, z, y, b, t, g, r => by
    rw [tsRun, Model.FF.tsLoop]
    simp only
    split_ifs
    · rfl
    · exact tsRun_exhausted M f _ _ _ _ _ _

theorem tsRun_returned (M : Nat) : ∀ f z y b t g r,
    (tsRun M f z y b t g r).2.1 = (Model.FF.tsLoop M f y b g r).map (fun y' => ((some y', y'), true))
  | 0, _, _, _, _, _, _ => rfl
  | f + 1, z, y, b, t, g, r => by
    rw [tsRun, Model.FF.tsLoop]
    simp only
    split_ifs
    · rfl
    · exact tsRun_returned M f _ _ _ _ _ _

/-- more fuel does not change a result of the model loop -/
theorem tsLoop_mono (M : Nat) : ∀ f f' y b g r y', f ≤ f' → Model.FF.tsLoop M f y b g r = some y' →
    Model.FF.tsLoop M f' y b g r = some y'
  | 0, _, _, _, _, _, _, _, h => by simp [Model.FF.tsLoop] at h
  | f + 1, 0, _, _, _, _, _, hf, _ => by omega
  | f + 1, f' + 1, y, b, g, r, y', hf, h => by
    rw [Model.FF.tsLoop] at h ⊢
    simp only at h ⊢
    split_ifs at h ⊢ with h0
    · exact h
    · exact tsLoop_mono M f f' _ _ _ _ _ (by omega) h

open Lean Meta in
/-- head steps only: beta, zeta, and matchers whose discriminants are syntactically constructor
applications; never delta, never structure eta, nothing below the head (`n` bounds the number of
steps) -/
def headStep : Nat → Expr → MetaM Expr
  | 0, e => pure e
  | n + 1, e => do
    let e := e.headBeta
    match e with
    | .letE _ _ v b _ => headStep n (b.instantiate1 v)
    | .mdata _ e => headStep n e
    | _ =>
      let .const c _ := e.getAppFn | return e
      let some info ← getMatcherInfo? c | return e
      let args := e.getAppArgs
      if args.size < info.arity then return e
      let discrs := args.extract info.getFirstDiscrPos (info.getFirstDiscrPos + info.numDiscrs)
      for d in discrs do
        unless (← isConstructorApp d) do return e
      match ← reduceMatcher? e with
      | .reduced e' => headStep n e'
      | _ => return e

open Lean Meta Elab Tactic in
/-- head-normalise the left-hand side of an equation goal (see `headStep`), leaving every other
subterm untouched, so that the kernel re-checks the step by head reduction alone -/
elab "ff_head_whnf" : tactic => do
  let g ← getMainGoal
  let tgt ← instantiateMVars (← g.getType)
  let some (_, lhs, rhs) := tgt.eq? | throwError "ff_head_whnf: not an equation"
  let lhs' ← headStep 4096 lhs
  let g' ← g.replaceTargetDefEq (← mkEq lhs' rhs)
  replaceMainGoal [g']

theorem forRangeN_square' {M : Nat} {f : Nat → Nat → Nat} (hf : ∀ i t, f i t = Go.fe.square M t)
    (n t : Nat) : Go.forRangeN 0 n f t = sqPow M n t := by
  rw [← forRangeN_square]
  congr 1
  funext i t
  exact hf i t

/-- how `Sqrt` reports the model's result: `nil` with the receiver unchanged, or the root both as
the result and in the receiver -/
def sqrtRet (o : Option Nat) (z : Nat) : Option Nat × Nat :=
  match o with
  | some r => (some r, r)
  | none => (none, z)

/-- the three ways through the model's `sqrt`, with the invariant in the third -/
theorem sqrt_model_cases {c : Cfg} (h : c.WF) (x : Nat) :
    let w := exp c x c.sqrtExp
    let y := x * w % c.m
    let b := w * y % c.m
    let T := sqPow c.m (c.r - 1) b
    (T = 0 ∧ sqrt c x = some 0) ∨ (T ≠ 0 ∧ T ≠ 1 ∧ sqrt c x = none) ∨
    (T = 1 ∧ TSInv c.m x y b (c.fromMont c.gMont) c.r ∧
      sqrt c x = Model.FF.tsLoop c.m (c.r + 1) y b (c.fromMont c.gMont) c.r) := by
  intro w y b T
  have hs : sqrt c x = if T = 0 then some 0 else if T ≠ 1 % c.m then none
      else Model.FF.tsLoop c.m (c.r + 1) y b (c.fromMont c.gMont) c.r := rfl
  rw [h.one_mod] at hs
  by_cases h0 : T = 0
  · left; exact ⟨h0, by rw [hs, if_pos h0]⟩
  · by_cases h1 : T = 1
    · right; right
      refine ⟨h1, ?_, by rw [hs, if_neg h0, if_neg (by simpa using h1)]⟩
      apply sqrt_init_inv h x
      rw [← sqrt_t_cast h x]
      show ((T : ℕ) : ZMod c.m) = 1
      rw [h1]; simp
    · right; left
      exact ⟨h0, h1, by rw [hs, if_neg h0, if_pos h1]⟩


/-- inner loop 2 in the form it has in the outer loop body -/
theorem sqrt_inner2_inv {M x y b g r : Nat} (hM : 1 < M) (inv : TSInv M x y b g r) (hr : r ≤ 64)
    {c2 : Nat × Int → Bool} {b2 : Nat × Int → Option Ret × (Nat × Int)}
    (hc2 : ∀ t ge, c2 (t, ge) = decide (ge > (0 : Int)))
    (hb2 : ∀ t ge, b2 (t, ge) = (none, (Go.fe.square M t, ge - 1))) :
    Go.whileFuel 80 c2 b2 (g, (let w : Nat := Go.u64sub (Go.u64sub r (ordLog M (r + 1) b 0)) 1; if w < 9223372036854775808 then ((w : Nat) : Int) else ((w : Nat) : Int) - 18446744073709551616)) =
      (false, none, (sqPow M (r - ordLog M (r + 1) b 0 - 1) g, 0)) := by
  have hlt := (ordLog_exact hM inv).1
  have h1 : Go.u64sub r (ordLog M (r + 1) b 0) = r - ordLog M (r + 1) b 0 :=
    u64sub_small (by omega) (by norm_num; omega)
  have h2 : Go.u64sub (r - ordLog M (r + 1) b 0) 1 = r - ordLog M (r + 1) b 0 - 1 :=
    u64sub_small (by omega) (by norm_num; omega)
  rw [h1, h2]
  dsimp only
  rw [if_pos (by omega)]
  exact sqrt_inner2 hc2 hb2 _ 80 g (by omega)

/-- the outer loop, started from a state satisfying the invariant, returns the root the model
computes; it is not exhausted -/
theorem tsRun_result {M x : Nat} (hp : M.Prime) (hM : 1 < M) {y b g r : Nat}
    (inv : TSInv M x y b g r) (f f' : Nat) (hf : r + 1 ≤ f) (hf' : r + 1 ≤ f') (z t : Nat) :
    ∃ y', Model.FF.tsLoop M f y b g r = some y' ∧
      tsRun M f' z y b t g r = (false, some ((some y', y'), true), (tsRun M f' z y b t g r).2.2) := by
  have := Fact.mk hp
  obtain ⟨y'', hy'', _, _⟩ := tsLoop_correct hM (r + 1) y b g r le_rfl inv
  have e1 := tsLoop_mono M (r + 1) f y b g r y'' hf hy''
  have e2 := tsLoop_mono M (r + 1) f' y b g r y'' hf' hy''
  refine ⟨y'', e1, ?_⟩
  have h1 := tsRun_exhausted M f' z y b t g r
  have h2 := tsRun_returned M f' z y b t g r
  rw [e2] at h1 h2
  exact Prod.ext h1 (Prod.ext h2 rfl)

/-- everything the proof about a generated `Sqrt` needs, in the syntactic form in which the terms
appear in the unfolded generated definition (`M`, `r0`, `rm1`, `e`, `g0` are the literals of the
generated code; they are identified with the configuration by `rfl`) -/
theorem sqrt_facts {c : Cfg} (h : c.WF) (hr : c.r ≤ 64) (x : Nat) {M r0 rm1 e g0 : Nat}
    (hM : M = c.m) (hr0 : r0 = c.r) (hrm1 : rm1 = c.r - 1) (he : e = c.sqrtExp)
    (hg : g0 = c.fromMont c.gMont) :
    ((sqPow M rm1 (Go.fe.mul M (exp c x e) (Go.fe.mul M x (exp c x e))) == 0) = true ∧
        sqrt c x = some 0) ∨
    (¬ (sqPow M rm1 (Go.fe.mul M (exp c x e) (Go.fe.mul M x (exp c x e))) == 0) = true ∧
      (!(sqPow M rm1 (Go.fe.mul M (exp c x e) (Go.fe.mul M x (exp c x e))) == 1)) = true ∧
        sqrt c x = none) ∨
    (¬ (sqPow M rm1 (Go.fe.mul M (exp c x e) (Go.fe.mul M x (exp c x e))) == 0) = true ∧
      ¬ (!(sqPow M rm1 (Go.fe.mul M (exp c x e) (Go.fe.mul M x (exp c x e))) == 1)) = true ∧
      ∃ y', sqrt c x = some y' ∧
        ∀ {cond : St → Bool} {body : St → Option Ret × St}, (∀ s, cond s = true) →
          (∀ z y b t g r, TSInv M x y b g r → r ≤ 64 →
            body (z, y, b, t, g, r) = tsBody M z y b g r) →
          ∀ z, Go.whileFuel 80 cond body
              (z, Go.fe.mul M x (exp c x e), Go.fe.mul M (exp c x e) (Go.fe.mul M x (exp c x e)),
                sqPow M rm1 (Go.fe.mul M (exp c x e) (Go.fe.mul M x (exp c x e))), g0, r0) =
            (false, some ((some y', y'), true),
              (tsRun M 80 z (Go.fe.mul M x (exp c x e))
                (Go.fe.mul M (exp c x e) (Go.fe.mul M x (exp c x e)))
                (sqPow M rm1 (Go.fe.mul M (exp c x e) (Go.fe.mul M x (exp c x e)))) g0 r0).2.2)) := by
  subst hM hr0 hrm1 he hg
  rcases sqrt_model_cases h x with ⟨h0, hs⟩ | ⟨h0, h1, hs⟩ | ⟨h1, inv, hs⟩
  · left; exact ⟨by rw [beq_iff_eq]; exact h0, hs⟩
  · right; left
    refine ⟨by rw [beq_iff_eq]; exact h0, ?_, hs⟩
    rw [Bool.not_eq_true', beq_eq_false_iff_ne]; exact h1
  · right; right
    refine ⟨?_, ?_, ?_⟩
    · rw [beq_iff_eq]
      show sqPow c.m (c.r - 1) _ ≠ 0
      intro h0
      have : (1 : Nat) = 0 := h1.symm.trans h0
      omega
    · rw [Bool.not_eq_true', Bool.not_eq_false, beq_iff_eq]; exact h1
    · obtain ⟨y', hts, hrun⟩ := tsRun_result h.prime h.one_lt inv (c.r + 1) 80 le_rfl (by omega) 0 0
      refine ⟨y', hs.trans hts, ?_⟩
      intro cond body hcond hbody z
      obtain ⟨y'', hts', hrun'⟩ := tsRun_result h.prime h.one_lt inv (c.r + 1) 80 le_rfl (by omega) z
        (sqPow c.m (c.r - 1) (Go.fe.mul c.m (exp c x c.sqrtExp) (Go.fe.mul c.m x (exp c x c.sqrtExp))))
      obtain rfl : y' = y'' := Option.some.inj (hts.symm.trans hts')
      exact (outer_eq_tsRun h.prime h.one_lt hcond hbody 80 _ _ _ _ _ _ inv hr).trans hrun'

/-- the proof that the body of the outer loop of a generated `Sqrt` is `tsBody`: the same script
for both fields -/
macro "ff_sqrt_body_script" M:term:max hM:term:max : tactic => `(tactic| (
  intro z y b t g r inv hr
  ff_head_whnf
  rw [sqrt_inner1_inv $hM inv hr]
  · ff_head_whnf
    rw [if_neg Bool.false_ne_true]
    ff_head_whnf
    unfold tsBody
    by_cases hj : ordLog $M (r + 1) b 0 = 0
    · rw [if_pos (beq_iff_eq.2 hj), if_pos hj]
      all_goals rfl
    · rw [if_neg (mt beq_iff_eq.1 hj), if_neg hj]
      ff_head_whnf
      rw [sqrt_inner2_inv $hM inv hr]
      · ff_head_whnf
        rw [if_neg Bool.false_ne_true]
        ff_head_whnf
        rfl
      · intro _ _; rfl
      · intro _ _; rfl
  · intro _ _; rfl
  · intro _ _; rfl))


end FF

/-! ## 5. the generated functions of /repo/ff (BN254 scalar field) -/

section ff
open I3.Props.C18 FF

theorem ff_sqrtExp_ne_one : Gen.ff_sqrtExp ≠ 1 := by decide +kernel
theorem ff_legendreExp_ne_one : Gen.ff_legendreExp ≠ 1 := by decide +kernel
theorem ff_one_mod : (1 : Nat) = 1 % Inst.ffCfg.m := by decide +kernel
theorem ff_r_le : Inst.ffCfg.r ≤ 64 := by decide +kernel

/-- the generated functions are the generic twins at the regenerated modulus -/
theorem ff_Element_Div_g : ff_Element_Div = gDiv Gen.ff_modulus := rfl
theorem ff_BatchInvert_g : ff_BatchInvert = gBatchInvert Gen.ff_modulus := rfl
theorem ff_Element_Exp_g : ff_Element_Exp = gExp Gen.ff_modulus := rfl
theorem ff_Element_Legendre_g : ff_Element_Legendre = gLegendre Gen.ff_modulus
    (Go.fe.ofMont Gen.ff_modulus
      [12436184717236109307, 3962172157175319849, 7381016538464732718, 1011752739694698287])
    Gen.ff_legendreExp := rfl

/-- `ff.Element.Div`: both results are the model's `div`, for all operands (no canonicity). -/
theorem ff_Element_Div_eq (z x y : Nat) :
    ff_Element_Div z x y = (div Inst.ffCfg x y, div Inst.ffCfg x y) := rfl

/-- `ff.BatchInvert` is the model's `batchInvert`, for every list (no canonicity). -/
theorem ff_BatchInvert_eq (a : List Nat) : ff_BatchInvert a = batchInvert Inst.ffCfg a := by
  rw [ff_BatchInvert_g]; exact gBatchInvert_eq Inst.ffCfg a

/-- `ff.Element.Exp` for a non-negative exponent `e`: both results are the model's `exp`.
Canonicity of `x` is needed exactly for `e = 1`. -/
theorem ff_Element_Exp_eq (z x e : Nat) (hx : x < Gen.ff_modulus ∨ e ≠ 1) :
    ff_Element_Exp z x (e : Int) = (exp Inst.ffCfg x e, exp Inst.ffCfg x e) := by
  rw [ff_Element_Exp_g]; exact gExp_eq Inst.ffCfg z x e hx

theorem ff_Element_Exp_eq_toNat (z x : Nat) (e : Int) (he : 0 ≤ e)
    (hx : x < Gen.ff_modulus ∨ e ≠ 1) :
    ff_Element_Exp z x e = (exp Inst.ffCfg x e.toNat, exp Inst.ffCfg x e.toNat) := by
  obtain ⟨n, rfl⟩ := Int.eq_ofNat_of_zero_le he
  rw [Int.toNat_natCast]
  exact ff_Element_Exp_eq z x n (hx.imp id (fun h hn => h (by rw [hn]; rfl)))

/-- what the Go code does for a NEGATIVE exponent (`Bit` is two's complement, `BitLen` is of the
absolute value): not `x^e`, not `x^|e|`; e.g. `2^(-5)` is computed as `2^7`. -/
example : ff_Element_Exp 0 2 (-5) = (128, 128) := by decide +kernel
/-- the only place where a NON-canonical operand separates generated code and model: exponent `1` -/
example : ff_Element_Exp 0 (I3.q + 1) 1 = (I3.q + 1, I3.q + 1) ∧ exp Inst.ffCfg (I3.q + 1) 1 = 1 := by
  decide +kernel

/-- `ff.Element.Legendre` is the model's `legendre`, for every operand (no canonicity: the
exponent is not `1`). -/
theorem ff_Element_Legendre_eq (x : Nat) : ff_Element_Legendre x = legendre Inst.ffCfg x := by
  rw [ff_Element_Legendre_g, ff_one_lit, ff_one_mod]
  exact gLegendre_eq Inst.ffCfg x (Or.inr ff_legendreExp_ne_one)

/-- `ff.Element.Sqrt`: the loops terminate within the fuel (`terminated = true`) and the result is
the model's `sqrt`: `nil` with the receiver unchanged, or the root as result and receiver.  Holds
for every operand. -/
theorem ff_Element_Sqrt_eq (z x : Nat) :
    ff_Element_Sqrt z x = (sqrtRet (sqrt Inst.ffCfg x) z, true) := by
  unfold ff_Element_Sqrt
  ff_head_whnf
  rw [ff_Element_Exp_eq _ x _ (Or.inr ff_sqrtExp_ne_one)]
  ff_head_whnf
  rw [ff_one_lit, ff_g_lit, forRangeN_square' (fun _ _ => rfl), (by decide : Go.u64sub 28 1 = 27)]
  rcases sqrt_facts ff_wf ff_r_le x (M := Gen.ff_modulus) (r0 := 28) (rm1 := 27)
      (e := Gen.ff_sqrtExp) (g0 := Inst.ffCfg.fromMont Inst.ffCfg.gMont) rfl rfl rfl rfl rfl
    with ⟨h0, hs⟩ | ⟨h0, h1, hs⟩ | ⟨h0, h1, y', hs, hloop⟩
  · rw [hs, if_pos h0]; rfl
  · rw [hs, if_neg h0, if_pos h1]; rfl
  · rw [hs, if_neg h0, if_neg h1, hloop _ _ z]
    · ff_head_whnf
      rw [if_neg Bool.false_ne_true]
      ff_head_whnf
      rfl
    · rintro ⟨_, _, _, _, _, _⟩; rfl
    · have hM : 1 < Gen.ff_modulus := ff_wf.one_lt
      ff_sqrt_body_script Gen.ff_modulus hM

end ff

/-! ## 6. the generated functions of /repo/ffg (Goldilocks) -/

section ffg
open I3.Props.C18 FF

theorem ffg_sqrtExp_ne_one : Gen.ffg_sqrtExp ≠ 1 := by decide +kernel
theorem ffg_legendreExp_ne_one : Gen.ffg_legendreExp ≠ 1 := by decide +kernel
theorem ffg_one_mod : (1 : Nat) = 1 % Inst.ffgCfg.m := by decide +kernel
theorem ffg_r_le : Inst.ffgCfg.r ≤ 64 := by decide +kernel

/-- the generated functions are the generic twins at the regenerated modulus -/
theorem ffg_Element_Div_g : ffg_Element_Div = gDiv Gen.ffg_modulus := rfl
theorem ffg_BatchInvert_g : ffg_BatchInvert = gBatchInvert Gen.ffg_modulus := rfl
theorem ffg_Element_Exp_g : ffg_Element_Exp = gExp Gen.ffg_modulus := rfl
theorem ffg_Element_Legendre_g : ffg_Element_Legendre = gLegendre Gen.ffg_modulus
    (Go.fe.ofMont Gen.ffg_modulus
      [4294967295])
    Gen.ffg_legendreExp := rfl

/-- `ffg.Element.Div`: both results are the model's `div`, for all operands (no canonicity). -/
theorem ffg_Element_Div_eq (z x y : Nat) :
    ffg_Element_Div z x y = (div Inst.ffgCfg x y, div Inst.ffgCfg x y) := rfl

/-- `ffg.BatchInvert` is the model's `batchInvert`, for every list (no canonicity). -/
theorem ffg_BatchInvert_eq (a : List Nat) : ffg_BatchInvert a = batchInvert Inst.ffgCfg a := by
  rw [ffg_BatchInvert_g]; exact gBatchInvert_eq Inst.ffgCfg a

/-- `ffg.Element.Exp` for a non-negative exponent `e`: both results are the model's `exp`.
Canonicity of `x` is needed exactly for `e = 1`. -/
theorem ffg_Element_Exp_eq (z x e : Nat) (hx : x < Gen.ffg_modulus ∨ e ≠ 1) :
    ffg_Element_Exp z x (e : Int) = (exp Inst.ffgCfg x e, exp Inst.ffgCfg x e) := by
  rw [ffg_Element_Exp_g]; exact gExp_eq Inst.ffgCfg z x e hx

theorem ffg_Element_Exp_eq_toNat (z x : Nat) (e : Int) (he : 0 ≤ e)
    (hx : x < Gen.ffg_modulus ∨ e ≠ 1) :
    ffg_Element_Exp z x e = (exp Inst.ffgCfg x e.toNat, exp Inst.ffgCfg x e.toNat) := by
  obtain ⟨n, rfl⟩ := Int.eq_ofNat_of_zero_le he
  rw [Int.toNat_natCast]
  exact ffg_Element_Exp_eq z x n (hx.imp id (fun h hn => h (by rw [hn]; rfl)))

/-- what the Go code does for a NEGATIVE exponent (`Bit` is two's complement, `BitLen` is of the
absolute value): not `x^e`, not `x^|e|`; e.g. `2^(-5)` is computed as `2^7`. -/
example : ffg_Element_Exp 0 2 (-5) = (128, 128) := by decide +kernel
/-- the only place where a NON-canonical operand separates generated code and model: exponent `1` -/
example : ffg_Element_Exp 0 (I3.gp + 1) 1 = (I3.gp + 1, I3.gp + 1) ∧
    exp Inst.ffgCfg (I3.gp + 1) 1 = 1 := by
  decide +kernel

/-- `ffg.Element.Legendre` is the model's `legendre`, for every operand (no canonicity: the
exponent is not `1`). -/
theorem ffg_Element_Legendre_eq (x : Nat) : ffg_Element_Legendre x = legendre Inst.ffgCfg x := by
  rw [ffg_Element_Legendre_g, ffg_one_lit, ffg_one_mod]
  exact gLegendre_eq Inst.ffgCfg x (Or.inr ffg_legendreExp_ne_one)

/-- `ffg.Element.Sqrt`: the loops terminate within the fuel (`terminated = true`) and the result is
the model's `sqrt`: `nil` with the receiver unchanged, or the root as result and receiver.  Holds
for every operand. -/
theorem ffg_Element_Sqrt_eq (z x : Nat) :
    ffg_Element_Sqrt z x = (sqrtRet (sqrt Inst.ffgCfg x) z, true) := by
  unfold ffg_Element_Sqrt
  ff_head_whnf
  rw [ffg_Element_Exp_eq _ x _ (Or.inr ffg_sqrtExp_ne_one)]
  ff_head_whnf
  rw [ffg_one_lit, ffg_g_lit, forRangeN_square' (fun _ _ => rfl), (by decide : Go.u64sub 32 1 = 31)]
  rcases sqrt_facts ffg_wf ffg_r_le x (M := Gen.ffg_modulus) (r0 := 32) (rm1 := 31)
      (e := Gen.ffg_sqrtExp) (g0 := Inst.ffgCfg.fromMont Inst.ffgCfg.gMont) rfl rfl rfl rfl rfl
    with ⟨h0, hs⟩ | ⟨h0, h1, hs⟩ | ⟨h0, h1, y', hs, hloop⟩
  · rw [hs, if_pos h0]; rfl
  · rw [hs, if_neg h0, if_pos h1]; rfl
  · rw [hs, if_neg h0, if_neg h1, hloop _ _ z]
    · ff_head_whnf
      rw [if_neg Bool.false_ne_true]
      ff_head_whnf
      rfl
    · rintro ⟨_, _, _, _, _, _⟩; rfl
    · have hM : 1 < Gen.ffg_modulus := ffg_wf.one_lt
      ff_sqrt_body_script Gen.ffg_modulus hM

end ffg

end I3.GoBridge
