/-
  I3.Lemmas.InverseLoop — helpers for C05 `ff.Element.Inverse` (binary extended GCD, "Algorithm 16").

  1. piece lemmas: the straight-line pieces regenerated from /repo/ff/element.go (I3.Gen.FFInverse) are
     executed symbolically (`limb_eval`) and their effect is stated on VALUES (`val4`);
  2. value-level number theory of one iteration (coprimality, the two congruences, the measure);
  3. the hand-written fuel skeleton (I3.Model.FFInverse): inner loops, one outer iteration, the
     whole loop by induction on the fuel; independence of the destination cells.
-/
import I3.Model.FFInverse
import I3.Lemmas.LimbsField
import Mathlib.Data.Nat.GCD.Basic
namespace I3.InvLoop
open I3.Word I3.Gen.FFInv I3.Limbs I3.Model.FFInverse

-- `W` is the word modulus of I3.Exec.Word (inside `namespace I3` a bare `W` would resolve to the
-- equal but distinct constant `I3.W` of I3.Exec.Field)
local notation "W" => I3.Word.W

/-! ## 1. piece lemmas -/

theorem val4_mod2 (a b c d : Nat) : val4 a b c d % 2 = a % 2 := by
  simp only [val4, Word.W]; omega

theorem top_half_lt (a : Nat) (ha : a < W) : a / 2 < W := by
  simp only [Word.W] at *; omega

theorem loop1_cond_iff (carry s0 s1 s2 s3 v0 v1 v2 v3 : Nat) :
    Inverse_loop1_cond carry s0 s1 s2 s3 v0 v1 v2 v3 = true ↔ val4 v0 v1 v2 v3 % 2 = 0 := by
  unfold Inverse_loop1_cond
  rw [decide_eq_true_iff, Nat.and_one_is_mod, val4_mod2]

/-- one pass of `v >>= 1; if s odd { s += q }; s >>= 1` -/
theorem loop1_body_ok (carry s0 s1 s2 s3 v0 v1 v2 v3 : Nat)
    (hs0 : s0 < W) (hs1 : s1 < W) (hs2 : s2 < W) (hs3 : s3 < W)
    (hv0 : v0 < W) (hv1 : v1 < W) (hv2 : v2 < W) (hv3 : v3 < W)
    (hS : val4 s0 s1 s2 s3 < Q) :
    ∃ c' s0' s1' s2' s3' v0' v1' v2' v3',
      Inverse_loop1_body carry s0 s1 s2 s3 v0 v1 v2 v3 = (c', s0', s1', s2', s3', v0', v1', v2', v3') ∧
      s0' < W ∧ s1' < W ∧ s2' < W ∧ s3' < W ∧ v0' < W ∧ v1' < W ∧ v2' < W ∧ v3' < W ∧
      2 * val4 v0' v1' v2' v3' + v0 % 2 = val4 v0 v1 v2 v3 ∧
      val4 s0' s1' s2' s3' < Q ∧ (2 * val4 s0' s1' s2' s3') % Q = val4 s0 s1 s2 s3 := by
  have hodd : val4 s0 s1 s2 s3 % 2 = s0 % 2 := val4_mod2 _ _ _ _
  by_cases hb : (s0 &&& 1) = 1
  · obtain ⟨a0, c0, e0, ha0, hc0, g0⟩ := add64_spec s0 4891460686036598785 0 hs0 (by decide) (by decide)
    obtain ⟨a1, c1, e1, ha1, hc1, g1⟩ := add64_spec s1 2896914383306846353 c0 hs1 (by decide) hc0
    obtain ⟨a2, c2, e2, ha2, hc2, g2⟩ := add64_spec s2 13281191951274694749 c1 hs2 (by decide) hc1
    obtain ⟨a3, c3, e3, ha3, hc3, g3⟩ := add64_spec s3 3486998266802970665 c2 hs3 (by decide) hc2
    refine ⟨_, _, _, _, _, _, _, _, _, by limb_eval [Inverse_loop1_body], ?_⟩
    rw [shr_or a0 a1 ha0, shr_or a1 a2 ha1, shr_or a2 a3 ha2, shr_one,
      shr_or v0 v1 hv0, shr_or v1 v2 hv1, shr_or v2 v3 hv2, shr_one]
    have key := add_chain s0 s1 s2 s3 _ _ _ _ a0 a1 a2 a3 c0 c1 c2 c3 0 g0 g1 g2 g3
    rw [val4_Q] at key
    have ha0' : val4 a0 a1 a2 a3 % 2 = a0 % 2 := val4_mod2 _ _ _ _
    rw [Nat.and_one_is_mod] at hb
    have hfin := halve_arith_odd _ _ _ _ _ hS (hodd.trans hb) key
      (val4_lt a0 a1 a2 a3 ha0 ha1 ha2 ha3) (shr_chain a0 a1 a2 a3) ha0'
    exact ⟨shr_limb_lt a0 a1 ha0, shr_limb_lt a1 a2 ha1, shr_limb_lt a2 a3 ha2, top_half_lt a3 ha3,
      shr_limb_lt v0 v1 hv0, shr_limb_lt v1 v2 hv1, shr_limb_lt v2 v3 hv2, top_half_lt v3 hv3,
      shr_chain v0 v1 v2 v3, hfin.1, hfin.2⟩
  · refine ⟨_, _, _, _, _, _, _, _, _, by limb_eval [Inverse_loop1_body], ?_⟩
    rw [shr_or s0 s1 hs0, shr_or s1 s2 hs1, shr_or s2 s3 hs2, shr_one,
      shr_or v0 v1 hv0, shr_or v1 v2 hv1, shr_or v2 v3 hv2, shr_one]
    rw [Nat.and_one_is_mod] at hb
    have hfin := halve_arith_even _ _ _ hS (by omega) (shr_chain s0 s1 s2 s3) hodd
    exact ⟨shr_limb_lt s0 s1 hs0, shr_limb_lt s1 s2 hs1, shr_limb_lt s2 s3 hs2, top_half_lt s3 hs3,
      shr_limb_lt v0 v1 hv0, shr_limb_lt v1 v2 hv1, shr_limb_lt v2 v3 hv2, top_half_lt v3 hv3,
      shr_chain v0 v1 v2 v3, hfin.1, hfin.2⟩

theorem loop2_cond_eq : @Inverse_loop2_cond = @Inverse_loop1_cond := rfl
theorem loop2_body_eq : @Inverse_loop2_body = @Inverse_loop1_body := rfl

/-- the exit tests closing the main loop body, as printed by the translator -/
def tail (bigger : Bool) (borrow carry r0 r1 r2 r3 s0 s1 s2 s3 u0 u1 u2 u3 v0 v1 v2 v3 z0 z1 z2 z3 : Nat) :
    Option (Nat × Nat × Nat × Nat) × (Bool × Nat × Nat × Nat × Nat × Nat × Nat × Nat × Nat × Nat × Nat × Nat × Nat × Nat × Nat × Nat × Nat × Nat × Nat × Nat × Nat × Nat × Nat) :=
  if ((decide (u0 = 1)) && decide (((u3 ||| u2) ||| u1) = 0)) then
    (some (r0, r1, r2, r3), (bigger, borrow, carry, r0, r1, r2, r3, s0, s1, s2, s3, u0, u1, u2, u3, v0, v1, v2, v3, r0, r1, r2, r3))
  else
    if ((decide (v0 = 1)) && decide (((v3 ||| v2) ||| v1) = 0)) then
      (some (s0, s1, s2, s3), (bigger, borrow, carry, r0, r1, r2, r3, s0, s1, s2, s3, u0, u1, u2, u3, v0, v1, v2, v3, s0, s1, s2, s3))
    else
      (none, (bigger, borrow, carry, r0, r1, r2, r3, s0, s1, s2, s3, u0, u1, u2, u3, v0, v1, v2, v3, z0, z1, z2, z3))

/-- `limb_eval` after deciding the two exit tests -/
macro "seg1_eval" u0:term:max u1:term:max u2:term:max u3:term:max v0:term:max v1:term:max v2:term:max v3:term:max : tactic =>
  `(tactic| (
    by_cases e1 : ((decide ($u0 = 1)) && decide ((($u3 ||| $u2) ||| $u1) = 0)) = true
    · limb_eval [Inverse_seg1, tail]
    · by_cases e2 : ((decide ($v0 = 1)) && decide ((($v3 ||| $v2) ||| $v1) = 0)) = true
      · limb_eval [Inverse_seg1, tail]
      · limb_eval [Inverse_seg1, tail]))

theorem geLex_iff (v0 v1 v2 v3 u0 u1 u2 u3 : Nat)
    (hv0 : v0 < W) (hv1 : v1 < W) (hv2 : v2 < W) (hu0 : u0 < W) (hu1 : u1 < W) (hu2 : u2 < W) :
    (!((decide (v3 < u3) || ((decide (v3 = u3) && ((decide (v2 < u2) || ((decide (v2 = u2) && ((decide (v1 < u1) || ((decide (v1 = u1) && (decide (v0 < u0))))))))))))))) = true
     ↔ val4 u0 u1 u2 u3 ≤ val4 v0 v1 v2 v3 := by
  simp only [Bool.not_eq_true', Bool.or_eq_false_iff, Bool.and_eq_false_iff, decide_eq_false_iff_not, val4, Word.W] at *
  omega

/-- the arithmetic of `a -= b; if borrow { a += q }` on canonical values -/
theorem submod_arith1 (A B D E k c : Nat) (_hA : A < Q) (hB : B < Q) (hD : D < R) (hE : E < R)
    (key : D + B + 0 = A + k * R) (hk : k = 1) (key2 : E + c * R = D + Q + 0) :
    E < Q ∧ (E + B) % Q = A := by
  simp only [Q, R, Word.W] at *
  omega

theorem submod_arith0 (A B D k : Nat) (hA : A < Q) (hB : B < Q) (hD : D < R)
    (key : D + B + 0 = A + k * R) (hk : k ≤ 1) (hk1 : ¬ k = 1) :
    D < Q ∧ (D + B) % Q = A := by
  simp only [Q, R, Word.W] at hA hB hD key ⊢
  omega

theorem subval_arith (A B D k : Nat) (hD : D < R) (hle : B ≤ A) (key : D + B + 0 = A + k * R) :
    D + B = A := by
  simp only [R, Word.W] at *
  omega

theorem seg1_ge (carry r0 r1 r2 r3 s0 s1 s2 s3 u0 u1 u2 u3 v0 v1 v2 v3 : Nat)
    (hr0 : r0 < W) (hr1 : r1 < W) (hr2 : r2 < W) (hr3 : r3 < W)
    (hs0 : s0 < W) (hs1 : s1 < W) (hs2 : s2 < W) (hs3 : s3 < W)
    (hu0 : u0 < W) (hu1 : u1 < W) (hu2 : u2 < W) (hu3 : u3 < W)
    (hv0 : v0 < W) (hv1 : v1 < W) (hv2 : v2 < W) (hv3 : v3 < W)
    (hR : val4 r0 r1 r2 r3 < Q) (hS : val4 s0 s1 s2 s3 < Q)
    (hge : val4 u0 u1 u2 u3 ≤ val4 v0 v1 v2 v3) :
    ∃ b bo c s0' s1' s2' s3' v0' v1' v2' v3',
      s0' < W ∧ s1' < W ∧ s2' < W ∧ s3' < W ∧ v0' < W ∧ v1' < W ∧ v2' < W ∧ v3' < W ∧
      val4 v0' v1' v2' v3' + val4 u0 u1 u2 u3 = val4 v0 v1 v2 v3 ∧
      val4 s0' s1' s2' s3' < Q ∧ (val4 s0' s1' s2' s3' + val4 r0 r1 r2 r3) % Q = val4 s0 s1 s2 s3 ∧
      ∀ bigger borrow z0 z1 z2 z3,
        Inverse_seg1 bigger borrow carry r0 r1 r2 r3 s0 s1 s2 s3 u0 u1 u2 u3 v0 v1 v2 v3 z0 z1 z2 z3 =
          tail b bo c r0 r1 r2 r3 s0' s1' s2' s3' u0 u1 u2 u3 v0' v1' v2' v3' z0 z1 z2 z3 := by
  have hc := (geLex_iff v0 v1 v2 v3 u0 u1 u2 u3 hv0 hv1 hv2 hu0 hu1 hu2).2 hge
  obtain ⟨d0, k0, e0, hd0, hk0, f0⟩ := sub64_spec v0 u0 0 hv0 hu0 (by decide)
  obtain ⟨d1, k1, e1, hd1, hk1, f1⟩ := sub64_spec v1 u1 k0 hv1 hu1 hk0
  obtain ⟨d2, k2, e2, hd2, hk2, f2⟩ := sub64_spec v2 u2 k1 hv2 hu2 hk1
  obtain ⟨d3, k3, e3, hd3, hk3, f3⟩ := sub64_spec v3 u3 k2 hv3 hu3 hk2
  obtain ⟨t0, j0, e4, ht0, hj0, g0⟩ := sub64_spec s0 r0 0 hs0 hr0 (by decide)
  obtain ⟨t1, j1, e5, ht1, hj1, g1⟩ := sub64_spec s1 r1 j0 hs1 hr1 hj0
  obtain ⟨t2, j2, e6, ht2, hj2, g2⟩ := sub64_spec s2 r2 j1 hs2 hr2 hj1
  obtain ⟨t3, j3, e7, ht3, hj3, g3⟩ := sub64_spec s3 r3 j2 hs3 hr3 hj2
  have keyv := sub_chain v0 v1 v2 v3 u0 u1 u2 u3 d0 d1 d2 d3 k0 k1 k2 k3 0 f0 f1 f2 f3
  have keys := sub_chain s0 s1 s2 s3 r0 r1 r2 r3 t0 t1 t2 t3 j0 j1 j2 j3 0 g0 g1 g2 g3
  have hvv := subval_arith _ _ _ _ (val4_lt d0 d1 d2 d3 hd0 hd1 hd2 hd3) hge keyv
  by_cases hb : j3 = 1
  · obtain ⟨a0, c0, e8, ha0, hc0, h0⟩ := add64_spec t0 4891460686036598785 0 ht0 (by decide) (by decide)
    obtain ⟨a1, c1, e9, ha1, hc1, h1⟩ := add64_spec t1 2896914383306846353 c0 ht1 (by decide) hc0
    obtain ⟨a2, c2, e10, ha2, hc2, h2⟩ := add64_spec t2 13281191951274694749 c1 ht2 (by decide) hc1
    obtain ⟨a3, c3, e11, ha3, hc3, h3⟩ := add64_spec t3 3486998266802970665 c2 ht3 (by decide) hc2
    have key2 := add_chain t0 t1 t2 t3 _ _ _ _ a0 a1 a2 a3 c0 c1 c2 c3 0 h0 h1 h2 h3
    rw [val4_Q] at key2
    have hfin := submod_arith1 _ _ _ _ _ _ hS hR (val4_lt t0 t1 t2 t3 ht0 ht1 ht2 ht3)
      (val4_lt a0 a1 a2 a3 ha0 ha1 ha2 ha3) keys hb key2
    exact ⟨_, j3, c2, a0, a1, a2, a3, d0, d1, d2, d3, ha0, ha1, ha2, ha3, hd0, hd1, hd2, hd3, hvv, hfin.1, hfin.2,
      fun bigger borrow z0 z1 z2 z3 => by seg1_eval u0 u1 u2 u3 d0 d1 d2 d3⟩
  · have hfin := submod_arith0 _ _ _ _ hS hR (val4_lt t0 t1 t2 t3 ht0 ht1 ht2 ht3) keys hj3 hb
    exact ⟨_, j3, carry, t0, t1, t2, t3, d0, d1, d2, d3, ht0, ht1, ht2, ht3, hd0, hd1, hd2, hd3, hvv, hfin.1, hfin.2,
      fun bigger borrow z0 z1 z2 z3 => by seg1_eval u0 u1 u2 u3 d0 d1 d2 d3⟩

theorem seg1_lt (carry r0 r1 r2 r3 s0 s1 s2 s3 u0 u1 u2 u3 v0 v1 v2 v3 : Nat)
    (hr0 : r0 < W) (hr1 : r1 < W) (hr2 : r2 < W) (hr3 : r3 < W)
    (hs0 : s0 < W) (hs1 : s1 < W) (hs2 : s2 < W) (hs3 : s3 < W)
    (hu0 : u0 < W) (hu1 : u1 < W) (hu2 : u2 < W) (hu3 : u3 < W)
    (hv0 : v0 < W) (hv1 : v1 < W) (hv2 : v2 < W) (hv3 : v3 < W)
    (hR : val4 r0 r1 r2 r3 < Q) (hS : val4 s0 s1 s2 s3 < Q)
    (hlt : val4 v0 v1 v2 v3 < val4 u0 u1 u2 u3) :
    ∃ b bo c r0' r1' r2' r3' u0' u1' u2' u3',
      r0' < W ∧ r1' < W ∧ r2' < W ∧ r3' < W ∧ u0' < W ∧ u1' < W ∧ u2' < W ∧ u3' < W ∧
      val4 u0' u1' u2' u3' + val4 v0 v1 v2 v3 = val4 u0 u1 u2 u3 ∧
      val4 r0' r1' r2' r3' < Q ∧ (val4 r0' r1' r2' r3' + val4 s0 s1 s2 s3) % Q = val4 r0 r1 r2 r3 ∧
      ∀ bigger borrow z0 z1 z2 z3,
        Inverse_seg1 bigger borrow carry r0 r1 r2 r3 s0 s1 s2 s3 u0 u1 u2 u3 v0 v1 v2 v3 z0 z1 z2 z3 =
          tail b bo c r0' r1' r2' r3' s0 s1 s2 s3 u0' u1' u2' u3' v0 v1 v2 v3 z0 z1 z2 z3 := by
  have hc : ¬ ((!((decide (v3 < u3) || ((decide (v3 = u3) && ((decide (v2 < u2) || ((decide (v2 = u2) && ((decide (v1 < u1) || ((decide (v1 = u1) && (decide (v0 < u0))))))))))))))) = true) :=
    fun h => absurd ((geLex_iff v0 v1 v2 v3 u0 u1 u2 u3 hv0 hv1 hv2 hu0 hu1 hu2).1 h) (Nat.not_le.2 hlt)
  obtain ⟨d0, k0, e0, hd0, hk0, f0⟩ := sub64_spec u0 v0 0 hu0 hv0 (by decide)
  obtain ⟨d1, k1, e1, hd1, hk1, f1⟩ := sub64_spec u1 v1 k0 hu1 hv1 hk0
  obtain ⟨d2, k2, e2, hd2, hk2, f2⟩ := sub64_spec u2 v2 k1 hu2 hv2 hk1
  obtain ⟨d3, k3, e3, hd3, hk3, f3⟩ := sub64_spec u3 v3 k2 hu3 hv3 hk2
  obtain ⟨t0, j0, e4, ht0, hj0, g0⟩ := sub64_spec r0 s0 0 hr0 hs0 (by decide)
  obtain ⟨t1, j1, e5, ht1, hj1, g1⟩ := sub64_spec r1 s1 j0 hr1 hs1 hj0
  obtain ⟨t2, j2, e6, ht2, hj2, g2⟩ := sub64_spec r2 s2 j1 hr2 hs2 hj1
  obtain ⟨t3, j3, e7, ht3, hj3, g3⟩ := sub64_spec r3 s3 j2 hr3 hs3 hj2
  have keyu := sub_chain u0 u1 u2 u3 v0 v1 v2 v3 d0 d1 d2 d3 k0 k1 k2 k3 0 f0 f1 f2 f3
  have keyr := sub_chain r0 r1 r2 r3 s0 s1 s2 s3 t0 t1 t2 t3 j0 j1 j2 j3 0 g0 g1 g2 g3
  have huu := subval_arith _ _ _ _ (val4_lt d0 d1 d2 d3 hd0 hd1 hd2 hd3)
    (Nat.le_of_lt hlt) keyu
  by_cases hb : j3 = 1
  · obtain ⟨a0, c0, e8, ha0, hc0, h0⟩ := add64_spec t0 4891460686036598785 0 ht0 (by decide) (by decide)
    obtain ⟨a1, c1, e9, ha1, hc1, h1⟩ := add64_spec t1 2896914383306846353 c0 ht1 (by decide) hc0
    obtain ⟨a2, c2, e10, ha2, hc2, h2⟩ := add64_spec t2 13281191951274694749 c1 ht2 (by decide) hc1
    obtain ⟨a3, c3, e11, ha3, hc3, h3⟩ := add64_spec t3 3486998266802970665 c2 ht3 (by decide) hc2
    have key2 := add_chain t0 t1 t2 t3 _ _ _ _ a0 a1 a2 a3 c0 c1 c2 c3 0 h0 h1 h2 h3
    rw [val4_Q] at key2
    have hfin := submod_arith1 _ _ _ _ _ _ hR hS (val4_lt t0 t1 t2 t3 ht0 ht1 ht2 ht3)
      (val4_lt a0 a1 a2 a3 ha0 ha1 ha2 ha3) keyr hb key2
    exact ⟨_, j3, c2, a0, a1, a2, a3, d0, d1, d2, d3, ha0, ha1, ha2, ha3, hd0, hd1, hd2, hd3, huu, hfin.1, hfin.2,
      fun bigger borrow z0 z1 z2 z3 => by seg1_eval d0 d1 d2 d3 v0 v1 v2 v3⟩
  · have hfin := submod_arith0 _ _ _ _ hR hS (val4_lt t0 t1 t2 t3 ht0 ht1 ht2 ht3) keyr hj3 hb
    exact ⟨_, j3, carry, t0, t1, t2, t3, d0, d1, d2, d3, ht0, ht1, ht2, ht3, hd0, hd1, hd2, hd3, huu, hfin.1, hfin.2,
      fun bigger borrow z0 z1 z2 z3 => by seg1_eval d0 d1 d2 d3 v0 v1 v2 v3⟩

/-- shape of the tail segment for ARBITRARY words: everything but the exit tests is independent of
the incoming `bigger`, `borrow` and of the destination cells `z` -/
theorem seg1_tail (carry r0 r1 r2 r3 s0 s1 s2 s3 u0 u1 u2 u3 v0 v1 v2 v3 : Nat) :
    ∃ b bo c r0' r1' r2' r3' s0' s1' s2' s3' u0' u1' u2' u3' v0' v1' v2' v3',
      ∀ bigger borrow z0 z1 z2 z3,
        Inverse_seg1 bigger borrow carry r0 r1 r2 r3 s0 s1 s2 s3 u0 u1 u2 u3 v0 v1 v2 v3 z0 z1 z2 z3 =
          tail b bo c r0' r1' r2' r3' s0' s1' s2' s3' u0' u1' u2' u3' v0' v1' v2' v3' z0 z1 z2 z3 := by
  by_cases hc : (!((decide (v3 < u3) || ((decide (v3 = u3) && ((decide (v2 < u2) || ((decide (v2 = u2) && ((decide (v1 < u1) || ((decide (v1 = u1) && (decide (v0 < u0))))))))))))))) = true
  · rcases e0 : sub64 v0 u0 0 with ⟨d0, k0⟩
    rcases e1 : sub64 v1 u1 k0 with ⟨d1, k1⟩
    rcases e2 : sub64 v2 u2 k1 with ⟨d2, k2⟩
    rcases e3 : sub64 v3 u3 k2 with ⟨d3, k3⟩
    rcases e4 : sub64 s0 r0 0 with ⟨t0, j0⟩
    rcases e5 : sub64 s1 r1 j0 with ⟨t1, j1⟩
    rcases e6 : sub64 s2 r2 j1 with ⟨t2, j2⟩
    rcases e7 : sub64 s3 r3 j2 with ⟨t3, j3⟩
    by_cases hb : j3 = 1
    · rcases e8 : add64 t0 4891460686036598785 0 with ⟨a0, c0⟩
      rcases e9 : add64 t1 2896914383306846353 c0 with ⟨a1, c1⟩
      rcases e10 : add64 t2 13281191951274694749 c1 with ⟨a2, c2⟩
      rcases e11 : add64 t3 3486998266802970665 c2 with ⟨a3, c3⟩
      exact ⟨_, j3, c2, r0, r1, r2, r3, a0, a1, a2, a3, u0, u1, u2, u3, d0, d1, d2, d3,
        fun bigger borrow z0 z1 z2 z3 => by seg1_eval u0 u1 u2 u3 d0 d1 d2 d3⟩
    · exact ⟨_, j3, carry, r0, r1, r2, r3, t0, t1, t2, t3, u0, u1, u2, u3, d0, d1, d2, d3,
        fun bigger borrow z0 z1 z2 z3 => by seg1_eval u0 u1 u2 u3 d0 d1 d2 d3⟩
  · rcases e0 : sub64 u0 v0 0 with ⟨d0, k0⟩
    rcases e1 : sub64 u1 v1 k0 with ⟨d1, k1⟩
    rcases e2 : sub64 u2 v2 k1 with ⟨d2, k2⟩
    rcases e3 : sub64 u3 v3 k2 with ⟨d3, k3⟩
    rcases e4 : sub64 r0 s0 0 with ⟨t0, j0⟩
    rcases e5 : sub64 r1 s1 j0 with ⟨t1, j1⟩
    rcases e6 : sub64 r2 s2 j1 with ⟨t2, j2⟩
    rcases e7 : sub64 r3 s3 j2 with ⟨t3, j3⟩
    by_cases hb : j3 = 1
    · rcases e8 : add64 t0 4891460686036598785 0 with ⟨a0, c0⟩
      rcases e9 : add64 t1 2896914383306846353 c0 with ⟨a1, c1⟩
      rcases e10 : add64 t2 13281191951274694749 c1 with ⟨a2, c2⟩
      rcases e11 : add64 t3 3486998266802970665 c2 with ⟨a3, c3⟩
      exact ⟨_, j3, c2, a0, a1, a2, a3, s0, s1, s2, s3, d0, d1, d2, d3, v0, v1, v2, v3,
        fun bigger borrow z0 z1 z2 z3 => by seg1_eval d0 d1 d2 d3 v0 v1 v2 v3⟩
    · exact ⟨_, j3, carry, t0, t1, t2, t3, s0, s1, s2, s3, d0, d1, d2, d3, v0, v1, v2, v3,
        fun bigger borrow z0 z1 z2 z3 => by seg1_eval d0 d1 d2 d3 v0 v1 v2 v3⟩

/-! ## 2. value level -/

theorem halve_compose (S S1 S' k : Nat) (h1 : (2 * S1) % Q = S) (h2 : (2 ^ k * S') % Q = S1) :
    (2 ^ (k + 1) * S') % Q = S := by
  rw [← h1, ← h2, Nat.mul_mod_mod, pow_succ, Nat.mul_comm (2 ^ k) 2, Nat.mul_assoc]

theorem odd_two_pow_mul (a n : Nat) (h : (2 ^ a * n) % 2 = 1) : a = 0 := by
  rcases a with _ | a
  · rfl
  · exfalso
    have : 2 ^ (a + 1) * n = 2 * (2 ^ a * n) := by rw [pow_succ, Nat.mul_comm (2 ^ a) 2, Nat.mul_assoc]
    omega

/-- halving both sides of `x·S ≡ V·K` -/
theorem cong_halve (X V V' S S' k : Nat) (KK : ZMod Q) (hV : V = 2 ^ k * V') (hS : (2 ^ k * S') % Q = S)
    (h : (X : ZMod Q) * S = V * KK) : (X : ZMod Q) * S' = V' * KK := by
  have hS' : ((2 ^ k * S' : ℕ) : ZMod Q) = (S : ZMod Q) := by rw [← hS, ZMod.natCast_mod]
  subst hV
  push_cast at h hS'
  have h2 : (2 : ZMod Q) ^ k ≠ 0 := pow_ne_zero _ two_ne_zero
  apply mul_left_cancel₀ h2
  linear_combination h + (X : ZMod Q) * hS'

/-- subtracting `x·Rr ≡ U·K` from `x·S ≡ V·K` -/
theorem cong_sub (X U V V' Rr S S' : Nat) (KK : ZMod Q) (hV : V' + U = V) (hS : (S' + Rr) % Q = S)
    (h1 : (X : ZMod Q) * S = V * KK) (h2 : (X : ZMod Q) * Rr = U * KK) : (X : ZMod Q) * S' = V' * KK := by
  have hS' : ((S' + Rr : ℕ) : ZMod Q) = (S : ZMod Q) := by rw [← hS, ZMod.natCast_mod]
  subst hV
  push_cast at h1 hS'
  linear_combination h1 - h2 + (X : ZMod Q) * hS'

theorem coprime_halve_right (U V V' k : Nat) (hV : V = 2 ^ k * V') (h : Nat.Coprime U V) : Nat.Coprime U V' :=
  Nat.Coprime.coprime_dvd_right (Dvd.intro_left _ hV.symm) h

theorem coprime_sub_right (U V V' : Nat) (hV : V' + U = V) (h : Nat.Coprime U V) : Nat.Coprime U V' := by
  subst hV
  exact (Nat.coprime_add_self_right).1 h

/-- the termination measure: the product, doubled while both are odd -/
def mu (U V : Nat) : Nat := U * V * (if U % 2 = 1 ∧ V % 2 = 1 then 2 else 1)

theorem mu_pos (U V : Nat) (hU : 0 < U) (hV : 0 < V) : 0 < mu U V := by
  unfold mu
  split <;> positivity

theorem mu_ge (U V U1 V1 a b : Nat) (hU : U = 2 ^ a * U1) (hV : V = 2 ^ b * V1)
    (hU1 : U1 % 2 = 1) (hV1 : V1 % 2 = 1) : 2 * (U1 * V1) ≤ mu U V := by
  have pa : 1 ≤ 2 ^ a := Nat.one_le_two_pow
  have pb : 1 ≤ 2 ^ b := Nat.one_le_two_pow
  have hUle : U1 ≤ U := by rw [hU]; exact Nat.le_mul_of_pos_left _ pa
  have hVle : V1 ≤ V := by rw [hV]; exact Nat.le_mul_of_pos_left _ pb
  unfold mu
  by_cases hc : U % 2 = 1 ∧ V % 2 = 1
  · rw [if_pos hc, Nat.mul_comm _ 2]
    exact Nat.mul_le_mul_left _ (Nat.mul_le_mul hUle hVle)
  · rw [if_neg hc, Nat.mul_one]
    rcases a with _ | a
    · rcases b with _ | b
      · exfalso; apply hc; simp only [pow_zero, Nat.one_mul] at hU hV; subst hU hV; exact ⟨hU1, hV1⟩
      · have : V = 2 * (2 ^ b * V1) := by rw [hV, pow_succ, Nat.mul_comm (2 ^ b) 2, Nat.mul_assoc]
        have h1 : V1 ≤ 2 ^ b * V1 := Nat.le_mul_of_pos_left _ Nat.one_le_two_pow
        rw [this, Nat.mul_left_comm U 2]
        exact Nat.mul_le_mul_left _ (Nat.mul_le_mul hUle h1)
    · have : U = 2 * (2 ^ a * U1) := by rw [hU, pow_succ, Nat.mul_comm (2 ^ a) 2, Nat.mul_assoc]
      have h1 : U1 ≤ 2 ^ a * U1 := Nat.le_mul_of_pos_left _ Nat.one_le_two_pow
      rw [this, Nat.mul_assoc]
      exact Nat.mul_le_mul_left _ (Nat.mul_le_mul h1 hVle)

/-- after a subtraction of two odd numbers the measure is the plain product -/
theorem mu_sub (U1 V1 V2 : Nat) (hU1 : U1 % 2 = 1) (hV1 : V1 % 2 = 1) (hV : V2 + U1 = V1) (hpos : 0 < U1) :
    mu U1 V2 = U1 * V2 ∧ mu V2 U1 = U1 * V2 ∧ U1 * V2 < U1 * V1 := by
  have hev : ¬ V2 % 2 = 1 := by omega
  refine ⟨?_, ?_, ?_⟩
  · unfold mu; rw [if_neg (fun h => hev h.2), Nat.mul_one]
  · unfold mu; rw [if_neg (fun h => hev h.1), Nat.mul_one, Nat.mul_comm]
  · exact Nat.mul_lt_mul_of_pos_left (by omega) hpos


/-! ## 3. the fuel skeleton -/

def Uv (st : St) : Nat := val4 st.u0 st.u1 st.u2 st.u3
def Vv (st : St) : Nat := val4 st.v0 st.v1 st.v2 st.v3
def Rv (st : St) : Nat := val4 st.r0 st.r1 st.r2 st.r3
def Sv (st : St) : Nat := val4 st.s0 st.s1 st.s2 st.s3

/-- all sixteen working words are words -/
structure Limbs (st : St) : Prop where
  r0 : st.r0 < W
  r1 : st.r1 < W
  r2 : st.r2 < W
  r3 : st.r3 < W
  s0 : st.s0 < W
  s1 : st.s1 < W
  s2 : st.s2 < W
  s3 : st.s3 < W
  u0 : st.u0 < W
  u1 : st.u1 < W
  u2 : st.u2 < W
  u3 : st.u3 < W
  v0 : st.v0 < W
  v1 : st.v1 < W
  v2 : st.v2 < W
  v3 : st.v3 < W

theorem half_lt_pow (V V1 f : Nat) (h : 2 * V1 + 0 = V) (hf : V < 2 ^ (f + 1)) : V1 < 2 ^ f := by
  rw [pow_succ] at hf; omega

/-- the `v` loop: strips the powers of two from `v`, halving `s` modulo `q` as often -/
theorem loopV_spec : ∀ (f : Nat) (st : St), Limbs st → Sv st < Q → 0 < Vv st → Vv st < 2 ^ f →
    ∃ st', loopV f st = some st' ∧ Limbs st' ∧ Sv st' < Q ∧ Uv st' = Uv st ∧ Rv st' = Rv st ∧
      Vv st' % 2 = 1 ∧ ∃ k, Vv st = 2 ^ k * Vv st' ∧ (2 ^ k * Sv st') % Q = Sv st := by
  intro f
  induction f with
  | zero => intro st _ _ h0 h1; omega
  | succ f ih =>
    intro st hl hS h0 hf
    by_cases hc : Vv st % 2 = 0
    · obtain ⟨c', s0', s1', s2', s3', v0', v1', v2', v3', hb, b0, b1, b2, b3, b4, b5, b6, b7, hv, hs1, hs2⟩ :=
        loop1_body_ok st.carry st.s0 st.s1 st.s2 st.s3 st.v0 st.v1 st.v2 st.v3
          hl.s0 hl.s1 hl.s2 hl.s3 hl.v0 hl.v1 hl.v2 hl.v3 hS
      have hcond := (loop1_cond_iff st.carry st.s0 st.s1 st.s2 st.s3 st.v0 st.v1 st.v2 st.v3).2 hc
      have hstep : loopV (f + 1) st = loopV f
          { st with
            carry := c', s0 := s0', s1 := s1', s2 := s2', s3 := s3',
            v0 := v0', v1 := v1', v2 := v2', v3 := v3' } := by
        rw [loopV, if_pos hcond, hb]
      have hv0 : st.v0 % 2 = 0 := by rw [← val4_mod2 st.v0 st.v1 st.v2 st.v3]; exact hc
      rw [hv0] at hv
      obtain ⟨st', h1, hl', hS', hU', hR', hodd, k, hk1, hk2⟩ :=
        ih
          { st with
            carry := c', s0 := s0', s1 := s1', s2 := s2', s3 := s3',
            v0 := v0', v1 := v1', v2 := v2', v3 := v3' }
          ⟨hl.r0, hl.r1, hl.r2, hl.r3, b0, b1, b2, b3, hl.u0, hl.u1, hl.u2, hl.u3, b4, b5, b6, b7⟩
          hs1 (by show 0 < val4 v0' v1' v2' v3'; unfold Vv at h0; omega) (half_lt_pow _ _ _ hv hf)
      refine ⟨st', hstep.trans h1, hl', hS', hU', hR', hodd, k + 1, ?_, halve_compose _ _ _ _ hs2 hk2⟩
      show val4 st.v0 st.v1 st.v2 st.v3 = _
      rw [← hv, pow_succ, Nat.mul_assoc, Nat.mul_comm (2 ^ k), Nat.mul_assoc, Nat.add_zero]
      congr 1
      rw [Nat.mul_comm]; exact hk1
    · have hcond : ¬ Inverse_loop1_cond st.carry st.s0 st.s1 st.s2 st.s3 st.v0 st.v1 st.v2 st.v3 = true :=
        fun h => hc ((loop1_cond_iff _ _ _ _ _ _ _ _ _).1 h)
      refine ⟨st, by rw [loopV, if_neg hcond], hl, hS, rfl, rfl, by omega, 0, by simp, by
        simp [Nat.mod_eq_of_lt hS]⟩

/-- the `u` loop: the same for `u` and `r` -/
theorem loopU_spec : ∀ (f : Nat) (st : St), Limbs st → Rv st < Q → 0 < Uv st → Uv st < 2 ^ f →
    ∃ st', loopU f st = some st' ∧ Limbs st' ∧ Rv st' < Q ∧ Vv st' = Vv st ∧ Sv st' = Sv st ∧
      Uv st' % 2 = 1 ∧ ∃ k, Uv st = 2 ^ k * Uv st' ∧ (2 ^ k * Rv st') % Q = Rv st := by
  intro f
  induction f with
  | zero => intro st _ _ h0 h1; omega
  | succ f ih =>
    intro st hl hS h0 hf
    by_cases hc : Uv st % 2 = 0
    · obtain ⟨c', s0', s1', s2', s3', v0', v1', v2', v3', hb, b0, b1, b2, b3, b4, b5, b6, b7, hv, hs1, hs2⟩ :=
        loop1_body_ok st.carry st.r0 st.r1 st.r2 st.r3 st.u0 st.u1 st.u2 st.u3
          hl.r0 hl.r1 hl.r2 hl.r3 hl.u0 hl.u1 hl.u2 hl.u3 hS
      have hcond := (loop1_cond_iff st.carry st.r0 st.r1 st.r2 st.r3 st.u0 st.u1 st.u2 st.u3).2 hc
      have hstep : loopU (f + 1) st = loopU f
          { st with
            carry := c', r0 := s0', r1 := s1', r2 := s2', r3 := s3',
            u0 := v0', u1 := v1', u2 := v2', u3 := v3' } := by
        rw [loopU, loop2_cond_eq, if_pos hcond, loop2_body_eq, hb]
      have hv0 : st.u0 % 2 = 0 := by rw [← val4_mod2 st.u0 st.u1 st.u2 st.u3]; exact hc
      rw [hv0] at hv
      obtain ⟨st', h1, hl', hS', hU', hR', hodd, k, hk1, hk2⟩ :=
        ih
          { st with
            carry := c', r0 := s0', r1 := s1', r2 := s2', r3 := s3',
            u0 := v0', u1 := v1', u2 := v2', u3 := v3' }
          ⟨b0, b1, b2, b3, hl.s0, hl.s1, hl.s2, hl.s3, b4, b5, b6, b7, hl.v0, hl.v1, hl.v2, hl.v3⟩
          hs1 (by show 0 < val4 v0' v1' v2' v3'; unfold Uv at h0; omega) (half_lt_pow _ _ _ hv hf)
      refine ⟨st', hstep.trans h1, hl', hS', hU', hR', hodd, k + 1, ?_, halve_compose _ _ _ _ hs2 hk2⟩
      show val4 st.u0 st.u1 st.u2 st.u3 = _
      rw [← hv, pow_succ, Nat.mul_assoc, Nat.mul_comm (2 ^ k), Nat.mul_assoc, Nat.add_zero]
      congr 1
      rw [Nat.mul_comm]; exact hk1
    · have hcond : ¬ Inverse_loop1_cond st.carry st.r0 st.r1 st.r2 st.r3 st.u0 st.u1 st.u2 st.u3 = true :=
        fun h => hc ((loop1_cond_iff _ _ _ _ _ _ _ _ _).1 h)
      refine ⟨st, by rw [loopU, loop2_cond_eq, if_neg hcond], hl, hS, rfl, rfl, by omega, 0, by simp, by
        simp [Nat.mod_eq_of_lt hS]⟩

end I3.InvLoop
